(* C13 model driver.  Normal mode: payload -> predicted result.  "--serve": instance-checker
   service used by the C++ sweep harness (every real reply is judged by the extracted chk_sweep). *)
let commas s = if s = "-" || s = "" then [] else String.split_on_char ',' s
let parse_req (s : string) : request * bool =
  (* an optional "depth@" prefix says the request is sent from inside a completion callback; the model is
     sequential, requests are listed in the order in which they are executed *)
  let s = match String.index_opt s '@' with Some i -> String.sub s (i + 1) (String.length s - i - 1) | None -> s in
  match String.split_on_char ',' s with
  | src :: dst :: tn :: port :: sub :: cc :: pid :: data :: rest ->
    ({ q_src = n_of_string src; q_dst = n_of_string dst; q_tn = n_of_int (ios tn);
       q_port = n_of_int (ios port); q_sub = n_of_int (ios sub); q_cc = n_of_int (ios cc);
       q_pid = n_of_int (ios pid); q_data = bytes_of_hex data }, rest = ["K"])
  | _ -> failwith ("bad req " ^ s)
let resp_s (r : response) =
  Printf.sprintf "%s,%s,%d,%d,%d,%d,%d,%d,%s" (string_of_n r.r_src) (string_of_n r.r_dst)
    (int_of_n r.r_tn) (int_of_n r.r_type) (int_of_n r.r_mc) (int_of_n r.r_sub) (int_of_n r.r_cc)
    (int_of_n r.r_pid) (hex_of_bytes r.r_data)
let parse_resp (s : string) : response option =
  if s = "none" then None else
  match String.split_on_char ',' s with
  | [src; dst; tn; ty; mc; sub; cc; pid; data] ->
    Some { r_src = n_of_string src; r_dst = n_of_string dst; r_tn = n_of_int (ios tn);
           r_type = n_of_int (ios ty); r_mc = n_of_int (ios mc); r_sub = n_of_int (ios sub);
           r_cc = n_of_int (ios cc); r_pid = n_of_int (ios pid); r_data = bytes_of_hex data }
  | _ -> failwith ("bad resp " ^ s)
let ropt_s = function None -> "none" | Some r -> resp_s r
let reply_s ((st, ro) : reply) = Printf.sprintf "%d:%s" (int_of_n st) (ropt_s ro)
let replies_s (l : reply list) = if l = [] then "-" else String.concat "|" (List.map reply_s l)
let parse_reply (s : string) : reply =
  let i = String.index s ':' in
  (n_of_int (ios (String.sub s 0 i)), parse_resp (String.sub s (i + 1) (String.length s - i - 1)))
let parse_replies (s : string) : reply list =
  if s = "-" then [] else List.map parse_reply (String.split_on_char '|' s)
let nlist_s (l : n list) = if l = [] then "-" else String.concat "," (List.map string_of_n l)
let parse_table (s : string) : ptable =
  List.map (fun e -> match String.split_on_char '.' e with
      | [p; g; st] -> (n_of_int (ios p), (g = "1", st = "1"))
      | _ -> failwith "bad table") (commas s)
let parse_kind (s : string) : kind =
  match String.split_on_char ':' s with
  | ["S"; incl; t] -> KSimple (incl = "1", parse_table t)
  | ["D"; ir; rt; is; st; n] -> KDimmer (ir = "1", parse_table rt, is = "1", parse_table st, n_of_int (ios n))
  | _ -> failwith "bad kind"

(* network configuration: host~domain~route_if~route_gw~dns+dns~iface+iface, iface = name.ip.mask.hw.index.type *)
let plus s = if s = "-" || s = "" then [] else String.split_on_char '+' s
let parse_net (s : string) : netcfg =
  match String.split_on_char '~' s with
  | [host; dom; rif; rgw; dns; ifs] ->
    { n_ifs = List.map (fun e -> match String.split_on_char '.' e with
          | [nm; ip; mask; hw; idx; ty] ->
            { if_name = bytes_of_hex nm; if_ip = n_of_string ip; if_mask = n_of_string mask; if_hw = bytes_of_hex hw;
              if_index = n_of_string idx; if_type = n_of_string ty;
              if_dhcp = n_of_int (int_of_string idx mod 3) }
          | _ -> failwith "bad iface") (plus ifs);
      n_route = Some (n_of_string rif, n_of_string rgw);
      n_host = bytes_of_hex host; n_domain = bytes_of_hex dom;
      n_dns = Some (List.map n_of_string (plus dns)) }
  | _ -> failwith "bad net"
let pid_start_address = 0x00f0 and pid_personality = 0x00e0
let handle (p : string) : string =
  match split p with
  | ["disp"; incl; uid; sub; rq; st] ->
    let q, _ = parse_req rq in
    let out, st' = test_dispatch (incl = "1") (n_of_string uid) (n_of_int (ios sub)) q (n_of_string st) in
    Printf.sprintf "n=%d;r=%s;st=%s;class=disp:%s" (List.length out) (replies_s out) (string_of_n st')
      (match out with [(s, None)] -> "status" ^ string_of_int (int_of_n s)
                    | [(_, Some r)] -> "type" ^ string_of_int (int_of_n r.r_type) | _ -> "other")
  | ["fan"; script; rq; st] ->
    let q, _ = parse_req rq in
    let es = List.map (fun e -> match String.split_on_char '.' e with
        | [a; b] -> (n_of_int (ios a), n_of_int (ios b)) | _ -> failwith "bad script") (commas script) in
    (match test_fan es q (n_of_string st) with
     | FUseAfterFree -> "uaf=1;class=fan:uaf"
     | FOk (out, st') ->
       Printf.sprintf "n=%d;r=%s;st=%s;class=fan:%d" (List.length out) (replies_s out) (string_of_n st')
         (List.length es))
  | ["help"; f; rq; a; s] ->
    let q, _ = parse_req rq in
    (match help_run (n_of_int (ios f)) q (List.map n_of_string (commas a)) (bytes_of_hex s) with
     | HOob -> "r=oob;class=help" ^ f ^ ":oob"
     | HR (r, (a', s')) ->
       Printf.sprintf "r=%s;a=%s;s=%s;class=help%s:%s" (ropt_s r) (nlist_s a') (hex_of_bytes s') f
         (match r with None -> "none" | Some r -> "type" ^ string_of_int (int_of_n r.r_type)))
  | ["ackt"; uid; s1; s2; s3; s4; seq] ->
    let cfg = { c_model = bytes_of_hex s1; c_manu = bytes_of_hex s2; c_label = bytes_of_hex s3;
                c_version = bytes_of_hex s4 } in
    let now = ref 0 in
    let hist = List.map (fun e ->
        let i = String.index e ':' in
        now := !now + 1000 * ios (String.sub e 0 i);
        (n_of_int !now, fst (parse_req (String.sub e (i + 1) (String.length e - i - 1)))))
        (String.split_on_char '/' seq) in
    let outs, st = at_run cfg (n_of_string uid) hist at_init in
    let acks = List.length (List.filter (fun o -> match o with
        | [(_, Some r)] -> int_of_n r.r_type = 1 | _ -> false) outs) in
    let qm = List.length (List.filter (fun o -> match o with
        | [(_, Some r)] -> int_of_n r.r_cc = 0x31 && int_of_n r.r_type = 0 && r.r_data = [] && int_of_n r.r_pid <> 0x30
        | _ -> false) outs) in
    Printf.sprintf "t=%s;qc=%d;class=ackt:timers%d" (String.concat "/" (List.map replies_s outs))
      (int_of_n (qcount st)) (min acks 3)
  | ["resp"; kind; uid; s1; s2; s3; s4; init; seq] ->
    let cfg = { c_model = bytes_of_hex s1; c_manu = bytes_of_hex s2; c_label = bytes_of_hex s3;
                c_version = bytes_of_hex s4 } in
    let hist = List.map (fun e -> fst (parse_req e)) (String.split_on_char '/' seq) in
    let acks outs = List.length (List.filter (fun o -> match o with
        | [(_, Some r)] -> int_of_n r.r_type = 0 | _ -> false) outs) in
    if kind = "advdimmer" then begin
      let outs, st = ad_run cfg (n_of_string uid) hist ad_init in
      let b x = if x then n_of_int 1 else N0 in
      let t3 (x, y) z = [x; y; z] and t4 ((x, y), z) w = [x; y; z; w] in
      let (mi, ms) = st.ad_min and (fa, fl) = st.ad_fail and (sa, sl) = st.ad_startup in
      Printf.sprintf "t=%s;a=%s;p=%s;class=resp:advdimmer:lock%d" (String.concat "/" (List.map replies_s outs))
        (nlist_s ([b st.ad_ident; st.ad_start; st.ad_pin; st.ad_max_level; st.ad_mode; st.ad_burn; b st.ad_post; st.ad_active;
                   st.ad_curve; st.ad_resp; st.ad_lock; st.ad_freq; st.ad_scene; st.ad_level; st.ad_merge]
                  @ t3 mi ms @ t4 fa fl @ t4 sa sl))
        (nlist_s (List.concat (List.map (fun (((u, f), w), pr) -> [u; f; w; pr]) st.ad_presets)))
        (int_of_n st.ad_lock)
    end else if kind = "dummy" then begin
      (match String.split_on_char '|' init with
       | [clk; um; up; uf; net; sens] ->
         (match commas clk with
          | [cv; _; y; mo; dd; hh; mi; ss] ->
            let mc = { mc_strs = cfg; mc_codever = bytes_of_hex cv; mc_year = n_of_int (ios y); mc_mon = n_of_int (ios mo);
                       mc_day = n_of_int (ios dd); mc_hour = n_of_int (ios hh); mc_min = n_of_int (ios mi);
                       mc_sec = n_of_int (ios ss) } in
            let dc = { dc_strs = cfg; dc_codever = bytes_of_hex cv; dc_url_manu = bytes_of_hex um;
                       dc_url_product = bytes_of_hex up; dc_url_firmware = bytes_of_hex uf; dc_clock = mc;
                       dc_net = parse_net net } in
            let st0 = dr_init (cfg_sensors N0 (List.map n_of_string (commas sens))) in
            let outs, st = dr_run dc (n_of_string uid) hist st0 in
            Printf.sprintf "t=%s;a=%s;s=%s;class=resp:dummy:acks%d" (String.concat "/" (List.map replies_s outs))
              (nlist_s [st.dr_start; st.dr_active; (if st.dr_ident then n_of_int 1 else N0); st.dr_strikes])
              (nlist_s (sensors_dyn st.dr_sensors)) (min 3 (acks outs / 8))
          | _ -> "bad-init")
       | _ -> "bad-init")
    end else if kind = "network" then begin
      let nc = { nc_strs = cfg; nc_net = parse_net init } in
      let outs, st = nr_run nc (n_of_string uid) hist false in
      Printf.sprintf "t=%s;a=%s;class=resp:network:acks%d" (String.concat "/" (List.map replies_s outs))
        (bool01 st) (min 3 (acks outs / 8))
    end else if kind = "moving" then begin
      (match commas init with
       | [cv; _; y; mo; dd; hh; mi; ss] ->
         let mc = { mc_strs = cfg; mc_codever = bytes_of_hex cv; mc_year = n_of_int (ios y); mc_mon = n_of_int (ios mo);
                    mc_day = n_of_int (ios dd); mc_hour = n_of_int (ios hh); mc_min = n_of_int (ios mi);
                    mc_sec = n_of_int (ios ss) } in
         let outs, st = ml_run mc (n_of_string uid) hist ml_init in
         let b x = if x then n_of_int 1 else N0 in
         Printf.sprintf "t=%s;a=%s;s=%s;l=%s;class=resp:moving:acks%d" (String.concat "/" (List.map replies_s outs))
           (nlist_s [st.ml_start; st.ml_active; b st.ml_ident; st.ml_dev_hours; st.ml_lamp_hours; st.ml_lamp_strikes;
                     st.ml_lamp_state; st.ml_lamp_on_mode; st.ml_power_cycles; st.ml_disp_inv; st.ml_disp_level;
                     b st.ml_pan_inv; b st.ml_tilt_inv; b st.ml_swap; st.ml_power])
           (hex_of_bytes st.ml_label) (hex_of_bytes st.ml_lang) (min 3 (acks outs / 8))
       | _ -> "bad-init")
    end else if kind = "sensor" then begin
      let st0 = { sr_ident = false; sr_sensors = cfg_sensors N0 (List.map n_of_string (commas init)) } in
      let outs, st = sr_run cfg (n_of_string uid) hist st0 in
      Printf.sprintf "t=%s;a=%s;id=%s;class=resp:sensor:acks%d" (String.concat "/" (List.map replies_s outs))
        (nlist_s (sensors_dyn st.sr_sensors)) (bool01 st.sr_ident) (min 3 (acks outs / 8))
    end else begin
      let n = ios (String.sub kind 6 (String.length kind - 6)) in
      match dm_run cfg (n_of_string uid) hist (dm_init (n_of_int n)) with
      | None -> "uaf=1;class=resp:dimmer:uaf"
      | Some (outs, st) ->
        Printf.sprintf "t=%s;a=%s;class=resp:%s:acks%d" (String.concat "/" (List.map replies_s outs))
          (nlist_s (List.concat (List.map (fun s -> [s.ds_active; s.ds_start; (if s.ds_ident then n_of_int 1 else N0); s.ds_mode])
                                   st.dm_subs) @ [(if st.dm_ident then n_of_int 1 else N0); st.dm_mode]))
          kind (min 3 (acks outs / 8))
    end
  | ["sweep"; kind; uid; seq] ->
    let uid = n_of_string uid in
    let reqs = List.map parse_req (String.split_on_char '/' seq) in
    let bad = ref [] and known = ref [] in
    List.iteri (fun i (q, flag) ->
        let own = q.q_dst = uid in
        if kind = "dummy" && own && int_of_n q.q_sub = 0 && known_testdata q then begin
          bad := Printf.sprintf "%d:11" i :: !bad; known := "C13-testdata-over-231" :: !known end
        else if String.length kind >= 6 && String.sub kind 0 6 = "dimmer" && flag && own && int_of_n q.q_sub = 0xffff && int_of_n q.q_cc = 0x30
                && (int_of_n q.q_pid = pid_start_address || int_of_n q.q_pid = pid_personality) then begin
          bad := Printf.sprintf "%d:13" i :: !bad; known := "C13-fanout-mixed-nack" :: !known end)
      reqs;
    Printf.sprintf "n=%d;chk=%s%s;class=sweep:%s" (List.length reqs)
      (if !bad = [] then "ok" else String.concat "," (List.rev !bad))
      (match !known with [] -> "" | k :: _ -> ";known=" ^ k) kind
  | _ -> "bad-op"

(* service: "K <id> <kindspec>" registers a responder description, "T <id> <uid> <req> <replies>
   <sb> <sa>" answers with the verdict code of chk_sweep (0 = conformant) *)
let serve () =
  let kinds = Hashtbl.create 16 in
  (try
     while true do
       let line = input_line stdin in
       (match split line with
        | ["K"; id; spec] -> Hashtbl.replace kinds id (parse_kind spec); print_string "ok\n"
        | ["T"; id; uid; rq; reps; sb; sa] ->
          let q, _ = parse_req rq in
          let c = chk_sweep (Hashtbl.find kinds id) (n_of_string uid) q (parse_replies reps)
              (n_of_string sb) (n_of_string sa) in
          print_string (string_of_int (int_of_n c) ^ "\n")
        | _ -> print_string "err\n");
       flush stdout
     done
   with End_of_file -> ())

let () = if Array.length Sys.argv > 1 && Sys.argv.(1) = "--serve" then serve () else vh_run handle
