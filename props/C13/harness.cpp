// C13 correspondence harness: real ResponderOps / ResponderHelper / SubDeviceDispatcher and the
// eight built-in responders (ASan/UBSan build of the repository working tree).
#include <errno.h>
#include <signal.h>
#include <stdint.h>
#include <stdio.h>
#include <string.h>
#include <sys/types.h>
#include <sys/wait.h>
#include <time.h>
#include <unistd.h>
#include <algorithm>
#include <map>
#include <memory>
#include <queue>
#include <set>
#include <sstream>
#include <string>
#include <vector>
#include "vh.h"
#define private public
#define protected public
#include "ola/Callback.h"
#include "ola/Logging.h"
#include "ola/rdm/AckTimerResponder.h"
#include "ola/rdm/AdvancedDimmerResponder.h"
#include "ola/rdm/DimmerResponder.h"
#include "ola/rdm/DimmerRootDevice.h"
#include "ola/rdm/DimmerSubDevice.h"
#include "ola/rdm/DummyResponder.h"
#include "ola/rdm/MovingLightResponder.h"
#include "ola/rdm/NetworkResponder.h"
#include "ola/rdm/RDMCommand.h"
#include "ola/rdm/RDMControllerInterface.h"
#include "ola/rdm/RDMEnums.h"
#include "ola/rdm/RDMReply.h"
#include "ola/rdm/ResponderHelper.h"
#include "ola/rdm/ResponderOps.h"
#include "ola/rdm/ResponderPersonality.h"
#include "ola/rdm/ResponderSensor.h"
#include "ola/rdm/ResponderSettings.h"
#include "ola/rdm/ResponderSlotData.h"
#include "ola/rdm/SensorResponder.h"
#include "ola/rdm/SubDeviceDispatcher.h"
#include "ola/rdm/UID.h"
#include "common/rdm/FakeNetworkManager.h"
#undef private
#undef protected

using namespace ola::rdm;  // NOLINT
using std::string;
using std::vector;

// ---- fake monotonic clock (AckTimerResponder owns a concrete ola::Clock)
static long long g_now_ns = 1000LL * 1000000000LL;
extern "C" int __real_clock_gettime(clockid_t id, struct timespec *ts);
extern "C" int __wrap_clock_gettime(clockid_t id, struct timespec *ts) {
  if (id == CLOCK_MONOTONIC) {
    ts->tv_sec = g_now_ns / 1000000000LL;
    ts->tv_nsec = g_now_ns % 1000000000LL;
    return 0;
  }
  return __real_clock_gettime(id, ts);
}

// ---- fake wall clock for REAL_TIME_CLOCK (0 = real time)
static time_t g_fake_time = 0;
extern "C" time_t __real_time(time_t *t);
extern "C" time_t __wrap_time(time_t *t) {
  if (!g_fake_time) return __real_time(t);
  if (t) *t = g_fake_time;
  return g_fake_time;
}

// ---- printing / parsing
static string uid_s(const UID &u) {
  return vh::str((static_cast<unsigned long long>(u.ManufacturerId()) << 32) | u.DeviceId());
}
static UID uid_p(const string &s) {
  unsigned long long v = vh::num(s);
  return UID(static_cast<uint16_t>(v >> 32), static_cast<uint32_t>(v & 0xffffffffULL));
}
static string resp_s(const RDMResponse *r) {
  if (!r) return "none";
  std::ostringstream o;
  o << uid_s(r->SourceUID()) << "," << uid_s(r->DestinationUID()) << ","
    << static_cast<int>(r->TransactionNumber()) << "," << static_cast<int>(r->ResponseType()) << ","
    << static_cast<int>(r->MessageCount()) << "," << r->SubDevice() << ","
    << static_cast<int>(r->CommandClass()) << "," << r->ParamId() << ","
    << vh::hex(r->ParamData(), r->ParamData() ? r->ParamDataSize() : 0);
  return o.str();
}
struct Req {
  UID src, dst; uint8_t tn, port; uint16_t sub; int cc; uint16_t pid; vector<uint8_t> data;
  string text; bool flag;
  Req() : src(0, 0), dst(0, 0), flag(false) {}
};
static Req req_p(const string &s) {
  vector<string> f = vh::split(s, ',');
  Req q;
  q.src = uid_p(f[0]); q.dst = uid_p(f[1]); q.tn = vh::num(f[2]); q.port = vh::num(f[3]);
  q.sub = vh::num(f[4]); q.cc = vh::num(f[5]); q.pid = vh::num(f[6]); q.data = vh::unhex(f[7]);
  q.flag = f.size() > 8;
  q.text = f[0];
  for (int i = 1; i < 8; i++) q.text += "," + f[i];
  return q;
}
static RDMRequest *mk(const Req &q) {
  return new RDMRequest(q.src, q.dst, q.tn, q.port, q.sub,
                        static_cast<RDMCommand::RDMCommandClass>(q.cc), q.pid,
                        q.data.empty() ? NULL : q.data.data(), q.data.size());
}

// ---- completion capture
struct Capture {
  vector<string> replies;          // "status:resp"
  vector<int> status;
  vector<int> rtype;               // response type or -1
  vector<vector<uint8_t> > rdata;
  void Done(RDMReply *reply) {
    const RDMResponse *r = reply->Response();
    replies.push_back(vh::str(static_cast<int>(reply->StatusCode())) + ":" + resp_s(r));
    status.push_back(reply->StatusCode());
    rtype.push_back(r ? r->ResponseType() : -1);
    rdata.push_back(r && r->ParamData() ? vector<uint8_t>(r->ParamData(), r->ParamData() + r->ParamDataSize())
                                        : vector<uint8_t>());
  }
  string Joined() const {
    if (replies.empty()) return "-";
    string s = replies[0];
    for (size_t i = 1; i < replies.size(); i++) s += "|" + replies[i];
    return s;
  }
};
static void send(RDMControllerInterface *dev, const Req &q, Capture *c) {
  dev->SendRDMRequest(mk(q), ola::NewSingleCallback(c, &Capture::Done));
}

// ================= layer 1: scripted target on the real ResponderOps =================
class TestTarget {
 public:
  uint32_t st;
  RDMResponse *Echo(const RDMRequest *r) {
    return GetResponseFromData(r, r->ParamData(), r->ParamDataSize());
  }
  RDMResponse *Store(const RDMRequest *r) {
    st = st + r->ParamDataSize() + 1;
    return GetResponseFromData(r, NULL, 0);
  }
  RDMResponse *Null(const RDMRequest *) { st = st + 1; return NULL; }
  RDMResponse *Nack(const RDMRequest *r) { return NackWithReason(r, NR_DATA_OUT_OF_RANGE, 7); }
  static const ResponderOps<TestTarget>::ParamHandler HANDLERS[];
};
const ResponderOps<TestTarget>::ParamHandler TestTarget::HANDLERS[] = {
  { 0x8005, &TestTarget::Nack, &TestTarget::Nack },
  { PID_DEVICE_INFO, &TestTarget::Echo, NULL },
  { 0x8001, &TestTarget::Echo, &TestTarget::Store },
  { 0x8002, &TestTarget::Echo, NULL },
  { 0x8003, NULL, &TestTarget::Store },
  { 0x8004, &TestTarget::Null, &TestTarget::Null },
  { 0, NULL, NULL },
};
class TargetDevice : public RDMControllerInterface {
 public:
  TestTarget t; UID uid; uint16_t sub; ResponderOps<TestTarget> *ops;
  TargetDevice(const UID &u, uint16_t s, ResponderOps<TestTarget> *o) : uid(u), sub(s), ops(o) {}
  void SendRDMRequest(RDMRequest *request, RDMCallback *cb) {
    ops->HandleRDMRequest(&t, uid, sub, request, cb);
  }
};
static string do_disp(const vector<string> &a) {
  static ResponderOps<TestTarget> ops0(TestTarget::HANDLERS, false), ops1(TestTarget::HANDLERS, true);
  TargetDevice dev(uid_p(a[2]), vh::num(a[3]), a[1] == "1" ? &ops1 : &ops0);
  dev.t.st = vh::num(a[5]);
  Capture c;
  send(&dev, req_p(a[4]), &c);
  return "n=" + vh::str(c.replies.size()) + ";r=" + c.Joined() + ";st=" + vh::str(dev.t.st);
}

// ================= fan-out: real SubDeviceDispatcher, scripted sub-devices =================
class Scripted : public RDMControllerInterface {
 public:
  int status, kind; uint32_t *st;
  Scripted(int s, int k, uint32_t *state) : status(s), kind(k), st(state) {}
  void SendRDMRequest(RDMRequest *request, RDMCallback *cb) {
    std::auto_ptr<RDMRequest> r(request);
    RDMResponse *resp = kind == 0 ? NULL :
        kind == 1 ? GetResponseFromData(request, request->ParamData(), request->ParamDataSize())
                  : NackWithReason(request, NR_DATA_OUT_OF_RANGE);
    *st = *st + 1;
    RDMReply reply(static_cast<RDMStatusCode>(status), resp);
    cb->Run(&reply);
  }
};
static string do_fan(const vector<string> &a) {
  uint32_t st = vh::num(a[3]);
  SubDeviceDispatcher disp;
  vector<Scripted*> devs;
  if (a[1] != "-") {
    vector<string> es = vh::split(a[1], ',');
    for (size_t i = 0; i < es.size(); i++) {
      vector<string> e = vh::split(es[i], '.');
      devs.push_back(new Scripted(vh::num(e[0]), vh::num(e[1]), &st));
      disp.AddSubDevice(i + 1, devs.back());
    }
  }
  Capture c;
  send(&disp, req_p(a[2]), &c);
  for (size_t i = 0; i < devs.size(); i++) delete devs[i];
  return "n=" + vh::str(c.replies.size()) + ";r=" + c.Joined() + ";st=" + vh::str(st);
}

// ================= layer 3: ResponderHelper on fixed configurations =================
class TestSensor : public Sensor {
 public:
  int16_t poll;
  TestSensor(rdm_sensor_type t, rdm_pid_unit u, rdm_pid_prefix p, const string &d,
             const SensorOptions &o) : Sensor(t, u, p, d, o), poll(0) {}
 protected:
  int16_t PollSensor() { return poll; }
};
static void make_test_sensors(const vector<unsigned long long> &a, Sensors *ss) {
  size_t n = a.size() / 4;
  for (size_t i = 0; i < n; i++) {
    TestSensor *t;
    if (i == 0) t = new TestSensor(static_cast<rdm_sensor_type>(0), static_cast<rdm_pid_unit>(1), static_cast<rdm_pid_prefix>(0),
                                   "Fake Temperature", Sensor::SensorOptions(true, true, 0, 100, 10, 20));
    else if (i == 1) t = new TestSensor(static_cast<rdm_sensor_type>(1), static_cast<rdm_pid_unit>(2), static_cast<rdm_pid_prefix>(3),
                                        "No recorded value", Sensor::SensorOptions(false, true, -100, 100, -10, 10));
    else t = new TestSensor(static_cast<rdm_sensor_type>(4), static_cast<rdm_pid_unit>(0), static_cast<rdm_pid_prefix>(9),
                            "A sensor whose description is longer than the field",
                            Sensor::SensorOptions(true, false, 0, -1, 0, 1));
    t->poll = a[4 * i]; t->m_lowest = a[4 * i + 1]; t->m_highest = a[4 * i + 2]; t->m_recorded = a[4 * i + 3];
    ss->push_back(t);
  }
}
static string sensors_dyn_s(const Sensors &ss) {
  vector<unsigned long long> a;
  for (size_t i = 0; i < ss.size(); i++) {
    TestSensor *t = static_cast<TestSensor*>(ss[i]);
    a.push_back(static_cast<uint16_t>(t->poll)); a.push_back(static_cast<uint16_t>(t->m_lowest));
    a.push_back(static_cast<uint16_t>(t->m_highest)); a.push_back(static_cast<uint16_t>(t->m_recorded));
  }
  if (a.empty()) return "-";
  string s = vh::str(a[0]);
  for (size_t i = 1; i < a.size(); i++) s += "," + vh::str(a[i]);
  return s;
}
static const PersonalityCollection *cfg_pers() {
  static PersonalityCollection *inst = NULL;
  if (!inst) {
    SlotDataCollection::SlotDataList s2;
    s2.push_back(SlotData::PrimarySlot(SD_INTENSITY, 0));
    s2.push_back(SlotData::SecondarySlot(ST_SEC_FINE, 0, 0));
    s2.push_back(SlotData::PrimarySlot(SD_PAN, 127));
    s2.push_back(SlotData::PrimarySlot(SD_TILT, 127));
    s2.push_back(SlotData::PrimarySlot(SD_UNDEFINED, 0, "Foo"));
    SlotDataCollection::SlotDataList s6;
    s6.push_back(SlotData::PrimarySlot(SD_INTENSITY, 255,
                                       "Slot description which exceeds the thirty two byte limit"));
    PersonalityCollection::PersonalityList p;
    p.push_back(Personality(0, "Zero"));
    p.push_back(Personality(5, "Personality 2", SlotDataCollection(s2)));
    p.push_back(Personality(512, "A description that is much longer than thirty-two bytes"));
    p.push_back(Personality(513, "Too big"));
    p.push_back(Personality(65535, ""));
    p.push_back(Personality(1, "One", SlotDataCollection(s6)));
    inst = new PersonalityCollection(p);
  }
  return inst;
}
static const char *SET_A[] = {"Linear Curve", "Square Law Curve", "S Curve"};
static const char *SET_B[] = {"Unlocked", "Start Address Locked",
                              "Address and Personalities Locked, a long description"};
static string list_s(const vector<unsigned long long> &v) {
  if (v.empty()) return "-";
  string s = vh::str(v[0]);
  for (size_t i = 1; i < v.size(); i++) s += "," + vh::str(v[i]);
  return s;
}
static string do_help(const vector<string> &arg) {
  int f = vh::num(arg[1]);
  Req rq = req_p(arg[2]);
  vector<unsigned long long> a;
  if (arg[3] != "-") { vector<string> p = vh::split(arg[3], ','); for (size_t i = 0; i < p.size(); i++) a.push_back(vh::num(p[i])); }
  vector<uint8_t> sv = vh::unhex(arg[4]);
  string s(sv.begin(), sv.end());
  std::auto_ptr<RDMRequest> q(mk(rq));
  std::auto_ptr<RDMResponse> r;
  PersonalityManager pm(cfg_pers());
  bool ok = true;
  #define NEED(n) if (a.size() != (n)) { ok = false; break; }
  switch (f) {
    case 0: NEED(3)
      r.reset(a[0] == 1 ? ResponderHelper::GetUInt8Value(q.get(), a[1], a[2]) :
              a[0] == 2 ? ResponderHelper::GetUInt16Value(q.get(), a[1], a[2]) :
                          ResponderHelper::GetUInt32Value(q.get(), a[1], a[2]));
      break;
    case 1: { NEED(3)
      if (a[0] == 1) { uint8_t v = a[1]; r.reset(ResponderHelper::SetUInt8Value(q.get(), &v, a[2])); a[1] = v; }
      else if (a[0] == 2) { uint16_t v = a[1]; r.reset(ResponderHelper::SetUInt16Value(q.get(), &v, a[2])); a[1] = v; }
      else { uint32_t v = a[1]; r.reset(ResponderHelper::SetUInt32Value(q.get(), &v, a[2])); a[1] = v; }
      break; }
    case 2: NEED(2) r.reset(ResponderHelper::GetBoolValue(q.get(), a[0] != 0, a[1])); break;
    case 3: { NEED(2) bool v = a[0] != 0; r.reset(ResponderHelper::SetBoolValue(q.get(), &v, a[1])); a[0] = v ? 1 : 0; break; }
    case 4: NEED(2) r.reset(ResponderHelper::GetString(q.get(), s, a[0], a[1])); break;
    case 5: NEED(2) r.reset(ResponderHelper::SetString(q.get(), &s, a[0], a[1])); break;
    case 6: NEED(2) pm.m_active_personality = a[0]; r.reset(ResponderHelper::GetPersonality(q.get(), &pm, a[1])); break;
    case 7: NEED(3) pm.m_active_personality = a[0];
      r.reset(ResponderHelper::SetPersonality(q.get(), &pm, a[1], a[2])); a[0] = pm.m_active_personality; break;
    case 8: NEED(1) r.reset(ResponderHelper::GetPersonalityDescription(q.get(), &pm, a[0])); break;
    case 9: NEED(3) pm.m_active_personality = a[0]; r.reset(ResponderHelper::GetDmxAddress(q.get(), &pm, a[1], a[2])); break;
    case 10: { NEED(3) pm.m_active_personality = a[0]; uint16_t v = a[1];
      r.reset(ResponderHelper::SetDmxAddress(q.get(), &pm, &v, a[2])); a[1] = v; break; }
    case 11: NEED(2) pm.m_active_personality = a[0]; r.reset(ResponderHelper::GetSlotInfo(q.get(), &pm, a[1])); break;
    case 12: NEED(2) pm.m_active_personality = a[0]; r.reset(ResponderHelper::GetSlotDescription(q.get(), &pm, a[1])); break;
    case 13: NEED(2) pm.m_active_personality = a[0]; r.reset(ResponderHelper::GetSlotDefaultValues(q.get(), &pm, a[1])); break;
    case 14: NEED(10)
      r.reset(ResponderHelper::GetDeviceInfo(q.get(), a[0], static_cast<rdm_product_category>(a[1]), a[2], a[3],
                                             a[4], a[5], a[6], a[7], a[8], a[9]));
      break;
    case 15: case 16: case 17: case 18: {
      Sensors ss;
      size_t n = a.size() / 4;
      make_test_sensors(a, &ss);
      r.reset(f == 15 ? ResponderHelper::GetSensorDefinition(q.get(), ss) :
              f == 16 ? ResponderHelper::GetSensorValue(q.get(), ss) :
              f == 17 ? ResponderHelper::SetSensorValue(q.get(), ss) :
                        ResponderHelper::RecordSensor(q.get(), ss));
      a.resize(4 * n);
      for (size_t i = 0; i < n; i++) {
        TestSensor *t = static_cast<TestSensor*>(ss[i]);
        a[4 * i] = static_cast<uint16_t>(t->poll); a[4 * i + 1] = static_cast<uint16_t>(t->m_lowest);
        a[4 * i + 2] = static_cast<uint16_t>(t->m_highest); a[4 * i + 3] = static_cast<uint16_t>(t->m_recorded);
        delete t;
      }
      break; }
    case 19: case 20: case 21: {
      if (a.size() != (f == 21 ? 1u : 2u)) { ok = false; break; }
      static SettingCollection<BasicSetting> ca(SET_A, 3, false), cb(SET_B, 3, true);
      SettingManager<BasicSetting> m(a[0] == 0 ? &ca : &cb);
      if (f != 21) m.m_current_setting = a[1];
      r.reset(f == 19 ? m.Get(q.get()) : f == 20 ? m.Set(q.get()) : m.GetDescription(q.get()));
      if (f == 20) a[1] = m.m_current_setting;
      break; }
    case 24: {
      UID uid(0x7a70, 1);
      size_t n = a.size() / 2;
      std::map<uint16_t, DimmerSubDevice*> subs;
      for (size_t i = 0; i < n; i++) {
        DimmerSubDevice *d = new DimmerSubDevice(uid, i + 1, n);
        d->m_personality_manager.m_active_personality = a[2 * i];
        d->m_start_address = a[2 * i + 1];
        subs[i + 1] = d;
      }
      DimmerRootDevice root(uid, subs);
      r.reset(root.SetDmxBlockAddress(q.get()));
      for (size_t i = 0; i < n; i++) {
        a[2 * i] = subs[i + 1]->m_personality_manager.m_active_personality;
        a[2 * i + 1] = subs[i + 1]->m_start_address;
        delete subs[i + 1];
      }
      break; }
    case 22: NEED(1) r.reset(ResponderHelper::GetTestData(q.get(), a[0])); break;
    case 23: NEED(1) r.reset(ResponderHelper::SetTestData(q.get(), a[0])); break;
    default: ok = false;
  }
  (void) ok;
  return "r=" + resp_s(r.get()) + ";a=" + list_s(a) + ";s=" + vh::hex(s);
}

// ================= sweep over the built-in responders =================
// connection to the extracted, Coq-proved instance checker (model_driver --serve)
static FILE *g_to = NULL, *g_from = NULL;
static bool checker_start() {
  if (g_to) return true;
  char exe[4096];
  ssize_t n = readlink("/proc/self/exe", exe, sizeof(exe) - 1);
  if (n <= 0) return false;
  exe[n] = 0;
  string path(exe);
  path = path.substr(0, path.rfind('/')) + "/model_driver";
  if (const char *e = getenv("C13_CHECKER")) path = e;
  int a[2], b[2];
  if (pipe(a) || pipe(b)) return false;
  pid_t pid = fork();
  if (pid < 0) return false;
  if (pid == 0) {
    dup2(a[0], 0); dup2(b[1], 1);
    close(a[0]); close(a[1]); close(b[0]); close(b[1]);
    execl(path.c_str(), path.c_str(), "--serve", static_cast<char*>(NULL));
    _exit(127);
  }
  close(a[0]); close(b[1]);
  g_to = fdopen(a[1], "w");
  g_from = fdopen(b[0], "r");
  return g_to && g_from;
}
static string checker_ask(const string &line) {
  if (!checker_start()) return "nochecker";
  fputs(line.c_str(), g_to); fputc('\n', g_to); fflush(g_to);
  char buf[256];
  if (!fgets(buf, sizeof(buf), g_from)) return "nochecker";
  string s(buf);
  while (!s.empty() && (s[s.size() - 1] == '\n' || s[s.size() - 1] == '\r')) s.erase(s.size() - 1);
  return s;
}

template <class Ops>
static string table_s(Ops *ops, bool *incl) {
  string s;
  *incl = ops->m_include_required_pids;
  for (typename Ops::RDMHandlers::const_iterator i = ops->m_handlers.begin(); i != ops->m_handlers.end(); ++i) {
    if (!s.empty()) s += ",";
    s += vh::str(i->first) + "." + (i->second.get_handler ? "1" : "0") + "." + (i->second.set_handler ? "1" : "0");
  }
  return s.empty() ? "-" : s;
}
template <class Ops>
static void getpids(Ops *ops, vector<uint16_t> *out) {
  for (typename Ops::RDMHandlers::const_iterator i = ops->m_handlers.begin(); i != ops->m_handlers.end(); ++i)
    if (i->second.get_handler) out->push_back(i->first);
}

struct Target {
  std::auto_ptr<RDMControllerInterface> dev;
  string spec;                                   // kind description for the checker
  std::map<uint16_t, vector<uint16_t> > gets;   // sub-device -> GET-able PIDs
};
static bool make_target(const string &kind, const UID &uid, Target *t) {
  bool incl;
  if (kind == "dummy") {
    t->dev.reset(new DummyResponder(uid));
    t->spec = "S:"; string tb = table_s(DummyResponder::RDMOps::Instance(), &incl);
    t->spec += string(incl ? "1" : "0") + ":" + tb;
    getpids(DummyResponder::RDMOps::Instance(), &t->gets[0]);
  } else if (kind == "moving") {
    t->dev.reset(new MovingLightResponder(uid));
    string tb = table_s(MovingLightResponder::RDMOps::Instance(), &incl);
    t->spec = string("S:") + (incl ? "1" : "0") + ":" + tb;
    getpids(MovingLightResponder::RDMOps::Instance(), &t->gets[0]);
  } else if (kind == "sensor") {
    t->dev.reset(new SensorResponder(uid));
    string tb = table_s(SensorResponder::RDMOps::Instance(), &incl);
    t->spec = string("S:") + (incl ? "1" : "0") + ":" + tb;
    getpids(SensorResponder::RDMOps::Instance(), &t->gets[0]);
  } else if (kind == "acktimer") {
    t->dev.reset(new AckTimerResponder(uid));
    string tb = table_s(AckTimerResponder::RDMOps::Instance(), &incl);
    t->spec = string("S:") + (incl ? "1" : "0") + ":" + tb;
    getpids(AckTimerResponder::RDMOps::Instance(), &t->gets[0]);
  } else if (kind == "advdimmer") {
    t->dev.reset(new AdvancedDimmerResponder(uid));
    string tb = table_s(AdvancedDimmerResponder::RDMOps::Instance(), &incl);
    t->spec = string("S:") + (incl ? "1" : "0") + ":" + tb;
    getpids(AdvancedDimmerResponder::RDMOps::Instance(), &t->gets[0]);
  } else if (kind == "network") {
    t->dev.reset(new NetworkResponder(uid));
    string tb = table_s(NetworkResponder::RDMOps::Instance(), &incl);
    t->spec = string("S:") + (incl ? "1" : "0") + ":" + tb;
    getpids(NetworkResponder::RDMOps::Instance(), &t->gets[0]);
  } else if (kind.compare(0, 6, "dimmer") == 0) {
    // "dimmer" = 2 sub-devices, "dimmerN" = N sub-devices
    const int NSUB = kind.size() > 6 ? static_cast<int>(vh::num(kind.substr(6))) : 2;
    t->dev.reset(new DimmerResponder(uid, NSUB));
    bool incl2;
    string rt = table_s(DimmerRootDevice::RDMOps::Instance(), &incl);
    string st = table_s(DimmerSubDevice::RDMOps::Instance(), &incl2);
    t->spec = string("D:") + (incl ? "1" : "0") + ":" + rt + ":" + (incl2 ? "1" : "0") + ":" + st + ":" + vh::str(NSUB);
    getpids(DimmerRootDevice::RDMOps::Instance(), &t->gets[0]);
    for (int i = 1; i <= NSUB; i++) getpids(DimmerSubDevice::RDMOps::Instance(), &t->gets[i]);
  } else {
    return false;
  }
  return true;
}

static bool volatile_pid(const string &kind, uint16_t pid) {
  if (pid == PID_REAL_TIME_CLOCK || pid == PID_SENSOR_VALUE || pid == PID_QUEUED_MESSAGE) return true;
  // the dummy responder reports the host's real network configuration
  if (kind == "dummy" && pid >= PID_LIST_INTERFACES && pid <= PID_DNS_DOMAIN_NAME) return true;
  return false;
}
static bool counter_pid(uint16_t pid) {   // GET post-increments the value: put it back
  return pid == PID_DEVICE_HOURS || pid == PID_LAMP_HOURS || pid == PID_DEVICE_POWER_CYCLES;
}

struct Fnv {
  uint64_t h;
  Fnv() : h(1469598103934665603ULL) {}
  void add(uint8_t b) { h ^= b; h *= 1099511628211ULL; }
  void add(const vector<uint8_t> &v) { for (size_t i = 0; i < v.size(); i++) add(v[i]); add(0xa5); add(v.size() & 255); }
};

// every GET-able parameter of every (sub-)device, as a digest
static uint64_t snapshot(const string &kind, Target *t, const UID &uid) {
  Fnv d;
  Req g;
  g.src = UID(0x7a70, 0x11223344); g.dst = uid; g.tn = 0; g.port = 1; g.cc = RDMCommand::GET_COMMAND;
  for (std::map<uint16_t, vector<uint16_t> >::iterator s = t->gets.begin(); s != t->gets.end(); ++s) {
    g.sub = s->first;
    for (size_t i = 0; i < s->second.size(); i++) {
      uint16_t pid = s->second[i];
      if (volatile_pid(kind, pid)) continue;
      g.pid = pid; g.data.clear();
      Capture c;
      send(t->dev.get(), g, &c);
      d.add(pid >> 8); d.add(pid & 255);
      if (c.replies.size() != 1) { d.add(0xee); continue; }
      bool format_err = c.rtype[0] == RDM_NACK_REASON && c.rdata[0].size() == 2 &&
                        c.rdata[0][0] == 0 && c.rdata[0][1] == NR_FORMAT_ERROR;
      if (!format_err) {
        d.add(c.rtype[0]); d.add(c.rdata[0]);
        if (counter_pid(pid) && c.rtype[0] == RDM_ACK && c.rdata[0].size() == 4) {
          Req p = g; p.cc = RDMCommand::SET_COMMAND; p.data = c.rdata[0];
          Capture c2; send(t->dev.get(), p, &c2);
        }
        continue;
      }
      // indexed parameter: probe small arguments of each width
      static const int widths[] = {1, 2, 4};
      for (int w = 0; w < 3; w++) {
        for (int v = 0; v <= 8; v++) {
          g.data.assign(widths[w], 0);
          g.data[widths[w] - 1] = v == 8 ? 0xff : v;
          Capture ci; send(t->dev.get(), g, &ci);
          if (ci.replies.size() != 1) { d.add(0xee); continue; }
          bool fe = ci.rtype[0] == RDM_NACK_REASON && ci.rdata[0].size() == 2 && ci.rdata[0][1] == NR_FORMAT_ERROR;
          if (fe) break;      // wrong width for this PID
          d.add(ci.rtype[0]); d.add(ci.rdata[0]);
        }
      }
    }
  }
  return d.h >> 4;
}

// ---- request outlines: "[dt:][depth@]request".  A request of depth d+1 is sent from INSIDE the completion
// callback of the closest preceding request of depth d (re-entrancy, what a queueing controller does);
// listed in pre-order, which is the order in which a sequential model sees them.
struct ONode {
  Req q; long long dt_ms; int depth; Capture cap; vector<size_t> kids;
  uint64_t sb, sa; bool sa_taken, sent;
  ONode() : dt_ms(0), depth(0), sb(0), sa(0), sa_taken(false), sent(false) {}
};
struct Outline;
struct OCb { Outline *o; size_t i; void Done(RDMReply *r); };
struct Outline {
  vector<ONode> n; vector<size_t> roots;
  RDMControllerInterface *dev; long long default_dt_ms;
  bool snap; string kind; Target *t; UID uid;
  Outline() : dev(NULL), default_dt_ms(0), snap(false), t(NULL), uid(0, 0) {}
  void Parse(const vector<string> &steps) {
    vector<size_t> stack;   // index of the last node at each depth
    n.resize(steps.size());
    for (size_t i = 0; i < steps.size(); i++) {
      string s = steps[i];
      n[i].dt_ms = default_dt_ms;
      size_t c = s.find(':');
      if (c != string::npos) { n[i].dt_ms = vh::num(s.substr(0, c)); s = s.substr(c + 1); }
      size_t at = s.find('@');
      int d = 0;
      if (at != string::npos) { d = vh::num(s.substr(0, at)); s = s.substr(at + 1); }
      if (d > static_cast<int>(stack.size())) d = stack.size();
      n[i].depth = d;
      n[i].q = req_p(s);
      stack.resize(d);
      if (d == 0) roots.push_back(i); else n[stack[d - 1]].kids.push_back(i);
      stack.push_back(i);
    }
  }
  bool IsSet(size_t i) const { return n[i].q.cc == RDMCommand::SET_COMMAND; }
  uint64_t Snap();
  void Run(size_t i) {
    n[i].sent = true;
    g_now_ns += 1000000LL * n[i].dt_ms;
    if (snap && IsSet(i)) n[i].sb = Snap();
    OCb *cb = new OCb();     // kept alive: a second completion must not touch freed memory of ours
    cb->o = this; cb->i = i;
    dev->SendRDMRequest(mk(n[i].q), ola::NewSingleCallback(cb, &OCb::Done));
    if (snap && IsSet(i) && !n[i].sa_taken) { n[i].sa = Snap(); n[i].sa_taken = true; }
  }
  void RunAll() { for (size_t r = 0; r < roots.size(); r++) Run(roots[r]); }
};
void OCb::Done(RDMReply *r) {
  ONode &nd = o->n[i];
  nd.cap.Done(r);
  if (nd.cap.replies.size() != 1) return;
  // the request is complete now: what is readable at this moment is the "after" state
  if (o->snap && o->IsSet(i)) { nd.sa = o->Snap(); nd.sa_taken = true; }
  for (size_t k = 0; k < nd.kids.size(); k++) o->Run(nd.kids[k]);
}
uint64_t Outline::Snap() { return snapshot(kind, t, uid); }

static string do_sweep(const vector<string> &a) {
  const string &kind = a[1];
  UID uid = uid_p(a[2]);
  Target t;
  if (!make_target(kind, uid, &t)) return "bad-kind";
  if (checker_ask("K " + kind + " " + t.spec) != "ok") return "n=0;chk=nochecker";
  Outline o;
  o.dev = t.dev.get(); o.default_dt_ms = 150; o.snap = true; o.kind = kind; o.t = &t; o.uid = uid;
  o.Parse(vh::split(a[3], '/'));
  o.RunAll();
  string bad;
  for (size_t i = 0; i < o.n.size(); i++) {
    ONode &nd = o.n[i];
    string verdict = nd.sent ? checker_ask("T " + kind + " " + a[2] + " " + nd.q.text + " " + nd.cap.Joined() + " " +
                                           vh::str(nd.sb) + " " + vh::str(nd.sa))
                             : string("unsent");   // its parent never completed
    if (verdict != "0") {
      if (!bad.empty()) bad += ",";
      bad += vh::str(i) + ":" + verdict;
      fprintf(stderr, "C13 sweep %s: request %zu depth %d [%s] -> [%s] sb=%llu sa=%llu verdict %s\n", kind.c_str(), i, nd.depth,
              nd.q.text.c_str(), nd.cap.Joined().c_str(), (unsigned long long) nd.sb, (unsigned long long) nd.sa, verdict.c_str());
    }
  }
  return "n=" + vh::str(o.n.size()) + ";chk=" + (bad.empty() ? "ok" : bad);
}

static string outline_trace(RDMControllerInterface *dev, const string &seq, long long default_dt_ms) {
  Outline o;
  o.dev = dev; o.default_dt_ms = default_dt_ms;
  o.Parse(vh::split(seq, '/'));
  o.RunAll();
  string t;
  for (size_t i = 0; i < o.n.size(); i++) {
    if (i) t += "/";
    t += o.n[i].sent ? o.n[i].cap.Joined() : string("unsent");
  }
  return t;
}

// ================= AckTimerResponder against its state-machine model =================
static string do_ackt(const vector<string> &a) {
  UID uid = uid_p(a[1]);
  AckTimerResponder dev(uid);
  string t = outline_trace(&dev, a[6], 0);
  return "t=" + t + ";qc=" + vh::str(static_cast<int>(dev.QueuedMessageCount()));
}

// a scripted NetworkManagerInterface: host~domain~route_if~route_gw~dns+dns~iface+iface
static ola::network::IPV4Address ip_of(unsigned long long v) {
  return ola::network::IPV4Address(ola::network::HostToNetwork(static_cast<uint32_t>(v)));
}
static NetworkManagerInterface *make_net(const string &s) {
  vector<string> f = vh::split(s, '~');
  vector<ola::network::Interface> ifs;
  if (f[5] != "-") {
    vector<string> es = vh::split(f[5], '+');
    for (size_t i = 0; i < es.size(); i++) {
      vector<string> e = vh::split(es[i], '.');
      vector<uint8_t> nm = vh::unhex(e[0]), hw = vh::unhex(e[3]);
      hw.resize(6, 0);
      ifs.push_back(ola::network::Interface(string(nm.begin(), nm.end()), ip_of(vh::num(e[1])), ip_of(0),
                                            ip_of(vh::num(e[2])), ola::network::MACAddress(hw.data()), false,
                                            static_cast<int32_t>(vh::num(e[4])), static_cast<uint16_t>(vh::num(e[5]))));
    }
  }
  vector<ola::network::IPV4Address> dns;
  if (f[4] != "-") { vector<string> ds = vh::split(f[4], '+'); for (size_t i = 0; i < ds.size(); i++) dns.push_back(ip_of(vh::num(ds[i]))); }
  vector<uint8_t> host = vh::unhex(f[0]), dom = vh::unhex(f[1]);
  return new FakeNetworkManager(ifs, static_cast<int32_t>(static_cast<uint32_t>(vh::num(f[2]))), ip_of(vh::num(f[3])),
                                string(host.begin(), host.end()), string(dom.begin(), dom.end()), dns);
}

// ================= whole responders against their handler-by-handler models =================
static string do_resp(const vector<string> &a) {
  const string &kind = a[1];
  UID uid = uid_p(a[2]);
  vector<string> steps = vh::split(a[8], '/');
  string t;
  if (kind == "sensor") {
    SensorResponder dev(uid);
    for (size_t i = 0; i < dev.m_sensors.size(); i++) delete dev.m_sensors[i];
    dev.m_sensors.clear();
    vector<unsigned long long> init;
    if (a[7] != "-") { vector<string> p = vh::split(a[7], ','); for (size_t i = 0; i < p.size(); i++) init.push_back(vh::num(p[i])); }
    make_test_sensors(init, &dev.m_sensors);
    t = outline_trace(&dev, a[8], 0);
    return "t=" + t + ";a=" + sensors_dyn_s(dev.m_sensors) + ";id=" + (dev.m_identify_mode ? "1" : "0");
  }
  if (kind == "advdimmer") {
    AdvancedDimmerResponder dev(uid);
    t = outline_trace(&dev, a[8], 0);
    std::ostringstream o, pr;
    o << (dev.m_identify_state ? 1 : 0) << "," << dev.m_start_address << "," << dev.m_lock_pin << "," << dev.m_maximum_level << ","
      << static_cast<int>(dev.m_identify_mode) << "," << static_cast<int>(dev.m_burn_in) << "," << (dev.m_power_on_self_test ? 1 : 0)
      << "," << static_cast<int>(dev.m_personality_manager.m_active_personality) << ","
      << static_cast<int>(dev.m_curve_settings.m_current_setting) << "," << static_cast<int>(dev.m_response_time_settings.m_current_setting)
      << "," << static_cast<int>(dev.m_lock_settings.m_current_setting) << "," << static_cast<int>(dev.m_frequency_settings.m_current_setting)
      << "," << dev.m_preset_scene << "," << static_cast<int>(dev.m_preset_level) << "," << static_cast<int>(dev.m_preset_mergemode)
      << "," << dev.m_min_level.min_level_increasing << "," << dev.m_min_level.min_level_decreasing << ","
      << static_cast<int>(dev.m_min_level.on_below_min)
      << "," << dev.m_fail_mode.scene << "," << dev.m_fail_mode.delay << "," << dev.m_fail_mode.hold_time << "," << static_cast<int>(dev.m_fail_mode.level)
      << "," << dev.m_startup_mode.scene << "," << dev.m_startup_mode.delay << "," << dev.m_startup_mode.hold_time << ","
      << static_cast<int>(dev.m_startup_mode.level);
    for (size_t i = 0; i < dev.m_presets.size(); i++) {
      if (i) pr << ",";
      pr << dev.m_presets[i].fade_up_time << "," << dev.m_presets[i].fade_down_time << "," << dev.m_presets[i].wait_time << ","
         << static_cast<int>(dev.m_presets[i].programmed);
    }
    return "t=" + t + ";a=" + o.str() + ";p=" + pr.str();
  }
  if (kind == "dummy") {
    vector<string> in = vh::split(a[7], '|');
    g_fake_time = static_cast<time_t>(vh::num(vh::split(in[0], ',')[1]));
    DummyResponder dev(uid);
    for (size_t i = 0; i < dev.m_sensors.size(); i++) delete dev.m_sensors[i];
    dev.m_sensors.clear();
    vector<unsigned long long> init;
    if (in[5] != "-") { vector<string> p = vh::split(in[5], ','); for (size_t i = 0; i < p.size(); i++) init.push_back(vh::num(p[i])); }
    make_test_sensors(init, &dev.m_sensors);
    dev.m_network_manager.reset(make_net(in[4]));
    t = outline_trace(&dev, a[8], 0);
    g_fake_time = 0;
    std::ostringstream o;
    o << dev.m_start_address << "," << static_cast<int>(dev.m_personality_manager.m_active_personality) << ","
      << (dev.m_identify_mode ? 1 : 0) << "," << dev.m_lamp_strikes;
    return "t=" + t + ";a=" + o.str() + ";s=" + sensors_dyn_s(dev.m_sensors);
  }
  if (kind == "network") {
    NetworkResponder dev(uid);
    dev.m_network_manager.reset(make_net(a[7]));
    t = outline_trace(&dev, a[8], 0);
    return "t=" + t + ";a=" + (dev.m_identify_mode ? "1" : "0");
  }
  if (kind == "moving") {
    vector<string> in = vh::split(a[7], ',');
    g_fake_time = static_cast<time_t>(vh::num(in[1]));
    MovingLightResponder dev(uid);
    t = outline_trace(&dev, a[8], 0);
    g_fake_time = 0;
    std::ostringstream o;
    o << dev.m_start_address << "," << static_cast<int>(dev.m_personality_manager.m_active_personality) << ","
      << (dev.m_identify_mode ? 1 : 0) << "," << dev.m_device_hours << "," << dev.m_lamp_hours << "," << dev.m_lamp_strikes << ","
      << static_cast<int>(dev.m_lamp_state) << "," << static_cast<int>(dev.m_lamp_on_mode) << "," << dev.m_device_power_cycles
      << "," << static_cast<int>(dev.m_display_invert) << "," << static_cast<int>(dev.m_display_level) << ","
      << (dev.m_pan_invert ? 1 : 0) << "," << (dev.m_tilt_invert ? 1 : 0) << "," << (dev.m_pan_tilt_swap ? 1 : 0) << ","
      << static_cast<int>(dev.m_power_state);
    return "t=" + t + ";a=" + o.str() + ";s=" + vh::hex(dev.m_device_label) + ";l=" + vh::hex(dev.m_language);
  }
  if (kind.compare(0, 6, "dimmer") == 0) {
    int n = vh::num(kind.substr(6));
    DimmerResponder dev(uid, n);
    t = outline_trace(&dev, a[8], 0);
    string st;
    for (std::map<uint16_t, DimmerSubDevice*>::iterator it = dev.m_sub_devices.begin(); it != dev.m_sub_devices.end(); ++it) {
      DimmerSubDevice *d = it->second;
      st += vh::str(static_cast<int>(d->m_personality_manager.m_active_personality)) + "," + vh::str(d->m_start_address) + "," +
            (d->m_identify_on ? "1" : "0") + "," + vh::str(static_cast<int>(d->m_identify_mode)) + ",";
    }
    st += string(dev.m_root_device->m_identify_on ? "1" : "0") + "," + vh::str(static_cast<int>(dev.m_root_device->m_identify_mode));
    return "t=" + t + ";a=" + st;
  }
  return "bad-kind";
}

static string handle(const string &p) {
  vector<string> a = vh::split(p);
  if (a[0] == "disp" && a.size() == 6) return do_disp(a);
  if (a[0] == "fan" && a.size() == 4) return do_fan(a);
  if (a[0] == "help" && a.size() == 5) return do_help(a);
  if (a[0] == "sweep" && a.size() == 4) return do_sweep(a);
  if (a[0] == "ackt" && a.size() == 7) return do_ackt(a);
  if (a[0] == "resp" && a.size() == 9) return do_resp(a);
  return "bad-op";
}

int main(int argc, char **argv) {
  ola::InitLogging(ola::OLA_LOG_NONE, ola::OLA_LOG_NULL);
  setenv("TZ", "UTC", 1);
  tzset();
  return vh::run(argc, argv, handle, 120);
}
