(* C18 proofs (wave 7): repetition and resources.  Every complete save script - successful or failing
   in any of the modelled ways - closes the descriptor it opens; any number of saves leaves the
   saver's descriptor count where it was and the file equal to the last store saved. *)
From OlaBase Require Import Bytes.
From Coq Require Import Sorted.
From C18 Require Import Model ProofsStr ProofsLoad ProofsCrash ProofsFail.
Local Open Scope N_scope.

Lemma fd_balance_app a b h : fd_balance (a ++ b) h = fd_balance b (fd_balance a h).
Proof. revert h. induction a as [|c a IH]; intros h; cbn [app fd_balance]; [reflexivity|apply IH]. Qed.
Lemma fd_balance_writes chunks h : fd_balance (map (SWrite Tmp) chunks) h = h.
Proof. revert h. induction chunks as [|c r IH]; intros h; cbn [map fd_balance]; [reflexivity|apply IH]. Qed.
Lemma fd_balance_body body h : Forall (fun x => tmp_write x = true) body -> fd_balance body h = h.
Proof.
  revert h. induction body as [|x r IH]; intros h F; cbn [fd_balance]; [reflexivity|].
  inversion F as [|? ? Hx Hr]; subst.
  destruct x as [p|p bs|p|a b|p|p|p|a b]; try discriminate; destruct p; try discriminate; apply IH; exact Hr.
Qed.

Lemma scripts_balanced h :
  (forall chunks, fd_balance (script_of_chunks chunks) h = h) /\
  (forall body, Forall (fun x => tmp_write x = true) body -> fd_balance (script_failed body) h = h) /\
  (forall chunks, fd_balance (script_close_failed chunks) h = h) /\
  (forall chunks, fd_balance (script_rename_failed chunks) h = h).
Proof.
  repeat split.
  - intros chunks. unfold script_of_chunks. cbn [app fd_balance]. rewrite fd_balance_app, fd_balance_writes. cbn [fd_balance]. lia.
  - intros body F. unfold script_failed. cbn [app fd_balance]. rewrite fd_balance_app. rewrite (fd_balance_body body _ F). cbn [fd_balance]. lia.
  - intros chunks. unfold script_close_failed. cbn [app fd_balance]. rewrite fd_balance_app, fd_balance_writes. cbn [fd_balance]. lia.
  - intros chunks. unfold script_rename_failed. cbn [app fd_balance]. rewrite fd_balance_app, fd_balance_writes. cbn [fd_balance]. lia.
Qed.

Lemma run_ops_app h1 : forall st h2,
  run_ops st (h1 ++ h2) = match run_ops st h1 with Done st' => run_ops st' h2 | FsHazard => FsHazard end.
Proof.
  induction h1 as [|o h IH]; intros st h2; cbn [app run_ops]; [reflexivity|].
  destruct (run_op st o); [apply IH|reflexivity].
Qed.

(* after ANY history that ends with a completed save - in particular after any number of
   set+save rounds - the file is exactly the store and loads as it *)
Lemma last_save_wins h st :
  inv st -> Forall op_ok h ->
  exists st', run_ops st (h ++ [OSave]) = Done st' /\ inv st' /\
              f_conf (disk st') = Some (save_bytes (mem st')) /\ restart (disk st') = mem st'.
Proof.
  intros Hi Hh. destruct (run_ops_inv h st Hi Hh) as (s1 & R1 & I1).
  rewrite run_ops_app, R1. cbn [run_ops].
  destruct (run_op_spec s1 OSave I1 I) as (s2 & E & I2 & M2 & R2 & F2). rewrite E.
  exists s2. rewrite M2. auto.
Qed.
