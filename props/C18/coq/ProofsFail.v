(* C18 proofs, part 5 (round 2): a save whose writes fail (disk full), a crash during such a save,
   and the first save ever (no previous settings file). *)
From OlaBase Require Import Bytes.
From Coq Require Import Sorted.
From C18 Require Import Model ProofsStr ProofsLoad ProofsCrash.
Local Open Scope N_scope.

Section FailedSave.
  Variable step : fs -> sys -> option fs.
  Hypothesis open_tmp : forall s,
    exists s', step s (SOpenTrunc Tmp) = Some s' /\ f_conf s' = f_conf s /\ f_tmp s' = Some [].
  Hypothesis write_tmp : forall s c bs, f_tmp s = Some c ->
    exists s', step s (SWrite Tmp bs) = Some s' /\ f_conf s' = f_conf s /\ f_tmp s' = Some (c ++ bs).
  (* a failing write leaves both files alone *)
  Hypothesis write_fail_tmp : forall s c, f_tmp s = Some c ->
    exists s', step s (SWriteFail Tmp) = Some s' /\ f_conf s' = f_conf s /\ f_tmp s' = Some c.
  Hypothesis close_tmp : forall s c, f_tmp s = Some c ->
    exists s', step s (SClose Tmp) = Some s' /\ f_conf s' = f_conf s /\ f_tmp s' = Some c.
  Hypothesis unlink_tmp : forall s c, f_tmp s = Some c ->
    exists s', step s (SUnlink Tmp) = Some s' /\ f_conf s' = f_conf s /\ f_tmp s' = None.

  Lemma failed_tail body : forall (k : nat) s c,
    f_tmp s = Some c -> Forall (fun x => tmp_write x = true) body ->
    exists s', fs_run step (firstn k (body ++ [SClose Tmp; SUnlink Tmp])) s = Some s' /\
      f_conf s' = f_conf s /\
      (((k < length body + 2)%nat /\ exists c', f_tmp s' = Some c') \/
       ((length body + 2 <= k)%nat /\ f_tmp s' = None)).
  Proof.
    induction body as [|x body IH]; intros k s c Ht Hb; cbn [app length].
    - destruct k as [|[|k]]; cbn [firstn fs_run].
      + exists s. split; [reflexivity|]. split; [reflexivity|]. left. split; [lia|eauto].
      + destruct (close_tmp s c Ht) as (s1 & E1 & C1 & T1). rewrite E1.
        exists s1. split; [reflexivity|]. split; [exact C1|]. left. split; [lia|eauto].
      + destruct (close_tmp s c Ht) as (s1 & E1 & C1 & T1). rewrite E1.
        destruct (unlink_tmp s1 c T1) as (s2 & E2 & C2 & T2). rewrite E2.
        rewrite firstn_nil. cbn [fs_run]. exists s2. split; [reflexivity|].
        split; [congruence|]. right. split; [lia|exact T2].
    - inversion Hb as [|? ? Hx Hr]; subst.
      destruct k as [|k]; cbn [firstn fs_run].
      + exists s. split; [reflexivity|]. split; [reflexivity|]. left. split; [lia|eauto].
      + assert (exists s1 c1, step s x = Some s1 /\ f_conf s1 = f_conf s /\ f_tmp s1 = Some c1)
          as (s1 & c1 & E1 & C1 & T1).
        { destruct x as [p|p bs|p|a b|p|p|p|a b]; try discriminate; destruct p; try discriminate.
          - destruct (write_tmp s c bs Ht) as (s1 & E & C & T). eauto 6.
          - destruct (write_fail_tmp s c Ht) as (s1 & E & C & T). eauto 6. }
        rewrite E1. destruct (IH k s1 c1 T1 Hr) as (s' & R & C & H).
        exists s'. split; [exact R|]. split; [congruence|].
        destruct H as [[Hk Hc]|[Hk Hc]]; [left|right]; (split; [lia|assumption]).
  Qed.

  (* A save during which the stream fails, cut short after any number k of system calls: the
     settings file is untouched at every point (so a new process loads the previous settings),
     and once all calls are done the temporary file is gone. *)
  Lemma failed_save_keeps_old body (k : nat) s :
    Forall (fun x => tmp_write x = true) body ->
    exists s', fs_run step (firstn k (script_failed body)) s = Some s' /\
      f_conf s' = f_conf s /\ restart s' = restart s /\
      ((length body + 3 <= k)%nat -> f_tmp s' = None).
  Proof.
    intros Hb. unfold script_failed. cbn [app]. destruct k as [|k]; cbn [firstn fs_run].
    - exists s. split; [reflexivity|]. split; [reflexivity|]. split; [reflexivity|]. lia.
    - destruct (open_tmp s) as (s1 & E1 & C1 & T1). rewrite E1.
      destruct (failed_tail body k s1 [] T1 Hb) as (s' & R & C & H).
      exists s'. split; [exact R|].
      assert (f_conf s' = f_conf s) as Ec by congruence.
      split; [exact Ec|]. split; [apply restart_conf; exact Ec|].
      intros Hk. destruct H as [[Hk' _]|[_ T]]; [lia|exact T].
  Qed.
End FailedSave.

Lemma fs_write_fail_tmp s c : f_tmp s = Some c ->
  exists s', fs_step s (SWriteFail Tmp) = Some s' /\ f_conf s' = f_conf s /\ f_tmp s' = Some c.
Proof. intros H. cbn [fs_step fs_get]. rewrite H. exists s. split; [reflexivity|]. split; [reflexivity|exact H]. Qed.
Lemma fs_unlink_tmp s c : f_tmp s = Some c ->
  exists s', fs_step s (SUnlink Tmp) = Some s' /\ f_conf s' = f_conf s /\ f_tmp s' = None.
Proof. intros H. cbn [fs_step fs_get]. rewrite H. eexists. split; [reflexivity|]. split; reflexivity. Qed.

(* the script the harness provokes (every write from the k-th on fails) is of that shape, or is the
   ordinary save when k is out of range *)
Lemma save_script_enospc_shape m k :
  (exists body, save_script_enospc m k = script_failed body /\ Forall (fun x => tmp_write x = true) body) \/
  save_script_enospc m k = save_script m.
Proof.
  unfold save_script_enospc. destruct ((k <=? length (map save_line m))%nat && (1 <=? k)%nat); [left|right; reflexivity].
  eexists. split; [reflexivity|]. apply Forall_app. split; apply Forall_forall; intros x Hx;
    apply in_map_iff in Hx as (y & <- & _); reflexivity.
Qed.

(* the first save ever: no settings file yet.  After any prefix of the calls a new process finds no
   file or the complete new one: it starts with the empty store or with the new settings. *)
Lemma first_save_crash (step : fs -> sys -> option fs) :
  (forall s, exists s', step s (SOpenTrunc Tmp) = Some s' /\ f_conf s' = f_conf s /\ f_tmp s' = Some []) ->
  (forall s c bs, f_tmp s = Some c ->
     exists s', step s (SWrite Tmp bs) = Some s' /\ f_conf s' = f_conf s /\ f_tmp s' = Some (c ++ bs)) ->
  (forall s c, f_tmp s = Some c ->
     exists s', step s (SClose Tmp) = Some s' /\ f_conf s' = f_conf s /\ f_tmp s' = Some c) ->
  (forall s c, f_tmp s = Some c -> exists s', step s (SRename Tmp Conf) = Some s' /\ f_conf s' = Some c) ->
  forall (new : pmap) (chunks : list str) (k : nat) (s : fs),
  sorted new -> map_ok new -> concat chunks = save_bytes new -> f_conf s = None ->
  exists s', fs_run step (firstn k (script_of_chunks chunks)) s = Some s' /\
    ((f_conf s' = None /\ restart s' = []) \/
     ((length chunks + 3 <= k)%nat /\ f_conf s' = Some (save_bytes new) /\ restart s' = new)).
Proof.
  intros H1 H2 H3 H4 new chunks k s Hs Hok Hc Hn.
  destruct (crash_file step H1 H2 H3 H4 chunks k s) as (s' & R & [[_ E]|[Hk E]]).
  - exists s'. split; [exact R|]. left. rewrite Hn in E. split; [exact E|].
    unfold restart, load_into. rewrite E. reflexivity.
  - exists s'. split; [exact R|]. right. rewrite Hc in E. split; [exact Hk|]. split; [exact E|].
    unfold restart, load_into. rewrite E. apply load_save; assumption.
Qed.

(* ---------------------------------------------------------------- close() or rename() fails *)
Lemma fs_run_app a b s : fs_run fs_step (a ++ b) s = match fs_run fs_step a s with Some s' => fs_run fs_step b s' | None => None end.
Proof. revert s. induction a as [|c a IH]; intros s; cbn [app fs_run]; [reflexivity|]. destruct (fs_step s c); [apply IH|reflexivity]. Qed.

(* every call of these scripts leaves the settings file alone *)
Definition keeps_conf (c : sys) : bool :=
  match c with
  | SOpenTrunc Tmp | SWrite Tmp _ | SWriteFail Tmp | SClose Tmp | SCloseFail Tmp | SUnlink Tmp | SRenameFail Tmp Conf => true
  | _ => false
  end.
Lemma keeps_conf_step d c d' : keeps_conf c = true -> fs_step d c = Some d' -> f_conf d' = f_conf d.
Proof.
  destruct c as [p|p bs|p|a b|p|p|p|a b]; try discriminate; try (destruct p; try discriminate);
    try (destruct a; try discriminate; destruct b; try discriminate); intros _; cbn [fs_step fs_get];
    try (destruct (f_tmp d); [|discriminate]); intros E; inversion E; reflexivity.
Qed.
Lemma keeps_conf_run script : forall d d', forallb keeps_conf script = true -> fs_run fs_step script d = Some d' -> f_conf d' = f_conf d.
Proof.
  induction script as [|c r IH]; intros d d' F R; cbn [fs_run forallb] in *; [inversion R; reflexivity|].
  apply andb_prop in F as [Fc Fr]. destruct (fs_step d c) as [d1|] eqn:E; [|discriminate].
  rewrite (IH d1 d' Fr R). apply (keeps_conf_step _ _ _ Fc E).
Qed.
Lemma forallb_firstn {A} (f : A -> bool) n l : forallb f l = true -> forallb f (firstn n l) = true.
Proof.
  revert l. induction n as [|n IH]; intros [|x l] H; cbn [firstn forallb] in *; try reflexivity.
  apply andb_prop in H as [H1 H2]. rewrite H1, (IH l H2). reflexivity.
Qed.

(* A save whose close() or rename() fails, cut short after any number k of calls: whenever the calls
   made so far were possible, the settings file is untouched; and the complete scripts do run
   through and end with the temporary removed. *)
Lemma close_rename_failure_keeps_old chunks (k : nat) d d' :
  (fs_run fs_step (firstn k (script_close_failed chunks)) d = Some d' \/
   fs_run fs_step (firstn k (script_rename_failed chunks)) d = Some d') ->
  f_conf d' = f_conf d /\ restart d' = restart d.
Proof.
  assert (forallb keeps_conf (script_close_failed chunks) = true /\ forallb keeps_conf (script_rename_failed chunks) = true) as [F1 F2].
  { unfold script_close_failed, script_rename_failed. cbn [app forallb keeps_conf andb].
    rewrite !forallb_app. cbn [forallb keeps_conf andb].
    assert (forallb keeps_conf (map (SWrite Tmp) chunks) = true) as ->
      by (apply forallb_forall; intros x Hx; apply in_map_iff in Hx as (y & <- & _); reflexivity).
    split; reflexivity. }
  intros [R|R].
  - pose proof (keeps_conf_run _ d d' (forallb_firstn _ k _ F1) R) as E. split; [exact E|apply restart_conf; exact E].
  - pose proof (keeps_conf_run _ d d' (forallb_firstn _ k _ F2) R) as E. split; [exact E|apply restart_conf; exact E].
Qed.

Lemma writes_run chunks : forall d c, f_tmp d = Some c ->
  exists d', fs_run fs_step (map (SWrite Tmp) chunks) d = Some d' /\ exists c', f_tmp d' = Some c'.
Proof.
  induction chunks as [|ch r IH]; intros d c H; cbn [map fs_run]; [exists d; eauto|].
  destruct (fs_write_tmp d c ch H) as (d1 & E & _ & T). rewrite E. apply (IH d1 _ T).
Qed.
Lemma close_rename_failure_completes chunks d :
  (exists d', fs_run fs_step (script_close_failed chunks) d = Some d' /\ f_tmp d' = None /\ f_conf d' = f_conf d) /\
  (exists d', fs_run fs_step (script_rename_failed chunks) d = Some d' /\ f_tmp d' = None /\ f_conf d' = f_conf d).
Proof.
  destruct (fs_open_tmp d) as (d1 & E1 & C1 & T1).
  destruct (writes_run chunks d1 [] T1) as (d2 & R2 & c2 & T2).
  assert (forall tail, fs_run fs_step ([SOpenTrunc Tmp] ++ map (SWrite Tmp) chunks ++ tail) d = fs_run fs_step tail d2) as K.
  { intros tail. cbn [app fs_run]. rewrite E1, fs_run_app, R2. reflexivity. }
  split.
  - unfold script_close_failed. rewrite K. repeat (cbn [fs_run fs_step fs_get fs_set f_tmp f_conf]; rewrite ?T2).
    eexists. split; [reflexivity|]. split; [reflexivity|].
    pose proof (keeps_conf_run ([SOpenTrunc Tmp] ++ map (SWrite Tmp) chunks) d d2) as Kc. cbn [f_conf fs_set].
    apply Kc; [|cbn [app fs_run]; rewrite E1; exact R2].
    cbn [app forallb keeps_conf andb]. apply forallb_forall. intros x Hx. apply in_map_iff in Hx as (y & <- & _). reflexivity.
  - unfold script_rename_failed. rewrite K. repeat (cbn [fs_run fs_step fs_get fs_set f_tmp f_conf]; rewrite ?T2).
    eexists. split; [reflexivity|]. split; [reflexivity|].
    pose proof (keeps_conf_run ([SOpenTrunc Tmp] ++ map (SWrite Tmp) chunks) d d2) as Kc. cbn [f_conf fs_set].
    apply Kc; [|cbn [app fs_run]; rewrite E1; exact R2].
    cbn [app forallb keeps_conf andb]. apply forallb_forall. intros x Hx. apply in_map_iff in Hx as (y & <- & _). reflexivity.
Qed.
