(* C18 proofs, part 6 (round 2): port settings through the file.  The keys DeviceManager uses are
   Port::UniqueId() = "<plugin id>-<device id>-<I|O>-<port id>" (Device::UniqueId + BasicInputPort /
   BasicOutputPort::UniqueId, both numbers printed in decimal) and that key with the suffixes
   "_priority_value" / "_priority_mode".  They meet the side conditions on keys whenever the
   device id is a single line without '='. *)
From OlaBase Require Import Bytes.
From Coq Require Import Sorted.
From C18 Require Import Model ProofsStr ProofsLoad ProofsRestore.
Local Open Scope N_scope.

Definition DASH : N := 45.
Definition port_key (plugin : N) (device : str) (input : bool) (port_id : N) : str :=
  dec plugin ++ [DASH] ++ device ++ [DASH; if input then 73 else 79; DASH] ++ dec port_id.

Definition last_nonblank (s : str) : Prop :=
  match rev s with [] => True | c :: _ => is_blank c = false end.

Lemma last_nonblank_app a b : b <> [] -> last_nonblank b -> last_nonblank (a ++ b).
Proof.
  unfold last_nonblank. intros Hn H. rewrite rev_app_distr. pose proof (rev_nonnil b Hn) as R.
  destruct (rev b); [contradiction|exact H].
Qed.

Lemma digits_last_nonblank s : Forall (fun c => is_digit c = true) s -> last_nonblank s.
Proof.
  unfold last_nonblank. intros F. destruct (rev s) as [|c r] eqn:E; [exact I|].
  assert (In c s) as Hin by (apply in_rev; rewrite E; left; reflexivity).
  rewrite Forall_forall in F. apply (digit_props c (F c Hin)).
Qed.

(* a key that starts with a decimal number *)
Lemma key_ok_digit_led n rest :
  ~ In NL rest -> ~ In EQC rest -> last_nonblank (dec n ++ rest) -> key_ok (dec n ++ rest).
Proof.
  intros H1 H2 H3. pose proof (dec_digits n) as F. pose proof (dec_nonnil n) as NN.
  unfold key_ok. split; [|split; [|split]].
  - intros H. apply in_app_or in H as [H|H]; [|contradiction].
    revert H. apply not_in_digits; [exact F|reflexivity].
  - intros H. apply in_app_or in H as [H|H]; [|contradiction].
    revert H. apply not_in_digits; [exact F|reflexivity].
  - destruct (dec n) as [|c r]; [contradiction|]. cbn [app]. inversion F; subst.
    apply (digit_props c); assumption.
  - split; [|exact H3]. destruct (dec n) as [|c r]; [contradiction|]. cbn [app]. inversion F; subst.
    apply (digit_props c); assumption.
Qed.

Lemma no_byte_port_tail x device (input : bool) port_id suffix :
  is_digit x = false -> x <> DASH -> x <> 73 -> x <> 79 -> ~ In x device -> ~ In x suffix ->
  ~ In x (([DASH] ++ device ++ [DASH; if input then 73 else 79; DASH] ++ dec port_id) ++ suffix).
Proof.
  intros Hd H45 H73 H79 Hdev Hs H.
  apply in_app_or in H as [H|H]; [|contradiction].
  apply in_app_or in H as [H|H]; [cbn in H; intuition congruence|].
  apply in_app_or in H as [H|H]; [contradiction|].
  apply in_app_or in H as [H|H].
  - cbn in H. destruct input; intuition congruence.
  - revert H. apply not_in_digits; [apply dec_digits|exact Hd].
Qed.

Lemma port_key_shape plugin device (input : bool) port_id suffix :
  port_key plugin device input port_id ++ suffix =
  dec plugin ++ (([DASH] ++ device ++ [DASH; if input then 73 else 79; DASH] ++ dec port_id) ++ suffix).
Proof. unfold port_key. rewrite <- !app_assoc. reflexivity. Qed.

(* the three keys of a port are admissible *)
Lemma key_ok_port plugin device input port_id suffix :
  ~ In NL device -> ~ In EQC device ->
  (suffix = [] \/ suffix = s_pval \/ suffix = s_pmode) ->
  key_ok (port_key plugin device input port_id ++ suffix).
Proof.
  intros H1 H2 Hs. rewrite port_key_shape.
  assert (~ In NL suffix /\ ~ In EQC suffix /\ (suffix = [] \/ (suffix <> [] /\ last_nonblank suffix))) as (S1 & S2 & S3).
  { destruct Hs as [->|[->| ->]].
    - split; [intros []|]. split; [intros []|]. left; reflexivity.
    - split; [cbn; intuition discriminate|]. split; [cbn; intuition discriminate|].
      right. split; [discriminate|reflexivity].
    - split; [cbn; intuition discriminate|]. split; [cbn; intuition discriminate|].
      right. split; [discriminate|reflexivity]. }
  apply key_ok_digit_led.
  - apply no_byte_port_tail; try assumption; try reflexivity; discriminate.
  - apply no_byte_port_tail; try assumption; try reflexivity; discriminate.
  - destruct S3 as [->|[Sn Sl]].
    + rewrite app_nil_r. rewrite !app_assoc. apply last_nonblank_app; [apply dec_nonnil|].
      apply digits_last_nonblank, dec_digits.
    + rewrite !app_assoc. apply last_nonblank_app; assumption.
Qed.

(* numbers as values *)
Lemma val_ok_dec n : val_ok (dec n).
Proof.
  pose proof (dec_digits n) as F. pose proof (dec_nonnil n) as NN. split.
  - apply not_in_digits; [exact F|reflexivity].
  - split; [|apply digits_last_nonblank; exact F].
    destruct (dec n) as [|c r]; [contradiction|]. inversion F; subst. apply (digit_props c); assumption.
Qed.

Lemma map_ok_save_port id p m :
  key_ok id -> key_ok (id ++ s_pval) -> key_ok (id ++ s_pmode) -> map_ok m -> map_ok (save_port id p m).
Proof.
  intros K1 K2 K3 Hm. unfold save_port.
  assert (map_ok match p_uni p with Some u => set_value id (dec u) m | None => remove_value id m end) as M1.
  { destruct (p_uni p); [apply map_ok_set_value; [exact K1|apply val_ok_dec|exact Hm]|apply map_ok_erase; exact Hm]. }
  destruct (p_cap p); [exact M1| |].
  - apply map_ok_set_value; [exact K2|apply val_ok_dec|exact M1].
  - apply map_ok_set_value; [exact K3|apply val_ok_dec|].
    apply map_ok_set_value; [exact K2|apply val_ok_dec|exact M1].
Qed.
Lemma sorted_save_port id p m : sorted m -> sorted (save_port id p m).
Proof.
  intros Hm. unfold save_port.
  assert (sorted match p_uni p with Some u => set_value id (dec u) m | None => remove_value id m end) as M1.
  { destruct (p_uni p); [apply sorted_set_value|apply sorted_erase]; exact Hm. }
  destruct (p_cap p); [exact M1|apply sorted_set_value; exact M1|].
  apply sorted_set_value, sorted_set_value, M1.
Qed.

(* Device released (port settings written to the store), store saved to the file, new process,
   file loaded, device registered again with new port objects: every port gets its settings back. *)
Lemma port_restored_through_file plugin device input port_id p m static0 :
  ~ In NL device -> ~ In EQC device ->
  sorted m -> map_ok m ->
  match p_uni p with Some u => u <= UINT32_MAX | None => True end ->
  p_prio p <= SOURCE_PRIORITY_MAX ->
  let id := port_key plugin device input port_id in
  (p_cap p = CapStatic -> string_to_uint UINT8_MAX (get_value (id ++ s_pmode) m) <> PUnmodelled) ->
  exists q, restore_port id (load_bytes (save_bytes (save_port id p m))) (fresh_like p static0) = RPort q /\
            port_settings_eq q p.
Proof.
  intros H1 H2 Hs Hm Hu Hp id Hstale.
  assert (key_ok id) as K1.
  { pose proof (key_ok_port plugin device input port_id [] H1 H2 (or_introl eq_refl)) as K.
    rewrite app_nil_r in K. exact K. }
  assert (key_ok (id ++ s_pval)) as K2 by (apply key_ok_port; auto).
  assert (key_ok (id ++ s_pmode)) as K3 by (apply key_ok_port; auto).
  rewrite load_save by (apply sorted_save_port || apply map_ok_save_port; assumption).
  apply restore_save_port; assumption.
Qed.
