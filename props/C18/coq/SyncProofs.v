(* C18 proofs (round 2): when Synchronize() returns, every SavePreferences issued before it has
   completed, for every schedule including spurious wake-ups; the saver never touches the stack
   objects of a Synchronize that has returned. *)
From OlaBase Require Import Bytes.
From Coq Require Import Sorted.
From C18 Require Import Model ProofsStr ProofsLoad ProofsCrash SyncModel.
Local Open Scope N_scope.

Ltac sc := cbn [prog mpc spc queue batch mtx done alive sdisk issued completed synclog hazard
                set_prog set_mpc set_spc set_queue set_batch set_mtx set_done set_alive set_sdisk
                set_issued set_completed set_synclog set_hazard] in *.

Definition Q (s : sst) : list item := batch s ++ queue s.
Definition saves_of (l : list item) : list pmap :=
  flat_map (fun i => match i with ISave m => [m] | IMarker => [] end) l.
Definition last_opt {A} (l : list A) : option A := match rev l with x :: _ => Some x | [] => None end.

Lemma saves_of_app a b : saves_of (a ++ b) = saves_of a ++ saves_of b.
Proof. apply flat_map_app. Qed.
Lemma saves_of_map ps : saves_of (map ISave ps) = ps.
Proof. induction ps as [|p ps IH]; cbn; [reflexivity|]. f_equal. exact IH. Qed.
Lemma last_opt_snoc {A} (l : list A) x : last_opt (l ++ [x]) = Some x.
Proof. unfold last_opt. rewrite rev_app_distr. reflexivity. Qed.

(* a complete save always runs through and leaves exactly the bytes of the store saved *)
Lemma save_runs m d :
  exists d', fs_run fs_step (save_script m) d = Some d' /\ f_conf d' = Some (save_bytes m).
Proof.
  destruct (crash_file fs_step fs_open_tmp fs_write_tmp fs_close_tmp fs_rename_atomic
              (map save_line m) (length (save_script m)) d) as (d' & R & H).
  unfold save_script in *. rewrite firstn_all in R. exists d'. split; [exact R|].
  assert (length (script_of_chunks (map save_line m)) = (length (map save_line m) + 3)%nat) as L.
  { unfold script_of_chunks. cbn [app length]. rewrite app_length, map_length. cbn [length]. lia. }
  destruct H as [[Hk _]|[_ E]]; [lia|]. exact E.
Qed.

(* where the marker of the Synchronize in progress is, seen from the saver *)
(* S is in its loop or inside a save (not inside CompleteSynchronization) *)
Definition srunb (x : spc_t) : bool := match x with SRun | SSaving _ _ => true | _ => false end.
(* the save in progress, if any *)
Definition cur (s : sst) : list pmap := match spc s with SSaving m _ => [m] | _ => [] end.
(* the directory: while a save is in progress its remaining calls will run through and leave the
   bytes of the store being saved; otherwise the file holds the last completed save *)
Definition dfact (s : sst) : Prop :=
  match spc s with
  | SSaving m rest => exists df, fs_run fs_step rest (sdisk s) = Some df /\ f_conf df = Some (save_bytes m)
  | _ => forall m, last_opt (completed s) = Some m -> f_conf (sdisk s) = Some (save_bytes m)
  end.

Definition sstat (s : sst) : Prop :=
  (srunb (spc s) = true /\ done s = false /\ mtx s <> Some TS /\ exists ps, Q s = map ISave ps ++ [IMarker]) \/
  (spc s = SMLocked /\ done s = false /\ mtx s = Some TS /\ Q s = []) \/
  (spc s = SMSet /\ done s = true /\ mtx s = Some TS /\ Q s = []) \/
  (spc s = SMSignalled /\ done s = true /\ mtx s = Some TS /\ Q s = []) \/
  (spc s = SRun /\ done s = true /\ mtx s <> Some TS /\ Q s = []).

Definition sync_ok (e : list pmap * list pmap * fs) : Prop :=
  let '(iss, comp, d) := e in
  comp = iss /\ forall m, last_opt iss = Some m -> f_conf d = Some (save_bytes m).

Definition inv (s : sst) : Prop :=
  hazard s = false /\
  issued s = completed s ++ cur s ++ saves_of (Q s) /\
  dfact s /\
  Forall sync_ok (synclog s) /\
  match mpc s with
  | MIdle => alive s = false /\ srunb (spc s) = true /\ mtx s = None /\ exists ps, Q s = map ISave ps
  | MLocked => alive s = true /\ srunb (spc s) = true /\ mtx s = Some TM /\ done s = false /\
               exists ps, Q s = map ISave ps
  | MPushed => alive s = true /\ mtx s = Some TM /\ sstat s
  | MWaiting | MWoken => alive s = true /\ mtx s <> Some TM /\ sstat s
  | MDoneSeen => alive s = true /\ mtx s = Some TM /\ done s = true /\ sstat s
  end.

Lemma inv_ext s s' :
  hazard s' = hazard s -> issued s' = issued s -> completed s' = completed s -> sdisk s' = sdisk s ->
  synclog s' = synclog s -> mpc s' = mpc s -> spc s' = spc s -> mtx s' = mtx s -> done s' = done s ->
  alive s' = alive s -> Q s' = Q s -> inv s -> inv s'.
Proof.
  intros E1 E2 E3 E4 E5 E6 E7 E8 E9 E10 E11 H. unfold inv, sstat, dfact, cur in *.
  rewrite E1, E2, E3, E4, E5, E6, E7, E8, E9, E10, E11. exact H.
Qed.

Lemma inv_init p d : f_conf d = None \/ True -> inv (init p d).
Proof.
  intros _. unfold inv, init, Q, dfact, cur. sc. repeat split; try reflexivity.
  - intros m H. discriminate.
  - constructor.
  - exists []. reflexivity.
Qed.

Lemma spurious_inv s : inv s -> inv (spurious_step s).
Proof.
  unfold spurious_step. intros H. destruct (mpc s) eqn:E; try exact H.
  unfold inv, sstat, Q, dfact, cur in *. sc. rewrite E in H. exact H.
Qed.

Lemma main_inv s : inv s -> inv (main_step true s).
Proof.
  intros Hinv. pose proof Hinv as (Hz & Hi & Hd & Hl & Hm). unfold main_step. destruct (mpc s) eqn:E.
  - (* MIdle *)
    destruct Hm as (Ha & Hs & Hx & ps & Hq).
    destruct (prog s) as [|[m|] r] eqn:Ep.
    + exact Hinv.
    + unfold inv, Q, cur in *. sc. rewrite E. repeat split; try assumption.
      * rewrite (app_assoc (batch s)), saves_of_app, Hi. cbn [saves_of flat_map app].
        rewrite <- !app_assoc. reflexivity.
      * exists (ps ++ [m]). rewrite app_assoc, Hq, map_app. reflexivity.
    + unfold inv, Q, cur in *. sc. repeat split; try assumption. exists ps; exact Hq.
  - (* MLocked *)
    destruct Hm as (Ha & Hs & Hx & Hdn & ps & Hq).
    unfold inv, sstat, Q, cur in *. sc. repeat split; try assumption.
    + rewrite (app_assoc (batch s)), saves_of_app, Hi. cbn [saves_of flat_map app].
      rewrite app_nil_r. reflexivity.
    + left. repeat split; try assumption; [congruence|]. exists ps. rewrite app_assoc, Hq. reflexivity.
  - (* MPushed *)
    destruct Hm as (Ha & Hx & Hst). cbn [andb].
    destruct (done s) eqn:Ed.
    + unfold inv, sstat, Q, cur in *. sc. rewrite Ed in *. repeat split; assumption.
    + unfold inv, sstat, Q, cur in *. sc. rewrite Ed in *. repeat split; try assumption; try discriminate.
      destruct Hst as [H|[H|[H|[H|H]]]]; destruct H as (H1 & H2 & H3 & H4); try congruence.
      left. repeat split; try assumption. discriminate.
  - (* MWaiting *)
    exact Hinv.
  - (* MWoken *)
    destruct Hm as (Ha & Hx & Hst). destruct (mtx s) as [t|] eqn:Et.
    + exact Hinv.
    + unfold inv, sstat, Q, cur in *. sc. rewrite Et in *. repeat split; try assumption.
      destruct Hst as [H|[H|[H|[H|H]]]]; destruct H as (H1 & H2 & H3 & H4); try congruence.
      * left. repeat split; try assumption. discriminate.
      * right; right; right; right. repeat split; try assumption. discriminate.
  - (* MDoneSeen: Synchronize returns *)
    destruct Hm as (Ha & Hx & Hdn & Hst).
    assert (spc s = SRun /\ Q s = []) as [Hs Hq].
    { destruct Hst as [H|[H|[H|[H|H]]]]; destruct H as (H1 & H2 & H3 & H4); try congruence. auto. }
    assert (issued s = completed s) as Hc.
    { rewrite Hi, Hq. unfold cur. rewrite Hs. cbn. apply app_nil_r. }
    pose proof Hd as Hd0. unfold dfact in Hd0. rewrite Hs in Hd0.
    unfold inv, Q, cur in *. sc. repeat split; try assumption.
    + apply Forall_app. split; [exact Hl|]. constructor; [|constructor].
      split; [symmetry; exact Hc|]. intros m Hm. apply Hd0. rewrite <- Hc. exact Hm.
    + rewrite Hs. reflexivity.
    + exists []. exact Hq.
Qed.

Lemma Q_pop s i r : batch s = i :: r -> Q s = i :: (r ++ queue s).
Proof. unfold Q. intros ->. reflexivity. Qed.

(* what Hm says when S is not inside CompleteSynchronization *)
Ltac sstat_cases H := destruct H as [H|[H|[H|[H|H]]]]; destruct H as (?H1 & ?H2 & ?H3 & ?H4).

Lemma saver_inv s : inv s -> inv (saver_step true s).
Proof.
  intros Hinv. pose proof Hinv as (Hz & Hi & Hd & Hl & Hm). unfold saver_step. destruct (spc s) eqn:Es.
  - (* SRun *)
    destruct (batch s) as [|[m|] r] eqn:Eb.
    + (* swap *)
      apply (inv_ext s); try reflexivity; [|exact Hinv].
      unfold Q. sc. rewrite Eb. cbn [app]. apply app_nil_r.
    + (* a save is taken off the list and started *)
      pose proof (Q_pop s _ _ Eb) as Hq.
      destruct (save_runs m (sdisk s)) as (d' & R & Ec).
      unfold inv, sstat, dfact, cur in *. unfold Q at 1 2 3 4 5 6 7 8. sc. fold (r ++ queue s).
      rewrite Es in Hi. rewrite Hq in Hi, Hm. cbn [srunb] in *.
      split; [exact Hz|]. split; [exact Hi|]. split; [exists d'; auto|]. split; [exact Hl|].
      destruct (mpc s).
      * destruct Hm as (A & B & C & ps & D). repeat split; try assumption.
        destruct ps as [|p ps]; [discriminate|]. inversion D. exists ps. assumption.
      * destruct Hm as (A & B & C & C' & ps & D). repeat split; try assumption.
        destruct ps as [|p ps]; [discriminate|]. inversion D. exists ps. assumption.
      * destruct Hm as (A & B & H). repeat split; try assumption.
        sstat_cases H; try congruence; try discriminate.
        destruct H4 as (ps & D). destruct ps as [|p ps]; [discriminate|]. inversion D.
        left. repeat split; try assumption. exists ps. assumption.
      * destruct Hm as (A & B & H). repeat split; try assumption.
        sstat_cases H; try congruence; try discriminate.
        destruct H4 as (ps & D). destruct ps as [|p ps]; [discriminate|]. inversion D.
        left. repeat split; try assumption. exists ps. assumption.
      * destruct Hm as (A & B & H). repeat split; try assumption.
        sstat_cases H; try congruence; try discriminate.
        destruct H4 as (ps & D). destruct ps as [|p ps]; [discriminate|]. inversion D.
        left. repeat split; try assumption. exists ps. assumption.
      * destruct Hm as (A & B & C & H). repeat split; try assumption.
        sstat_cases H; try congruence; try discriminate.
    + (* the marker: Lock *)
      pose proof (Q_pop s _ _ Eb) as Hq. unfold sstat in Hm. rewrite Hq in Hm, Hi. cbn [srunb] in Hm.
      assert (alive s = true /\ r ++ queue s = [] /\ done s = false /\ mpc s <> MIdle /\ mpc s <> MLocked /\ mpc s <> MDoneSeen)
        as (Ha & Hr & Hdn & N1 & N2 & N3).
      { destruct (mpc s).
        - destruct Hm as (_ & _ & _ & ps & D). destruct ps; discriminate.
        - destruct Hm as (_ & _ & _ & _ & ps & D). destruct ps; discriminate.
        - destruct Hm as (A & B & H). sstat_cases H; try congruence; try discriminate.
          destruct H4 as (ps & D). destruct ps as [|p ps]; [|discriminate]. inversion D.
          repeat split; try assumption; discriminate.
        - destruct Hm as (A & B & H). sstat_cases H; try congruence; try discriminate.
          destruct H4 as (ps & D). destruct ps as [|p ps]; [|discriminate]. inversion D.
          repeat split; try assumption; discriminate.
        - destruct Hm as (A & B & H). sstat_cases H; try congruence; try discriminate.
          destruct H4 as (ps & D). destruct ps as [|p ps]; [|discriminate]. inversion D.
          repeat split; try assumption; discriminate.
        - destruct Hm as (A & B & C & H). sstat_cases H; try congruence; try discriminate. }
      rewrite Ha. destruct (mtx s) as [t|] eqn:Et.
      * (* blocked *) exact Hinv.
      * unfold inv, sstat, dfact, cur in *. unfold Q at 1 2 3 4 5 6 7 8. sc. fold (r ++ queue s).
        rewrite Hr in *. rewrite Es in Hi, Hd.
        split; [exact Hz|]. split; [exact Hi|]. split; [exact Hd|]. split; [exact Hl|].
        destruct (mpc s); try congruence.
        -- destruct Hm as (A & B & _). congruence.
        -- repeat split; try assumption; try discriminate. right; left. auto.
        -- repeat split; try assumption; try discriminate. right; left. auto.
  - (* SSaving: one system call of the save, or its return *)
    assert (match mpc s with
            | MIdle => alive s = false /\ mtx s = None /\ exists ps, Q s = map ISave ps
            | MLocked => alive s = true /\ mtx s = Some TM /\ done s = false /\ exists ps, Q s = map ISave ps
            | MPushed => alive s = true /\ mtx s = Some TM /\ done s = false /\ mtx s <> Some TS /\ exists ps, Q s = map ISave ps ++ [IMarker]
            | MWaiting | MWoken => alive s = true /\ mtx s <> Some TM /\ done s = false /\ mtx s <> Some TS /\ exists ps, Q s = map ISave ps ++ [IMarker]
            | MDoneSeen => False
            end) as Hm'.
    { unfold sstat in Hm. destruct (mpc s).
      - destruct Hm as (A & B & C & D). auto.
      - destruct Hm as (A & B & C & D & F). auto.
      - destruct Hm as (A & B & H). sstat_cases H; try congruence. auto 6.
      - destruct Hm as (A & B & H). sstat_cases H; try congruence. auto 6.
      - destruct Hm as (A & B & H). sstat_cases H; try congruence. auto 6.
      - destruct Hm as (A & B & C & H). sstat_cases H; congruence. }
    assert (forall s', mpc s' = mpc s -> alive s' = alive s -> mtx s' = mtx s -> done s' = done s -> Q s' = Q s ->
            srunb (spc s') = true ->
            match mpc s' with
            | MIdle => alive s' = false /\ srunb (spc s') = true /\ mtx s' = None /\ exists ps, Q s' = map ISave ps
            | MLocked => alive s' = true /\ srunb (spc s') = true /\ mtx s' = Some TM /\ done s' = false /\
                         exists ps, Q s' = map ISave ps
            | MPushed => alive s' = true /\ mtx s' = Some TM /\ sstat s'
            | MWaiting | MWoken => alive s' = true /\ mtx s' <> Some TM /\ sstat s'
            | MDoneSeen => alive s' = true /\ mtx s' = Some TM /\ done s' = true /\ sstat s'
            end) as K.
    { intros s' E1 E2 E3 E4 E5 E6. unfold sstat. rewrite E1, E2, E3, E4, E5, E6.
      destruct (mpc s).
      - destruct Hm' as (A & B & C). auto.
      - destruct Hm' as (A & B & C & D). auto.
      - destruct Hm' as (A & B & C & D & F). repeat split; try assumption. left. auto.
      - destruct Hm' as (A & B & C & D & F). repeat split; try assumption. left. auto.
      - destruct Hm' as (A & B & C & D & F). repeat split; try assumption. left. auto.
      - contradiction. }
    unfold dfact in Hd. rewrite Es in Hd. destruct Hd as (df & R & Ef).
    unfold cur in Hi. rewrite Es in Hi.
    destruct rest as [|c rest'].
    + (* the save returns *)
      cbn [fs_run] in R. inversion R; subst df.
      unfold inv. split; [exact Hz|]. split; [|split; [|split; [exact Hl|]]].
      * unfold cur, Q in *. sc. rewrite Hi, <- !app_assoc. reflexivity.
      * unfold dfact. sc. intros m0 H. rewrite last_opt_snoc in H. congruence.
      * apply K; reflexivity.
    + cbn [fs_run] in R. destruct (fs_step (sdisk s) c) as [d1|] eqn:E1; [|discriminate].
      unfold inv. split; [exact Hz|]. split; [|split; [|split; [exact Hl|]]].
      * unfold cur, Q in *. sc. exact Hi.
      * unfold dfact. sc. exists df. auto.
      * apply K; reflexivity.
  - (* SMLocked: set the flag *)
    unfold sstat in Hm. rewrite ?Es in Hm. cbn [srunb] in Hm.
    assert (alive s = true /\ mtx s = Some TS /\ Q s = [] /\ mpc s <> MIdle /\ mpc s <> MLocked) as (Ha & Hx & Hq & N1 & N2).
    { destruct (mpc s).
      - destruct Hm as (_ & B & _). congruence.
      - destruct Hm as (_ & B & _). congruence.
      - destruct Hm as (A & B & H). sstat_cases H; try congruence.
      - destruct Hm as (A & B & H). sstat_cases H; try congruence.
        repeat split; try assumption; discriminate.
      - destruct Hm as (A & B & H). sstat_cases H; try congruence.
        repeat split; try assumption; discriminate.
      - destruct Hm as (A & B & C & H). sstat_cases H; congruence. }
    rewrite Ha. unfold inv, sstat, Q, dfact, cur in *. sc. rewrite Es in Hi, Hd.
    split; [exact Hz|]. split; [exact Hi|]. split; [exact Hd|]. split; [exact Hl|].
    destruct (mpc s); try congruence.
    + destruct Hm as (A & B & _). congruence.
    + repeat split; try assumption; try congruence. right; right; left. auto.
    + repeat split; try assumption; try congruence. right; right; left. auto.
    + destruct Hm as (A & B & _). congruence.
  - (* SMSet: signal *)
    unfold sstat in Hm. rewrite ?Es in Hm. cbn [srunb] in Hm.
    assert (alive s = true /\ mtx s = Some TS /\ Q s = [] /\ done s = true /\ (mpc s = MWaiting \/ mpc s = MWoken)) as (Ha & Hx & Hq & Hdn & Hw).
    { destruct (mpc s).
      - destruct Hm as (_ & B & _). congruence.
      - destruct Hm as (_ & B & _). congruence.
      - destruct Hm as (A & B & H). sstat_cases H; try congruence.
      - destruct Hm as (A & B & H). sstat_cases H; try congruence. auto 6.
      - destruct Hm as (A & B & H). sstat_cases H; try congruence. auto 6.
      - destruct Hm as (A & B & C & H). sstat_cases H; try congruence. }
    rewrite Ha.
    assert (forall s', mpc s' = MWoken -> alive s' = true -> mtx s' = Some TS -> Q s' = [] -> done s' = true ->
            spc s' = SMSignalled -> hazard s' = false -> issued s' = completed s' ++ cur s' ++ saves_of (Q s') ->
            dfact s' -> Forall sync_ok (synclog s') -> inv s') as K.
    { intros s' P1 P2 P3 P4 P5 P6 P7 P8 P9 P10. unfold inv. rewrite P1.
      repeat split; try assumption; try congruence. unfold sstat. right; right; right; left. auto. }
    unfold dfact, cur in Hd, Hi. rewrite Es in Hd, Hi.
    destruct Hw as [Hw|Hw]; rewrite Hw; apply K; unfold Q, dfact, cur in *; sc; try assumption; reflexivity.
  - (* SMSignalled: unlock *)
    unfold sstat in Hm. rewrite ?Es in Hm. cbn [srunb] in Hm.
    assert (alive s = true /\ mtx s = Some TS /\ Q s = [] /\ done s = true /\ (mpc s = MWaiting \/ mpc s = MWoken)) as (Ha & Hx & Hq & Hdn & Hw).
    { destruct (mpc s).
      - destruct Hm as (_ & B & _). congruence.
      - destruct Hm as (_ & B & _). congruence.
      - destruct Hm as (A & B & H). sstat_cases H; try congruence.
      - destruct Hm as (A & B & H). sstat_cases H; try congruence. auto 6.
      - destruct Hm as (A & B & H). sstat_cases H; try congruence. auto 6.
      - destruct Hm as (A & B & C & H). sstat_cases H; try congruence. }
    rewrite Ha. unfold inv, sstat, Q, dfact, cur in *. sc. rewrite Es in Hi, Hd.
    split; [exact Hz|]. split; [exact Hi|]. split; [exact Hd|]. split; [exact Hl|].
    destruct Hw as [Hw|Hw]; rewrite Hw; (repeat split; try assumption; try discriminate);
      right; right; right; right; repeat split; try assumption; discriminate.
Qed.

Lemma step_inv s c : inv s -> inv (step true s c).
Proof.
  intros H. unfold step. destruct H as (Hz & H'). rewrite Hz.
  assert (inv s) as H by (split; assumption).
  destruct c; [apply main_inv|apply saver_inv|apply spurious_inv]; exact H.
Qed.

Lemma run_inv sched : forall s, inv s -> inv (run true sched s).
Proof.
  unfold run. induction sched as [|c r IH]; intros s H; cbn [fold_left]; [exact H|].
  apply IH, step_inv, H.
Qed.

(* ---------------------------------------------------------------- the theorem *)
(* For every program of SavePreferences / Synchronize calls, every initial directory and EVERY
   schedule (any interleaving of the two threads, any number of spurious wake-ups anywhere):
   the saver never uses the stack objects of a Synchronize that has returned, and at each return of
   Synchronize the saves completed are exactly the saves issued (all of them, in order), and the
   settings file holds exactly the bytes of the most recent one. *)
Lemma sync_safe p d sched :
  let s := run true sched (init p d) in
  hazard s = false /\
  Forall (fun e => let '(iss, comp, dk) := e in
                   comp = iss /\ forall m, last_opt iss = Some m -> f_conf dk = Some (save_bytes m))
         (synclog s).
Proof.
  intros s. destruct (run_inv sched (init p d) (inv_init p d (or_intror I))) as (Hz & _ & _ & Hl & _).
  split; [exact Hz|]. exact Hl.
Qed.

(* and such a file loads as that store when the store meets the side conditions *)
Lemma sync_safe_loads p d sched :
  let s := run true sched (init p d) in
  hazard s = false /\
  Forall (fun e => let '(iss, comp, dk) := e in
                   comp = iss /\
                   forall m, last_opt iss = Some m ->
                     f_conf dk = Some (save_bytes m) /\ (sorted m -> map_ok m -> restart dk = m))
         (synclog s).
Proof.
  intros s. destruct (sync_safe p d sched) as [Hz Hl]. split; [exact Hz|].
  fold s in Hl. rewrite Forall_forall in *. intros [[iss comp] dk] Hin.
  specialize (Hl _ Hin). cbn in Hl. destruct Hl as [Hc Hf]. split; [exact Hc|].
  intros m Hm. specialize (Hf m Hm). split; [exact Hf|].
  intros Hs Hok. unfold restart, load_into. rewrite Hf. apply load_save; assumption.
Qed.

(* Before fix 04 (one pthread_cond_wait, no predicate; mutex and condition variable used by the
   saver after Unlock): a single spurious wake-up makes Synchronize return while the save issued
   before it has not even started, and the saver then locks a mutex that no longer exists. *)
Definition old_sync_schedule : list choice :=
  [CMain; CMain; CMain; CMain; CSpurious; CMain; CMain].
Lemma old_sync_returns_early :
  let m := [([107], [118])] in
  let d0 := {| f_conf := None; f_tmp := None |} in
  let s := run false old_sync_schedule (init [MSave m; MSync] d0) in
  synclog s = [([m], [], d0)] /\ hazard s = false /\
  hazard (run false (repeat CSaver 8) s) = true.
Proof. vm_compute. repeat split. Qed.
(* the same schedule with the fix: Synchronize is still waiting *)
Lemma fixed_sync_same_schedule :
  let m := [([107], [118])] in
  let d0 := {| f_conf := None; f_tmp := None |} in
  let s := run true old_sync_schedule (init [MSave m; MSync] d0) in
  synclog s = [] /\ mpc s = MWaiting.
Proof. vm_compute. split; reflexivity. Qed.
(* and a schedule on which the fixed code completes: the machine is not vacuous *)
Lemma fixed_sync_completes :
  let m := [([107], [118])] in
  let d0 := {| f_conf := None; f_tmp := None |} in
  let s := run true (old_sync_schedule ++ repeat CSaver 11 ++ repeat CMain 4)
               (init [MSave m; MSync] d0) in
  exists dk, synclog s = [([m], [m], dk)] /\ f_conf dk = Some (save_bytes m) /\ mpc s = MIdle /\ prog s = [].
Proof. vm_compute. eexists. repeat split. Qed.

(* the schedule space contains overlaps: here the second SavePreferences is issued while the saver
   is between the open and the first write of the first save; Synchronize still returns with both
   saves complete and the file holding the second *)
Lemma overlap_schedule_example :
  let a := [([107], [49])] in
  let b := [([107], [50])] in
  let d0 := {| f_conf := None; f_tmp := None |} in
  let s1 := run true [CMain; CSaver; CSaver; CSaver; CMain] (init [MSave a; MSave b; MSync] d0) in
  let s2 := run true (repeat CMain 3 ++ repeat CSaver 16 ++ repeat CMain 3) s1 in
  (exists rest, spc s1 = SSaving a rest /\ length rest = 3%nat /\ issued s1 = [a; b] /\ completed s1 = []) /\
  exists dk, synclog s2 = [([a; b], [a; b], dk)] /\ f_conf dk = Some (save_bytes b) /\ prog s2 = [].
Proof. vm_compute. split; [eexists; repeat split|eexists; repeat split]. Qed.
