(* C18 proofs: Synchronize() with N callers.  When the Synchronize() of one caller (M) returns, every
   SavePreferences queued before it - by M or by any other thread - has completed, for every
   schedule including spurious wake-ups and saves / Synchronize calls of other threads at any
   point; the saver never touches the stack objects of a Synchronize that has returned; the settings
   file holds the last completed save, or the later one the saver is in the middle of. *)
From OlaBase Require Import Bytes.
From Coq Require Import Sorted.
From C18 Require Import Model ProofsStr ProofsLoad ProofsCrash SyncModel.
Local Open Scope N_scope.

Ltac sc := cbn [prog mpc spc queue batch mtx done alive sdisk issued completed marked synclog hazard
                set_prog set_mpc set_spc set_queue set_batch set_mtx set_done set_alive set_sdisk
                set_issued set_completed set_marked set_synclog set_hazard] in *.

Definition Q (s : sst) : list item := batch s ++ queue s.
Definition saves_of (l : list item) : list pmap :=
  flat_map (fun i => match i with ISave m => [m] | _ => [] end) l.
Definition last_opt {A} (l : list A) : option A := match rev l with x :: _ => Some x | [] => None end.
Definition nomarker (l : list item) : Prop := ~ In IMarker l.

Lemma saves_of_app a b : saves_of (a ++ b) = saves_of a ++ saves_of b.
Proof. apply flat_map_app. Qed.
Lemma last_opt_snoc {A} (l : list A) x : last_opt (l ++ [x]) = Some x.
Proof. unfold last_opt. rewrite rev_app_distr. reflexivity. Qed.
Lemma nomarker_app a b : nomarker (a ++ b) <-> nomarker a /\ nomarker b.
Proof.
  unfold nomarker. split.
  - intros H. split; intros Hi; apply H, in_or_app; auto.
  - intros [Ha Hb] H. apply in_app_or in H as [H|H]; auto.
Qed.
Lemma nomarker_cons i l : nomarker (i :: l) <-> i <> IMarker /\ nomarker l.
Proof. unfold nomarker. cbn [In]. split; [intros H; split; [intros E; apply H; left; exact E|intros E; apply H; right; exact E]|intros [H1 H2] [E|E]; auto]. Qed.
Lemma nomarker_nil : nomarker [].
Proof. intros []. Qed.

(* the head of a list that contains M's marker exactly once *)
Lemma marker_split_head i r pre post :
  i :: r = pre ++ IMarker :: post -> nomarker pre ->
  (i = IMarker /\ pre = [] /\ r = post) \/
  (i <> IMarker /\ exists pre', pre = i :: pre' /\ r = pre' ++ IMarker :: post /\ nomarker pre').
Proof.
  intros E Hn. destruct pre as [|x pre']; cbn [app] in E; inversion E; subst.
  - left. auto.
  - right. apply nomarker_cons in Hn as [H1 H2]. split; [exact H1|]. exists pre'. auto.
Qed.

(* a complete save always runs through and leaves exactly the bytes of the store saved *)
Lemma save_runs m d :
  exists d', fs_run fs_step (save_script m) d = Some d' /\ f_conf d' = Some (save_bytes m).
Proof.
  destruct (crash_file fs_step fs_open_tmp fs_write_tmp fs_close_tmp fs_rename_atomic
              (map save_line m) (length (save_script m)) d) as (d' & R & H).
  unfold save_script in *. rewrite firstn_all in R. exists d'. split; [exact R|].
  assert (length (script_of_chunks (map save_line m)) = (length (map save_line m) + 3)%nat) as L.
  { unfold script_of_chunks. cbn [app length]. rewrite app_length, map_length. cbn [length]. lia. }
  destruct H as [[Hk _]|[_ E]]; [lia|]. exact E.
Qed.

(* calls of a save that leave the settings file alone: everything but the final rename *)
Definition tmp_only (c : sys) : bool :=
  match c with SOpenTrunc Tmp | SWrite Tmp _ | SClose Tmp => true | _ => false end.
Lemma tmp_only_conf d c d' : tmp_only c = true -> fs_step d c = Some d' -> f_conf d' = f_conf d.
Proof.
  destruct c as [p|p bs|p|a b|p|p|p|a b]; try discriminate; destruct p; try discriminate; intros _; cbn [fs_step fs_get].
  - intros E. inversion E. reflexivity.
  - destruct (f_tmp d); [|discriminate]. intros E. inversion E. reflexivity.
  - destruct (f_tmp d); [|discriminate]. intros E. inversion E. reflexivity.
Qed.
Lemma save_script_shape m :
  exists r1, save_script m = r1 ++ [SRename Tmp Conf] /\ forallb tmp_only r1 = true.
Proof.
  exists ([SOpenTrunc Tmp] ++ map (SWrite Tmp) (map save_line m) ++ [SClose Tmp]). split.
  - unfold save_script, script_of_chunks. rewrite <- !app_assoc. reflexivity.
  - cbn [app forallb tmp_only andb]. rewrite forallb_app. cbn [forallb tmp_only andb].
    rewrite andb_true_r. apply forallb_forall. intros x Hx. apply in_map_iff in Hx as (y & <- & _). reflexivity.
Qed.

(* ---------------------------------------------------------------- the invariant *)
Definition srunb (x : spc_t) : bool := match x with SRun | SSaving _ _ => true | _ => false end.
(* what the settings file holds once the saves in `comp` have completed (c0: before any save) *)
Definition lastconf (c0 : option str) (comp : list pmap) : option str :=
  match last_opt comp with Some m => Some (save_bytes m) | None => c0 end.

Definition dfact (c0 : option str) (s : sst) : Prop :=
  match spc s with
  | SSaving m rest =>
    (exists df, fs_run fs_step rest (sdisk s) = Some df /\ f_conf df = Some (save_bytes m)) /\
    (f_conf (sdisk s) = lastconf c0 (completed s) \/ f_conf (sdisk s) = Some (save_bytes m)) /\
    (rest = [] \/ exists r1, rest = r1 ++ [SRename Tmp Conf] /\ forallb tmp_only r1 = true)
  | _ => f_conf (sdisk s) = lastconf c0 (completed s)
  end.

(* where M's marker is *)
Definition mstat (s : sst) : Prop :=
  (srunb (spc s) = true /\ done s = false /\ mtx s <> Some TS /\
   exists pre post, Q s = pre ++ IMarker :: post /\ nomarker pre /\ nomarker post /\
                    marked s = completed s ++ cur s ++ saves_of pre) \/
  ((spc s = SMLocked /\ done s = false \/ spc s = SMSet /\ done s = true \/ spc s = SMSignalled /\ done s = true) /\
   mtx s = Some TS /\ nomarker (Q s) /\ exists more, completed s = marked s ++ more) \/
  (srunb (spc s) = true /\ done s = true /\ mtx s <> Some TS /\ nomarker (Q s) /\
   exists more, completed s = marked s ++ more).

(* one returned Synchronize: saves queued before it, saves completed, directory, save in progress *)
Definition sync_ok (c0 : option str) (e : list pmap * list pmap * fs * list pmap) : Prop :=
  let '(mkd, comp, d, cu) := e in
  (exists more, comp = mkd ++ more) /\
  (f_conf d = lastconf c0 comp \/ exists m, cu = [m] /\ f_conf d = Some (save_bytes m)).

Definition inv (c0 : option str) (s : sst) : Prop :=
  hazard s = false /\
  issued s = completed s ++ cur s ++ saves_of (Q s) /\
  dfact c0 s /\
  Forall (sync_ok c0) (synclog s) /\
  match mpc s with
  | MIdle => alive s = false /\ srunb (spc s) = true /\ mtx s = None /\ nomarker (Q s)
  | MLocked => alive s = true /\ srunb (spc s) = true /\ mtx s = Some TM /\ done s = false /\ nomarker (Q s)
  | MPushed => alive s = true /\ mtx s = Some TM /\ mstat s
  | MWaiting | MWoken => alive s = true /\ mtx s <> Some TM /\ mstat s
  | MDoneSeen => alive s = true /\ mtx s = Some TM /\ done s = true /\ mstat s
  end.

Lemma inv_ext c0 s s' :
  hazard s' = hazard s -> issued s' = issued s -> completed s' = completed s -> sdisk s' = sdisk s ->
  synclog s' = synclog s -> mpc s' = mpc s -> spc s' = spc s -> mtx s' = mtx s -> done s' = done s ->
  alive s' = alive s -> marked s' = marked s -> Q s' = Q s -> inv c0 s -> inv c0 s'.
Proof.
  intros E1 E2 E3 E4 E5 E6 E7 E8 E9 E10 E11 E12 H. unfold inv, mstat, dfact, cur in *.
  rewrite E1, E2, E3, E4, E5, E6, E7, E8, E9, E10, E11, E12. exact H.
Qed.

Lemma inv_init p d : inv (f_conf d) (init p d).
Proof.
  unfold inv, init, Q, dfact, cur, lastconf. sc. repeat split; try reflexivity; try constructor. exact nomarker_nil.
Qed.

Lemma spurious_inv c0 s : inv c0 s -> inv c0 (spurious_step s).
Proof.
  unfold spurious_step. intros H. destruct (mpc s) eqn:E; try exact H.
  unfold inv, mstat, Q, dfact, cur in *. sc. rewrite E in H. exact H.
Qed.

(* a closure other than M's marker is appended to the executor's list *)
Lemma push_inv c0 s x :
  x <> IMarker -> inv c0 s ->
  inv c0 (set_queue (queue s ++ [x]) (set_issued (issued s ++ saves_of [x]) s)).
Proof.
  intros Hx (Hz & Hi & Hd & Hl & Hm).
  assert (nomarker [x]) as Nx by (apply nomarker_cons; split; [exact Hx|exact nomarker_nil]).
  unfold inv, mstat, dfact, Q, cur in *. sc.
  split; [exact Hz|]. split; [rewrite (app_assoc (batch s)), saves_of_app, Hi, <- !app_assoc; reflexivity|].
  split; [exact Hd|]. split; [exact Hl|].
  assert (nomarker (batch s ++ queue s) -> nomarker (batch s ++ queue s ++ [x])) as Nq.
  { intros H. rewrite app_assoc. apply nomarker_app. auto. }
  assert (mstat' : (srunb (spc s) = true /\ done s = false /\ mtx s <> Some TS /\
            exists pre post, batch s ++ queue s = pre ++ IMarker :: post /\ nomarker pre /\ nomarker post /\
              marked s = completed s ++ match spc s with SSaving m _ => [m] | _ => [] end ++ saves_of pre) \/
          ((spc s = SMLocked /\ done s = false \/ spc s = SMSet /\ done s = true \/ spc s = SMSignalled /\ done s = true) /\
            mtx s = Some TS /\ nomarker (batch s ++ queue s) /\ exists more, completed s = marked s ++ more) \/
          (srunb (spc s) = true /\ done s = true /\ mtx s <> Some TS /\ nomarker (batch s ++ queue s) /\
            exists more, completed s = marked s ++ more) ->
          (srunb (spc s) = true /\ done s = false /\ mtx s <> Some TS /\
            exists pre post, batch s ++ queue s ++ [x] = pre ++ IMarker :: post /\ nomarker pre /\ nomarker post /\
              marked s = completed s ++ match spc s with SSaving m _ => [m] | _ => [] end ++ saves_of pre) \/
          ((spc s = SMLocked /\ done s = false \/ spc s = SMSet /\ done s = true \/ spc s = SMSignalled /\ done s = true) /\
            mtx s = Some TS /\ nomarker (batch s ++ queue s ++ [x]) /\ exists more, completed s = marked s ++ more) \/
          (srunb (spc s) = true /\ done s = true /\ mtx s <> Some TS /\ nomarker (batch s ++ queue s ++ [x]) /\
            exists more, completed s = marked s ++ more)).
  { intros [H|[H|H]].
    - left. destruct H as (A & B & C & pre & post & E & N1 & N2 & Mk). repeat split; try assumption.
      exists pre, (post ++ [x]). rewrite app_assoc, E, <- app_assoc. cbn [app].
      repeat split; try assumption. apply nomarker_app. auto.
    - right; left. destruct H as (A & B & C & D). auto.
    - right; right. destruct H as (A & B & C & D & F). auto 6. }
  destruct (mpc s).
  - destruct Hm as (A & B & C & D). auto.
  - destruct Hm as (A & B & C & D & F). auto 6.
  - destruct Hm as (A & B & C). auto.
  - destruct Hm as (A & B & C). auto.
  - destruct Hm as (A & B & C). auto.
  - destruct Hm as (A & B & C & D). auto.
Qed.

Lemma env_save_inv c0 s m : inv c0 s -> inv c0 (env_save m s).
Proof. intros H. exact (push_inv c0 s (ISave m) ltac:(discriminate) H). Qed.
Lemma env_sync_inv c0 s : inv c0 s -> inv c0 (env_sync s).
Proof.
  intros H. pose proof (push_inv c0 s IForeign ltac:(discriminate) H) as P.
  apply (inv_ext c0 (set_queue (queue s ++ [IForeign]) (set_issued (issued s ++ saves_of [IForeign]) s)));
    try reflexivity; [|exact P]. sc. cbn. rewrite app_nil_r. reflexivity.
Qed.

Lemma mstat_after_pop_cases s :
  mstat s -> mtx s = Some TM \/ mtx s <> Some TS -> True.
Proof. auto. Qed.

Lemma main_inv c0 s : inv c0 s -> inv c0 (main_step true s).
Proof.
  intros Hinv. pose proof Hinv as (Hz & Hi & Hd & Hl & Hm). unfold main_step. destruct (mpc s) eqn:E.
  - (* MIdle *)
    destruct (prog s) as [|[m|] r] eqn:Ep.
    + exact Hinv.
    + apply (inv_ext c0 (env_save m s)); try reflexivity. apply env_save_inv, Hinv.
    + destruct Hm as (Ha & Hs & Hx & Hq).
      unfold inv, Q, dfact, cur in *. sc. repeat split; assumption.
  - (* MLocked: the marker is queued *)
    destruct Hm as (Ha & Hs & Hx & Hdn & Hq).
    unfold inv, mstat, Q, dfact, cur in *. sc. repeat split; try assumption.
    + rewrite (app_assoc (batch s)), saves_of_app, Hi. cbn [saves_of flat_map app].
      rewrite app_nil_r. reflexivity.
    + left. repeat split; try assumption; [congruence|].
      exists (batch s ++ queue s), []. rewrite app_assoc. repeat split; try assumption; [exact nomarker_nil].
  - (* MPushed *)
    destruct Hm as (Ha & Hx & Hst). cbn [andb].
    destruct (done s) eqn:Ed.
    + unfold inv, mstat, Q, dfact, cur in *. sc. rewrite Ed in *. repeat split; assumption.
    + unfold inv, mstat, Q, dfact, cur in *. sc. rewrite Ed in *. repeat split; try assumption; try discriminate.
      destruct Hst as [H|[H|H]].
      * left. destruct H as (H1 & H2 & H3 & H4). repeat split; try assumption. discriminate.
      * destruct H as (_ & H2 & _). congruence.
      * destruct H as (_ & H2 & _). discriminate.
  - (* MWaiting *)
    exact Hinv.
  - (* MWoken *)
    destruct Hm as (Ha & Hx & Hst). destruct (mtx s) as [t|] eqn:Et.
    + exact Hinv.
    + unfold inv, mstat, Q, dfact, cur in *. sc. rewrite Et in *. repeat split; try assumption.
      destruct Hst as [H|[H|H]].
      * left. destruct H as (H1 & H2 & H3 & H4). repeat split; try assumption. discriminate.
      * destruct H as (_ & H2 & _). discriminate.
      * right; right. destruct H as (H1 & H2 & H3 & H4 & H5). repeat split; try assumption. discriminate.
  - (* MDoneSeen: Synchronize returns *)
    destruct Hm as (Ha & Hx & Hdn & Hst).
    assert (srunb (spc s) = true /\ nomarker (Q s) /\ exists more, completed s = marked s ++ more) as (Hs & Hq & Hmore).
    { destruct Hst as [H|[H|H]].
      - destruct H as (_ & H2 & _). congruence.
      - destruct H as (_ & H2 & _). congruence.
      - destruct H as (H1 & _ & _ & H4 & H5). auto. }
    assert (sync_ok c0 (marked s, completed s, sdisk s, cur s)) as Hok.
    { split; [exact Hmore|]. unfold dfact in Hd. unfold cur. destruct (spc s) as [|m rest| | |]; try discriminate.
      - left. exact Hd.
      - destruct Hd as (_ & [Hd|Hd] & _); [left; exact Hd|right; exists m; auto]. }
    unfold inv, Q, dfact, cur in *. sc. repeat split; try assumption.
    apply Forall_app. split; [exact Hl|]. constructor; [exact Hok|constructor].
Qed.

Lemma Q_pop s i r : batch s = i :: r -> Q s = i :: (r ++ queue s).
Proof. unfold Q. intros ->. reflexivity. Qed.

(* S takes a closure that is not M's marker off the list (a save is started, or a foreign marker is
   dealt with): what changes for the position of M's marker *)
Lemma mstat_pop s s' i r add :
  batch s = i :: r -> i <> IMarker ->
  Q s' = r ++ queue s -> srunb (spc s) = true -> srunb (spc s') = true ->
  done s' = done s -> mtx s' = mtx s -> marked s' = marked s -> completed s' = completed s ->
  cur s = [] -> cur s' = add -> saves_of [i] = add ->
  mstat s -> mstat s'.
Proof.
  intros Eb Hi Eq Hs Hs' Ed Em Emk Ec Cu Cu' Ea H. pose proof (Q_pop s _ _ Eb) as Hq.
  unfold mstat in *. rewrite Ed, Em, Emk, Ec, Eq, Cu'. rewrite Hq, Cu in H.
  destruct H as [H|[H|H]].
  - left. destruct H as (A & B & C & pre & post & E & N1 & N2 & Mk).
    destruct (marker_split_head _ _ _ _ E N1) as [(F & _)|(_ & pre' & -> & -> & N1')]; [contradiction|].
    repeat split; try assumption. exists pre', post. repeat split; try assumption.
    rewrite Mk. change (i :: pre') with ([i] ++ pre'). rewrite saves_of_app, Ea. cbn [app]. reflexivity.
  - destruct H as (A & _). destruct (spc s); try discriminate; destruct A as [[A _]|[[A _]|[A _]]]; discriminate.
  - right; right. destruct H as (A & B & C & D & F). apply nomarker_cons in D as [_ D]. repeat split; assumption.
Qed.

Lemma saver_inv c0 s : inv c0 s -> inv c0 (saver_step true s).
Proof.
  intros Hinv. pose proof Hinv as (Hz & Hi & Hd & Hl & Hm). unfold saver_step. destruct (spc s) eqn:Es.
  - (* SRun *)
    destruct (batch s) as [|[m| |] r] eqn:Eb.
    + (* swap *)
      apply (inv_ext c0 s); try reflexivity; [|exact Hinv].
      unfold Q. sc. rewrite Eb. cbn [app]. apply app_nil_r.
    + (* a save is taken off the list and started *)
      pose proof (Q_pop s _ _ Eb) as Hq.
      destruct (save_runs m (sdisk s)) as (d' & R & Ec).
      destruct (save_script_shape m) as (r1 & Esh & Fsh).
      set (s' := set_batch r (set_spc (SSaving m (save_script m)) s)).
      assert (mstat s -> mstat s') as Kp.
      { apply (mstat_pop s s' (ISave m) r [m]); try reflexivity; try assumption; try discriminate.
        - rewrite Es. reflexivity.
        - unfold cur. rewrite Es. reflexivity. }
      unfold inv. split; [exact Hz|]. split; [|split; [|split; [exact Hl|]]].
      * unfold cur in *. rewrite Es in Hi. subst s'. unfold Q in *. sc. rewrite Hi, Eb. reflexivity.
      * unfold dfact in *. rewrite Es in Hd. subst s'. sc.
        split; [exists d'; auto|]. split; [left; exact Hd|]. right. exists r1. auto.
      * subst s'. sc. fold (set_batch r (set_spc (SSaving m (save_script m)) s)).
        rewrite ?Es in Hm. cbn [srunb] in *.
        assert (nomarker (Q s) -> nomarker (r ++ queue s)) as Nq by (rewrite Hq; intros H; apply nomarker_cons in H as [_ H]; exact H).
        change (Q (set_batch r (set_spc (SSaving m (save_script m)) s))) with (r ++ queue s).
        destruct (mpc s).
        -- destruct Hm as (A & B & C & D). auto.
        -- destruct Hm as (A & B & C & D & F). auto 6.
        -- destruct Hm as (A & B & C). auto.
        -- destruct Hm as (A & B & C). auto.
        -- destruct Hm as (A & B & C). auto.
        -- destruct Hm as (A & B & C & D). auto.
    + (* M's marker: Lock *)
      pose proof (Q_pop s _ _ Eb) as Hq.
      assert (alive s = true /\ done s = false /\ (mpc s = MPushed \/ mpc s = MWaiting \/ mpc s = MWoken) /\
              nomarker (r ++ queue s) /\ marked s = completed s) as (Ha & Hdn & Hmp & Nr & Mk).
      { assert (mstat s -> done s = false /\ nomarker (r ++ queue s) /\ marked s = completed s) as K.
        { unfold mstat. rewrite Hq. unfold cur. rewrite Es. intros [H|[H|H]].
          - destruct H as (A & B & C & pre & post & E & N1 & N2 & Mk).
            destruct (marker_split_head _ _ _ _ E N1) as [(_ & -> & ->)|(F & _)]; [|contradiction F; reflexivity].
            cbn in Mk. rewrite app_nil_r in Mk. auto.
          - destruct H as (_ & _ & D & _). apply nomarker_cons in D as [D _]. contradiction D; reflexivity.
          - destruct H as (_ & _ & _ & D & _). apply nomarker_cons in D as [D _]. contradiction D; reflexivity. }
        destruct (mpc s).
        - destruct Hm as (_ & _ & _ & D). rewrite Hq in D. apply nomarker_cons in D as [D _]. contradiction D; reflexivity.
        - destruct Hm as (_ & _ & _ & _ & D). rewrite Hq in D. apply nomarker_cons in D as [D _]. contradiction D; reflexivity.
        - destruct Hm as (A & B & H). destruct (K H) as (K1 & K2 & K3). auto 8.
        - destruct Hm as (A & B & H). destruct (K H) as (K1 & K2 & K3). auto 8.
        - destruct Hm as (A & B & H). destruct (K H) as (K1 & K2 & K3). auto 8.
        - destruct Hm as (A & B & C & H). destruct (K H) as (K1 & _). congruence. }
      rewrite Ha. destruct (mtx s) as [t|] eqn:Et.
      * exact Hinv.
      * unfold inv, mstat, dfact, cur in *. unfold Q in *. sc. rewrite Es in Hi, Hd. rewrite Eb in Hi. cbn [app saves_of flat_map] in Hi.
        split; [exact Hz|]. split; [exact Hi|]. split; [exact Hd|]. split; [exact Hl|].
        assert (((SMLocked = SMLocked /\ done s = false \/ SMLocked = SMSet /\ done s = true \/ SMLocked = SMSignalled /\ done s = true) /\
                 Some TS = Some TS /\ nomarker (r ++ queue s) /\ exists more, completed s = marked s ++ more)) as K2.
        { split; [left; auto|]. split; [reflexivity|]. split; [exact Nr|]. exists []. rewrite Mk, app_nil_r. reflexivity. }
        destruct Hmp as [Hp|[Hp|Hp]]; rewrite Hp in *.
        -- destruct Hm as (_ & B & _). discriminate.
        -- repeat split; try assumption; try discriminate. right; left. exact K2.
        -- repeat split; try assumption; try discriminate. right; left. exact K2.
    + (* another caller's marker *)
      pose proof (Q_pop s _ _ Eb) as Hq.
      set (s' := set_batch r s).
      assert (mstat s -> mstat s') as Kp.
      { apply (mstat_pop s s' IForeign r []); try reflexivity; try assumption; try discriminate.
        - rewrite Es. reflexivity.
        - subst s'. sc. rewrite Es. reflexivity.
        - unfold cur. rewrite Es. reflexivity.
        - subst s'. unfold cur. sc. rewrite Es. reflexivity. }
      unfold inv. split; [exact Hz|]. split; [|split; [|split; [exact Hl|]]].
      * unfold cur in *. subst s'. unfold Q in *. sc. rewrite Hi, Eb. reflexivity.
      * unfold dfact in *. subst s'. sc. exact Hd.
      * subst s'. sc. fold (set_batch r s).
        assert (nomarker (Q s) -> nomarker (r ++ queue s)) as Nq by (rewrite Hq; intros H; apply nomarker_cons in H as [_ H]; exact H).
        change (Q (set_batch r s)) with (r ++ queue s). rewrite Es. cbn [srunb].
        destruct (mpc s).
        -- destruct Hm as (A & B & C & D). auto.
        -- destruct Hm as (A & B & C & D & F). auto 6.
        -- destruct Hm as (A & B & C). auto.
        -- destruct Hm as (A & B & C). auto.
        -- destruct Hm as (A & B & C). auto.
        -- destruct Hm as (A & B & C & D). auto.
  - (* SSaving: one system call of the save, or its return *)
    unfold dfact in Hd. rewrite Es in Hd. destruct Hd as ((df & R & Ef) & Hc & Hsh).
    unfold cur in Hi. rewrite Es in Hi.
    destruct rest as [|c rest'].
    + (* the save returns *)
      cbn [fs_run] in R. inversion R; subst df.
      set (s' := set_spc SRun (set_completed (completed s ++ [m]) s)).
      assert (mstat s -> mstat s') as Kp.
      { unfold mstat, cur, Q. subst s'. sc. rewrite Es. cbn [srunb]. intros [H|[H|H]].
        - left. destruct H as (A & B & C & pre & post & E & N1 & N2 & Mk). repeat split; try assumption.
          exists pre, post. repeat split; try assumption. rewrite Mk, <- !app_assoc. reflexivity.
        - destruct H as ([[A _]|[[A _]|[A _]]] & _); discriminate.
        - right; right. destruct H as (A & B & C & D & more & F). repeat split; try assumption.
          exists (more ++ [m]). rewrite F, app_assoc. reflexivity. }
      unfold inv. split; [exact Hz|]. split; [|split; [|split; [exact Hl|]]].
      * subst s'. unfold cur, Q in *. sc. rewrite Hi, <- !app_assoc. reflexivity.
      * subst s'. unfold dfact, lastconf. sc. rewrite last_opt_snoc. exact Ef.
      * subst s'. sc. fold (set_spc SRun (set_completed (completed s ++ [m]) s)).
        change (Q (set_spc SRun (set_completed (completed s ++ [m]) s))) with (Q s).
        rewrite ?Es in Hm. cbn [srunb] in *.
        destruct (mpc s).
        -- destruct Hm as (A & B & C & D). auto.
        -- destruct Hm as (A & B & C & D & F). auto 6.
        -- destruct Hm as (A & B & C). auto.
        -- destruct Hm as (A & B & C). auto.
        -- destruct Hm as (A & B & C). auto.
        -- destruct Hm as (A & B & C & D). auto.
    + cbn [fs_run] in R. destruct (fs_step (sdisk s) c) as [d1|] eqn:E1; [|discriminate].
      set (s' := set_spc (SSaving m rest') (set_sdisk d1 s)).
      assert (mstat s -> mstat s') as Kp.
      { unfold mstat, cur, Q. subst s'. sc. rewrite Es. cbn [srunb]. intros [H|[H|H]];
          [left; exact H|destruct H as ([[A _]|[[A _]|[A _]]] & _); discriminate|right; right; exact H]. }
      unfold inv. split; [exact Hz|]. split; [|split; [|split; [exact Hl|]]].
      * subst s'. unfold cur, Q in *. sc. exact Hi.
      * subst s'. unfold dfact. sc. split; [exists df; auto|].
        destruct Hsh as [Hsh|(r1 & Er & Fr)]; [discriminate|].
        destruct r1 as [|x r1'].
        -- (* the rename: the file becomes the new one, nothing is left to do *)
           cbn [app] in Er. inversion Er; subst c rest'. cbn [fs_run] in R. inversion R; subst d1.
           split; [right; exact Ef|left; reflexivity].
        -- cbn [app] in Er. inversion Er; subst c rest'. cbn [forallb] in Fr. apply andb_prop in Fr as [Fx Fr].
           rewrite (tmp_only_conf _ _ _ Fx E1). split; [exact Hc|]. right. exists r1'. auto.
      * subst s'. sc. fold (set_spc (SSaving m rest') (set_sdisk d1 s)).
        change (Q (set_spc (SSaving m rest') (set_sdisk d1 s))) with (Q s).
        rewrite ?Es in Hm. cbn [srunb] in *.
        destruct (mpc s).
        -- destruct Hm as (A & B & C & D). auto.
        -- destruct Hm as (A & B & C & D & F). auto 6.
        -- destruct Hm as (A & B & C). auto.
        -- destruct Hm as (A & B & C). auto.
        -- destruct Hm as (A & B & C). auto.
        -- destruct Hm as (A & B & C & D). auto.
  - (* SMLocked: set the flag *)
    assert (alive s = true /\ (mpc s = MWaiting \/ mpc s = MWoken) /\ mtx s = Some TS /\ nomarker (Q s) /\
            exists more, completed s = marked s ++ more) as (Ha & Hw & Hx & Hq & Hmore).
    { assert (mstat s -> mtx s = Some TS /\ nomarker (Q s) /\ exists more, completed s = marked s ++ more) as K.
      { unfold mstat. rewrite Es. cbn [srunb]. intros [H|[H|H]].
        - destruct H as (A & _). discriminate.
        - destruct H as (_ & B & C & D). auto.
        - destruct H as (A & _). discriminate. }
      rewrite ?Es in Hm. cbn [srunb] in Hm. destruct (mpc s).
      - destruct Hm as (_ & B & _). discriminate.
      - destruct Hm as (_ & B & _). discriminate.
      - destruct Hm as (A & B & H). destruct (K H) as (K1 & _). congruence.
      - destruct Hm as (A & B & H). destruct (K H) as (K1 & K2 & K3). auto 8.
      - destruct Hm as (A & B & H). destruct (K H) as (K1 & K2 & K3). auto 8.
      - destruct Hm as (A & B & C & H). destruct (K H) as (K1 & _). congruence. }
    rewrite Ha. unfold inv, mstat, dfact, cur in *. unfold Q in *. sc. rewrite Es in Hi, Hd.
    split; [exact Hz|]. split; [exact Hi|]. split; [exact Hd|]. split; [exact Hl|].
    destruct Hw as [Hw|Hw]; rewrite Hw in *; destruct Hm as (A & B & _);
      (repeat split; try assumption); right; left; (split; [right; left; auto|auto]).
  - (* SMSet: signal *)
    assert (alive s = true /\ (mpc s = MWaiting \/ mpc s = MWoken) /\ mtx s = Some TS /\ done s = true /\ nomarker (Q s) /\
            exists more, completed s = marked s ++ more) as (Ha & Hw & Hx & Hdn & Hq & Hmore).
    { assert (mstat s -> mtx s = Some TS /\ done s = true /\ nomarker (Q s) /\ exists more, completed s = marked s ++ more) as K.
      { unfold mstat. rewrite Es. cbn [srunb]. intros [H|[H|H]].
        - destruct H as (A & _). discriminate.
        - destruct H as ([[A _]|[[_ A]|[A _]]] & B & C & D); try discriminate. auto.
        - destruct H as (A & _). discriminate. }
      rewrite ?Es in Hm. cbn [srunb] in Hm. destruct (mpc s).
      - destruct Hm as (_ & B & _). discriminate.
      - destruct Hm as (_ & B & _). discriminate.
      - destruct Hm as (A & B & H). destruct (K H) as (K1 & _). congruence.
      - destruct Hm as (A & B & H). destruct (K H) as (K1 & K2 & K3 & K4). auto 8.
      - destruct Hm as (A & B & H). destruct (K H) as (K1 & K2 & K3 & K4). auto 8.
      - destruct Hm as (A & B & C & H). destruct (K H) as (K1 & _). congruence. }
    rewrite Ha. unfold inv, mstat, dfact, cur in *. unfold Q in *. sc. rewrite Es in Hi, Hd.
    assert (((SMSignalled = SMLocked /\ done s = false \/ SMSignalled = SMSet /\ done s = true \/ SMSignalled = SMSignalled /\ done s = true) /\
             mtx s = Some TS /\ nomarker (batch s ++ queue s) /\ exists more, completed s = marked s ++ more)) as K2
      by (split; [right; right; auto|auto]).
    destruct Hw as [Hw|Hw]; rewrite Hw in *; destruct Hm as (A & B & _); sc; rewrite ?Hw;
      (split; [exact Hz|split; [exact Hi|split; [exact Hd|split; [exact Hl|]]]]);
      (split; [exact A|split; [exact B|right; left; exact K2]]).
  - (* SMSignalled: unlock *)
    assert (alive s = true /\ (mpc s = MWaiting \/ mpc s = MWoken) /\ done s = true /\ nomarker (Q s) /\
            exists more, completed s = marked s ++ more) as (Ha & Hw & Hdn & Hq & Hmore).
    { assert (mstat s -> mtx s = Some TS /\ done s = true /\ nomarker (Q s) /\ exists more, completed s = marked s ++ more) as K.
      { unfold mstat. rewrite Es. cbn [srunb]. intros [H|[H|H]].
        - destruct H as (A & _). discriminate.
        - destruct H as ([[A _]|[[A _]|[_ A]]] & B & C & D); try discriminate. auto.
        - destruct H as (A & _). discriminate. }
      rewrite ?Es in Hm. cbn [srunb] in Hm. destruct (mpc s).
      - destruct Hm as (_ & B & _). discriminate.
      - destruct Hm as (_ & B & _). discriminate.
      - destruct Hm as (A & B & H). destruct (K H) as (K1 & _). congruence.
      - destruct Hm as (A & B & H). destruct (K H) as (K1 & K2 & K3 & K4). auto 8.
      - destruct Hm as (A & B & H). destruct (K H) as (K1 & K2 & K3 & K4). auto 8.
      - destruct Hm as (A & B & C & H). destruct (K H) as (K1 & _). congruence. }
    rewrite Ha. unfold inv, mstat, dfact, cur in *. unfold Q in *. sc. rewrite Es in Hi, Hd.
    split; [exact Hz|]. split; [exact Hi|]. split; [exact Hd|]. split; [exact Hl|].
    destruct Hw as [Hw|Hw]; rewrite Hw in *; destruct Hm as (A & B & _);
      (repeat split; try assumption; try discriminate); right; right;
      (repeat split; try assumption; try reflexivity; try discriminate).
Qed.

Lemma step_inv c0 s c : inv c0 s -> inv c0 (step true s c).
Proof.
  intros H. unfold step. destruct H as (Hz & H'). rewrite Hz.
  assert (inv c0 s) as H by (split; assumption).
  destruct c; [apply main_inv|apply saver_inv|apply spurious_inv|apply env_save_inv|apply env_sync_inv]; exact H.
Qed.

Lemma run_inv c0 sched : forall s, inv c0 s -> inv c0 (run true sched s).
Proof.
  unfold run. induction sched as [|c r IH]; intros s H; cbn [fold_left]; [exact H|].
  apply IH, step_inv, H.
Qed.

(* ---------------------------------------------------------------- the theorem *)
Lemma sync_safe p d sched :
  let s := run true sched (init p d) in
  hazard s = false /\ Forall (sync_ok (f_conf d)) (synclog s).
Proof.
  intros s. destruct (run_inv (f_conf d) sched (init p d) (inv_init p d)) as (Hz & _ & _ & Hl & _).
  split; [exact Hz|exact Hl].
Qed.

(* the file part spelled out: with no save in progress at the return, the file holds byte for byte
   the last completed save (so it loads as that store when admissible); with a later save of another
   thread in progress, it holds that or already the later one *)
Lemma sync_safe_loads p d sched :
  let s := run true sched (init p d) in
  hazard s = false /\
  Forall (fun e => let '(queued_before, comp, dk, in_progress) := e in
            (exists more, comp = queued_before ++ more) /\
            (in_progress = [] -> forall m, last_opt comp = Some m ->
               f_conf dk = Some (save_bytes m) /\ (sorted m -> map_ok m -> restart dk = m)) /\
            (forall m', in_progress = [m'] ->
               f_conf dk = lastconf (f_conf d) comp \/ f_conf dk = Some (save_bytes m')))
         (synclog s).
Proof.
  intros s. destruct (sync_safe p d sched) as [Hz Hl]. split; [exact Hz|].
  fold s in Hl. rewrite Forall_forall in *. intros [[[qb comp] dk] cu] Hin.
  specialize (Hl _ Hin). cbn in Hl. destruct Hl as [Hc Hf]. split; [exact Hc|]. split.
  - intros -> m Hm. destruct Hf as [Hf|(m' & E & _)]; [|discriminate].
    unfold lastconf in Hf. rewrite Hm in Hf. split; [exact Hf|].
    intros Hs Hok. unfold restart, load_into. rewrite Hf. apply load_save; assumption.
  - intros m' ->. destruct Hf as [Hf|(m'' & E & Hf)]; [left; exact Hf|]. inversion E; subst. right; exact Hf.
Qed.

(* Before fix 04 (one pthread_cond_wait, no predicate; mutex and condition variable used by the
   saver after Unlock): a single spurious wake-up makes Synchronize return while the save issued
   before it has not even started, and the saver then locks a mutex that no longer exists. *)
Definition old_sync_schedule : list choice :=
  [CMain; CMain; CMain; CMain; CSpurious; CMain; CMain].
Lemma old_sync_returns_early :
  let m := [([107], [118])] in
  let d0 := {| f_conf := None; f_tmp := None |} in
  let s := run false old_sync_schedule (init [MSave m; MSync] d0) in
  synclog s = [([m], [], d0, [])] /\ hazard s = false /\
  hazard (run false (repeat CSaver 8) s) = true.
Proof. vm_compute. repeat split. Qed.
Lemma fixed_sync_same_schedule :
  let m := [([107], [118])] in
  let d0 := {| f_conf := None; f_tmp := None |} in
  let s := run true old_sync_schedule (init [MSave m; MSync] d0) in
  synclog s = [] /\ mpc s = MWaiting.
Proof. vm_compute. split; reflexivity. Qed.
Lemma fixed_sync_completes :
  let m := [([107], [118])] in
  let d0 := {| f_conf := None; f_tmp := None |} in
  let s := run true (old_sync_schedule ++ repeat CSaver 11 ++ repeat CMain 4) (init [MSave m; MSync] d0) in
  exists dk, synclog s = [([m], [m], dk, [])] /\ f_conf dk = Some (save_bytes m) /\ mpc s = MIdle /\ prog s = [].
Proof. vm_compute. eexists. repeat split. Qed.

Lemma overlap_schedule_example :
  let a := [([107], [49])] in
  let b := [([107], [50])] in
  let d0 := {| f_conf := None; f_tmp := None |} in
  let s1 := run true [CMain; CSaver; CSaver; CSaver; CMain] (init [MSave a; MSave b; MSync] d0) in
  let s2 := run true (repeat CMain 3 ++ repeat CSaver 16 ++ repeat CMain 3) s1 in
  (exists rest, spc s1 = SSaving a rest /\ length rest = 3%nat /\ issued s1 = [a; b] /\ completed s1 = []) /\
  exists dk, synclog s2 = [([a; b], [a; b], dk, [])] /\ f_conf dk = Some (save_bytes b) /\ prog s2 = [].
Proof. vm_compute. split; [eexists; repeat split|eexists; repeat split]. Qed.

(* other callers: a foreign Synchronize queued before M's marker, a foreign save queued after it.
   M's Synchronize returns when everything queued before its marker is done ([a]); the later save b
   is then still pending, or - a few saver steps on - in progress with the file already replaced. *)
Lemma other_callers_example :
  let a := [([107], [49])] in
  let b := [([107], [50])] in
  let d0 := {| f_conf := None; f_tmp := None |} in
  let s1 := run true ([CMain; CEnvSync; CMain; CMain; CEnvSave b; CMain] ++ repeat CSaver 12 ++ repeat CMain 3)
                (init [MSave a; MSync] d0) in
  (exists dk, synclog s1 = [([a], [a], dk, [])] /\ f_conf dk = Some (save_bytes a) /\
              issued s1 = [a; b] /\ batch s1 = [ISave b]) /\
  let s2 := run true ([CMain; CEnvSync; CMain; CMain; CEnvSave b; CMain] ++ repeat CSaver 12 ++
                      [CMain; CMain] ++ repeat CSaver 5 ++ [CMain])
                (init [MSave a; MSync] d0) in
  exists dk, synclog s2 = [([a], [a], dk, [b])] /\ f_conf dk = Some (save_bytes b).
Proof. vm_compute. split; eexists; repeat split. Qed.
