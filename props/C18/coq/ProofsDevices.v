(* C18 proofs (extension round): histories of universes and devices going away and coming back.
   The settings of one universe / one port are not disturbed by the teardown of others: the keys
   derived from different universe ids / different ports never collide. *)
From OlaBase Require Import Bytes.
From Coq Require Import Sorted.
From C18 Require Import Model ProofsStr ProofsLoad ProofsRestore ProofsPort.
Local Open Scope N_scope.

(* ---------------------------------------------------------------- digit runs delimit numbers *)
Lemma digit_run_split a : forall b x y r r',
  Forall (fun c => is_digit c = true) a -> Forall (fun c => is_digit c = true) b ->
  is_digit x = false -> is_digit y = false ->
  a ++ x :: r = b ++ y :: r' -> a = b /\ x = y /\ r = r'.
Proof.
  induction a as [|d a IH]; intros [|e b] x y r r' Fa Fb Hx Hy E; cbn [app] in E.
  - inversion E. auto.
  - inversion E; subst. inversion Fb; subst. congruence.
  - inversion E; subst. inversion Fa; subst. congruence.
  - inversion E; subst. inversion Fa; inversion Fb; subst.
    destruct (IH b x y r r') as (E1 & E2 & E3); try assumption. subst. auto.
Qed.

Lemma dec_inj n1 n2 : n1 < 10 ^ 20 -> n2 < 10 ^ 20 -> dec n1 = dec n2 -> n1 = n2.
Proof. intros H1 H2 E. rewrite <- (digits_val_dec n1 H1), <- (digits_val_dec n2 H2), E. reflexivity. Qed.

(* ---------------------------------------------------------------- universes *)
Lemma uni_key_inj id1 id2 s1 s2 :
  id1 < 10 ^ 20 -> id2 < 10 ^ 20 ->
  (s1 = s_name \/ s1 = s_merge) -> (s2 = s_name \/ s2 = s_merge) ->
  uni_key id1 s1 = uni_key id2 s2 -> id1 = id2 /\ s1 = s2.
Proof.
  intros B1 B2 H1 H2 E. unfold uni_key in E. apply app_inv_head in E.
  assert (exists t1, s1 = 95 :: t1) as (t1 & ->) by (destruct H1 as [->| ->]; eexists; reflexivity).
  assert (exists t2, s2 = 95 :: t2) as (t2 & ->) by (destruct H2 as [->| ->]; eexists; reflexivity).
  destruct (digit_run_split (dec id1) (dec id2) 95 95 t1 t2 (dec_digits id1) (dec_digits id2) eq_refl eq_refl E) as (Ed & _ & Et).
  split; [apply dec_inj; assumption|congruence].
Qed.

Lemma get_save_universe_other k id u m :
  k <> uni_key id s_name -> k <> uni_key id s_merge -> get_value k (save_universe id u m) = get_value k m.
Proof. intros H1 H2. unfold save_universe. rewrite !get_set_other by assumption. reflexivity. Qed.

Lemma restore_universe_ext id m1 m2 :
  get_value (uni_key id s_name) m1 = get_value (uni_key id s_name) m2 ->
  get_value (uni_key id s_merge) m1 = get_value (uni_key id s_merge) m2 ->
  restore_universe id m1 = restore_universe id m2.
Proof. intros E1 E2. unfold restore_universe. rewrite E1, E2. reflexivity. Qed.

(* the teardown of a list of universes, in order *)
Definition teardown_all (l : list (N * uni)) (m : pmap) : pmap :=
  fold_left (fun m e => save_universe (fst e) (snd e) m) l m.

Lemma teardown_others_keep id l : forall m,
  id < 10 ^ 20 -> Forall (fun e => fst e < 10 ^ 20 /\ fst e <> id) l ->
  restore_universe id (teardown_all l m) = restore_universe id m.
Proof.
  unfold teardown_all. induction l as [|[id' u'] l IH]; intros m B F; cbn [fold_left]; [reflexivity|].
  inversion F as [|? ? [B' Hn] Fr]; subst. cbn [fst snd] in *. rewrite IH by assumption.
  apply restore_universe_ext; apply get_save_universe_other; intros E;
    apply uni_key_inj in E; try assumption; auto; destruct E; congruence.
Qed.

Lemma teardown_all_ok l : forall m,
  sorted m -> map_ok m -> Forall (fun e => val_ok (u_name (snd e))) l ->
  sorted (teardown_all l m) /\ map_ok (teardown_all l m).
Proof.
  unfold teardown_all. induction l as [|[id u] l IH]; intros m Hs Hm F; cbn [fold_left]; [auto|].
  inversion F as [|? ? Hv Fr]; subst. cbn [fst snd] in *.
  apply IH; [apply sorted_save_universe|apply map_ok_save_universe|]; assumption.
Qed.

(* Any sequence of universe teardowns (each writing name and merge mode), saved, loaded by a new
   process: the universe `id` gets back what its LAST teardown wrote, whatever other universes
   were torn down before and after. *)
Lemma universe_history id u l1 l2 m :
  sorted m -> map_ok m ->
  Forall (fun e => val_ok (u_name (snd e))) (l1 ++ (id, u) :: l2) ->
  id < 10 ^ 20 -> Forall (fun e => fst e < 10 ^ 20 /\ fst e <> id) l2 ->
  u_name u <> [] ->
  restore_universe id (load_bytes (save_bytes (teardown_all (l1 ++ (id, u) :: l2) m))) = u.
Proof.
  intros Hs Hm Fv B F2 Hn.
  destruct (teardown_all_ok _ m Hs Hm Fv) as [S1 M1]. rewrite load_save by assumption.
  unfold teardown_all. rewrite fold_left_app. cbn [fold_left fst snd].
  fold (teardown_all l1 m). fold (teardown_all l2 (save_universe id u (teardown_all l1 m))).
  rewrite teardown_others_keep by assumption. apply restore_save_universe. exact Hn.
Qed.

(* ---------------------------------------------------------------- ports: the keys never collide *)
Lemma last_byte_differs (a b : str) x y : x <> y -> a ++ [x] <> b ++ [y].
Proof. intros H E. apply app_inj_tail in E. destruct E. contradiction. Qed.

Lemma port_key_inj p1 d1 (i1 : bool) n1 p2 d2 (i2 : bool) n2 :
  p1 < 10 ^ 20 -> p2 < 10 ^ 20 -> n1 < 10 ^ 20 -> n2 < 10 ^ 20 ->
  port_key p1 d1 i1 n1 = port_key p2 d2 i2 n2 -> p1 = p2 /\ d1 = d2 /\ i1 = i2 /\ n1 = n2.
Proof.
  intros B1 B2 B3 B4 E. unfold port_key in E. cbn [app] in E.
  destruct (digit_run_split (dec p1) (dec p2) DASH DASH _ _ (dec_digits p1) (dec_digits p2) eq_refl eq_refl E) as (Ep & _ & Er).
  apply dec_inj in Ep; try assumption. split; [exact Ep|].
  apply (f_equal (@rev N)) in Er. rewrite !rev_app_distr in Er. cbn [rev app] in Er.
  rewrite <- !app_assoc in Er. cbn [app] in Er.
  assert (forall n, Forall (fun c => is_digit c = true) (rev (dec n))) as Fr.
  { intros n. apply Forall_forall. intros c Hc. apply in_rev in Hc.
    pose proof (dec_digits n) as F. rewrite Forall_forall in F. apply F; exact Hc. }
  destruct (digit_run_split (rev (dec n1)) (rev (dec n2)) DASH DASH _ _ (Fr n1) (Fr n2) eq_refl eq_refl Er) as (En & _ & Et).
  assert (dec n1 = dec n2) as En' by (rewrite <- (rev_involutive (dec n1)), En, rev_involutive; reflexivity).
  apply dec_inj in En'; try assumption.
  inversion Et as [[Ei Ed]]. apply (f_equal (@rev N)) in Ed. rewrite !rev_involutive in Ed.
  repeat split; try assumption. destruct i1, i2; try reflexivity; discriminate.
Qed.

(* the three keys of a port *)
Definition port_suffixes : list str := [[]; s_pval; s_pmode].
Definition keys_indep (a b : str) : Prop :=
  forall sa sb, In sa port_suffixes -> In sb port_suffixes -> a ++ sa <> b ++ sb.

Lemma port_keys_indep p1 d1 (i1 : bool) n1 p2 d2 (i2 : bool) n2 :
  p1 < 10 ^ 20 -> p2 < 10 ^ 20 -> n1 < 10 ^ 20 -> n2 < 10 ^ 20 ->
  (p1, d1, i1, n1) <> (p2, d2, i2, n2) ->
  keys_indep (port_key p1 d1 i1 n1) (port_key p2 d2 i2 n2).
Proof.
  intros B1 B2 B3 B4 Hne sa sb Ha Hb E.
  assert (forall p d (i : bool) n, exists body c, port_key p d i n = body ++ [c] /\ is_digit c = true) as Hlast.
  { intros p d i n. pose proof (dec_digits n) as F. pose proof (dec_nonnil n) as NN.
    destruct (exists_last NN) as (body & c & Ec). exists ((dec p ++ [DASH] ++ d ++ [DASH; if i then 73 else 79; DASH]) ++ body), c.
    split; [unfold port_key; rewrite Ec, <- !app_assoc; reflexivity|].
    rewrite Forall_forall in F. apply F. rewrite Ec. apply in_or_app. right. left. reflexivity. }
  destruct (Hlast p1 d1 i1 n1) as (b1 & c1 & E1 & D1). destruct (Hlast p2 d2 i2 n2) as (b2 & c2 & E2 & D2).
  assert (port_key p1 d1 i1 n1 = port_key p2 d2 i2 n2 -> False) as Hk.
  { intros Ek. apply port_key_inj in Ek; try assumption. destruct Ek as (-> & -> & -> & ->). contradiction. }
  unfold port_suffixes in Ha, Hb. cbn [In] in Ha, Hb.
  destruct Ha as [<-|[<-|[<-|[]]]]; destruct Hb as [<-|[<-|[<-|[]]]]; rewrite ?app_nil_r in E.
  - exact (Hk E).
  - rewrite E1 in E. change s_pval with ([95; 112; 114; 105; 111; 114; 105; 116; 121; 95; 118; 97; 108; 117] ++ [101]) in E.
    rewrite app_assoc in E. apply app_inj_tail in E. destruct E as [_ Ec]. subst c1. discriminate.
  - rewrite E1 in E. change s_pmode with ([95; 112; 114; 105; 111; 114; 105; 116; 121; 95; 109; 111; 100] ++ [101]) in E.
    rewrite app_assoc in E. apply app_inj_tail in E. destruct E as [_ Ec]. subst c1. discriminate.
  - rewrite E2 in E. change s_pval with ([95; 112; 114; 105; 111; 114; 105; 116; 121; 95; 118; 97; 108; 117] ++ [101]) in E.
    rewrite app_assoc in E. apply app_inj_tail in E. destruct E as [_ Ec]. subst c2. discriminate.
  - apply app_inv_tail in E. exact (Hk E).
  - apply (f_equal (@rev N)) in E. rewrite !rev_app_distr in E. cbn [rev app s_pval s_pmode] in E. discriminate.
  - rewrite E2 in E. change s_pmode with ([95; 112; 114; 105; 111; 114; 105; 116; 121; 95; 109; 111; 100] ++ [101]) in E.
    rewrite app_assoc in E. apply app_inj_tail in E. destruct E as [_ Ec]. subst c2. discriminate.
  - apply (f_equal (@rev N)) in E. rewrite !rev_app_distr in E. cbn [rev app s_pval s_pmode] in E. discriminate.
  - apply app_inv_tail in E. exact (Hk E).
Qed.

(* ---------------------------------------------------------------- ports: restore looks at three keys only *)
Lemma restore_port_ext id m1 m2 p :
  get_value id m1 = get_value id m2 ->
  get_value (id ++ s_pval) m1 = get_value (id ++ s_pval) m2 ->
  get_value (id ++ s_pmode) m1 = get_value (id ++ s_pmode) m2 ->
  restore_port id m1 p = restore_port id m2 p.
Proof.
  intros E1 E2 E3. unfold restore_port, restore_priority, restore_patch. rewrite E1, E2, E3. reflexivity.
Qed.

Lemma get_save_port_other k id p m :
  k <> id -> k <> id ++ s_pval -> k <> id ++ s_pmode -> get_value k (save_port id p m) = get_value k m.
Proof.
  intros H1 H2 H3. unfold save_port.
  assert (get_value k match p_uni p with Some u => set_value id (dec u) m | None => remove_value id m end
          = get_value k m) as G.
  { destruct (p_uni p); [apply get_set_other|apply get_remove_other]; exact H1. }
  destruct (p_cap p); [exact G| |]; rewrite ?get_set_other by assumption; exact G.
Qed.

Lemma save_port_indep_keeps id id' p' m q :
  keys_indep id id' -> restore_port id (save_port id' p' m) q = restore_port id m q.
Proof.
  intros Hi. assert (forall sa sb, In sa port_suffixes -> In sb port_suffixes -> id ++ sa <> id' ++ sb) as H by exact Hi.
  assert (forall sa, In sa port_suffixes -> get_value (id ++ sa) (save_port id' p' m) = get_value (id ++ sa) m) as G.
  { intros sa Ha. apply get_save_port_other.
    - rewrite <- (app_nil_r id'). apply H; [exact Ha|left; reflexivity].
    - apply H; [exact Ha|right; left; reflexivity].
    - apply H; [exact Ha|right; right; left; reflexivity]. }
  apply restore_port_ext.
  - rewrite <- (app_nil_r id). apply G. left. reflexivity.
  - apply G. right. left. reflexivity.
  - apply G. right. right. left. reflexivity.
Qed.

(* ---------------------------------------------------------------- the port settings store only holds numbers *)
(* ola-port.conf is written by DeviceManager only: every value is a decimal number.  This is what
   makes the stale <id>_priority_mode entry of a static-only port harmless. *)
Definition numeric_store (m : pmap) : Prop :=
  forall k maxv, string_to_uint maxv (get_value k m) <> PUnmodelled.

Lemma numeric_empty : numeric_store [].
Proof. intros k maxv. cbn. discriminate. Qed.

Lemma string_to_uint_dec_modelled maxv n : string_to_uint maxv (dec n) <> PUnmodelled.
Proof.
  unfold string_to_uint. pose proof (dec_digits n) as F. pose proof (dec_nonnil n) as NN.
  destruct (dec n) as [|c r]; [contradiction|]. inversion F; subst.
  match goal with H : is_digit c = true |- _ => rewrite H end.
  destruct (digits_val 0 (c :: r) <=? maxv); discriminate.
Qed.

Lemma str_eq_dec (a b : str) : {a = b} + {a <> b}.
Proof. destruct (str_eqb a b) eqn:E; [left; apply str_eqb_eq; exact E|right; apply str_eqb_neq; exact E]. Qed.

Lemma numeric_set_dec k n m : numeric_store m -> numeric_store (set_value k (dec n) m).
Proof.
  intros H k' maxv. destruct (str_eq_dec k' k) as [->|Hn].
  - rewrite get_set_same. apply string_to_uint_dec_modelled.
  - rewrite get_set_other by exact Hn. apply H.
Qed.
Lemma numeric_remove k m : numeric_store m -> numeric_store (remove_value k m).
Proof.
  intros H k' maxv. destruct (str_eq_dec k' k) as [->|Hn].
  - rewrite get_remove_same. cbn. discriminate.
  - rewrite get_remove_other by exact Hn. apply H.
Qed.
Lemma numeric_save_port id p m : numeric_store m -> numeric_store (save_port id p m).
Proof.
  intros H. unfold save_port.
  assert (numeric_store match p_uni p with Some u => set_value id (dec u) m | None => remove_value id m end) as M1.
  { destruct (p_uni p); [apply numeric_set_dec|apply numeric_remove]; exact H. }
  destruct (p_cap p); [exact M1|apply numeric_set_dec; exact M1|].
  apply numeric_set_dec, numeric_set_dec, M1.
Qed.

(* ---------------------------------------------------------------- device histories *)
(* a released port: the four components of its UniqueId and its settings *)
Record rel := { r_plugin : N; r_device : str; r_input : bool; r_port : N; r_settings : port }.
Definition rel_key (r : rel) : str := port_key (r_plugin r) (r_device r) (r_input r) (r_port r).
Definition rel_ok (r : rel) : Prop :=
  r_plugin r < 10 ^ 20 /\ r_port r < 10 ^ 20 /\ ~ In NL (r_device r) /\ ~ In EQC (r_device r) /\
  match p_uni (r_settings r) with Some u => u <= UINT32_MAX | None => True end /\
  p_prio (r_settings r) <= SOURCE_PRIORITY_MAX.
Definition same_port (a b : rel) : Prop :=
  (r_plugin a, r_device a, r_input a, r_port a) = (r_plugin b, r_device b, r_input b, r_port b).

(* devices going away, in any order, any number of times: each release writes the port's settings *)
Definition release_all (l : list rel) (m : pmap) : pmap :=
  fold_left (fun m r => save_port (rel_key r) (r_settings r) m) l m.

Lemma release_all_inv l : forall m,
  sorted m -> map_ok m -> numeric_store m -> Forall rel_ok l ->
  sorted (release_all l m) /\ map_ok (release_all l m) /\ numeric_store (release_all l m).
Proof.
  unfold release_all. induction l as [|r l IH]; intros m Hs Hm Hn F; cbn [fold_left]; [auto|].
  inversion F as [|? ? (B1 & B2 & D1 & D2 & _) Fr]; subst.
  apply IH; [apply sorted_save_port; exact Hs| |apply numeric_save_port; exact Hn|exact Fr].
  pose proof (key_ok_port (r_plugin r) (r_device r) (r_input r) (r_port r) [] D1 D2 (or_introl eq_refl)) as K.
  rewrite app_nil_r in K.
  apply map_ok_save_port; [exact K|apply key_ok_port; auto|apply key_ok_port; auto|exact Hm].
Qed.

Lemma release_others_keep r l q : forall m,
  rel_ok r -> Forall (fun x => rel_ok x /\ ~ same_port r x) l ->
  restore_port (rel_key r) (release_all l m) q = restore_port (rel_key r) m q.
Proof.
  unfold release_all. induction l as [|x l IH]; intros m Hr F; cbn [fold_left]; [reflexivity|].
  inversion F as [|? ? [Hx Hd] Fr]; subst. rewrite IH by assumption.
  apply save_port_indep_keeps. destruct Hr as (B1 & B2 & _). destruct Hx as (B3 & B4 & _).
  apply port_keys_indep; assumption.
Qed.

(* Any sequence of port releases starting from a settings store that holds only numbers (e.g. the
   empty one), saved to the file, loaded by a new process, the device registered again with new
   port objects: port r gets back what its LAST release wrote - patch for every capability,
   priority for STATIC-only and FULL ports, mode for FULL ports - whatever other ports (of the same
   or other devices, either direction) were released before and after. *)
Lemma device_history r l1 l2 m static0 :
  sorted m -> map_ok m -> numeric_store m ->
  Forall rel_ok (l1 ++ r :: l2) -> Forall (fun x => ~ same_port r x) l2 ->
  exists q, restore_port (rel_key r) (load_bytes (save_bytes (release_all (l1 ++ r :: l2) m)))
                         (fresh_like (r_settings r) static0) = RPort q /\
            port_settings_eq q (r_settings r).
Proof.
  intros Hs Hm Hn F Fd.
  destruct (release_all_inv _ m Hs Hm Hn F) as (S1 & M1 & _). rewrite load_save by assumption.
  apply Forall_app in F as [F1 F2]. inversion F2 as [|? ? Hr F3]; subst.
  unfold release_all. rewrite fold_left_app. cbn [fold_left].
  fold (release_all l1 m). fold (release_all l2 (save_port (rel_key r) (r_settings r) (release_all l1 m))).
  rewrite release_others_keep; [|exact Hr|].
  - destruct (release_all_inv l1 m Hs Hm Hn F1) as (_ & _ & N1).
    destruct Hr as (_ & _ & _ & _ & Hu & Hp).
    apply restore_save_port; [exact Hu|exact Hp|]. intros _. apply N1.
  - rewrite Forall_forall in *. intros x Hx. split; [apply F3; exact Hx|apply Fd; exact Hx].
Qed.
