(* C18 proofs (extension round): the typed entry points of the store write admissible values. *)
From OlaBase Require Import Bytes.
From Coq Require Import Sorted.
From C18 Require Import Model ProofsStr ProofsLoad ProofsRestore ProofsPort.
Local Open Scope N_scope.

Lemma val_ok_true : val_ok s_true.
Proof. split; [cbn; intuition discriminate|split; reflexivity]. Qed.
Lemma val_ok_false : val_ok s_false.
Proof. split; [cbn; intuition discriminate|split; reflexivity]. Qed.
Lemma val_ok_dec_z z : val_ok (dec_z z).
Proof.
  unfold dec_z. destruct (z <? 0)%Z; [|apply val_ok_dec].
  destruct (val_ok_dec (Z.to_N (- z))) as [H1 [_ H3]]. split.
  - intros [H|H]; [discriminate|contradiction].
  - split; [reflexivity|]. change (45 :: dec (Z.to_N (- z))) with ([45] ++ dec (Z.to_N (- z))).
    apply (last_nonblank_app [45]); [apply dec_nonnil|exact H3].
Qed.

Lemma get_value_bool_set k b m : get_value_bool k (set_value_bool k b m) = b.
Proof.
  unfold get_value_bool, set_value_bool, set_value.
  rewrite mm_find_insert_same by apply mm_find_erase_same. destruct b; reflexivity.
Qed.

(* through the file *)
Lemma bool_roundtrip k b m :
  sorted m -> map_ok m -> key_ok k ->
  get_value_bool k (load_bytes (save_bytes (set_value_bool k b m))) = b.
Proof.
  intros Hs Hm Hk. rewrite load_save.
  - apply get_value_bool_set.
  - apply sorted_set_value; exact Hs.
  - apply map_ok_set_value; [exact Hk|destruct b; [apply val_ok_true|apply val_ok_false]|exact Hm].
Qed.
Lemma uint_roundtrip k n maxv m :
  sorted m -> map_ok m -> key_ok k -> n < 10 ^ 20 ->
  string_to_uint maxv (get_value k (load_bytes (save_bytes (set_value_uint k n m)))) =
  if n <=? maxv then PVal n else PReject.
Proof.
  intros Hs Hm Hk Hn. unfold set_value_uint. rewrite load_save.
  - rewrite get_set_same. apply string_to_uint_dec; exact Hn.
  - apply sorted_set_value; exact Hs.
  - apply map_ok_set_value; [exact Hk|apply val_ok_dec|exact Hm].
Qed.
Lemma int_roundtrip k z m :
  sorted m -> map_ok m -> key_ok k ->
  get_value k (load_bytes (save_bytes (set_value_int k z m))) = dec_z z.
Proof.
  intros Hs Hm Hk. unfold set_value_int. rewrite load_save.
  - apply get_set_same.
  - apply sorted_set_value; exact Hs.
  - apply map_ok_set_value; [exact Hk|apply val_ok_dec_z|exact Hm].
Qed.
