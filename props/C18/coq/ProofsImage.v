(* C18 proofs (extension round 2): the exact image of ANY line under the loader, hence of entries
   that do not meet the side conditions. *)
From OlaBase Require Import Bytes.
From Coq Require Import Sorted.
From C18 Require Import Model ProofsStr ProofsLoad ProofsGrammar.
Local Open Scope N_scope.

Definition all_blank (l : str) : Prop := forallb is_blank l = true.
Definition rtrim (b : str) : str := rev (drop_blank (rev b)).
Definition hashb (s : str) : bool := match s with c :: _ => c =? HASH | [] => false end.

Lemma trim_rtrim s : trim s = rtrim (drop_blank s).
Proof. apply trim_rev. Qed.

Lemma all_blank_app a b : all_blank (a ++ b) <-> all_blank a /\ all_blank b.
Proof. unfold all_blank. rewrite forallb_app. split; [apply andb_prop|intros [-> ->]; reflexivity]. Qed.
Lemma all_blank_rev a : all_blank a -> all_blank (rev a).
Proof.
  unfold all_blank. rewrite !forallb_forall. intros H x Hx. apply H. apply in_rev. exact Hx.
Qed.
Lemma drop_blank_all_blank l : all_blank l -> drop_blank l = [].
Proof.
  unfold all_blank. induction l as [|c l IH]; cbn [forallb drop_blank]; [reflexivity|].
  intros H. apply andb_prop in H as [Hc Hl]. rewrite Hc. apply IH; exact Hl.
Qed.
Lemma drop_blank_app_blank pre x : all_blank pre -> drop_blank (pre ++ x) = drop_blank x.
Proof.
  unfold all_blank. induction pre as [|c l IH]; cbn [forallb app drop_blank]; [reflexivity|].
  intros H. apply andb_prop in H as [Hc Hl]. rewrite Hc. apply IH; exact Hl.
Qed.
Lemma drop_blank_prefix s : exists pre, s = pre ++ drop_blank s /\ all_blank pre.
Proof.
  induction s as [|c r IH]; cbn [drop_blank]; [exists []; split; reflexivity|].
  destruct (is_blank c) eqn:E; [|exists []; split; reflexivity].
  destruct IH as (pre & Es & Hb). exists (c :: pre). split; [cbn [app]; rewrite <- Es; reflexivity|].
  unfold all_blank in *. cbn [forallb]. rewrite E, Hb. reflexivity.
Qed.
Lemma rtrim_suffix x : exists q, x = rtrim x ++ q /\ all_blank q.
Proof.
  destruct (drop_blank_prefix (rev x)) as (q0 & E & Hb). exists (rev q0). split; [|apply all_blank_rev; exact Hb].
  unfold rtrim. rewrite <- rev_app_distr, <- E. symmetry. apply rev_involutive.
Qed.

(* decomposition and uniqueness of the trimmed core *)
Lemma trim_decompose s : exists pre post, s = pre ++ trim s ++ post /\ all_blank pre /\ all_blank post.
Proof.
  destruct (drop_blank_prefix s) as (pre & E & Hp). destruct (rtrim_suffix (drop_blank s)) as (q & Eq & Hq).
  exists pre, q. rewrite trim_rtrim. split; [rewrite <- Eq; exact E|auto].
Qed.
Lemma trim_unique pre core post :
  all_blank pre -> all_blank post -> no_edge_blank core -> trim (pre ++ core ++ post) = core.
Proof.
  intros Hp Hq [H1 H2]. rewrite trim_rtrim, drop_blank_app_blank by exact Hp.
  destruct core as [|c r].
  - cbn [app]. rewrite drop_blank_all_blank by exact Hq. reflexivity.
  - cbn [app drop_blank]. rewrite H1. unfold rtrim.
    change (c :: r ++ post) with ((c :: r) ++ post). rewrite rev_app_distr.
    rewrite drop_blank_app_blank by (apply all_blank_rev; exact Hq).
    rewrite (drop_blank_id _ H2). apply rev_involutive.
Qed.

Lemma trim_drop_blank x : trim (drop_blank x) = trim x.
Proof.
  rewrite !trim_rtrim. f_equal. apply drop_blank_id. apply drop_blank_head.
Qed.
Lemma trim_of_rtrim x : trim (rtrim x) = trim x.
Proof.
  destruct (rtrim_suffix x) as (q & E & Hq). destruct (trim_decompose (rtrim x)) as (p & q' & E' & Hp & Hq').
  rewrite E at 2. rewrite E' at 2. rewrite <- !app_assoc.
  symmetry. apply trim_unique; [exact Hp|apply all_blank_app; auto|apply trim_no_edge_blank].
Qed.
Lemma trim_blank_ends a x b : all_blank a -> all_blank b -> trim (a ++ x ++ b) = trim x.
Proof.
  intros Ha Hb. destruct (trim_decompose x) as (p & q & E & Hp & Hq). rewrite E at 1.
  replace (a ++ (p ++ trim x ++ q) ++ b) with ((a ++ p) ++ trim x ++ (q ++ b)) by (rewrite <- !app_assoc; reflexivity).
  apply trim_unique; [apply all_blank_app; auto|apply all_blank_app; auto|apply trim_no_edge_blank].
Qed.

(* a line around a non-blank byte *)
Lemma drop_blank_mid a c b : is_blank c = false -> drop_blank (a ++ c :: b) = drop_blank a ++ c :: b.
Proof.
  intros Hc. induction a as [|x a IH]; cbn [app drop_blank].
  - rewrite Hc. reflexivity.
  - destruct (is_blank x); [exact IH|reflexivity].
Qed.
Lemma rtrim_mid a c b : is_blank c = false -> rtrim (a ++ c :: b) = a ++ c :: rtrim b.
Proof.
  intros Hc. unfold rtrim. rewrite rev_app_distr. cbn [rev]. rewrite <- app_assoc. cbn [app].
  rewrite drop_blank_mid by exact Hc. rewrite rev_app_distr. cbn [rev].
  rewrite rev_involutive, <- app_assoc. reflexivity.
Qed.
Lemma trim_mid a c b : is_blank c = false -> trim (a ++ c :: b) = drop_blank a ++ c :: rtrim b.
Proof. intros Hc. rewrite trim_rtrim, drop_blank_mid by exact Hc. apply rtrim_mid; exact Hc. Qed.

(* ---------------------------------------------------------------- the image of any line with an '=' *)
(* a ++ "=" ++ b with no '=' in a: a comment if the trimmed a starts with '#', else the entry
   (trim a, trim b) - whatever blanks, '#' or further '=' a and b contain *)
Lemma load_line_image acc a b :
  ~ In EQC a ->
  load_line acc (a ++ EQC :: b) = if hashb (trim a) then acc else mm_insert (trim a) (trim b) acc.
Proof.
  intros Ha. unfold load_line. rewrite trim_mid by reflexivity.
  assert (~ In EQC (drop_blank a)) as HK by (intros H; apply Ha, drop_blank_in, H).
  rewrite <- (trim_drop_blank a), <- (trim_of_rtrim b).
  pose proof (drop_blank_head a) as Hh.
  destruct (drop_blank a) as [|c K'] eqn:EK.
  - (* nothing before the '=' *)
    cbn [app]. change (EQC =? HASH) with false. cbn [find_eq]. rewrite N.eqb_refl.
    change (trim []) with (@nil N). cbn [hashb]. reflexivity.
  - cbn [app]. destruct (trim_head c K' Hh) as (r' & Et). rewrite Et. cbn [hashb].
    destruct (c =? HASH); [reflexivity|].
    change (c :: K' ++ EQC :: rtrim b) with ((c :: K') ++ EQC :: rtrim b).
    rewrite find_eq_app by exact HK. rewrite Et. reflexivity.
Qed.

(* lines without '=' are skipped (as are empty lines and comments) *)
Lemma find_eq_none s : ~ In EQC s -> find_eq s = None.
Proof.
  induction s as [|c r IH]; intros H; cbn [find_eq]; [reflexivity|].
  destruct (c =? EQC) eqn:E; [apply N.eqb_eq in E; exfalso; apply H; left; exact E|].
  rewrite IH; [reflexivity|]. intros Hin. apply H. right. exact Hin.
Qed.
Lemma load_line_no_eq acc l : ~ In EQC l -> load_line acc l = acc.
Proof.
  intros H. unfold load_line. destruct (trim l) as [|c r] eqn:E; [reflexivity|].
  destruct (c =? HASH); [reflexivity|]. rewrite find_eq_none; [reflexivity|].
  intros Hin. apply H. apply trim_in. rewrite E. exact Hin.
Qed.

(* ---------------------------------------------------------------- entries *)
Lemma trim_snoc_spc k : trim (k ++ [SPC]) = trim k.
Proof.
  pose proof (trim_blank_ends [] k [SPC] eq_refl eq_refl) as H. cbn [app] in H. exact H.
Qed.
Lemma trim_cons_spc v : trim (SPC :: v) = trim v.
Proof.
  pose proof (trim_blank_ends [SPC] v [] eq_refl eq_refl) as H. rewrite app_nil_r in H. exact H.
Qed.

(* an entry whose key has no '=' (blanks anywhere, '#' anywhere): stored as (trim k, trim v), or
   dropped as a comment when the trimmed key starts with '#' *)
Lemma entry_line_image acc k v :
  ~ In EQC k ->
  load_line acc (raw_line (k, v)) = if hashb (trim k) then acc else mm_insert (trim k) (trim v) acc.
Proof.
  intros Hk. unfold raw_line. cbn [fst snd].
  change (k ++ [SPC; EQC; SPC] ++ v) with (k ++ [SPC] ++ EQC :: (SPC :: v)). rewrite app_assoc.
  rewrite load_line_image.
  - rewrite trim_snoc_spc, trim_cons_spc. reflexivity.
  - intros H. apply in_app_or in H as [H|H]; [contradiction|]. cbn in H. destruct H as [H|[]]. discriminate.
Qed.

(* an entry whose key contains '=': the line is split at the FIRST '=' of the key *)
Lemma entry_eq_in_key_image acc k1 k2 v :
  ~ In EQC k1 ->
  load_line acc (raw_line (k1 ++ EQC :: k2, v)) =
  if hashb (trim k1) then acc else mm_insert (trim k1) (trim (k2 ++ [SPC; EQC; SPC] ++ v)) acc.
Proof.
  intros Hk. unfold raw_line. cbn [fst snd]. rewrite <- app_assoc. cbn [app].
  apply load_line_image. exact Hk.
Qed.

(* whole single-entry stores; the newline case: the entry becomes several lines *)
Lemma single_entry_image k v :
  ~ In NL k -> ~ In NL v -> ~ In EQC k ->
  load_bytes (save_bytes [(k, v)]) = if hashb (trim k) then [] else [(trim k, trim v)].
Proof.
  intros H1 H2 H3. unfold load_bytes, save_bytes, save_line. cbn [map concat]. rewrite app_nil_r.
  rewrite split_lines_line.
  - cbn [split_lines fold_left]. rewrite entry_line_image by exact H3. destruct (hashb (trim k)); reflexivity.
  - unfold raw_line. cbn [fst snd]. intros H. apply in_app_or in H as [H|H]; [contradiction|].
    cbn [app In] in H. destruct H as [H|[H|[H|H]]]; try discriminate. contradiction.
Qed.

Lemma newline_in_value_image k v1 v2 :
  ~ In NL k -> ~ In NL v1 ->
  load_bytes (save_bytes [(k, v1 ++ NL :: v2)]) =
  fold_left load_line (split_lines (v2 ++ [NL])) (load_line [] (raw_line (k, v1))).
Proof.
  intros H1 H2. unfold load_bytes, save_bytes, save_line, raw_line. cbn [map concat fst snd]. rewrite app_nil_r.
  replace ((k ++ [SPC; EQC; SPC] ++ v1 ++ NL :: v2) ++ [NL]) with ((k ++ [SPC; EQC; SPC] ++ v1) ++ NL :: (v2 ++ [NL]))
    by (repeat (rewrite <- app_assoc; cbn [app]); reflexivity).
  rewrite split_lines_line.
  - cbn [fold_left]. reflexivity.
  - intros H. apply in_app_or in H as [H|H]; [contradiction|].
    cbn [app In] in H. destruct H as [H|[H|[H|H]]]; try discriminate. contradiction.
Qed.
