(* C18 — Settings survive restart and a crash during save.
   Only theorem statements here; proofs are in Proofs*.v.  Strings are lists of bytes (N).
   The model (Model.v) is of the code with props/C18/fixes applied.

   Side conditions of the property, as predicates (ProofsLoad.v):
     key_ok k  :=  no '\n' in k  /\  no '=' in k  /\  k does not start with '#'  /\
                   first and last byte of k are not blanks (' ', '\n', '\r', '\t')
     val_ok v  :=  no '\n' in v  /\  first and last byte of v are not blanks
                   (v may be empty, may contain '=' and '#')
   A store (std::multimap) is the list of its entries in iteration order; `sorted m` says that
   keys never decrease along the list, which every store reachable by the API satisfies
   (c18_store_ops), so it does not restrict the stores the theorems speak about. *)
From OlaBase Require Import Bytes.
From C18 Require Import Model ProofsStr ProofsLoad SyncModel SyncProofs ProofsCrash ProofsRestore ProofsFail ProofsPort ProofsReload.
Local Open Scope N_scope.

(* Save then load gives back exactly the same store: every entry, values containing '=' or '#',
   empty values, multi-valued keys with their values in the same order. *)
Theorem c18_roundtrip : forall m : pmap,
  sorted m ->
  Forall (fun e => key_ok (fst e) /\ val_ok (snd e)) m ->
  load_bytes (save_bytes m) = m.
Proof. exact load_save. Qed.
Print Assumptions c18_roundtrip.

(* The same for any store built by any sequence of insertions from the empty store. *)
Theorem c18_roundtrip_built : forall l : list (str * str),
  Forall (fun e => key_ok (fst e) /\ val_ok (snd e)) l ->
  load_bytes (save_bytes (build l)) = build l.
Proof. exact load_save_build. Qed.
Print Assumptions c18_roundtrip_built.

(* The store operations keep the store a well-ordered multimap of admissible entries, and the
   loader always produces a well-ordered multimap. *)
Theorem c18_store_ops : forall m k v,
  sorted m ->
  sorted (set_value k v m) /\ sorted (set_multiple_value k v m) /\ sorted (remove_value k m) /\
  (forall bs, sorted (load_bytes bs)) /\
  (map_ok m -> key_ok k -> val_ok v ->
   map_ok (set_value k v m) /\ map_ok (set_multiple_value k v m) /\ map_ok (remove_value k m)).
Proof.
  intros m k v H. split; [apply sorted_set_value; exact H|]. split; [apply sorted_insert; exact H|].
  split; [apply sorted_erase; exact H|]. split; [exact sorted_load_bytes|].
  intros Hm Hk Hv. split; [apply map_ok_set_value; assumption|].
  split; [apply map_ok_insert; assumption|apply map_ok_erase; exact Hm].
Qed.
Print Assumptions c18_store_ops.

(* Before fix 01 the loader split a line on every '=' and dropped lines with more than one:
   the value "a=b" under key "k" is written and lost on reload. *)
Theorem c18_eq_refuted_before_fix :
  load_bytes_old (save_bytes [([107], [97; 61; 98])]) = [] /\
  load_bytes (save_bytes [([107], [97; 61; 98])]) = [([107], [97; 61; 98])].
Proof. split; [exact old_loader_drops_eq_value|vm_compute; reflexivity]. Qed.
Print Assumptions c18_eq_refuted_before_fix.

(* A crash at any instant during a save.  For every file system `step` that behaves as POSIX says
   for the four kinds of call a save issues (the last premise is the atomicity of rename), every
   previous directory contents s (anything at all, including a left-over temporary file), every
   store being saved, EVERY way the stream library cuts the contents into write calls, and every
   number k of calls completed before the process dies: none of the calls was impossible, the
   settings file is byte for byte the previous one or (only once all calls are done) the complete
   new one, and a new process loads the previous settings or the new ones. *)
Theorem c18_crash_atomic : forall step : fs -> sys -> option fs,
  (forall s, exists s', step s (SOpenTrunc Tmp) = Some s' /\ f_conf s' = f_conf s /\ f_tmp s' = Some []) ->
  (forall s c bs, f_tmp s = Some c ->
     exists s', step s (SWrite Tmp bs) = Some s' /\ f_conf s' = f_conf s /\ f_tmp s' = Some (c ++ bs)) ->
  (forall s c, f_tmp s = Some c ->
     exists s', step s (SClose Tmp) = Some s' /\ f_conf s' = f_conf s /\ f_tmp s' = Some c) ->
  (forall s c, f_tmp s = Some c -> exists s', step s (SRename Tmp Conf) = Some s' /\ f_conf s' = Some c) ->
  forall (new : pmap) (chunks : list str) (k : nat) (s : fs),
  sorted new -> map_ok new -> concat chunks = save_bytes new ->
  exists s', fs_run step (firstn k (script_of_chunks chunks)) s = Some s' /\
    (f_conf s' = f_conf s \/ ((length chunks + 3 <= k)%nat /\ f_conf s' = Some (save_bytes new))) /\
    (restart s' = restart s \/ restart s' = new).
Proof. exact crash_atomic_full. Qed.
Print Assumptions c18_crash_atomic.

(* The hypotheses on the file system are satisfiable: the model's fs_step (the one the extracted
   model runs against the real code) meets them. *)
Example c18_crash_hypotheses_satisfiable :
  (forall s, exists s', fs_step s (SOpenTrunc Tmp) = Some s' /\ f_conf s' = f_conf s /\ f_tmp s' = Some []) /\
  (forall s c bs, f_tmp s = Some c ->
     exists s', fs_step s (SWrite Tmp bs) = Some s' /\ f_conf s' = f_conf s /\ f_tmp s' = Some (c ++ bs)) /\
  (forall s c, f_tmp s = Some c ->
     exists s', fs_step s (SClose Tmp) = Some s' /\ f_conf s' = f_conf s /\ f_tmp s' = Some c) /\
  (forall s c, f_tmp s = Some c -> exists s', fs_step s (SRename Tmp Conf) = Some s' /\ f_conf s' = Some c).
Proof. repeat split. exact fs_open_tmp. exact fs_write_tmp. exact fs_close_tmp. exact fs_rename_atomic. Qed.

(* Before fix 02 the save truncated the settings file in place: a crash right after the open
   leaves an empty file, which loads as neither the old nor the new settings. *)
Theorem c18_crash_refuted_before_fix :
  exists s s', fs_run fs_step (firstn 1 (save_script_old [([107], [118])])) s = Some s' /\
               restart s = [([97], [98])] /\ restart s' = [].
Proof. exact old_save_not_atomic. Qed.
Print Assumptions c18_crash_refuted_before_fix.

(* Histories: set / set-multiple / remove / clear / save / save cut short after n calls followed by
   a restart / load / restart, from any state whose store is admissible and whose settings file is
   absent or was written by a completed save.  One step: no impossible system call, the invariant
   is kept, and the directory / store change exactly as described per operation. *)
Theorem c18_history_step : forall st o,
  inv st -> op_ok o ->
  exists st', run_op st o = Done st' /\ inv st' /\
    match o with
    | OSet _ _ | OSetMulti _ _ | ORemove _ | OClear => disk st' = disk st
    | OSave => mem st' = mem st /\ restart (disk st') = mem st /\
               f_conf (disk st') = Some (save_bytes (mem st))
    | OCrashSave _ => (restart (disk st') = restart (disk st) \/ restart (disk st') = mem st) /\
                      mem st' = restart (disk st')
    | OLoad => disk st' = disk st /\
               mem st' = match f_conf (disk st) with Some _ => restart (disk st) | None => mem st end
    | ORestart => disk st' = disk st /\ mem st' = restart (disk st)
    end.
Proof. exact run_op_spec. Qed.
Print Assumptions c18_history_step.

(* Whole histories never hit an impossible system call and keep the invariant. *)
Theorem c18_history : forall h st,
  inv st -> Forall op_ok h -> exists st', run_ops st h = Done st' /\ inv st'.
Proof. exact run_ops_inv. Qed.
Print Assumptions c18_history.

Example c18_history_hypotheses_satisfiable :
  inv {| mem := []; disk := {| f_conf := None; f_tmp := None |} |} /\
  op_ok (OSet [107] [97; 61; 98]) /\ key_ok [107] /\ val_ok [97; 61; 98] /\ val_ok [] /\
  sorted [([107], [97; 61; 98])].
Proof.
  assert (key_ok [107]) as K by (repeat split; cbn; intuition discriminate).
  assert (val_ok [97; 61; 98]) as V by (repeat split; cbn; intuition discriminate).
  split; [split; [apply sorted_nil|split; [constructor|exact I]]|].
  split; [split; assumption|]. split; [exact K|]. split; [exact V|].
  split; [repeat split; cbn; intuition|]. repeat constructor.
Qed.

(* Universe name and merge mode: written at teardown (SaveUniverseSettings), saved, loaded by a
   new process and applied to the re-created universe (RestoreUniverseSettings), for every
   universe id and every admissible NON-EMPTY name.  Partial: the empty name is excluded, see
   c18_universe_empty_name_refuted. *)
Theorem c18_universe_partial : forall id u m,
  sorted m -> map_ok m -> val_ok (u_name u) -> u_name u <> [] ->
  restore_universe id (load_bytes (save_bytes (save_universe id u m))) = u.
Proof. exact universe_restored. Qed.
Print Assumptions c18_universe_partial.

(* RestoreUniverseSettings treats an empty setting as absent: a universe whose name was set to ""
   comes back as "Universe <id>" (finding C18-empty-universe-name). *)
Theorem c18_universe_empty_name_refuted :
  u_name (restore_universe 1 (save_universe 1 {| u_name := []; u_htp := true |} [])) = s_Universe ++ dec 1.
Proof. exact empty_universe_name_not_restored. Qed.
Print Assumptions c18_universe_empty_name_refuted.

(* Port settings in the store: a released port's patch (every universe id an unsigned int holds,
   after fix 03), priority (0..200) and priority mode, read back into a new port object of the
   same kind (no patch, priority 100, either initial mode).  For an input port without a mode a
   stale <id>_priority_mode setting is still read; it must be absent or start with a digit
   (other forms are C20's subject and not modelled).  Statement is at the level of the store; the
   step through the file is c18_roundtrip (port ids must then meet key_ok). *)
Theorem c18_port_store : forall id p m static0,
  match p_uni p with Some u => u <= 4294967295 | None => True end ->
  p_prio p <= 200 ->
  (p_cap p = CapStatic -> string_to_uint 255 (get_value (id ++ s_pmode) m) <> PUnmodelled) ->
  exists q, restore_port id (save_port id p m) (fresh_like p static0) = RPort q /\
            p_cap q = p_cap p /\ p_uni q = p_uni p /\
            match p_cap p with
            | CapNone => True
            | CapStatic => p_prio q = p_prio p
            | CapFull => p_prio q = p_prio p /\ p_static q = p_static p
            end.
Proof. exact restore_save_port. Qed.
Print Assumptions c18_port_store.

(* Before fix 03 the patch was parsed into an int: universe 2^31 was saved but not restored. *)
Theorem c18_port_refuted_before_fix :
  restore_patch_old_id (dec 2147483648) = None /\ restore_patch_old_id (dec 2147483647) = Some 2147483647.
Proof. exact old_patch_restore_loses_high_universe. Qed.
Print Assumptions c18_port_refuted_before_fix.

(* decimal print / parse used by both: every value below 10^20 (so every 64-bit value) *)
Theorem c18_decimal_roundtrip : forall n maxv,
  n < 10 ^ 20 -> string_to_uint maxv (dec n) = if n <=? maxv then PVal n else PReject.
Proof. intros n maxv H. exact (string_to_uint_dec maxv n H). Qed.
Print Assumptions c18_decimal_roundtrip.

(* ======================================================================== round 2 *)

(* "Once the saver thread has been synchronised the file reflects the most recent save."  N callers.
   The machine of SyncModel.v: a caller M runs a program of SavePreferences / Synchronize calls; the
   saver S runs the SelectServer loop (swap the incoming callback list, run it in order, a save one
   system call per step); and ANY NUMBER OF OTHER THREADS may at any point of the schedule queue a
   save (CEnvSave) or call Synchronize themselves (CEnvSync: their marker uses their own stack
   objects).  Every caller is M in its own instance with the others as environment, so the statement
   holds for each of them.  Synchronize / CompleteSynchronization as in the code with fix 04.
   For EVERY program, initial directory and schedule - any interleaving of atomic steps of M, S and
   the other threads, any number of spurious wake-ups of pthread_cond_wait anywhere - :
   the saver never touches the mutex / condition variable / flag of a Synchronize of M that has
   returned (hazard), and at every return of M's Synchronize (one synclog entry each: the saves
   queued by anybody before M's marker, the saves completed, the directory, the save in progress)
   - every save queued before the call has completed (they are a prefix of the completed ones; more
     may have completed: later saves of other threads);
   - if no save is in progress the settings file holds byte for byte the last completed save, so it
     loads as that store (c18_roundtrip) - the most recent save queued before the call, unless a
     later one has already replaced it;
   - if a later save of another thread is in progress the file holds the last completed one or
     already that later one (never anything else).
   Safety only: that Synchronize eventually returns under a fair schedule is not proved
   (Examples below show completing schedules). *)
Theorem c18_sync : forall (p : list mop) (d : fs) (sched : list choice),
  let s := run true sched (init p d) in
  hazard s = false /\
  Forall (fun e => let '(queued_before, comp, dk, in_progress) := e in
            (exists more, comp = queued_before ++ more) /\
            (in_progress = [] -> forall m, last_opt comp = Some m ->
               f_conf dk = Some (save_bytes m) /\ (sorted m -> map_ok m -> restart dk = m)) /\
            (forall m', in_progress = [m'] ->
               f_conf dk = lastconf (f_conf d) comp \/ f_conf dk = Some (save_bytes m')))
         (synclog s).
Proof. exact sync_safe_loads. Qed.
Print Assumptions c18_sync.

Example c18_sync_not_vacuous :
  let m := [([107], [118])] in
  let d0 := {| f_conf := None; f_tmp := None |} in
  let s := run true (old_sync_schedule ++ repeat CSaver 11 ++ repeat CMain 4)
               (init [MSave m; MSync] d0) in
  exists dk, synclog s = [([m], [m], dk, [])] /\ f_conf dk = Some (save_bytes m) /\ mpc s = MIdle /\ prog s = [].
Proof. exact fixed_sync_completes. Qed.

(* The schedule space includes a second SavePreferences overlapping a save in progress. *)
Example c18_sync_overlap_in_schedule_space :
  let a := [([107], [49])] in
  let b := [([107], [50])] in
  let d0 := {| f_conf := None; f_tmp := None |} in
  let s1 := run true [CMain; CSaver; CSaver; CSaver; CMain] (init [MSave a; MSave b; MSync] d0) in
  let s2 := run true (repeat CMain 3 ++ repeat CSaver 16 ++ repeat CMain 3) s1 in
  (exists rest, spc s1 = SSaving a rest /\ length rest = 3%nat /\ issued s1 = [a; b] /\ completed s1 = []) /\
  exists dk, synclog s2 = [([a; b], [a; b], dk, [])] /\ f_conf dk = Some (save_bytes b) /\ prog s2 = [].
Proof. exact overlap_schedule_example. Qed.

(* ... and other callers: a foreign Synchronize queued before M's marker and a foreign save b queued
   after it.  M returns when [a] is done; b is still pending then, or - on a slightly different
   schedule - in progress with the file already replaced by b. *)
Example c18_sync_other_callers :
  let a := [([107], [49])] in
  let b := [([107], [50])] in
  let d0 := {| f_conf := None; f_tmp := None |} in
  let s1 := run true ([CMain; CEnvSync; CMain; CMain; CEnvSave b; CMain] ++ repeat CSaver 12 ++ repeat CMain 3)
                (init [MSave a; MSync] d0) in
  (exists dk, synclog s1 = [([a], [a], dk, [])] /\ f_conf dk = Some (save_bytes a) /\
              issued s1 = [a; b] /\ batch s1 = [ISave b]) /\
  let s2 := run true ([CMain; CEnvSync; CMain; CMain; CEnvSave b; CMain] ++ repeat CSaver 12 ++
                      [CMain; CMain] ++ repeat CSaver 5 ++ [CMain])
                (init [MSave a; MSync] d0) in
  exists dk, synclog s2 = [([a], [a], dk, [b])] /\ f_conf dk = Some (save_bytes b).
Proof. exact other_callers_example. Qed.

(* Before fix 04: one spurious wake-up and Synchronize returns with the save issued before it not
   even started ([m] queued, [] completed, directory untouched); eight saver steps later (swap, the
   save's calls, its return) the saver locks the destroyed mutex. *)
Theorem c18_sync_refuted_before_fix :
  let m := [([107], [118])] in
  let d0 := {| f_conf := None; f_tmp := None |} in
  let s := run false old_sync_schedule (init [MSave m; MSync] d0) in
  synclog s = [([m], [], d0, [])] /\ hazard s = false /\
  hazard (run false (repeat CSaver 8) s) = true.
Proof. exact old_sync_returns_early. Qed.
Print Assumptions c18_sync_refuted_before_fix.

(* The keys DeviceManager stores a port's settings under - Port::UniqueId() =
   "<plugin id>-<device id>-<I|O>-<port id>" and that with "_priority_value" / "_priority_mode"
   appended - meet the side conditions on keys for every plugin id, port id and direction and every
   device id that is a single line without '='. *)
Theorem c18_port_keys_admissible : forall plugin device input port_id,
  ~ In NL device -> ~ In EQC device ->
  key_ok (port_key plugin device input port_id) /\
  key_ok (port_key plugin device input port_id ++ s_pval) /\
  key_ok (port_key plugin device input port_id ++ s_pmode).
Proof.
  intros plugin device input port_id H1 H2.
  pose proof (key_ok_port plugin device input port_id [] H1 H2 (or_introl eq_refl)) as K.
  rewrite app_nil_r in K. split; [exact K|]. split; apply key_ok_port; auto.
Qed.
Print Assumptions c18_port_keys_admissible.

(* Port settings through the file (c18_port_store composed with c18_roundtrip): device released,
   store saved, new process, file loaded, device registered again with new port objects - patch
   (every unsigned int universe id), priority (0..200) and mode come back, for every such port key
   and every admissible store the settings were added to. *)
Theorem c18_port : forall plugin device input port_id p m static0,
  ~ In NL device -> ~ In EQC device ->
  sorted m -> map_ok m ->
  match p_uni p with Some u => u <= 4294967295 | None => True end ->
  p_prio p <= 200 ->
  let id := port_key plugin device input port_id in
  (p_cap p = CapStatic -> string_to_uint 255 (get_value (id ++ s_pmode) m) <> PUnmodelled) ->
  exists q, restore_port id (load_bytes (save_bytes (save_port id p m))) (fresh_like p static0) = RPort q /\
            p_cap q = p_cap p /\ p_uni q = p_uni p /\
            match p_cap p with
            | CapNone => True
            | CapStatic => p_prio q = p_prio p
            | CapFull => p_prio q = p_prio p /\ p_static q = p_static p
            end.
Proof. exact port_restored_through_file. Qed.
Print Assumptions c18_port.

(* A save during which the stream fails (disk full, I/O error): fix 02 then closes, removes the
   temporary and does not rename.  For every file system meeting the premises, every previous
   directory, every body of successful (possibly short) and failing writes to the temporary in any
   order, and every number k of calls completed before a crash: no impossible call, the settings
   file is untouched, a new process loads the previous settings; and when all calls have been made
   the temporary is gone. *)
Theorem c18_write_failure_keeps_old : forall step : fs -> sys -> option fs,
  (forall s, exists s', step s (SOpenTrunc Tmp) = Some s' /\ f_conf s' = f_conf s /\ f_tmp s' = Some []) ->
  (forall s c bs, f_tmp s = Some c ->
     exists s', step s (SWrite Tmp bs) = Some s' /\ f_conf s' = f_conf s /\ f_tmp s' = Some (c ++ bs)) ->
  (forall s c, f_tmp s = Some c ->
     exists s', step s (SWriteFail Tmp) = Some s' /\ f_conf s' = f_conf s /\ f_tmp s' = Some c) ->
  (forall s c, f_tmp s = Some c ->
     exists s', step s (SClose Tmp) = Some s' /\ f_conf s' = f_conf s /\ f_tmp s' = Some c) ->
  (forall s c, f_tmp s = Some c ->
     exists s', step s (SUnlink Tmp) = Some s' /\ f_conf s' = f_conf s /\ f_tmp s' = None) ->
  forall (body : list sys) (k : nat) (s : fs),
  Forall (fun x => tmp_write x = true) body ->
  exists s', fs_run step (firstn k (script_failed body)) s = Some s' /\
    f_conf s' = f_conf s /\ restart s' = restart s /\
    ((length body + 3 <= k)%nat -> f_tmp s' = None).
Proof. exact failed_save_keeps_old. Qed.
Print Assumptions c18_write_failure_keeps_old.

Example c18_write_failure_hypotheses_satisfiable :
  (forall s c, f_tmp s = Some c ->
     exists s', fs_step s (SWriteFail Tmp) = Some s' /\ f_conf s' = f_conf s /\ f_tmp s' = Some c) /\
  (forall s c, f_tmp s = Some c ->
     exists s', fs_step s (SUnlink Tmp) = Some s' /\ f_conf s' = f_conf s /\ f_tmp s' = None) /\
  (forall m k, (exists body, save_script_enospc m k = script_failed body /\
                             Forall (fun x => tmp_write x = true) body) \/
               save_script_enospc m k = save_script m).
Proof. split; [exact fs_write_fail_tmp|]. split; [exact fs_unlink_tmp|exact save_script_enospc_shape]. Qed.

(* The first save ever (no settings file yet), cut short after any number of calls: a new process
   finds no file and starts with the empty store, or (only once all calls are done) finds the
   complete new file and loads the new settings.  Instance of c18_crash_atomic spelled out. *)
Theorem c18_first_save_crash : forall step : fs -> sys -> option fs,
  (forall s, exists s', step s (SOpenTrunc Tmp) = Some s' /\ f_conf s' = f_conf s /\ f_tmp s' = Some []) ->
  (forall s c bs, f_tmp s = Some c ->
     exists s', step s (SWrite Tmp bs) = Some s' /\ f_conf s' = f_conf s /\ f_tmp s' = Some (c ++ bs)) ->
  (forall s c, f_tmp s = Some c ->
     exists s', step s (SClose Tmp) = Some s' /\ f_conf s' = f_conf s /\ f_tmp s' = Some c) ->
  (forall s c, f_tmp s = Some c -> exists s', step s (SRename Tmp Conf) = Some s' /\ f_conf s' = Some c) ->
  forall (new : pmap) (chunks : list str) (k : nat) (s : fs),
  sorted new -> map_ok new -> concat chunks = save_bytes new -> f_conf s = None ->
  exists s', fs_run step (firstn k (script_of_chunks chunks)) s = Some s' /\
    ((f_conf s' = None /\ restart s' = []) \/
     ((length chunks + 3 <= k)%nat /\ f_conf s' = Some (save_bytes new) /\ restart s' = new)).
Proof. exact first_save_crash. Qed.
Print Assumptions c18_first_save_crash.

(* ======================================================================== wave 5 *)

(* Load() on a long-lived store object: with a settings file present the result does not depend on
   what the store held (unsaved edits are discarded) nor on any earlier load - it is what the file
   loads as.  And in histories: save, any unsaved edits (set / set-multiple / remove / clear), load,
   further unsaved edits, load again - the store is the saved one each time, the file untouched. *)
Theorem c18_load_replaces_store : forall mem1 mem2 d b,
  f_conf d = Some b -> load_into mem1 d = load_bytes b /\ load_into mem1 d = load_into mem2 d.
Proof. exact load_replaces. Qed.
Print Assumptions c18_load_replaces_store.

Theorem c18_reload_discards_unsaved_edits : forall st h1 h2,
  inv st -> Forall op_ok h1 -> Forall is_edit h1 -> Forall op_ok h2 -> Forall is_edit h2 ->
  exists st', run_ops st (OSave :: h1 ++ OLoad :: h2 ++ [OLoad]) = Done st' /\ inv st' /\
              mem st' = mem st /\ f_conf (disk st') = Some (save_bytes (mem st)).
Proof. exact save_edit_load. Qed.
Print Assumptions c18_reload_discards_unsaved_edits.

(* ======================================================================== extension round *)
From C18 Require Import GenNum GenStr ProofsGrammar ProofsDevices ProofsHistory2 ProofsImage.

(* The constants and string literals typed into the model are the ones in the repository: GenNum.v
   is printed by a program compiled against the headers, GenStr.v is cut out of the source text of
   DeviceManager.cpp, UniverseStore.cpp, Universe.cpp, Preferences.cpp and StringUtils.cpp, both on
   every run.  (Modes: the model writes 1 for PRIORITY_MODE_STATIC, 0 for PRIORITY_MODE_INHERIT and
   restores "inherit" on 0; new ports start at priority 100.) *)
Theorem c18_consts :
  (SOURCE_PRIORITY_MAX, UINT8_MAX, UINT32_MAX, p_prio (fresh_like {| p_cap := CapFull; p_uni := None; p_prio := 0; p_static := true |} true))
    = (G_SOURCE_PRIORITY_MAX, G_UINT8_MAX, G_UINT32_MAX, G_SOURCE_PRIORITY_DEFAULT) /\
  (G_PRIORITY_MODE_INHERIT, G_PRIORITY_MODE_STATIC, G_SIZEOF_UNSIGNED_INT) = (0, 1, 4) /\
  (s_pval, s_pmode, s_uni, s_name, s_merge) = (G_s_pval, G_s_pmode, G_s_uni, G_s_name, G_s_merge) /\
  (s_HTP, s_HTP, s_LTP, s_Universe) = (G_s_HTP, G_s_HTP_restore, G_s_LTP, G_s_Universe) /\
  ([SPC; EQC; SPC], [HASH], [EQC]) = (G_separator, G_comment_char, G_split_char) /\
  (forall c, is_blank c = existsb (N.eqb c) G_trim_chars).
Proof.
  repeat split. intros c. unfold is_blank, G_trim_chars. cbn [existsb]. rewrite orb_false_r, !orb_assoc. reflexivity.
Qed.
Print Assumptions c18_consts.

(* The line grammar as an iff.  Whatever bytes the loader reads, it builds a well-ordered multimap
   whose entries all meet the side conditions (c18_loader_output_admissible); therefore a store is
   read back identically after save and load EXACTLY when its entries meet them (and it is a
   well-ordered multimap, which every store is): no inadmissible key or value - leading or trailing
   blank, '=' in the key, '#' first in the key, embedded newline - ever round-trips. *)
Theorem c18_loader_output_admissible : forall bs : str,
  sorted (load_bytes bs) /\ Forall (fun e => key_ok (fst e) /\ val_ok (snd e)) (load_bytes bs).
Proof. intros bs. split; [apply sorted_load_bytes|apply map_ok_load_bytes]. Qed.
Print Assumptions c18_loader_output_admissible.

Theorem c18_roundtrip_iff : forall m : pmap,
  load_bytes (save_bytes m) = m <-> sorted m /\ Forall (fun e => key_ok (fst e) /\ val_ok (snd e)) m.
Proof. exact roundtrip_iff. Qed.
Print Assumptions c18_roundtrip_iff.

Theorem c18_roundtrip_iff_entry : forall k v : str,
  load_bytes (save_bytes [(k, v)]) = [(k, v)] <-> key_ok k /\ val_ok v.
Proof. exact roundtrip_iff_entry. Qed.
Print Assumptions c18_roundtrip_iff_entry.

(* What becomes of an entry whose key starts with '#': it is written and read back as a comment -
   it vanishes, the rest of the store is read as if it had never been there. *)
Theorem c18_hash_key_vanishes : forall m1 m2 k' v,
  map_ok m1 -> ~ In NL k' -> ~ In NL v ->
  load_bytes (save_bytes (m1 ++ (HASH :: k', v) :: m2)) = load_bytes (save_bytes (m1 ++ m2)).
Proof. exact hash_key_entry_vanishes. Qed.
Print Assumptions c18_hash_key_vanishes.

(* Universe histories.  Keys of different universes never collide (every id below 10^20, so every
   unsigned int incl. those from 2^31 up); after ANY sequence of universe teardowns - each writing
   name and merge mode - saved and loaded by a new process, universe `id` gets back exactly what its
   last teardown wrote (any admissible non-empty name incl. '=' and '#', either merge mode),
   whatever was torn down before and after. *)
Theorem c18_universe_keys_distinct : forall id1 id2 s1 s2,
  id1 < 10 ^ 20 -> id2 < 10 ^ 20 ->
  (s1 = s_name \/ s1 = s_merge) -> (s2 = s_name \/ s2 = s_merge) ->
  uni_key id1 s1 = uni_key id2 s2 -> id1 = id2 /\ s1 = s2.
Proof. exact uni_key_inj. Qed.
Print Assumptions c18_universe_keys_distinct.

Theorem c18_universe_history : forall id u l1 l2 m,
  sorted m -> map_ok m ->
  Forall (fun e => val_ok (u_name (snd e))) (l1 ++ (id, u) :: l2) ->
  id < 10 ^ 20 -> Forall (fun e => fst e < 10 ^ 20 /\ fst e <> id) l2 ->
  u_name u <> [] ->
  restore_universe id (load_bytes (save_bytes (teardown_all (l1 ++ (id, u) :: l2) m))) = u.
Proof. exact universe_history. Qed.
Print Assumptions c18_universe_history.

(* Device histories.  Port::UniqueId() is injective in (plugin id, device id, direction, port id)
   and the three keys of different ports never collide; the port settings file only ever holds
   numbers (invariant from the empty store, replaces the stale-mode hypothesis of c18_port).
   After ANY sequence of port releases - devices disappearing in any order, any number of times -
   saved and loaded by a new process, a re-registered port gets back what its LAST release wrote:
   the patch for every capability, the priority for STATIC-only and for FULL ports, the mode for
   FULL ports; input and output ports alike. *)
Theorem c18_port_keys_distinct : forall p1 d1 i1 n1 p2 d2 i2 n2,
  p1 < 10 ^ 20 -> p2 < 10 ^ 20 -> n1 < 10 ^ 20 -> n2 < 10 ^ 20 ->
  (port_key p1 d1 i1 n1 = port_key p2 d2 i2 n2 -> p1 = p2 /\ d1 = d2 /\ i1 = i2 /\ n1 = n2) /\
  ((p1, d1, i1, n1) <> (p2, d2, i2, n2) ->
   forall sa sb, In sa [[]; s_pval; s_pmode] -> In sb [[]; s_pval; s_pmode] ->
                 port_key p1 d1 i1 n1 ++ sa <> port_key p2 d2 i2 n2 ++ sb).
Proof.
  intros p1 d1 i1 n1 p2 d2 i2 n2 B1 B2 B3 B4. split.
  - apply port_key_inj; assumption.
  - intros H. exact (port_keys_indep p1 d1 i1 n1 p2 d2 i2 n2 B1 B2 B3 B4 H).
Qed.
Print Assumptions c18_port_keys_distinct.

Theorem c18_device_history : forall (r : rel) (l1 l2 : list rel) (m : pmap) (static0 : bool),
  sorted m -> map_ok m -> numeric_store m ->
  Forall rel_ok (l1 ++ r :: l2) -> Forall (fun x => ~ same_port r x) l2 ->
  exists q, restore_port (rel_key r) (load_bytes (save_bytes (release_all (l1 ++ r :: l2) m)))
                         (fresh_like (r_settings r) static0) = RPort q /\
            p_cap q = p_cap (r_settings r) /\ p_uni q = p_uni (r_settings r) /\
            match p_cap (r_settings r) with
            | CapNone => True
            | CapStatic => p_prio q = p_prio (r_settings r)
            | CapFull => p_prio q = p_prio (r_settings r) /\ p_static q = p_static (r_settings r)
            end.
Proof. exact device_history. Qed.
Print Assumptions c18_device_history.

Example c18_device_history_hypotheses_satisfiable :
  numeric_store [] /\ sorted [] /\ map_ok [] /\
  rel_ok {| r_plugin := 2; r_device := [100; 101; 118; 45; 49]; r_input := true; r_port := 1;
            r_settings := {| p_cap := CapStatic; p_uni := Some 2147483648; p_prio := 42; p_static := true |} |} /\
  rel_ok {| r_plugin := 2; r_device := [100; 101; 118; 45; 49]; r_input := false; r_port := 1;
            r_settings := {| p_cap := CapFull; p_uni := None; p_prio := 200; p_static := false |} |}.
Proof.
  split; [exact numeric_empty|]. split; [apply sorted_nil|]. split; [constructor|].
  split; unfold rel_ok; cbn [r_plugin r_device r_input r_port r_settings p_uni p_prio];
    repeat split; try reflexivity; try discriminate; try exact I; cbn; intuition discriminate.
Qed.

(* Crash atomicity over whole histories, from ANY directory (a hand-written or foreign settings
   file, left-over temporaries) and any admissible store: edits, loads, restarts, completed saves,
   saves cut short after any number of calls, saves whose writes fail (HSaveFail, any body of
   successful / short / failing writes) and failing saves cut short.  One step: no impossible
   system call; the store stays admissible; what a new process would load is what it would have
   loaded before the step or - only for a (possibly cut short) ordinary save - the complete store
   that save was given. *)
Theorem c18_history2_step : forall st o,
  inv2 st -> hop_ok o ->
  exists st', run_hop st o = Done st' /\ inv2 st' /\
    (restart (disk st') = restart (disk st) \/
     (restart (disk st') = mem st /\
      match o with HBase OSave | HBase (OCrashSave _) => True | _ => False end)) /\
    match o with HBase OSave => restart (disk st') = mem st /\ mem st' = mem st | _ => True end.
Proof. exact run_hop_spec. Qed.
Print Assumptions c18_history2_step.

(* Whole histories: at the end a new process loads the complete settings the directory held at the
   start, or one of the complete stores that some (completed or interrupted) save of the history
   was given - never a partial file, never a mixture. *)
Theorem c18_history_any_directory : forall h st,
  inv2 st -> Forall hop_ok h ->
  exists st' tried, run_hops st h [] = Some (st', tried) /\ inv2 st' /\
    (restart (disk st') = restart (disk st) \/ In (restart (disk st')) tried).
Proof. exact history_persisted. Qed.
Print Assumptions c18_history_any_directory.

Example c18_history2_hypotheses_satisfiable :
  inv2 {| mem := [([107], [97; 61; 98])];
          disk := {| f_conf := Some [103; 97; 114; 98; 97; 103; 101; 10; 61; 61]; f_tmp := Some [1; 2; 3] |} |} /\
  hop_ok (HCrashFail [SWrite Tmp [107; 32]; SWriteFail Tmp; SWrite Tmp [61]] 3) /\
  hop_ok (HBase (OCrashSave 2)).
Proof.
  split; [split; [repeat constructor|]|split; [repeat constructor|exact I]].
  constructor; [|constructor]. split; repeat split; cbn; intuition discriminate.
Qed.

(* The typed entry points - SetValue(key, unsigned int), SetValue(key, int), SetMultipleValue(key,
   unsigned int), SetValueAsBool / GetValueAsBool - write admissible values, so what they store
   survives save and reload under every admissible key: the boolean, the number (every value below
   10^20, i.e. every unsigned int), the signed decimal text. *)
From C18 Require Import ProofsTyped.
Theorem c18_typed_values : forall k m,
  sorted m -> map_ok m -> key_ok k ->
  (forall b, get_value_bool k (load_bytes (save_bytes (set_value_bool k b m))) = b) /\
  (forall n maxv, n < 10 ^ 20 ->
     string_to_uint maxv (get_value k (load_bytes (save_bytes (set_value_uint k n m)))) =
     if n <=? maxv then PVal n else PReject) /\
  (forall z, get_value k (load_bytes (save_bytes (set_value_int k z m))) = dec_z z) /\
  (s_true, s_false) = (G_s_true, G_s_false).
Proof.
  intros k m Hs Hm Hk. split; [intros b; apply bool_roundtrip; assumption|].
  split; [intros n maxv Hn; apply uint_roundtrip; assumption|].
  split; [intros z; apply int_roundtrip; assumption|reflexivity].
Qed.
Print Assumptions c18_typed_values.

(* ======================================================================== extension round 2 *)

(* Universe ids with different numbers of digits (1, 10, 100: "uni_1_name" is a prefix-neighbour of
   "uni_10_name" ...), torn down in either order, saved, loaded: each universe gets its own
   settings back.  (Instances of c18_universe_history, checked by computation.) *)
Example c18_universe_history_digit_counts :
  let u1 := {| u_name := [97]; u_htp := true |} in
  let u10 := {| u_name := [98; 61; 35]; u_htp := false |} in
  let u100 := {| u_name := [99; 32; 99]; u_htp := true |} in
  let f := load_bytes (save_bytes (teardown_all [(1, u1); (10, u10); (100, u100)] [])) in
  let g := load_bytes (save_bytes (teardown_all [(100, u100); (10, u10); (1, u1)] [])) in
  (restore_universe 1 f, restore_universe 10 f, restore_universe 100 f) = (u1, u10, u100) /\
  (restore_universe 100 g, restore_universe 10 g, restore_universe 1 g) = (u100, u10, u1) /\
  f = g.
Proof. vm_compute. repeat split. Qed.

(* The exact image of every line, hence of every entry that does not meet the side conditions.
   A line a ++ "=" ++ b with no '=' in a is a comment if the trimmed a starts with '#', otherwise
   the entry (trim a, trim b); a line without '=' is skipped.  Therefore:
   - an entry whose key has no '=' (blanks at the ends of key or value, '#' anywhere) is read back
     as (trim k, trim v), or dropped when the trimmed key starts with '#';
   - an entry whose key contains '=' is split at the FIRST '=' of the key: the rest of the key,
     the separator and the value become the value;
   - an embedded newline in the value cuts the entry into several lines, each read on its own.
   Together with c18_roundtrip_iff this characterises the grammar completely. *)
Theorem c18_inadmissible_image :
  (forall acc a b, ~ In EQC a ->
     load_line acc (a ++ EQC :: b) = if hashb (trim a) then acc else mm_insert (trim a) (trim b) acc) /\
  (forall acc l, ~ In EQC l -> load_line acc l = acc) /\
  (forall k v, ~ In NL k -> ~ In NL v -> ~ In EQC k ->
     load_bytes (save_bytes [(k, v)]) = if hashb (trim k) then [] else [(trim k, trim v)]) /\
  (forall acc k1 k2 v, ~ In EQC k1 ->
     load_line acc (raw_line (k1 ++ EQC :: k2, v)) =
     if hashb (trim k1) then acc else mm_insert (trim k1) (trim (k2 ++ [SPC; EQC; SPC] ++ v)) acc) /\
  (forall k v1 v2, ~ In NL k -> ~ In NL v1 ->
     load_bytes (save_bytes [(k, v1 ++ NL :: v2)]) =
     fold_left load_line (split_lines (v2 ++ [NL])) (load_line [] (raw_line (k, v1)))).
Proof.
  split; [exact load_line_image|]. split; [exact load_line_no_eq|]. split; [exact single_entry_image|].
  split; [exact entry_eq_in_key_image|exact newline_in_value_image].
Qed.
Print Assumptions c18_inadmissible_image.

(* trim itself: the unique blank-free-ended core of a string *)
Theorem c18_trim_characterised : forall s,
  (exists pre post, s = pre ++ trim s ++ post /\ all_blank pre /\ all_blank post) /\
  no_edge_blank (trim s) /\
  (forall pre core post, all_blank pre -> all_blank post -> no_edge_blank core -> s = pre ++ core ++ post -> trim s = core).
Proof.
  intros s. split; [apply trim_decompose|]. split; [apply trim_no_edge_blank|].
  intros pre core post H1 H2 H3 ->. apply trim_unique; assumption.
Qed.
Print Assumptions c18_trim_characterised.

(* A save whose close() fails (the stream is then in the failed state: the temporary is removed,
   no rename) or whose rename() fails (warning, the temporary is removed) - both are checked by the
   code with fix 02.  The complete scripts always run through, end with the temporary gone and the
   settings file untouched; and after any number k of their calls, whenever those calls were
   possible, the settings file is untouched and a new process loads the previous settings. *)
Theorem c18_close_rename_failure_keeps_old : forall (chunks : list str) (d : fs),
  (exists d', fs_run fs_step (script_close_failed chunks) d = Some d' /\ f_tmp d' = None /\ f_conf d' = f_conf d) /\
  (exists d', fs_run fs_step (script_rename_failed chunks) d = Some d' /\ f_tmp d' = None /\ f_conf d' = f_conf d) /\
  (forall (k : nat) d',
     (fs_run fs_step (firstn k (script_close_failed chunks)) d = Some d' \/
      fs_run fs_step (firstn k (script_rename_failed chunks)) d = Some d') ->
     f_conf d' = f_conf d /\ restart d' = restart d).
Proof.
  intros chunks d. destruct (close_rename_failure_completes chunks d) as [H1 H2].
  split; [exact H1|]. split; [exact H2|]. intros k d'. apply close_rename_failure_keeps_old.
Qed.
Print Assumptions c18_close_rename_failure_keeps_old.

(* ======================================================================== wave 7 *)
From C18 Require Import ProofsRepeat.

(* Repetition and resources.  Every complete save script - successful (any chunking), with failing
   writes, with a failing close, with a failing rename - closes the one descriptor it opens: the
   number of descriptors the saver holds is the same after the save as before, so no number of
   saves can exhaust them.  And after ANY history that ends with a completed save (e.g. hundreds of
   set+save rounds through the long-lived saver thread) the file is exactly the store. *)
Theorem c18_repeated_saves :
  (forall h0 chunks, fd_balance (script_of_chunks chunks) h0 = h0) /\
  (forall h0 body, Forall (fun x => tmp_write x = true) body -> fd_balance (script_failed body) h0 = h0) /\
  (forall h0 chunks, fd_balance (script_close_failed chunks) h0 = h0 /\ fd_balance (script_rename_failed chunks) h0 = h0) /\
  (forall h st, inv st -> Forall op_ok h ->
     exists st', run_ops st (h ++ [OSave]) = Done st' /\ inv st' /\
                 f_conf (disk st') = Some (save_bytes (mem st')) /\ restart (disk st') = mem st').
Proof.
  split; [intros h0; apply (scripts_balanced h0)|]. split; [intros h0; apply (scripts_balanced h0)|].
  split; [intros h0 chunks; split; apply (scripts_balanced h0)|exact last_save_wins].
Qed.
Print Assumptions c18_repeated_saves.
