(* C18 — Settings survive restart and a crash during save.
   Only theorem statements here; proofs are in Proofs*.v.  Strings are lists of bytes (N).
   The model (Model.v) is of the code with props/C18/fixes applied.

   Side conditions of the property, as predicates (ProofsLoad.v):
     key_ok k  :=  no '\n' in k  /\  no '=' in k  /\  k does not start with '#'  /\
                   first and last byte of k are not blanks (' ', '\n', '\r', '\t')
     val_ok v  :=  no '\n' in v  /\  first and last byte of v are not blanks
                   (v may be empty, may contain '=' and '#')
   A store (std::multimap) is the list of its entries in iteration order; `sorted m` says that
   keys never decrease along the list, which every store reachable by the API satisfies
   (c18_store_ops), so it does not restrict the stores the theorems speak about. *)
From OlaBase Require Import Bytes.
From C18 Require Import Model ProofsStr ProofsLoad ProofsCrash ProofsRestore.
Local Open Scope N_scope.

(* Save then load gives back exactly the same store: every entry, values containing '=' or '#',
   empty values, multi-valued keys with their values in the same order. *)
Theorem c18_roundtrip : forall m : pmap,
  sorted m ->
  Forall (fun e => key_ok (fst e) /\ val_ok (snd e)) m ->
  load_bytes (save_bytes m) = m.
Proof. exact load_save. Qed.
Print Assumptions c18_roundtrip.

(* The same for any store built by any sequence of insertions from the empty store. *)
Theorem c18_roundtrip_built : forall l : list (str * str),
  Forall (fun e => key_ok (fst e) /\ val_ok (snd e)) l ->
  load_bytes (save_bytes (build l)) = build l.
Proof. exact load_save_build. Qed.
Print Assumptions c18_roundtrip_built.

(* The store operations keep the store a well-ordered multimap of admissible entries, and the
   loader always produces a well-ordered multimap. *)
Theorem c18_store_ops : forall m k v,
  sorted m ->
  sorted (set_value k v m) /\ sorted (set_multiple_value k v m) /\ sorted (remove_value k m) /\
  (forall bs, sorted (load_bytes bs)) /\
  (map_ok m -> key_ok k -> val_ok v ->
   map_ok (set_value k v m) /\ map_ok (set_multiple_value k v m) /\ map_ok (remove_value k m)).
Proof.
  intros m k v H. split; [apply sorted_set_value; exact H|]. split; [apply sorted_insert; exact H|].
  split; [apply sorted_erase; exact H|]. split; [exact sorted_load_bytes|].
  intros Hm Hk Hv. split; [apply map_ok_set_value; assumption|].
  split; [apply map_ok_insert; assumption|apply map_ok_erase; exact Hm].
Qed.
Print Assumptions c18_store_ops.

(* Before fix 01 the loader split a line on every '=' and dropped lines with more than one:
   the value "a=b" under key "k" is written and lost on reload. *)
Theorem c18_eq_refuted_before_fix :
  load_bytes_old (save_bytes [([107], [97; 61; 98])]) = [] /\
  load_bytes (save_bytes [([107], [97; 61; 98])]) = [([107], [97; 61; 98])].
Proof. split; [exact old_loader_drops_eq_value|vm_compute; reflexivity]. Qed.
Print Assumptions c18_eq_refuted_before_fix.

(* A crash at any instant during a save.  For every file system `step` that behaves as POSIX says
   for the four kinds of call a save issues (the last premise is the atomicity of rename), every
   previous directory contents s (anything at all, including a left-over temporary file), every
   store being saved, EVERY way the stream library cuts the contents into write calls, and every
   number k of calls completed before the process dies: none of the calls was impossible, the
   settings file is byte for byte the previous one or (only once all calls are done) the complete
   new one, and a new process loads the previous settings or the new ones. *)
Theorem c18_crash_atomic : forall step : fs -> sys -> option fs,
  (forall s, exists s', step s (SOpenTrunc Tmp) = Some s' /\ f_conf s' = f_conf s /\ f_tmp s' = Some []) ->
  (forall s c bs, f_tmp s = Some c ->
     exists s', step s (SWrite Tmp bs) = Some s' /\ f_conf s' = f_conf s /\ f_tmp s' = Some (c ++ bs)) ->
  (forall s c, f_tmp s = Some c ->
     exists s', step s (SClose Tmp) = Some s' /\ f_conf s' = f_conf s /\ f_tmp s' = Some c) ->
  (forall s c, f_tmp s = Some c -> exists s', step s (SRename Tmp Conf) = Some s' /\ f_conf s' = Some c) ->
  forall (new : pmap) (chunks : list str) (k : nat) (s : fs),
  sorted new -> map_ok new -> concat chunks = save_bytes new ->
  exists s', fs_run step (firstn k (script_of_chunks chunks)) s = Some s' /\
    (f_conf s' = f_conf s \/ ((length chunks + 3 <= k)%nat /\ f_conf s' = Some (save_bytes new))) /\
    (restart s' = restart s \/ restart s' = new).
Proof. exact crash_atomic_full. Qed.
Print Assumptions c18_crash_atomic.

(* The hypotheses on the file system are satisfiable: the model's fs_step (the one the extracted
   model runs against the real code) meets them. *)
Example c18_crash_hypotheses_satisfiable :
  (forall s, exists s', fs_step s (SOpenTrunc Tmp) = Some s' /\ f_conf s' = f_conf s /\ f_tmp s' = Some []) /\
  (forall s c bs, f_tmp s = Some c ->
     exists s', fs_step s (SWrite Tmp bs) = Some s' /\ f_conf s' = f_conf s /\ f_tmp s' = Some (c ++ bs)) /\
  (forall s c, f_tmp s = Some c ->
     exists s', fs_step s (SClose Tmp) = Some s' /\ f_conf s' = f_conf s /\ f_tmp s' = Some c) /\
  (forall s c, f_tmp s = Some c -> exists s', fs_step s (SRename Tmp Conf) = Some s' /\ f_conf s' = Some c).
Proof. repeat split. exact fs_open_tmp. exact fs_write_tmp. exact fs_close_tmp. exact fs_rename_atomic. Qed.

(* Before fix 02 the save truncated the settings file in place: a crash right after the open
   leaves an empty file, which loads as neither the old nor the new settings. *)
Theorem c18_crash_refuted_before_fix :
  exists s s', fs_run fs_step (firstn 1 (save_script_old [([107], [118])])) s = Some s' /\
               restart s = [([97], [98])] /\ restart s' = [].
Proof. exact old_save_not_atomic. Qed.
Print Assumptions c18_crash_refuted_before_fix.

(* Histories: set / set-multiple / remove / clear / save / save cut short after n calls followed by
   a restart / load / restart, from any state whose store is admissible and whose settings file is
   absent or was written by a completed save.  One step: no impossible system call, the invariant
   is kept, and the directory / store change exactly as described per operation. *)
Theorem c18_history_step : forall st o,
  inv st -> op_ok o ->
  exists st', run_op st o = Done st' /\ inv st' /\
    match o with
    | OSet _ _ | OSetMulti _ _ | ORemove _ | OClear => disk st' = disk st
    | OSave => mem st' = mem st /\ restart (disk st') = mem st /\
               f_conf (disk st') = Some (save_bytes (mem st))
    | OCrashSave _ => (restart (disk st') = restart (disk st) \/ restart (disk st') = mem st) /\
                      mem st' = restart (disk st')
    | OLoad => disk st' = disk st /\
               mem st' = match f_conf (disk st) with Some _ => restart (disk st) | None => mem st end
    | ORestart => disk st' = disk st /\ mem st' = restart (disk st)
    end.
Proof. exact run_op_spec. Qed.
Print Assumptions c18_history_step.

(* Whole histories never hit an impossible system call and keep the invariant. *)
Theorem c18_history : forall h st,
  inv st -> Forall op_ok h -> exists st', run_ops st h = Done st' /\ inv st'.
Proof. exact run_ops_inv. Qed.
Print Assumptions c18_history.

Example c18_history_hypotheses_satisfiable :
  inv {| mem := []; disk := {| f_conf := None; f_tmp := None |} |} /\
  op_ok (OSet [107] [97; 61; 98]) /\ key_ok [107] /\ val_ok [97; 61; 98] /\ val_ok [] /\
  sorted [([107], [97; 61; 98])].
Proof.
  assert (key_ok [107]) as K by (repeat split; cbn; intuition discriminate).
  assert (val_ok [97; 61; 98]) as V by (repeat split; cbn; intuition discriminate).
  split; [split; [apply sorted_nil|split; [constructor|exact I]]|].
  split; [split; assumption|]. split; [exact K|]. split; [exact V|].
  split; [repeat split; cbn; intuition|]. repeat constructor.
Qed.

(* Universe name and merge mode: written at teardown (SaveUniverseSettings), saved, loaded by a
   new process and applied to the re-created universe (RestoreUniverseSettings), for every
   universe id and every admissible NON-EMPTY name.  Partial: the empty name is excluded, see
   c18_universe_empty_name_refuted. *)
Theorem c18_universe_partial : forall id u m,
  sorted m -> map_ok m -> val_ok (u_name u) -> u_name u <> [] ->
  restore_universe id (load_bytes (save_bytes (save_universe id u m))) = u.
Proof. exact universe_restored. Qed.
Print Assumptions c18_universe_partial.

(* RestoreUniverseSettings treats an empty setting as absent: a universe whose name was set to ""
   comes back as "Universe <id>" (finding C18-empty-universe-name). *)
Theorem c18_universe_empty_name_refuted :
  u_name (restore_universe 1 (save_universe 1 {| u_name := []; u_htp := true |} [])) = s_Universe ++ dec 1.
Proof. exact empty_universe_name_not_restored. Qed.
Print Assumptions c18_universe_empty_name_refuted.

(* Port settings in the store: a released port's patch (every universe id an unsigned int holds,
   after fix 03), priority (0..200) and priority mode, read back into a new port object of the
   same kind (no patch, priority 100, either initial mode).  For an input port without a mode a
   stale <id>_priority_mode setting is still read; it must be absent or start with a digit
   (other forms are C20's subject and not modelled).  Statement is at the level of the store; the
   step through the file is c18_roundtrip (port ids must then meet key_ok). *)
Theorem c18_port_store : forall id p m static0,
  match p_uni p with Some u => u <= 4294967295 | None => True end ->
  p_prio p <= 200 ->
  (p_cap p = CapStatic -> string_to_uint 255 (get_value (id ++ s_pmode) m) <> PUnmodelled) ->
  exists q, restore_port id (save_port id p m) (fresh_like p static0) = RPort q /\
            p_cap q = p_cap p /\ p_uni q = p_uni p /\
            match p_cap p with
            | CapNone => True
            | CapStatic => p_prio q = p_prio p
            | CapFull => p_prio q = p_prio p /\ p_static q = p_static p
            end.
Proof. exact restore_save_port. Qed.
Print Assumptions c18_port_store.

(* Before fix 03 the patch was parsed into an int: universe 2^31 was saved but not restored. *)
Theorem c18_port_refuted_before_fix :
  restore_patch_old_id (dec 2147483648) = None /\ restore_patch_old_id (dec 2147483647) = Some 2147483647.
Proof. exact old_patch_restore_loses_high_universe. Qed.
Print Assumptions c18_port_refuted_before_fix.

(* decimal print / parse used by both: every value below 10^20 (so every 64-bit value) *)
Theorem c18_decimal_roundtrip : forall n maxv,
  n < 10 ^ 20 -> string_to_uint maxv (dec n) = if n <=? maxv then PVal n else PReject.
Proof. intros n maxv H. exact (string_to_uint_dec maxv n H). Qed.
Print Assumptions c18_decimal_roundtrip.
