(* C18 proofs, part 4: numbers in settings, universe and port settings. *)
From OlaBase Require Import Bytes.
From Coq Require Import Sorted.
From C18 Require Import Model ProofsStr ProofsLoad.
Local Open Scope N_scope.

(* ---------------------------------------------------------------- decimal print / parse *)
Lemma digits_le_lt fuel : forall n, Forall (fun d => d < 10) (digits_le fuel n).
Proof.
  induction fuel as [|f IH]; intros n; cbn [digits_le]; [constructor|].
  constructor; [apply N.mod_lt; discriminate|].
  destruct (n / 10 =? 0); [constructor|apply IH].
Qed.

Definition val_le (ds : list N) : N := fold_right (fun d a => a * 10 + d) 0 ds.

Lemma val_digits_le fuel : forall n, n < 10 ^ N.of_nat fuel -> val_le (digits_le fuel n) = n.
Proof.
  induction fuel as [|f IH]; intros n H.
  - cbn in H. cbn. lia.
  - cbn [digits_le]. unfold val_le. cbn [fold_right]. fold (val_le (if n / 10 =? 0 then [] else digits_le f (n / 10))).
    rewrite Nat2N.inj_succ, N.pow_succ_r' in H.
    destruct (n / 10 =? 0) eqn:E.
    + cbn. apply N.eqb_eq in E. lia.
    + rewrite IH by lia. lia.
Qed.

Lemma digits_val_map ds : forall acc,
  Forall (fun d => d < 10) ds ->
  digits_val acc (map (fun d => 48 + d) ds) = fold_left (fun a d => a * 10 + d) ds acc.
Proof.
  induction ds as [|d ds IH]; intros acc H; cbn [map digits_val fold_left]; [reflexivity|].
  inversion H as [|? ? Hd Hr]; subst.
  assert (is_digit (48 + d) = true) as -> by (unfold is_digit; lia).
  replace (48 + d - 48) with d by lia. apply IH; exact Hr.
Qed.

Lemma digits_val_dec n : n < 10 ^ 20 -> digits_val 0 (dec n) = n.
Proof.
  intros H. unfold dec. rewrite digits_val_map.
  - rewrite <- (fold_left_rev_right (fun d a => a * 10 + d)). rewrite rev_involutive.
    apply (val_digits_le 20). exact H.
  - apply Forall_forall. intros x Hx. apply in_rev in Hx.
    pose proof (digits_le_lt 20 n) as F. rewrite Forall_forall in F. apply F; exact Hx.
Qed.

Lemma dec_digits n : Forall (fun c => is_digit c = true) (dec n).
Proof.
  unfold dec. apply Forall_forall. intros c Hc. apply in_map_iff in Hc as (d & <- & Hd).
  apply in_rev in Hd. pose proof (digits_le_lt 20 n) as F. rewrite Forall_forall in F.
  specialize (F d Hd). unfold is_digit. lia.
Qed.
Lemma dec_nonnil n : dec n <> [].
Proof.
  unfold dec. cbn [digits_le]. cbn [rev]. intros E. apply map_eq_nil in E.
  apply app_eq_nil in E as [_ E]. discriminate.
Qed.

Lemma string_to_uint_dec maxv n :
  n < 10 ^ 20 -> string_to_uint maxv (dec n) = if n <=? maxv then PVal n else PReject.
Proof.
  intros H. unfold string_to_uint. pose proof (dec_digits n) as F. pose proof (dec_nonnil n) as NN.
  destruct (dec n) as [|c r] eqn:E; [contradiction|].
  inversion F as [|? ? Hc _]; subst. rewrite Hc. rewrite <- E, digits_val_dec by exact H. reflexivity.
Qed.

(* digits are harmless in keys and values *)
Lemma digit_props c : is_digit c = true -> c <> NL /\ c <> EQC /\ c <> HASH /\ is_blank c = false.
Proof. unfold is_digit, is_blank, NL, EQC, HASH. intros H. repeat split; lia. Qed.

Lemma not_in_digits x s : Forall (fun c => is_digit c = true) s -> is_digit x = false -> ~ In x s.
Proof. intros F Hx Hin. rewrite Forall_forall in F. apply F in Hin. congruence. Qed.

(* ---------------------------------------------------------------- get after set *)
Lemma mm_find_erase_same k m : mm_find k (mm_erase k m) = None.
Proof.
  unfold mm_erase. induction m as [|e m IH]; cbn [filter mm_find]; [reflexivity|].
  destruct (str_eqb (fst e) k) eqn:E; cbn [negb]; [exact IH|]. cbn [mm_find]. rewrite E. exact IH.
Qed.
Lemma mm_find_erase_other k k' m : k <> k' -> mm_find k (mm_erase k' m) = mm_find k m.
Proof.
  intros Hn. unfold mm_erase. induction m as [|e m IH]; cbn [filter mm_find]; [reflexivity|].
  destruct (str_eqb (fst e) k') eqn:E; cbn [negb].
  - apply str_eqb_eq in E. destruct (str_eqb (fst e) k) eqn:E2; [|exact IH].
    apply str_eqb_eq in E2. congruence.
  - cbn [mm_find]. destruct (str_eqb (fst e) k); [reflexivity|exact IH].
Qed.
Lemma mm_find_insert_same k v m : mm_find k m = None -> mm_find k (mm_insert k v m) = Some v.
Proof.
  induction m as [|e m IH]; cbn [mm_insert mm_find]; intros H.
  - rewrite str_eqb_refl. reflexivity.
  - destruct (str_eqb (fst e) k) eqn:E; [discriminate|].
    destruct (str_ltb k (fst e)); cbn [mm_find fst snd].
    + rewrite str_eqb_refl. reflexivity.
    + rewrite E. apply IH; exact H.
Qed.
Lemma mm_find_insert_other k k' v m : k <> k' -> mm_find k (mm_insert k' v m) = mm_find k m.
Proof.
  intros Hn. induction m as [|e m IH]; cbn [mm_insert mm_find].
  - cbn [fst]. assert (str_eqb k' k = false) as -> by (apply str_eqb_neq; congruence). reflexivity.
  - destruct (str_ltb k' (fst e)); cbn [mm_find fst snd].
    + assert (str_eqb k' k = false) as -> by (apply str_eqb_neq; congruence). reflexivity.
    + destruct (str_eqb (fst e) k); [reflexivity|exact IH].
Qed.

Lemma get_set_same k v m : get_value k (set_value k v m) = v.
Proof.
  unfold get_value, set_value. rewrite mm_find_insert_same by apply mm_find_erase_same. reflexivity.
Qed.
Lemma get_set_other k k' v m : k <> k' -> get_value k (set_value k' v m) = get_value k m.
Proof.
  intros H. unfold get_value, set_value.
  rewrite mm_find_insert_other, mm_find_erase_other by exact H. reflexivity.
Qed.
Lemma get_remove_same k m : get_value k (remove_value k m) = [].
Proof. unfold get_value, remove_value. rewrite mm_find_erase_same. reflexivity. Qed.
Lemma get_remove_other k k' m : k <> k' -> get_value k (remove_value k' m) = get_value k m.
Proof. intros H. unfold get_value, remove_value. rewrite mm_find_erase_other by exact H. reflexivity. Qed.

(* ---------------------------------------------------------------- universe settings *)
Lemma uni_keys_differ id : uni_key id s_name <> uni_key id s_merge.
Proof.
  unfold uni_key. intros E. apply app_inv_head in E. apply app_inv_head in E. discriminate.
Qed.

(* name and merge mode written at teardown are what a new Universe gets back (map level) *)
Lemma restore_save_universe id u m :
  u_name u <> [] -> restore_universe id (save_universe id u m) = u.
Proof.
  intros Hn. unfold restore_universe, save_universe.
  rewrite (get_set_other (uni_key id s_name)) by apply uni_keys_differ.
  rewrite get_set_same, get_set_same.
  destruct u as [nm htp]. cbn [u_name u_htp] in *.
  destruct nm as [|c r]; [contradiction|]. cbn [u_name u_htp].
  destruct htp; reflexivity.
Qed.

Lemma key_ok_uni id sfx :
  (sfx = s_name \/ sfx = s_merge) -> key_ok (uni_key id sfx).
Proof.
  intros Hs. unfold key_ok, uni_key. pose proof (dec_digits id) as F.
  assert (~ In NL sfx /\ ~ In EQC sfx /\ match rev sfx with [] => True | c :: _ => is_blank c = false end) as (S1 & S2 & S3).
  { destruct Hs as [->| ->]; cbn; repeat split; intuition discriminate. }
  assert (sfx <> []) as Sn by (destruct Hs as [->| ->]; discriminate).
  repeat split.
  - intros H. apply in_app_or in H as [H|H]; [cbn in H; intuition discriminate|].
    apply in_app_or in H as [H|H]; [|contradiction].
    revert H. apply not_in_digits; [exact F|reflexivity].
  - intros H. apply in_app_or in H as [H|H]; [cbn in H; intuition discriminate|].
    apply in_app_or in H as [H|H]; [|contradiction].
    revert H. apply not_in_digits; [exact F|reflexivity].
  - cbn. discriminate.
  - rewrite app_assoc, rev_app_distr. pose proof (rev_nonnil sfx Sn) as Rn.
    destruct (rev sfx); [contradiction|exact S3].
Qed.

Lemma map_ok_save_universe id u m :
  val_ok (u_name u) -> map_ok m -> map_ok (save_universe id u m).
Proof.
  intros Hv Hm. unfold save_universe.
  apply map_ok_set_value; [apply key_ok_uni; right; reflexivity| |].
  - destruct (u_htp u); (split; [cbn; intuition discriminate|split; reflexivity]).
  - apply map_ok_set_value; [apply key_ok_uni; left; reflexivity|exact Hv|exact Hm].
Qed.
Lemma sorted_save_universe id u m : sorted m -> sorted (save_universe id u m).
Proof. intros H. unfold save_universe. apply sorted_set_value, sorted_set_value, H. Qed.

(* through the file: teardown, save, new process, load, universe re-created *)
Lemma universe_restored id u m :
  sorted m -> map_ok m -> val_ok (u_name u) -> u_name u <> [] ->
  restore_universe id (load_bytes (save_bytes (save_universe id u m))) = u.
Proof.
  intros Hs Hm Hv Hn.
  rewrite load_save by (apply sorted_save_universe || apply map_ok_save_universe; assumption).
  apply restore_save_universe; exact Hn.
Qed.

(* an empty name is saved but the restore treats the empty setting as absent *)
Lemma empty_universe_name_not_restored :
  u_name (restore_universe 1 (save_universe 1 {| u_name := []; u_htp := true |} [])) = s_Universe ++ dec 1.
Proof. vm_compute. reflexivity. Qed.

(* ---------------------------------------------------------------- port settings *)
Lemma app_neq_self (a b : str) : b <> [] -> a <> a ++ b.
Proof.
  intros Hb E. apply (f_equal (@length N)) in E. rewrite app_length in E.
  destruct b; [contradiction|]. cbn in E. lia.
Qed.

Definition fresh_like (p : port) (static0 : bool) : port :=
  {| p_cap := p_cap p; p_uni := None; p_prio := 100; p_static := static0 |}.

(* what has to come back: patch, and priority / mode as far as the port has them *)
Definition port_settings_eq (a b : port) : Prop :=
  p_cap a = p_cap b /\ p_uni a = p_uni b /\
  match p_cap b with
  | CapNone => True
  | CapStatic => p_prio a = p_prio b
  | CapFull => p_prio a = p_prio b /\ p_static a = p_static b
  end.

Lemma pval_pmode_differ id : id ++ s_pval <> id ++ s_pmode.
Proof. intros E. apply app_inv_head in E. discriminate. Qed.

Lemma is_empty_dec n : is_empty (dec n) = false.
Proof. pose proof (dec_nonnil n). destruct (dec n); [contradiction|reflexivity]. Qed.

(* the settings a released port leaves in the store *)
Lemma saved_patch id p m :
  get_value id (save_port id p m) = match p_uni p with Some u => dec u | None => [] end.
Proof.
  assert (id <> id ++ s_pval) as N1 by (apply app_neq_self; discriminate).
  assert (id <> id ++ s_pmode) as N2 by (apply app_neq_self; discriminate).
  unfold save_port. destruct (p_cap p).
  - destruct (p_uni p); [apply get_set_same|apply get_remove_same].
  - rewrite get_set_other by exact N1. destruct (p_uni p); [apply get_set_same|apply get_remove_same].
  - rewrite get_set_other by exact N2. rewrite get_set_other by exact N1.
    destruct (p_uni p); [apply get_set_same|apply get_remove_same].
Qed.
Lemma saved_pval id p m :
  p_cap p <> CapNone -> get_value (id ++ s_pval) (save_port id p m) = dec (p_prio p).
Proof.
  intros H. pose proof (pval_pmode_differ id) as N3. unfold save_port. destruct (p_cap p); [contradiction| |].
  - apply get_set_same.
  - rewrite get_set_other by exact N3. apply get_set_same.
Qed.
Lemma saved_pmode_full id p m :
  p_cap p = CapFull -> get_value (id ++ s_pmode) (save_port id p m) = dec (if p_static p then 1 else 0).
Proof. intros H. unfold save_port. rewrite H. apply get_set_same. Qed.
Lemma saved_pmode_static id p m :
  p_cap p = CapStatic -> get_value (id ++ s_pmode) (save_port id p m) = get_value (id ++ s_pmode) m.
Proof.
  intros H. assert (id <> id ++ s_pmode) as N2 by (apply app_neq_self; discriminate).
  pose proof (pval_pmode_differ id) as N3.
  unfold save_port. rewrite H. rewrite get_set_other by congruence.
  destruct (p_uni p); [rewrite get_set_other by congruence|rewrite get_remove_other by congruence]; reflexivity.
Qed.

Lemma restore_patch_saved id p m q :
  match p_uni p with Some u => u <= UINT32_MAX | None => True end ->
  p_uni q = None ->
  restore_patch id (save_port id p m) q =
  RPort {| p_cap := p_cap q; p_uni := p_uni p; p_prio := p_prio q; p_static := p_static q |}.
Proof.
  intros Hu Hq. unfold restore_patch. rewrite saved_patch. unfold UINT32_MAX in *.
  destruct (p_uni p) as [u|].
  - rewrite is_empty_dec, string_to_uint_dec by lia.
    assert (u <=? 4294967295 = true) as -> by lia. reflexivity.
  - cbn [is_empty]. destruct q; cbn in *; subst; reflexivity.
Qed.

(* A device goes away (its ports' settings are written) and comes back with new port objects
   (no patch, priority 100, the port class's initial mode): each port gets back its patch for
   every universe id an unsigned int can hold, its priority, and its mode if it has one.
   For a port without a mode (input port, static priority only) a stale <id>_priority_mode
   setting in the store is read by the restore; it must be absent or start with a digit. *)
Lemma restore_save_port id p m static0 :
  match p_uni p with Some u => u <= UINT32_MAX | None => True end ->
  p_prio p <= SOURCE_PRIORITY_MAX ->
  (p_cap p = CapStatic -> string_to_uint UINT8_MAX (get_value (id ++ s_pmode) m) <> PUnmodelled) ->
  exists q, restore_port id (save_port id p m) (fresh_like p static0) = RPort q /\ port_settings_eq q p.
Proof.
  intros Hu Hp Hstale. unfold SOURCE_PRIORITY_MAX in *.
  assert (string_to_uint UINT8_MAX (dec (p_prio p)) = PVal (p_prio p)) as Eprio.
  { rewrite string_to_uint_dec by lia. unfold UINT8_MAX. assert (p_prio p <=? 255 = true) as -> by lia. reflexivity. }
  assert (200 <? p_prio p = false) as Ecap2 by lia.
  unfold restore_port, restore_priority. cbn [fresh_like p_cap].
  destruct (p_cap p) eqn:Ecap.
  - (* no priority capability: only the patch *)
    rewrite restore_patch_saved by (exact Hu || reflexivity). cbn [fresh_like p_cap p_uni p_prio p_static].
    eexists. split; [reflexivity|]. unfold port_settings_eq. cbn [p_cap p_uni p_prio p_static]. rewrite Ecap. auto.
  - (* input port with a static priority only *)
    rewrite saved_pval by congruence. rewrite saved_pmode_static by exact Ecap.
    rewrite is_empty_dec. cbn [andb]. rewrite Eprio.
    specialize (Hstale eq_refl).
    destruct (string_to_uint UINT8_MAX (get_value (id ++ s_pmode) m)) as [[|?]| |] eqn:E2; [| | |contradiction].
    all: unfold set_priority_static, set_priority_inherit; cbn [fresh_like p_cap p_uni p_prio p_static];
      rewrite ?Ecap; cbn [p_cap p_uni p_prio p_static]; rewrite ?Ecap;
      unfold SOURCE_PRIORITY_MAX; rewrite Ecap2;
      rewrite restore_patch_saved by (exact Hu || reflexivity);
      (eexists; split; [reflexivity|]); unfold port_settings_eq; cbn [p_cap p_uni p_prio p_static];
      rewrite Ecap; auto.
  - (* full capability: priority and mode *)
    rewrite saved_pval by congruence. rewrite saved_pmode_full by exact Ecap.
    rewrite is_empty_dec. cbn [andb]. rewrite Eprio.
    assert (string_to_uint UINT8_MAX (dec (if p_static p then 1 else 0)) = PVal (if p_static p then 1 else 0)) as ->.
    { rewrite string_to_uint_dec by (destruct (p_static p); lia). destruct (p_static p); reflexivity. }
    destruct (p_static p) eqn:Est.
    all: unfold set_priority_static, set_priority_inherit; cbn [fresh_like p_cap p_uni p_prio p_static];
      rewrite ?Ecap; cbn [p_cap p_uni p_prio p_static]; rewrite ?Ecap;
      unfold SOURCE_PRIORITY_MAX; rewrite Ecap2;
      rewrite restore_patch_saved by (exact Hu || reflexivity);
      (eexists; split; [reflexivity|]); unfold port_settings_eq; cbn [p_cap p_uni p_prio p_static];
      rewrite Ecap, ?Est; auto.
Qed.

(* before the fix the patch was parsed into an int: universes from 2^31 up were not restored *)
Lemma old_patch_restore_loses_high_universe :
  restore_patch_old_id (dec 2147483648) = None /\ restore_patch_old_id (dec 2147483647) = Some 2147483647.
Proof. split; vm_compute; reflexivity. Qed.
