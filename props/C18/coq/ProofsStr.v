(* C18 proofs, part 1: std::string ordering, the sorted-list multimap, trimming. *)
From OlaBase Require Import Bytes.
From Coq Require Import Sorted.
From C18 Require Import Model.
Local Open Scope N_scope.

(* ---------------------------------------------------------------- string comparison *)
Lemma str_eqb_eq a b : str_eqb a b = true <-> a = b.
Proof.
  revert b; induction a as [|x a IH]; intros [|y b]; cbn [str_eqb]; split; intros H;
    try reflexivity; try discriminate.
  - apply andb_prop in H as [H1 H2]. apply N.eqb_eq in H1. apply IH in H2. congruence.
  - inversion H; subst. rewrite N.eqb_refl. cbn. apply IH. reflexivity.
Qed.
Lemma str_eqb_refl a : str_eqb a a = true.
Proof. apply str_eqb_eq; reflexivity. Qed.
Lemma str_eqb_neq a b : str_eqb a b = false <-> a <> b.
Proof.
  split; intros H.
  - intros E. apply str_eqb_eq in E. congruence.
  - destruct (str_eqb a b) eqn:E; [|reflexivity]. apply str_eqb_eq in E. contradiction.
Qed.

Lemma str_ltb_irrefl a : str_ltb a a = false.
Proof.
  induction a as [|x a IH]; cbn [str_ltb]; [reflexivity|].
  rewrite N.ltb_irrefl. exact IH.
Qed.

Lemma str_ltb_trans a b c :
  str_ltb a b = true -> str_ltb b c = true -> str_ltb a c = true.
Proof.
  revert b c; induction a as [|x a IH]; intros [|y b] [|z c]; cbn [str_ltb]; intros H1 H2;
    try discriminate; try reflexivity.
  destruct (x <? y) eqn:Exy.
  - destruct (y <? z) eqn:Eyz.
    + assert (x <? z = true) as -> by lia. reflexivity.
    + destruct (z <? y) eqn:Ezy; [discriminate|].
      assert (y = z) by lia; subst z. rewrite Exy. reflexivity.
  - destruct (y <? x) eqn:Eyx; [discriminate|].
    assert (x = y) by lia; subst y.
    destruct (x <? z) eqn:Exz; [reflexivity|].
    destruct (z <? x) eqn:Ezx; [discriminate|].
    eapply IH; eassumption.
Qed.

Lemma str_ltb_asym a b : str_ltb a b = true -> str_ltb b a = false.
Proof.
  intros H. destruct (str_ltb b a) eqn:E; [|reflexivity].
  pose proof (str_ltb_trans _ _ _ H E) as T. rewrite str_ltb_irrefl in T. discriminate.
Qed.

(* ---------------------------------------------------------------- the multimap invariant *)
(* iteration order of a std::multimap: keys never decrease *)
Definition key_le (a b : entry) : Prop := str_ltb (fst b) (fst a) = false.
Definition sorted (m : pmap) : Prop := StronglySorted key_le m.

Lemma sorted_nil : sorted [].
Proof. constructor. Qed.

Lemma mm_insert_in k v m x : In x (mm_insert k v m) <-> x = (k, v) \/ In x m.
Proof.
  induction m as [|e r IH]; cbn [mm_insert].
  - cbn. intuition.
  - destruct (str_ltb k (fst e)); cbn [In]; [intuition|]. rewrite IH. intuition.
Qed.

Lemma sorted_insert k v m : sorted m -> sorted (mm_insert k v m).
Proof.
  unfold sorted. induction m as [|e r IH]; intros H; cbn [mm_insert].
  - constructor; constructor.
  - apply StronglySorted_inv in H as [Hr He].
    destruct (str_ltb k (fst e)) eqn:E.
    + constructor; [constructor; assumption|].
      constructor.
      * unfold key_le; cbn [fst]. apply str_ltb_asym; exact E.
      * rewrite Forall_forall in *. intros x Hx. specialize (He x Hx). unfold key_le in *. cbn [fst].
        destruct (str_ltb (fst x) k) eqn:E2; [|reflexivity].
        rewrite (str_ltb_trans _ _ _ E2 E) in He. discriminate.
    + constructor; [apply IH; exact Hr|].
      rewrite Forall_forall in *. intros x Hx. apply mm_insert_in in Hx as [->|Hx].
      * unfold key_le; cbn [fst]. exact E.
      * apply He; exact Hx.
Qed.

Lemma sorted_filter f m : sorted m -> sorted (filter f m).
Proof.
  unfold sorted. induction m as [|e r IH]; intros H; cbn [filter]; [constructor|].
  apply StronglySorted_inv in H as [Hr He].
  destruct (f e); [|apply IH; exact Hr].
  constructor; [apply IH; exact Hr|].
  rewrite Forall_forall in *. intros x Hx. apply filter_In in Hx as [Hx _]. apply He; exact Hx.
Qed.

Lemma sorted_erase k m : sorted m -> sorted (mm_erase k m).
Proof. apply sorted_filter. Qed.

Lemma sorted_set_value k v m : sorted m -> sorted (set_value k v m).
Proof. intros H. apply sorted_insert, sorted_erase, H. Qed.

(* inserting a key that is not smaller than any key present appends *)
Lemma mm_insert_at_end k v m :
  Forall (fun e => str_ltb k (fst e) = false) m -> mm_insert k v m = m ++ [(k, v)].
Proof.
  induction m as [|e r IH]; intros H; cbn [mm_insert app]; [reflexivity|].
  inversion H as [|? ? He Hr]; subst. rewrite He. f_equal. apply IH; exact Hr.
Qed.

Lemma sorted_app_last m1 e m2 :
  sorted (m1 ++ e :: m2) -> Forall (fun x => str_ltb (fst e) (fst x) = false) m1.
Proof.
  unfold sorted. induction m1 as [|a m1 IH]; cbn [app]; intros H; [constructor|].
  apply StronglySorted_inv in H as [Hr Ha]. constructor.
  - rewrite Forall_forall in Ha. apply (Ha e). apply in_or_app. right. left. reflexivity.
  - apply IH; exact Hr.
Qed.

(* re-inserting the entries of a sorted list in order rebuilds the list *)
Lemma fold_insert_sorted m2 : forall m1,
  sorted (m1 ++ m2) ->
  fold_left (fun acc e => mm_insert (fst e) (snd e) acc) m2 m1 = m1 ++ m2.
Proof.
  induction m2 as [|e m2 IH]; intros m1 H; cbn [fold_left].
  - rewrite app_nil_r. reflexivity.
  - rewrite mm_insert_at_end by (apply (sorted_app_last _ _ _ H)).
    destruct e as [k v]; cbn [fst snd].
    rewrite IH; rewrite <- app_assoc; cbn [app]; [reflexivity|exact H].
Qed.

(* ---------------------------------------------------------------- trimming *)
Definition no_edge_blank (s : str) : Prop :=
  match s with [] => True | c :: _ => is_blank c = false end /\
  match rev s with [] => True | c :: _ => is_blank c = false end.

Lemma drop_blank_id s :
  match s with [] => True | c :: _ => is_blank c = false end -> drop_blank s = s.
Proof. destruct s as [|c r]; cbn [drop_blank]; intros H; [reflexivity|]. rewrite H. reflexivity. Qed.

Lemma drop_blank_app_id a b :
  a <> [] -> match a with [] => True | c :: _ => is_blank c = false end -> drop_blank (a ++ b) = a ++ b.
Proof.
  destruct a as [|c r]; intros Hn H; [contradiction|]. cbn [app drop_blank]. rewrite H. reflexivity.
Qed.

Lemma trim_id s : no_edge_blank s -> trim s = s.
Proof.
  intros [H1 H2]. unfold trim. rewrite <- !rev_alt. rewrite (drop_blank_id s H1). rewrite (drop_blank_id _ H2).
  apply rev_involutive.
Qed.

Lemma rev_nonnil {A} (s : list A) : s <> [] -> rev s <> [].
Proof. destruct s; intros H E; [contradiction|]. cbn in E. destruct (rev s); discriminate. Qed.

(* a trimmed string with one blank after it, or before it *)
Lemma trim_blank_after s c : no_edge_blank s -> is_blank c = true -> trim (s ++ [c]) = s.
Proof.
  intros [H1 H2] Hc. unfold trim. rewrite <- !rev_alt. destruct s as [|x r].
  - cbn. rewrite Hc. reflexivity.
  - rewrite drop_blank_app_id by (congruence || exact H1).
    rewrite rev_app_distr. cbn [rev app]. cbn [drop_blank]. rewrite Hc.
    change (rev r ++ [x]) with (rev (x :: r)).
    rewrite (drop_blank_id _ H2). apply rev_involutive.
Qed.
Lemma trim_blank_before s c : no_edge_blank s -> is_blank c = true -> trim (c :: s) = s.
Proof.
  intros [H1 H2] Hc. unfold trim. rewrite <- !rev_alt. cbn [drop_blank]. rewrite Hc.
  rewrite (drop_blank_id s H1). rewrite (drop_blank_id _ H2). apply rev_involutive.
Qed.
