(* REGENERATED from the repository headers on every run. Do not edit.  *)
From Coq Require Import NArith.
Local Open Scope N_scope.
Definition G_SOURCE_PRIORITY_MAX : N := 200.
Definition G_SOURCE_PRIORITY_DEFAULT : N := 100.
Definition G_PRIORITY_MODE_INHERIT : N := 0.
Definition G_PRIORITY_MODE_STATIC : N := 1.
Definition G_CAPABILITY_NONE : N := 0.
Definition G_CAPABILITY_STATIC : N := 1.
Definition G_CAPABILITY_FULL : N := 2.
Definition G_UINT8_MAX : N := 255.
Definition G_UINT32_MAX : N := 4294967295.
Definition G_SIZEOF_UNSIGNED_INT : N := 4.
Definition G_OLA_PLUGIN_ARTNET : N := 2.
