(* C18 proofs (extension round): crash atomicity over whole histories, from ANY initial directory
   (including a hand-written or foreign settings file and left-over temporaries), with saves that
   complete, saves cut short after any number of calls, and saves whose writes fail (completing, or
   cut short as well). *)
From OlaBase Require Import Bytes.
From Coq Require Import Sorted.
From C18 Require Import Model ProofsStr ProofsLoad ProofsCrash ProofsFail ProofsGrammar.
Local Open Scope N_scope.

Inductive hop :=
| HBase (o : op)                               (* the operations of Model.op *)
| HSaveFail (body : list sys)                  (* Save() whose stream fails: writes in body, close, remove(tmp) *)
| HCrashFail (body : list sys) (n : nat).      (* the same, the process dying after n calls; restart *)

Definition run_hop (st : state) (o : hop) : outcome :=
  match o with
  | HBase o => run_op st o
  | HSaveFail body =>
    match fs_run fs_step (script_failed body) (disk st) with
    | Some d => Done {| mem := mem st; disk := d |}
    | None => FsHazard
    end
  | HCrashFail body n =>
    match fs_run fs_step (firstn n (script_failed body)) (disk st) with
    | Some d => Done {| mem := restart d; disk := d |}
    | None => FsHazard
    end
  end.

(* run a history, collecting the stores handed to a save that can reach the rename (completed or cut
   short; a save whose stream fails never replaces the file and is not collected) *)
Fixpoint run_hops (st : state) (h : list hop) (tried : list pmap) : option (state * list pmap) :=
  match h with
  | [] => Some (st, tried)
  | o :: r =>
    match run_hop st o with
    | Done st' =>
      run_hops st' r (match o with
                      | HBase OSave | HBase (OCrashSave _) => tried ++ [mem st]
                      | _ => tried
                      end)
    | FsHazard => None
    end
  end.

Definition hop_ok (o : hop) : Prop :=
  match o with
  | HBase o => op_ok o
  | HSaveFail body | HCrashFail body _ => Forall (fun x => tmp_write x = true) body
  end.

(* only the store has to be admissible; nothing is assumed about the directory *)
Definition inv2 (st : state) : Prop := sorted (mem st) /\ map_ok (mem st).

Lemma restart_any d : sorted (restart d) /\ map_ok (restart d).
Proof.
  unfold restart, load_into. destruct (f_conf d).
  - split; [apply sorted_load_bytes|apply map_ok_load_bytes].
  - split; [apply sorted_nil|constructor].
Qed.

(* one step: no impossible call; the store stays admissible; what a new process would load is what
   it would have loaded before the step, or the store this step tried to save *)
Lemma run_hop_spec st o :
  inv2 st -> hop_ok o ->
  exists st', run_hop st o = Done st' /\ inv2 st' /\
    (restart (disk st') = restart (disk st) \/
     (restart (disk st') = mem st /\
      match o with HBase OSave | HBase (OCrashSave _) => True | _ => False end)) /\
    match o with HBase OSave => restart (disk st') = mem st /\ mem st' = mem st | _ => True end.
Proof.
  intros [Hs Hm] Ho. destruct o as [o|body|body n]; cbn [run_hop hop_ok] in *.
  - destruct o as [k v|k v|k| | |n| |]; cbn [run_op op_ok] in *.
    + eexists. split; [reflexivity|]. destruct Ho. split; [|auto].
      split; [apply sorted_set_value|apply map_ok_set_value]; assumption.
    + eexists. split; [reflexivity|]. destruct Ho. split; [|auto].
      split; [apply sorted_insert|apply map_ok_insert]; assumption.
    + eexists. split; [reflexivity|]. split; [|auto].
      split; [apply sorted_erase|apply map_ok_erase]; assumption.
    + eexists. split; [reflexivity|]. split; [|auto]. split; [apply sorted_nil|constructor].
    + destruct (save_completes fs_step fs_open_tmp fs_write_tmp fs_close_tmp fs_rename_atomic
                  (mem st) (map save_line (mem st)) (disk st) Hs Hm (concat_save_lines _)) as (d & R & _ & Er).
      unfold save_script. rewrite R. eexists. split; [reflexivity|]. cbn [mem disk].
      split; [split; assumption|]. split; [right; auto|auto].
    + destruct (crash_atomic_full fs_step fs_open_tmp fs_write_tmp fs_close_tmp fs_rename_atomic
                  (mem st) (map save_line (mem st)) n (disk st) Hs Hm (concat_save_lines _)) as (d & R & _ & Hr).
      unfold save_script. rewrite R. eexists. split; [reflexivity|]. cbn [mem disk].
      split; [apply restart_any|]. split; [|exact I]. destruct Hr; auto.
    + eexists. split; [reflexivity|]. cbn [mem disk]. split; [|auto].
      unfold load_into. destruct (f_conf (disk st)); [|split; assumption].
      split; [apply sorted_load_bytes|apply map_ok_load_bytes].
    + eexists. split; [reflexivity|]. cbn [mem disk]. split; [apply restart_any|auto].
  - destruct (failed_save_keeps_old fs_step fs_open_tmp fs_write_tmp fs_write_fail_tmp fs_close_tmp fs_unlink_tmp
                body (length (script_failed body)) (disk st) Ho) as (d & R & _ & Er & _).
    rewrite firstn_all in R. rewrite R. eexists. split; [reflexivity|]. cbn [mem disk].
    split; [split; assumption|auto].
  - destruct (failed_save_keeps_old fs_step fs_open_tmp fs_write_tmp fs_write_fail_tmp fs_close_tmp fs_unlink_tmp
                body n (disk st) Ho) as (d & R & _ & Er & _).
    rewrite R. eexists. split; [reflexivity|]. cbn [mem disk]. split; [apply restart_any|auto].
Qed.

(* Whole histories.  From any directory and any admissible store, after any sequence of edits,
   loads, restarts, completed saves, saves cut short at any call, failing saves and failing saves
   cut short: no impossible system call ever; the store is admissible; and what a new process would
   load is the complete settings the directory held initially or one of the complete stores some
   save of the history was given - never a mixture, never a partial one. *)
Lemma run_hops_spec h : forall st tried,
  inv2 st -> Forall hop_ok h ->
  exists st' tried', run_hops st h tried = Some (st', tried') /\ inv2 st' /\
    (exists more, tried' = tried ++ more) /\
    (In (restart (disk st)) tried \/ True) /\
    forall p0, (restart (disk st) = p0 \/ In (restart (disk st)) tried) ->
               (restart (disk st') = p0 \/ In (restart (disk st')) tried').
Proof.
  induction h as [|o h IH]; intros st tried Hi Hh; cbn [run_hops].
  - exists st, tried. split; [reflexivity|]. split; [exact Hi|]. split; [exists []; rewrite app_nil_r; reflexivity|].
    split; [auto|]. auto.
  - inversion Hh as [|? ? Ho Hr]; subst.
    destruct (run_hop_spec st o Hi Ho) as (st1 & E & Hi1 & Hp & _). rewrite E.
    set (tried1 := match o with
                   | HBase OSave | HBase (OCrashSave _) => tried ++ [mem st]
                   | _ => tried end).
    destruct (IH st1 tried1 Hi1 Hr) as (st' & tried' & R & Hi' & (more & Em) & _ & Hc).
    exists st', tried'. split; [exact R|]. split; [exact Hi'|].
    assert (exists more1, tried1 = tried ++ more1) as (more1 & E1).
    { unfold tried1. destruct o as [[]| |]; try (exists []; rewrite app_nil_r; reflexivity); eexists; reflexivity. }
    split; [exists (more1 ++ more); rewrite Em, E1, app_assoc; reflexivity|]. split; [auto|].
    intros p0 H0. apply Hc.
    destruct Hp as [Hp|[Hp Ht]].
    + rewrite Hp. destruct H0 as [H0|H0]; [left; exact H0|right]. rewrite E1. apply in_or_app. left. exact H0.
    + right. rewrite Hp. unfold tried1. destruct o as [[]| |]; try contradiction; apply in_or_app; right; left; reflexivity.
Qed.

Lemma history_persisted h st :
  inv2 st -> Forall hop_ok h ->
  exists st' tried, run_hops st h [] = Some (st', tried) /\ inv2 st' /\
    (restart (disk st') = restart (disk st) \/ In (restart (disk st')) tried).
Proof.
  intros Hi Hh. destruct (run_hops_spec h st [] Hi Hh) as (st' & tried' & R & Hi' & _ & _ & Hc).
  exists st', tried'. split; [exact R|]. split; [exact Hi'|]. apply Hc. left. reflexivity.
Qed.
