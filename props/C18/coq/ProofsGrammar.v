(* C18 proofs (extension round): the line grammar as an iff.  Whatever bytes the loader is given, the
   store it builds is a well-ordered multimap of admissible entries; hence a store is read back
   identically exactly when it is one. *)
From OlaBase Require Import Bytes.
From Coq Require Import Sorted.
From C18 Require Import Model ProofsStr ProofsLoad.
Local Open Scope N_scope.

Lemma trim_rev s : trim s = rev (drop_blank (rev (drop_blank s))).
Proof. unfold trim. rewrite <- !rev_alt. reflexivity. Qed.

(* ---------------------------------------------------------------- lines never contain '\n' *)
Lemma split_lines_no_nl bs : Forall (fun l => ~ In NL l) (split_lines bs).
Proof.
  induction bs as [|c r IH]; cbn [split_lines]; [constructor|].
  destruct (c =? NL) eqn:E.
  - constructor; [intros []|exact IH].
  - apply N.eqb_neq in E. destruct (split_lines r) as [|l ls].
    + constructor; [|constructor]. intros [H|[]]. congruence.
    + inversion IH as [|? ? Hl Hls]; subst. constructor; [|exact Hls].
      intros [H|H]; [congruence|contradiction].
Qed.

(* ---------------------------------------------------------------- drop_blank / trim *)
Lemma drop_blank_suffix s : exists pre, s = pre ++ drop_blank s.
Proof.
  induction s as [|c r IH]; cbn [drop_blank]; [exists []; reflexivity|].
  destruct (is_blank c); [|exists []; reflexivity].
  destruct IH as (pre & E). exists (c :: pre). cbn [app]. rewrite <- E. reflexivity.
Qed.
Lemma drop_blank_in x s : In x (drop_blank s) -> In x s.
Proof. destruct (drop_blank_suffix s) as (pre & E). intros H. rewrite E. apply in_or_app. right. exact H. Qed.
Lemma drop_blank_head s : match drop_blank s with [] => True | c :: _ => is_blank c = false end.
Proof.
  induction s as [|c r IH]; cbn [drop_blank]; [exact I|].
  destruct (is_blank c) eqn:E; [exact IH|exact E].
Qed.
Lemma drop_blank_snoc l c : is_blank c = false -> exists l', drop_blank (l ++ [c]) = l' ++ [c].
Proof.
  intros Hc. induction l as [|x l IH]; cbn [app drop_blank].
  - rewrite Hc. exists []. reflexivity.
  - destruct (is_blank x); [exact IH|]. exists (x :: l). reflexivity.
Qed.

Lemma trim_in x s : In x (trim s) -> In x s.
Proof.
  rewrite trim_rev. intros H. apply in_rev in H. apply drop_blank_in in H. apply in_rev in H.
  apply drop_blank_in in H. exact H.
Qed.

Lemma trim_no_edge_blank s : no_edge_blank (trim s).
Proof.
  rewrite trim_rev. set (t := drop_blank s). set (u := drop_blank (rev t)). split.
  - (* first byte *)
    destruct (drop_blank_suffix (rev t)) as (pre & E). fold u in E.
    destruct (rev u) as [|c r] eqn:Er; [exact I|].
    assert (t = rev u ++ rev pre) as Et.
    { rewrite <- (rev_involutive t), E, rev_app_distr. reflexivity. }
    rewrite Er in Et. cbn [app] in Et.
    pose proof (drop_blank_head s) as Hh. fold t in Hh. rewrite Et in Hh. exact Hh.
  - (* last byte *)
    rewrite rev_involutive. apply drop_blank_head.
Qed.

(* a string that starts with a non-blank keeps that first byte *)
Lemma trim_head c r : is_blank c = false -> exists r', trim (c :: r) = c :: r'.
Proof.
  intros Hc. rewrite trim_rev. cbn [drop_blank]. rewrite Hc. cbn [rev].
  destruct (drop_blank_snoc (rev r) c Hc) as (l' & E). rewrite E, rev_app_distr. cbn [rev app].
  eexists. reflexivity.
Qed.

(* ---------------------------------------------------------------- the split at the first '=' *)
Lemma find_eq_some s a b : find_eq s = Some (a, b) -> s = a ++ EQC :: b /\ ~ In EQC a.
Proof.
  revert a b. induction s as [|c r IH]; intros a b H; cbn [find_eq] in H; [discriminate|].
  destruct (c =? EQC) eqn:E.
  - inversion H; subst. apply N.eqb_eq in E. subst c. split; [reflexivity|intros []].
  - destruct (find_eq r) as [[a' b']|]; [|discriminate]. inversion H; subst.
    destruct (IH a' b eq_refl) as [E1 E2]. split; [cbn [app]; rewrite <- E1; reflexivity|].
    apply N.eqb_neq in E. intros [Hc|Hc]; [congruence|contradiction].
Qed.

(* ---------------------------------------------------------------- every loaded entry is admissible *)
Lemma load_line_ok acc raw : map_ok acc -> ~ In NL raw -> map_ok (load_line acc raw).
Proof.
  intros Hacc Hnl. unfold load_line.
  pose proof (trim_no_edge_blank raw) as [Hh _].
  assert (forall x, In x (trim raw) -> In x raw) as Hsub by (intros x; apply trim_in).
  destruct (trim raw) as [|c line'] eqn:El; [exact Hacc|].
  destruct (c =? HASH) eqn:Eh; [exact Hacc|]. apply N.eqb_neq in Eh.
  destruct (find_eq (c :: line')) as [[k v]|] eqn:Ef; [|exact Hacc].
  destruct (find_eq_some _ _ _ Ef) as [Es Hk].
  assert (forall x, In x k -> In x raw) as Hkin.
  { intros x Hx. apply Hsub. rewrite Es. apply in_or_app. left. exact Hx. }
  assert (forall x, In x v -> In x raw) as Hvin.
  { intros x Hx. apply Hsub. rewrite Es. apply in_or_app. right. right. exact Hx. }
  apply map_ok_insert; [| |exact Hacc].
  - (* the key *)
    split; [intros H; apply Hnl, Hkin, trim_in, H|].
    split; [intros H; apply Hk, trim_in, H|].
    split; [|apply trim_no_edge_blank].
    destruct k as [|c' k'].
    + reflexivity.
    + cbn [app] in Es. inversion Es; subst c'.
      destruct (trim_head c k' Hh) as (r' & Et). rewrite Et. exact Eh.
  - (* the value *)
    split; [intros H; apply Hnl, Hvin, trim_in, H|apply trim_no_edge_blank].
Qed.

Lemma map_ok_load_bytes bs : map_ok (load_bytes bs).
Proof.
  unfold load_bytes. pose proof (split_lines_no_nl bs) as F. revert F.
  generalize (split_lines bs) as ls. intros ls.
  assert (forall acc, map_ok acc -> Forall (fun l => ~ In NL l) ls -> map_ok (fold_left load_line ls acc)) as G.
  { induction ls as [|l ls IH]; intros acc Ha F; cbn [fold_left]; [exact Ha|].
    inversion F as [|? ? Hl Hr]; subst. apply IH; [apply load_line_ok; assumption|exact Hr]. }
  apply G. constructor.
Qed.

(* ---------------------------------------------------------------- the iff *)
Lemma roundtrip_iff m : load_bytes (save_bytes m) = m <-> sorted m /\ map_ok m.
Proof.
  split.
  - intros H. rewrite <- H. split; [apply sorted_load_bytes|apply map_ok_load_bytes].
  - intros [Hs Hm]. apply load_save; assumption.
Qed.

Lemma sorted_single e : sorted [e].
Proof. repeat constructor. Qed.

Lemma roundtrip_iff_entry k v : load_bytes (save_bytes [(k, v)]) = [(k, v)] <-> key_ok k /\ val_ok v.
Proof.
  rewrite roundtrip_iff. split.
  - intros [_ H]. inversion H as [|? ? He _]; subst. exact He.
  - intros H. split; [apply sorted_single|]. constructor; [exact H|constructor].
Qed.

(* ---------------------------------------------------------------- what becomes of a '#' key *)
(* an entry whose key starts with '#' is written, and read back as a comment: it vanishes, the
   entries around it are unaffected *)
Lemma hash_key_line_skipped acc k' v :
  load_line acc (raw_line (HASH :: k', v)) = acc.
Proof.
  unfold load_line, raw_line. cbn [fst snd]. rewrite <- app_comm_cons.
  destruct (trim_head HASH (k' ++ [SPC; EQC; SPC] ++ v) eq_refl) as (r' & E). rewrite E.
  rewrite N.eqb_refl. reflexivity.
Qed.

Lemma save_bytes_app a b : save_bytes (a ++ b) = save_bytes a ++ save_bytes b.
Proof. unfold save_bytes. rewrite map_app, concat_app. reflexivity. Qed.

Lemma split_lines_app_lines a rest :
  map_ok a -> split_lines (save_bytes a ++ rest) = map raw_line a ++ split_lines rest.
Proof.
  unfold save_bytes. induction a as [|e a IH]; intros H; cbn [map concat app]; [reflexivity|].
  inversion H as [|? ? He Ha]; subst. unfold save_line at 1. rewrite <- !app_assoc. cbn [app].
  rewrite split_lines_line by (apply raw_line_no_nl; exact He). rewrite IH by exact Ha. reflexivity.
Qed.

Lemma hash_key_entry_vanishes m1 m2 k' v :
  map_ok m1 -> ~ In NL k' -> ~ In NL v ->
  load_bytes (save_bytes (m1 ++ (HASH :: k', v) :: m2)) = load_bytes (save_bytes (m1 ++ m2)).
Proof.
  intros H1 Hk Hv. unfold load_bytes. rewrite !save_bytes_app.
  rewrite !split_lines_app_lines by exact H1.
  change ((HASH :: k', v) :: m2) with ([(HASH :: k', v)] ++ m2). rewrite save_bytes_app.
  assert (save_bytes [(HASH :: k', v)] = raw_line (HASH :: k', v) ++ NL :: []) as ->.
  { unfold save_bytes, save_line. cbn [map concat]. rewrite app_nil_r. reflexivity. }
  rewrite <- app_assoc. cbn [app].
  rewrite (split_lines_line (raw_line (HASH :: k', v))).
  - rewrite !fold_left_app. cbn [fold_left]. rewrite hash_key_line_skipped. reflexivity.
  - unfold raw_line. cbn [fst snd]. intros H. cbn [app In] in H. destruct H as [H|H]; [discriminate|].
    apply in_app_or in H as [H|H]; [contradiction|].
    cbn [app In] in H. destruct H as [H|[H|[H|H]]]; try discriminate. contradiction.
Qed.
