(* C18 — executable model of the file-backed preference store (olad/plugin_api/Preferences.cpp),
   the save as a script of system calls, and the universe / port settings that are kept in it
   (UniverseStore.cpp, DeviceManager.cpp, PortManager.cpp).  No proofs here.

   Strings are lists of bytes (N).  The model is of the code WITH the fixes in ../fixes applied
   (load splits a line on the first '=', save writes a temporary file and renames it; the port
   patch is parsed as unsigned int); the replaced code is modelled too (load_bytes_old,
   save_script_old, restore_patch_old) so that the defects are stated as theorems. *)
From OlaBase Require Import Bytes.
Local Open Scope N_scope.

Definition str := list N.

Definition NL : N := 10.     (* '\n' *)
Definition SPC : N := 32.    (* ' '  *)
Definition EQC : N := 61.    (* '='  *)
Definition HASH : N := 35.   (* '#'  *)

(* ---------------------------------------------------------------- std::string comparison *)
(* std::string operator< : byte-wise (unsigned), a proper prefix is smaller *)
Fixpoint str_ltb (a b : str) : bool :=
  match a, b with
  | [], [] => false
  | [], _ :: _ => true
  | _ :: _, [] => false
  | x :: a', y :: b' => if x <? y then true else if y <? x then false else str_ltb a' b'
  end.

Fixpoint str_eqb (a b : str) : bool :=
  match a, b with
  | [], [] => true
  | x :: a', y :: b' => (x =? y) && str_eqb a' b'
  | _, _ => false
  end.

(* ---------------------------------------------------------------- std::multimap<string,string> *)
(* The multimap is the list of its entries in iteration order: ascending keys, entries with equal
   keys in insertion order (C++11 [associative.reqmts]: insert goes to the upper bound). *)
Definition entry := (str * str)%type.
Definition pmap := list entry.

Fixpoint mm_insert (k v : str) (m : pmap) : pmap :=
  match m with
  | [] => [(k, v)]
  | e :: r => if str_ltb k (fst e) then (k, v) :: m else e :: mm_insert k v r
  end.

Definition mm_erase (k : str) (m : pmap) : pmap :=
  filter (fun e => negb (str_eqb (fst e) k)) m.

(* find(): first entry with that key *)
Fixpoint mm_find (k : str) (m : pmap) : option str :=
  match m with
  | [] => None
  | e :: r => if str_eqb (fst e) k then Some (snd e) else mm_find k r
  end.

(* MemoryPreferences *)
Definition set_value (k v : str) (m : pmap) : pmap := mm_insert k v (mm_erase k m).
Definition set_multiple_value (k v : str) (m : pmap) : pmap := mm_insert k v m.
Definition remove_value (k : str) (m : pmap) : pmap := mm_erase k m.
Definition get_value (k : str) (m : pmap) : str :=
  match mm_find k m with Some v => v | None => [] end.
Definition has_key (k : str) (m : pmap) : bool :=
  match mm_find k m with Some _ => true | None => false end.
(* GetMultipleValue: from find(key) while iter->first == key *)
Fixpoint take_key (k : str) (m : pmap) : list str :=
  match m with
  | [] => []
  | e :: r => if str_eqb (fst e) k then snd e :: take_key k r else []
  end.
Fixpoint get_multiple_value (k : str) (m : pmap) : list str :=
  match m with
  | [] => []
  | e :: r => if str_eqb (fst e) k then take_key k m else get_multiple_value k r
  end.

(* ---------------------------------------------------------------- StringUtils *)
(* StringTrim: characters_to_trim = " \n\r\t" *)
Definition is_blank (c : N) : bool := (c =? 32) || (c =? 10) || (c =? 13) || (c =? 9).
(* input->substr(find_first_not_of(blanks)) ; empty if there is none *)
Fixpoint drop_blank (s : str) : str :=
  match s with
  | [] => []
  | c :: r => if is_blank c then drop_blank r else s
  end.
(* substr(start, end - start + 1) with end = find_last_not_of(blanks) *)
(* (List.rev_append: reversal in linear time, the model is run on lines of up to 1 MB) *)
Definition trim (s : str) : str := rev_append (drop_blank (rev_append (drop_blank s) [])) [].

(* StringSplit(input, &tokens, delim) for a one-character delimiter set: always >= 1 token *)
Fixpoint string_split (d : N) (s : str) : list str :=
  match s with
  | [] => [[]]
  | c :: r =>
    if c =? d then [] :: string_split d r
    else match string_split d r with
         | t :: ts => (c :: t) :: ts
         | [] => [[c]]
         end
  end.

(* ---------------------------------------------------------------- save *)
(* pref_file << iter->first << " = " << iter->second << std::endl *)
Definition raw_line (e : entry) : str := fst e ++ [SPC; EQC; SPC] ++ snd e.
Definition save_line (e : entry) : str := raw_line e ++ [NL].
Definition save_bytes (m : pmap) : str := concat (map save_line m).

(* ---------------------------------------------------------------- load *)
(* while (getline(pref_file, line)): the pieces between '\n'; a final piece without '\n' is
   delivered when it is non-empty (getline sets eofbit only), nothing after a final '\n'. *)
Fixpoint split_lines (bs : str) : list str :=
  match bs with
  | [] => []
  | c :: r =>
    if c =? NL then [] :: split_lines r
    else match split_lines r with
         | l :: ls => (c :: l) :: ls
         | [] => [[c]]
         end
  end.

(* line.find('=') ; line.substr(0, pos), line.substr(pos + 1) *)
Fixpoint find_eq (s : str) : option (str * str) :=
  match s with
  | [] => None
  | c :: r =>
    if c =? EQC then Some ([], r)
    else match find_eq r with
         | Some (a, b) => Some (c :: a, b)
         | None => None
         end
  end.

(* body of the loop in FileBackedPreferences::LoadFromFile (fixed: first '=' separates) *)
Definition load_line (m : pmap) (raw : str) : pmap :=
  let line := trim raw in
  match line with
  | [] => m
  | c :: _ =>
    if c =? HASH then m
    else match find_eq line with
         | None => m                                      (* "Skipping line" *)
         | Some (k, v) => mm_insert (trim k) (trim v) m
         end
  end.
Definition load_bytes (bs : str) : pmap := fold_left load_line (split_lines bs) [].

(* the loop body before the fix: StringSplit(line, &tokens, "=") and tokens.size() != 2 -> skip *)
Definition load_line_old (m : pmap) (raw : str) : pmap :=
  let line := trim raw in
  match line with
  | [] => m
  | c :: _ =>
    if c =? HASH then m
    else match string_split EQC line with
         | [k; v] => mm_insert (trim k) (trim v) m
         | _ => m
         end
  end.
Definition load_bytes_old (bs : str) : pmap := fold_left load_line_old (split_lines bs) [].

(* ---------------------------------------------------------------- the directory and system calls *)
Inductive path := Conf | Tmp.          (* ola-<name>.conf and ola-<name>.conf.tmp *)
Record fs := { f_conf : option str; f_tmp : option str }.   (* None = no such file *)
Definition fs_get (p : path) (s : fs) : option str :=
  match p with Conf => f_conf s | Tmp => f_tmp s end.
Definition fs_set (p : path) (c : option str) (s : fs) : fs :=
  match p with
  | Conf => {| f_conf := c; f_tmp := f_tmp s |}
  | Tmp => {| f_conf := f_conf s; f_tmp := c |}
  end.

Inductive sys :=
| SOpenTrunc (p : path)               (* open(p, O_WRONLY|O_CREAT|O_TRUNC) *)
| SWrite (p : path) (bs : str)        (* write(fd of p, bs) *)
| SClose (p : path)
| SRename (src dst : path)            (* rename(src, dst) *)
| SWriteFail (p : path)               (* write(fd of p, ...) returning -1 (ENOSPC, EIO): nothing written *)
| SUnlink (p : path)                  (* remove(p) *)
| SCloseFail (p : path)               (* close() of p reporting an error (EIO ...): the descriptor is gone, the file is as it was *)
| SRenameFail (src dst : path).       (* rename() failing: nothing changes *)

(* One system call.  None = the call is impossible in this state (write to / close of a file that
   was never opened, rename of a missing file): a hazard outcome, proved unreachable for saves. *)
Definition fs_step (s : fs) (c : sys) : option fs :=
  match c with
  | SOpenTrunc p => Some (fs_set p (Some []) s)
  | SWrite p bs =>
    match fs_get p s with
    | Some old => Some (fs_set p (Some (old ++ bs)) s)
    | None => None
    end
  | SClose p => match fs_get p s with Some _ => Some s | None => None end
  | SRename src dst =>
    match fs_get src s with
    | Some c => Some (fs_set dst (Some c) (fs_set src None s))
    | None => None
    end
  | SWriteFail p => match fs_get p s with Some _ => Some s | None => None end
  | SUnlink p => match fs_get p s with Some _ => Some (fs_set p None s) | None => None end
  | SCloseFail p => match fs_get p s with Some _ => Some s | None => None end
  | SRenameFail src dst => match fs_get src s with Some _ => Some s | None => None end
  end.

Fixpoint fs_run (step : fs -> sys -> option fs) (script : list sys) (s : fs) : option fs :=
  match script with
  | [] => Some s
  | c :: r => match step s c with Some s' => fs_run step r s' | None => None end
  end.

(* SavePreferencesToFile (fixed): ofstream(tmp); one write per flushed chunk; close; rename *)
Definition script_of_chunks (chunks : list str) : list sys :=
  [SOpenTrunc Tmp] ++ map (SWrite Tmp) chunks ++ [SClose Tmp; SRename Tmp Conf].
(* std::endl flushes: one write per line *)
Definition save_script (m : pmap) : list sys := script_of_chunks (map save_line m).
(* before the fix: ofstream(filename) truncates the file itself *)
Definition script_of_chunks_old (chunks : list str) : list sys :=
  [SOpenTrunc Conf] ++ map (SWrite Conf) chunks ++ [SClose Conf].
Definition save_script_old (m : pmap) : list sys := script_of_chunks_old (map save_line m).

(* SavePreferencesToFile when the stream goes bad: the writes in `body` (successful ones, possibly
   short, and failing ones, in any order) are followed by close, and because pref_file.fail() the
   temporary is removed and the rename is not attempted: the old file is kept. *)
Definition tmp_write (c : sys) : bool :=
  match c with SWrite Tmp _ | SWriteFail Tmp => true | _ => false end.
Definition script_failed (body : list sys) : list sys :=
  [SOpenTrunc Tmp] ++ body ++ [SClose Tmp; SUnlink Tmp].
(* close() fails: the stream is in the failed state, the temporary is removed, no rename;
   rename() fails: a warning, the temporary is removed *)
Definition script_close_failed (chunks : list str) : list sys :=
  [SOpenTrunc Tmp] ++ map (SWrite Tmp) chunks ++ [SCloseFail Tmp; SUnlink Tmp].
Definition script_rename_failed (chunks : list str) : list sys :=
  [SOpenTrunc Tmp] ++ map (SWrite Tmp) chunks ++ [SClose Tmp; SRenameFail Tmp Conf; SUnlink Tmp].
(* as the harness provokes it: every write from the k-th on (k >= 1) fails; libstdc++ then issues
   one failing write per remaining std::endl and one for close() (observed, not relied upon by the
   theorems, which take any body) *)
Definition save_script_enospc (m : pmap) (k : nat) : list sys :=
  let lines := map save_line m in
  if (k <=? length lines)%nat && (1 <=? k)%nat then
    script_failed (map (SWrite Tmp) (firstn (k - 1) lines) ++
                   map (fun _ => SWriteFail Tmp) (skipn (k - 1) lines))
  else save_script m.

(* descriptors the saver holds after running a script, given how many it held before *)
Fixpoint fd_balance (script : list sys) (held : Z) : Z :=
  match script with
  | [] => held
  | c :: r => fd_balance r (match c with
                            | SOpenTrunc _ => held + 1
                            | SClose _ | SCloseFail _ => held - 1
                            | _ => held
                            end)%Z
  end.

(* What a store created by a new process holds after Load(): LoadFromFile returns false and leaves
   the (empty) map alone when the file does not exist. *)
Definition load_into (mem : pmap) (s : fs) : pmap :=
  match f_conf s with Some b => load_bytes b | None => mem end.
Definition restart (s : fs) : pmap := load_into [] s.

(* ---------------------------------------------------------------- histories *)
Record state := { mem : pmap; disk : fs }.

Inductive op :=
| OSet (k v : str) | OSetMulti (k v : str) | ORemove (k : str) | OClear
| OSave                      (* Save() + Synchronize(): the whole script runs *)
| OCrashSave (n : nat)       (* the process dies after n system calls of a save, then restarts *)
| OLoad                      (* Load() on the live store *)
| ORestart.                  (* process exit without saving; new process, new store, Load() *)

Inductive outcome := Done (st : state) | FsHazard.

Definition run_op (st : state) (o : op) : outcome :=
  match o with
  | OSet k v => Done {| mem := set_value k v (mem st); disk := disk st |}
  | OSetMulti k v => Done {| mem := set_multiple_value k v (mem st); disk := disk st |}
  | ORemove k => Done {| mem := remove_value k (mem st); disk := disk st |}
  | OClear => Done {| mem := []; disk := disk st |}
  | OSave =>
    match fs_run fs_step (save_script (mem st)) (disk st) with
    | Some d => Done {| mem := mem st; disk := d |}
    | None => FsHazard
    end
  | OCrashSave n =>
    match fs_run fs_step (firstn n (save_script (mem st))) (disk st) with
    | Some d => Done {| mem := restart d; disk := d |}
    | None => FsHazard
    end
  | OLoad => Done {| mem := load_into (mem st) (disk st); disk := disk st |}
  | ORestart => Done {| mem := restart (disk st); disk := disk st |}
  end.

Fixpoint run_ops (st : state) (h : list op) : outcome :=
  match h with
  | [] => Done st
  | o :: r => match run_op st o with Done st' => run_ops st' r | FsHazard => FsHazard end
  end.

(* all directory images a crash during this save can leave: after 0, 1, ..., all calls *)
Fixpoint images_from (script : list sys) (s : fs) : list (option fs) :=
  Some s :: match script with
            | [] => []
            | c :: r => match fs_step s c with
                        | Some s' => images_from r s'
                        | None => [None]
                        end
            end.
Definition pmap_eqb (a b : pmap) : bool :=
  (length a =? length b)%nat &&
  forallb (fun p => str_eqb (fst (fst p)) (fst (snd p)) && str_eqb (snd (fst p)) (snd (snd p)))
          (combine a b).
(* instance checker: every image loads as the old or as the new settings *)
Definition crash_atomic_chk (old new : pmap) (imgs : list (option fs)) : bool :=
  forallb (fun i => match i with
                    | Some s => pmap_eqb (restart s) old || pmap_eqb (restart s) new
                    | None => false
                    end) imgs.

(* ---------------------------------------------------------------- numbers in settings *)
(* IntToString / ostream << unsigned: decimal digits, no padding *)
Fixpoint digits_le (fuel : nat) (n : N) : list N :=    (* least significant first *)
  match fuel with
  | O => []                                            (* unreachable for n < 10^fuel *)
  | S f => (n mod 10) :: (if n / 10 =? 0 then [] else digits_le f (n / 10))
  end.
Definition dec (n : N) : str := map (fun d => 48 + d) (rev (digits_le 20 n)).   (* n < 2^64 < 10^20 *)

Definition is_digit (c : N) : bool := (48 <=? c) && (c <=? 57).
(* the digit loop of strtol / strtoull: stops at the first non-digit *)
Fixpoint digits_val (acc : N) (s : str) : N :=
  match s with
  | c :: r => if is_digit c then digits_val (acc * 10 + (c - 48)) r else acc
  | [] => acc
  end.

Inductive parsed := PVal (n : N) | PReject | PUnmodelled.
(* ola::StringToInt(value, &uintN, strict = false) for a value that starts with a digit: strtoull
   reads the digit prefix; the range check rejects anything above the type's maximum (ERANGE gives
   ULLONG_MAX, also above).  Values starting with blanks or a sign take strtoull's other paths,
   whose treatment is being changed under property C20: not modelled (PUnmodelled). *)
Definition string_to_uint (maxv : N) (s : str) : parsed :=
  match s with
  | [] => PReject
  | c :: _ => if is_digit c then
                let v := digits_val 0 s in if v <=? maxv then PVal v else PReject
              else PUnmodelled
  end.

Definition UINT32_MAX : N := 4294967295.
Definition UINT8_MAX : N := 255.

(* ---------------------------------------------------------------- typed setters / getters *)
Definition s_true : str := [116; 114; 117; 101].            (* BoolValidator::ENABLED *)
Definition s_false : str := [102; 97; 108; 115; 101].       (* BoolValidator::DISABLED *)
(* IntToString(int) *)
Definition dec_z (z : Z) : str :=
  if (z <? 0)%Z then 45 :: dec (Z.to_N (- z)) else dec (Z.to_N z).
(* SetValue(key, unsigned int) / SetValue(key, int) / SetMultipleValue(key, unsigned int) *)
Definition set_value_uint (k : str) (n : N) (m : pmap) : pmap := set_value k (dec n) m.
Definition set_value_int (k : str) (z : Z) (m : pmap) : pmap := set_value k (dec_z z) m.
Definition set_multiple_value_uint (k : str) (n : N) (m : pmap) : pmap := set_multiple_value k (dec n) m.
(* SetValueAsBool / GetValueAsBool *)
Definition set_value_bool (k : str) (b : bool) (m : pmap) : pmap :=
  set_value k (if b then s_true else s_false) m.
Definition get_value_bool (k : str) (m : pmap) : bool :=
  match mm_find k m with Some v => str_eqb v s_true | None => false end.

(* ---------------------------------------------------------------- universe settings *)
Definition s_uni : str := [117; 110; 105; 95].                 (* "uni_" *)
Definition s_name : str := [95; 110; 97; 109; 101].            (* "_name" *)
Definition s_merge : str := [95; 109; 101; 114; 103; 101].     (* "_merge" *)
Definition s_HTP : str := [72; 84; 80].
Definition s_LTP : str := [76; 84; 80].
Definition s_Universe : str := [85; 110; 105; 118; 101; 114; 115; 101; 32].   (* "Universe " *)

Record uni := { u_name : str; u_htp : bool }.
(* Universe::Universe: name "Universe <id>", MERGE_LTP *)
Definition uni_new (id : N) : uni := {| u_name := s_Universe ++ dec id; u_htp := false |}.
Definition uni_key (id : N) (suffix : str) : str := s_uni ++ dec id ++ suffix.

(* UniverseStore::SaveUniverseSettings (the Save() to disk is a separate step) *)
Definition save_universe (id : N) (u : uni) (m : pmap) : pmap :=
  set_value (uni_key id s_merge) (if u_htp u then s_HTP else s_LTP)
    (set_value (uni_key id s_name) (u_name u) m).
(* UniverseStore::RestoreUniverseSettings on a new Universe (rdm discovery interval not modelled) *)
Definition restore_universe (id : N) (m : pmap) : uni :=
  let u := uni_new id in
  let nm := get_value (uni_key id s_name) m in
  let u1 := match nm with [] => u | _ => {| u_name := nm; u_htp := u_htp u |} end in
  let md := get_value (uni_key id s_merge) m in
  match md with
  | [] => u1
  | _ => {| u_name := u_name u1; u_htp := str_eqb md s_HTP |}
  end.

(* ---------------------------------------------------------------- port settings *)
Definition s_pval : str :=   (* "_priority_value" *)
  [95; 112; 114; 105; 111; 114; 105; 116; 121; 95; 118; 97; 108; 117; 101].
Definition s_pmode : str :=  (* "_priority_mode" *)
  [95; 112; 114; 105; 111; 114; 105; 116; 121; 95; 109; 111; 100; 101].

Inductive capability := CapNone | CapStatic | CapFull.
(* a port as far as the settings go: patched universe, priority, mode (true = PRIORITY_MODE_STATIC,
   false = PRIORITY_MODE_INHERIT) *)
Record port := { p_cap : capability; p_uni : option N; p_prio : N; p_static : bool }.
Definition SOURCE_PRIORITY_MAX : N := 200.

(* DeviceManager::SavePortPatchings for one port, then SavePortPriority *)
Definition save_port (id : str) (p : port) (m : pmap) : pmap :=
  let m1 := match p_uni p with
            | Some u => set_value id (dec u) m
            | None => remove_value id m
            end in
  match p_cap p with
  | CapNone => m1
  | CapStatic => set_value (id ++ s_pval) (dec (p_prio p)) m1
  | CapFull => set_value (id ++ s_pmode) (dec (if p_static p then 1 else 0))
                 (set_value (id ++ s_pval) (dec (p_prio p)) m1)
  end.

(* PortManager::SetPriorityStatic / SetPriorityInherit *)
Definition set_priority_static (v : N) (p : port) : port :=
  match p_cap p with
  | CapNone => p
  | _ => {| p_cap := p_cap p; p_uni := p_uni p;
            p_prio := if SOURCE_PRIORITY_MAX <? v then SOURCE_PRIORITY_MAX else v;
            p_static := match p_cap p with CapFull => true | _ => p_static p end |}
  end.
Definition set_priority_inherit (p : port) : port :=
  match p_cap p with
  | CapFull => {| p_cap := p_cap p; p_uni := p_uni p; p_prio := p_prio p; p_static := false |}
  | _ => p
  end.

Inductive restored := RPort (p : port) | RUnmodelled.

Definition is_empty (s : str) : bool := match s with [] => true | _ => false end.

(* DeviceManager::RestorePortPriority *)
Definition restore_priority (id : str) (m : pmap) (p : port) : restored :=
  match p_cap p with
  | CapNone => RPort p
  | _ =>
    let pv := get_value (id ++ s_pval) m in
    let pm := get_value (id ++ s_pmode) m in
    if is_empty pv && is_empty pm then RPort p
    else
      match string_to_uint UINT8_MAX pv, string_to_uint UINT8_MAX pm with
      | PUnmodelled, _ | _, PUnmodelled => RUnmodelled
      | r1, r2 =>
        let p1 := match r1 with PVal v => set_priority_static v p | _ => p end in
        RPort match r2 with
              | PVal 0 => set_priority_inherit p1
              | _ => p1
              end
      end
  end.

(* the patch part of DeviceManager::RestorePortSettings (fixed: parsed as unsigned int) for a port
   of a device that allows looping and multi-port patching (PatchPort then always succeeds) *)
Definition restore_patch (id : str) (m : pmap) (p : port) : restored :=
  let s := get_value id m in
  if is_empty s then RPort p
  else match string_to_uint UINT32_MAX s with
       | PVal u => RPort {| p_cap := p_cap p; p_uni := Some u; p_prio := p_prio p; p_static := p_static p |}
       | PReject => RPort p
       | PUnmodelled => RUnmodelled
       end.
Definition restore_port (id : str) (m : pmap) (p : port) : restored :=
  match restore_priority id m p with
  | RPort p1 => restore_patch id m p1
  | RUnmodelled => RUnmodelled
  end.

(* before the fix: int id = static_cast<int>(strtol(...)); if ((id == 0 && errno) || id < 0) skip.
   Only for digit strings below 2^63 (no ERANGE): the int cast wraps modulo 2^32. *)
Definition restore_patch_old_id (s : str) : option N :=
  let v := digits_val 0 s in
  let w := v mod 4294967296 in
  if 2147483648 <=? w then None (* id < 0 *) else Some w.
