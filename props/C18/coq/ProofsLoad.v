(* C18 proofs, part 2: load (save m) = m. *)
From OlaBase Require Import Bytes.
From Coq Require Import Sorted.
From C18 Require Import Model ProofsStr.
Local Open Scope N_scope.

(* ---------------------------------------------------------------- the property's side conditions *)
(* key: single line, free of '=', not starting with '#', no leading or trailing blank *)
Definition key_ok (k : str) : Prop :=
  ~ In NL k /\ ~ In EQC k /\ match k with c :: _ => c <> HASH | [] => True end /\ no_edge_blank k.
(* value: single line, no leading or trailing blank; may contain '=' and '#', may be empty *)
Definition val_ok (v : str) : Prop := ~ In NL v /\ no_edge_blank v.
Definition entry_ok (e : entry) : Prop := key_ok (fst e) /\ val_ok (snd e).
Definition map_ok (m : pmap) : Prop := Forall entry_ok m.

(* ---------------------------------------------------------------- lines *)
Lemma split_lines_line l rest :
  ~ In NL l -> split_lines (l ++ NL :: rest) = l :: split_lines rest.
Proof.
  induction l as [|c l IH]; intros H; cbn [app split_lines].
  - rewrite N.eqb_refl. reflexivity.
  - destruct (c =? NL) eqn:E.
    + apply N.eqb_eq in E. exfalso. apply H. left. exact E.
    + rewrite IH; [reflexivity|]. intros Hin. apply H. right. exact Hin.
Qed.

Lemma raw_line_no_nl e : entry_ok e -> ~ In NL (raw_line e).
Proof.
  intros [(Hk & _) (Hv & _)]. unfold raw_line. intros H.
  apply in_app_or in H as [H|H]; [contradiction|].
  cbn [app In] in H. destruct H as [H|[H|[H|H]]]; try discriminate. contradiction.
Qed.

Lemma split_lines_save m : map_ok m -> split_lines (save_bytes m) = map raw_line m.
Proof.
  unfold save_bytes. induction m as [|e m IH]; intros H; cbn [map concat]; [reflexivity|].
  inversion H as [|? ? He Hm]; subst.
  unfold save_line at 1. rewrite <- app_assoc. cbn [app].
  rewrite split_lines_line by (apply raw_line_no_nl; exact He).
  rewrite IH by exact Hm. reflexivity.
Qed.

(* ---------------------------------------------------------------- one line *)
Definition pad_r (k : str) : str := match k with [] => [] | _ => k ++ [SPC] end.
Definition pad_l (v : str) : str := match v with [] => [] | _ => SPC :: v end.

Lemma blank_spc : is_blank SPC = true. Proof. reflexivity. Qed.
Lemma blank_eqc : is_blank EQC = false. Proof. reflexivity. Qed.

Lemma head_rev_app_nonnil (a b : str) :
  a <> [] -> match rev (b ++ a) with [] => True | c :: _ => is_blank c = false end =
             match rev a with [] => True | c :: _ => is_blank c = false end.
Proof.
  intros H. rewrite rev_app_distr. pose proof (rev_nonnil a H) as Hr.
  destruct (rev a); [contradiction|]. reflexivity.
Qed.

Lemma trim_raw_line k v :
  no_edge_blank k -> no_edge_blank v ->
  trim (k ++ [SPC; EQC; SPC] ++ v) = pad_r k ++ EQC :: pad_l v.
Proof.
  intros Hk Hv. destruct k as [|x k]; destruct v as [|y v]; cbn [pad_r pad_l app].
  - reflexivity.
  - (* " = v" : the leading blank goes *)
    apply (trim_blank_before (EQC :: SPC :: y :: v) SPC); [|reflexivity].
    split; [reflexivity|].
    change (EQC :: SPC :: y :: v) with ([EQC; SPC] ++ (y :: v)).
    rewrite head_rev_app_nonnil by discriminate. apply Hv.
  - (* "k = " : the trailing blank goes *)
    change (x :: k ++ [SPC; EQC; SPC]) with ((x :: k) ++ [SPC; EQC; SPC]).
    replace ((x :: k) ++ [SPC; EQC; SPC]) with (((x :: k) ++ [SPC; EQC]) ++ [SPC])
      by (rewrite <- app_assoc; reflexivity).
    rewrite (trim_blank_after ((x :: k) ++ [SPC; EQC]) SPC); [|split|reflexivity].
    + rewrite <- app_assoc. reflexivity.
    + apply Hk.
    + rewrite rev_app_distr. reflexivity.
  - (* "k = v" *)
    rewrite trim_id.
    + f_equal. rewrite <- app_assoc. reflexivity.
    + split; [apply Hk|].
      replace (x :: k ++ SPC :: EQC :: SPC :: y :: v) with (((x :: k) ++ [SPC; EQC; SPC]) ++ (y :: v))
        by (rewrite <- app_assoc; reflexivity).
      rewrite head_rev_app_nonnil by discriminate. apply Hv.
Qed.

Lemma trim_pad_r k : no_edge_blank k -> trim (pad_r k) = k.
Proof.
  intros H. destruct k as [|x k]; [reflexivity|]. unfold pad_r.
  apply trim_blank_after; [exact H|reflexivity].
Qed.
Lemma trim_pad_l v : no_edge_blank v -> trim (pad_l v) = v.
Proof.
  intros H. destruct v as [|y v]; [reflexivity|]. unfold pad_l.
  apply trim_blank_before; [exact H|reflexivity].
Qed.

Lemma find_eq_app a b : ~ In EQC a -> find_eq (a ++ EQC :: b) = Some (a, b).
Proof.
  induction a as [|c a IH]; intros H; cbn [app find_eq].
  - rewrite N.eqb_refl. reflexivity.
  - destruct (c =? EQC) eqn:E.
    + apply N.eqb_eq in E. exfalso. apply H. left. exact E.
    + rewrite IH; [reflexivity|]. intros Hin. apply H. right. exact Hin.
Qed.

Lemma pad_r_no_eq k : ~ In EQC k -> ~ In EQC (pad_r k).
Proof.
  destruct k as [|x k]; intros H; [exact H|]. unfold pad_r. intros Hin.
  apply in_app_or in Hin as [Hin|Hin]; [contradiction|].
  cbn in Hin. destruct Hin as [Hin|[]]. discriminate.
Qed.

(* the loader turns the line written for an entry back into that entry *)
Lemma load_line_raw acc e :
  entry_ok e -> load_line acc (raw_line e) = mm_insert (fst e) (snd e) acc.
Proof.
  destruct e as [k v]. intros [(Hk1 & Hk2 & Hk3 & Hk4) (Hv1 & Hv2)]. cbn [fst snd] in *.
  unfold load_line, raw_line. cbn [fst snd]. rewrite trim_raw_line by assumption.
  assert (exists c rest, pad_r k ++ EQC :: pad_l v = c :: rest /\ c <> HASH) as (c & rest & E & Hc).
  { destruct k as [|x k]; cbn [pad_r app].
    - exists EQC, (pad_l v). split; [reflexivity|discriminate].
    - exists x, ((k ++ [SPC]) ++ EQC :: pad_l v). split; [reflexivity|exact Hk3]. }
  rewrite E. apply N.eqb_neq in Hc. rewrite Hc. rewrite <- E.
  rewrite find_eq_app by (apply pad_r_no_eq; exact Hk2).
  rewrite trim_pad_r, trim_pad_l by assumption. reflexivity.
Qed.

Lemma fold_load_lines m : forall acc,
  map_ok m ->
  fold_left load_line (map raw_line m) acc =
  fold_left (fun a e => mm_insert (fst e) (snd e) a) m acc.
Proof.
  induction m as [|e m IH]; intros acc H; cbn [map fold_left]; [reflexivity|].
  inversion H as [|? ? He Hm]; subst. rewrite load_line_raw by exact He. apply IH; exact Hm.
Qed.

(* ---------------------------------------------------------------- round trip *)
Lemma load_save m : sorted m -> map_ok m -> load_bytes (save_bytes m) = m.
Proof.
  intros Hs Hok. unfold load_bytes. rewrite split_lines_save by exact Hok.
  rewrite fold_load_lines by exact Hok.
  apply (fold_insert_sorted m []). exact Hs.
Qed.

(* ---------------------------------------------------------------- the invariant under the store's operations *)
Lemma map_ok_insert k v m : key_ok k -> val_ok v -> map_ok m -> map_ok (mm_insert k v m).
Proof.
  unfold map_ok. intros Hk Hv Hm. rewrite Forall_forall in *. intros x Hx.
  apply mm_insert_in in Hx as [->|Hx]; [split; assumption|apply Hm; exact Hx].
Qed.
Lemma map_ok_erase k m : map_ok m -> map_ok (mm_erase k m).
Proof.
  unfold map_ok, mm_erase. intros Hm. rewrite Forall_forall in *. intros x Hx.
  apply filter_In in Hx as [Hx _]. apply Hm; exact Hx.
Qed.
Lemma map_ok_set_value k v m : key_ok k -> val_ok v -> map_ok m -> map_ok (set_value k v m).
Proof. intros. apply map_ok_insert; try assumption. apply map_ok_erase; assumption. Qed.

(* what the loader produces is always a well-ordered multimap, whatever the bytes *)
Lemma sorted_load_line acc l : sorted acc -> sorted (load_line acc l).
Proof.
  intros H. unfold load_line. destruct (trim l) as [|c r]; [exact H|].
  destruct (c =? HASH); [exact H|]. destruct (find_eq (c :: r)) as [[k v]|]; [|exact H].
  apply sorted_insert; exact H.
Qed.
Lemma sorted_load_bytes bs : sorted (load_bytes bs).
Proof.
  unfold load_bytes. generalize (split_lines bs) as ls. intros ls.
  assert (forall acc, sorted acc -> sorted (fold_left load_line ls acc)) as G.
  { induction ls as [|l ls IH]; intros acc H; cbn [fold_left]; [exact H|].
    apply IH, sorted_load_line, H. }
  apply G, sorted_nil.
Qed.

(* ---------------------------------------------------------------- the pre-fix loader loses '=' values *)
Lemma old_loader_drops_eq_value :
  load_bytes_old (save_bytes [([107], [97; 61; 98])]) = [].
Proof. vm_compute. reflexivity. Qed.

(* every store built by insertions (SetMultipleValue; SetValue is erase + insert) from the empty
   store is a well-ordered multimap: the `sorted` premise is not a restriction on stores *)
Definition build (l : list entry) : pmap :=
  fold_left (fun acc e => set_multiple_value (fst e) (snd e) acc) l [].
Lemma build_inv l : forall acc,
  sorted acc -> map_ok acc -> Forall entry_ok l ->
  sorted (fold_left (fun acc e => set_multiple_value (fst e) (snd e) acc) l acc) /\
  map_ok (fold_left (fun acc e => set_multiple_value (fst e) (snd e) acc) l acc).
Proof.
  induction l as [|e l IH]; intros acc Hs Hm Hl; cbn [fold_left]; [split; assumption|].
  inversion Hl as [|? ? [Hk Hv] Hr]; subst. apply IH; [| |exact Hr].
  - apply sorted_insert; exact Hs.
  - apply map_ok_insert; assumption.
Qed.
Lemma load_save_build l :
  Forall entry_ok l -> load_bytes (save_bytes (build l)) = build l.
Proof.
  intros H. destruct (build_inv l [] sorted_nil (Forall_nil _) H) as [Hs Hm].
  apply load_save; assumption.
Qed.
