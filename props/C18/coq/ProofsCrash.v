(* C18 proofs, part 3: a crash during a save; histories. *)
From OlaBase Require Import Bytes.
From Coq Require Import Sorted.
From C18 Require Import Model ProofsStr ProofsLoad.
Local Open Scope N_scope.

Section Crash.
  (* The file system.  What the theorems need of it, for the four kinds of call a save issues, as
     far as the settings file and its temporary are concerned.  [rename_atomic] is POSIX's
     guarantee: the call is one step, after it the destination has the source's contents; there
     is no state in between in which the destination is missing or partial. *)
  Variable step : fs -> sys -> option fs.
  Hypothesis open_tmp : forall s,
    exists s', step s (SOpenTrunc Tmp) = Some s' /\ f_conf s' = f_conf s /\ f_tmp s' = Some [].
  Hypothesis write_tmp : forall s c bs, f_tmp s = Some c ->
    exists s', step s (SWrite Tmp bs) = Some s' /\ f_conf s' = f_conf s /\ f_tmp s' = Some (c ++ bs).
  Hypothesis close_tmp : forall s c, f_tmp s = Some c ->
    exists s', step s (SClose Tmp) = Some s' /\ f_conf s' = f_conf s /\ f_tmp s' = Some c.
  Hypothesis rename_atomic : forall s c, f_tmp s = Some c ->
    exists s', step s (SRename Tmp Conf) = Some s' /\ f_conf s' = Some c.

  Lemma crash_tail chunks : forall (k : nat) s c,
    f_tmp s = Some c ->
    exists s', fs_run step (firstn k (map (SWrite Tmp) chunks ++ [SClose Tmp; SRename Tmp Conf])) s = Some s' /\
      (((k < length chunks + 2)%nat /\ f_conf s' = f_conf s) \/
       ((length chunks + 2 <= k)%nat /\ f_conf s' = Some (c ++ concat chunks))).
  Proof.
    induction chunks as [|ch rest IH]; intros k s c Ht; cbn [map app length concat].
    - destruct k as [|[|k]]; cbn [firstn fs_run].
      + exists s. split; [reflexivity|]. left. split; [lia|reflexivity].
      + destruct (close_tmp s c Ht) as (s1 & E1 & C1 & T1). rewrite E1.
        exists s1. split; [reflexivity|]. left. split; [lia|exact C1].
      + destruct (close_tmp s c Ht) as (s1 & E1 & C1 & T1). rewrite E1.
        destruct (rename_atomic s1 c T1) as (s2 & E2 & C2). rewrite E2.
        rewrite firstn_nil. cbn [fs_run].
        exists s2. split; [reflexivity|]. right. split; [lia|]. rewrite app_nil_r. exact C2.
    - destruct k as [|k]; cbn [firstn fs_run].
      + exists s. split; [reflexivity|]. left. split; [lia|reflexivity].
      + destruct (write_tmp s c ch Ht) as (s1 & E1 & C1 & T1). rewrite E1.
        destruct (IH k s1 (c ++ ch) T1) as (s' & R & [[Hk Hc]|[Hk Hc]]).
        * exists s'. split; [exact R|]. left. split; [lia|congruence].
        * exists s'. split; [exact R|]. right. split; [lia|]. rewrite Hc, <- app_assoc. reflexivity.
  Qed.

  (* after any prefix of the calls of a save, for any chunking of the contents: the script has not
     failed, and the settings file is byte for byte the previous one, or the complete new one
     (exactly when all calls have been made) *)
  Lemma crash_file chunks (k : nat) s :
    exists s', fs_run step (firstn k (script_of_chunks chunks)) s = Some s' /\
      (((k < length chunks + 3)%nat /\ f_conf s' = f_conf s) \/
       ((length chunks + 3 <= k)%nat /\ f_conf s' = Some (concat chunks))).
  Proof.
    unfold script_of_chunks. cbn [app]. destruct k as [|k]; cbn [firstn fs_run].
    - exists s. split; [reflexivity|]. left. split; [lia|reflexivity].
    - destruct (open_tmp s) as (s1 & E1 & C1 & T1). rewrite E1.
      destruct (crash_tail chunks k s1 [] T1) as (s' & R & [[Hk Hc]|[Hk Hc]]).
      + exists s'. split; [exact R|]. left. split; [lia|congruence].
      + exists s'. split; [exact R|]. right. split; [lia|exact Hc].
  Qed.

  Lemma restart_conf s s' : f_conf s' = f_conf s -> restart s' = restart s.
  Proof. unfold restart, load_into. intros ->. reflexivity. Qed.

  Lemma crash_atomic (new : pmap) chunks (k : nat) s :
    sorted new -> map_ok new -> concat chunks = save_bytes new ->
    exists s', fs_run step (firstn k (script_of_chunks chunks)) s = Some s' /\
               (restart s' = restart s \/ restart s' = new).
  Proof.
    intros Hs Hok Hc. destruct (crash_file chunks k s) as (s' & R & [[_ E]|[_ E]]).
    - exists s'. split; [exact R|]. left. apply restart_conf; exact E.
    - exists s'. split; [exact R|]. right. unfold restart, load_into. rewrite E, Hc.
      apply load_save; assumption.
  Qed.

  Lemma save_completes (new : pmap) chunks s :
    sorted new -> map_ok new -> concat chunks = save_bytes new ->
    exists s', fs_run step (script_of_chunks chunks) s = Some s' /\
               f_conf s' = Some (save_bytes new) /\ restart s' = new.
  Proof.
    intros Hs Hok Hc.
    destruct (crash_file chunks (length (script_of_chunks chunks)) s) as (s' & R & H).
    rewrite firstn_all in R. exists s'. split; [exact R|].
    assert (length (script_of_chunks chunks) = (length chunks + 3)%nat) as L.
    { unfold script_of_chunks. cbn [app length]. rewrite app_length, map_length. cbn [length]. unfold str. lia. }
    destruct H as [[Hk _]|[_ E]]; [unfold str in *; lia|]. rewrite E, Hc. split; [reflexivity|].
    unfold restart, load_into. rewrite E, Hc. apply load_save; assumption.
  Qed.
End Crash.

(* ---------------------------------------------------------------- the model's file system meets the hypotheses *)
Lemma fs_open_tmp s :
  exists s', fs_step s (SOpenTrunc Tmp) = Some s' /\ f_conf s' = f_conf s /\ f_tmp s' = Some [].
Proof. eexists. split; [reflexivity|]. split; reflexivity. Qed.
Lemma fs_write_tmp s c bs : f_tmp s = Some c ->
  exists s', fs_step s (SWrite Tmp bs) = Some s' /\ f_conf s' = f_conf s /\ f_tmp s' = Some (c ++ bs).
Proof. intros H. cbn [fs_step fs_get]. rewrite H. eexists. split; [reflexivity|]. split; reflexivity. Qed.
Lemma fs_close_tmp s c : f_tmp s = Some c ->
  exists s', fs_step s (SClose Tmp) = Some s' /\ f_conf s' = f_conf s /\ f_tmp s' = Some c.
Proof. intros H. cbn [fs_step fs_get]. rewrite H. exists s. split; [reflexivity|]. split; [reflexivity|exact H]. Qed.
Lemma fs_rename_atomic s c : f_tmp s = Some c ->
  exists s', fs_step s (SRename Tmp Conf) = Some s' /\ f_conf s' = Some c.
Proof. intros H. cbn [fs_step fs_get]. rewrite H. eexists. split; reflexivity. Qed.

Lemma concat_save_lines m : concat (map save_line m) = save_bytes m.
Proof. reflexivity. Qed.

(* ---------------------------------------------------------------- the truncating save (before the fix) is not atomic *)
Lemma old_save_not_atomic :
  exists s s', fs_run fs_step (firstn 1 (save_script_old [([107], [118])])) s = Some s' /\
               restart s = [([97], [98])] /\ restart s' = [].
Proof.
  exists {| f_conf := Some (save_bytes [([97], [98])]); f_tmp := None |}.
  eexists. split; [reflexivity|]. split; vm_compute; reflexivity.
Qed.

(* ---------------------------------------------------------------- histories *)
Definition op_ok (o : op) : Prop :=
  match o with
  | OSet k v | OSetMulti k v => key_ok k /\ val_ok v
  | _ => True
  end.
(* the settings file is absent or was written by a completed save of a well-formed store *)
Definition disk_inv (d : fs) : Prop :=
  match f_conf d with
  | None => True
  | Some b => exists p, sorted p /\ map_ok p /\ b = save_bytes p
  end.
Definition inv (st : state) : Prop := sorted (mem st) /\ map_ok (mem st) /\ disk_inv (disk st).

Lemma restart_inv d : disk_inv d -> sorted (restart d) /\ map_ok (restart d).
Proof.
  unfold disk_inv, restart, load_into. destruct (f_conf d) as [b|].
  - intros (p & Hs & Hok & ->). rewrite load_save by assumption. split; assumption.
  - intros _. split; [apply sorted_nil|constructor].
Qed.
Lemma load_into_inv m d :
  sorted m -> map_ok m -> disk_inv d -> sorted (load_into m d) /\ map_ok (load_into m d).
Proof.
  unfold disk_inv, load_into. destruct (f_conf d) as [b|].
  - intros _ _ (p & Hs & Hok & ->). rewrite load_save by assumption. split; assumption.
  - intros H1 H2 _. split; assumption.
Qed.

Lemma disk_inv_conf d d' : f_conf d' = f_conf d -> disk_inv d -> disk_inv d'.
Proof. unfold disk_inv. intros ->. exact (fun H => H). Qed.

(* one step of a history: never a file-system hazard, the invariant is kept, and
   - changes to the store do not touch the directory,
   - a completed save makes the directory load as the store,
   - a save cut short after any number of calls leaves a directory that loads as before the save
     or as the store being saved, and that is what the restarted process holds,
   - load / restart give what the directory loads as. *)
Lemma run_op_spec st o :
  inv st -> op_ok o ->
  exists st', run_op st o = Done st' /\ inv st' /\
    match o with
    | OSet _ _ | OSetMulti _ _ | ORemove _ | OClear => disk st' = disk st
    | OSave => mem st' = mem st /\ restart (disk st') = mem st /\
               f_conf (disk st') = Some (save_bytes (mem st))
    | OCrashSave _ => (restart (disk st') = restart (disk st) \/ restart (disk st') = mem st) /\
                      mem st' = restart (disk st')
    | OLoad => disk st' = disk st /\
               mem st' = match f_conf (disk st) with Some _ => restart (disk st) | None => mem st end
    | ORestart => disk st' = disk st /\ mem st' = restart (disk st)
    end.
Proof.
  intros (Hs & Hok & Hd) Ho. destruct o as [k v|k v|k| | |n| |]; cbn [run_op op_ok] in *.
  - eexists. split; [reflexivity|]. destruct Ho as [Hk Hv]. split; [|reflexivity].
    split; [apply sorted_set_value; exact Hs|]. split; [apply map_ok_set_value; assumption|exact Hd].
  - eexists. split; [reflexivity|]. destruct Ho as [Hk Hv]. split; [|reflexivity].
    split; [apply sorted_insert; exact Hs|]. split; [apply map_ok_insert; assumption|exact Hd].
  - eexists. split; [reflexivity|]. split; [|reflexivity].
    split; [apply sorted_erase; exact Hs|]. split; [apply map_ok_erase; exact Hok|exact Hd].
  - eexists. split; [reflexivity|]. split; [|reflexivity].
    split; [apply sorted_nil|]. split; [constructor|exact Hd].
  - destruct (save_completes fs_step fs_open_tmp fs_write_tmp fs_close_tmp fs_rename_atomic
                (mem st) (map save_line (mem st)) (disk st) Hs Hok (concat_save_lines _))
      as (d & R & Ec & Er).
    unfold save_script. rewrite R. eexists. split; [reflexivity|]. unfold inv; cbn [mem disk].
    split; [|split; [reflexivity|split; assumption]].
    split; [exact Hs|]. split; [exact Hok|]. unfold disk_inv. rewrite Ec. exists (mem st). auto.
  - destruct (crash_file fs_step fs_open_tmp fs_write_tmp fs_close_tmp fs_rename_atomic
                (map save_line (mem st)) n (disk st)) as (d & R & H).
    unfold save_script. rewrite R. eexists. split; [reflexivity|]. unfold inv; cbn [mem disk].
    assert (disk_inv d) as Hd'.
    { destruct H as [[_ E]|[_ E]]; [exact (disk_inv_conf _ _ E Hd)|].
      unfold disk_inv. rewrite E. exists (mem st). auto. }
    destruct (restart_inv d Hd') as [R1 R2].
    split; [split; [exact R1|split; [exact R2|exact Hd']]|]. split; [|reflexivity].
    destruct H as [[_ E]|[_ E]].
    + left. apply restart_conf; exact E.
    + right. unfold restart, load_into. rewrite E, concat_save_lines. apply load_save; assumption.
  - eexists. split; [reflexivity|]. unfold inv; cbn [mem disk].
    destruct (load_into_inv (mem st) (disk st) Hs Hok Hd) as [L1 L2].
    split; [split; [exact L1|split; [exact L2|exact Hd]]|]. split; [reflexivity|].
    unfold load_into, restart, load_into. destruct (f_conf (disk st)); reflexivity.
  - eexists. split; [reflexivity|]. unfold inv; cbn [mem disk].
    destruct (restart_inv (disk st) Hd) as [R1 R2].
    split; [split; [exact R1|split; [exact R2|exact Hd]]|]. split; reflexivity.
Qed.

Lemma run_ops_inv h : forall st,
  inv st -> Forall op_ok h -> exists st', run_ops st h = Done st' /\ inv st'.
Proof.
  induction h as [|o h IH]; intros st Hi Hh; cbn [run_ops].
  - exists st. split; [reflexivity|exact Hi].
  - inversion Hh as [|? ? Ho Hr]; subst.
    destruct (run_op_spec st o Hi Ho) as (st1 & E & Hi1 & _). rewrite E. apply IH; assumption.
Qed.

(* the instance checker used by the model driver is sound for what it is used for *)
Lemma pmap_eqb_eq a b : pmap_eqb a b = true -> a = b.
Proof.
  unfold pmap_eqb. revert b. induction a as [|[k v] a IH]; intros [|[k' v'] b] H; cbn in H;
    try reflexivity; try discriminate.
  apply andb_prop in H as [HL H]. cbn in H. apply andb_prop in H as [H1 H2].
  apply andb_prop in H1 as [Hk Hv]. apply str_eqb_eq in Hk. apply str_eqb_eq in Hv. subst.
  f_equal. apply IH. cbn. rewrite H2. rewrite andb_true_r.
  apply Nat.eqb_eq in HL. apply Nat.eqb_eq. cbn in HL. lia.
Qed.

Lemma crash_atomic_full (step : fs -> sys -> option fs) :
  (forall s, exists s', step s (SOpenTrunc Tmp) = Some s' /\ f_conf s' = f_conf s /\ f_tmp s' = Some []) ->
  (forall s c bs, f_tmp s = Some c ->
     exists s', step s (SWrite Tmp bs) = Some s' /\ f_conf s' = f_conf s /\ f_tmp s' = Some (c ++ bs)) ->
  (forall s c, f_tmp s = Some c ->
     exists s', step s (SClose Tmp) = Some s' /\ f_conf s' = f_conf s /\ f_tmp s' = Some c) ->
  (forall s c, f_tmp s = Some c -> exists s', step s (SRename Tmp Conf) = Some s' /\ f_conf s' = Some c) ->
  forall (new : pmap) (chunks : list str) (k : nat) (s : fs),
  sorted new -> map_ok new -> concat chunks = save_bytes new ->
  exists s', fs_run step (firstn k (script_of_chunks chunks)) s = Some s' /\
    (f_conf s' = f_conf s \/ ((length chunks + 3 <= k)%nat /\ f_conf s' = Some (save_bytes new))) /\
    (restart s' = restart s \/ restart s' = new).
Proof.
  intros H1 H2 H3 H4 new chunks k s Hs Hok Hc.
  destruct (crash_file step H1 H2 H3 H4 chunks k s) as (s' & R & [[_ E]|[Hk E]]).
  - exists s'. split; [exact R|]. split; [left; exact E|left; apply restart_conf; exact E].
  - exists s'. split; [exact R|]. rewrite Hc in E. split; [right; split; assumption|].
    right. unfold restart, load_into. rewrite E. apply load_save; assumption.
Qed.
