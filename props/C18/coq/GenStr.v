(* REGENERATED from the source text of the repository on every run. Do not edit. *)
From Coq Require Import NArith List.
Import ListNotations.
Local Open Scope N_scope.
Definition G_s_pval : list N := [95; 112; 114; 105; 111; 114; 105; 116; 121; 95; 118; 97; 108; 117; 101].
Definition G_s_pmode : list N := [95; 112; 114; 105; 111; 114; 105; 116; 121; 95; 109; 111; 100; 101].
Definition G_s_portprefs : list N := [112; 111; 114; 116].
Definition G_s_uni : list N := [117; 110; 105; 95].
Definition G_s_name : list N := [95; 110; 97; 109; 101].
Definition G_s_merge : list N := [95; 109; 101; 114; 103; 101].
Definition G_s_HTP : list N := [72; 84; 80].
Definition G_s_HTP_restore : list N := [72; 84; 80].
Definition G_s_LTP : list N := [76; 84; 80].
Definition G_s_Universe : list N := [85; 110; 105; 118; 101; 114; 115; 101; 32].
Definition G_s_true : list N := [116; 114; 117; 101].
Definition G_s_false : list N := [102; 97; 108; 115; 101].
Definition G_separator : list N := [32; 61; 32].
Definition G_tmp_suffix : list N := [46; 116; 109; 112].
Definition G_comment_char : list N := [35].
Definition G_split_char : list N := [61].
Definition G_trim_chars : list N := [32; 10; 13; 9].
