From Coq Require Extraction.
From Coq Require Import ExtrOcamlBasic.
From OlaBase Require Import Bytes.
From C18 Require Import Model.
Extraction Language OCaml.
Extraction "model.ml" io_witness N.div_eucl
  set_value set_multiple_value remove_value get_value has_key get_multiple_value
  save_bytes load_bytes load_into restart save_script fs_step fs_run images_from crash_atomic_chk
  run_op dec uni_new save_universe restore_universe save_port restore_port
  set_priority_static set_priority_inherit save_script_enospc set_value_uint set_value_int set_multiple_value_uint set_value_bool get_value_bool script_close_failed script_rename_failed fd_balance.
