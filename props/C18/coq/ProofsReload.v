(* C18 proofs (wave 5): Load() on a long-lived store replaces the store by what the file holds, every
   time, whatever unsaved edits were made and however often it was loaded before. *)
From OlaBase Require Import Bytes.
From Coq Require Import Sorted.
From C18 Require Import Model ProofsStr ProofsLoad ProofsCrash.
Local Open Scope N_scope.

(* operations that only touch the store in memory *)
Definition is_edit (o : op) : Prop :=
  match o with OSet _ _ | OSetMulti _ _ | ORemove _ | OClear => True | _ => False end.

Lemma edits_keep_disk h : forall st,
  inv st -> Forall op_ok h -> Forall is_edit h ->
  exists st', run_ops st h = Done st' /\ inv st' /\ disk st' = disk st.
Proof.
  induction h as [|o h IH]; intros st Hi Hok He; cbn [run_ops].
  - exists st. auto.
  - inversion Hok as [|? ? Ho Hr]; subst. inversion He as [|? ? Eo Er]; subst.
    destruct (run_op_spec st o Hi Ho) as (st1 & E & Hi1 & Hc). rewrite E.
    assert (disk st1 = disk st) as Hd by (destruct o; try contradiction; exact Hc).
    destruct (IH st1 Hi1 Hr Er) as (st' & R & Hi' & Hd'). exists st'. split; [exact R|]. split; [exact Hi'|congruence].
Qed.

(* Load() does not depend on what the store held or on earlier loads: with a settings file present
   the store becomes exactly what the file loads as *)
Lemma load_replaces mem1 mem2 d b :
  f_conf d = Some b -> load_into mem1 d = load_bytes b /\ load_into mem1 d = load_into mem2 d.
Proof. intros H. unfold load_into. rewrite H. split; reflexivity. Qed.

(* save; any unsaved edits; load  =  the saved store.  And loading again, after further unsaved
   edits, gives the saved store again. *)
Lemma save_edit_load st h1 h2 :
  inv st -> Forall op_ok h1 -> Forall is_edit h1 -> Forall op_ok h2 -> Forall is_edit h2 ->
  exists st', run_ops st (OSave :: h1 ++ OLoad :: h2 ++ [OLoad]) = Done st' /\ inv st' /\
              mem st' = mem st /\ f_conf (disk st') = Some (save_bytes (mem st)).
Proof.
  intros Hi Hok1 He1 Hok2 He2. cbn [run_ops].
  destruct (run_op_spec st OSave Hi I) as (s1 & E1 & I1 & M1 & R1 & F1). rewrite E1.
  assert (forall s h, inv s -> Forall op_ok h -> Forall is_edit h ->
            restart (disk s) = mem st -> f_conf (disk s) = Some (save_bytes (mem st)) ->
            forall tail, exists s', run_ops s (h ++ OLoad :: tail) = run_ops s' tail /\ inv s' /\
              mem s' = mem st /\ restart (disk s') = mem st /\ f_conf (disk s') = Some (save_bytes (mem st))) as K.
  { intros s h Is Hok He Rs Fs tail.
    destruct (edits_keep_disk h s Is Hok He) as (s2 & R2 & I2 & D2).
    destruct (run_op_spec s2 OLoad I2 I) as (s3 & E3 & I3 & D3 & M3).
    exists s3. split.
    - clear - R2 E3. revert s R2. induction h as [|o h IH]; intros s R2; cbn [app run_ops] in *.
      + inversion R2; subst. rewrite E3. reflexivity.
      + destruct (run_op s o); [|discriminate]. apply IH. exact R2.
    - split; [exact I3|]. rewrite D3, D2. rewrite D2, Fs in M3. split; [congruence|]. split; assumption. }
  destruct (K s1 h1 I1 Hok1 He1 R1 F1 (h2 ++ [OLoad])) as (s2 & R2 & I2 & M2 & Rs2 & F2). rewrite R2.
  destruct (K s2 h2 I2 Hok2 He2 Rs2 F2 []) as (s3 & R3 & I3 & M3 & _ & F3). rewrite R3. cbn [run_ops].
  exists s3. auto.
Qed.
