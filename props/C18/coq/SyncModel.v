(* C18: FilePreferenceSaverThread as an explicit-schedule machine, N callers.
   Threads: M, one distinguished caller of SavePreferences / Synchronize; S, the saver thread running
   the SelectServer loop; and the ENVIRONMENT: any number of other threads that may, at any point of
   the schedule, call SavePreferences (CEnvSave m: a closure is appended to the executor's list) or
   Synchronize (CEnvSync: their own marker closure, IForeign, is appended; it refers to THEIR stack
   objects, never to M's).  When S reaches a foreign marker it locks / flags / signals / unlocks the
   other caller's objects: seen from M and the directory this is "S makes no progress for a while,
   then the closure is gone" - S not being scheduled, then one pop step.  Every caller is M in its
   own instance of this machine, with all the others as its environment, so the theorem proved for
   M holds for each of the N callers.
   Shared: the executor's incoming callback list (SelectServer::Execute pushes under
   m_incoming_mutex, the loop swaps the whole list out and runs it in order), and, for M's
   Synchronize in progress, its mutex, condition variable and flag (they live on Synchronize's
   stack: `alive` says whether that frame still exists).  A save is not one step: the saver makes
   one system call of the save script per step.  A schedule is a list of choices; a step that is
   not enabled (blocked on the mutex, blocked in wait, nothing to do) leaves the state unchanged.
   `fixed = true` is Synchronize / CompleteSynchronization with fixes/04 applied, `fixed = false`
   the code before it.  No proofs here. *)
From OlaBase Require Import Bytes.
From C18 Require Import Model.

Inductive item := ISave (m : pmap) | IMarker | IForeign.   (* queued closures *)
Inductive mop := MSave (m : pmap) | MSync.             (* what M calls: SavePreferences(m), Synchronize() *)
Inductive mpc_t :=
| MIdle        (* between calls *)
| MLocked      (* Synchronize: synchronize_mutex.Lock() done (fresh mutex), flag = false *)
| MPushed      (* m_ss.Execute(marker) done; at the loop test, holding the mutex *)
| MWaiting     (* inside pthread_cond_wait: mutex released, blocked *)
| MWoken       (* woken (signal or spurious), has to re-acquire the mutex *)
| MDoneSeen.   (* left the loop, holding the mutex; next: Unlock and return *)
Inductive spc_t :=
| SRun         (* SelectServer loop: swap the incoming list / run the next closure *)
| SSaving (m : pmap) (rest : list sys)
               (* inside SavePreferencesToFile for the closure's copy m; rest = system calls still to
                  make.  Any other thread can run between any two of them. *)
| SMLocked     (* CompleteSynchronization (M's marker): mutex->Lock() done *)
| SMSet        (* fixed: *complete = true done; old: mutex->Unlock() done.  next: Signal *)
| SMSignalled. (* fixed only: Signal done, next: Unlock *)
Inductive tid := TM | TS.
Inductive choice := CMain | CSaver | CSpurious | CEnvSave (m : pmap) | CEnvSync.

Record sst := mk {
  prog : list mop;
  mpc : mpc_t;
  spc : spc_t;
  queue : list item;
  batch : list item;
  mtx : option tid;
  done : bool;
  alive : bool;
  sdisk : fs;
  issued : list pmap;
  completed : list pmap;
  marked : list pmap;
  synclog : list (list pmap * list pmap * fs * list pmap);
  hazard : bool }.

Definition set_prog (x : list mop) (s : sst) : sst := mk x (mpc s) (spc s) (queue s) (batch s) (mtx s) (done s) (alive s) (sdisk s) (issued s) (completed s) (marked s) (synclog s) (hazard s).
Definition set_mpc (x : mpc_t) (s : sst) : sst := mk (prog s) x (spc s) (queue s) (batch s) (mtx s) (done s) (alive s) (sdisk s) (issued s) (completed s) (marked s) (synclog s) (hazard s).
Definition set_spc (x : spc_t) (s : sst) : sst := mk (prog s) (mpc s) x (queue s) (batch s) (mtx s) (done s) (alive s) (sdisk s) (issued s) (completed s) (marked s) (synclog s) (hazard s).
Definition set_queue (x : list item) (s : sst) : sst := mk (prog s) (mpc s) (spc s) x (batch s) (mtx s) (done s) (alive s) (sdisk s) (issued s) (completed s) (marked s) (synclog s) (hazard s).
Definition set_batch (x : list item) (s : sst) : sst := mk (prog s) (mpc s) (spc s) (queue s) x (mtx s) (done s) (alive s) (sdisk s) (issued s) (completed s) (marked s) (synclog s) (hazard s).
Definition set_mtx (x : option tid) (s : sst) : sst := mk (prog s) (mpc s) (spc s) (queue s) (batch s) x (done s) (alive s) (sdisk s) (issued s) (completed s) (marked s) (synclog s) (hazard s).
Definition set_done (x : bool) (s : sst) : sst := mk (prog s) (mpc s) (spc s) (queue s) (batch s) (mtx s) x (alive s) (sdisk s) (issued s) (completed s) (marked s) (synclog s) (hazard s).
Definition set_alive (x : bool) (s : sst) : sst := mk (prog s) (mpc s) (spc s) (queue s) (batch s) (mtx s) (done s) x (sdisk s) (issued s) (completed s) (marked s) (synclog s) (hazard s).
Definition set_sdisk (x : fs) (s : sst) : sst := mk (prog s) (mpc s) (spc s) (queue s) (batch s) (mtx s) (done s) (alive s) x (issued s) (completed s) (marked s) (synclog s) (hazard s).
Definition set_issued (x : list pmap) (s : sst) : sst := mk (prog s) (mpc s) (spc s) (queue s) (batch s) (mtx s) (done s) (alive s) (sdisk s) x (completed s) (marked s) (synclog s) (hazard s).
Definition set_completed (x : list pmap) (s : sst) : sst := mk (prog s) (mpc s) (spc s) (queue s) (batch s) (mtx s) (done s) (alive s) (sdisk s) (issued s) x (marked s) (synclog s) (hazard s).
Definition set_marked (x : list pmap) (s : sst) : sst := mk (prog s) (mpc s) (spc s) (queue s) (batch s) (mtx s) (done s) (alive s) (sdisk s) (issued s) (completed s) x (synclog s) (hazard s).
Definition set_synclog (x : list (list pmap * list pmap * fs * list pmap)) (s : sst) : sst := mk (prog s) (mpc s) (spc s) (queue s) (batch s) (mtx s) (done s) (alive s) (sdisk s) (issued s) (completed s) (marked s) x (hazard s).
Definition set_hazard (x : bool) (s : sst) : sst := mk (prog s) (mpc s) (spc s) (queue s) (batch s) (mtx s) (done s) (alive s) (sdisk s) (issued s) (completed s) (marked s) (synclog s) x.

Definition init (p : list mop) (d : fs) : sst :=
  mk p MIdle SRun [] [] None false false d [] [] [] [] false.

(* the save in progress, if any *)
Definition cur (s : sst) : list pmap := match spc s with SSaving m _ => [m] | _ => [] end.

(* M's next atomic step *)
Definition main_step (fixed : bool) (s : sst) : sst :=
  match mpc s with
  | MIdle =>
    match prog s with
    | [] => s
    | MSave m :: r =>       (* SavePreferences: copy the map, Execute(closure) *)
      set_prog r (set_queue (queue s ++ [ISave m]) (set_issued (issued s ++ [m]) s))
    | MSync :: r =>         (* Synchronize: new mutex / cond / flag on the stack; Lock() *)
      set_prog r (set_mpc MLocked (set_mtx (Some TM) (set_done false (set_alive true s))))
    end
  | MLocked =>              (* m_ss.Execute(marker).  ghost: every save queued so far, by anybody *)
    set_mpc MPushed (set_queue (queue s ++ [IMarker]) (set_marked (issued s) s))
  | MPushed =>
    if fixed && done s then set_mpc MDoneSeen s      (* while (!complete) *)
    else set_mpc MWaiting (set_mtx None s)           (* pthread_cond_wait: release + block *)
  | MWaiting => s
  | MWoken =>
    match mtx s with
    | None => set_mtx (Some TM) (set_mpc (if fixed then MPushed else MDoneSeen) s)
    | Some _ => s                                    (* blocked on the mutex *)
    end
  | MDoneSeen =>            (* (fixed: Unlock;) return: the stack objects are destroyed *)
    set_mpc MIdle (set_alive false
      (set_synclog (synclog s ++ [(marked s, completed s, sdisk s, cur s)])
         (if fixed then set_mtx None s else s)))
  end.

(* S's next atomic step.  Touching the mutex / cond / flag of a Synchronize that has returned is
   the hazard (use of destroyed stack objects). *)
Definition saver_step (fixed : bool) (s : sst) : sst :=
  match spc s with
  | SRun =>
    match batch s with
    | [] => set_batch (queue s) (set_queue [] s)       (* callbacks_to_run.swap(m_incoming_callbacks) *)
    | ISave m :: r =>                                  (* the closure is taken off the list and started *)
      set_batch r (set_spc (SSaving m (save_script m)) s)
    | IForeign :: r => set_batch r s                   (* another caller's marker: its objects, not M's *)
    | IMarker :: r =>                                  (* CompleteSynchronization: mutex->Lock() *)
      if alive s then
        match mtx s with
        | None => set_batch r (set_spc SMLocked (set_mtx (Some TS) s))
        | Some _ => s
        end
      else set_hazard true s
    end
  | SSaving m rest =>                                  (* SavePreferencesToFile, one system call per step *)
    match rest with
    | [] => set_spc SRun (set_completed (completed s ++ [m]) s)      (* returned: this save is complete *)
    | c :: rest' =>
      match fs_step (sdisk s) c with
      | Some d => set_spc (SSaving m rest') (set_sdisk d s)
      | None => set_hazard true s
      end
    end
  | SMLocked =>
    if alive s then
      if fixed then set_spc SMSet (set_done true s) else set_spc SMSet (set_mtx None s)
    else set_hazard true s
  | SMSet =>                                           (* condition->Signal() *)
    if alive s then
      set_spc (if fixed then SMSignalled else SRun)
        (match mpc s with MWaiting => set_mpc MWoken s | _ => s end)
    else set_hazard true s
  | SMSignalled =>                                     (* mutex->Unlock() *)
    if alive s then set_spc SRun (set_mtx None s) else set_hazard true s
  end.

Definition spurious_step (s : sst) : sst :=
  match mpc s with MWaiting => set_mpc MWoken s | _ => s end.

(* the other callers *)
Definition env_save (m : pmap) (s : sst) : sst :=
  set_queue (queue s ++ [ISave m]) (set_issued (issued s ++ [m]) s).
Definition env_sync (s : sst) : sst := set_queue (queue s ++ [IForeign]) s.

Definition step (fixed : bool) (s : sst) (c : choice) : sst :=
  if hazard s then s else
  match c with
  | CMain => main_step fixed s
  | CSaver => saver_step fixed s
  | CSpurious => spurious_step s
  | CEnvSave m => env_save m s
  | CEnvSync => env_sync s
  end.
Definition run (fixed : bool) (sched : list choice) (s : sst) : sst := fold_left (step fixed) sched s.
