(* C18 model driver.  payload: ops separated by blanks, see prop.py.  Prints the same keys as
   harness.cpp after every operation, plus class= (input class of the case). *)
(* The extracted functions recurse once per byte (List.app, split_lines, find_eq ...): for settings
   files of a megabyte the driver re-runs itself with an unlimited stack.  Bytes are shared values
   (one N per byte value) so that a 1 MB string is a list of 1 M cells, not 1 M numbers. *)
let () =
  if (try Sys.getenv "C18_BIGSTACK" with Not_found -> "") <> "1" then
    exit (Sys.command (Printf.sprintf "ulimit -s unlimited 2>/dev/null || ulimit -s 1000000 2>/dev/null; C18_BIGSTACK=1 exec %s %s"
                         (Filename.quote Sys.executable_name) (Filename.quote Sys.argv.(1))))
let ntab = Array.init 256 n_of_int
let bytes_of_hex (s : string) : n list =
  if s = "-" then [] else begin
    let l = ref [] in
    for i = String.length s / 2 - 1 downto 0 do
      l := ntab.(hexdigit s.[2*i] * 16 + hexdigit s.[2*i+1]) :: !l
    done; !l end
let hex_of_bytes (l : n list) : string =
  if l = [] then "-" else begin
    let b = Buffer.create 4096 in
    let dg = "0123456789abcdef" in
    List.iter (fun x -> let v = int_of_n x land 255 in Buffer.add_char b dg.[v lsr 4]; Buffer.add_char b dg.[v land 15]) l;
    Buffer.contents b end
let hx (s : n list) = hex_of_bytes s
(* a store with a key or value of 1000 bytes or more: libstdc++ no longer issues one write per line,
   so the per-call keys are printed under names the comparison ignores (both sides use this rule) *)
let big (m : (n list * n list) list) = List.exists (fun (k, v) -> List.compare_length_with k 1000 >= 0 || List.compare_length_with v 1000 >= 0) m
let dump (m : (n list * n list) list) : string =
  if m = [] then "-" else String.concat "," (List.map (fun (k, v) -> hx k ^ ":" ^ hx v) m)
let file_s (f : n list option) = match f with None -> "!" | Some b -> hx b
let image_s (i : fs option) = match i with
  | None -> "?hazard"
  | Some s -> (match s.f_conf with None -> "!" | Some b -> dump (load_bytes b))
let call_c (c : sys) = match c with
  | SOpenTrunc Conf -> "O" | SOpenTrunc Tmp -> "o" | SWrite (Conf, _) -> "W" | SWrite (Tmp, _) -> "w"
  | SClose Conf -> "C" | SClose Tmp -> "c" | SRename (_, _) -> "R" | SWriteFail _ -> "x" | SUnlink _ -> "U"

let st0 = { mem = []; disk = { f_conf = None; f_tmp = None } }

(* keys printed for a step that saves the current memory map *)
let save_keys (n : string) (before : state) (after : state) : string =
  let script = save_script before.mem in
  let imgs = images_from script before.disk in
  let atomic = crash_atomic_chk (restart before.disk) before.mem imgs in
  (* y: the settings file at the moment Synchronize() returns = after the complete script *)
  let at_return = match fs_run fs_step script before.disk with Some d -> file_s d.f_conf | None -> "?hazard" in
  (* d: descriptors open at quiescence relative to the start of the case: what the script leaves open *)
  Printf.sprintf ";d%s=%d" n (int_of_z (fd_balance script Z0)) ^
  if big before.mem then
    Printf.sprintf ";y%s=%s;f%s=%s;t%s=%s;a%s=%s" n at_return n (file_s after.disk.f_conf) n (file_s after.disk.f_tmp) n (bool01 atomic)
  else
  Printf.sprintf ";y%s=%s;f%s=%s;t%s=%s;c%s=%s;i%s=%s;a%s=%s" n at_return n (file_s after.disk.f_conf) n (file_s after.disk.f_tmp)
    n (String.concat "" (List.map call_c script)) n (String.concat "|" (List.map image_s imgs))
    n (bool01 atomic)

let step (st : state) (o : op) : state =
  match run_op st o with Done s -> s | FsHazard -> failwith "fs-hazard"

let fresh_ports () =
  [ { p_cap = CapStatic; p_uni = None; p_prio = n_of_int 100; p_static = true };
    { p_cap = CapFull; p_uni = None; p_prio = n_of_int 100; p_static = true };
    { p_cap = CapNone; p_uni = None; p_prio = n_of_int 100; p_static = false };
    { p_cap = CapFull; p_uni = None; p_prio = n_of_int 100; p_static = false } ]
let port_suffix = [ "-I-1"; "-I-2"; "-O-1"; "-O-2" ]
let str_of_string (s : string) : n list = List.init (String.length s) (fun i -> n_of_int (Char.code s.[i]))
let port_s (r : restored) = match r with
  | RUnmodelled -> "?unmodelled"
  | RPort p -> (match p.p_uni with None -> "n" | Some u -> string_of_n u) ^ "/" ^ string_of_n p.p_prio ^ "/" ^
               (if p.p_static then "s" else "i")
let port_act (p : port) (act : string) : port =
  match String.split_on_char '/' act with
  | [u; pr; md] ->
    (* PatchPort / UnPatchPort on a device that allows looping and multi-port patching *)
    let p = if u = "n" then { p with p_uni = None } else if u = "k" then p else { p with p_uni = Some (n_of_string u) } in
    let p = if pr = "k" then p else set_priority_static (n_of_int (ios pr land 255)) p in
    if md = "i" then set_priority_inherit p else p
  | _ -> failwith "bad port action"

let known = ref false
let loads = ref 0
let classes = ref []
let cls c = if not (List.mem c !classes) then classes := c :: !classes
let has_byte b (s : n list) = List.exists (fun x -> int_of_n x = b) s

let handle (payload : string) : string =
  classes := [];
  known := false;
  loads := 0;
  let st = ref st0 in
  let out = ref [] in
  let emit s = out := s :: !out in
  List.iteri (fun i tok ->
    let n = string_of_int i in
    let a = String.split_on_char ':' tok in
    match a with
    | ["S"; k; v] | ["M"; k; v] ->
      let k = bytes_of_hex k and v = bytes_of_hex v in
      if has_byte 0x3d v then cls "val-eq";
      if has_byte 0x23 v then cls "val-hash";
      if v = [] then cls "val-empty";
      if k = [] then cls "key-empty";
      (let lk = List.length k and lv = List.length v in
       let l = max lk lv in
       if l >= 1000 then cls (if l < 4090 then "len<4090" else if l <= 4100 then "len-4090..4100" else if l < 8191 then "len<8191"
                              else if l <= 8193 then "len-8191..8193" else if l <= 65536 then "len<=64k" else "len~1M"));
      if List.hd a = "M" then cls "multi";
      st := step !st (if List.hd a = "S" then OSet (k, v) else OSetMulti (k, v));
      emit ("s" ^ n ^ "=" ^ dump !st.mem)
    | ["I"; k; v] -> cls "typed"; st := { !st with mem = set_value_uint (bytes_of_hex k) (n_of_string v) !st.mem }; emit ("s" ^ n ^ "=" ^ dump !st.mem)
    | ["J"; k; v] -> cls "typed"; st := { !st with mem = set_value_int (bytes_of_hex k) (z_of_int (ios v)) !st.mem }; emit ("s" ^ n ^ "=" ^ dump !st.mem)
    | ["N"; k; v] -> cls "typed"; st := { !st with mem = set_multiple_value_uint (bytes_of_hex k) (n_of_string v) !st.mem }; emit ("s" ^ n ^ "=" ^ dump !st.mem)
    | ["T"; k; v] -> cls "typed"; st := { !st with mem = set_value_bool (bytes_of_hex k) (v = "1") !st.mem }; emit ("s" ^ n ^ "=" ^ dump !st.mem)
    | ["b"; k] -> emit ("s" ^ n ^ "=" ^ (if get_value_bool (bytes_of_hex k) !st.mem then "b1" else "b0"))
    | ["R"; k] -> st := step !st (ORemove (bytes_of_hex k)); cls "remove"; emit ("s" ^ n ^ "=" ^ dump !st.mem)
    | ["C"] -> st := step !st OClear; emit ("s" ^ n ^ "=" ^ dump !st.mem)
    | ["G"; k] ->
      let k = bytes_of_hex k in
      let mv = get_multiple_value k !st.mem in
      emit (Printf.sprintf "s%s=%s/%s/%s" n (hx (get_value k !st.mem)) (bool01 (has_key k !st.mem))
              (if mv = [] then "none" else String.concat "," (List.map hx mv)))
    | ["V"] ->
      let before = !st in
      st := step !st OSave; cls "save";
      emit ("s" ^ n ^ "=" ^ dump !st.mem ^ save_keys n before !st)
    | ["Y"; k] ->
      (* spurious wake-ups of the thread in Synchronize() change nothing (c18_sync) *)
      let before = !st in
      st := step !st OSave; cls (if ios k = 0 then "sync" else "sync-spurious");
      emit ("s" ^ n ^ "=" ^ dump !st.mem ^ save_keys n before !st)
    | ["B"; k; items] ->
      (* burst of saves while the saver is held in a system call of the first one: whatever the
         interleaving, after Synchronize() each file holds its most recent save (c18_sync) *)
      cls (if ios k <= 1 then "burst-held-at-open" else "burst-held-later");
      let mem2 = ref [] and saved2 = ref false and atomic = ref true in
      List.iter (fun it ->
        match String.split_on_char ',' it with
        | [w; k'; v] ->
          let k' = bytes_of_hex k' and v = bytes_of_hex v in
          if w = "2" then begin cls "burst-two-files"; mem2 := set_value k' v !mem2; saved2 := true end
          else begin
            st := step !st (OSet (k', v));
            let before = !st in
            let imgs = images_from (save_script before.mem) before.disk in
            if not (crash_atomic_chk (restart before.disk) before.mem imgs) then atomic := false;
            st := step !st OSave
          end
        | _ -> failwith "bad burst item") (String.split_on_char '/' items);
      emit (Printf.sprintf "s%s=%s;y%s=%s;z%s=%s;a%s=%s" n (dump !st.mem) n (file_s !st.disk.f_conf)
              n (if !saved2 then hx (save_bytes !mem2) else "!") n (bool01 !atomic))
    | ["Wc"] | ["Wr"] ->
      let script = (if List.hd a = "Wc" then script_close_failed else script_rename_failed)
                     (List.map (fun (k, v) -> k @ str_of_string " = " @ v @ str_of_string "\n") !st.mem) in
      cls (if List.hd a = "Wc" then "close-fails" else "rename-fails");
      let imgs = images_from script !st.disk in
      let atomic = crash_atomic_chk (restart !st.disk) !st.mem imgs in
      let d = match fs_run fs_step script !st.disk with Some d -> d | None -> failwith "fs-hazard" in
      st := { !st with disk = d };
      emit (Printf.sprintf "s%s=%s;d%s=%d;y%s=%s;f%s=%s;t%s=%s;a%s=%s" n (dump !st.mem) n (int_of_z (fd_balance script Z0))
              n (file_s d.f_conf) n (file_s d.f_conf) n (file_s d.f_tmp) n (bool01 atomic))
    | ["Q"; rounds; k] ->
      (* many saves through the long-lived saver thread: every one leaves the file = the store and no
         descriptor behind (c18_repeated_saves) *)
      let rounds = ios rounds and k = bytes_of_hex k in
      cls (if rounds >= 100 then "repeat>=100" else "repeat<100");
      let held = ref Z0 in
      for j = 1 to rounds do
        st := step !st (OSet (k, str_of_string ("round-" ^ string_of_int j)));
        held := fd_balance (save_script !st.mem) !held;
        st := step !st OSave
      done;
      emit (Printf.sprintf "s%s=%s;q%s=0;d%s=%d;y%s=%s" n (dump !st.mem) n n (int_of_z !held) n (file_s !st.disk.f_conf))
    | ["W"; k] ->
      let k = ios k in
      let script = save_script_enospc !st.mem (nat_of_int k) in
      let lines = List.length !st.mem in
      cls (if k = 0 || k > lines then "write-ok" else if k = 1 then "enospc-first-write"
           else if k = lines then "enospc-last-write" else "enospc-mid");
      let imgs = images_from script !st.disk in
      let atomic = crash_atomic_chk (restart !st.disk) !st.mem imgs in
      let d = match fs_run fs_step script !st.disk with Some d -> d | None -> failwith "fs-hazard" in
      st := { !st with disk = d };
      emit (Printf.sprintf "s%s=%s;d%s=%d;y%s=%s;f%s=%s;t%s=%s;a%s=%s" n (dump !st.mem) n (int_of_z (fd_balance script Z0))
              n (file_s d.f_conf) n (file_s d.f_conf) n (file_s d.f_tmp) n (bool01 atomic))
    | ["X"; k] ->
      let before = !st in
      let total = List.length (save_script before.mem) in
      let k = ios k in
      cls (if k = 0 then "crash-before-open" else if k >= total then "crash-after-rename"
           else if k = total - 1 then "crash-before-rename" else if k = 1 then "crash-after-open" else "crash-mid-write");
      st := step !st (OCrashSave (nat_of_int k));
      emit ("s" ^ n ^ "=" ^ dump !st.mem ^ save_keys n before !st)
    | ["K"] -> cls "symlinked-file"; emit ("s" ^ n ^ "=" ^ dump !st.mem)
    | ["l"] | ["lf"] ->
      (* Load() / LoadFromFile() on the live object: the store becomes what the file holds, every time *)
      if !loads > 0 then cls "reload-same-object" else cls "load";
      incr loads;
      st := step !st OLoad; emit ("s" ^ n ^ "=" ^ dump !st.mem)
    | ["L"] -> st := step !st ORestart; cls "restart"; emit ("s" ^ n ^ "=" ^ dump !st.mem)
    | ["F"; b] ->
      cls "raw-file";
      st := { !st with disk = { !st.disk with f_conf = Some (bytes_of_hex b) } };
      emit ("s" ^ n ^ "=" ^ dump !st.mem)
    | ["U"; id; chg; name; htp] ->
      let id = n_of_string id in
      cls "universe";
      let u = restore_universe id !st.mem in
      let seen = hx u.u_name ^ "/" ^ bool01 u.u_htp in
      (* finding: a universe named "" is saved as such but comes back as "Universe <id>" *)
      if chg = "1" && bytes_of_hex name = [] then known := true;
      let u = if chg = "1" then { u_name = bytes_of_hex name; u_htp = (htp = "1") } else u in
      let before = { !st with mem = save_universe id u !st.mem } in
      st := step before OSave;
      emit ("u" ^ n ^ "=" ^ seen ^ ";s" ^ n ^ "=" ^ dump !st.mem ^ save_keys n before !st)
    | ["P"; dev; a1; a2; a3; a4] ->
      cls "port";
      st := step !st OLoad;
      let ids = List.map (fun sfx -> str_of_string "2-" @ bytes_of_hex dev @ str_of_string sfx) port_suffix in
      let rs = List.map2 (fun id p -> restore_port id !st.mem p) ids (fresh_ports ()) in
      let seen = String.concat "," (List.map port_s rs) in
      let ps = List.map2 (fun r act -> match r with RPort p -> port_act p act | RUnmodelled -> failwith "unmodelled")
          rs [a1; a2; a3; a4] in
      List.iter (fun p -> match p.p_uni with Some u when int_of_n (N.div u (n_of_int 65536)) >= 32768 -> cls "uni>=2^31" | _ -> ()) ps;
      let m = List.fold_left2 (fun m id p -> save_port id p m) !st.mem ids ps in
      let before = { !st with mem = m } in
      st := step before OSave;
      emit ("p" ^ n ^ "=" ^ seen ^ ";s" ^ n ^ "=" ^ dump !st.mem ^ save_keys n before !st)
    | _ -> emit ("s" ^ n ^ "=bad-op")
  ) (split payload);
  String.concat ";" (List.rev !out) ^ ";class=" ^
  (if !classes = [] then "plain" else String.concat "+" (List.sort compare !classes)) ^
  (if !known then ";known=C18-empty-universe-name" else "")

let () = vh_run handle
