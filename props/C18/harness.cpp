// C18 correspondence harness: the real FileBackedPreferences + FilePreferenceSaverThread, and the
// real UniverseStore / DeviceManager / PortManager on top of it, in a private directory.
// fopen/open/write/writev/close/fclose/rename/unlink/remove are interposed (definitions in this
// executable take precedence over libc for calls made from libstdc++ and from the OLA objects):
// after every call that touches the settings file or its temporary, the directory image
// (settings file + temporary) is captured.  Each image is what a process crash right after that
// system call leaves behind; it is then loaded by a fresh store.
#include <dlfcn.h>
#include <errno.h>
#include <fcntl.h>
#include <pthread.h>
#include <sched.h>
#include <semaphore.h>
#include <dirent.h>
#include <sys/resource.h>
#include <time.h>
#include <stdarg.h>
#include <sys/stat.h>
#include <sys/types.h>
#include <sys/uio.h>
#include <unistd.h>
#include <map>
#include <memory>
#include <set>
#include <string>
#include <vector>
#include "ola/Logging.h"
#include "olad/Preferences.h"
#include "olad/PortBroker.h"
#include "olad/Universe.h"
#include "olad/plugin_api/DeviceManager.h"
#include "olad/plugin_api/PortManager.h"
#include "olad/plugin_api/UniverseStore.h"
#include "olad/plugin_api/TestCommon.h"
#include "vh.h"

using std::string;
using std::vector;

// ------------------------------------------------------------------ interposition
static string g_dir, g_conf, g_tmp;
struct Img { bool has_conf, has_tmp; string conf, tmp; };
static vector<Img> g_imgs;
static string g_calls;
static bool g_capture = false;
static __thread int g_inside = 0;
// fd -> 'c' (settings file) or 't' (temporary), 0 = not ours.  A plain array: the interposers run on
// both threads at once (the caller's write to the wake-up pipe, the saver's file calls), a std::map
// here would be a data race inside the harness.
static volatile char g_fdkind[4096];
static inline bool fd_tracked(int fd) { return fd >= 0 && fd < 4096 && g_fdkind[fd]; }
static inline void fd_track(int fd, char w) { if (fd >= 0 && fd < 4096) g_fdkind[fd] = w; }
static inline char fd_untrack(int fd) { if (fd < 0 || fd >= 4096) return 0; char w = g_fdkind[fd]; g_fdkind[fd] = 0; return w; }
static inline void fd_clear() { for (int i = 0; i < 4096; i++) g_fdkind[i] = 0; }
static volatile int g_spurious = 0;     // number of spurious wake-ups still to inject into pthread_cond_wait
static volatile int g_spurious_seen = 0;
static volatile int g_slow_us = 0;      // the saver's open of the temporary takes this long (slow disk)
static volatile int g_fail_from = 0;    // writes to the settings file / temporary fail (ENOSPC) from this one on
static volatile int g_writes = 0;
static volatile int g_fail_close = 0, g_fail_rename = 0;   // the close / the rename of the next save fails (EIO)
// holding the saver thread inside the k-th file system call of a save (burst operation B)
static volatile int g_hold_at = 0, g_hold_count = 0;
static sem_t g_reached, g_release;

#define REAL(name) real_##name
#define RESOLVE(name) do { if (!REAL(name)) *(void**)(&REAL(name)) = dlsym(RTLD_NEXT, #name); } while (0)
static FILE *(*real_fopen)(const char*, const char*);
static FILE *(*real_fopen64)(const char*, const char*);
static int (*real_fclose)(FILE*);
static int (*real_open)(const char*, int, ...);
static int (*real_open64)(const char*, int, ...);
static int (*real_close)(int);
static ssize_t (*real_write)(int, const void*, size_t);
static ssize_t (*real_writev)(int, const struct iovec*, int);
static ssize_t (*real_read)(int, void*, size_t);
static int (*real_rename)(const char*, const char*);
static int (*real_unlink)(const char*);
static int (*real_remove)(const char*);

static bool slurp(const string &path, string *out) {
  RESOLVE(open); RESOLVE(read); RESOLVE(close);
  out->clear();
  int fd = real_open(path.c_str(), O_RDONLY);
  if (fd < 0) return false;
  char buf[4096];
  ssize_t n;
  while ((n = real_read(fd, buf, sizeof(buf))) > 0) out->append(buf, n);
  real_close(fd);
  return true;
}
static void spit(const string &path, bool exists, const string &data) {
  RESOLVE(open); RESOLVE(write); RESOLVE(close); RESOLVE(unlink);
  if (!exists) { real_unlink(path.c_str()); return; }
  int fd = real_open(path.c_str(), O_WRONLY | O_CREAT | O_TRUNC, 0644);
  if (fd < 0) { fprintf(stderr, "harness: cannot write %s\n", path.c_str()); abort(); }
  size_t off = 0;
  while (off < data.size()) {
    ssize_t n = real_write(fd, data.data() + off, data.size() - off);
    if (n <= 0) abort();
    off += n;
  }
  real_close(fd);
}
static Img snapshot() {
  Img i;
  i.has_conf = slurp(g_conf, &i.conf);
  i.has_tmp = slurp(g_tmp, &i.tmp);
  return i;
}
static void event(char kind) {
  if (!g_capture) return;
  g_inside++;
  g_calls.push_back(kind);
  g_imgs.push_back(snapshot());
  g_inside--;
  if (g_hold_at && ++g_hold_count == g_hold_at) {
    // the saver thread stays inside this call until the main thread has issued its next Save()s
    sem_post(&g_reached);
    sem_wait(&g_release);
  }
}
static char which(const char *path) {
  if (!path || g_conf.empty()) return 0;
  if (g_conf == path) return 'c';
  if (g_tmp == path) return 't';
  return 0;
}
static bool writing(int flags) { return (flags & O_ACCMODE) != O_RDONLY; }

extern "C" {
FILE *fopen(const char *path, const char *mode) {
  RESOLVE(fopen);
  FILE *f = real_fopen(path, mode);
  char w = g_inside ? 0 : which(path);
  if (f && w && mode && mode[0] != 'r') { fd_track(fileno(f), w); event(w == 'c' ? 'O' : 'o'); }
  return f;
}
FILE *fopen64(const char *path, const char *mode) {
  RESOLVE(fopen64);
  if (g_slow_us && !g_inside && which(path) && mode && mode[0] != 'r') usleep(g_slow_us);
  FILE *f = real_fopen64(path, mode);
  char w = g_inside ? 0 : which(path);
  if (f && w && mode && mode[0] != 'r') { fd_track(fileno(f), w); event(w == 'c' ? 'O' : 'o'); }
  return f;
}
int fclose(FILE *f) {
  RESOLVE(fclose);
  int fd = f ? fileno(f) : -1;
  char w = 0;
  if (!g_inside && fd_tracked(fd)) w = fd_untrack(fd);
  int r = real_fclose(f);
  if (w && g_fail_close && g_capture) { event('X'); errno = EIO; return EOF; }
  if (w) event(w == 'c' ? 'C' : 'c');
  return r;
}
int open(const char *path, int flags, ...) {
  RESOLVE(open);
  va_list ap; va_start(ap, flags); mode_t m = va_arg(ap, mode_t); va_end(ap);
  int fd = real_open(path, flags, m);
  char w = g_inside ? 0 : which(path);
  if (fd >= 0 && w && writing(flags)) { fd_track(fd, w); event(w == 'c' ? 'O' : 'o'); }
  return fd;
}
int open64(const char *path, int flags, ...) {
  RESOLVE(open64);
  va_list ap; va_start(ap, flags); mode_t m = va_arg(ap, mode_t); va_end(ap);
  int fd = real_open64(path, flags, m);
  char w = g_inside ? 0 : which(path);
  if (fd >= 0 && w && writing(flags)) { fd_track(fd, w); event(w == 'c' ? 'O' : 'o'); }
  return fd;
}
int close(int fd) {
  RESOLVE(close);
  char w = 0;
  if (!g_inside && g_capture && fd_tracked(fd)) w = fd_untrack(fd);
  int r = real_close(fd);
  if (w) event(w == 'c' ? 'C' : 'c');
  return r;
}
static bool fail_this_write(int fd) {
  if (g_inside || !g_capture || !g_fail_from || !fd_tracked(fd)) return false;
  g_writes++;
  if (g_writes < g_fail_from) return false;
  event('x');
  errno = ENOSPC;
  return true;
}
ssize_t write(int fd, const void *buf, size_t n) {
  RESOLVE(write);
  if (fail_this_write(fd)) return -1;
  ssize_t r = real_write(fd, buf, n);
  if (!g_inside && g_capture && fd_tracked(fd)) event(g_fdkind[fd] == 'c' ? 'W' : 'w');
  return r;
}
ssize_t writev(int fd, const struct iovec *iov, int cnt) {
  RESOLVE(writev);
  if (fail_this_write(fd)) return -1;
  ssize_t r = real_writev(fd, iov, cnt);
  if (!g_inside && g_capture && fd_tracked(fd)) event(g_fdkind[fd] == 'c' ? 'W' : 'w');
  return r;
}
int rename(const char *a, const char *b) {
  RESOLVE(rename);
  if (!g_inside && g_fail_rename && g_capture && (which(a) || which(b))) { event('x'); errno = EIO; return -1; }
  int r = real_rename(a, b);
  if (!g_inside && (which(a) || which(b))) event('R');
  return r;
}
int unlink(const char *p) {
  RESOLVE(unlink);
  int r = real_unlink(p);
  if (!g_inside && which(p)) event('U');
  return r;
}
int remove(const char *p) {
  RESOLVE(remove);
  int r = real_remove(p);
  if (!g_inside && which(p)) event('U');
  return r;
}
// ld --wrap=pthread_cond_wait: a spurious wake-up is a return of pthread_cond_wait without a
// signal, with the mutex released and re-acquired (POSIX allows it at any time).
int __real_pthread_cond_wait(pthread_cond_t *c, pthread_mutex_t *m);
int __wrap_pthread_cond_wait(pthread_cond_t *c, pthread_mutex_t *m) {
  if (g_spurious > 0) {
    g_spurious--;
    g_spurious_seen++;
    pthread_mutex_unlock(m);
    sched_yield();
    pthread_mutex_lock(m);
    return 0;
  }
  return __real_pthread_cond_wait(c, m);
}
// ld --wrap=pthread_cond_signal: in the Y operations the signalling thread is descheduled right
// after the signal, so that the woken thread runs first (exposes a flag set after the signal, or
// stack objects used after the waiter was released).
int __real_pthread_cond_signal(pthread_cond_t *c);
int __wrap_pthread_cond_signal(pthread_cond_t *c) {
  int r = __real_pthread_cond_signal(c);
  if (g_slow_us) usleep(g_slow_us);
  return r;
}
}  // extern "C"

// number of open descriptors of this process (the descriptor used for counting excluded)
static int open_fds() {
  g_inside++;
  int n = 0;
  DIR *d = opendir("/proc/self/fd");
  if (d) {
    while (readdir(d)) n++;
    closedir(d);
    n -= 3;   // ".", "..", the directory stream itself
  }
  g_inside--;
  return n;
}
static int g_fd_baseline = 0;

// ------------------------------------------------------------------ the store
class Store : public ola::FileBackedPreferences {
 public:
  Store(const string &dir, const string &name, ola::FilePreferenceSaverThread *saver)
      : ola::FileBackedPreferences(dir, name, saver) {}
  // a key or value of 1000 bytes or more (see driver.ml: per-call keys are then not compared)
  bool Big() const {
    for (PreferencesMap::const_iterator it = m_pref_map.begin(); it != m_pref_map.end(); ++it)
      if (it->first.size() >= 1000 || it->second.size() >= 1000) return true;
    return false;
  }
  string Dump() const {
    if (m_pref_map.empty()) return "-";
    string s;
    for (PreferencesMap::const_iterator it = m_pref_map.begin(); it != m_pref_map.end(); ++it) {
      if (!s.empty()) s += ",";
      s += vh::hex(it->first) + ":" + vh::hex(it->second);
    }
    return s;
  }
};

class Factory : public ola::PreferencesFactory {
 public:
  Factory(const string &dir, ola::FilePreferenceSaverThread *saver) : m_dir(dir), m_saver(saver) {}
  string ConfigLocation() const { return m_dir; }
 private:
  string m_dir;
  ola::FilePreferenceSaverThread *m_saver;
  ola::Preferences *Create(const string &name) { return new Store(m_dir, name, m_saver); }
};

static ola::FilePreferenceSaverThread *g_saver = NULL;
static Factory *g_factory = NULL;
static Store *g_store = NULL;
static const char PREF_NAME[] = "port";   // DeviceManager asks its factory for "port"

// a new process: nothing in memory survives, the store is created and Load()ed as olad does
static void new_process() {
  delete g_factory;
  g_factory = new Factory(g_dir, g_saver);
  g_store = static_cast<Store*>(g_factory->NewPreference(PREF_NAME));
  g_store->Load();
}

static string bytes(const string &h) {
  vector<uint8_t> v = vh::unhex(h);
  return string(v.begin(), v.end());
}

// what a fresh store holds after Load() in a directory with this image
static string load_image(const Img &img, const string &scratch_dir) {
  string conf = scratch_dir + "/ola-" + PREF_NAME + ".conf";
  g_inside++;
  spit(conf, img.has_conf, img.conf);
  g_inside--;
  Store fresh(scratch_dir, PREF_NAME, NULL);
  bool ok = fresh.Load();
  if (!img.has_conf) return ok ? "?loaded-missing" : "!";
  return ok ? fresh.Dump() : "?load-failed";
}
static string dump_of_image(const Img &img, const string &scratch_dir) {
  string d = load_image(img, scratch_dir);
  return d == "!" ? "-" : d;
}

struct SaveReport { string calls, images; bool atomic; vector<Img> imgs; Img at_return; bool big; int fd_delta; };

// run `act` (something that ends with a Save()) with capture on, then Synchronize()
template <typename F>
static SaveReport captured_save(F act) {
  g_imgs.clear();
  g_calls.clear();
  fd_clear();
  g_imgs.push_back(snapshot());        // image 0: before the first call
  const bool big = g_store->Big();
  g_capture = true;
  act();
  g_saver->Synchronize();
  SaveReport r;
  g_inside++;
  r.at_return = snapshot();            // the directory at the moment Synchronize() returns
  g_inside--;
  if (g_spurious_seen) usleep(20000);  // (a saver still running after a premature return settles)
  g_capture = false;
  r.fd_delta = open_fds() - g_fd_baseline;   // descriptors open at quiescence, relative to the start of the case
  r.big = big;
  r.calls = g_calls.empty() ? "-" : g_calls;
  r.imgs = g_imgs;
  string scratch = g_dir + "/img";
  string now = g_store->Dump();
  string old = dump_of_image(r.imgs[0], scratch);
  r.atomic = true;
  for (size_t i = 0; i < r.imgs.size(); i++) {
    string d = load_image(r.imgs[i], scratch);
    if (!big) {
      if (i) r.images += "|";
      r.images += d;
    }
    string dd = d == "!" ? "-" : d;
    if (dd != old && dd != now) r.atomic = false;
  }
  return r;
}

static string file_s(bool exists, const string &data) { return exists ? vh::hex(data) : "!"; }

static void set_directory(const Img &img) {
  g_inside++;
  spit(g_conf, img.has_conf, img.conf);
  spit(g_tmp, img.has_tmp, img.tmp);
  g_inside--;
}

static string save_keys(const string &n, const SaveReport &r, const Img &final_img) {
  return ";d" + n + "=" + vh::str(r.fd_delta) + ";y" + n + "=" + file_s(r.at_return.has_conf, r.at_return.conf) + ";f" + n + "=" + file_s(final_img.has_conf, final_img.conf) +
         ";t" + n + "=" + file_s(final_img.has_tmp, final_img.tmp) +
         (r.big ? ";xc" + n + "=" + r.calls : ";c" + n + "=" + r.calls + ";i" + n + "=" + r.images) +
         ";a" + n + "=" + (r.atomic ? "1" : "0");
}

struct PlainSave { void operator()() const { g_store->Save(); } };

// ------------------------------------------------------------------ universe / port operations
struct UniverseTeardown {
  ola::UniverseStore *us;
  void operator()() const { us->DeleteAll(); }
};
struct ManagerTeardown {
  ola::DeviceManager **mgr;
  void operator()() const { delete *mgr; *mgr = NULL; }
};

template <class PortT>
static string port_s(PortT *p) {
  string u = p->GetUniverse() ? vh::str(p->GetUniverse()->UniverseId()) : "n";
  return u + "/" + vh::str(static_cast<int>(p->GetPriority())) + "/" +
         (p->GetPriorityMode() == ola::PRIORITY_MODE_STATIC ? "s" : "i");
}
template <class PortT>
static void port_act(ola::PortManager *pm, PortT *p, const string &act) {
  vector<string> a = vh::split(act, '/');
  if (a[0] == "n") pm->UnPatchPort(p);
  else if (a[0] != "k") pm->PatchPort(p, static_cast<unsigned int>(vh::num(a[0])));
  if (a[1] != "k") pm->SetPriorityStatic(p, static_cast<uint8_t>(vh::num(a[1])));
  if (a[2] == "i") pm->SetPriorityInherit(p);
}

// ------------------------------------------------------------------ cases
static string handle(const string &payload) {
  // every case starts from an empty directory and a new process
  g_inside++;
  RESOLVE(unlink);
  real_unlink((g_dir + "/real-settings").c_str());
  spit(g_conf, false, "");
  spit(g_tmp, false, "");
  g_inside--;
  new_process();
  g_fd_baseline = open_fds();
  string out;
  vector<string> ops = vh::split(payload);
  for (size_t i = 0; i < ops.size(); i++) {
    vector<string> a = vh::split(ops[i], ':');
    const string n = vh::str(i);
    const string &op = a[0];
    if (!out.empty()) out += ";";
    if (op == "S") {
      g_store->SetValue(bytes(a[1]), bytes(a[2]));
      out += "s" + n + "=" + g_store->Dump();
    } else if (op == "M") {
      g_store->SetMultipleValue(bytes(a[1]), bytes(a[2]));
      out += "s" + n + "=" + g_store->Dump();
    } else if (op == "I") {          // SetValue(key, unsigned int)
      g_store->SetValue(bytes(a[1]), static_cast<unsigned int>(vh::num(a[2])));
      out += "s" + n + "=" + g_store->Dump();
    } else if (op == "J") {          // SetValue(key, int)
      g_store->SetValue(bytes(a[1]), static_cast<int>(vh::snum(a[2])));
      out += "s" + n + "=" + g_store->Dump();
    } else if (op == "N") {          // SetMultipleValue(key, unsigned int)
      g_store->SetMultipleValue(bytes(a[1]), static_cast<unsigned int>(vh::num(a[2])));
      out += "s" + n + "=" + g_store->Dump();
    } else if (op == "T") {          // SetValueAsBool
      g_store->SetValueAsBool(bytes(a[1]), a[2] == "1");
      out += "s" + n + "=" + g_store->Dump();
    } else if (op == "b") {          // GetValueAsBool
      out += "s" + n + "=" + (g_store->GetValueAsBool(bytes(a[1])) ? "b1" : "b0");
    } else if (op == "R") {
      g_store->RemoveValue(bytes(a[1]));
      out += "s" + n + "=" + g_store->Dump();
    } else if (op == "C") {
      g_store->Clear();
      out += "s" + n + "=" + g_store->Dump();
    } else if (op == "G") {
      string k = bytes(a[1]);
      vector<string> mv = g_store->GetMultipleValue(k);
      string m;
      for (size_t j = 0; j < mv.size(); j++) m += (j ? "," : "") + vh::hex(mv[j]);
      if (mv.empty()) m = "none";
      out += "s" + n + "=" + vh::hex(g_store->GetValue(k)) + "/" + (g_store->HasKey(k) ? "1" : "0") + "/" + m;
    } else if (op == "V" || op == "X") {
      SaveReport r = captured_save(PlainSave());
      Img fin = r.imgs.back();
      if (op == "X") {
        size_t k = vh::num(a[1]);
        if (k >= r.imgs.size()) k = r.imgs.size() - 1;
        fin = r.imgs[k];
        set_directory(fin);        // the directory as the crash after k calls leaves it
        new_process();
      }
      out += "s" + n + "=" + g_store->Dump() + save_keys(n, r, fin);
    } else if (op == "Y") {
      // Y:<n>  save + Synchronize() with n spurious wake-ups of the waiting thread and a slow disk
      g_spurious_seen = 0;
      g_spurious = vh::num(a[1]);
      g_slow_us = 3000;
      SaveReport r = captured_save(PlainSave());
      g_spurious = 0;
      g_slow_us = 0;
      out += "s" + n + "=" + g_store->Dump() + save_keys(n, r, r.imgs.back());
    } else if (op == "B") {
      // B:<k>:<which>,<key>,<value>/...  a burst of SetValue+Save() on store 1 ("port") or store 2
      // ("other", same saver thread).  The saver thread is held inside the k-th file system call of
      // the first save (store 1) until every Save() of the burst has been issued; then it is
      // released and Synchronize() is called.  Both files must then hold the most recent save.
      Store *store2 = static_cast<Store*>(g_factory->NewPreference("other"));
      store2->Clear();
      const string conf2 = g_dir + "/ola-other.conf";
      g_inside++;
      spit(conf2, false, "");
      spit(conf2 + ".tmp", false, "");
      g_inside--;
      vector<string> items = vh::split(a[2], '/');
      g_imgs.clear(); g_calls.clear(); fd_clear();
      g_imgs.push_back(snapshot());
      string scratch = g_dir + "/img";
      std::set<string> allowed;
      allowed.insert(dump_of_image(g_imgs[0], scratch));
      g_hold_count = 0;
      g_hold_at = vh::num(a[1]);
      g_capture = true;
      bool held = false, saved2 = false;
      for (size_t j = 0; j < items.size(); j++) {
        vector<string> it = vh::split(items[j], ',');
        Store *st = it[0] == "2" ? store2 : g_store;
        st->SetValue(bytes(it[1]), bytes(it[2]));
        st->Save();
        if (st == g_store) allowed.insert(g_store->Dump()); else saved2 = true;
        if (j == 0 && g_hold_at) {
          struct timespec ts;
          clock_gettime(CLOCK_REALTIME, &ts);
          ts.tv_sec += 3;
          held = sem_timedwait(&g_reached, &ts) == 0;   // (times out only if the save has fewer calls than k)
        }
      }
      g_hold_at = 0;
      if (held) sem_post(&g_release);
      g_saver->Synchronize();
      g_inside++;
      Img at_return = snapshot();
      string file2;
      bool has2 = slurp(conf2, &file2);
      g_inside--;
      g_capture = false;
      bool atomic = true;
      string images;
      for (size_t j = 0; j < g_imgs.size(); j++) {
        string d = load_image(g_imgs[j], scratch);
        images += (j ? "|" : "") + d;
        if (!allowed.count(d == "!" ? "-" : d)) atomic = false;
      }
      out += "s" + n + "=" + g_store->Dump() + ";y" + n + "=" + file_s(at_return.has_conf, at_return.conf) +
             ";z" + n + "=" + file_s(has2, file2) + ";a" + n + "=" + (atomic ? "1" : "0") +
             ";xc" + n + "=" + (g_calls.empty() ? "-" : g_calls) + (held ? "" : "!nohold") + ";xi" + n + "=" + images;
      (void) saved2;
    } else if (op == "Q") {
      // Q:<n>:<key>  n rounds of SetValue(key, round) + Save() + Synchronize() on the long-lived saver
      // thread, with the descriptor limit lowered to what is open now + 24 (a daemon runs for months:
      // whatever a save leaks, it will run out of).  After every round the file must load as the store.
      unsigned rounds = vh::num(a[1]);
      string key = bytes(a[2]);
      struct rlimit old_lim, low;
      getrlimit(RLIMIT_NOFILE, &old_lim);
      low = old_lim;
      low.rlim_cur = open_fds() + 24;
      setrlimit(RLIMIT_NOFILE, &low);
      unsigned stale = 0, first_stale = 0;
      int fd_before = open_fds();
      string scratch = g_dir + "/img";
      for (unsigned j = 1; j <= rounds; j++) {
        g_store->SetValue(key, "round-" + vh::str(j));
        g_store->Save();
        g_saver->Synchronize();
        g_inside++;
        string data;
        bool has = slurp(g_conf, &data);
        g_inside--;
        // compare the bytes (no descriptor needed beyond the one slurp used): the file is the store's save
        bool ok = has;
        if (ok) {
          Img img; img.has_conf = true; img.conf = data; img.has_tmp = false;
          setrlimit(RLIMIT_NOFILE, &old_lim);           // the comparison itself may use descriptors freely
          ok = load_image(img, scratch) == g_store->Dump();
          setrlimit(RLIMIT_NOFILE, &low);
        }
        if (!ok) { if (!stale) first_stale = j; stale++; }
      }
      int fd_after = open_fds();
      setrlimit(RLIMIT_NOFILE, &old_lim);
      g_inside++;
      Img fin = snapshot();
      g_inside--;
      out += "s" + n + "=" + g_store->Dump() + ";q" + n + "=" + vh::str(stale) + (stale ? "@" + vh::str(first_stale) : "") +
             ";d" + n + "=" + vh::str(fd_after - fd_before) + ";y" + n + "=" + file_s(fin.has_conf, fin.conf);
    } else if (op == "Wc" || op == "Wr") {
      // a save during which close() (Wc) or rename() (Wr) fails
      (op == "Wc" ? g_fail_close : g_fail_rename) = 1;
      SaveReport r = captured_save(PlainSave());
      g_fail_close = g_fail_rename = 0;
      Img fin = r.imgs.back();
      out += "s" + n + "=" + g_store->Dump() + ";d" + n + "=" + vh::str(r.fd_delta) + ";y" + n + "=" + file_s(r.at_return.has_conf, r.at_return.conf) +
             ";f" + n + "=" + file_s(fin.has_conf, fin.conf) + ";t" + n + "=" + file_s(fin.has_tmp, fin.tmp) +
             ";xc" + n + "=" + r.calls + ";xi" + n + "=" + r.images + ";a" + n + "=" + (r.atomic ? "1" : "0");
    } else if (op == "W") {
      // W:<k>  save during which every write from the k-th on fails with ENOSPC
      g_writes = 0;
      g_fail_from = vh::num(a[1]);
      SaveReport r = captured_save(PlainSave());
      g_fail_from = 0;
      Img fin = r.imgs.back();
      out += "s" + n + "=" + g_store->Dump() + ";d" + n + "=" + vh::str(r.fd_delta) + ";y" + n + "=" + file_s(r.at_return.has_conf, r.at_return.conf) +
             ";f" + n + "=" + file_s(fin.has_conf, fin.conf) + ";t" + n + "=" + file_s(fin.has_tmp, fin.tmp) +
             ";xc" + n + "=" + r.calls + ";xi" + n + "=" + r.images + ";a" + n + "=" + (r.atomic ? "1" : "0");
    } else if (op == "K") {
      // the settings file becomes a symbolic link to a file elsewhere in the directory (an
      // administrator keeps the real file under version control); nothing else changes
      g_inside++;
      RESOLVE(unlink);
      string data;
      bool has = slurp(g_conf, &data);
      const string real = g_dir + "/real-settings";
      real_unlink(g_conf.c_str());
      spit(real, true, has ? data : "");
      if (symlink("real-settings", g_conf.c_str()) != 0) abort();
      if (!has) real_unlink(real.c_str());    // dangling link = no settings file
      g_inside--;
      out += "s" + n + "=" + g_store->Dump();
    } else if (op == "lf") {
      // the other public loader, on the live object
      g_store->LoadFromFile(g_conf);
      out += "s" + n + "=" + g_store->Dump();
    } else if (op == "l") {
      g_store->Load();
      out += "s" + n + "=" + g_store->Dump();
    } else if (op == "L") {
      new_process();
      out += "s" + n + "=" + g_store->Dump();
    } else if (op == "F") {
      // the settings file as left by an administrator / an older version: raw bytes
      g_inside++;
      spit(g_conf, true, bytes(a[1]));
      g_inside--;
      out += "s" + n + "=" + g_store->Dump();
    } else if (op == "U") {
      // U:<id>:<change 0/1>:<namehex>:<htp 0/1>  universe appears (restore), optionally renamed /
      // re-moded, then torn down (settings saved)
      unsigned int id = vh::num(a[1]);
      ola::UniverseStore us(g_store, NULL);
      ola::Universe *u = us.GetUniverseOrCreate(id);
      string seen = vh::hex(u->Name()) + "/" + (u->MergeMode() == ola::Universe::MERGE_HTP ? "1" : "0");
      if (a[2] == "1") {
        u->SetName(bytes(a[3]));
        u->SetMergeMode(a[4] == "1" ? ola::Universe::MERGE_HTP : ola::Universe::MERGE_LTP);
      }
      UniverseTeardown td = {&us};
      SaveReport r = captured_save(td);
      out += "u" + n + "=" + seen + ";s" + n + "=" + g_store->Dump() + save_keys(n, r, r.imgs.back());
    } else if (op == "P") {
      // P:<devicehex>:<I1>:<I2>:<O1>:<O2>  each <uni|n|k>/<prio|k>/<s|i|k>
      // device manager start (Load), device registered (restore), changes, unregister, shutdown (Save)
      ola::UniverseStore us(NULL, NULL);
      ola::PortBroker broker;
      ola::PortManager pm(&us, &broker);
      ola::DeviceManager *mgr = new ola::DeviceManager(g_factory, &pm);
      TestMockPlugin plugin(NULL, ola::OLA_PLUGIN_ARTNET);
      MockDeviceLoopAndMulti device(&plugin, bytes(a[1]));
      TestMockInputPort i1(&device, 1, NULL);
      TestMockPriorityInputPort i2(&device, 2, NULL);
      TestMockOutputPort o1(&device, 1);
      TestMockPriorityOutputPort o2(&device, 2);
      device.AddPort(&i1); device.AddPort(&i2); device.AddPort(&o1); device.AddPort(&o2);
      bool reg = mgr->RegisterDevice(&device);
      string seen = string(reg ? "" : "!reg ") + port_s(&i1) + "," + port_s(&i2) + "," + port_s(&o1) + "," + port_s(&o2);
      port_act(&pm, &i1, a[2]); port_act(&pm, &i2, a[3]); port_act(&pm, &o1, a[4]); port_act(&pm, &o2, a[5]);
      mgr->UnregisterDevice(&device);
      ManagerTeardown td = {&mgr};
      SaveReport r = captured_save(td);
      pm.UnPatchPort(&i1); pm.UnPatchPort(&i2); pm.UnPatchPort(&o1); pm.UnPatchPort(&o2);
      out += "p" + n + "=" + seen + ";s" + n + "=" + g_store->Dump() + save_keys(n, r, r.imgs.back());
    } else {
      out += "s" + n + "=bad-op";
    }
  }
  return out;
}

int main(int argc, char **argv) {
  ola::InitLogging(ola::OLA_LOG_NONE, ola::OLA_LOG_STDERR);
  if (argc < 2) return 2;
  string cases = argv[1];
  size_t slash = cases.rfind('/');
  string base = slash == string::npos ? "." : cases.substr(0, slash);
  g_dir = base + "/fs." + vh::str(getpid());
  mkdir(g_dir.c_str(), 0755);
  mkdir((g_dir + "/img").c_str(), 0755);
  g_conf = g_dir + "/ola-" + PREF_NAME + ".conf";
  g_tmp = g_conf + ".tmp";
  sem_init(&g_reached, 0, 0);
  sem_init(&g_release, 0, 0);
  g_saver = new ola::FilePreferenceSaverThread();
  g_saver->Start();
  int r = vh::run(argc, argv, handle, 6);
  delete g_factory;
  g_saver->Join();
  g_inside++;
  real_unlink(g_conf.c_str());
  real_unlink(g_tmp.c_str());
  real_unlink((g_dir + "/img/ola-" + PREF_NAME + ".conf").c_str());
  real_unlink((g_dir + "/real-settings").c_str());
  real_unlink((g_dir + "/ola-other.conf").c_str());
  real_unlink((g_dir + "/ola-other.conf.tmp").c_str());
  rmdir((g_dir + "/img").c_str());
  rmdir(g_dir.c_str());
  return r;
}
