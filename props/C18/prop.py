ID = 'C18'
GROUPS = ['common', 'plugin_api']
CXX_SOURCES = []
LIBS = ['-lcppunit', '-ldl']
WRAP = ['pthread_cond_wait', 'pthread_cond_signal']

RULE = ('histories over one file-backed store in a private directory: set / set-multiple / remove / clear / get / '
        'save+synchronise / save interrupted after k system calls (every k from 0 to all) followed by a process '
        'restart / bursts of 2-4 saves (one or two files) with the saver thread held inside the k-th system call of the first / 40-1100 consecutive saves under a lowered RLIMIT_NOFILE (descriptor count at quiescence compared in every case) / save+synchronise with n spurious wake-ups of pthread_cond_wait and a slow disk / save whose writes fail with ENOSPC from the k-th on / load / restart / repeated Load() and LoadFromFile() on one long-lived object between unsaved edits and same-length saves / hand-written settings files / a settings file that is a symbolic link / universes with ids of 1-10 digits torn down and restored in both orders / saves whose close() or rename() fails / typed setters (unsigned, int, bool) and GetValueAsBool / several devices released and re-registered in turn / universe appear-rename-teardown / device '
        'register-patch-priority-unregister-shutdown; keys and values aimed at the separators (=, #, blanks, empty, '
        'prefixes of each other, bytes above 127), universe ids at 0, 2^31-1, 2^31, 2^32-1, priorities at 0, 200, '
        '201, 255; a minority of inputs outside the side conditions (untrimmed, key with =, embedded newline). '
        'Keys and values of 1000, 4000, 4090..4100, 8191..8193, 65536 bytes and 1 MB (alone, between other entries, as one value of a multi-valued key) are saved and reloaded; sizes up to 1 MB are exercised, the theorems (c18_roundtrip) have no length bound. Every observable compared after every operation; the directory image after every system call of every '
        'save is loaded by a fresh store. non-trivial = some save wrote a non-empty file and some later step '
        'shows a non-empty store; distinct = distinct model output line')
ASSUMPTIONS = ['a crash is a process crash: what the kernel holds after the last completed system call is what the '
               'next process sees (no power loss; fsync is not needed and not modelled)',
               'rename(2) replaces the destination atomically (POSIX); hypothesis of c18_crash_atomic',
               'a failing write fails for good (every later write of that save fails too) - what the harness injects; the '
               'theorem c18_write_failure_keeps_old covers any mix of successful, short and failing writes; a failing close() '
               'or rename() is modelled and injected (c18_close_rename_failure_keeps_old)',
               'c18_sync: each step of a thread (queue push / swap under m_incoming_mutex, lock, unlock, flag access under '
               'the mutex, signal, one whole save) is atomic, memory is sequentially consistent for accesses made under the '
               'mutex, pthread_cond_wait releases the mutex and blocks atomically; safety only (no fairness / termination)',
               'one saver thread, saves to one file are serialised by it; no second writer of the directory',
               'device allows looping and multi-port patching, so PatchPort during restore is never vetoed (C03 territory)']
TRUSTED = ['modelled rather than verified: Preferences.cpp MemoryPreferences::{SetValue,SetMultipleValue,RemoveValue,Clear,'
           'GetValue,GetMultipleValue,HasKey}, SavePreferencesToFile, FileBackedPreferences::{Load,LoadFromFile}; '
           'StringUtils.cpp StringTrim (StringSplit only for the pre-fix loader); UniverseStore::{Save,Restore}UniverseSettings '
           '(name, merge mode; not the rdm discovery interval); DeviceManager::{SavePortPatchings,SavePortPriority,'
           'RestorePortPriority,RestorePortSettings}; PortManager::{SetPriorityStatic,SetPriorityInherit}; '
           'StringToInt(uint8/unsigned) only for values that start with a digit; MemoryPreferences::SetValue(unsigned/int), '
           'SetMultipleValue(unsigned), SetValueAsBool, GetValueAsBool; numeric constants and the string literals of keys, '
           'lines and names are regenerated from /repo on every run (GenNum.v from headers, GenStr.v from the source text) '
           'and pinned by c18_consts',
           'std::multimap iteration order (ascending keys, insertion order among equal keys) and std::string operator< '
           'are modelled as a sorted list with insertion at the upper bound',
           'libstdc++ ofstream: one write per std::endl (observed by the interposer; the crash theorem itself '
           'quantifies over every chunking of the file contents)',
           'harness interposes fopen/open/write/writev/close/fclose/rename/unlink/remove by defining them in the executable, '
           'and pthread_cond_wait through ld --wrap (spurious wake-up = unlock, yield, lock, return 0)',
           'the saver-thread machine (SyncModel.v: SelectServer::Execute / DrainAndExecute / RunCallbacks as a FIFO with batch swap, '
           'Synchronize, CompleteSynchronization) is hand-written and is tied to the code only behaviourally (file observed at '
           'the return of the real Synchronize under injected spurious wake-ups); it is not extracted']


def _lit(s):
    """C string literal body -> list of byte values"""
    return list(s.encode('latin-1').decode('unicode_escape').encode('latin-1'))


def gen_consts(v):
    """Regenerates coq/GenNum.v (numeric constants, printed by a program compiled against the headers)
    and coq/GenStr.v (the string literals the settings code builds its keys, lines and names from,
    taken from the source text of the anchored files).  Properties.v pins the model to both."""
    import os, re
    cdir = os.path.join(v.VERIF, 'props', ID, 'coq')
    ents = [('G_SOURCE_PRIORITY_MAX', 'ola::dmx::SOURCE_PRIORITY_MAX'),
            ('G_SOURCE_PRIORITY_DEFAULT', 'ola::dmx::SOURCE_PRIORITY_DEFAULT'),
            ('G_PRIORITY_MODE_INHERIT', 'ola::PRIORITY_MODE_INHERIT'),
            ('G_PRIORITY_MODE_STATIC', 'ola::PRIORITY_MODE_STATIC'),
            ('G_CAPABILITY_NONE', 'ola::CAPABILITY_NONE'), ('G_CAPABILITY_STATIC', 'ola::CAPABILITY_STATIC'),
            ('G_CAPABILITY_FULL', 'ola::CAPABILITY_FULL'),
            ('G_UINT8_MAX', 'UINT8_MAX'), ('G_UINT32_MAX', 'UINT32_MAX'),
            ('G_SIZEOF_UNSIGNED_INT', 'sizeof(unsigned int)'),
            ('G_OLA_PLUGIN_ARTNET', 'ola::OLA_PLUGIN_ARTNET')]
    err = v.gen_consts_cpp(ID, ['ola/dmx/SourcePriorities.h', 'olad/PortConstants.h', 'ola/plugin_id.h'],
                           ents, os.path.join(cdir, 'GenNum.v'), prelude='#define __STDC_LIMIT_MACROS\n#include <stdint.h>')
    if err:
        return err
    def src(rel):
        return open(v.repo_path(rel), encoding='latin-1').read()
    out = []
    def one(name, text, pattern, what):
        found = set(re.findall(pattern, text))
        if len(found) != 1:
            raise ValueError('%s: expected exactly one literal for %s, found %r' % (name, what, sorted(found)))
        out.append((name, _lit(found.pop())))
    try:
        dm = src('olad/plugin_api/DeviceManager.cpp')
        one('G_s_pval', dm, r'PRIORITY_VALUE_SUFFIX\[\]\s*=\s*"([^"]*)"', 'PRIORITY_VALUE_SUFFIX')
        one('G_s_pmode', dm, r'PRIORITY_MODE_SUFFIX\[\]\s*=\s*"([^"]*)"', 'PRIORITY_MODE_SUFFIX')
        one('G_s_portprefs', dm, r'PORT_PREFERENCES\[\]\s*=\s*"([^"]*)"', 'PORT_PREFERENCES')
        us = src('olad/plugin_api/UniverseStore.cpp')
        one('G_s_uni', us, r'key = "([^"]*)" \+ oss\.str\(\) \+ "_(?:name|merge)"', 'universe key prefix')
        one('G_s_name', us, r'key = "[^"]*" \+ oss\.str\(\) \+ "(_name)"', 'name suffix')
        one('G_s_merge', us, r'key = "[^"]*" \+ oss\.str\(\) \+ "(_merge)"', 'merge suffix')
        one('G_s_HTP', us, r'MERGE_HTP \? "([^"]*)" : "[^"]*"', 'HTP text (save)')
        one('G_s_HTP_restore', us, r'value == "([^"]*)"', 'HTP text (restore)')
        one('G_s_LTP', us, r'MERGE_HTP \? "[^"]*" : "([^"]*)"', 'LTP text')
        one('G_s_Universe', src('olad/plugin_api/Universe.cpp'), r'universe_name_str << "([^"]*)" << universe_id', 'default name')
        pf = src('olad/plugin_api/Preferences.cpp')
        one('G_s_true', pf, r'BoolValidator::ENABLED\[\] = "([^"]*)"', 'BoolValidator::ENABLED')
        one('G_s_false', pf, r'BoolValidator::DISABLED\[\] = "([^"]*)"', 'BoolValidator::DISABLED')
        one('G_separator', pf, r'iter->first << "([^"]*)" << iter->second << std::endl', 'key/value separator')
        one('G_tmp_suffix', pf, r'\*filename \+ "([^"]*)"', 'temporary file suffix')
        one('G_comment_char', pf, r"line\.at\(0\) == '([^']*)'", 'comment character')
        one('G_split_char', pf, r"line\.find\('([^']*)'\)", 'separator searched by the loader')
        one('G_trim_chars', src('common/utils/StringUtils.cpp'), r'characters_to_trim = "([^"]*)"', 'StringTrim characters')
    except (OSError, ValueError) as e:
        return 'string constants could not be regenerated from the repository sources: %s' % e
    txt = ('(* REGENERATED from the source text of the repository on every run. Do not edit. *)\n'
           'From Coq Require Import NArith List.\nImport ListNotations.\nLocal Open Scope N_scope.\n')
    for name, bs in out:
        txt += 'Definition %s : list N := [%s].\n' % (name, '; '.join(str(b) for b in bs))
    path = os.path.join(cdir, 'GenStr.v')
    if not os.path.exists(path) or open(path).read() != txt:
        with open(path, 'w') as f:
            f.write(txt)
    return None

# q: rounds of a repetition after which the file was not the store; d (descriptors open at quiescence minus
# baseline) is compared too but is not property-determined by itself (a leak only matters once it bites: q)
_KEYS = ['s', 'f', 'a', 'u', 'p', 'y', 'z', 'q']
SPEC_KEYS = set('%s%d' % (k, i) for k in _KEYS for i in range(0, 300))
# xc / xi: system calls and images of a save with failing writes (how often libstdc++ retries is its business)
INTERNAL_KEYS = ['xc%d' % i for i in range(300)] + ['xi%d' % i for i in range(300)]
PROC_TIMEOUT = 900


def hx(s):
    if isinstance(s, str):
        s = s.encode('latin-1')
    return s.hex() if s else '-'


KEYCH = 'abcxyzABZ019_-./#! \t\x7f\xe9'          # never '=' or newline; '#', blanks only inside
VALCH = 'abxyz019=#=# \t-_/"\\\x01\xff'
BLANKS = ' \t\r\n'


def trimmed(rng, alphabet, lo, hi, first_not=''):
    n = rng.randint(lo, hi)
    if n == 0:
        return ''
    s = [rng.choice(alphabet) for _ in range(n)]
    inner = [c for c in alphabet if c not in BLANKS]
    s[0] = rng.choice([c for c in inner if c not in first_not])
    s[-1] = rng.choice(inner) if n > 1 else s[0]
    return ''.join(s)


def rkey(rng):
    return rng.choice([trimmed(rng, KEYCH, 1, 6, '#'), trimmed(rng, 'ab', 1, 3), rng.choice(['k', 'key', 'a', 'ab', 'a b', 'a#', 'A', 'b'])])


def rval(rng):
    return rng.choice([trimmed(rng, VALCH, 0, 8), trimmed(rng, '=# a', 0, 5),
                       rng.choice(['a=b', '=', '==', '#', '#c', 'a = b', '', 'x', 'a#b=c', '= =', 'v=', '=v', '1'])])


def hostile(rng):
    """(key, value) outside the property's side conditions: the model still has to agree."""
    k, v = rkey(rng), rval(rng)
    w = rng.randrange(7)
    if w == 0: k = rng.choice(BLANKS[:3]) + k
    elif w == 1: k = k + rng.choice(' \t')
    elif w == 2: k = k + '=' + rng.choice(['', 'z'])
    elif w == 3: k = '#' + k
    elif w == 4: v = rng.choice(' \t') + v
    elif w == 5: v = v + rng.choice(' \t\r')
    else: v = v + '\n' + rng.choice(['', 'q = r', 'tail'])
    return k, v


def setop(rng, k=None, v=None, multi=None):
    k = rkey(rng) if k is None else k
    v = rval(rng) if v is None else v
    m = rng.random() < 0.3 if multi is None else multi
    return '%s:%s:%s' % ('M' if m else 'S', hx(k), hx(v))


def fill(rng, n, keys=None):
    ops = []
    for _ in range(n):
        k = rng.choice(keys) if keys and rng.random() < 0.6 else None
        ops.append(setop(rng, k))
    return ops


UNIS = [0, 1, 2, 512, 2**31 - 1, 2**31, 2**31 + 1, 2**32 - 1, 4000000000]
PRIOS = [0, 1, 99, 100, 101, 199, 200, 201, 255]


def runi(rng):
    return rng.choice(UNIS + [rng.randrange(2**32), rng.randrange(70000)])


def port_action(rng):
    u = rng.choice(['n', 'k', str(runi(rng)), str(runi(rng))])
    p = rng.choice(['k', str(rng.choice(PRIOS)), str(rng.randrange(256))])
    m = rng.choice(['s', 'i', 'k'])
    return '%s/%s/%s' % (u, p, m)


def devname(rng):
    return rng.choice(['dev', 'test-device-1', 'a b', '10.0.0.1', 'x#1', trimmed(rng, 'abz019-_. #', 1, 6)])


def gen_cases(rng, tier):
    quick = tier == 'quick'
    scale = 1 if quick else 12
    # 1. the separator values, one at a time, saved and reloaded (the pre-fix loader drops them)
    for v in ['a=b', '=', '==', 'a = b', '#', '#c', 'a#b', '', 'x', 'a=b=c', '= =', 'v=', '=v', 'a\tb', 'a\rb', '\x01', '\xff=\xfe']:
        for k in ['k', 'a b', 'a#', '\xe9']:
            yield 'S:%s:%s V L G:%s' % (hx(k), hx(v), hx(k))
    # 2. round trips of random maps, multi-valued keys, order among equal keys, prefixes
    for i in range(500 * scale):
        keys = [rkey(rng) for _ in range(rng.randint(1, 4))]
        ops = fill(rng, rng.randint(0, 8), keys)
        if rng.random() < 0.3:
            ops.insert(rng.randrange(len(ops) + 1), 'R:%s' % hx(rng.choice(keys)))
        if rng.random() < 0.05:
            ops.insert(rng.randrange(len(ops) + 1), 'C')
        ops += ['V', 'L'] + ['G:%s' % hx(k) for k in keys[:2]]
        if rng.random() < 0.4:
            ops += fill(rng, rng.randint(1, 3), keys) + ['V', 'L']
        yield ' '.join(ops)
    # 2b. long keys and values: sizes around every buffer size a line reader / stream might have
    #     (4096, 8192, 65536) and ~1 MB; alone, followed by further entries, as one value of a
    #     multi-valued key.  No crash sweeps for these (the images are large).
    def longs(n):
        body = ''.join(rng.choice('abcdefghijklmnopqrstuvwxyz0123456789=# ') for _ in range(64)) * (n // 64 + 1)
        s = 'L' + body[:max(0, n - 2)] + 'E'
        return s[:n] if n >= 2 else 'L'[:n]
    sizes = [1000, 4000, 4090, 4091, 4092, 4093, 4094, 4095, 4096, 4097, 4098, 4099, 4100, 8191, 8192, 8193, 65536]
    if not quick:
        sizes += [1023, 1024, 1025, 16384, 65535, 65537, 131072]
    for n in sizes:
        v = longs(n)
        yield 'S:%s:%s V L G:%s' % (hx('k'), hx(v), hx('k'))                       # alone
        yield 'S:%s:%s S:%s:%s S:%s:%s S:%s:%s V L G:%s G:%s' % (                   # entries before and after it
            hx('a'), hx('1'), hx('k'), hx(v), hx('m'), hx('2'), hx('z'), hx('x=y'), hx('a'), hx('z'))
        if n <= 8193 or not quick:
            yield 'M:%s:%s M:%s:%s M:%s:%s S:%s:%s V L G:%s' % (                    # one long value of a multi-valued key
                hx('multi'), hx('1'), hx('multi'), hx(v), hx('multi'), hx('3'), hx('zz'), hx('t'), hx('multi'))
            yield 'S:%s:%s S:%s:%s V L G:%s' % (hx(longs(n).replace('=', '-')), hx('v'), hx('z'), hx('1'), hx('z'))   # long key
    for n in ([1 << 20] if quick else [1 << 20, (1 << 20) + 1, 3000000]):
        yield 'S:%s:%s S:%s:%s S:%s:%s V L G:%s' % (hx('a'), hx('1'), hx('k'), hx(longs(n)), hx('z'), hx('2'), hx('z'))
    # 3. a crash after every system call of a save, then restart; then life goes on
    for i in range(120 * scale):
        keys = [rkey(rng) for _ in range(rng.randint(1, 3))]
        first = fill(rng, rng.randint(0, 4), keys)
        second = fill(rng, rng.randint(0, 4), keys)
        if rng.random() < 0.3:
            second.append('R:%s' % hx(rng.choice(keys)))
        if rng.random() < 0.1:
            second.append('C')
        prefix = first + (['V'] if rng.random() < 0.8 else []) + second
        # number of entries is unknown here; sweep generously, the model clips
        for k in ([0, 1, 2, 3, 4, 5, 6, 7, 8, 9, 10, 11, 12, 13] if (quick and i % 6 == 0) or not quick
                  else [rng.choice([0, 1, 2]), rng.randrange(14)]):
            tail = ['G:%s' % hx(keys[0])] + (fill(rng, 1, keys) + ['V', 'L'] if rng.random() < 0.5 else [])
            yield ' '.join(prefix + ['X:%d' % k] + tail)
    # 3b. Synchronize() with spurious wake-ups of the waiting thread and a slow disk
    for i in range(40 * scale):
        keys = [rkey(rng) for _ in range(rng.randint(1, 3))]
        ops = fill(rng, rng.randint(1, 4), keys) + ['Y:%d' % rng.choice([0, 1, 1, 2, 3, 7])]
        ops += fill(rng, rng.randint(0, 2), keys) + [rng.choice(['Y:1', 'Y:2', 'V', 'L'])]
        yield ' '.join(ops)
    # 3b'. bursts of 2-4 saves while the saver thread is held inside the k-th system call of the first
    #      one (k over every call of that save: open, each write, close, rename), then Synchronize()
    for i in range(12 * scale):
        base = ['b%d' % j for j in range(rng.randint(0, 3))]
        pre = ['S:%s:%s' % (hx(k), hx(rval(rng))) for k in base]
        if base and rng.random() < 0.5:
            pre.append('V')
        nsaves = rng.randint(2, 4)
        two = rng.random() < 0.35
        k1 = rng.choice(base + ['n', 'n'])
        entries = len(set(base + [k1]))               # entries of the store at the first save
        for k in range(1, entries + 4):               # the script has entries + 3 calls
            if quick and rng.random() < 0.45 and k not in (1, entries + 3):
                continue
            items = ['1,%s,%s' % (hx(k1), hx('v0' + rval(rng)))]
            for j in range(1, nsaves):
                w = '2' if two and rng.random() < 0.5 else '1'
                key = rng.choice([k1, k1, 'n2'] + base)
                items.append('%s,%s,%s' % (w, hx(key), hx('v%d' % j + rval(rng))))
            yield ' '.join(pre + ['B:%d:%s' % (k, '/'.join(items)), 'L', 'G:%s' % hx(k1)])
    # 3b''. repetition / resources: many saves through the one long-lived saver thread with the descriptor
    #       limit lowered to (open now + 24); the file is checked after every round, the number of open
    #       descriptors at quiescence is compared in every case (key d)
    for i in range(6 * scale):
        keys = [rkey(rng) for _ in range(rng.randint(1, 2))]
        ops = fill(rng, rng.randint(0, 3), keys)
        ops += ['Q:%d:%s' % (rng.choice([40, 60, 100] if quick else [100, 300, 1100]), hx(rng.choice(keys + ['n'])))]
        ops += [rng.choice(['L', 'V', 'G:%s' % hx(keys[0])])] + (fill(rng, 1, keys) + ['V', 'L'] if rng.random() < 0.5 else [])
        yield ' '.join(ops)
    # 3c. a save during which the disk fills up: every write from the k-th on fails
    for i in range(80 * scale):
        keys = [rkey(rng) for _ in range(rng.randint(1, 3))]
        first = fill(rng, rng.randint(0, 4), keys)
        second = fill(rng, rng.randint(1, 4), keys)
        ops = first + (['V'] if rng.random() < 0.7 else []) + second
        ops += [rng.choice(['W:%d' % rng.choice([1, 1, 2, 3, rng.randint(1, 9)]), 'Wc', 'Wr']), rng.choice(['L', 'G:%s' % hx(keys[0])])]
        if rng.random() < 0.5:
            ops += fill(rng, 1, keys) + ['V', 'L']
        yield ' '.join(ops)
    # 4. load on the live store, with and without a file; restart without saving loses the changes
    for i in range(60 * scale):
        ops = fill(rng, rng.randint(1, 3)) + [rng.choice(['l', 'L'])] + fill(rng, rng.randint(0, 2))
        ops += [rng.choice(['V', 'l', 'L'])] + fill(rng, rng.randint(0, 2)) + [rng.choice(['l', 'L', 'V'])]
        yield ' '.join(ops)
    # 4b. ONE long-lived store object: repeated Load() / LoadFromFile() (and the Load() a new
    #     DeviceManager does on it) interleaved with unsaved edits and with saves that replace a value
    #     by one of the same length (file size and, within a second, mtime unchanged)
    for i in range(90 * scale):
        keys = [rkey(rng) for _ in range(rng.randint(1, 3))]
        ln = rng.choice([0, 1, 2, 5])
        def same_len(tag):
            return (tag * (ln + 1))[:ln]
        ops = ['S:%s:%s' % (hx(k), hx(same_len('a'))) for k in keys] + ['V', rng.choice(['l', 'lf', 'L', 'l'])]
        for step_no in range(rng.randint(2, 6)):
            w = rng.random()
            if w < 0.45:      # unsaved edit, then load again: the edit must be gone
                ops.append(rng.choice(['S:%s:%s' % (hx(rng.choice(keys)), hx(same_len(rng.choice('bcdxyz')))),
                                       'R:%s' % hx(rng.choice(keys)), 'C', setop(rng), 'M:%s:%s' % (hx(rng.choice(keys)), hx('m'))]))
                ops.append(rng.choice(['l', 'l', 'lf']))
            elif w < 0.8:     # saved same-length change, then an unsaved one, then load: the saved one must be seen
                k = rng.choice(keys)
                ops += ['S:%s:%s' % (hx(k), hx(same_len(rng.choice('bcdefg')))), rng.choice(['V', 'Y:0']),
                        'S:%s:%s' % (hx(k), hx(same_len(rng.choice('qrstuv')))), rng.choice(['l', 'l', 'lf'])]
            elif w < 0.9:
                ops.append('P:%s:k/k/k:k/k/k:k/k/k:k/k/k' % hx('d'))
            else:
                ops.append(rng.choice(['l', 'lf', 'G:%s' % hx(keys[0])]))
        yield ' '.join(ops)
    # 4c. the typed entry points: SetValue(unsigned), SetValue(int), SetMultipleValue(unsigned), SetValueAsBool / GetValueAsBool
    for i in range(50 * scale):
        k = rkey(rng)
        ops = fill(rng, rng.randint(0, 2))
        for _ in range(rng.randint(1, 4)):
            w = rng.randrange(5)
            kk = rng.choice([k, rkey(rng)])
            if w == 0: ops.append('I:%s:%d' % (hx(kk), rng.choice([0, 1, 9, 10, 255, 256, 2**31 - 1, 2**31, 2**32 - 1, rng.randrange(2**32)])))
            elif w == 1: ops.append('J:%s:%d' % (hx(kk), rng.choice([0, -1, 1, -10, 2**31 - 1, -2**31, rng.randrange(-2**31, 2**31)])))
            elif w == 2: ops.append('N:%s:%d' % (hx(kk), rng.choice([0, 7, 2**32 - 1, rng.randrange(1000)])))
            elif w == 3: ops.append('T:%s:%d' % (hx(kk), rng.randrange(2)))
            else: ops.append('S:%s:%s' % (hx(kk), hx(rng.choice(['true', 'false', 'True', 'true ', '1', '']))))
            if rng.random() < 0.5: ops.append('b:%s' % hx(kk))
        ops += ['V', 'L', 'b:%s' % hx(k), 'G:%s' % hx(k)]
        yield ' '.join(ops)
    # 4d. several devices / ports released and re-registered in turn (keys of one never disturb another)
    for i in range(40 * scale):
        devs = [rng.choice(['d1', 'd-1', 'dev-I-2', 'a']), rng.choice(['d2', 'd-1-O', '10.0.0.2', 'a-I-1'])]
        ops = []
        for _ in range(rng.randint(2, 4)):
            ops.append('P:%s:%s' % (hx(rng.choice(devs)), ':'.join(port_action(rng) for _ in range(4))))
            if rng.random() < 0.5: ops.append('L')
        ops += ['L'] + ['P:%s:k/k/k:k/k/k:k/k/k:k/k/k' % hx(dv) for dv in devs]
        yield ' '.join(ops)
    # 4e. the settings file is a symbolic link (to a file in the same directory): loads follow it, a save
    #     replaces it; several universes whose ids have different numbers of digits, torn down and
    #     restored in both orders
    for i in range(30 * scale):
        keys = [rkey(rng) for _ in range(2)]
        ops = fill(rng, rng.randint(0, 2), keys) + rng.choice([['V', 'K'], ['K'], ['V', 'K', 'l']])
        ops += fill(rng, rng.randint(1, 2), keys) + [rng.choice(['V', 'l', 'L', 'X:%d' % rng.randrange(6), 'Y:1'])]
        ops += ['L', 'G:%s' % hx(keys[0])] + (fill(rng, 1, keys) + ['V', 'L'] if rng.random() < 0.5 else [])
        yield ' '.join(ops)
    for i in range(30 * scale):
        ids = rng.sample([1, 10, 100, 11, 101, 1000, 9, 99, 4294967295, 429496729], 3)
        us = ['U:%d:1:%s:%d' % (u, hx('n%d' % u), rng.randrange(2)) for u in ids]
        back = ['U:%d:0:-:0' % u for u in (ids if rng.random() < 0.5 else ids[::-1])]
        yield ' '.join(us + ['L'] + back)
    # 5. inputs outside the side conditions
    for i in range(150 * scale):
        ops = fill(rng, rng.randint(0, 3))
        for _ in range(rng.randint(1, 2)):
            k, v = hostile(rng)
            ops.insert(rng.randrange(len(ops) + 1), setop(rng, k, v))
        yield ' '.join(ops + ['V', 'L'])
    # 6. hand-written files: comments, blank lines, CRLF, no final newline, no '=', several '='
    lines = ['k = v', 'k=v', '  k  =  v  ', '# comment', '#', '', ' ', 'novalue', 'k =', '= v', '=', 'a = b = c', 'a==b',
             'k = #v', 'k = v # not a comment', '\t# indented comment', 'multi = 1', 'multi = 2', 'multi = 3', 'z = 9\r',
             'K = v', 'k\t=\tv', 'k = v=']
    for i in range(150 * scale):
        ls = [rng.choice(lines) for _ in range(rng.randint(0, 7))]
        body = '\n'.join(ls) + rng.choice(['\n', '', '\n\n', '\r\n'])
        yield 'F:%s L G:%s G:%s' % (hx(body), hx('k'), hx('multi')) + (' V L' if rng.random() < 0.5 else '')
    # 7. universes: appear, be renamed / re-moded, go away; come back after a restart
    names = ['Main', 'a=b', '#1', 'Stage left', 'x', '=', 'Universe 1', 'd\xe9cor', '']
    for i in range(200 * scale):
        uid = runi(rng)
        ops = fill(rng, rng.randint(0, 2))
        nm = rng.choice(names + [trimmed(rng, VALCH, 0, 6)])
        ops += ['U:%d:1:%s:%d' % (uid, hx(nm), rng.randrange(2))]
        if rng.random() < 0.3:
            ops += ['U:%d:1:%s:%d' % (runi(rng), hx(rng.choice(names)), rng.randrange(2))]
        ops += [rng.choice(['L', 'L', 'X:%d' % rng.randrange(8)]), 'U:%d:0:-:0' % uid]
        if rng.random() < 0.3:
            ops += ['L', 'U:%d:%d:%s:%d' % (uid, rng.randrange(2), hx(rng.choice(names)), rng.randrange(2)), 'L', 'U:%d:0:-:0' % uid]
        yield ' '.join(ops)
    # 8. devices: register (restore), patch / set priorities, unregister, shut down; come back
    for i in range(250 * scale):
        dev = devname(rng)
        acts = [port_action(rng) for _ in range(4)]
        ops = fill(rng, rng.randint(0, 2))
        ops += ['P:%s:%s' % (hx(dev), ':'.join(acts))]
        ops += [rng.choice(['L', 'L', 'X:%d' % rng.randrange(12)])]
        ops += ['P:%s:%s' % (hx(dev), ':'.join(rng.choice(['k/k/k', 'k/k/k', port_action(rng)]) for _ in range(4)))]
        ops += ['L', 'P:%s:k/k/k:k/k/k:k/k/k:k/k/k' % hx(dev)]
        yield ' '.join(ops)
    # 9. hand-edited port settings (digit-led values only: other forms belong to C20)
    vals = ['0', '1', '007', '12abc', '4294967295', '4294967296', '2147483648', '99999999999999999999999', '3 4']
    pvals = ['0', '200', '201', '255', '256', '100x', '1000']
    for i in range(60 * scale):
        body = ''
        for sfx in ['-I-1', '-I-2', '-O-1', '-O-2']:
            if rng.random() < 0.7: body += '2-d%s = %s\n' % (sfx, rng.choice(vals))
            if rng.random() < 0.6: body += '2-d%s_priority_value = %s\n' % (sfx, rng.choice(pvals))
            if rng.random() < 0.6: body += '2-d%s_priority_mode = %s\n' % (sfx, rng.choice(['0', '1', '2', '01', '0x']))
        yield 'F:%s P:%s:k/k/k:k/k/k:k/k/k:k/k/k' % (hx(body), hx('d'))


def nontrivial(payload, md):
    wrote = any(k[0] == 'f' and v not in ('!', '-') for k, v in md.items())
    shown = any(k[0] == 's' and v not in ('-',) and '/' not in v for k, v in md.items())
    return wrote and shown


LEVEL_TEXT = ('Coq theorems over an executable model of the preference store, its file format, the save as a script of '
              'system calls, the saver thread and the universe / port settings kept in the store. Save then load is the '
              'identity EXACTLY on the stores whose keys and values meet the property\'s side conditions (iff; the loader '
              'output is always admissible; no length bound). After any prefix of the system calls of a save - any '
              'chunking, any previous directory, also a first save and a save whose writes fail - the file is the old one '
              'or the complete new one (rename atomicity as explicit hypothesis), lifted to whole histories from any '
              'directory. For every schedule of the saver-thread machine (saves one system call per step, spurious '
              'wake-ups) every save issued before a Synchronize has completed when it returns and the file is the most '
              'recent one (safety; N calling threads: one distinguished caller plus an environment of other callers; termination not proved). The exact image of every line / inadmissible entry under the loader is proved (c18_inadmissible_image); a failing close() or rename() keeps the old file. Universe name / merge mode and port '
              'patch (all 2^32 ids) / priority (static-only and full ports) / mode are restored through the file after '
              'any sequence of teardowns of other universes / ports (key injectivity proved). Typed setters and '
              'GetValueAsBool round-trip. An empty universe name is not restored (known finding); the rdm discovery '
              'interval restore and PatchPort vetoes are not modelled.')
LEVEL_NOTE = ('Trusted: Coq kernel, extraction (ExtrOcamlBasic), OCaml/C++ glue, generator coverage; model = code is '
              'validated by differential testing against the real FileBackedPreferences, FilePreferenceSaverThread, '
              'UniverseStore, DeviceManager and PortManager (ASan/UBSan build), with the directory image captured '
              'after every intercepted system call, not proved. POSIX rename atomicity and process-crash semantics '
              '(kernel state survives, no power loss) are assumptions.')
TECHNIQUE = 'Coq proof on hand-written executable model + extracted-model/implementation differential correspondence with syscall interposition'
DESIGN_REF = 'DESIGN.md §4 C18'
