// C10 correspondence harness: the real stream parsers on a pipe / socket pair, fed chunk by chunk,
// and ConnectedDescriptor::Receive over an interposed read() that plays a script of syscall results.
#include <errno.h>
#include <fcntl.h>
#include <poll.h>
#include <stdlib.h>
#include <termios.h>
#include <sys/socket.h>
#include <sys/types.h>
#include <unistd.h>
#include <deque>
#include <map>
#include <memory>
#include <sstream>
#include <string>
#include <vector>
#include "vh.h"
#define private public
#define protected public
#include "ola/Callback.h"
#include "ola/ExportMap.h"
#include "common/rpc/RpcChannel.h"
#include "ola/Logging.h"
#include "ola/io/Descriptor.h"
#include "ola/io/IOUtils.h"
#include "ola/io/Serial.h"
#include "ola/Clock.h"
#include "ola/io/SelectServer.h"
#include "ola/network/IPV4Address.h"
#include "ola/network/SocketAddress.h"
#include "ola/network/TCPSocket.h"
#include "libs/acn/BaseInflator.h"
#include "libs/acn/HeaderSet.h"
#include "libs/acn/RootInflator.h"
#include "ola/acn/CID.h"
#include "libs/acn/TCPTransport.h"
#include "plugins/openpixelcontrol/OPCServer.h"
#include "plugins/usbpro/BaseRobeWidget.h"
#include "plugins/usbpro/BaseUsbProWidget.h"
#include "plugins/usbpro/RobeWidget.h"
#include "ola/rdm/UID.h"
#include "ola/DmxBuffer.h"
#undef private
#undef protected

using std::string;
using std::vector;

// ---------------------------------------------------------------- interposed read()
struct Tok { char kind; size_t n; };   // kind: 'n' bytes, 'A' EAGAIN, 'I' EINTR, 'E' EIO
static int g_fd = -1;
static bool g_script_on = false;
static std::deque<Tok> g_script;
static vector<uint8_t> g_src;
static size_t g_src_pos = 0;
static size_t g_cap = 0;
static unsigned long long g_read_total = 0;   // bytes returned by read() on the descriptor under test

extern "C" ssize_t __real_read(int fd, void *buf, size_t count);
extern "C" ssize_t __wrap_read(int fd, void *buf, size_t count) {
  if (fd == g_fd && g_script_on) {
    if (g_script.empty()) { errno = EAGAIN; return -1; }
    Tok t = g_script.front();
    g_script.pop_front();
    if (t.kind == 'A') { errno = EAGAIN; return -1; }
    if (t.kind == 'I') { errno = EINTR; return -1; }
    if (t.kind == 'E') { errno = EIO; return -1; }
    size_t k = t.n;
    if (k > count) k = count;
    if (k > g_src.size() - g_src_pos) k = g_src.size() - g_src_pos;
    if (k) memcpy(buf, g_src.data() + g_src_pos, k);   // ASan checks the destination range
    g_src_pos += k;
    return k;
  }
  if (fd == g_fd && g_cap && count > g_cap) count = g_cap;
  ssize_t r = __real_read(fd, buf, count);
  if (fd == g_fd && r > 0) g_read_total += r;
  return r;
}

// ---------------------------------------------------------------- message log
// deliveries go to the sink of the instance whose read callback is running
static vector<string> g_default_sink;
static vector<string> *g_sink = &g_default_sink;
#define g_msgs (*g_sink)
static void on_msg(uint8_t label, const uint8_t *data, unsigned int length) {
  g_msgs.push_back(vh::str(static_cast<int>(label)) + ":" + vh::hex(data, data ? length : 0) +
                   (data == NULL && length ? "!null" : ""));
}
static void on_opc(uint8_t channel, uint8_t command, const uint8_t *data, unsigned int length) {
  g_msgs.push_back(vh::str(static_cast<int>(channel)) + "." + vh::str(static_cast<int>(command)) + ":" +
                   vh::hex(data, length));
}
static string join(const vector<string> &v, const char *sep) {
  if (v.empty()) return "-";
  string s;
  for (size_t i = 0; i < v.size(); i++) { if (i) s += sep; s += v[i]; }
  return s;
}

// A mock inflator: records each PDU block handed over by the transport and consumes it all.
class RecordingInflator : public ola::acn::BaseInflator {
 public:
  RecordingInflator() : BaseInflator() {}
  uint32_t Id() const { return 1; }
  unsigned int InflatePDUBlock(ola::acn::HeaderSet *, const uint8_t *data, unsigned int len) {
    g_msgs.push_back("pdu:" + vh::hex(data, len));
    return len;
  }
 protected:
  void ResetHeaderField() {}
  bool DecodeHeader(ola::acn::HeaderSet *, const uint8_t *, unsigned int, unsigned int *) { return true; }
};

// ---------------------------------------------------------------- one partition of one stream
struct Feeder {
  vector<string> sink;
  virtual ~Feeder() {}
  virtual ola::io::ConnectedDescriptor *desc() = 0;
  virtual bool put(const uint8_t *p, size_t n) = 0;
  virtual string state() = 0;
  virtual bool stopped() { return false; }
  virtual size_t count() { return g_msgs.size(); }
  virtual string summary() { return join(g_msgs, ","); }
};

struct UsbProFeeder : Feeder {
  ola::io::LoopbackDescriptor d;
  std::auto_ptr<ola::plugin::usbpro::DispatchingUsbProWidget> w;
  UsbProFeeder() {
    d.Init();
    w.reset(new ola::plugin::usbpro::DispatchingUsbProWidget(&d, ola::NewCallback(&on_msg)));
  }
  ola::io::ConnectedDescriptor *desc() { return &d; }
  bool put(const uint8_t *p, size_t n) { return d.Send(p, n) == static_cast<ssize_t>(n); }
  string state() { return vh::str(static_cast<int>(w->m_state)); }
};

struct RobeFeeder : Feeder {
  ola::io::LoopbackDescriptor d;
  std::auto_ptr<ola::plugin::usbpro::DispatchingRobeWidget> w;
  RobeFeeder() {
    d.Init();
    w.reset(new ola::plugin::usbpro::DispatchingRobeWidget(&d, ola::NewCallback(&on_msg)));
  }
  ola::io::ConnectedDescriptor *desc() { return &d; }
  bool put(const uint8_t *p, size_t n) { return d.Send(p, n) == static_cast<ssize_t>(n); }
  string state() { return vh::str(static_cast<int>(w->m_state)); }
};

static ola::io::SelectServer *g_ss = NULL;

struct OpcFeeder : Feeder {
  std::auto_ptr<ola::plugin::openpixelcontrol::OPCServer> server;
  ola::network::TCPSocket *sock;
  int peer;
  // spec: "" = a callback for every channel; "@-" = none; "@0,5,255" = those channels only
  explicit OpcFeeder(const string &spec) : sock(NULL), peer(-1) {
    server.reset(new ola::plugin::openpixelcontrol::OPCServer(g_ss, ola::network::IPV4SocketAddress()));
    if (spec.empty()) {
      for (int ch = 0; ch < 256; ch++)
        server->SetCallback(ch, ola::NewCallback(&on_opc, static_cast<uint8_t>(ch)));
    } else if (spec != "@-") {
      vector<string> chs = vh::split(spec.substr(1), ',');
      for (size_t i = 0; i < chs.size(); i++) {
        int ch = static_cast<int>(vh::num(chs[i])) & 255;
        server->SetCallback(ch, ola::NewCallback(&on_opc, static_cast<uint8_t>(ch)));
      }
    }
    int sv[2];
    if (socketpair(AF_UNIX, SOCK_STREAM, 0, sv) != 0) abort();
    peer = sv[1];
    sock = new ola::network::TCPSocket(sv[0]);
    sock->SetReadNonBlocking();
    server->NewTCPConnection(sock);   // registers SocketReady as the on-data callback
  }
  ~OpcFeeder() { server.reset(); close(peer); }
  ola::io::ConnectedDescriptor *desc() { return sock; }
  bool put(const uint8_t *p, size_t n) { return write(peer, p, n) == static_cast<ssize_t>(n); }
  string state() {
    ola::plugin::openpixelcontrol::OPCServer::RxState *rx = server->m_clients[sock];
    return vh::str(rx->offset);
  }
};

struct AcnFeeder : Feeder {
  ola::io::LoopbackDescriptor d;
  RecordingInflator inflator;
  std::auto_ptr<ola::acn::IncomingStreamTransport> t;
  bool valid;
  AcnFeeder() : valid(true) {
    d.Init();
    t.reset(new ola::acn::IncomingStreamTransport(
        &inflator, &d, ola::network::IPV4SocketAddress(ola::network::IPV4Address::Loopback(), 1)));
    d.SetOnData(ola::NewCallback(this, &AcnFeeder::Ready));
  }
  void Ready() { if (valid) valid = t->Receive(); }
  ola::io::ConnectedDescriptor *desc() { return &d; }
  bool put(const uint8_t *p, size_t n) { return d.Send(p, n) == static_cast<ssize_t>(n); }
  string state() {
    return valid ? vh::str(static_cast<int>(t->m_state)) + "/" + vh::str(t->m_outstanding_data) : "X";
  }
  bool stopped() { return !valid; }
};

// The RPC channel without a service: every frame whose body parses is counted by type in the
// export map ("dispatched"); Close() on the descriptor marks a rejected stream.
struct RpcFeeder : Feeder {
  ola::ExportMap em;
  ola::io::UnixSocket sock;
  ola::io::UnixSocket *peer;
  std::auto_ptr<ola::rpc::RpcChannel> ch;
  RpcFeeder() : peer(NULL) {
    if (!sock.Init()) abort();
    peer = sock.OppositeEnd();
    int sz = 4 << 20;
    setsockopt(peer->WriteDescriptor(), SOL_SOCKET, SO_SNDBUF, &sz, sizeof(sz));
    setsockopt(sock.ReadDescriptor(), SOL_SOCKET, SO_RCVBUF, &sz, sizeof(sz));
    ch.reset(new ola::rpc::RpcChannel(NULL, &sock, &em));
  }
  ~RpcFeeder() { ch.reset(); delete peer; }
  ola::io::ConnectedDescriptor *desc() { return &sock; }
  // A chunk may be larger than the socket buffer: when the (non-blocking) write would block the
  // channel's read callback is run until it has taken everything, then the write continues.
  bool put(const uint8_t *p, size_t n) {
    size_t off = 0;
    while (off < n && !closed()) {
      ssize_t w = write(peer->WriteDescriptor(), p + off, n - off);
      if (w > 0) { off += w; continue; }
      if (w < 0 && (errno == EAGAIN || errno == EWOULDBLOCK || errno == EINTR)) {
        unsigned long guard = 0;
        int before = sock.DataRemaining();
        while (!closed() && sock.DataRemaining() > 0) {
          sock.PerformRead();
          if (++guard > 300000) return false;
        }
        if (before == 0) return false;   // nothing to read and still no room
        continue;
      }
      return closed();
    }
    return true;
  }
  bool closed() { return !sock.ValidReadDescriptor(); }
  bool stopped() { return closed(); }
  size_t count() { return em.GetCounterVar("rpc-received")->Get(); }
  string summary() {
    ola::UIntMap *t = em.GetUIntMapVar("rpc-received-type", "type");
    std::ostringstream o;
    o << count() << "/" << (*t)["request"] << "/" << (*t)["response"] << "/" << (*t)["cancelled"] << "/"
      << (*t)["failed"] << "/" << (*t)["not-implemented"] << "/" << (*t)["stream_request"]
      << (closed() ? "X" : "");
    return o.str();
  }
  string state() {
    if (closed()) return "X";
    return "e" + vh::str(ch->m_expected_size) + "c" + vh::str(ch->m_expected_size ? ch->m_current_size : 0) +
           "h" + vh::str(ch->m_header_read);
  }
};

// The real RobeWidget (label switch of RobeWidgetImpl::HandleMessage) with a DMX callback.
struct RobeWidgetFeeder : Feeder {
  ola::io::LoopbackDescriptor d;
  std::auto_ptr<ola::plugin::usbpro::RobeWidget> w;
  RobeWidgetFeeder() {
    d.Init();
    w.reset(new ola::plugin::usbpro::RobeWidget(&d, ola::rdm::UID(0x7a70, 1)));
    w->SetDmxCallback(ola::NewCallback(this, &RobeWidgetFeeder::OnDmx));
  }
  void OnDmx() {
    const ola::DmxBuffer &b = w->FetchDMX();
    g_msgs.push_back("5:" + vh::hex(b.GetRaw(), b.Size()));
  }
  ola::io::ConnectedDescriptor *desc() { return &d; }
  bool put(const uint8_t *p, size_t n) { return d.Send(p, n) == static_cast<ssize_t>(n); }
  string state() { return vh::str(static_cast<int>(w->m_impl->m_state)); }
};

// A child inflator registered with a real RootInflator for one root vector: records what the root
// layer passes down (vector, CID of the root header, data).
class ChildRecorder : public ola::acn::InflatorInterface {
 public:
  explicit ChildRecorder(uint32_t vector) : m_vector(vector) {}
  uint32_t Id() const { return m_vector; }
  unsigned int InflatePDUBlock(ola::acn::HeaderSet *headers, const uint8_t *data, unsigned int len) {
    uint8_t cid[ola::acn::CID::CID_LENGTH];
    headers->GetRootHeader().GetCid().Pack(cid);
    string payload = vh::hex(cid, sizeof(cid));
    if (len) payload += vh::hex(data, len);
    g_msgs.push_back(vh::str(m_vector) + ":" + payload);
    return len;
  }
 private:
  uint32_t m_vector;
};

// spec "@4,5" = child inflators for those root vectors, "@-" = none
struct AcnRootFeeder : Feeder {
  ola::io::LoopbackDescriptor d;
  ola::acn::RootInflator root;
  vector<ChildRecorder*> children;
  std::auto_ptr<ola::acn::IncomingStreamTransport> t;
  bool valid;
  explicit AcnRootFeeder(const string &spec) : valid(true) {
    d.Init();
    if (spec != "@-") {
      vector<string> vs = vh::split(spec.substr(1), ',');
      for (size_t i = 0; i < vs.size(); i++) {
        children.push_back(new ChildRecorder(static_cast<uint32_t>(vh::num(vs[i]))));
        root.AddInflator(children.back());
      }
    }
    t.reset(new ola::acn::IncomingStreamTransport(
        &root, &d, ola::network::IPV4SocketAddress(ola::network::IPV4Address::Loopback(), 1)));
    d.SetOnData(ola::NewCallback(this, &AcnRootFeeder::Ready));
  }
  ~AcnRootFeeder() { t.reset(); for (size_t i = 0; i < children.size(); i++) delete children[i]; }
  void Ready() { if (valid) valid = t->Receive(); }
  ola::io::ConnectedDescriptor *desc() { return &d; }
  bool put(const uint8_t *p, size_t n) { return d.Send(p, n) == static_cast<ssize_t>(n); }
  string state() {
    return valid ? vh::str(static_cast<int>(t->m_state)) + "/" + vh::str(t->m_outstanding_data) : "X";
  }
  bool stopped() { return !valid; }
};

// The real serial entry point: a pseudo terminal whose slave side is opened with
// BaseUsbProWidget::OpenDevice(), so every byte passes the tty line discipline as configured there.
struct TtyFeeder : Feeder {
  int master;
  string path;
  ola::io::ConnectedDescriptor *dev;
  std::auto_ptr<ola::plugin::usbpro::DispatchingUsbProWidget> usb;
  std::auto_ptr<ola::plugin::usbpro::DispatchingRobeWidget> robe;
  bool ok;
  explicit TtyFeeder(bool is_robe) : master(-1), dev(NULL), ok(false) {
    master = posix_openpt(O_RDWR | O_NOCTTY | O_NONBLOCK);
    if (master < 0 || grantpt(master) != 0 || unlockpt(master) != 0) return;
    const char *name = ptsname(master);
    if (!name) return;
    path = name;
    dev = ola::plugin::usbpro::BaseUsbProWidget::OpenDevice(path);
    if (!dev) return;
    if (is_robe) robe.reset(new ola::plugin::usbpro::DispatchingRobeWidget(dev, ola::NewCallback(&on_msg)));
    else usb.reset(new ola::plugin::usbpro::DispatchingUsbProWidget(dev, ola::NewCallback(&on_msg)));
    ok = true;
  }
  ~TtyFeeder() {
    usb.reset();
    robe.reset();
    if (dev) { dev->Close(); delete dev; ola::io::ReleaseUUCPLock(path); }
    if (master >= 0) close(master);
  }
  ola::io::ConnectedDescriptor *desc() { return dev; }
  bool put(const uint8_t *p, size_t n) {
    if (!ok) return false;
    size_t off = 0;
    while (off < n) {
      // the tty input queue holds about 4 kB: feed it in pieces; the line discipline hands the bytes
      // to the slave side asynchronously, so wait until the widget has read all of them (or nothing
      // more arrives for a while: bytes the line discipline swallowed never will)
      size_t piece = n - off > 1024 ? 1024 : n - off;
      unsigned long long before = g_read_total;
      ssize_t w = write(master, p + off, piece);
      if (w < 0 && (errno == EAGAIN || errno == EINTR)) w = 0;
      if (w < 0) return false;
      off += w;
      int quiet = 0;
      while (g_read_total - before < static_cast<unsigned long long>(w) && quiet < 15) {
        struct pollfd pfd;
        pfd.fd = dev->ReadDescriptor();
        pfd.events = POLLIN;
        pfd.revents = 0;
        unsigned long long seen = g_read_total;
        poll(&pfd, 1, 20);
        unsigned long guard = 0;
        while (dev->DataRemaining() > 0) {
          dev->PerformRead();
          if (++guard > 300000) return false;
        }
        quiet = (g_read_total == seen) ? quiet + 1 : 0;
      }
      if (w == 0 && quiet >= 15) return false;
    }
    return true;
  }
  string state() {
    return usb.get() ? vh::str(static_cast<int>(usb->m_state)) : vh::str(static_cast<int>(robe->m_state));
  }
};

static Feeder *make_feeder(const string &proto) {
  if (proto == "usbprotty") return new TtyFeeder(false);
  if (proto == "robetty") return new TtyFeeder(true);
  if (proto == "robew") return new RobeWidgetFeeder();
  if (proto.compare(0, 8, "acnroot@") == 0) return new AcnRootFeeder(proto.substr(7));
  if (proto == "rpc") return new RpcFeeder();
  if (proto == "usbpro") return new UsbProFeeder();
  if (proto == "robe") return new RobeFeeder();
  if (proto.compare(0, 3, "opc") == 0) return new OpcFeeder(proto.substr(3));
  if (proto == "acn") return new AcnFeeder();
  return NULL;
}

static string run_partition(const string &proto, const vector<uint8_t> &stream, const string &part,
                            size_t cap, string *trace) {
  g_sink = &g_default_sink;
  std::auto_ptr<Feeder> f(make_feeder(proto));
  if (!f->desc()) return "no-device";
  g_sink = &f->sink;
  g_fd = f->desc()->ReadDescriptor();
  g_cap = cap;
  vector<string> steps;
  size_t pos = 0;
  vector<string> sizes = vh::split(part, ',');
  for (size_t i = 0; i < sizes.size(); i++) {
    size_t n = vh::num(sizes[i]);
    if (n > stream.size() - pos) n = stream.size() - pos;
    if (n && !f->stopped()) {
      if (!f->put(stream.data() + pos, n)) return "write-failed";
      // level-triggered delivery: the read callback runs again while data remains
      unsigned long guard = 0;
      while (f->desc()->DataRemaining() > 0 && !f->stopped()) {
        f->desc()->PerformRead();
        if (++guard > 300000) return "livelock";
      }
    }
    pos += n;
    steps.push_back(vh::str(f->count()) + "@" + f->state());
  }
  g_fd = -1;
  g_cap = 0;
  *trace = join(steps, ",");
  string r = f->summary();
  g_sink = &g_default_sink;
  return r;
}

static bool drain(Feeder *f) {
  unsigned long guard = 0;
  while (f->desc()->DataRemaining() > 0 && !f->stopped()) {
    f->desc()->PerformRead();
    if (++guard > 300000) return false;
  }
  return true;
}

// inter <proto> <hex0>,<hex1>,... <i:n,i:n,...>
// several live instances of one framer; the schedule says which instance receives how many bytes of
// its own stream next.  Result: per instance its deliveries and the per-step trace.
static string do_inter(const vector<string> &a) {
  vector<string> hexes = vh::split(a[2], ',');
  vector<vector<uint8_t> > streams;
  vector<Feeder*> fs;
  vector<size_t> pos(hexes.size(), 0);
  vector<vector<string> > steps(hexes.size());
  for (size_t i = 0; i < hexes.size(); i++) {
    streams.push_back(vh::unhex(hexes[i]));
    fs.push_back(make_feeder(a[1]));
  }
  string err;
  vector<string> sched = vh::split(a[3], ',');
  for (size_t k = 0; k < sched.size() && err.empty(); k++) {
    vector<string> p = vh::split(sched[k], ':');
    size_t i = vh::num(p[0]), n = vh::num(p[1]);
    if (i >= fs.size()) continue;
    if (n > streams[i].size() - pos[i]) n = streams[i].size() - pos[i];
    g_sink = &fs[i]->sink;
    g_fd = -1;
    if (n && !fs[i]->stopped()) {
      if (!fs[i]->put(streams[i].data() + pos[i], n)) err = "write-failed";
      else if (!drain(fs[i])) err = "livelock";
    }
    pos[i] += n;
    steps[i].push_back(vh::str(fs[i]->count()) + "@" + fs[i]->state());
  }
  string out;
  for (size_t i = 0; i < fs.size(); i++) {
    g_sink = &fs[i]->sink;
    out += "m" + vh::str(i) + "=" + (err.empty() ? fs[i]->summary() : err) + ";s" + vh::str(i) + "=" +
           join(steps[i], ",") + ";";
  }
  g_sink = &g_default_sink;
  for (size_t i = 0; i < fs.size(); i++) delete fs[i];
  return out + "agree=1";
}

// conns opc[@chs] <hex|part>;<hex|part>;...
// one long-lived OPCServer; each connection is fed its own stream under its partition and then
// closed by the client (the last one stays open); the poller of a real SelectServer notices the
// close.  Result: per connection its deliveries and trace.
static string do_conns(const vector<string> &a) {
  OpcFeeder base(a[1].substr(3));           // owns the server (and a first, unused connection)
  vector<string> conns = vh::split(a[2], ';');
  string out;
  for (size_t c = 0; c < conns.size(); c++) {
    vector<string> hp = vh::split(conns[c], '|');
    vector<uint8_t> stream = vh::unhex(hp[0]);
    vector<string> sink;
    g_sink = &sink;
    int sv[2];
    if (socketpair(AF_UNIX, SOCK_STREAM, 0, sv) != 0) return "harness-error=socketpair";
    ola::network::TCPSocket *sock = new ola::network::TCPSocket(sv[0]);
    sock->SetReadNonBlocking();
    base.server->NewTCPConnection(sock);
    vector<string> steps;
    vector<string> sizes = vh::split(hp[1], ',');
    size_t pos = 0;
    string err;
    for (size_t i = 0; i < sizes.size() && err.empty(); i++) {
      size_t n = vh::num(sizes[i]);
      if (n > stream.size() - pos) n = stream.size() - pos;
      if (n) {
        if (write(sv[1], stream.data() + pos, n) != static_cast<ssize_t>(n)) err = "write-failed";
        unsigned long guard = 0;
        while (err.empty() && sock->DataRemaining() > 0) {
          sock->PerformRead();
          if (++guard > 300000) err = "livelock";
        }
      }
      pos += n;
      ola::plugin::openpixelcontrol::OPCServer::RxState *rx = base.server->m_clients[sock];
      steps.push_back(vh::str(sink.size()) + "@" + vh::str(rx ? rx->offset : 0));
    }
    out += "m" + vh::str(c) + "=" + (err.empty() ? join(sink, ",") : err) + ";s" + vh::str(c) + "=" +
           join(steps, ",") + ";";
    close(sv[1]);
    if (c + 1 < conns.size()) {
      // the client went away: let the event loop see the hang-up, run the close handler and the
      // deferred socket cleanup
      for (int k = 0; k < 3; k++) g_ss->RunOnce(ola::TimeInterval(0, 2000));
    }
  }
  g_sink = &g_default_sink;
  return out + "agree=1";
}

static string do_recv(const vector<string> &a) {
  // recv <size> <srchex> <script>
  size_t size = vh::num(a[1]);
  g_src = vh::unhex(a[2]);
  g_src_pos = 0;
  g_script.clear();
  if (a[3] != "-") {
    vector<string> toks = vh::split(a[3], ',');
    for (size_t i = 0; i < toks.size(); i++) {
      Tok t;
      if (toks[i] == "A" || toks[i] == "I" || toks[i] == "E") { t.kind = toks[i][0]; t.n = 0; }
      else { t.kind = 'n'; t.n = vh::num(toks[i]); }
      g_script.push_back(t);
    }
  }
  ola::io::LoopbackDescriptor d;
  d.Init();
  uint8_t *buf = new uint8_t[size];   // exact size: ASan sees any write past buffer + size
  memset(buf, 0xee, size);
  unsigned int n = 12345;
  g_fd = d.ReadDescriptor();
  g_script_on = true;
  int ret = d.Receive(buf, size, n);
  g_script_on = false;
  g_fd = -1;
  string r = "ret=" + vh::str(ret) + ";n=" + vh::str(n) + ";buf=" + vh::hex(buf, size) +
             ";used=" + vh::str(g_src_pos);
  delete[] buf;
  return r;
}

static string handle(const string &p) {
  vector<string> a = vh::split(p);
  if (a[0] == "inter") {
    if (a.size() != 4) return "bad-op";
    return do_inter(a);
  }
  if (a[0] == "conns") {
    if (a.size() != 3 || a[1].compare(0, 3, "opc") != 0) return "bad-op";
    return do_conns(a);
  }
  if (a[0] == "recv") {
    if (a.size() != 4) return "bad-op";
    return do_recv(a);
  }
  // <proto> <cap> <streamhex> <part>/<part>/...
  // rpc has a fifth field (the bodies the protobuf parser rejects), used by the model only
  if (!((a.size() == 4 && (a[0] == "usbpro" || a[0] == "robe" || a[0] == "robew" || a[0] == "usbprotty" || a[0] == "robetty" || a[0] == "opc" || a[0] == "acn" ||
                           a[0].compare(0, 4, "opc@") == 0 || a[0].compare(0, 8, "acnroot@") == 0)) ||
        (a.size() == 5 && a[0] == "rpc")))
    return "bad-op";
  size_t cap = vh::num(a[1]);
  vector<uint8_t> stream = vh::unhex(a[2]);
  vector<string> parts = vh::split(a[3], '/');
  string out;
  bool agree = true;
  string first;
  for (size_t i = 0; i < parts.size(); i++) {
    string trace;
    string m = run_partition(a[0], stream, parts[i], cap, &trace);
    if (i == 0) first = m;
    else if (m != first) agree = false;
    out += "m" + vh::str(i) + "=" + m + ";s" + vh::str(i) + "=" + trace + ";";
  }
  out += string("agree=") + (agree ? "1" : "0");
  return out;
}

int main(int argc, char **argv) {
  ola::InitLogging(ola::OLA_LOG_NONE, ola::OLA_LOG_NULL);
  g_ss = new ola::io::SelectServer();
  return vh::run(argc, argv, handle, 60);
}
