(* C10 model driver.
   recv <size> <srchex> <script>                 ConnectedDescriptor::Receive over a read() script
   <proto> <cap> <streamhex> <part>/<part>/...   parser fed the stream under several partitions *)
let take_l k l =
  let rec go k l acc = if k <= 0 then List.rev acc else match l with [] -> List.rev acc | x :: r -> go (k - 1) r (x :: acc) in
  go k l []
let rec drop_l k l = if k <= 0 then l else match l with [] -> [] | _ :: r -> drop_l (k - 1) r

let chunks_of (stream : n list) (part : string) : n list list =
  let sizes = List.map ios (String.split_on_char ',' part) in
  let rec go s = function
    | [] -> []
    | k :: ks -> take_l k s :: go (drop_l k s) ks in
  go stream sizes

let join sep = function [] -> "-" | l -> String.concat sep l

let msg_s proto ((l, p) : msg) =
  let l = int_of_n l in
  if proto = "acn" then "pdu:" ^ hex_of_bytes p
  else if proto = "opc" then Printf.sprintf "%d.%d:%s" (l / 256) (l mod 256) (hex_of_bytes p)
  else Printf.sprintf "%d:%s" l (hex_of_bytes p)

let ust_i = function U_PRE -> 0 | U_LABEL -> 1 | U_LO -> 2 | U_HI -> 3 | U_BODY -> 4 | U_EOM -> 5
let rst_i = function R_PRE -> 0 | R_TYPE -> 1 | R_LO -> 2 | R_HI -> 3 | R_HCRC -> 4 | R_BODY -> 5 | R_CRC -> 6

(* generic over the parser: recv function, initial state, state printer, reference framer *)
let run_gen ?(big = false) ?(post = fun (o : msg list) -> o) recv init st_s summ refm stream parts =
  let b = Buffer.create 256 in
  let agree = ref true in
  List.iteri (fun i part ->
    let chunks = chunks_of stream part in
    (* big: megabyte chunks; only the variant whose fuel is computed by a left fold is used, and the
       final result is read off the per-chunk trace *)
    let trace = if big then feed_trace_tr recv init chunks else feed_trace recv init chunks in
    let m =
      if big then begin
        let rec fin s acc = function
          | [] -> summ (List.rev acc) s
          | Done (s1, o1) :: r -> fin s1 (List.rev_append o1 acc) r
          | Oob :: _ -> "OOB" | OutOfFuel :: _ -> "OUTOFFUEL" in
        fin init [] trace end
      else match feed recv init chunks with
      | Done (s, out) -> summ out s
      | Oob -> "OOB" | OutOfFuel -> "OUTOFFUEL" in
    if m <> refm then agree := false;
    let cnt = ref 0 in
    let tr = List.rev (List.rev_map (fun r -> match r with
      | Done (s, out) -> cnt := !cnt + List.length (post out); Printf.sprintf "%d@%s" !cnt (st_s s)
      | Oob -> "OOB" | OutOfFuel -> "OUTOFFUEL") trace) in
    Buffer.add_string b (Printf.sprintf "m%d=%s;s%d=%s;" i m i (join "," tr))) parts;
  Buffer.add_string b (Printf.sprintf "agree=%s" (bool01 !agree));
  (Buffer.contents b, refm)

let run_proto proto recv init st_s reference stream parts =
  run_gen recv init st_s (fun out _ -> join "," (List.map (msg_s proto) out))
    (join "," (List.map (msg_s proto) (reference stream))) stream parts

(* RPC: what the export map of the real channel shows: frames dispatched, by type, and whether the
   channel was closed *)
let rpc_summary (out : msg list) (closed : bool) =
  let c t = List.length (List.filter (fun (l, _) -> int_of_n l = t) out) in
  Printf.sprintf "%d/%d/%d/%d/%d/%d/%d%s" (List.length out) (c 1) (c 2) (c 3) (c 4) (c 5) (c 10)
    (if closed then "X" else "")

let classify proto stream refm nparts =
  let nmsg = if refm = "-" then 0 else List.length (String.split_on_char ',' refm) in
  let l = List.length stream in
  Printf.sprintf "%s:len%s:msgs%s" proto
    (if l = 0 then "0" else if l < 16 then "<16" else if l < 700 then "<700" else ">=700")
    (if nmsg = 0 then "0" else if nmsg = 1 then "1" else if nmsg < 5 then "2-4" else ">=5")

let handle (p : string) : string =
  match split p with
  | ["recv"; size; src; script] ->
    let size = ios size in
    let src = bytes_of_hex src in
    let script = if script = "-" then [] else
      List.map (fun t -> match t with
        | "A" -> RAgain | "I" -> RIntr | "E" -> RErr
        | k -> RBytes (n_of_int (ios k))) (String.split_on_char ',' script) in
    let buf = List.init size (fun _ -> n_of_int 0xee) in
    let nb = List.length (List.filter (fun t -> match t with RBytes _ -> true | _ -> false) script) in
    let cls = Printf.sprintf "recv:size%s:reads%s%s"
      (if size = 0 then "0" else if size = 1 then "1" else "n")
      (if nb = 0 then "0" else if nb < 3 then "1-2" else ">=3")
      (if List.mem RIntr script then ":eintr" else "") in
    (match receive_call script src buf with
     | RDone (ret, n, b, rest) ->
       Printf.sprintf "ret=%d;n=%d;buf=%s;used=%d;class=%s" (int_of_z ret) (int_of_n n) (hex_of_bytes b)
         (List.length src - List.length rest) cls
     | ROob -> "ret=OOB;class=" ^ cls)
  | ["rpc"; _cap; stream; parts; bad] ->
    let stream = bytes_of_hex stream in
    let parts = String.split_on_char '/' parts in
    let bad = if bad = "-" then [] else List.map bytes_of_hex (String.split_on_char ',' bad) in
    let ok body = not (List.mem body bad) in
    let (rm, rc) = ref_rpc ok stream in
    let refm = rpc_summary rm rc in
    let (r, _) = run_gen ~big:true (p_recv ok) p_init
        (fun s -> if s.p_closed then "X" else
            Printf.sprintf "e%dc%dh%d" (int_of_n s.p_exp) (if int_of_n s.p_exp = 0 then 0 else int_of_n s.p_cur)
              (List.length s.p_hdr))
        (fun out s -> rpc_summary out s.p_closed) refm stream parts in
    let nm = List.length rm in
    r ^ Printf.sprintf ";class=rpc:msgs%s%s"
      (if nm = 0 then "0" else if nm = 1 then "1" else if nm < 5 then "2-4" else ">=5")
      (if rc then ":closed" else "")
  | [proto; _cap; stream; parts] ->
    let stream = bytes_of_hex stream in
    let parts = String.split_on_char '/' parts in
    let (r, refm) = match proto with
      | "usbpro" | "usbprotty" -> run_proto proto u_recv u_init (fun s -> string_of_int (ust_i s.u_st)) ref_usb stream parts
      | "robew" ->
        (* the real RobeWidget: only frames whose label maps to HandleDmxFrame are observable *)
        run_gen ~post:(robe_dispatch []) r_recv r_init (fun s -> string_of_int (rst_i s.r_st))
          (fun out _ -> join "," (List.map (msg_s proto) (robe_dispatch [] out)))
          (join "," (List.map (msg_s proto) (robe_dispatch [] (ref_robe stream)))) stream parts
      | "robe" | "robetty" -> run_proto proto r_recv r_init (fun s -> string_of_int (rst_i s.r_st)) ref_robe stream parts
      | p when String.length p >= 3 && String.sub p 0 3 = "opc" ->
        (* "opc" = every channel has a callback, "opc@-" = none, "opc@0,5,255" = those *)
        let reg : n -> bool =
          if p = "opc" then (fun _ -> true)
          else if p = "opc@-" then (fun _ -> false)
          else let l = List.map ios (String.split_on_char ',' (String.sub p 4 (String.length p - 4))) in
            (fun ch -> List.mem (int_of_n ch) l) in
        run_proto "opc" (f_recv reg) f_init (fun s -> string_of_int (int_of_n s.f_off)) (ref_opc reg) stream parts
      | p when String.length p >= 8 && String.sub p 0 8 = "acnroot@" ->
        (* a real RootInflator behind the transport, child inflators for the listed root vectors *)
        let spec = String.sub p 8 (String.length p - 8) in
        let l = if spec = "-" then [] else List.map ios (String.split_on_char ',' spec) in
        let reg (v : n) = List.mem (int_of_n v) l in
        let pr ((v, pl) : msg) = Printf.sprintf "%d:%s" (int_of_n v) (hex_of_bytes pl) in
        run_gen ~post:(root_deliver reg) a_recv a_init
          (fun s -> if s.a_valid then Printf.sprintf "%d/%d"
              (match s.a_st with A_PRE -> 0 | A_FLAGS -> 1 | A_LEN -> 2 | A_PDU -> 3) (int_of_n s.a_out)
            else "X")
          (fun out _ -> join "," (List.map pr (root_deliver reg out)))
          (join "," (List.map pr (root_deliver reg (ref_acn stream)))) stream parts
      | "acn" -> run_proto proto a_recv a_init
                   (fun s -> if s.a_valid then Printf.sprintf "%d/%d"
                       (match s.a_st with A_PRE -> 0 | A_FLAGS -> 1 | A_LEN -> 2 | A_PDU -> 3) (int_of_n s.a_out)
                     else "X") ref_acn stream parts
      | _ -> ("bad-op", "-") in
    let pc = if String.length proto > 3 && String.sub proto 0 4 = "opc@" then "opc-some-unregistered"
             else if String.length proto > 7 && String.sub proto 0 8 = "acnroot@" then "acn-root-inflator" else proto in
    r ^ ";class=" ^ classify pc stream refm (List.length parts)
  | _ -> "bad-op"
(* several instances / several connections: each one is its own run of the single-instance model *)
let kv_get (r : string) (k : string) : string =
  let parts = String.split_on_char ';' r in
  let pre = k ^ "=" in
  let lp = String.length pre in
  match List.find_opt (fun p -> String.length p >= lp && String.sub p 0 lp = pre) parts with
  | Some p -> String.sub p lp (String.length p - lp)
  | None -> "?"

let handle_multi (p : string) : string =
  match split p with
  | ["inter"; proto; hexes; sched] ->
    let streams = String.split_on_char ',' hexes in
    let steps = List.map (fun s -> match String.split_on_char ':' s with
        | [i; n] -> (ios i, n) | _ -> (-1, "0")) (String.split_on_char ',' sched) in
    let b = Buffer.create 256 in
    List.iteri (fun i hx ->
      let mine = List.filter_map (fun (j, n) -> if j = i then Some n else None) steps in
      let part = if mine = [] then "0" else String.concat "," mine in
      let r = handle (Printf.sprintf "%s 0 %s %s" proto hx part) in
      Buffer.add_string b (Printf.sprintf "m%d=%s;s%d=%s;" i (kv_get r "m0") i
                             (if mine = [] then "-" else kv_get r "s0"))) streams;
    Buffer.add_string b (Printf.sprintf "agree=1;class=inter:%s:n%d" proto (List.length streams));
    Buffer.contents b
  | ["conns"; token; conns] ->
    let cs = String.split_on_char ';' conns in
    let b = Buffer.create 256 in
    List.iteri (fun c hp ->
      match String.split_on_char '|' hp with
      | [hx; part] ->
        let r = handle (Printf.sprintf "%s 0 %s %s" token hx part) in
        Buffer.add_string b (Printf.sprintf "m%d=%s;s%d=%s;" c (kv_get r "m0") c (kv_get r "s0"))
      | _ -> Buffer.add_string b "bad-conn;") cs;
    Buffer.add_string b (Printf.sprintf "agree=1;class=conns:opc:n%d" (List.length cs));
    Buffer.contents b
  | _ -> handle p
let () = vh_run handle_multi
