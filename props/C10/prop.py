ID = 'C10'
GROUPS = ['common', 'acn']
CXX_SOURCES = ['plugins/usbpro/BaseUsbProWidget.cpp', 'plugins/usbpro/BaseRobeWidget.cpp',
               'plugins/usbpro/RobeWidget.cpp',
               'plugins/openpixelcontrol/OPCServer.cpp']
WRAP = ['read']

def gen_consts(v):
    import os
    ents = [('USB_SOM', 'ola::plugin::usbpro::BaseUsbProWidget::SOM'),
            ('USB_EOM', 'ola::plugin::usbpro::BaseUsbProWidget::EOM'),
            ('USB_MAX', 'ola::plugin::usbpro::BaseUsbProWidget::MAX_DATA_SIZE'),
            ('USB_BUF', 'sizeof(((ola::plugin::usbpro::BaseUsbProWidget*)0)->m_recv_buffer)'),
            ('USB_HEADER', 'sizeof(ola::plugin::usbpro::BaseUsbProWidget::message_header)'),
            ('ROBE_SOM', 'ola::plugin::usbpro::BaseRobeWidget::SOM'),
            ('ROBE_MAX', 'ola::plugin::usbpro::BaseRobeWidget::MAX_DATA_SIZE'),
            ('ROBE_BUF', 'sizeof(((ola::plugin::usbpro::BaseRobeWidget*)0)->m_recv_buffer)'),
            ('ROBE_HEADER', 'sizeof(ola::plugin::usbpro::BaseRobeWidget::message_header)'),
            ('OPC_HEADER_SIZE', 'ola::plugin::openpixelcontrol::OPC_HEADER_SIZE'),
            ('OPC_FRAME_SIZE', 'ola::plugin::openpixelcontrol::OPC_FRAME_SIZE')]
    ents += [('ACN_PDU_BLOCK_SIZE', 'ola::acn::IncomingStreamTransport::PDU_BLOCK_SIZE'),
             ('ACN_TWO_BYTES', 'ola::acn::IncomingStreamTransport::TWO_BYTES'),
             ('ACN_THREE_BYTES', 'ola::acn::IncomingStreamTransport::THREE_BYTES'),
             ('ACN_LFLAG_MASK', 'ola::acn::BaseInflator::LFLAG_MASK'),
             ('ACN_LENGTH_MASK', 'ola::acn::BaseInflator::LENGTH_MASK'),
             ('ACN_VFLAG_MASK', 'ola::acn::VFLAG_MASK'),
             ('ACN_HFLAG_MASK', 'ola::acn::HFLAG_MASK'),
             ('ACN_CID_LENGTH', 'ola::acn::CID::CID_LENGTH'),
             ('ACN_ROOT_VECTOR_SIZE', 'ola::acn::PDU::FOUR_BYTES'),
             ('ACN_VECTOR_ROOT_NULL', 'ola::acn::VECTOR_ROOT_NULL'),
             ('RPC_VERSION_MASK', 'ola::rpc::RpcHeader::VERSION_MASK'),
             ('RPC_SIZE_MASK', 'ola::rpc::RpcHeader::SIZE_MASK'),
             ('RPC_PROTOCOL_VERSION', 'ola::rpc::RpcChannel::PROTOCOL_VERSION'),
             ('RPC_MAX_BUFFER_SIZE', 'ola::rpc::RpcChannel::MAX_BUFFER_SIZE')]
    import re
    # RobeWidgetImpl::HandleMessage: the label -> handler switch, taken from the source text; the label
    # values themselves come from the compiled header
    rsrc = re.sub(r'//[^\n]*', '', open(v.repo_path('plugins/usbpro/RobeWidget.cpp')).read())
    mm = re.search(r'void RobeWidgetImpl::HandleMessage\([^)]*\)\s*\{(.*?)\n\}', rsrc, re.S)
    if not mm:
        return 'RobeWidgetImpl::HandleMessage not found'
    robe_cases = re.findall(r'case\s+(?:BaseRobeWidget::)?(\w+)\s*:\s*(\w+)\s*\(', mm.group(1))
    handler_ids = {'HandleRDMResponse': 1, 'HandleDiscoveryResponse': 2, 'HandleDmxFrame': 3}
    ents += [('ROBEL_' + name, 'ola::plugin::usbpro::BaseRobeWidget::' + name) for name, _ in robe_cases]
    # EnttecUsbProWidgetImpl::HandleMessage / HandleLabel: label -> (port, handler), from the source text;
    # the label values come from the compiled header (enum in EnttecUsbProWidgetImpl.h)
    esrc = re.sub(r'//[^\n]*', '', open(v.repo_path('plugins/usbpro/EnttecUsbProWidget.cpp')).read())
    hsrc = re.sub(r'//[^\n]*', '', open(v.repo_path('plugins/usbpro/EnttecUsbProWidgetImpl.h')).read())
    fm = re.search(r'struct OperationLabels\s*\{(.*?)static', hsrc, re.S)
    fields = re.findall(r'uint8_t\s+(\w+)\s*;', fm.group(1)) if fm else []
    def ops_names(which):
        mo = re.search(r'OperationLabels::%s\(\)\s*\{\s*OperationLabels ops = \{(.*?)\};' % which, esrc, re.S)
        return [x.strip() for x in mo.group(1).split(',') if x.strip()] if mo else []
    p1, p2 = ops_names('Port1Operations'), ops_names('Port2Operations')
    hl = re.search(r'void EnttecUsbProWidgetImpl::HandleLabel\([^)]*\)\s*\{(.*?)\n\}', esrc, re.S)
    chain = re.findall(r'ops\.(\w+)\s*==\s*label\)\s*\{\s*port->(\w+)\s*\(', hl.group(1)) if hl else []
    hm = re.search(r'void EnttecUsbProWidgetImpl::HandleMessage\([^)]*\)\s*\{(.*?)\n\}', esrc, re.S)
    thr = re.search(r'label\s*>\s*(\d+)\s*&&\s*m_ports\.size\(\)\s*>\s*1', hm.group(1)) if hm else None
    pa = re.search(r'PORT_ASSIGNMENT_LABEL\s*=\s*(\d+)', esrc)
    if not (fields and len(p1) == len(fields) and len(p2) == len(fields) and chain and thr and pa):
        return 'Enttec label dispatch not recognised in plugins/usbpro/EnttecUsbProWidget.cpp'
    ehandlers = {'HandleParameters': 1, 'HandleRDMTimeout': 2, 'HandleIncomingDataMessage': 3, 'HandleDMXDiff': 4}
    enttec_rows = []
    for port, names in ((1, p1), (2, p2)):
        for field, handler in chain:
            enttec_rows.append((names[fields.index(field)], port, ehandlers.get(handler, 99)))
    ents += [('ENTL_' + n, 'ola::plugin::usbpro::' + n) for n, _, _ in enttec_rows]
    tmp = os.path.join(v.BUILD, ID, 'Gen.headers.v')
    os.makedirs(os.path.dirname(tmp), exist_ok=True)
    if os.path.exists(tmp):
        os.unlink(tmp)
    err = v.gen_consts_cpp(ID, ['plugins/usbpro/BaseUsbProWidget.h', 'plugins/usbpro/BaseRobeWidget.h',
                                'plugins/usbpro/EnttecUsbProWidget.h', 'plugins/usbpro/EnttecUsbProWidgetImpl.h', 'plugins/openpixelcontrol/OPCConstants.h', 'libs/acn/TCPTransport.h',
                                'libs/acn/BaseInflator.h', 'libs/acn/PDU.h', 'ola/acn/CID.h', 'ola/acn/ACNFlags.h', 'ola/acn/ACNVectors.h', 'common/rpc/RpcChannel.h', 'common/rpc/RpcHeader.h'], ents, tmp)
    if err:
        return err
    # ACN_HEADER[] and INITIAL_SIZE are defined in TCPTransport.cpp only (internal linkage / out-of-class
    # definition): taken from the source text of the working tree.
    src = open(v.repo_path('libs/acn/TCPTransport.cpp')).read()
    src_nc = re.sub(r'//[^\n]*', '', src)
    m = re.search(r'const\s+uint8_t\s+ACN_HEADER\s*\[\s*\]\s*=\s*\{([^}]*)\}', src_nc)
    m2 = re.search(r'IncomingStreamTransport::INITIAL_SIZE\s*=\s*(\d+)\s*;', src_nc)
    if not m or not m2:
        return 'ACN_HEADER / INITIAL_SIZE not found in libs/acn/TCPTransport.cpp'
    hdr = [int(x.strip(), 0) for x in m.group(1).split(',') if x.strip()]
    lst = 'nil'
    for x in reversed(hdr):
        lst = '(cons %d %s)' % (x, lst)
    table = 'nil'
    for name, handler in reversed(robe_cases):
        table = '(cons (pair ROBEL_%s %d) %s)' % (name, handler_ids.get(handler, 99), table)
    extra_robe = ('(* label -> handler of RobeWidgetImpl::HandleMessage: 1 HandleRDMResponse, 2 HandleDiscoveryResponse, '
                  '3 HandleDmxFrame; labels not listed fall into the default branch *)\n'
                  'Definition ROBE_DISPATCH : list (N * N) := %s.\n' % table)
    extra = ('From Coq Require Import List.\n'
             'Definition ACN_HEADER : list N := %s.\nDefinition ACN_HEADER_SIZE : N := %d.\n'
             'Definition ACN_INITIAL_SIZE : N := %d.\n' % (lst, len(hdr), int(m2.group(1))))
    etable = 'nil'
    for n, port, handler in reversed(enttec_rows):
        etable = '(cons (pair ENTL_%s (pair %d %d)) %s)' % (n, port, handler, etable)
    extra_enttec = ('(* EnttecUsbProWidgetImpl::HandleLabel: label -> (port, handler): 1 HandleParameters, 2 HandleRDMTimeout, '
                    '3 HandleIncomingDataMessage, 4 HandleDMXDiff; port 2 labels apply above the threshold on a dual-port widget *)\n'
                    'Definition ENTTEC_DISPATCH : list (N * (N * N)) := %s.\n'
                    'Definition ENTTEC_PORT2_THRESHOLD : N := %d.\nDefinition ENTTEC_PORT_ASSIGNMENT_LABEL : N := %d.\n'
                    % (etable, int(thr.group(1)), int(pa.group(1))))
    new = open(tmp).read() + extra + extra_robe + extra_enttec
    out = os.path.join(v.VERIF, 'props', ID, 'coq', 'Gen.v')
    if not os.path.exists(out) or open(out).read() != new:
        with open(out, 'w') as f:
            f.write(new)
    return None

SPEC_KEYS = ['ret', 'n', 'buf', 'agree'] + ['m%d' % i for i in range(16)]
PROC_TIMEOUT = 1500

def hx(bs):
    return ''.join('%02x' % b for b in bs) if bs else '-'

def rbytes(rng, n, special=()):
    """n bytes, with the protocol's special bytes over-represented"""
    out = []
    for _ in range(n):
        if special and rng.random() < 0.15:
            out.append(rng.choice(special))
        else:
            out.append(rng.randrange(256))
    return out

# ---------------------------------------------------------------- frame builders (wire formats)
def usb_frame(label, data, eom=0xe7, length=None):
    n = len(data) if length is None else length
    return [0x7e, label, n & 255, (n >> 8) & 255] + list(data) + [eom]

def robe_frame(ty, data, hdelta=0, cdelta=0, length=None):
    n = len(data) if length is None else length
    hdr = [0xa5, ty, n & 255, (n >> 8) & 255]
    h = (sum(hdr) + hdelta) & 255
    c = (sum(hdr) + h + sum(data) + cdelta) & 255
    return hdr + [h] + list(data) + [c]

def opc_frame(ch, cmd, data, length=None):
    n = len(data) if length is None else length
    return [ch, cmd, (n >> 8) & 255, n & 255] + list(data)

USB_SIZES = [0, 0, 1, 1, 2, 3, 5, 25, 26, 255, 256, 257, 513, 599, 600]
ROBE_SIZES = [0, 0, 1, 1, 2, 3, 5, 25, 255, 256, 257, 513, 521, 522]
OPC_SIZES = [0, 0, 1, 1, 2, 3, 4, 5, 30, 255, 256, 511, 512, 513, 600]

def gen_stream(rng, proto, big, types=None):
    """returns (bytes, list of interesting offsets)"""
    out = []
    marks = []
    nitems = rng.choice([1, 1, 2, 2, 3, 4, 6, 10]) if not big else rng.choice([1, 2, 12, 30])
    for _ in range(nitems):
        marks.append(len(out))
        k = rng.random()
        if proto == 'usbpro':
            sp = (0x7e, 0xe7, 0, 1, 2, 88, 89)
            n = rng.choice(USB_SIZES) if rng.random() < 0.6 else rng.randrange(0, 40)
            label = rng.choice([0, 5, 6, 0x7e, 0xe7, rng.randrange(256)])
            if k < 0.55:
                out += usb_frame(label, rbytes(rng, n, sp))
            elif k < 0.63:    # wrong end byte
                out += usb_frame(label, rbytes(rng, n, sp), eom=rng.choice([0, 0x7e, 0xe6, rng.randrange(231)]))
            elif k < 0.72:    # announced length over the limit: header dropped, what follows is rescanned
                ln = rng.choice([601, 601, 602, 0x7e7e, 65535, 600 + rng.randrange(1, 3000)])
                out += [0x7e, label, ln & 255, ln >> 8]
                if ln <= 602 and rng.random() < 0.6:   # a complete frame just over the limit
                    out += rbytes(rng, ln, (0, 1)) + [0xe7]
                else:
                    out += rbytes(rng, rng.choice([0, 1, 3, 10]), sp)
            elif k < 0.80:    # noise
                out += rbytes(rng, rng.choice([1, 2, 3, 7, 20]), sp)
            elif k < 0.88:    # truncated frame followed by a complete one (swallowed or not)
                f = usb_frame(label, rbytes(rng, n, sp))
                out += f[:rng.randrange(1, len(f))]
            elif k < 0.94:    # length field one off against the data present
                d = rbytes(rng, max(n, 1), sp)
                out += usb_frame(label, d, length=len(d) + rng.choice([-1, 1]))
            else:
                out += [0x7e] * rng.choice([1, 2, 3, 4, 5])
        elif proto == 'robe':
            sp = (0xa5, 0, 1, 2, 10, 165)
            n = rng.choice(ROBE_SIZES) if rng.random() < 0.6 else rng.randrange(0, 40)
            ty = rng.choice(types or [0, 0x12, 0xa5, rng.randrange(256)])
            if k < 0.55:
                out += robe_frame(ty, rbytes(rng, n, sp))
            elif k < 0.62:
                out += robe_frame(ty, rbytes(rng, n, sp), cdelta=rng.choice([1, 255, 128]))
            elif k < 0.69:
                out += robe_frame(ty, rbytes(rng, n, sp), hdelta=rng.choice([1, 255, 128]))
            elif k < 0.77:
                ln = rng.choice([523, 523, 524, 0xa5a5, 65535, 522 + rng.randrange(1, 3000)])
                if ln <= 524 and rng.random() < 0.6:   # a complete, correctly summed frame just over the limit
                    out += robe_frame(ty, rbytes(rng, ln, (0, 1)))
                else:
                    out += [0xa5, ty, ln & 255, ln >> 8] + rbytes(rng, rng.choice([0, 1, 3, 10]), sp)
            elif k < 0.84:
                out += rbytes(rng, rng.choice([1, 2, 3, 7, 20]), sp)
            elif k < 0.91:
                f = robe_frame(ty, rbytes(rng, n, sp))
                out += f[:rng.randrange(1, len(f))]
            elif k < 0.96:
                d = rbytes(rng, max(n, 1), sp)
                out += robe_frame(ty, d, length=len(d) + rng.choice([-1, 1]))
            else:
                out += [0xa5] * rng.choice([1, 2, 3, 4, 5, 6])
        else:  # opc: every byte string is a sequence of frames
            n = rng.choice(OPC_SIZES) if rng.random() < 0.7 else rng.randrange(0, 40)
            if big and rng.random() < 0.3:
                n = rng.choice([1000, 2047, 4000, 65535 if len(out) < 70000 else 517])
            if k < 0.9:
                out += opc_frame(rng.choice([0, 1, 255, rng.randrange(256)]), rng.choice([0, 0, 1, 255]),
                                 rbytes(rng, n, (0, 1, 2)))
            else:
                f = opc_frame(rng.randrange(256), 0, rbytes(rng, n, (0, 1, 2)))
                out += f[:rng.randrange(1, len(f) + 1)]
    marks.append(len(out))
    return out, marks

ACN_HDR = [0x41, 0x53, 0x43, 0x2d, 0x45, 0x31, 0x2e, 0x31, 0x37, 0, 0, 0]

def acn_pdu(rng, n, three=None):
    """a PDU of total length n (length field included)"""
    three = (n > 4095 or rng.random() < 0.3) if three is None else three
    ls = 3 if three else 2
    body = rbytes(rng, max(n - ls, 0), (0, 1, 0x80, 0x70))
    hi = rng.choice([0, 0x40, 0x20, 0x70])      # V/H/D flags, irrelevant for framing
    if three:
        return [0x80 | hi | ((n >> 16) & 15), (n >> 8) & 255, n & 255] + body
    return [hi | ((n >> 8) & 15), n & 255] + body

def gen_acn(rng, big):
    out, marks = [], []
    nblocks = rng.choice([1, 1, 2, 3, 5]) if not big else rng.choice([1, 3, 10])
    for _ in range(nblocks):
        marks.append(len(out))
        k = rng.random()
        pdus = []
        for _ in range(rng.choice([0, 1, 1, 2, 3, 6])):
            n = rng.choice([2, 3, 3, 4, 5, 17, 255, 256, 481, 484, 485, 497, 498, 499, 500, 501, 638, 1000])
            if big and rng.random() < 0.2:
                n = rng.choice([4095, 4096, 5000, 70000])
            three = None
            if n == 2: three = False
            pdus.append(acn_pdu(rng, n, three))
        total = sum(len(x) for x in pdus)
        hdr = list(ACN_HDR)
        if k < 0.06:
            hdr[rng.randrange(12)] ^= rng.choice([1, 0x80, 0xff])        # bad packet identifier
        blen = total
        if 0.06 <= k < 0.12:
            blen = max(0, total + rng.choice([-1, 1, 5]))                # block length disagrees with the PDUs
        out += hdr + [(blen >> 24) & 255, (blen >> 16) & 255, (blen >> 8) & 255, blen & 255]
        for x in pdus:
            marks.append(len(out))
            if 0.12 <= k < 0.17 and rng.random() < 0.4:
                # length smaller than its own field
                x = [x[0] & 0xf0, rng.choice([0, 1])] + x[2:] if not (x[0] & 0x80) else [x[0] & 0xf0, 0, rng.choice([0, 1, 2])] + x[3:]
            out += x
        if 0.17 <= k < 0.22:
            out = out[:len(out) - rng.randrange(0, min(len(out), 20))]   # truncated
        if 0.22 <= k < 0.25:
            out += rbytes(rng, rng.choice([1, 5, 16, 30]))               # noise between blocks
    marks.append(len(out))
    return out, marks

def varint(n):
    out = []
    while True:
        b = n & 0x7f
        n >>= 7
        if n:
            out.append(b | 0x80)
        else:
            out.append(b)
            return out

def rpc_body(rng, ty, nbuf):
    """serialised ola.rpc.RpcMessage {type, id, name, buffer}"""
    b = [0x08, ty]
    if rng.random() < 0.8:
        b += [0x10] + varint(rng.choice([0, 1, 127, 128, 300, 0xffffffff, rng.randrange(1 << 32)]))
    if rng.random() < 0.6:
        name = [ord(c) for c in rng.choice(['Echo', 'GetDmx', 'X', ''])]
        b += [0x1a, len(name)] + name
    if nbuf is not None:
        b += [0x22] + varint(nbuf) + rbytes(rng, nbuf, (0, 1, 0x10))
    return b

RPC_BAD = [[0x08], [0x10, 0x01], [0xff], [0x08, 0x0b], [0x0a, 0x05, 0x01], [0x08, 0x01, 0x22, 0x05, 0x00],
           [0x0d, 1, 0, 0, 0]]

def rpc_frame(body, version=1, size=None):
    n = len(body) if size is None else size
    h = ((version & 15) << 28) | (n & 0x0fffffff)
    return [h & 255, (h >> 8) & 255, (h >> 16) & 255, (h >> 24) & 255] + list(body)

def gen_rpc(rng, big):
    out, marks, bad = [], [], []
    nitems = rng.choice([1, 2, 2, 3, 4, 6, 10]) if not big else rng.choice([2, 12, 30])
    for item in range(nitems):
        marks.append(len(out))
        k = rng.random()
        if 0.88 <= k < 0.94 and item != nitems - 1:
            k = 0.1    # a truncated frame is generated only at the end of the stream (what it would
                       # swallow as its body has an unknown parse verdict)
        ty = rng.choice([1, 2, 3, 4, 5, 10, 1, 2, 10, 6, 7, 9])
        nbuf = rng.choice([None, 0, 1, 5, 30, 200, 2030, 2040, 2047, 2048, 2049, 3000])
        if big and rng.random() < 0.2:
            nbuf = rng.choice([5000, 70000])
        if k < 0.62:
            out += rpc_frame(rpc_body(rng, ty, nbuf))
        elif k < 0.74:     # empty frame: skipped, whatever the version bits say
            out += rpc_frame([], version=rng.choice([1, 1, 1, 0, 2, 15]))
        elif k < 0.79:     # wrong protocol version: the channel is closed
            out += rpc_frame(rpc_body(rng, ty, 3), version=rng.choice([0, 2, 15]))
        elif k < 0.83:     # announced size over the limit: closed
            out += rpc_frame(rbytes(rng, rng.choice([0, 3, 10])), size=rng.choice([(1 << 20) + 1, 0x0fffffff, (1 << 21)]))
        elif k < 0.88:     # a body the protobuf parser rejects: closed
            b = rng.choice(RPC_BAD)
            if b not in bad:
                bad.append(b)
            out += rpc_frame(b)
        elif k < 0.94:     # truncated frame
            f = rpc_frame(rpc_body(rng, ty, rng.choice([5, 30, 200])))
            out += f[:rng.randrange(1, len(f))]
        else:              # a body with a trailing field the parser does not know (accepted)
            out += rpc_frame(rpc_body(rng, ty, 10) + [0x28, rng.randrange(128)])
    marks.append(len(out))
    return out, marks, bad

def gen_acnroot(rng, big):
    """blocks of root-layer PDUs: flags|length, 4-byte vector, 16-byte CID, data; returns (bytes, marks, vectors)"""
    out, marks = [], []
    pool = [4, 5, 6, 0, 0x0b, rng.randrange(1 << 32)]
    for _ in range(rng.choice([1, 1, 2, 3]) if not big else rng.choice([2, 6])):
        marks.append(len(out))
        pdus = []
        for _ in range(rng.choice([1, 1, 2, 3, 5])):
            v = rng.choice(pool)
            k = rng.random()
            flags = 0x60                      # V | H
            body = [(v >> 24) & 255, (v >> 16) & 255, (v >> 8) & 255, v & 255]
            body += [0] * 16 if rng.random() < 0.1 else rbytes(rng, 16)
            body += rbytes(rng, rng.choice([0, 0, 1, 5, 40, 638 if big else 60]))
            if k < 0.10:
                flags = 0x20                  # no vector: nothing to inherit
            elif k < 0.20:
                flags = 0x40                  # no header: no CID to inherit
            elif k < 0.28:
                flags = 0x00
            elif k < 0.36:
                body = body[:rng.choice([0, 1, 3, 4, 5, 19])]      # too short for vector + CID
            elif k < 0.42:
                flags |= 0x10                 # D flag: ignored
            n = len(body)
            three = (n + 2 > 4095) or rng.random() < 0.25
            ls = 3 if three else 2
            n += ls
            if three:
                pdus.append([0x80 | flags | ((n >> 16) & 15), (n >> 8) & 255, n & 255] + body)
            else:
                pdus.append([flags | ((n >> 8) & 15), n & 255] + body)
        total = sum(len(x) for x in pdus)
        hdr = list(ACN_HDR)
        if rng.random() < 0.05:
            hdr[rng.randrange(12)] ^= 1
        out += hdr + [(total >> 24) & 255, (total >> 16) & 255, (total >> 8) & 255, total & 255]
        for x in pdus:
            marks.append(len(out))
            out += x
    marks.append(len(out))
    regs = sorted({v for v in pool if v != 6 and rng.random() < 0.5})
    return out, marks, regs

def part_from_cuts(total, cuts):
    cuts = sorted({c for c in cuts if 0 < c < total})
    pts = [0] + cuts + [total]
    return ','.join(str(pts[i + 1] - pts[i]) for i in range(len(pts) - 1))

def partitions(rng, total, marks, big, coarse):
    if total == 0:
        return ['0', '0,0']
    if coarse:
        # quick tier: long streams get coarse partitions only
        ps = [str(total)]
        for step in (rng.choice([509, 997]), rng.choice([4093, 516, 517]), 65536):
            ps.append(part_from_cuts(total, range(step, total, max(step, total // 150))))
        ps.append(part_from_cuts(total, [rng.randrange(total + 1) for _ in range(5)]))
        cuts = []
        for m in marks[:20]:
            cuts += [m + d for d in (-1, 1, 2, 3, 4, 5)]
        ps.append(part_from_cuts(total, cuts))
        return ps
    ps = []
    if not big:
        ps.append(','.join(['1'] * total))                     # one byte at a time
    else:
        ps.append(part_from_cuts(total, range(rng.choice([97, 251, 509]), total, rng.choice([97, 251, 509]))))
    ps.append(str(total))                                      # all at once
    k = rng.choice([1, 2, 3, 5, 8, 20])
    ps.append(part_from_cuts(total, [rng.randrange(total + 1) for _ in range(k)]))   # random
    # a boundary at every header offset of every frame (and around its end)
    cuts = []
    for m in marks:
        cuts += [m + d for d in range(-2, 8)]
    ps.append(part_from_cuts(total, cuts))
    # one boundary at a single chosen header/trailer offset
    m = rng.choice(marks)
    ps.append(part_from_cuts(total, [m + rng.choice([-1, 0, 1, 2, 3, 4, 5, 6])]))
    # fixed-size reads
    step = rng.choice([2, 3, 4, 5, 7, 16, 64, 516, 517, 600])
    ps.append(part_from_cuts(total, range(step, total, step)))
    return ps

def recv_case(rng):
    size = rng.choice([0, 1, 2, 3, 4, 6, 8, 16, 33])
    nsrc = rng.choice([size, size, size + 5, max(0, size - 1), size // 2, 0, 2 * size + 1])
    src = [rng.randrange(256) for _ in range(nsrc)]
    toks = []
    for _ in range(rng.choice([0, 1, 2, 3, 3, 4, 6, 10])):
        k = rng.random()
        if k < 0.65:
            toks.append(str(rng.choice([0, 1, 1, 1, 2, 2, 3, max(size - 1, 0), size, size + 1, rng.randrange(40)])))
        elif k < 0.8:
            toks.append('I')
        elif k < 0.93:
            toks.append('A')
        else:
            toks.append('E')
    return 'recv %d %s %s' % (size, hx(src), ','.join(toks) if toks else '-')

def gen_cases(rng, tier):
    quick = tier == 'quick'
    n_stream = 380 if quick else 5000
    for proto in ('usbpro', 'robe', 'opc', 'acn'):
        for i in range(n_stream):
            big = (i % 40 == 39)
            st, marks = gen_acn(rng, big) if proto == 'acn' else gen_stream(rng, proto, big)
            if proto != 'opc' and len(st) > 50000:
                st = st[:50000]
            cap = rng.choice([0, 0, 0, 0, 1, 2, 3, 7, 100])
            coarse = len(st) > 6000 and quick
            # thorough: long streams (all protocols) are also replayed one byte at a time
            strided = coarse or (big and quick)
            tok = proto
            if proto == 'opc' and rng.random() < 0.7:
                # the receiving side's configuration: callbacks for some channels only (channel 0 included
                # or not), so registered and unregistered frames are mixed in one stream
                pool = [0, 1, 255] + [rng.randrange(256) for _ in range(2)]
                chs = sorted({c for c in pool if rng.random() < 0.5})
                tok = 'opc@' + (','.join(str(c) for c in chs) if chs else '-')
            yield '%s %d %s %s' % (tok, cap, hx(st), '/'.join(partitions(rng, len(st), marks, strided, coarse)))
    # ---- the real serial entry point: a pseudo terminal opened through BaseUsbProWidget::OpenDevice();
    # every byte value must come through the line discipline untouched (CR/NL, XON/XOFF, DEL, ^C, ^D, ^Z ...)
    TTY_SPECIAL = (0x0a, 0x0d, 0x11, 0x13, 0x7f, 0x03, 0x04, 0x1a, 0x1c, 0x15, 0x16, 0x17, 0x00, 0xff, 0x08)
    for proto in ('usbprotty', 'robetty'):
        for i in range(40 if quick else 1200):
            base = 'usbpro' if proto == 'usbprotty' else 'robe'
            if i % 4 == 0:
                # a frame whose payload holds every byte value, plus special bytes as label / type
                data = list(range(256)) + rbytes(rng, rng.choice([0, 5, 100]), TTY_SPECIAL)
                lab = rng.choice(TTY_SPECIAL)
                st = usb_frame(lab, data) if base == 'usbpro' else robe_frame(lab, data)
                st = st + st[:rng.choice([0, 0, 3])]
                marks = [0, len(st)]
            else:
                st, marks = gen_stream(rng, base, False, types=list(TTY_SPECIAL) + [5, 6] if base == 'robe' else None)
                st = [rng.choice(TTY_SPECIAL) if rng.random() < 0.25 else b for b in st] if i % 4 == 1 else st
            st = st[:6000]
            yield '%s 0 %s %s' % (proto, hx(st), '/'.join(partitions(rng, len(st), marks, len(st) > 3000, len(st) > 3000)))
    # ---- several live instances of one framer, fed interleaved partial reads: each must behave as if alone
    for proto in ('usbpro', 'robe', 'opc', 'acn'):
        for i in range(50 if quick else 1500):
            n = rng.choice([2, 2, 3])
            streams, pieces = [], []
            for k in range(n):
                if proto == 'acn':
                    st, marks = gen_acn(rng, False)
                else:
                    st, marks = gen_stream(rng, proto, False)
                st = st[:3000]
                streams.append(st)
                total = len(st)
                cuts = {rng.randrange(total + 1) for _ in range(rng.choice([1, 3, 8]))} if total else set()
                for mk in marks:
                    if rng.random() < 0.6:
                        cuts.add(mk + rng.choice([1, 2, 3, 4, 5, 6]))
                pts = [0] + sorted(c for c in cuts if 0 < c < total) + [total]
                pieces.append([pts[j + 1] - pts[j] for j in range(len(pts) - 1)])
            sched = []
            idx = [0] * n
            while any(idx[k] < len(pieces[k]) for k in range(n)):
                k = rng.choice([k for k in range(n) if idx[k] < len(pieces[k])])
                sched.append('%d:%d' % (k, pieces[k][idx[k]]))
                idx[k] += 1
            yield 'inter %s %s %s' % (proto, ','.join(hx(s) for s in streams), ','.join(sched) if sched else '0:0')
    # ---- connection lifecycle on one long-lived OPC server: a client drops at any offset inside a frame,
    # the next connection must be framed from a fresh state
    for i in range(120 if quick else 3000):
        tok = 'opc'
        if rng.random() < 0.3:
            tok = 'opc@' + ','.join(str(c) for c in sorted({0, 1, 255} - {rng.choice([0, 1, 255])}))
        conns = []
        for c in range(rng.choice([2, 2, 3])):
            st, marks = gen_stream(rng, 'opc', False)
            st = st[:2500]
            marks = [x for x in marks if x < len(st)] + [len(st)]
            if c == 0 or rng.random() < 0.5:
                # cut inside a frame: at a header offset, one byte short of the end, or anywhere
                m = rng.choice(marks[:-1]) if len(marks) > 1 else 0
                nxt = min([x for x in marks if x > m] + [len(st)])
                k = rng.choice([m + 1, m + 2, m + 3, m + 4, m + 5, nxt - 1, rng.randrange(m, max(m, nxt) + 1)])
                st = st[:max(0, min(k, len(st)))]
            total = len(st)
            part = part_from_cuts(total, [rng.randrange(total + 1) for _ in range(rng.choice([0, 1, 3]))]) if total else '0'
            conns.append('%s|%s' % (hx(st), part))
        yield 'conns %s %s' % (tok, ';'.join(conns))
    # the real RobeWidget: labels with a handler (DMX in, RDM response, discovery response) and
    # without one, mixed in one stream
    for i in range(150 if quick else 2500):
        big = (i % 40 == 39)
        st, marks = gen_stream(rng, 'robe', big, types=[5, 5, 5, 0x11, 0x13, 0, 0x12, 4, 6, rng.randrange(256)])
        st = st[:50000]
        coarse = len(st) > 6000 and quick
        cap = rng.choice([0, 0, 0, 0, 1, 2, 3, 7, 100])
        yield 'robew %d %s %s' % (cap, hx(st), '/'.join(partitions(rng, len(st), marks, coarse or (big and quick), coarse)))
    for i in range(200 if quick else 3000):
        big = (i % 40 == 39)
        st, marks, regs = gen_acnroot(rng, big)
        coarse = len(st) > 6000 and quick
        cap = rng.choice([0, 0, 0, 0, 1, 2, 3, 7, 100])
        yield 'acnroot@%s %d %s %s' % (','.join(str(v) for v in regs) if regs else '-', cap, hx(st),
                                       '/'.join(partitions(rng, len(st), marks, coarse or (big and quick), coarse)))
    for i in range(300 if quick else 4000):
        big = (i % 40 == 39)
        st, marks, bad = gen_rpc(rng, big)
        coarse = len(st) > (6000 if quick else 100000)
        cap = rng.choice([0, 0, 0, 0, 1, 2, 3, 7, 100])
        yield 'rpc %d %s %s %s' % (cap, hx(st), '/'.join(partitions(rng, len(st), marks, coarse or (big and quick), coarse)),
                                   ','.join(hx(b) for b in bad) if bad else '-')
    # the largest OPC frame (65535 bytes of data: the buffer grows to 65539) and its neighbours, one
    # byte at a time, followed by a small frame (thorough only: 65 k read calls per partition)
    if not quick:
        for n in (65535, 65534, 65532, 40000):
            st = opc_frame(7, 0, rbytes(rng, n, (0, 1, 2))) + opc_frame(1, 0, [5, 6, 7]) + opc_frame(2, 1, [])
            total = len(st)
            ps = [','.join(['1'] * total), str(total), part_from_cuts(total, [3, 4, 5, total - 12, total - 11, total - 4]),
                  part_from_cuts(total, range(516, total, 516))]
            yield 'opc 0 %s %s' % (hx(st), '/'.join(ps))
    # one long-lived channel receiving several large frames (buffer state is carried from message to
    # message): sizes around 512 kB and 1 MB, in increasing, decreasing and mixed order
    big_sizes = [524287, 524288, 524289, 600000, 700000, 1048575, 1048576]
    for i in range(3 if quick else 36):
        k = rng.choice([2, 2, 3, 4])
        sizes = [rng.choice(big_sizes) for _ in range(k)]
        order = i % 3
        if order == 0:
            sizes.sort()
        elif order == 1:
            sizes.sort(reverse=True)
        if i == 0:
            sizes = [600000, 700000]
        st, marks = [], []
        for sz in sizes:
            marks.append(len(st))
            if rng.random() < 0.4:
                st += rpc_frame(rpc_body(rng, rng.choice([1, 2, 10]), rng.choice([0, 5, 300])))
            nbuf = sz - 8                      # 08 TT 10 01 22 <3-byte varint> <buffer>
            body = [0x08, rng.choice([1, 2, 10]), 0x10, 0x01, 0x22] + varint(nbuf) + [0] * nbuf
            for _ in range(20):
                body[8 + rng.randrange(nbuf)] = rng.randrange(256)
            assert len(body) == sz
            st += rpc_frame(body)
        if rng.random() < 0.5:
            marks.append(len(st))
            st += rpc_frame(rpc_body(rng, 2, 3))
        total = len(st)
        ps = [str(total), part_from_cuts(total, range(65536, total, 65536)),
              part_from_cuts(total, [rng.randrange(total) for _ in range(5)]),
              part_from_cuts(total, [m + d for m in marks for d in (2, 4, 5)])]
        yield 'rpc 0 %s %s -' % (hx(st), '/'.join(ps))
    # syscall-level splitting of one Receive call
    for size in (0, 1, 2, 3, 6):
        for sc in ('-', '1', '1,1', '1,1,1', '2,2,2', '1,2,3', 'I', 'I,1', '1,I,1', 'A', 'E', '0', '1,0,1', '1,A,1',
                   '1,E', 'I,I,I,6', '7', '3,3', '1,1,1,1,1,1,1'):
            yield 'recv %d %s %s' % (size, hx([(17 * j + 3) & 255 for j in range(size + 2)]), sc)
    for i in range(1500 if quick else 30000):
        yield recv_case(rng)

def nontrivial(payload, md):
    """a parser case that delivered at least one message under at least two partitions which differ,
    or a Receive call that stored at least one byte after at least two read() calls"""
    if payload.startswith('recv'):
        return md.get('n', '0') not in ('0',) and payload.split(' ')[3].count(',') >= 1
    if payload.startswith('inter ') or payload.startswith('conns '):
        return any(md.get('m%d' % i, '-') not in ('-', '?') for i in range(4))
    if payload.startswith('opc@'):
        return 'm1' in md and md.get('s0') != md.get('s1') and len(payload) > 40
    if payload.startswith('rpc'):
        return not md.get('m0', '0/').startswith('0/') and md.get('s0') != md.get('s1')
    return md.get('m0', '-') != '-' and 'm1' in md and md.get('s0') != md.get('s1')

RULE = ('per protocol (usbpro, robe, opc, acn, rpc; rpc: RpcMessage frames of all types with bodies around the 2 kB initial buffer, empty frames, wrong version, size over 1 MB, unparsable bodies, truncation; plus histories of 2-4 frames of 512 kB-1 MB (increasing, decreasing, mixed sizes) on one channel under whole / 64 kB / random / header-offset partitions; acn: blocks of 0-6 PDUs with lengths 2..1000 and 4095/4096/5000/70000, 2- and 3-byte length fields, bad identifier, block length off by -1/+1/+5, length smaller than its field, truncation, noise): streams of 1-30 items drawn from valid frames with payload sizes at '
        '0/1/limit-1/limit, wrong end byte / header CRC / data CRC, announced length limit+1..65535, truncated '
        'frames, off-by-one length fields, noise rich in start/end bytes; every stream replayed under 6 '
        'partitions (1-byte, whole, random cuts, a cut at offsets -2..+7 of every item, one single cut near a '
        'header, fixed-size reads) and with the read() size capped at 0/1/2/3/7/100 bytes; plus Receive calls '
        'over scripted read() results (n bytes, EAGAIN, EINTR, EOF, EIO; sizes 0..33). Non-trivial = at least '
        'one message delivered under two partitions with different per-chunk traces, or a Receive that '
        'stored bytes after >= 2 read() calls; distinct = distinct model output line')
ASSUMPTIONS = ['the kernel delivers the bytes of a pipe/socket in order',
               'readiness is level-triggered (select/epoll-LT as used by SelectServer): the read callback runs '
               'again while unread data remains',
               'operator new does not fail (OPC buffer growth)']
TRUSTED = ['modelled rather than verified: ConnectedDescriptor::Receive (POSIX branch), '
           'BaseUsbProWidget::ReceiveMessage/DescriptorReady, BaseRobeWidget::ReceiveMessage/DescriptorReady, '
           'OPCServer::SocketReady/RxState::CheckSize, RobeWidgetImpl::HandleMessage/HandleDmxFrame, BaseInflator::InflatePDUBlock/DecodeLength/DecodeVector/InflatePDU + RootInflator::DecodeHeader for one PDU, IncomingStreamTransport::Receive/ReadRequiredData/'
           'IncreaseBufferSize/Handle*/Enter* (libs/acn/TCPTransport.cpp, with a recording inflator), RpcChannel::DescriptorReady/ReadHeader; the receive buffers are modelled as the list of bytes '
           'stored so far plus an explicit capacity check on every store; SOM/EOM/size limits regenerated '
           'into Gen.v',
           'reference framers ref_usb/ref_robe/ref_opc/ref_acn/ref_rpc are hand-written from the wire formats (their '
           'resynchronisation rules are stated in Model.v)',
           'read() interposed with ld --wrap in the harness only']
LEVEL_TEXT = ('Coq theorems over executable models of the code, for all five framers the property names and for '
              'ConnectedDescriptor::Receive. Receive: any script of read() results, no store outside the buffer, count = '
              'sum of successful reads, buffer prefix = their concatenation. Enttec USB Pro, Robe, the Open Pixel '
              'Control server, the ACN TCP transport (IncomingStreamTransport incl. buffer growth and stream '
              'invalidation) and the RPC channel (fixed ReadHeader/DescriptorReady, the message parser verdict an '
              'arbitrary function): for every byte stream and EVERY partition into reads the delivered message list '
              '(for RPC also whether the channel is closed) equals a reference framer written from the wire format, no '
              'store outside the receive buffer, the read loop terminates (c10_{usbpro,robe,opc,acn,rpc}_chunk_free, '
              'c10_*_bounds); any interleaving of data arrivals and callback invocations of a level-triggered poller '
              'delivers the same (c10_schedule_*). For OPC the set of channels with a registered callback is a parameter of model, reference framer and theorems (frames of unregistered channels are skipped and nothing read alongside them is lost: c10_opc_unregistered_skipped); the harness registers callbacks for generated subsets. The OPC theorems are stated for the linear-time machine the '
              'correspondence runs and rest on a proved simulation of the branch-for-branch model '
              '(c10_opc_fast_refines). Further: the OPC capacity window over a connection history (c10_opc_capacity: CheckSize growth is sufficient and bounded), the Robe resynchronisation points (c10_robe_resync), the real RobeWidget label switch on top of the framer (table regenerated from the source, c10_robe_dispatch) and a real ACN RootInflator with and without child inflators behind the transport (c10_acn_root_chunk_free, c10_acn_root_skip), each also in the correspondence. The correspondence also runs USB Pro and Robe streams with every byte value through a pseudo terminal opened with BaseUsbProWidget::OpenDevice() (the real serial path incl. the tty line discipline), several live instances per framer fed interleaved partial reads (c10_instances_independent: each behaves as if alone) and a long-lived OPC server whose clients drop at any offset inside a frame before the next connection (each connection is framed from a fresh state). The Enttec widget label routing (HandleMessage/HandleLabel, table regenerated from the source) is stated over the framer model (c10_enttec_dispatch) but the Enttec widget is not in the correspondence. Not covered by a theorem: the tty line discipline itself, RpcChannel buffer (re)allocation (C09) and the '
              'protobuf parser itself.')
LEVEL_NOTE = ('Trusted: Coq kernel, extraction (ExtrOcamlBasic), OCaml/C++ glue, the ld --wrap=read interposer, generator '
              'coverage of the correspondence (model = code is validated by differential testing on pipes/socket pairs '
              'under ASan/UBSan, not proved); assumes in-order byte delivery; receive buffers are modelled as the list '
              'of bytes stored so far (ACN: in reverse order with a length counter) with an explicit capacity check per '
              'store; the ACN inflator is a recording stub that consumes every PDU whole; for the RPC channel the verdict of the protobuf parser on a body is an oracle supplied with each case (the generator builds the bodies it knows to be rejected) and buffer reallocation is not modelled; ACN_HEADER and INITIAL_SIZE '
              'are taken from the text of libs/acn/TCPTransport.cpp (they are not visible in a header), the other '
              'constants from the compiled headers.')
TECHNIQUE = 'Coq proof on hand-written executable model + extracted-model/implementation differential correspondence'
DESIGN_REF = 'DESIGN.md §4 C10'
