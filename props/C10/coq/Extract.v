From Coq Require Extraction.
From Coq Require Import ExtrOcamlBasic.
From OlaBase Require Import Bytes.
From C10 Require Import Gen Model.
Extraction Language OCaml.
Extraction "model.ml" io_witness N.div_eucl feed feed_trace feed_trace_tr receive_call
  u_recv u_init r_recv r_init o_recv o_init f_recv f_init ref_usb ref_robe ref_opc a_recv a_init ref_acn root_deliver robe_dispatch p_recv p_init ref_rpc.
