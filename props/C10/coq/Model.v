(* C10 — executable models of the stream framers (code that exists in /repo, with the two C10 fixes
   applied: Receive cursor/EINTR, OPC several frames per read).  No proofs here.

   Conventions.  A parser is modelled as one function per C++ callback invocation:
       recv : state -> available bytes -> option (state * unread bytes * delivered messages)
   (None = a write outside the receive buffer, the Oob hazard).  `ConnectedDescriptor::Receive(buf, n)`
   on `av` available bytes yields `take n av` and leaves `drop n av` (c10_receive justifies this view
   of Receive: it returns min(n, available) bytes, in order).  Delivery is level-triggered: `drain`
   re-invokes the callback while unread bytes remain (DescriptorReady's `while (DataRemaining() > 0)`
   and the select loop), with explicit fuel and an OutOfFuel outcome.  `feed` processes a list of
   chunks, i.e. one particular segmentation of the stream into arrivals. *)
From OlaBase Require Import Bytes.
From C10 Require Import Gen.
Local Open Scope N_scope.

Definition msg := (N * list N)%type.          (* (label | packet type | channel*256+command, payload) *)

(* ------------------------------------------------------------------ level-triggered delivery *)
Inductive run (S : Type) := Done (s : S) (out : list msg) | Oob | OutOfFuel.
Arguments Done {S}. Arguments Oob {S}. Arguments OutOfFuel {S}.

Section Loop.
  Variable S : Type.
  Variable recv : S -> list N -> option (S * list N * list msg).

  Fixpoint drain (fuel : nat) (s : S) (av : list N) : run S :=
    match av with
    | [] => Done s []                                  (* DataRemaining() == 0 *)
    | _ :: _ =>
      match fuel with
      | O => OutOfFuel
      | Datatypes.S f =>
        match recv s av with
        | None => Oob
        | Some (s1, rest, o1) =>
          match drain f s1 rest with
          | Done s2 o2 => Done s2 (o1 ++ o2)
          | r => r
          end
        end
      end
    end.

  (* a chunk arrives, the callback runs until everything has been read *)
  Definition feed_chunk (s : S) (chunk : list N) : run S := drain (Datatypes.S (length chunk)) s chunk.

  Fixpoint feed (s : S) (chunks : list (list N)) : run S :=
    match chunks with
    | [] => Done s []
    | c :: cs =>
      match feed_chunk s c with
      | Done s1 o1 => match feed s1 cs with Done s2 o2 => Done s2 (o1 ++ o2) | r => r end
      | r => r
      end
    end.

  (* the same with the chunk length computed by a left fold: the extracted `length` is not tail
     recursive, which matters for the megabyte chunks of the RPC correspondence *)
  Definition length_tr (l : list N) : nat := fold_left (fun n _ => Datatypes.S n) l O.
  Definition feed_chunk_tr (s : S) (chunk : list N) : run S := drain (Datatypes.S (length_tr chunk)) s chunk.
  Fixpoint feed_trace_tr (s : S) (chunks : list (list N)) : list (run S) :=
    match chunks with
    | [] => []
    | c :: cs =>
      match feed_chunk_tr s c with
      | Done s1 o1 => Done s1 o1 :: feed_trace_tr s1 cs
      | r => [r]
      end
    end.

  (* the same, keeping the state and the deliveries after every chunk (for the correspondence) *)
  Fixpoint feed_trace (s : S) (chunks : list (list N)) : list (run S) :=
    match chunks with
    | [] => []
    | c :: cs =>
      match feed_chunk s c with
      | Done s1 o1 => Done s1 o1 :: feed_trace s1 cs
      | r => [r]
      end
    end.
End Loop.
Arguments drain {S}. Arguments feed_chunk {S}. Arguments feed {S}. Arguments feed_trace {S}.
Arguments feed_trace_tr {S}.

(* ------------------------------------------------------------------ ConnectedDescriptor::Receive *)
(* One read() result: `RBytes n` = the kernel has n bytes for this call (0 = end of file), the
   call returns min(n, requested) of them; EAGAIN; EINTR; any other error. *)
Inductive rd_res := RBytes (n : N) | RAgain | RIntr | RErr.

Inductive rcv := RDone (ret : Z) (data_read : N) (buf : list N) (src : list N) | ROob.

(* memcpy into the caller's region [0, len buf): None when any byte falls outside *)
Definition write_at (buf : list N) (off : N) (bs : list N) : option (list N) :=
  if len buf <? off + len bs then None
  else Some (take off buf ++ bs ++ drop (off + len bs) buf).

(* while (data_read < size) { ret = read(fd, data, size - data_read); ... data_read += ret; data += ret; }
   `cursor` is the pointer `data` (as an offset from `buffer`), kept separately from data_read as in
   the code.  A finished script means nothing more arrives: EAGAIN. *)
Fixpoint receive (script : list rd_res) (src : list N) (size data_read cursor : N) (buf : list N) : rcv :=
  if size <=? data_read then RDone 0 data_read buf src
  else match script with
  | [] => RDone 0 data_read buf src
  | RAgain :: _ => RDone 0 data_read buf src
  | RErr :: _ => RDone (-1) data_read buf src
  | RIntr :: sc => receive sc src size data_read cursor buf          (* interrupted: try again *)
  | RBytes n :: sc =>
    let k := N.min n (N.min (usub32 size data_read) (len src)) in
    if k =? 0 then RDone 0 data_read buf src                        (* read() returned 0 *)
    else match write_at buf cursor (take k src) with
         | None => ROob
         | Some buf' => receive sc (drop k src) size (u32 (data_read + k)) (cursor + k) buf'
         end
  end.

Definition receive_call (script : list rd_res) (src : list N) (buf : list N) : rcv :=
  receive script src (len buf) 0 0 buf.

(* The code as it was before the fix (cursor advanced by the cumulative count, EINTR counted as -1):
   kept only to state c10_receive_prefix_refuted. *)
Fixpoint receive_old (script : list rd_res) (src : list N) (size data_read cursor : N) (buf : list N) : rcv :=
  if size <=? data_read then RDone 0 data_read buf src
  else match script with
  | [] => RDone 0 data_read buf src
  | RAgain :: _ => RDone 0 data_read buf src
  | RErr :: _ => RDone (-1) data_read buf src
  | RIntr :: sc =>
    let dr := u32 (data_read + 4294967295) in
    receive_old sc src size dr (cursor + dr) buf
  | RBytes n :: sc =>
    let k := N.min n (N.min (usub32 size data_read) (len src)) in
    if k =? 0 then RDone 0 data_read buf src
    else match write_at buf cursor (take k src) with
         | None => ROob
         | Some buf' =>
           let dr := u32 (data_read + k) in
           receive_old sc (drop k src) size dr (cursor + dr) buf'
         end
  end.

(* ------------------------------------------------------------------ Enttec USB Pro (BaseUsbProWidget) *)
Inductive ust := U_PRE | U_LABEL | U_LO | U_HI | U_BODY | U_EOM.
(* u_body = m_recv_buffer[0 .. m_bytes_received) *)
Record ustate := { u_st : ust; u_label : N; u_lo : N; u_hi : N; u_body : list N }.
Definition u_init : ustate := {| u_st := U_PRE; u_label := 0; u_lo := 0; u_hi := 0; u_body := [] |}.
Definition u_set_st (s : ustate) (t : ust) : ustate :=
  {| u_st := t; u_label := u_label s; u_lo := u_lo s; u_hi := u_hi s; u_body := u_body s |}.
Definition u_plen (s : ustate) : N := u_hi s * 256 + u_lo s.     (* (len_hi << 8) + len *)

Definition ures := option (ustate * list N * list msg).

(* case RECV_EOM *)
Definition u_eom (s : ustate) (av : list N) : ures :=
  match av with
  | [] => Some (u_set_st s U_EOM, [], [])
  | e :: r =>
    Some (u_set_st s U_PRE, r,
          if e =? USB_EOM then [(u_label s, take (u_plen s) (u_body s))] else [])
  end.

(* case RECV_BODY: Receive(m_recv_buffer + m_bytes_received, packet_length - m_bytes_received) *)
Definition u_bodyst (s : ustate) (av : list N) : ures :=
  let want := usub32 (u_plen s) (len (u_body s)) in
  let got := take want av in
  let r := drop want av in
  if len got =? 0 then Some (u_set_st s U_BODY, r, [])
  else if USB_MAX <? len (u_body s) + len got then None
  else
    let s1 := {| u_st := U_BODY; u_label := u_label s; u_lo := u_lo s; u_hi := u_hi s;
                 u_body := u_body s ++ got |} in
    if len (u_body s1) =? u_plen s1 then u_eom (u_set_st s1 U_EOM) r
    else Some (s1, r, []).

(* case RECV_SIZE_HI *)
Definition u_hist (s : ustate) (av : list N) : ures :=
  match av with
  | [] => Some (u_set_st s U_HI, [], [])
  | b :: r =>
    let s1 := {| u_st := U_HI; u_label := u_label s; u_lo := u_lo s; u_hi := b; u_body := u_body s |} in
    if u_plen s1 =? 0 then Some (u_set_st s1 U_EOM, r, [])
    else if USB_MAX <? u_plen s1 then Some (u_set_st s1 U_PRE, r, [])
    else u_bodyst {| u_st := U_BODY; u_label := u_label s1; u_lo := u_lo s1; u_hi := u_hi s1;
                     u_body := [] |} r
  end.

Definition u_lost (s : ustate) (av : list N) : ures :=
  match av with
  | [] => Some (u_set_st s U_LO, [], [])
  | b :: r => u_hist {| u_st := U_HI; u_label := u_label s; u_lo := b; u_hi := u_hi s;
                        u_body := u_body s |} r
  end.

Definition u_labelst (s : ustate) (av : list N) : ures :=
  match av with
  | [] => Some (u_set_st s U_LABEL, [], [])
  | b :: r => u_lost {| u_st := U_LO; u_label := b; u_lo := u_lo s; u_hi := u_hi s;
                        u_body := u_body s |} r
  end.

(* case PRE_SOM: do { Receive(&som, 1) ; if (count != 1) return; } while (som != SOM) *)
Fixpoint u_pre (s : ustate) (av : list N) : ures :=
  match av with
  | [] => Some (u_set_st s U_PRE, [], [])
  | b :: r => if b =? USB_SOM then u_labelst (u_set_st s U_LABEL) r else u_pre s r
  end.

(* BaseUsbProWidget::ReceiveMessage *)
Definition u_recv (s : ustate) (av : list N) : ures :=
  match u_st s with
  | U_PRE => u_pre s av
  | U_LABEL => u_labelst s av
  | U_LO => u_lost s av
  | U_HI => u_hist s av
  | U_BODY => u_bodyst s av
  | U_EOM => u_eom s av
  end.

(* ------------------------------------------------------------------ Robe (BaseRobeWidget) *)
Inductive rst := R_PRE | R_TYPE | R_LO | R_HI | R_HCRC | R_BODY | R_CRC.
(* r_size = m_data_size, r_crc = m_crc (uint8_t), r_body = m_recv_buffer[0 .. m_bytes_received) *)
Record rstate := { r_st : rst; r_type : N; r_lo : N; r_hi : N; r_size : N; r_crc : N;
                   r_body : list N }.
Definition r_init : rstate :=
  {| r_st := R_PRE; r_type := 0; r_lo := 0; r_hi := 0; r_size := 0; r_crc := 0; r_body := [] |}.
Definition r_set_st (s : rstate) (t : rst) : rstate :=
  {| r_st := t; r_type := r_type s; r_lo := r_lo s; r_hi := r_hi s; r_size := r_size s;
     r_crc := r_crc s; r_body := r_body s |}.
Definition rres := option (rstate * list N * list msg).

(* case RECV_CRC: for (i < m_data_size) m_crc += m_recv_buffer[i]; compare with the received byte *)
Definition r_crcst (s : rstate) (av : list N) : rres :=
  match av with
  | [] => Some (r_set_st s R_CRC, [], [])
  | c :: r =>
    let payload := take (r_size s) (r_body s) in
    let crc := u8 (r_crc s + sum_bytes payload) in
    Some ({| r_st := R_PRE; r_type := r_type s; r_lo := r_lo s; r_hi := r_hi s; r_size := r_size s;
             r_crc := crc; r_body := r_body s |}, r,
          if crc =? c then [(r_type s, payload)] else [])
  end.

(* case RECV_BODY (entered by fall-through even when m_data_size == 0: Receive of 0 bytes, count == 0,
   return with m_state == RECV_CRC already set) *)
Definition r_bodyst (s : rstate) (av : list N) : rres :=
  let want := usub32 (r_size s) (len (r_body s)) in
  let got := take want av in
  let r := drop want av in
  if len got =? 0 then Some (s, r, [])
  else if ROBE_MAX <? len (r_body s) + len got then None
  else
    let s1 := {| r_st := r_st s; r_type := r_type s; r_lo := r_lo s; r_hi := r_hi s;
                 r_size := r_size s; r_crc := r_crc s; r_body := r_body s ++ got |} in
    if len (r_body s1) =? r_size s1 then r_crcst (r_set_st s1 R_CRC) r
    else Some (s1, r, []).

(* case RECV_HEADER_CRC *)
Definition r_hcrcst (s : rstate) (av : list N) : rres :=
  match av with
  | [] => Some (r_set_st s R_HCRC, [], [])
  | h :: r =>
    let crc := u8 (ROBE_SOM + r_type s + r_lo s + r_hi s) in
    if negb (crc =? h) then
      Some ({| r_st := R_PRE; r_type := r_type s; r_lo := r_lo s; r_hi := r_hi s; r_size := r_size s;
               r_crc := crc; r_body := r_body s |}, r, [])
    else
      let s1 := {| r_st := if r_size s =? 0 then R_CRC else R_BODY;
                   r_type := r_type s; r_lo := r_lo s; r_hi := r_hi s; r_size := r_size s;
                   r_crc := u8 (crc + h); r_body := r_body s |} in
      r_bodyst s1 r
  end.

(* case RECV_SIZE_HI *)
Definition r_hist (s : rstate) (av : list N) : rres :=
  match av with
  | [] => Some (r_set_st s R_HI, [], [])
  | b :: r =>
    let sz := b * 256 + r_lo s in
    let s1 := {| r_st := R_HI; r_type := r_type s; r_lo := r_lo s; r_hi := b; r_size := sz;
                 r_crc := r_crc s; r_body := r_body s |} in
    if ROBE_MAX <? sz then Some (r_set_st s1 R_PRE, r, [])
    else r_hcrcst {| r_st := R_HCRC; r_type := r_type s1; r_lo := r_lo s1; r_hi := r_hi s1;
                     r_size := sz; r_crc := r_crc s1; r_body := [] |} r
  end.

Definition r_lost (s : rstate) (av : list N) : rres :=
  match av with
  | [] => Some (r_set_st s R_LO, [], [])
  | b :: r => r_hist {| r_st := R_HI; r_type := r_type s; r_lo := b; r_hi := r_hi s;
                        r_size := r_size s; r_crc := r_crc s; r_body := r_body s |} r
  end.

Definition r_typest (s : rstate) (av : list N) : rres :=
  match av with
  | [] => Some (r_set_st s R_TYPE, [], [])
  | b :: r => r_lost {| r_st := R_LO; r_type := b; r_lo := r_lo s; r_hi := r_hi s;
                        r_size := r_size s; r_crc := r_crc s; r_body := r_body s |} r
  end.

Fixpoint r_pre (s : rstate) (av : list N) : rres :=
  match av with
  | [] => Some (r_set_st s R_PRE, [], [])
  | b :: r => if b =? ROBE_SOM then r_typest (r_set_st s R_TYPE) r else r_pre s r
  end.

(* BaseRobeWidget::ReceiveMessage *)
Definition r_recv (s : rstate) (av : list N) : rres :=
  match r_st s with
  | R_PRE => r_pre s av
  | R_TYPE => r_typest s av
  | R_LO => r_lost s av
  | R_HI => r_hist s av
  | R_HCRC => r_hcrcst s av
  | R_BODY => r_bodyst s av
  | R_CRC => r_crcst s av
  end.

(* ------------------------------------------------------------------ RobeWidget: label dispatch *)
(* RobeWidgetImpl::HandleMessage switches on the label of every frame BaseRobeWidget delivers; the
   table ROBE_DISPATCH is regenerated from the source text.  Without a pending RDM request only
   HandleDmxFrame (handler 3) is observable: m_buffer.Set(data, length) — which keeps the old contents
   when the frame carries no data (data == NULL) and truncates to 512 slots — followed by the DMX
   callback.  Frames with any other label, known or unknown, deliver nothing and change nothing. *)
Definition robe_handler (label : N) : N :=
  match find (fun p => fst p =? label) ROBE_DISPATCH with Some p => snd p | None => 0 end.
Fixpoint robe_dispatch (buf : list N) (ms : list msg) : list msg :=
  match ms with
  | [] => []
  | (l, pl) :: r =>
    if robe_handler l =? 3 then
      let buf1 := match pl with [] => buf | _ :: _ => take 512 pl end in
      (l, buf1) :: robe_dispatch buf1 r
    else robe_dispatch buf r
  end.

(* ------------------------------------------------------------------ EnttecUsbProWidget: label dispatch *)
(* EnttecUsbProWidgetImpl::HandleMessage: the port assignment reply is handled by the widget itself
   (port 0, handler 5); a label above the threshold on a widget with two ports goes through the
   port-2 label set, every other label through the port-1 set (HandleLabel); a label found in
   neither is logged and dropped (handler 0).  ENTTEC_DISPATCH is regenerated from the source. *)
Definition enttec_lookup (port label : N) : N :=
  match find (fun r => (fst r =? label) && (fst (snd r) =? port)) ENTTEC_DISPATCH with
  | Some r => snd (snd r)
  | None => 0
  end.
Definition enttec_route (dual : bool) (label : N) : N * N :=
  if label =? ENTTEC_PORT_ASSIGNMENT_LABEL then (0, 5)
  else if (ENTTEC_PORT2_THRESHOLD <? label) && dual then (2, enttec_lookup 2 label)
  else (1, enttec_lookup 1 label).
(* the frames that reach a handler, each with (port, handler) *)
Definition enttec_dispatch (dual : bool) (ms : list msg) : list (N * N * msg) :=
  flat_map (fun m => let r := enttec_route dual (fst m) in
                     if snd r =? 0 then [] else [(r, m)]) ms.

(* ------------------------------------------------------------------ Open Pixel Control (OPCServer) *)
(* o_data = RxState::data[0 .. offset), o_cap = RxState::buffer_size *)
Record ostate := { o_data : list N; o_cap : N }.
Definition o_init : ostate := {| o_data := []; o_cap := OPC_FRAME_SIZE |}.
Definition ores := option (ostate * list N * list msg).

Definition o_expected (d : list N) : N :=       (* utils::JoinUInt8(data[2], data[3]) *)
  match d with _ :: _ :: hi :: lo :: _ => hi * 256 + lo | _ => 0 end.

(* the `while (offset >= OPC_HEADER_SIZE)` loop of the fixed SocketReady; None = the copy in
   CheckSize would not fit the new buffer *)
(* reg ch = a callback is registered for channel ch (m_callbacks): a complete frame for a channel
   without one is consumed and skipped *)
Fixpoint o_frames (reg : N -> bool) (fuel : nat) (d : list N) (cap : N) : option (ostate * list msg) :=
  match fuel with
  | O => Some ({| o_data := d; o_cap := cap |}, [])     (* not reached: see o_frames_fuel *)
  | Datatypes.S f =>
    if len d <? OPC_HEADER_SIZE then Some ({| o_data := d; o_cap := cap |}, [])
    else
      let e := o_expected d in
      (* RxState::CheckSize *)
      let grow := cap <? e + OPC_HEADER_SIZE in
      if grow && (e + OPC_HEADER_SIZE <? len d) then None
      else
        let cap1 := if grow then e + OPC_HEADER_SIZE else cap in
        if len d <? e + OPC_HEADER_SIZE then Some ({| o_data := d; o_cap := cap1 |}, [])
        else
          match d with
          | ch :: cmd :: _ =>
            match o_frames reg f (drop (e + OPC_HEADER_SIZE) d) cap1 with
            | Some (s, out) =>
              Some (s, (if reg ch then [(ch * 256 + cmd, take e (drop OPC_HEADER_SIZE d))] else []) ++ out)
            | None => None
            end
          | _ => Some ({| o_data := d; o_cap := cap1 |}, [])
          end
  end.

(* OPCServer::SocketReady: Receive(data + offset, buffer_size - offset) then the frame loop *)
Definition o_recv (reg : N -> bool) (s : ostate) (av : list N) : ores :=
  let room := usub32 (o_cap s) (len (o_data s)) in
  let k := N.min room (len av) in           (* Receive returns min(room, available) bytes *)
  let got := take k av in
  let r := drop k av in
  if o_cap s <? len (o_data s) + len got then None
  else
    let d := o_data s ++ got in
    match o_frames reg (Datatypes.S (length d)) d (o_cap s) with
    | Some (s1, out) => Some (s1, r, out)
    | None => None
    end.

(* ------------------------------------------------------------------ reference framers *)
(* Written from the wire formats, on whole streams.  `fuel` only makes the recursion structural;
   the top-level functions pass the stream length, which always suffices (every step that recurses
   consumes at least one byte). *)

(* Enttec: 0x7e label len_lo len_hi data[len] 0xe7, len <= 600.  Bytes before a start byte are
   skipped; a header announcing more than 600 bytes is dropped (scanning resumes after it); a frame
   whose end byte is wrong is dropped whole. *)
Fixpoint ref_usb_f (fuel : nat) (s : list N) : list msg :=
  match fuel with
  | O => []
  | Datatypes.S f =>
    match s with
    | [] => []
    | b :: r =>
      if negb (b =? 126) then ref_usb_f f r
      else match r with
           | label :: lo :: hi :: r2 =>
             let n := hi * 256 + lo in
             if 600 <? n then ref_usb_f f r2
             else if len r2 <? n + 1 then []
             else
               let body := take n r2 in
               (match rd r2 n with
                | Some x => if x =? 231 then [(label, body)] else []
                | None => []
                end) ++ ref_usb_f f (drop (n + 1) r2)
           | _ => []
           end
    end
  end.
Definition ref_usb (s : list N) : list msg := ref_usb_f (length s) s.

(* Robe: 0xa5 type len_lo len_hi hcrc data[len] crc, len <= 522, hcrc = sum of the four header
   bytes mod 256, crc = sum of all preceding bytes of the frame mod 256.  Oversize length or bad
   header checksum: the header is dropped; bad data checksum: the frame is dropped whole. *)
Fixpoint ref_robe_f (fuel : nat) (s : list N) : list msg :=
  match fuel with
  | O => []
  | Datatypes.S f =>
    match s with
    | [] => []
    | b :: r =>
      if negb (b =? 165) then ref_robe_f f r
      else match r with
           | ty :: lo :: hi :: r2 =>
             let n := hi * 256 + lo in
             if 522 <? n then ref_robe_f f r2
             else match r2 with
                  | [] => []
                  | h :: r3 =>
                    let hsum := (165 + ty + lo + hi) mod 256 in
                    if negb (hsum =? h) then ref_robe_f f r3
                    else if len r3 <? n + 1 then []
                    else
                      let body := take n r3 in
                      let c := (hsum + h + sum_bytes body) mod 256 in
                      (match rd r3 n with
                       | Some x => if x =? c then [(ty, body)] else []
                       | None => []
                       end) ++ ref_robe_f f (drop (n + 1) r3)
                  end
           | _ => []
           end
    end
  end.
Definition ref_robe (s : list N) : list msg := ref_robe_f (length s) s.

(* OPC: channel command len_hi len_lo data[len]; no invalid frames, no resynchronisation.  Frames
   for a channel nobody registered for (reg ch = false) are skipped, nothing else is affected. *)
Fixpoint ref_opc_f (reg : N -> bool) (fuel : nat) (s : list N) : list msg :=
  match fuel with
  | O => []
  | Datatypes.S f =>
    match s with
    | ch :: cmd :: hi :: lo :: r =>
      let n := hi * 256 + lo in
      if len r <? n then []
      else (if reg ch then [(ch * 256 + cmd, take n r)] else []) ++ ref_opc_f reg f (drop n r)
    | _ => []
    end
  end.
Definition ref_opc (reg : N -> bool) (s : list N) : list msg := ref_opc_f reg (length s) s.

(* ------------------------------------------------------------------ ACN over TCP (IncomingStreamTransport) *)
(* a_rdata = the bytes of [m_buffer_start, m_data_end) in REVERSE order (so that storing is cheap),
   a_len = DataLength(), a_cap = BufferSize() (0 = no buffer yet), a_out = m_outstanding_data,
   a_block/a_cons = m_block_size/m_consumed_block_size, a_lsize = m_pdu_length_size, a_psize =
   m_pdu_size.  Buffer elements are uint8_t and m_block_size is a uint32_t, hence the u8/u32 where the
   handlers combine them.  The inflator is the harness' recording inflator: it is handed the whole
   PDU and reports all of it consumed.  A delivered message is (0, PDU bytes). *)
Inductive ast := A_PRE | A_FLAGS | A_LEN | A_PDU.
Record astate := { a_st : ast; a_rdata : list N; a_len : N; a_out : N; a_block : N; a_cons : N;
                   a_lsize : N; a_psize : N; a_cap : N; a_valid : bool }.
Definition adata (s : astate) : list N := rev_append (a_rdata s) [].   (* linear-time reversal *)
Definition ACN_PREAMBLE : N := ACN_HEADER_SIZE + ACN_PDU_BLOCK_SIZE.
Definition a_init : astate :=
  {| a_st := A_PRE; a_rdata := []; a_len := 0; a_out := ACN_PREAMBLE; a_block := 0; a_cons := 0;
     a_lsize := ACN_TWO_BYTES; a_psize := 0; a_cap := 0; a_valid := true |}.

Fixpoint list_eqb (a b : list N) : bool :=
  match a, b with
  | [], [] => true
  | x :: a', y :: b' => (x =? y) && list_eqb a' b'
  | _, _ => false
  end.

Definition be32 (l : list N) : N :=
  match l with
  | a :: b :: c :: d :: _ => u32 (((u8 a * 256 + u8 b) * 256 + u8 c) * 256 + u8 d)
  | _ => 0
  end.
Definition lflag (b0 : N) : bool := negb (N.land b0 ACN_LFLAG_MASK =? 0).   (* *buf & LFLAG_MASK *)
Definition pdu_len (ls : N) (d : list N) : N :=
  match d with
  | b0 :: b1 :: r =>
    if ls =? ACN_THREE_BYTES
    then match r with
         | b2 :: _ => u8 b2 + u8 b1 * 256 + N.land b0 ACN_LENGTH_MASK * 65536
         | [] => 0
         end
    else u8 b1 + N.land b0 ACN_LENGTH_MASK * 256
  | _ => 0
  end.

(* EnterWaitingForPreamble / EnterWaitingForPDU: m_data_end = m_buffer_start *)
Definition a_enter (t : ast) (out block cons : N) (s : astate) : astate :=
  {| a_st := t; a_rdata := []; a_len := 0; a_out := out; a_block := block; a_cons := cons;
     a_lsize := a_lsize s; a_psize := a_psize s; a_cap := a_cap s; a_valid := a_valid s |}.
Definition a_invalid (psize : N) (s : astate) : astate :=
  {| a_st := a_st s; a_rdata := a_rdata s; a_len := a_len s; a_out := a_out s; a_block := a_block s;
     a_cons := a_cons s; a_lsize := a_lsize s; a_psize := psize; a_cap := a_cap s; a_valid := false |}.

(* HandlePreamble / HandlePDUFlags / HandlePDULength / HandlePDU (the switch in Receive) *)
Definition a_handle (s : astate) : astate * list msg :=
  match a_st s with
  | A_PRE =>
    if negb (list_eqb (take ACN_HEADER_SIZE (adata s)) ACN_HEADER) then (a_invalid (a_psize s) s, [])
    else
      let bs := be32 (drop ACN_HEADER_SIZE (adata s)) in
      (if bs =? 0 then a_enter A_PRE ACN_PREAMBLE bs (a_cons s) s else a_enter A_FLAGS 1 bs 0 s, [])
  | A_FLAGS =>
    let ls := match adata s with
              | b0 :: _ => if lflag b0 then ACN_THREE_BYTES else ACN_TWO_BYTES
              | [] => ACN_TWO_BYTES
              end in
    ({| a_st := A_LEN; a_rdata := a_rdata s; a_len := a_len s; a_out := u32 (a_out s + (ls - 1));
        a_block := a_block s; a_cons := a_cons s; a_lsize := ls; a_psize := a_psize s;
        a_cap := a_cap s; a_valid := a_valid s |}, [])
  | A_LEN =>
    let ps := pdu_len (a_lsize s) (adata s) in
    if ps <? a_lsize s then (a_invalid ps s, [])
    else ({| a_st := A_PDU; a_rdata := a_rdata s; a_len := a_len s;
             a_out := u32 (a_out s + usub32 ps (a_lsize s));
             a_block := a_block s; a_cons := a_cons s; a_lsize := a_lsize s; a_psize := ps;
             a_cap := a_cap s; a_valid := a_valid s |}, [])
  | A_PDU =>
    if negb (a_len s =? a_psize s) then (a_invalid (a_psize s) s, [])
    else
      let c := u32 (a_cons s + a_psize s) in
      (if c =? a_block s then a_enter A_PRE ACN_PREAMBLE (a_block s) c s
       else a_enter A_FLAGS 1 (a_block s) c s, [(0, adata s)])
  end.

(* IncreaseBufferSize as called from ReadRequiredData: the buffer size after the call *)
Definition a_cap1 (s : astate) : N :=
  let free := usub32 (a_cap s) (a_len s) in
  let want := a_len s + a_out s in
  if free <? a_out s
  then (if want <=? a_cap s then a_cap s else N.max want ACN_INITIAL_SIZE)
  else a_cap s.

(* the k bytes `got` are stored at m_data_end *)
Definition a_store (s : astate) (got : list N) (k : N) : astate :=
  {| a_st := a_st s; a_rdata := rev_append got (a_rdata s); a_len := a_len s + k;
     a_out := usub32 (a_out s) k; a_block := a_block s; a_cons := a_cons s; a_lsize := a_lsize s;
     a_psize := a_psize s; a_cap := a_cap1 s; a_valid := a_valid s |}.

(* ReadRequiredData; None = a store outside the buffer *)
Definition a_read (s : astate) (av : list N) : option (astate * list N) :=
  if a_out s =? 0 then Some (s, av)
  else
    let k := N.min (a_out s) (len av) in     (* Receive returns min(outstanding, available) bytes *)
    if a_cap1 s <? a_len s + k then None
    else Some (a_store s (take k av) k, drop k av).

(* the `while (true)` loop of IncomingStreamTransport::Receive; None also when the fuel runs out
   (two iterations per available byte always suffice) *)
Fixpoint a_loop (fuel : nat) (s : astate) (av : list N) : option (astate * list N * list msg) :=
  match fuel with
  | O => None
  | Datatypes.S f =>
    match a_read s av with
    | None => None
    | Some (s1, av1) =>
      if negb (a_valid s1) || negb (a_out s1 =? 0) then Some (s1, av1, [])
      else
        let (s2, o) := a_handle s1 in
        if negb (a_valid s2) then Some (s2, av1, o)
        else match a_loop f s2 av1 with
             | Some (s3, r, o3) => Some (s3, r, o ++ o3)
             | None => None
             end
    end
  end.

(* one on-data callback; once Receive() has returned false the caller closes the connection:
   whatever else arrives is discarded *)
Definition a_recv (s : astate) (av : list N) : option (astate * list N * list msg) :=
  if negb (a_valid s) then Some (s, [], [])
  else a_loop (2 * length av + 4) s av.

(* Reference framer, from the wire format: a stream is a sequence of blocks; a block is the 12-byte
   ACN packet identifier, a 4-byte big-endian block length L and PDUs whose lengths add up to L; a
   PDU starts with flags|length (top bit set: 3 length bytes, else 2; the low nibble of the first
   byte holds the high length bits) and the length counts the whole PDU.  A wrong identifier or a
   length smaller than its own field invalidates the stream: nothing after it is delivered.
   `blk` = Some (L, consumed) inside a block. *)
Fixpoint ref_acn_f (fuel : nat) (blk : option (N * N)) (s : list N) : list msg :=
  match fuel with
  | O => []
  | Datatypes.S f =>
    match blk with
    | None =>
      if len s <? 16 then []
      else if negb (list_eqb (take 12 s) ACN_HEADER) then []
      else
        let L := be32 (drop 12 s) in
        ref_acn_f f (if L =? 0 then None else Some (L, 0)) (drop 16 s)
    | Some (L, c) =>
      match s with
      | [] => []
      | b0 :: _ =>
        let ls := if lflag b0 then 3 else 2 in
        if len s <? ls then []
        else
          let n := pdu_len ls s in
          if n <? ls then []
          else if len s <? n then []
          else
            let c' := u32 (c + n) in
            (0, take n s) :: ref_acn_f f (if c' =? L then None else Some (L, c')) (drop n s)
      end
    end
  end.
Definition ref_acn (s : list N) : list msg := ref_acn_f (Datatypes.S (length s)) None s.

(* ------------------------------------------------------------------ ACN root layer (RootInflator) *)
(* What a real RootInflator (BaseInflator::InflatePDUBlock / DecodeLength / DecodeVector / InflatePDU,
   RootInflator::DecodeHeader) makes of the single PDU the TCP transport hands it.  The block holds
   exactly that PDU and its length field was already decoded by the transport, so the inflator always
   reports the whole block consumed (which is what a_handle assumes of the inflator): a PDU it cannot
   use is skipped, it never invalidates the stream.  ResetPDUFields() runs at the start of every
   block, so there is no vector or CID to inherit: a PDU is passed on only if it carries both a
   vector (V flag, 4 bytes) and a header (H flag, the 16-byte CID), and only to a child inflator
   registered for that vector (reg); otherwise BaseInflator::HandlePDUData logs and drops it.
   A delivery to a child inflator is (vector, CID ++ data). *)
Definition vflag (b0 : N) : bool := negb (N.land b0 ACN_VFLAG_MASK =? 0).
Definition hflag (b0 : N) : bool := negb (N.land b0 ACN_HFLAG_MASK =? 0).
Definition root_pdu (reg : N -> bool) (pdu : list N) : list msg :=
  match pdu with
  | [] => []
  | b0 :: _ =>
    let ls := if lflag b0 then ACN_THREE_BYTES else ACN_TWO_BYTES in
    let body := drop ls pdu in
    if negb (vflag b0) then []
    else if len body <? ACN_ROOT_VECTOR_SIZE then []
    else if negb (hflag b0) then []
    else if len body - ACN_ROOT_VECTOR_SIZE <? ACN_CID_LENGTH then []
    else
      let v := be32 body in
      if reg v then [(v, drop ACN_ROOT_VECTOR_SIZE body)] else []
  end.
Definition root_deliver (reg : N -> bool) (pdus : list msg) : list msg :=
  flat_map (fun m => root_pdu reg (snd m)) pdus.

(* ------------------------------------------------------------------ RPC channel (RpcChannel) *)
(* Correspondence only in this property (the framing theorem for the channel is c09_dispatch in
   props/C09).  p_hdr = m_header[0 .. m_header_read), p_exp = m_expected_size (0 = waiting for a
   header), p_rbody = the message bytes received so far in REVERSE order, p_cur = m_current_size.
   `ok` is the protobuf parser's verdict on a complete body (RpcMessage::ParseFromArray); the buffer
   (re)allocation is not modelled here.  A delivered message is (second body byte = the type field of
   the frames the generator builds, body). *)
Record pstate := { p_hdr : list N; p_exp : N; p_rbody : list N; p_cur : N; p_closed : bool }.
Definition p_init : pstate := {| p_hdr := []; p_exp := 0; p_rbody := []; p_cur := 0; p_closed := false |}.
Definition p_close (s : pstate) : pstate :=
  {| p_hdr := p_hdr s; p_exp := 0; p_rbody := p_rbody s; p_cur := p_cur s; p_closed := true |}.
Definition rpc_label (body : list N) : N := match body with _ :: t :: _ => t | _ => 0 end.
(* memcpy(&header, m_header, 4) on a little-endian host; RpcHeader::DecodeHeader *)
Definition rpc_header (h : list N) : N :=
  match h with
  | b0 :: b1 :: b2 :: b3 :: _ => u8 b0 + u8 b1 * 256 + u8 b2 * 65536 + u8 b3 * 16777216
  | _ => 0
  end.
Definition rpc_version (h : N) : N := N.shiftr (N.land h RPC_VERSION_MASK) 28.
Definition rpc_size (h : N) : N := N.land h RPC_SIZE_MASK.

(* the first n elements of l, reversed, in front of acc; the rest of l; how many of the n were
   missing (tail recursive after extraction: frames of up to 1 MB are fed in one chunk) *)
Fixpoint take_rev (l : list N) (n : N) (acc : list N) : list N * list N * N :=
  match l with
  | [] => (acc, [], n)
  | x :: r => if n =? 0 then (acc, l, 0) else take_rev r (N.pred n) (x :: acc)
  end.

Section Rpc.
  Variable ok : list N -> bool.

  (* Receive(m_buffer + m_current_size, m_expected_size - m_current_size) and the completion test *)
  Definition p_bodyst (s : pstate) (av : list N) : option (pstate * list N * list msg) :=
    let want := usub32 (p_exp s) (p_cur s) in
    let '(rb, r, miss) := take_rev av want (p_rbody s) in
    let cur := p_cur s + (want - miss) in
    if cur =? p_exp s then
      let body := rev_append rb [] in
      if ok body
      then Some ({| p_hdr := p_hdr s; p_exp := 0; p_rbody := rb; p_cur := cur; p_closed := false |},
                 r, [(rpc_label body, body)])
      else Some ({| p_hdr := p_hdr s; p_exp := 0; p_rbody := rb; p_cur := cur; p_closed := true |}, r, [])
    else Some ({| p_hdr := p_hdr s; p_exp := p_exp s; p_rbody := rb; p_cur := cur; p_closed := false |},
               r, []).

  (* RpcChannel::DescriptorReady with ReadHeader *)
  Definition p_recv (s : pstate) (av : list N) : option (pstate * list N * list msg) :=
    if p_closed s then Some (s, [], [])
    else if p_exp s =? 0 then
      let want := 4 - len (p_hdr s) in
      let '(rh, r, miss) := take_rev av want [] in
      let h := p_hdr s ++ rev_append rh [] in
      if negb (miss =? 0)
      then Some ({| p_hdr := h; p_exp := 0; p_rbody := p_rbody s; p_cur := p_cur s; p_closed := false |}, r, [])
      else
        let hd := rpc_header h in
        let s0 := {| p_hdr := []; p_exp := 0; p_rbody := p_rbody s; p_cur := p_cur s; p_closed := false |} in
        if rpc_size hd =? 0 then Some (s0, r, [])
        else if negb (rpc_version hd =? RPC_PROTOCOL_VERSION) then Some (p_close s0, r, [])
        else if RPC_MAX_BUFFER_SIZE <? rpc_size hd then Some (p_close s0, r, [])
        else p_bodyst {| p_hdr := []; p_exp := rpc_size hd; p_rbody := []; p_cur := 0; p_closed := false |} r
    else p_bodyst s av.

  (* Reference framer from the wire format: frames of a 4-byte little-endian header (version in the
     top 4 bits, body size in the low 28) and a body.  Size 0: the frame is empty and skipped; version
     other than 1, size above 1 MB or an unparsable body: the channel is closed, nothing after it is
     delivered; every other frame is delivered, whatever came before it on the channel.  Returns the
     delivered messages and whether the channel was closed. *)
  Fixpoint ref_rpc_f (fuel : nat) (s : list N) : list msg * bool :=
    match fuel with
    | O => ([], false)
    | Datatypes.S f =>
      match s with
      | b0 :: b1 :: b2 :: b3 :: r =>
        let hd := rpc_header [b0; b1; b2; b3] in
        let n := hd mod 268435456 in
        let v := hd / 268435456 in
        if n =? 0 then ref_rpc_f f r
        else if negb (v =? 1) then ([], true)
        else if 1048576 <? n then ([], true)
        else
          let '(rb, rest, miss) := take_rev r n [] in
          if negb (miss =? 0) then ([], false)
          else
            let body := rev_append rb [] in
            if ok body
            then let (ms, c) := ref_rpc_f f rest in ((rpc_label body, body) :: ms, c)
            else ([], true)
      | _ => ([], false)
      end
    end.
  (* every frame consumes at least four bytes *)
  Definition ref_rpc (s : list N) : list msg * bool := ref_rpc_f (Datatypes.S (length_tr s)) s.
End Rpc.

(* ------------------------------------------------------------------ OPC server, linear-time representation *)
(* The same machine as o_recv with the receive buffer kept in REVERSE order (f_rdata) together with
   RxState::offset (f_off) and, once the header is complete, RxState::expected_size (f_exp): a read
   that does not complete a frame costs time proportional to the bytes read, not to the bytes
   buffered.  ProofsOpcFast.v shows that it computes exactly what o_recv computes (abstraction
   o_abs), so the theorems about o_recv carry over; this is the function the correspondence runs. *)
Record fstate := { f_rdata : list N; f_off : N; f_exp : option N; f_cap : N }.
Definition f_init : fstate := {| f_rdata := []; f_off := 0; f_exp := None; f_cap := OPC_FRAME_SIZE |}.
Definition o_abs (f : fstate) : ostate := {| o_data := rev_append (f_rdata f) []; o_cap := f_cap f |}.

Definition f_recv (reg : N -> bool) (f : fstate) (av : list N) : option (fstate * list N * list msg) :=
  let room := usub32 (f_cap f) (f_off f) in
  let '(rd, r, miss) := take_rev av room (f_rdata f) in
  let off := f_off f + (room - miss) in
  if f_cap f <? off then None
  else
    let e_opt := match f_exp f with
                 | Some e => Some e
                 | None => if off <? OPC_HEADER_SIZE then None else Some (o_expected (rev_append rd []))
                 end in
    match e_opt with
    | None => Some ({| f_rdata := rd; f_off := off; f_exp := None; f_cap := f_cap f |}, r, [])
    | Some e =>
      let grow := f_cap f <? e + OPC_HEADER_SIZE in
      if grow && (e + OPC_HEADER_SIZE <? off) then None
      else
        let cap1 := if grow then e + OPC_HEADER_SIZE else f_cap f in
        if off <? e + OPC_HEADER_SIZE
        then Some ({| f_rdata := rd; f_off := off; f_exp := Some e; f_cap := cap1 |}, r, [])
        else
          (* at least one complete frame: flatten once and run the frame loop *)
          let d := rev_append rd [] in
          match o_frames reg (Datatypes.S (length d)) d (f_cap f) with
          | Some (s1, out) =>
            Some ({| f_rdata := rev_append (o_data s1) []; f_off := len (o_data s1); f_exp := None;
                     f_cap := o_cap s1 |}, r, out)
          | None => None
          end
    end.
