(* C10 — RPC channel framing: byte-wise automaton, simulation by DescriptorReady/ReadHeader,
   reference framer.  The protobuf parser's verdict `ok` is an arbitrary function throughout. *)
From OlaBase Require Import Bytes.
From C10 Require Import Gen Model Lemmas ProofsOpcFast Schedule.
Local Open Scope N_scope.

Section RpcProofs.
  Variable ok : list N -> bool.

  Definition mkp (h : list N) (e : N) (rb : list N) (c : N) (cl : bool) : pstate :=
    {| p_hdr := h; p_exp := e; p_rbody := rb; p_cur := c; p_closed := cl |}.

  (* a complete header has been collected *)
  Definition p_hfin (s : pstate) (h : list N) : pstate :=
    let hd := rpc_header h in
    let s0 := mkp [] 0 (p_rbody s) (p_cur s) false in
    if rpc_size hd =? 0 then s0
    else if negb (rpc_version hd =? RPC_PROTOCOL_VERSION) then p_close s0
    else if RPC_MAX_BUFFER_SIZE <? rpc_size hd then p_close s0
    else mkp [] (rpc_size hd) [] 0 false.

  (* the body now holds rb (reversed), cur bytes *)
  Definition p_fin (s : pstate) (rb : list N) (cur : N) : pstate * list msg :=
    if cur =? p_exp s then
      let body := rev_append rb [] in
      if ok body then (mkp (p_hdr s) 0 rb cur false, [(rpc_label body, body)])
      else (mkp (p_hdr s) 0 rb cur true, [])
    else (mkp (p_hdr s) (p_exp s) rb cur false, []).

  Definition p_step (s : pstate) (b : N) : pstate * list msg :=
    if p_closed s then (s, [])
    else if p_exp s =? 0 then
      let h := p_hdr s ++ [b] in
      if len h <? 4 then (mkp h 0 (p_rbody s) (p_cur s) false, []) else (p_hfin s h, [])
    else p_fin s (b :: p_rbody s) (p_cur s + 1).

  Notation prun := (run1 p_step).

  Definition p_inv (s : pstate) : Prop :=
    p_closed s = true \/
    (p_closed s = false /\
     ((p_exp s = 0 /\ len (p_hdr s) < 4) \/
      (p_exp s <> 0 /\ p_hdr s = [] /\ p_cur s < p_exp s /\ p_exp s <= 1048576))).

  Lemma p_inv_init : p_inv p_init.
  Proof. right. split; [reflexivity|]. left. split; [reflexivity|]. cbn. change (len (@nil N)) with 0. lia. Qed.

  Lemma rpc_size_le hd : rpc_size hd <= 268435455.
  Proof.
    unfold rpc_size. change RPC_SIZE_MASK with (N.ones 28). rewrite N.land_ones.
    pose proof (N.mod_lt hd (2 ^ 28)). change (2 ^ 28) with 268435456 in *. lia.
  Qed.

  Lemma p_hfin_inv s h : p_inv (p_hfin s h).
  Proof.
    unfold p_hfin. change RPC_MAX_BUFFER_SIZE with 1048576.
    destruct (rpc_size (rpc_header h) =? 0) eqn:E0.
    - right. split; [reflexivity|]. left. cbn. change (len (@nil N)) with 0. split; [reflexivity|lia].
    - destruct (negb _); [left; reflexivity|].
      destruct (1048576 <? rpc_size (rpc_header h)) eqn:E1; [left; reflexivity|].
      right. split; [reflexivity|]. right. cbn [mkp p_exp p_hdr p_cur]. apply N.eqb_neq in E0.
      repeat split; auto; lia.
  Qed.

  Lemma p_fin_inv s rb cur : p_hdr s = [] -> p_exp s <> 0 -> cur <= p_exp s -> p_exp s <= 1048576 ->
    p_inv (fst (p_fin s rb cur)).
  Proof.
    intros Hh He Hc Hm. unfold p_fin. destruct (cur =? p_exp s) eqn:E.
    - destruct (ok _); cbn [fst]; [|left; reflexivity].
      right. split; [reflexivity|]. left. cbn. rewrite Hh. change (len (@nil N)) with 0. split; [reflexivity|lia].
    - cbn [fst]. right. split; [reflexivity|]. right. cbn [mkp p_exp p_hdr p_cur].
      apply N.eqb_neq in E. repeat split; auto; lia.
  Qed.

  Lemma p_inv_step s b : p_inv s -> p_inv (fst (p_step s b)).
  Proof.
    intros Hi. unfold p_step. destruct (p_closed s) eqn:Hc; [left; exact Hc|].
    destruct Hi as [Hi|[_ Hi]]; [congruence|].
    destruct (p_exp s =? 0) eqn:E0.
    - destruct (len (p_hdr s ++ [b]) <? 4) eqn:E4; cbn [fst]; [|apply p_hfin_inv].
      right. split; [reflexivity|]. left. cbn. split; [reflexivity|lia].
    - apply N.eqb_neq in E0. destruct Hi as [[Hi _]|(_ & Hh & Hcur & Hm)]; [congruence|].
      apply p_fin_inv; auto. lia.
  Qed.

  Lemma prun_closed bs : forall s, p_closed s = true -> prun s bs = (s, []).
  Proof.
    induction bs as [|b r IH]; intros s Hc; cbn [run1]; [reflexivity|].
    unfold p_step. rewrite Hc. rewrite IH by exact Hc. reflexivity.
  Qed.

  Lemma p_fin_same s s1 rb cur : p_hdr s1 = p_hdr s -> p_exp s1 = p_exp s -> p_fin s1 rb cur = p_fin s rb cur.
  Proof. intros H1 H2. unfold p_fin. rewrite H1, H2. reflexivity. Qed.

  (* receiving k <= outstanding body bytes at once = one at a time *)
  Lemma prun_body : forall got s, p_closed s = false -> p_exp s <> 0 -> got <> [] ->
    p_cur s + len got <= p_exp s ->
    prun s got = p_fin s (rev_append got (p_rbody s)) (p_cur s + len got).
  Proof.
    induction got as [|b got IH]; intros s Hc He Hne Hl; [congruence|].
    cbn [run1]. unfold p_step at 1. rewrite Hc. replace (p_exp s =? 0) with false by (symmetry; apply N.eqb_neq; exact He).
    rewrite len_cons in *.
    destruct got as [|b2 got].
    - rewrite len_nil, N.add_0_r. cbn [run1 rev_append].
      destruct (p_fin s (b :: p_rbody s) (p_cur s + 1)) as [s1 o1]. rewrite app_nil_r. reflexivity.
    - assert (1 <= len (b2 :: got)) as H1 by (rewrite len_cons; lia).
      unfold p_fin at 1. replace (p_cur s + 1 =? p_exp s) with false by (symmetry; apply N.eqb_neq; lia).
      set (s1 := mkp (p_hdr s) (p_exp s) (b :: p_rbody s) (p_cur s + 1) false).
      rewrite (IH s1); try reflexivity; try discriminate; try exact He.
      + cbn [s1 mkp p_rbody p_cur rev_append]. rewrite (p_fin_same s s1) by reflexivity.
        replace (p_cur s + 1 + len (b2 :: got)) with (p_cur s + (1 + len (b2 :: got))) by lia.
        destruct (p_fin s _ _). reflexivity.
      + cbn [s1 mkp p_cur p_exp]. lia.
  Qed.

  (* collecting header bytes *)
  Lemma prun_hdr_part : forall got s, p_closed s = false -> p_exp s = 0 ->
    len (p_hdr s) + len got < 4 ->
    prun s got = (mkp (p_hdr s ++ got) 0 (p_rbody s) (p_cur s) false, []).
  Proof.
    induction got as [|b got IH]; intros s Hc He Hl.
    - cbn [run1]. rewrite app_nil_r. destruct s; cbn in *; subst; reflexivity.
    - cbn [run1]. unfold p_step at 1. rewrite Hc, He. cbn [N.eqb].
      rewrite len_cons in Hl. rewrite len_app, len_cons, len_nil.
      replace (len (p_hdr s) + (1 + 0) <? 4) with true by (symmetry; apply N.ltb_lt; lia).
      rewrite IH; try reflexivity.
      + cbn [mkp p_hdr p_rbody p_cur]. rewrite <- app_assoc. reflexivity.
      + cbn [mkp p_hdr]. rewrite len_app, len_cons, len_nil. lia.
  Qed.

  Lemma prun_hdr_full got s : p_closed s = false -> p_exp s = 0 -> got <> [] ->
    len (p_hdr s) + len got = 4 ->
    prun s got = (p_hfin s (p_hdr s ++ got), []).
  Proof.
    intros Hc He Hne Hl.
    destruct (exists_last Hne) as (g0 & b & ->).
    rewrite len_app, len_cons, len_nil in Hl.
    rewrite run1_app, (prun_hdr_part g0 s Hc He) by lia.
    cbn [run1]. unfold p_step. cbn [mkp p_closed p_exp p_hdr p_rbody p_cur N.eqb].
    rewrite <- app_assoc. rewrite !len_app, len_cons, len_nil.
    replace (len (p_hdr s) + (len g0 + (1 + 0)) <? 4) with false by (symmetry; apply N.ltb_ge; lia).
    unfold p_hfin. cbn [mkp p_rbody p_cur]. reflexivity.
  Qed.
End RpcProofs.

Section RpcProofs2.
  Variable ok : list N -> bool.
  Notation prun := (run1 (p_step ok)).

  Lemma p_bodyst_fin s av :
    p_bodyst ok s av =
      let want := usub32 (p_exp s) (p_cur s) in
      let k := N.min want (len av) in
      Some (fst (p_fin ok s (rev_append (take k av) (p_rbody s)) (p_cur s + k)), drop k av,
            snd (p_fin ok s (rev_append (take k av) (p_rbody s)) (p_cur s + k))).
  Proof.
    unfold p_bodyst. rewrite take_rev_spec. cbv zeta.
    set (want := usub32 (p_exp s) (p_cur s)). set (k := N.min want (len av)).
    replace (want - (want - k)) with k by (unfold k; lia).
    unfold p_fin, mkp. destruct (p_cur s + k =? p_exp s); [|reflexivity].
    destruct (ok _); reflexivity.
  Qed.

  Lemma p_bodyst_sim s av : p_closed s = false -> p_exp s <> 0 -> p_cur s < p_exp s ->
    p_exp s <= 1048576 ->
    exists used rest s1 o1, av = used ++ rest /\ (av <> [] -> used <> []) /\
      prun s used = (s1, o1) /\ p_bodyst ok s av = Some (s1, rest, o1).
  Proof.
    intros Hc He Hcur Hm. rewrite p_bodyst_fin. cbv zeta. rewrite usub32_small by lia.
    set (k := N.min (p_exp s - p_cur s) (len av)). set (got := take k av).
    assert (len got = k) as Lg by (unfold got; rewrite len_take; unfold k; lia).
    destruct av as [|b av'].
    - assert (k = 0) as -> by (unfold k; rewrite len_nil; lia).
      exists [], [], s, []. repeat split; auto.
      unfold got. rewrite take_0, drop_0. cbn [rev_append]. unfold p_fin. rewrite N.add_0_r.
      replace (p_cur s =? p_exp s) with false by (symmetry; apply N.eqb_neq; lia).
      cbn [fst snd]. destruct s; cbn in *; subst; reflexivity.
    - set (av := b :: av') in *.
      assert (1 <= k) as Hk by (unfold k, av; rewrite len_cons; lia).
      assert (got <> []) as Hgne by (intros Hx; rewrite Hx, len_nil in Lg; lia).
      exists got, (drop k av).
      destruct (p_fin ok s (rev_append got (p_rbody s)) (p_cur s + k)) as [s1 o1] eqn:Ef.
      exists s1, o1. cbn [fst snd]. repeat split; auto.
      + symmetry. apply take_drop.
      + rewrite (prun_body ok got s Hc He Hgne) by (rewrite Lg; unfold k; lia). rewrite Lg. exact Ef.
  Qed.

  Lemma p_recv_sim s av : p_inv s -> av <> [] ->
    exists used rest s1 o1, av = used ++ rest /\ used <> [] /\
      prun s used = (s1, o1) /\ p_recv ok s av = Some (s1, rest, o1).
  Proof.
    intros Hi Hne. unfold p_recv. destruct (p_closed s) eqn:Hc.
    - exists av, [], s, []. split; [symmetry; apply app_nil_r|]. split; [exact Hne|]. split; [apply prun_closed; exact Hc|reflexivity].
    - destruct Hi as [Hi|[_ Hi]]; [congruence|].
      destruct (p_exp s =? 0) eqn:E0.
      + apply N.eqb_eq in E0. destruct Hi as [[_ Hh]|[Hx _]]; [|congruence].
        rewrite take_rev_spec. set (want := 4 - len (p_hdr s)).
        set (k := N.min want (len av)). set (got := take k av).
        assert (1 <= len av) as Hlav by (destruct av; [congruence|rewrite len_cons; lia]).
        assert (len got = k) as Lg by (unfold got; rewrite len_take; unfold k; lia).
        assert (1 <= k) as Hk by (unfold k, want; lia).
        assert (got <> []) as Hgne by (intros Hx; rewrite Hx, len_nil in Lg; lia).
        rewrite rev_append_invol. fold got.
        destruct (want - k =? 0) eqn:Em; cbn [negb].
        * (* the header is complete *)
          apply N.eqb_eq in Em.
          assert (len (p_hdr s) + len got = 4) as L4 by (rewrite Lg; unfold k, want in *; lia).
          pose proof (prun_hdr_full ok got s Hc E0 Hgne L4) as Hrun.
          set (h := p_hdr s ++ got) in *. unfold p_hfin in Hrun.
          destruct (rpc_size (rpc_header h) =? 0) eqn:Es.
          { exists got, (drop k av). eexists; eexists. split; [symmetry; apply take_drop|]. split; [exact Hgne|]. split; [exact Hrun|reflexivity]. }
          destruct (negb (rpc_version (rpc_header h) =? RPC_PROTOCOL_VERSION)) eqn:Ev.
          { exists got, (drop k av). eexists; eexists. split; [symmetry; apply take_drop|]. split; [exact Hgne|]. split; [exact Hrun|reflexivity]. }
          destruct (RPC_MAX_BUFFER_SIZE <? rpc_size (rpc_header h)) eqn:Eo.
          { exists got, (drop k av). eexists; eexists. split; [symmetry; apply take_drop|]. split; [exact Hgne|]. split; [exact Hrun|reflexivity]. }
          set (bs := mkp [] (rpc_size (rpc_header h)) [] 0 false) in *.
          change RPC_MAX_BUFFER_SIZE with 1048576 in Eo. apply N.eqb_neq in Es.
          destruct (p_bodyst_sim bs (drop k av) eq_refl) as (used & rest & s1 & o1 & E & _ & R & B);
            try (cbn [bs mkp p_exp p_cur]; lia).
          exists (got ++ used), rest, s1, o1. repeat split.
          -- rewrite <- app_assoc, <- E. symmetry. apply take_drop.
          -- intros Hx. apply app_eq_nil in Hx. destruct Hx; congruence.
          -- rewrite run1_app, Hrun, R. reflexivity.
          -- exact B.
        * (* still incomplete: everything available was taken *)
          apply N.eqb_neq in Em.
          assert (k = len av) as Hka by (unfold k in *; lia).
          exists av, [].
          assert (got = av) as Hga by (unfold got; apply take_all; lia).
          assert (drop k av = []) as -> by (apply drop_all; lia).
          rewrite Hga. eexists; eexists. split; [symmetry; apply app_nil_r|]. split; [exact Hne|].
          split; [|reflexivity].
          apply (prun_hdr_part ok av s Hc E0). rewrite <- Hga, Lg. unfold k, want in *. lia.
      + apply N.eqb_neq in E0. destruct Hi as [[Hx _]|(_ & Hh & Hcur & Hm)]; [congruence|].
        destruct (p_bodyst_sim s av Hc E0 Hcur Hm) as (used & rest & s1 & o1 & E & Hn & R & B).
        exists used, rest, s1, o1. repeat split; auto.
  Qed.

  Lemma p_feed_run1 chunks :
    feed (p_recv ok) p_init chunks =
      Done (fst (prun p_init (concat chunks))) (snd (prun p_init (concat chunks))).
  Proof.
    apply (feed_run1 pstate (p_recv ok) (p_step ok) p_inv (p_inv_step ok) p_recv_sim). apply p_inv_init.
  Qed.
End RpcProofs2.

Section RpcRef.
  Variable ok : list N -> bool.
  Notation prun := (run1 (p_step ok)).

  Definition pres (p : pstate * list msg) : list msg * bool := (snd p, p_closed (fst p)).

  Lemma pres_app s a b s1 o1 : prun s a = (s1, o1) ->
    pres (prun s (a ++ b)) = let (ms, c) := pres (prun s1 b) in (o1 ++ ms, c).
  Proof.
    intros H. rewrite run1_app, H. destruct (prun s1 b) as [s2 o2]. reflexivity.
  Qed.

  Lemma rpc_header_lt h : rpc_header h < 4294967296.
  Proof.
    unfold rpc_header. destruct h as [|b0 [|b1 [|b2 [|b3 r]]]]; try lia.
    pose proof (u8_lt b0). pose proof (u8_lt b1). pose proof (u8_lt b2). pose proof (u8_lt b3). lia.
  Qed.

  Lemma rpc_size_mod hd : rpc_size hd = hd mod 268435456.
  Proof. unfold rpc_size. change RPC_SIZE_MASK with (N.ones 28). apply N.land_ones. Qed.

  Lemma rpc_version_div hd : hd < 4294967296 -> rpc_version hd = hd / 268435456.
  Proof.
    intros H. unfold rpc_version. rewrite N.shiftr_land.
    change (N.shiftr RPC_VERSION_MASK 28) with (N.ones 4). rewrite N.land_ones, N.shiftr_div_pow2.
    change (2 ^ 28) with 268435456. change (2 ^ 4) with 16.
    apply N.mod_small. apply N.div_lt_upper_bound; lia.
  Qed.

  Lemma length_tr_length (l : list N) : length_tr l = length l.
  Proof.
    unfold length_tr. rewrite <- (Nat.add_0_l (length l)). generalize 0%nat.
    induction l as [|x l IH]; intros n; cbn [fold_left length]; [lia|]. rewrite IH. lia.
  Qed.

  Lemma prun_ref : forall n stream s, (length stream < n)%nat ->
    p_closed s = false -> p_exp s = 0 -> p_hdr s = [] ->
    pres (prun s stream) = ref_rpc_f ok n stream.
  Proof.
    induction n as [|n IH]; intros stream s Hn Hc He Hh; [lia|]. cbn [ref_rpc_f].
    assert (forall got, len got < 4 -> pres (prun s got) = ([], false)) as Kpart.
    { intros got Hl. rewrite (prun_hdr_part ok got s Hc He) by (rewrite Hh, len_nil; lia). reflexivity. }
    destruct stream as [|b0 [|b1 [|b2 [|b3 r]]]];
      try (apply Kpart; unfold len; cbn [length]; lia).
    cbn [length] in Hn.
    assert (prun s [b0; b1; b2; b3] = (p_hfin s [b0; b1; b2; b3], [])) as Hhdr.
    { rewrite (prun_hdr_full ok [b0; b1; b2; b3] s Hc He ltac:(discriminate)); [rewrite Hh; reflexivity|].
      rewrite Hh. reflexivity. }
    change (b0 :: b1 :: b2 :: b3 :: r) with ([b0; b1; b2; b3] ++ r).
    rewrite (pres_app s [b0; b1; b2; b3] r _ _ Hhdr). cbn [app].
    unfold p_hfin. set (hd := rpc_header [b0; b1; b2; b3]).
    rewrite rpc_size_mod, (rpc_version_div hd (rpc_header_lt _)).
    change RPC_PROTOCOL_VERSION with 1. change RPC_MAX_BUFFER_SIZE with 1048576.
    set (n0 := hd mod 268435456). set (v := hd / 268435456).
    destruct (n0 =? 0) eqn:E0.
    { rewrite (IH r (mkp [] 0 (p_rbody s) (p_cur s) false)) by (auto; lia).
      destruct (ref_rpc_f ok n r). reflexivity. }
    destruct (negb (v =? 1)) eqn:Ev.
    { rewrite prun_closed by reflexivity. reflexivity. }
    destruct (1048576 <? n0) eqn:Eo.
    { rewrite prun_closed by reflexivity. reflexivity. }
    apply N.eqb_neq in E0.
    set (bs := mkp [] n0 [] 0 false).
    rewrite take_rev_spec. set (k := N.min n0 (len r)).
    destruct (n0 - k =? 0) eqn:Em; cbn [negb].
    - (* the whole body is present *)
      apply N.eqb_eq in Em. assert (k = n0) as Hk by (unfold k in *; lia). rewrite Hk.
      assert (n0 <= len r) as Hle by (unfold k in *; lia).
      set (g := take n0 r). set (r2 := drop n0 r).
      assert (len g = n0) as Lg by (unfold g; rewrite len_take; lia).
      assert (g <> []) as Hgne by (intros Hx; rewrite Hx, len_nil in Lg; lia).
      assert (r = g ++ r2) as Er by (symmetry; apply take_drop).
      assert (length r2 <= length r)%nat as Hlr by apply length_drop_lt.
      assert (prun bs g = p_fin ok bs (rev_append g []) n0) as Hb.
      { rewrite (prun_body ok g bs eq_refl) ; [|exact E0|exact Hgne|cbn [bs mkp p_cur p_exp]; lia].
        cbn [bs mkp p_rbody p_cur]. rewrite Lg. reflexivity. }
      unfold p_fin in Hb. cbn [bs mkp p_exp p_hdr] in Hb. rewrite N.eqb_refl in Hb.
      rewrite Er at 1.
      destruct (ok (rev_append (rev_append g []) [])) eqn:Eok.
      + rewrite (pres_app bs g r2 _ _ Hb).
        rewrite (IH r2 (mkp [] 0 (rev_append g []) n0 false)) by (auto; lia).
        destruct (ref_rpc_f ok n r2). reflexivity.
      + rewrite (pres_app bs g r2 _ _ Hb). rewrite prun_closed by reflexivity. reflexivity.
    - (* the stream ends inside the body *)
      apply N.eqb_neq in Em. assert (k = len r) as Hk by (unfold k in *; lia).
      destruct r as [|x r'].
      + reflexivity.
      + rewrite (prun_body ok (x :: r') bs eq_refl); [|exact E0|discriminate|cbn [bs mkp p_cur p_exp]; unfold k in *; lia].
        unfold p_fin. cbn [bs mkp p_exp p_cur].
        replace (0 + len (x :: r') =? n0) with false by (symmetry; apply N.eqb_neq; unfold k in *; lia).
        reflexivity.
  Qed.

  Lemma rpc_chunk_free chunks :
    exists s out, feed (p_recv ok) p_init chunks = Done s out /\
                  (out, p_closed s) = ref_rpc ok (concat chunks).
  Proof.
    rewrite p_feed_run1. eexists; eexists. split; [reflexivity|].
    unfold ref_rpc. rewrite length_tr_length.
    rewrite <- (prun_ref (S (length (concat chunks))) (concat chunks) p_init) by (auto; lia).
    reflexivity.
  Qed.
End RpcRef.

Section RpcSched.
  Variable ok : list N -> bool.

  Lemma rpc_sched es :
    (exists s pend out, run_sched pstate (p_recv ok) (p_init, [], []) es = Some (s, pend, out) /\
       (pend = [] -> (out, p_closed s) = ref_rpc ok (arrived es))) /\
    (exists k s out, run_sched pstate (p_recv ok) (p_init, [], []) (es ++ repeat Invoke k) = Some (s, [], out) /\
       (out, p_closed s) = ref_rpc ok (arrived es)).
  Proof.
    assert (forall bs s out, (s, out) = run1 (p_step ok) p_init bs -> (out, p_closed s) = ref_rpc ok bs) as Href.
    { intros bs s out H. unfold ref_rpc. rewrite length_tr_length.
      rewrite <- (prun_ref ok (S (length bs)) bs p_init); [|lia|reflexivity|reflexivity|reflexivity].
      rewrite <- H. reflexivity. exact ok. }
    split.
    - destruct (sched_drained pstate (p_recv ok) (p_step ok) p_inv (p_inv_step ok) (p_recv_sim ok) p_init es p_inv_init)
        as (s & pend & out & R & D).
      exists s, pend, out. split; [exact R|]. intros Hp. apply Href, D, Hp.
    - destruct (sched_eventually pstate (p_recv ok) (p_step ok) p_inv (p_inv_step ok) (p_recv_sim ok) p_init es p_inv_init)
        as (k & s & out & R & D).
      exists k, s, out. split; [exact R|]. apply Href, D.
  Qed.
End RpcSched.
