(* C10 — the linear-time OPC machine f_recv computes exactly what o_recv computes. *)
From OlaBase Require Import Bytes.
From C10 Require Import Gen Model Lemmas ProofsRecv ProofsOpc Schedule ProofsSchedOpc.
Local Open Scope N_scope.


Lemma take_rev_spec : forall l n acc,
  take_rev l n acc =
    (rev_append (take (N.min n (len l)) l) acc, drop (N.min n (len l)) l, n - N.min n (len l)).
Proof.
  induction l as [|x l IH]; intros n acc; cbn [take_rev].
  - rewrite len_nil. replace (N.min n 0) with 0 by lia. rewrite N.sub_0_r. reflexivity.
  - destruct (n =? 0) eqn:E.
    + apply N.eqb_eq in E. subst n. replace (N.min 0 (len (x :: l))) with 0 by lia. reflexivity.
    + apply N.eqb_neq in E. rewrite IH. rewrite len_cons.
      replace (N.min n (1 + len l)) with (N.succ (N.min (N.pred n) (len l))) by lia.
      unfold take, drop. rewrite N2Nat.inj_succ. cbn [firstn skipn rev_append].
      f_equal. lia.
Qed.

Lemma rev_append_nil_app (a b : list N) : rev_append (rev_append b a) [] = rev_append a [] ++ b.
Proof. rewrite !rev_append_rev, rev_app_distr, rev_involutive, !app_nil_r. reflexivity. Qed.
Lemma rev_append_invol (a : list N) : rev_append (rev_append a []) [] = a.
Proof. rewrite !rev_append_rev, !app_nil_r. apply rev_involutive. Qed.
Lemma len_rev_append_nil (a : list N) : len (rev_append a []) = len a.
Proof. rewrite rev_append_rev, app_nil_r. unfold len. rewrite rev_length. reflexivity. Qed.

Lemma o_expected_app d g : 4 <= len d -> o_expected (d ++ g) = o_expected d.
Proof.
  destruct d as [|a [|b [|c [|e r]]]]; intros H;
    try (unfold len in H; cbn [length] in H; lia). reflexivity.
Qed.

Definition f_inv (f : fstate) : Prop :=
  f_off f = len (f_rdata f) /\
  (forall e, f_exp f = Some e -> 4 <= f_off f /\ e = o_expected (rev_append (f_rdata f) [])).

Lemma f_inv_init : f_inv f_init.
Proof. split; [reflexivity|]. cbn. discriminate. Qed.

Lemma o_abs_eta s : o_abs {| f_rdata := rev_append (o_data s) []; f_off := len (o_data s); f_exp := None;
                            f_cap := o_cap s |} = s.
Proof. unfold o_abs. cbn [f_rdata f_cap]. rewrite rev_append_invol. destruct s; reflexivity. Qed.

Section WithReg.
  Variable reg : N -> bool.

(* one callback invocation: same result, same unread bytes, same deliveries, same hazard *)
Lemma f_recv_sim f av : f_inv f ->
  match (f_recv reg) f av with
  | Some (f1, r, o) => (o_recv reg) (o_abs f) av = Some (o_abs f1, r, o) /\ f_inv f1
  | None => (o_recv reg) (o_abs f) av = None
  end.
Proof.
  intros [Hoff Hexp]. unfold f_recv, o_recv. cbn [o_abs o_data o_cap].
  rewrite take_rev_spec. rewrite len_rev_append_nil, <- Hoff.
  set (room := usub32 (f_cap f) (f_off f)).
  set (k := N.min room (len av)).
  set (got := take k av).
  assert (len got = k) as Lg by (unfold got; rewrite len_take; unfold k; lia).
  replace (room - k) with (room - k) by reflexivity.
  assert (room - (room - k) = k) as Ek by (unfold k; lia).
  rewrite Ek. rewrite Lg.
  set (d := rev_append (f_rdata f) [] ++ got).
  assert (rev_append (rev_append got (f_rdata f)) [] = d) as Ed by apply rev_append_nil_app.
  assert (len d = f_off f + k) as Ld by (unfold d; rewrite len_app, len_rev_append_nil, Lg; lia).
  assert (len (rev_append got (f_rdata f)) = f_off f + k) as Lrd by (rewrite rev_append_rev, len_app; unfold len at 1; rewrite rev_length; fold (len got); lia).
  destruct (f_cap f <? f_off f + k) eqn:Eoob; [reflexivity|].
  change OPC_HEADER_SIZE with 4.
  (* which expected size does the fast machine use *)
  assert (forall e, 4 <= f_off f + k ->
            (f_exp f = Some e \/ (f_exp f = None /\ e = o_expected d)) -> e = o_expected d) as He.
  { intros e H4 [Hs|[_ Hn]]; [|exact Hn].
    destruct (Hexp e Hs) as [H4' ->]. unfold d. symmetry. apply o_expected_app.
    rewrite len_rev_append_nil. lia. }
  assert ((o_frames reg) (S (length d)) d (f_cap f) =
          if len d <? 4 then Some ({| o_data := d; o_cap := f_cap f |}, [])
          else let e := o_expected d in
               let grow := f_cap f <? e + 4 in
               if grow && (e + 4 <? len d) then None
               else let cap1 := if grow then e + 4 else f_cap f in
                    if len d <? e + 4 then Some ({| o_data := d; o_cap := cap1 |}, [])
                    else (o_frames reg) (S (length d)) d (f_cap f)) as Hfr.
  { cbn [o_frames]. change OPC_HEADER_SIZE with 4.
    destruct (len d <? 4); [reflexivity|]. cbv zeta.
    destruct ((f_cap f <? o_expected d + 4) && (o_expected d + 4 <? len d)); [reflexivity|].
    destruct (len d <? o_expected d + 4); reflexivity. }
  destruct (f_exp f) as [e|] eqn:Eexp.
  - (* expected size cached: the header is complete *)
    destruct (Hexp e eq_refl) as [H4 _].
    pose proof (He e ltac:(lia) (or_introl eq_refl)) as Ee.
    rewrite Hfr. rewrite Ld. replace (f_off f + k <? 4) with false by (symmetry; apply N.ltb_ge; lia).
    cbv zeta. rewrite <- Ee.
    destruct ((f_cap f <? e + 4) && (e + 4 <? f_off f + k)); [reflexivity|].
    destruct (f_off f + k <? e + 4) eqn:Einc.
    + split.
      * unfold o_abs. cbn [f_rdata f_cap]. rewrite Ed. reflexivity.
      * split; cbn [f_off f_rdata f_exp]; [lia|]. intros e' He'. inversion He'; subst e'.
        split; [lia|]. rewrite Ed. exact Ee.
    + rewrite Ed. destruct ((o_frames reg) (S (length d)) d (f_cap f)) as [[s1 out]|]; [|reflexivity].
      split; [rewrite o_abs_eta; reflexivity|]. split; cbn [f_off f_rdata f_exp].
      * rewrite len_rev_append_nil. reflexivity.
      * discriminate.
  - destruct (f_off f + k <? 4) eqn:E4.
    + rewrite Hfr, Ld, E4. split.
      * unfold o_abs. cbn [f_rdata f_cap]. rewrite Ed. reflexivity.
      * split; cbn [f_off f_rdata f_exp]; [lia|discriminate].
    + rewrite Ed. set (e := o_expected d).
      rewrite Hfr. rewrite Ld, E4. cbv zeta. fold e.
      destruct ((f_cap f <? e + 4) && (e + 4 <? f_off f + k)); [reflexivity|].
      destruct (f_off f + k <? e + 4) eqn:Einc.
      * split.
        -- unfold o_abs. cbn [f_rdata f_cap]. rewrite Ed. reflexivity.
        -- split; cbn [f_off f_rdata f_exp]; [lia|]. intros e' He'. inversion He'; subst e'.
           split; [apply N.ltb_ge in E4; lia|]. rewrite Ed. reflexivity.
      * destruct ((o_frames reg) (S (length d)) d (f_cap f)) as [[s1 out]|]; [|reflexivity].
        split; [rewrite o_abs_eta; reflexivity|]. split; cbn [f_off f_rdata f_exp].
        -- rewrite len_rev_append_nil. reflexivity.
        -- discriminate.
Qed.

(* ------------------------------------------------------------------ refinement of the loops *)
Section Refine.
  Variables F A : Type.
  Variable recvF : F -> list N -> option (F * list N * list msg).
  Variable recvA : A -> list N -> option (A * list N * list msg).
  Variable abs : F -> A.
  Variable inv : F -> Prop.
  Hypothesis sim : forall f av, inv f ->
    match recvF f av with
    | Some (f1, r, o) => recvA (abs f) av = Some (abs f1, r, o) /\ inv f1
    | None => recvA (abs f) av = None
    end.

  Definition run_abs (r : run F) : run A :=
    match r with Done f o => Done (abs f) o | Oob => Oob | OutOfFuel => OutOfFuel end.
  Definition run_inv (r : run F) : Prop := match r with Done f _ => inv f | _ => True end.

  Lemma drain_ref : forall fuel f av, inv f ->
    drain recvA fuel (abs f) av = run_abs (drain recvF fuel f av) /\ run_inv (drain recvF fuel f av).
  Proof.
    induction fuel as [|n IH]; intros f av Hi; destruct av as [|b av']; cbn [drain run_abs run_inv]; auto.
    pose proof (sim f (b :: av') Hi) as Hs.
    destruct (recvF f (b :: av')) as [[[f1 r] o]|].
    - destruct Hs as [E Hi1]. rewrite E. destruct (IH f1 r Hi1) as [E2 Hi2]. rewrite E2.
      destruct (drain recvF n f1 r); cbn [run_abs run_inv] in *; auto.
    - rewrite Hs. cbn. auto.
  Qed.

  Lemma feed_ref : forall chunks f, inv f ->
    feed recvA (abs f) chunks = run_abs (feed recvF f chunks) /\ run_inv (feed recvF f chunks).
  Proof.
    induction chunks as [|c cs IH]; intros f Hi; cbn [feed run_abs run_inv]; auto.
    unfold feed_chunk. destruct (drain_ref (S (length c)) f c Hi) as [E Hi1]. rewrite E.
    destruct (drain recvF (S (length c)) f c) as [f1 o1| |]; cbn [run_abs run_inv] in *; auto.
    destruct (IH f1 Hi1) as [E2 Hi2]. rewrite E2.
    destruct (feed recvF f1 cs); cbn [run_abs run_inv] in *; auto.
  Qed.

  Definition cfg_abs (c : option (F * list N * list msg)) : option (A * list N * list msg) :=
    match c with Some (f, p, o) => Some (abs f, p, o) | None => None end.

  Lemma sched_ref : forall es c,
    (match c with Some (f, _, _) => inv f | None => True end) ->
    fold_left (sched_step A recvA) es (cfg_abs c) = cfg_abs (fold_left (sched_step F recvF) es c).
  Proof.
    induction es as [|e es IH]; intros c Hi; [reflexivity|]. cbn [fold_left].
    destruct c as [[[f p] o]|]; cbn [cfg_abs sched_step].
    - destruct e as [bs|].
      + apply (IH (Some (f, p ++ bs, o))). exact Hi.
      + destruct p as [|x p'].
        * apply (IH (Some (f, [], o))). exact Hi.
        * pose proof (sim f (x :: p') Hi) as Hs.
          destruct (recvF f (x :: p')) as [[[f1 r] o1]|].
          -- destruct Hs as [E Hi1]. rewrite E. apply (IH (Some (f1, r, o ++ o1))). exact Hi1.
          -- rewrite Hs. apply (IH None). exact I.
    - apply (IH None). exact I.
  Qed.
End Refine.

Lemma o_abs_init : o_abs f_init = o_init.
Proof. reflexivity. Qed.

Lemma opcf_chunk_free chunks : bytes_ok (concat chunks) = true ->
  exists f, feed (f_recv reg) f_init chunks = Done f ((ref_opc reg) (concat chunks)).
Proof.
  intros Hb. destruct ((opc_chunk_free reg) chunks Hb) as (s & E).
  destruct (feed_ref fstate ostate (f_recv reg) (o_recv reg) o_abs f_inv f_recv_sim chunks f_init f_inv_init) as [R _].
  rewrite o_abs_init, E in R.
  destruct (feed (f_recv reg) f_init chunks) as [f o| |]; cbn [run_abs] in R; try discriminate.
  inversion R; subst. exists f. reflexivity.
Qed.

Lemma opcf_reachable_bounds chunks f out : bytes_ok (concat chunks) = true ->
  feed (f_recv reg) f_init chunks = Done f out ->
  f_off f = len (f_rdata f) /\ f_off f < f_cap f /\ f_cap f <= 65539.
Proof.
  intros Hb H.
  destruct (feed_ref fstate ostate (f_recv reg) (o_recv reg) o_abs f_inv f_recv_sim chunks f_init f_inv_init) as [R Hi].
  rewrite H in R, Hi. cbn [run_abs run_inv] in R, Hi. rewrite o_abs_init in R.
  destruct ((opc_reachable_bounds reg) chunks _ _ Hb R) as [A B]. cbn [o_abs o_data o_cap] in A, B.
  rewrite len_rev_append_nil in A. destruct Hi as [Hoff _]. rewrite Hoff. auto.
Qed.

Lemma opcf_capacity chunks f out : bytes_ok (concat chunks) = true ->
  feed (f_recv reg) f_init chunks = Done f out ->
  516 <= f_cap f /\ f_cap f <= 65539 /\ f_off f < f_cap f /\
  (4 <= f_off f -> o_expected (rev_append (f_rdata f) []) + 4 <= f_cap f).
Proof.
  intros Hb H.
  destruct (feed_ref fstate ostate (f_recv reg) (o_recv reg) o_abs f_inv f_recv_sim chunks f_init f_inv_init) as [R Hi].
  rewrite H in R, Hi. cbn [run_abs run_inv] in R, Hi. rewrite o_abs_init in R.
  destruct (opc_capacity reg chunks _ _ Hb R) as (A & B & C & D). cbn [o_abs o_data o_cap] in *.
  rewrite len_rev_append_nil in C, D. destruct Hi as [Hoff _]. rewrite Hoff. auto.
Qed.

Lemma opcf_sched es : bytes_ok (arrived es) = true ->
  (exists f pend out, run_sched fstate (f_recv reg) (f_init, [], []) es = Some (f, pend, out) /\
     (pend = [] -> out = (ref_opc reg) (arrived es))) /\
  (exists k f out, run_sched fstate (f_recv reg) (f_init, [], []) (es ++ repeat Invoke k) = Some (f, [], out) /\
     out = (ref_opc reg) (arrived es)).
Proof.
  intros Hb.
  assert (forall es', run_sched ostate (o_recv reg) (o_init, [], []) es' =
                      cfg_abs fstate ostate o_abs (run_sched fstate (f_recv reg) (f_init, [], []) es')) as K.
  { intros es'. unfold run_sched. rewrite <- o_abs_init.
    apply (sched_ref fstate ostate (f_recv reg) (o_recv reg) o_abs f_inv f_recv_sim es' (Some (f_init, [], []))).
    exact f_inv_init. }
  destruct ((opc_sched reg) es Hb) as [(s & pend & out & R & D) (k & s2 & out2 & R2 & D2)]. split.
  - rewrite K in R. destruct (run_sched fstate (f_recv reg) (f_init, [], []) es) as [[[f p] o]|]; [|discriminate].
    cbn [cfg_abs] in R. inversion R as [[Ha Hp' Ho']]. eexists; eexists; eexists. split; [reflexivity|].
    intros Hp. assert (pend = []) as Hpe by congruence. specialize (D Hpe). congruence.
  - exists k. rewrite K in R2.
    destruct (run_sched fstate (f_recv reg) (f_init, [], []) (es ++ repeat Invoke k)) as [[[f p] o]|]; [|discriminate].
    cbn [cfg_abs] in R2. inversion R2 as [[Ha Hp' Ho']]. eexists; eexists. split; [reflexivity|congruence].
Qed.
End WithReg.
