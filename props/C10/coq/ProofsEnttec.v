(* C10 — Enttec USB Pro label dispatch on top of the framer; Receive with interrupted reads. *)
From OlaBase Require Import Bytes.
From C10 Require Import Gen Model Lemmas ProofsRecv ProofsUsb.
Local Open Scope N_scope.

Lemma enttec_dispatch_app dual a b :
  enttec_dispatch dual (a ++ b) = enttec_dispatch dual a ++ enttec_dispatch dual b.
Proof. unfold enttec_dispatch. apply flat_map_app. Qed.

Lemma enttec_dispatch_chunk_free dual chunks :
  exists s out, feed u_recv u_init chunks = Done s out /\
                enttec_dispatch dual out = enttec_dispatch dual (ref_usb (concat chunks)).
Proof. destruct (usb_chunk_free chunks) as (s & E). exists s, (ref_usb (concat chunks)). auto. Qed.

(* a frame whose label is in neither label set is dropped and affects no other delivery *)
Lemma enttec_dispatch_skip dual a m b : snd (enttec_route dual (fst m)) = 0 ->
  enttec_dispatch dual (a ++ m :: b) = enttec_dispatch dual (a ++ b).
Proof.
  intros H. rewrite !enttec_dispatch_app. f_equal. unfold enttec_dispatch at 1. cbn [flat_map].
  rewrite H. reflexivity.
Qed.

(* ConnectedDescriptor::Receive: an EINTR result anywhere in the sequence of read() results changes
   nothing (the read is retried, cursor and count untouched) *)
Lemma receive_eintr_anywhere : forall a b src size dr cur buf,
  receive (a ++ RIntr :: b) src size dr cur buf = receive (a ++ b) src size dr cur buf.
Proof.
  induction a as [|r a IH]; intros b src size dr cur buf; cbn [app receive].
  - destruct (size <=? dr) eqn:E; [|reflexivity]. destruct b; cbn [receive]; rewrite E; reflexivity.
  - destruct (size <=? dr); [reflexivity|]. destruct r; try reflexivity.
    + destruct (_ =? 0); [reflexivity|]. destruct (write_at _ _ _); [apply IH|reflexivity].
    + apply IH.
Qed.

(* an EAGAIN ends the call with what the successful reads before it stored; later results are not
   looked at *)
Lemma receive_eagain_stops : forall a b src size dr cur buf,
  receive (a ++ RAgain :: b) src size dr cur buf = receive a src size dr cur buf.
Proof.
  induction a as [|r a IH]; intros b src size dr cur buf; cbn [app receive].
  - reflexivity.
  - destruct (size <=? dr); [reflexivity|]. destruct r; try reflexivity.
    + destruct (_ =? 0); [reflexivity|]. destruct (write_at _ _ _); [apply IH|reflexivity].
    + apply IH.
Qed.
