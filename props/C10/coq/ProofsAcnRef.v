(* C10 — ACN over TCP: the byte-wise automaton delivers exactly what the reference framer says. *)
From OlaBase Require Import Bytes.
From C10 Require Import Gen Model Lemmas ProofsRecv ProofsAcn.
Local Open Scope N_scope.

Lemma adata_store s got k : adata (a_store s got k) = adata s ++ got.
Proof.
  unfold adata, a_store. cbn [a_rdata].
  rewrite !rev_append_rev, rev_app_distr, rev_involutive, !app_nil_r. reflexivity.
Qed.

Lemma a_fire1_noop s : a_valid s && (a_out s =? 0) = false -> a_fire1 s = (s, []).
Proof. intros H. unfold a_fire1. rewrite H. reflexivity. Qed.

Definition a_mode (s : astate) (blk : option (N * N)) : Prop :=
  a_rdata s = [] /\
  match blk with
  | None => a_st s = A_PRE
  | Some (L, c) => a_st s = A_FLAGS /\ a_block s = L /\ a_cons s = c
  end.
Definition a_ready (s : astate) (blk : option (N * N)) : Prop :=
  a_valid s = true /\ a_wf s /\ a_mode s blk.

Lemma a_ready_norm s blk : a_ready s blk -> a_ready (a_norm s) blk.
Proof.
  intros (Hv & W & Hr & Hm).
  destruct (a_norm_fields s) as (E1 & E2 & _ & _ & E5 & E6 & _ & _ & E9).
  split; [rewrite E9; exact Hv|]. split; [apply a_wf_norm; exact W|].
  split; [rewrite E2; exact Hr|]. destruct blk as [[L c]|]; rewrite ?E1, ?E5, ?E6; exact Hm.
Qed.

Lemma a_ready_enter s t out blk cons bk : a_valid s = true -> a_wf s ->
  (t = A_PRE /\ out = 16 /\ bk = None) \/ (t = A_FLAGS /\ out = 1 /\ bk = Some (blk, cons)) ->
  a_ready (a_enter t out blk cons s) bk.
Proof.
  intros Hv W Ht. split; [exact Hv|]. split.
  - apply a_wf_enter; [exact W|]. destruct Ht as [(-> & -> & _)|(-> & -> & _)]; auto.
  - split; [reflexivity|]. destruct Ht as [(-> & _ & ->)|(-> & _ & ->)]; cbn; auto.
Qed.

(* HandlePreamble is due *)
Lemma fire_pre s : a_valid s = true -> a_wf s -> a_st s = A_PRE -> a_out s = 0 ->
  snd (a_fire s) = [] /\
  (if negb (list_eqb (take 12 (adata s)) ACN_HEADER) then a_valid (fst (a_fire s)) = false
   else a_ready (fst (a_fire s))
          (let bs := be32 (drop 12 (adata s)) in if bs =? 0 then None else Some (bs, 0))).
Proof.
  intros Hv W Hst Ho. set (bs := be32 (drop 12 (adata s))).
  assert (a_fire s = if negb (list_eqb (take 12 (adata s)) ACN_HEADER)
                     then (a_invalid (a_psize s) s, [])
                     else (a_norm (if bs =? 0 then a_enter A_PRE 16 bs (a_cons s) s
                                   else a_enter A_FLAGS 1 bs 0 s), [])) as E.
  { unfold a_fire, a_fire1 at 1. rewrite Hv, Ho. cbn [andb N.eqb].
    unfold a_handle. rewrite Hst. change ACN_HEADER_SIZE with 12. change ACN_PREAMBLE with 16.
    fold bs. destruct (negb (list_eqb (take 12 (adata s)) ACN_HEADER)).
    - rewrite a_fire1_noop by reflexivity. rewrite a_norm_invalid by reflexivity. reflexivity.
    - destruct (bs =? 0);
        (rewrite a_fire1_noop by (cbn [a_enter a_valid a_out]; rewrite Hv; reflexivity)); reflexivity. }
  rewrite E. destruct (negb (list_eqb (take 12 (adata s)) ACN_HEADER)); cbn [fst snd]; (split; [reflexivity|]).
  - reflexivity.
  - destruct (bs =? 0); apply a_ready_norm, a_ready_enter; auto.
Qed.

(* HandlePDU is due *)
Lemma fire_pdu s L c : a_valid s = true -> a_wf s -> a_st s = A_PDU -> a_out s = 0 ->
  a_block s = L -> a_cons s = c ->
  snd (a_fire s) = [(0, adata s)] /\
  a_ready (fst (a_fire s))
    (let c' := u32 (c + a_psize s) in if c' =? L then None else Some (L, c')).
Proof.
  intros Hv W Hst Ho HL Hc. set (c' := u32 (c + a_psize s)).
  assert (a_fire s = (a_norm (if c' =? L then a_enter A_PRE 16 L c' s else a_enter A_FLAGS 1 L c' s),
                      [(0, adata s)])) as E.
  { unfold a_fire, a_fire1 at 1. rewrite Hv, Ho. cbn [andb N.eqb].
    unfold a_handle. rewrite Hst. change ACN_PREAMBLE with 16.
    assert (a_len s =? a_psize s = true) as ->.
    { destruct W as (_ & _ & _ & T). unfold a_target in T. rewrite Hst in T. apply N.eqb_eq. lia. }
    cbn [negb]. rewrite HL, Hc. fold c'.
    destruct (c' =? L);
      (rewrite a_fire1_noop by (cbn [a_enter a_valid a_out]; rewrite Hv; reflexivity)); reflexivity. }
  rewrite E. cbn [fst snd]. split; [reflexivity|].
  destruct (c' =? L); apply a_ready_norm, a_ready_enter; auto.
Qed.

Lemma adata_norm s : adata (a_norm s) = adata s.
Proof. unfold adata. destruct (a_norm_fields s) as (_ & E & _). rewrite E. reflexivity. Qed.

Definition a_ready_len (s : astate) (d : list N) (ls L c : N) : Prop :=
  a_valid s = true /\ a_wf s /\ a_st s = A_LEN /\ adata s = d /\ a_lsize s = ls /\
  a_block s = L /\ a_cons s = c /\ 0 < a_out s.
Definition a_ready_pdu (s : astate) (d : list N) (ps L c : N) : Prop :=
  a_valid s = true /\ a_wf s /\ a_st s = A_PDU /\ adata s = d /\ a_psize s = ps /\
  a_block s = L /\ a_cons s = c /\ 0 < a_out s.

(* HandlePDUFlags is due *)
Lemma fire_flags s b0 L c : a_valid s = true -> a_wf s -> a_st s = A_FLAGS -> a_out s = 0 ->
  adata s = [b0] -> a_block s = L -> a_cons s = c ->
  snd (a_fire s) = [] /\ a_ready_len (fst (a_fire s)) [b0] (if lflag b0 then 3 else 2) L c.
Proof.
  intros Hv W Hst Ho Hd HL Hc.
  pose proof (a_handle_ok s W Hv Ho) as Hh.
  assert (exists sL, a_handle s = (sL, []) /\ a_valid sL = true /\ a_st sL = A_LEN /\
            a_rdata sL = a_rdata s /\ a_lsize sL = (if lflag b0 then 3 else 2) /\
            a_block sL = L /\ a_cons sL = c /\ 0 < a_out sL) as (sL & E & HvL & HstL & HrL & HlL & HbL & HcL & HoL).
  { unfold a_handle. rewrite Hst, Hd, Ho. change ACN_TWO_BYTES with 2. change ACN_THREE_BYTES with 3.
    eexists. split; [reflexivity|]. cbn [a_valid a_st a_rdata a_lsize a_block a_cons a_out].
    repeat split; auto. destruct (lflag b0); vm_compute; reflexivity. }
  rewrite E in Hh. cbn [fst] in Hh. destruct Hh as [Hh|(_ & WL & _)]; [congruence|].
  assert (a_fire s = (a_norm sL, [])) as Ef.
  { unfold a_fire, a_fire1 at 1. rewrite Hv, Ho. cbn [andb N.eqb]. rewrite E.
    rewrite a_fire1_noop; [reflexivity|].
    replace (a_out sL =? 0) with false by (symmetry; apply N.eqb_neq; lia). apply andb_false_r. }
  rewrite Ef. cbn [fst snd]. split; [reflexivity|].
  destruct (a_norm_fields sL) as (E1 & E2 & _ & E4 & E5 & E6 & E7 & _ & E9).
  unfold a_ready_len. rewrite E1, E4, E5, E6, E7, E9, adata_norm.
  repeat split; auto; try (apply a_wf_norm; exact WL).
  unfold adata in *. rewrite HrL. exact Hd.
Qed.

Lemma a_fire_chain s s1 : a_valid s = true -> a_out s = 0 -> a_handle s = (s1, []) ->
  a_valid s1 = true -> a_out s1 = 0 -> a_st s1 = A_PDU -> a_fire s = a_fire s1.
Proof.
  intros Hv Ho E Hv1 Ho1 Hst1. unfold a_fire, a_fire1 at 1. rewrite Hv, Ho. cbn [andb N.eqb]. rewrite E.
  unfold a_fire1 at 2. rewrite Hv1, Ho1. cbn [andb N.eqb].
  unfold a_fire1 at 1. rewrite Hv1, Ho1. cbn [andb N.eqb].
  pose proof (a_handle_from_pdu s1 Hst1) as Hp.
  destruct (a_handle s1) as [s2 o2]. cbn [fst app] in *.
  rewrite a_fire1_noop; [rewrite app_nil_r; reflexivity|].
  destruct Hp as [Hp|Hp]; [rewrite Hp; reflexivity|].
  replace (a_out s2 =? 0) with false by (symmetry; apply N.eqb_neq; lia). apply andb_false_r.
Qed.

(* HandlePDULength is due *)
Lemma fire_len s d ls L c : a_valid s = true -> a_wf s -> a_st s = A_LEN -> a_out s = 0 ->
  adata s = d -> a_lsize s = ls -> a_block s = L -> a_cons s = c ->
  let ps := pdu_len ls d in
  if ps <? ls then snd (a_fire s) = [] /\ a_valid (fst (a_fire s)) = false
  else if ps =? ls
       then snd (a_fire s) = [(0, d)] /\
            a_ready (fst (a_fire s)) (let c' := u32 (c + ps) in if c' =? L then None else Some (L, c'))
       else snd (a_fire s) = [] /\ a_ready_pdu (fst (a_fire s)) d ps L c /\
            a_out (fst (a_fire s)) = ps - ls.
Proof.
  intros Hv W Hst Ho Hd Hl HL Hc ps.
  pose proof (a_handle_ok s W Hv Ho) as Hh.
  pose proof (pdu_len_lt ls d) as Hps. fold ps in Hps.
  assert (ls = 2 \/ ls = 3) as Hls.
  { destruct W as (_ & _ & _ & T). unfold a_target in T. rewrite Hst in T. rewrite <- Hl. tauto. }
  assert (a_len s = ls) as Hlen.
  { destruct W as (_ & _ & _ & T). unfold a_target in T. rewrite Hst in T. lia. }
  destruct (ps <? ls) eqn:E1.
  - assert (a_fire s = (a_invalid ps s, [])) as Ef.
    { unfold a_fire, a_fire1 at 1. rewrite Hv, Ho. cbn [andb N.eqb].
      unfold a_handle. rewrite Hst, Hd, Hl. fold ps. rewrite E1.
      rewrite a_fire1_noop by reflexivity. rewrite a_norm_invalid by reflexivity. reflexivity. }
    rewrite Ef. split; reflexivity.
  - set (sP := {| a_st := A_PDU; a_rdata := a_rdata s; a_len := a_len s; a_out := ps - ls;
                  a_block := a_block s; a_cons := a_cons s; a_lsize := ls; a_psize := ps;
                  a_cap := a_cap s; a_valid := a_valid s |}).
    assert (a_handle s = (sP, [])) as E.
    { unfold a_handle. rewrite Hst, Hd, Hl. fold ps. rewrite E1, Ho.
      rewrite usub32_small by lia. unfold u32. rewrite N.mod_small by lia. rewrite N.add_0_l. reflexivity. }
    rewrite E in Hh. cbn [fst] in Hh. destruct Hh as [Hh|(HvP & WP & _)]; [cbn in Hh; congruence|].
    assert (adata sP = d) as HdP by exact Hd.
    destruct (ps =? ls) eqn:E2.
    + apply N.eqb_eq in E2.
      assert (a_out sP = 0) as HoP by (cbn; lia).
      rewrite (a_fire_chain s sP Hv Ho E HvP HoP eq_refl).
      destruct (fire_pdu sP L c HvP WP eq_refl HoP HL Hc) as [A B]. rewrite HdP in A. split; [exact A|exact B].
    + apply N.eqb_neq in E2.
      assert (a_fire s = (a_norm sP, [])) as Ef.
      { unfold a_fire, a_fire1 at 1. rewrite Hv, Ho. cbn [andb N.eqb]. rewrite E.
        rewrite a_fire1_noop; [reflexivity|].
        replace (a_out sP =? 0) with false by (symmetry; apply N.eqb_neq; cbn; lia). apply andb_false_r. }
      rewrite Ef. cbn [fst snd]. split; [reflexivity|].
      destruct (a_norm_fields sP) as (F1 & F2 & _ & F4 & F5 & F6 & _ & F8 & F9).
      unfold a_ready_pdu. rewrite F1, F4, F5, F6, F8, F9, adata_norm.
      repeat split; auto; try (apply a_wf_norm; exact WP). cbn. lia.
Qed.

(* ------------------------------------------------------------------ automaton = reference framer *)
Lemma arun_partial s got : a_valid s = true -> a_wf s -> len got < a_out s -> snd (arun s got) = [].
Proof.
  intros Hv W Hl. destruct got as [|b got]; [reflexivity|].
  pose proof (a_target_le s (proj2 (proj2 (proj2 W)))) as Ht.
  rewrite (arun_store (b :: got) s (len (b :: got)) Hv W ltac:(discriminate) eq_refl ltac:(lia)).
  rewrite a_fire_noop; [reflexivity|].
  cbn [a_store a_out]. rewrite usub32_small by lia.
  replace (a_out s - len (b :: got) =? 0) with false by (symmetry; apply N.eqb_neq; lia).
  apply andb_false_r.
Qed.

Lemma len_adata s : len (adata s) = len (a_rdata s).
Proof. unfold adata. rewrite len_rev_append, len_nil. lia. Qed.

Lemma a_ready_zero s blk : a_ready s blk ->
  a_len s = 0 /\ adata s = [] /\ a_out s = match blk with None => 16 | Some _ => 1 end.
Proof.
  intros (Hv & (H0 & H1 & H2 & T) & Hr & Hm). rewrite Hr in H0. change (len (@nil N)) with 0 in H0.
  split; [exact H0|]. split; [unfold adata; rewrite Hr; reflexivity|].
  unfold a_target in T. destruct blk as [[L c]|].
  - destruct Hm as (Hst & _). rewrite Hst in T. lia.
  - rewrite Hm in T. lia.
Qed.

Lemma be32_take4 l : 4 <= len l -> be32 (take 4 l) = be32 l.
Proof.
  destruct l as [|a [|b [|c [|d r]]]]; intros H;
    try (unfold len in H; cbn [length] in H; lia). reflexivity.
Qed.

Lemma take_take {A} a b (l : list A) : a <= b -> take a (take b l) = take a l.
Proof. unfold take. intros H. rewrite firstn_firstn. f_equal. lia. Qed.

Lemma drop12_take16 (l : list N) : drop 12 (take 16 l) = take 4 (drop 12 l).
Proof.
  unfold take, drop. change (N.to_nat 16) with (N.to_nat 12 + N.to_nat 4)%nat.
  symmetry. apply firstn_skipn_comm.
Qed.

Lemma pdu_len_prefix ls b0 g r : (ls = 2 \/ ls = 3) -> len g = ls - 1 ->
  pdu_len ls (b0 :: g ++ r) = pdu_len ls (b0 :: g).
Proof.
  intros [-> | ->] Hg.
  - destruct g as [|b1 [|b2 g]]; try (unfold len in Hg; cbn [length] in Hg; lia). reflexivity.
  - destruct g as [|b1 [|b2 [|b3 g]]]; try (unfold len in Hg; cbn [length] in Hg; lia). reflexivity.
Qed.

Lemma arun_ref : forall n bytes s blk, (length bytes < n)%nat -> a_ready s blk ->
  snd (arun s bytes) = ref_acn_f n blk bytes.
Proof.
  induction n as [|n IH]; intros bytes s blk Hn Hr; [lia|].
  destruct (a_ready_zero s blk Hr) as (Hlen0 & Had0 & Hout0).
  pose proof Hr as (Hv & W & Hrd & Hm).
  cbn [ref_acn_f]. destruct blk as [[L c]|].
  - (* inside a block: a PDU is expected *)
    destruct Hm as (Hst & HL & Hc).
    destruct bytes as [|b0 r0]; [reflexivity|]. cbn [length] in Hn.
    set (ls := if lflag b0 then 3 else 2).
    assert (ls = 2 \/ ls = 3) as Hls by (unfold ls; destruct (lflag b0); auto).
    change (b0 :: r0) with ([b0] ++ r0) at 1. rewrite run1_app.
    rewrite (arun_store [b0] s 1 Hv W ltac:(discriminate) eq_refl ltac:(lia)).
    set (s1 := a_store s [b0] 1).
    assert (a_wf s1) as W1 by (apply a_wf_store; [exact W|reflexivity|lia]).
    assert (a_out s1 = 0) as Ho1 by (unfold s1; cbn [a_store a_out]; rewrite Hout0; reflexivity).
    assert (adata s1 = [b0]) as Hd1 by (unfold s1; rewrite adata_store, Had0; reflexivity).
    destruct (fire_flags s1 b0 L c Hv W1 Hst Ho1 Hd1 HL Hc) as [Fo Fr].
    destruct (a_fire s1) as [s2 o2]. cbn [fst snd] in Fo, Fr. subst o2. fold ls in Fr.
    destruct Fr as (Hv2 & W2 & Hst2 & Hd2 & Hl2 & HL2 & Hc2 & Ho2).
    assert (a_len s2 = 1) as Hlen2.
    { destruct W2 as (E & _). rewrite E, <- len_adata, Hd2. reflexivity. }
    assert (a_out s2 = ls - 1) as Hout2.
    { destruct W2 as (_ & _ & _ & T). unfold a_target in T. rewrite Hst2, Hl2 in T. lia. }
    cbn [app]. rewrite len_cons.
    destruct (1 + len r0 <? ls) eqn:E1.
    { rewrite (surjective_pairing (arun s2 r0)). cbn [snd].
      apply arun_partial; auto. lia. }
    set (g := take (ls - 1) r0). set (r1 := drop (ls - 1) r0).
    assert (len g = ls - 1) as Lg by (unfold g; rewrite len_take; lia).
    assert (g <> []) as Hgne by (intros Hc'; rewrite Hc', len_nil in Lg; lia).
    assert (r0 = g ++ r1) as Er0 by (symmetry; apply take_drop).
    assert (length r1 <= length r0)%nat as Hlr1 by apply length_drop_lt.
    rewrite Er0 at 1. rewrite run1_app.
    rewrite (arun_store g s2 (ls - 1) Hv2 W2 Hgne (eq_sym Lg) ltac:(lia)).
    set (s3 := a_store s2 g (ls - 1)).
    assert (a_wf s3) as W3 by (apply a_wf_store; auto; lia).
    assert (a_out s3 = 0) as Ho3.
    { unfold s3. cbn [a_store a_out]. rewrite Hout2, usub32_small by lia. lia. }
    assert (adata s3 = b0 :: g) as Hd3 by (unfold s3; rewrite adata_store, Hd2; reflexivity).
    pose proof (fire_len s3 (b0 :: g) ls L c Hv2 W3 Hst2 Ho3 Hd3 Hl2 HL2 Hc2) as Fl.
    cbv zeta in Fl.
    assert (pdu_len ls (b0 :: r0) = pdu_len ls (b0 :: g)) as Epl
      by (rewrite Er0; apply pdu_len_prefix; auto).
    rewrite Epl. set (ps := pdu_len ls (b0 :: g)) in *.
    assert (ps < 1048576) as Hps by apply pdu_len_lt.
    assert (len (b0 :: g) = ls) as Ld by (rewrite len_cons; lia).
    destruct (ps <? ls) eqn:E2.
    { destruct Fl as [Fo Fv]. destruct (a_fire s3) as [s4 o4]. cbn [fst snd] in *. subst o4.
      rewrite (arun_invalid r1 s4 Fv). reflexivity. }
    destruct (ps =? ls) eqn:E3.
    { apply N.eqb_eq in E3. destruct Fl as [Fo Frd].
      destruct (a_fire s3) as [s4 o4]. cbn [fst snd] in *. subst o4.
      assert (1 + len r0 <? ps = false) as -> by lia.
      assert (take ps (b0 :: r0) = b0 :: g) as ->.
      { rewrite Er0. change (b0 :: g ++ r1) with ((b0 :: g) ++ r1). rewrite E3, <- Ld. apply take_app_exact. }
      assert (drop ps (b0 :: r0) = r1) as ->.
      { rewrite Er0. change (b0 :: g ++ r1) with ((b0 :: g) ++ r1). rewrite E3, <- Ld. apply drop_app_exact. }
      rewrite <- (IH r1 s4 _ ltac:(lia) Frd).
      destruct (arun s4 r1) as [s5 o5]. reflexivity. }
    apply N.eqb_neq in E3. destruct Fl as (Fo & Frp & Fout).
    destruct (a_fire s3) as [s4 o4]. cbn [fst snd] in *. subst o4.
    destruct Frp as (Hv4 & W4 & Hst4 & Hd4 & Hp4 & HL4 & Hc4 & Ho4).
    cbn [app].
    destruct (1 + len r0 <? ps) eqn:E4.
    { rewrite (surjective_pairing (arun s4 r1)). cbn [snd]. apply arun_partial; auto.
      assert (len r0 = len g + len r1) as Lr0' by (rewrite Er0 at 1; apply len_app). lia. }
    assert (len r0 = len g + len r1) as Lr0 by (rewrite Er0 at 1; apply len_app).
    set (m := ps - ls) in *.
    set (g2 := take m r1). set (r2 := drop m r1).
    assert (len g2 = m) as Lg2 by (unfold g2; rewrite len_take; lia).
    assert (g2 <> []) as Hg2ne by (intros Hc'; rewrite Hc', len_nil in Lg2; lia).
    assert (r1 = g2 ++ r2) as Er1 by (symmetry; apply take_drop).
    assert (length r2 <= length r1)%nat as Hlr2 by apply length_drop_lt.
    rewrite Er1 at 1. rewrite run1_app.
    rewrite (arun_store g2 s4 m Hv4 W4 Hg2ne (eq_sym Lg2) ltac:(lia)).
    set (s5 := a_store s4 g2 m).
    assert (a_wf s5) as W5 by (apply a_wf_store; auto; lia).
    assert (a_out s5 = 0) as Ho5.
    { unfold s5. cbn [a_store a_out]. rewrite Fout, usub32_small by lia. lia. }
    assert (adata s5 = (b0 :: g) ++ g2) as Hd5 by (unfold s5; rewrite adata_store, Hd4; reflexivity).
    destruct (fire_pdu s5 L c Hv4 W5 Hst4 Ho5 HL4 Hc4) as [Fo5 Fr5].
    assert (a_psize s5 = ps) as Hp5 by exact Hp4. rewrite Hp5 in Fr5. rewrite Hd5 in Fo5.
    destruct (a_fire s5) as [s6 o6]. cbn [fst snd] in *. subst o6.
    assert (take ps (b0 :: r0) = (b0 :: g) ++ g2) as ->.
    { rewrite Er0, Er1. change (b0 :: g ++ g2 ++ r2) with ((b0 :: g) ++ g2 ++ r2).
      replace ps with (len (b0 :: g) + m) by (unfold m; lia).
      rewrite take_app_len. f_equal. rewrite <- Lg2. apply take_app_exact. }
    assert (drop ps (b0 :: r0) = r2) as ->.
    { rewrite Er0, Er1. change (b0 :: g ++ g2 ++ r2) with ((b0 :: g) ++ g2 ++ r2).
      replace ps with (len (b0 :: g) + m) by (unfold m; lia).
      rewrite drop_app_len. rewrite <- Lg2. apply drop_app_exact. }
    rewrite <- (IH r2 s6 _ ltac:(lia) Fr5).
    destruct (arun s6 r2) as [s7 o7]. reflexivity.
  - (* between blocks: the packet identifier and the block length are expected *)
    destruct (len bytes <? 16) eqn:E.
    { apply arun_partial; auto. lia. }
    set (g := take 16 bytes). set (r := drop 16 bytes).
    assert (len g = 16) as Lg by (unfold g; rewrite len_take; lia).
    assert (g <> []) as Hgne by (intros Hc'; rewrite Hc', len_nil in Lg; lia).
    assert (bytes = g ++ r) as Eb by (symmetry; apply take_drop).
    assert (length r + 1 <= length bytes)%nat as Hlr.
    { assert (length bytes = length g + length r)%nat as HL by (rewrite Eb at 1; apply app_length).
      assert (1 <= length g)%nat by (destruct g; [congruence|cbn [length]; lia]). lia. }
    rewrite Eb at 1. rewrite run1_app.
    rewrite (arun_store g s 16 Hv W Hgne (eq_sym Lg) ltac:(lia)).
    set (s1 := a_store s g 16).
    assert (a_wf s1) as W1 by (apply a_wf_store; auto; lia).
    assert (a_out s1 = 0) as Ho1 by (unfold s1; cbn [a_store a_out]; rewrite Hout0; reflexivity).
    assert (adata s1 = g) as Hd1 by (unfold s1; rewrite adata_store, Had0; reflexivity).
    destruct (fire_pre s1 Hv W1 Hm Ho1) as [Fo Fc]. rewrite Hd1 in Fc.
    assert (take 12 g = take 12 bytes) as E12 by (unfold g; apply take_take; lia).
    assert (be32 (drop 12 g) = be32 (drop 12 bytes)) as Ebe.
    { unfold g. rewrite drop12_take16. apply be32_take4. rewrite drop_len. lia. }
    rewrite E12, Ebe in Fc.
    destruct (a_fire s1) as [s2 o2]. cbn [fst snd] in *. subst o2.
    destruct (negb (list_eqb (take 12 bytes) ACN_HEADER)).
    { rewrite (arun_invalid r s2 Fc). reflexivity. }
    cbv zeta in Fc.
    rewrite <- (IH r s2 _ ltac:(lia) Fc).
    destruct (arun s2 r) as [s3 o3]. reflexivity.
Qed.

Lemma acn_chunk_free chunks :
  exists s, feed a_recv a_init chunks = Done s (ref_acn (concat chunks)).
Proof.
  rewrite a_feed_run1. eexists. f_equal. unfold ref_acn. apply arun_ref; [lia|].
  split; [reflexivity|]. split.
  - unfold a_wf, a_target, a_init; cbn. change ACN_PREAMBLE with 16. repeat split; lia.
  - split; reflexivity.
Qed.
