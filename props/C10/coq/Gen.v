(* REGENERATED from the repository headers on every run. Do not edit.  *)
From Coq Require Import NArith.
Local Open Scope N_scope.
Definition USB_SOM : N := 126.
Definition USB_EOM : N := 231.
Definition USB_MAX : N := 600.
Definition USB_BUF : N := 600.
Definition USB_HEADER : N := 4.
Definition ROBE_SOM : N := 165.
Definition ROBE_MAX : N := 522.
Definition ROBE_BUF : N := 522.
Definition ROBE_HEADER : N := 5.
Definition OPC_HEADER_SIZE : N := 4.
Definition OPC_FRAME_SIZE : N := 516.
