(* REGENERATED from the repository headers on every run. Do not edit.  *)
From Coq Require Import NArith.
Local Open Scope N_scope.
Definition USB_SOM : N := 126.
Definition USB_EOM : N := 231.
Definition USB_MAX : N := 600.
Definition USB_BUF : N := 600.
Definition USB_HEADER : N := 4.
Definition ROBE_SOM : N := 165.
Definition ROBE_MAX : N := 522.
Definition ROBE_BUF : N := 522.
Definition ROBE_HEADER : N := 5.
Definition OPC_HEADER_SIZE : N := 4.
Definition OPC_FRAME_SIZE : N := 516.
Definition ACN_PDU_BLOCK_SIZE : N := 4.
Definition ACN_TWO_BYTES : N := 2.
Definition ACN_THREE_BYTES : N := 3.
Definition ACN_LFLAG_MASK : N := 128.
Definition ACN_LENGTH_MASK : N := 15.
Definition RPC_VERSION_MASK : N := 4026531840.
Definition RPC_SIZE_MASK : N := 268435455.
Definition RPC_PROTOCOL_VERSION : N := 1.
Definition RPC_MAX_BUFFER_SIZE : N := 1048576.
From Coq Require Import List.
Definition ACN_HEADER : list N := (cons 65 (cons 83 (cons 67 (cons 45 (cons 69 (cons 49 (cons 46 (cons 49 (cons 55 (cons 0 (cons 0 (cons 0 nil)))))))))))).
Definition ACN_HEADER_SIZE : N := 12.
Definition ACN_INITIAL_SIZE : N := 500.
