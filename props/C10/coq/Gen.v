(* REGENERATED from the repository headers on every run. Do not edit.  *)
From Coq Require Import NArith.
Local Open Scope N_scope.
Definition USB_SOM : N := 126.
Definition USB_EOM : N := 231.
Definition USB_MAX : N := 600.
Definition USB_BUF : N := 600.
Definition USB_HEADER : N := 4.
Definition ROBE_SOM : N := 165.
Definition ROBE_MAX : N := 522.
Definition ROBE_BUF : N := 522.
Definition ROBE_HEADER : N := 5.
Definition OPC_HEADER_SIZE : N := 4.
Definition OPC_FRAME_SIZE : N := 516.
Definition ACN_PDU_BLOCK_SIZE : N := 4.
Definition ACN_TWO_BYTES : N := 2.
Definition ACN_THREE_BYTES : N := 3.
Definition ACN_LFLAG_MASK : N := 128.
Definition ACN_LENGTH_MASK : N := 15.
Definition ACN_VFLAG_MASK : N := 64.
Definition ACN_HFLAG_MASK : N := 32.
Definition ACN_CID_LENGTH : N := 16.
Definition ACN_ROOT_VECTOR_SIZE : N := 4.
Definition ACN_VECTOR_ROOT_NULL : N := 6.
Definition RPC_VERSION_MASK : N := 4026531840.
Definition RPC_SIZE_MASK : N := 268435455.
Definition RPC_PROTOCOL_VERSION : N := 1.
Definition RPC_MAX_BUFFER_SIZE : N := 1048576.
Definition ROBEL_RDM_RESPONSE : N := 17.
Definition ROBEL_RDM_DISCOVERY_RESPONSE : N := 19.
Definition ROBEL_DMX_IN_RESPONSE : N := 5.
Definition ENTL_GET_PARAMS_1 : N := 3.
Definition ENTL_RDM_TIMEOUT_1 : N := 12.
Definition ENTL_RECEIVED_DMX_LABEL_1 : N := 5.
Definition ENTL_COS_DMX_1 : N := 9.
Definition ENTL_GET_PARAMS_2 : N := 137.
Definition ENTL_RDM_TIMEOUT_2 : N := 201.
Definition ENTL_RECEIVED_DMX_LABEL_2 : N := 156.
Definition ENTL_COS_DMX_2 : N := 164.
From Coq Require Import List.
Definition ACN_HEADER : list N := (cons 65 (cons 83 (cons 67 (cons 45 (cons 69 (cons 49 (cons 46 (cons 49 (cons 55 (cons 0 (cons 0 (cons 0 nil)))))))))))).
Definition ACN_HEADER_SIZE : N := 12.
Definition ACN_INITIAL_SIZE : N := 500.
(* label -> handler of RobeWidgetImpl::HandleMessage: 1 HandleRDMResponse, 2 HandleDiscoveryResponse, 3 HandleDmxFrame; labels not listed fall into the default branch *)
Definition ROBE_DISPATCH : list (N * N) := (cons (pair ROBEL_RDM_RESPONSE 1) (cons (pair ROBEL_RDM_DISCOVERY_RESPONSE 2) (cons (pair ROBEL_DMX_IN_RESPONSE 3) nil))).
(* EnttecUsbProWidgetImpl::HandleLabel: label -> (port, handler): 1 HandleParameters, 2 HandleRDMTimeout, 3 HandleIncomingDataMessage, 4 HandleDMXDiff; port 2 labels apply above the threshold on a dual-port widget *)
Definition ENTTEC_DISPATCH : list (N * (N * N)) := (cons (pair ENTL_GET_PARAMS_1 (pair 1 1)) (cons (pair ENTL_RDM_TIMEOUT_1 (pair 1 2)) (cons (pair ENTL_RECEIVED_DMX_LABEL_1 (pair 1 3)) (cons (pair ENTL_COS_DMX_1 (pair 1 4)) (cons (pair ENTL_GET_PARAMS_2 (pair 2 1)) (cons (pair ENTL_RDM_TIMEOUT_2 (pair 2 2)) (cons (pair ENTL_RECEIVED_DMX_LABEL_2 (pair 2 3)) (cons (pair ENTL_COS_DMX_2 (pair 2 4)) nil)))))))).
Definition ENTTEC_PORT2_THRESHOLD : N := 128.
Definition ENTTEC_PORT_ASSIGNMENT_LABEL : N := 141.
