(* C10 — RobeWidget label dispatch on top of the framer. *)
From OlaBase Require Import Bytes.
From C10 Require Import Gen Model Lemmas ProofsRobe.
Local Open Scope N_scope.

(* a frame whose label does not map to HandleDmxFrame (known or unknown label) is dropped and leaves
   everything else as it was *)
Lemma robe_dispatch_skip l pl : robe_handler l <> 3 ->
  forall a buf b, robe_dispatch buf (a ++ (l, pl) :: b) = robe_dispatch buf (a ++ b).
Proof.
  intros H. induction a as [|[l0 p0] a IH]; intros buf b; cbn [app robe_dispatch].
  - replace (robe_handler l =? 3) with false by (symmetry; apply N.eqb_neq; exact H). reflexivity.
  - destruct (robe_handler l0 =? 3); rewrite IH; reflexivity.
Qed.

Lemma robe_dispatch_chunk_free chunks :
  exists s out, feed r_recv r_init chunks = Done s out /\
                robe_dispatch [] out = robe_dispatch [] (ref_robe (concat chunks)).
Proof. destruct (robe_chunk_free chunks) as (s & E). exists s, (ref_robe (concat chunks)). auto. Qed.
