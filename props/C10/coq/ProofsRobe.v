(* C10 — Robe framer: byte-wise automaton, simulation by ReceiveMessage, reference framer. *)
From OlaBase Require Import Bytes.
From C10 Require Import Gen Model Lemmas.
Local Open Scope N_scope.

Definition mkr (t : rst) (ty lo hi sz crc : N) (b : list N) : rstate :=
  {| r_st := t; r_type := ty; r_lo := lo; r_hi := hi; r_size := sz; r_crc := crc; r_body := b |}.

Definition r_hsum (s : rstate) : N := u8 (ROBE_SOM + r_type s + r_lo s + r_hi s).

Definition r_step (s : rstate) (b : N) : rstate * list msg :=
  match r_st s with
  | R_PRE => if b =? ROBE_SOM then (r_set_st s R_TYPE, []) else (s, [])
  | R_TYPE => (mkr R_LO b (r_lo s) (r_hi s) (r_size s) (r_crc s) (r_body s), [])
  | R_LO => (mkr R_HI (r_type s) b (r_hi s) (r_size s) (r_crc s) (r_body s), [])
  | R_HI =>
    let sz := b * 256 + r_lo s in
    if ROBE_MAX <? sz then (mkr R_PRE (r_type s) (r_lo s) b sz (r_crc s) (r_body s), [])
    else (mkr R_HCRC (r_type s) (r_lo s) b sz (r_crc s) [], [])
  | R_HCRC =>
    if negb (r_hsum s =? b)
    then (mkr R_PRE (r_type s) (r_lo s) (r_hi s) (r_size s) (r_hsum s) (r_body s), [])
    else (mkr (if r_size s =? 0 then R_CRC else R_BODY) (r_type s) (r_lo s) (r_hi s) (r_size s)
              (u8 (r_hsum s + b)) (r_body s), [])
  | R_BODY =>
    let s1 := mkr R_BODY (r_type s) (r_lo s) (r_hi s) (r_size s) (r_crc s) (r_body s ++ [b]) in
    if len (r_body s1) =? r_size s1 then (r_set_st s1 R_CRC, []) else (s1, [])
  | R_CRC =>
    let payload := take (r_size s) (r_body s) in
    let crc := u8 (r_crc s + sum_bytes payload) in
    (mkr R_PRE (r_type s) (r_lo s) (r_hi s) (r_size s) crc (r_body s),
     if crc =? b then [(r_type s, payload)] else [])
  end.

Definition r_inv (s : rstate) : Prop :=
  (r_st s = R_BODY -> len (r_body s) < r_size s /\ r_size s <= ROBE_MAX) /\
  (r_st s = R_HCRC -> r_body s = [] /\ r_size s <= ROBE_MAX).

Lemma r_inv_init : r_inv r_init.
Proof. split; cbn; discriminate. Qed.

Lemma r_inv_step s b : r_inv s -> r_inv (fst (r_step s b)).
Proof.
  unfold r_inv, r_step. destruct s as [t ty lo hi sz crc bd];
    cbn [r_st r_type r_lo r_hi r_size r_crc r_body].
  intros [HB HH]. destruct t.
  - destruct (b =? ROBE_SOM); split; cbn; discriminate.
  - split; cbn; discriminate.
  - split; cbn; discriminate.
  - destruct (ROBE_MAX <? b * 256 + lo) eqn:E; cbn [fst mkr r_st r_body r_size].
    + split; discriminate.
    + split; [discriminate|]. intros _. split; [reflexivity|lia].
  - destruct (HH eq_refl) as [Hb Hs]. subst bd.
    destruct (negb _); cbn [fst mkr r_st r_body r_size]; [split; discriminate|].
    destruct (sz =? 0) eqn:E0; split; try discriminate.
    intros _. change (len (@nil N)) with 0. lia.
  - destruct (HB eq_refl) as [H1 H2]. cbn [mkr r_body r_size].
    destruct (len (bd ++ [b]) =? sz) eqn:E; cbn [fst r_set_st mkr r_st r_body r_size].
    + split; discriminate.
    + split; [|discriminate]. intros _. rewrite len_app, len_cons, len_nil in *. lia.
  - split; cbn; discriminate.
Qed.

Notation rrun := (run1 r_step).

Definition rsim (f : rstate -> list N -> rres) (s : rstate) (av : list N) : Prop :=
  exists used rest s1 o1, av = used ++ rest /\ (av <> [] -> used <> []) /\
    rrun s used = (s1, o1) /\ f s av = Some (s1, rest, o1).

Lemma r_set_st_same s t : r_st s = t -> r_set_st s t = s.
Proof. destruct s; cbn. intros; subst; reflexivity. Qed.

Lemma rsim_cons f g s b r s1 :
  r_step s b = (s1, []) -> rsim g s1 r -> f s (b :: r) = g s1 r -> rsim f s (b :: r).
Proof.
  intros Hs (used & rest & s2 & o2 & E & _ & R & G) Hf.
  exists (b :: used), rest, s2, o2. repeat split.
  - cbn [app]. f_equal. exact E.
  - discriminate.
  - cbn [run1]. rewrite Hs, R. reflexivity.
  - rewrite Hf. exact G.
Qed.

Lemma rsim_one f s b r s1 o1 :
  r_step s b = (s1, o1) -> f s (b :: r) = Some (s1, r, o1) -> rsim f s (b :: r).
Proof.
  intros Hs Hf. exists [b], r, s1, o1. repeat split; try discriminate; auto.
  cbn [run1]. rewrite Hs, app_nil_r. reflexivity.
Qed.

Lemma rsim_nil f s : f s [] = Some (s, [], []) -> rsim f s [].
Proof. intros H. exists [], [], s, []. repeat split; auto. Qed.

Lemma rsim_crc s av : r_st s = R_CRC -> rsim r_crcst s av.
Proof.
  intros Hst. destruct av as [|c r].
  - apply rsim_nil. cbn. rewrite r_set_st_same by exact Hst. reflexivity.
  - eapply rsim_one.
    + unfold r_step. rewrite Hst. reflexivity.
    + reflexivity.
Qed.

Lemma rrun_body : forall got s, r_st s = R_BODY -> len (r_body s) + len got < r_size s ->
  rrun s got = (mkr R_BODY (r_type s) (r_lo s) (r_hi s) (r_size s) (r_crc s) (r_body s ++ got), []).
Proof.
  induction got as [|a got IH]; intros s Hst Hl.
  - cbn [run1]. rewrite app_nil_r. destruct s; cbn in *; subst; reflexivity.
  - cbn [run1]. unfold r_step at 1. rewrite Hst. rewrite len_cons in Hl.
    cbn [mkr r_body r_size]. rewrite len_app, len_cons, len_nil.
    destruct (len (r_body s) + (1 + 0) =? r_size s) eqn:E; [lia|].
    rewrite IH.
    + cbn [mkr r_type r_lo r_hi r_size r_crc r_body]. rewrite <- app_assoc. reflexivity.
    + reflexivity.
    + cbn [mkr r_body r_size]. rewrite len_app, len_cons, len_nil. lia.
Qed.

Lemma rrun_body_full : forall got s, r_st s = R_BODY -> got <> [] ->
  len (r_body s) + len got = r_size s ->
  rrun s got = (mkr R_CRC (r_type s) (r_lo s) (r_hi s) (r_size s) (r_crc s) (r_body s ++ got), []).
Proof.
  induction got as [|a got IH]; intros s Hst Hne Hl; [congruence|].
  cbn [run1]. unfold r_step at 1. rewrite Hst. rewrite len_cons in Hl.
  cbn [mkr r_body r_size]. rewrite len_app, len_cons, len_nil.
  destruct got as [|a2 got].
  - rewrite len_nil in Hl.
    destruct (len (r_body s) + (1 + 0) =? r_size s) eqn:E; [|lia].
    cbn [run1]. reflexivity.
  - destruct (len (r_body s) + (1 + 0) =? r_size s) eqn:E; [rewrite len_cons in Hl; lia|].
    rewrite IH.
    + cbn [mkr r_type r_lo r_hi r_size r_crc r_body]. rewrite <- app_assoc. reflexivity.
    + reflexivity.
    + discriminate.
    + cbn [mkr r_body r_size]. rewrite len_app, len_cons, len_nil. lia.
Qed.

Lemma rsim_body s av :
  r_st s = R_BODY -> len (r_body s) < r_size s -> r_size s <= ROBE_MAX -> rsim r_bodyst s av.
Proof.
  intros Hst H1 H2. change ROBE_MAX with 522 in H2.
  set (want := r_size s - len (r_body s)).
  assert (usub32 (r_size s) (len (r_body s)) = want) as Hus by (apply usub32_small; lia).
  assert (0 < want) as Hw by (unfold want; lia).
  pose proof (len_take want av) as Lt.
  destruct (len (take want av) =? 0) eqn:E0.
  - assert (av = []) as -> by (apply len_zero_nil; lia).
    exists [], [], s, []. repeat split; auto.
    unfold r_bodyst. rewrite Hus, E0. unfold drop. rewrite skipn_nil. reflexivity.
  - assert (ROBE_MAX <? len (r_body s) + len (take want av) = false) as E1
      by (change ROBE_MAX with 522; lia).
    set (s1 := mkr R_BODY (r_type s) (r_lo s) (r_hi s) (r_size s) (r_crc s) (r_body s ++ take want av)).
    assert (r_bodyst s av =
            if len (r_body s1) =? r_size s1 then r_crcst (r_set_st s1 R_CRC) (drop want av)
            else Some (s1, drop want av, [])) as Hb.
    { unfold r_bodyst. rewrite Hus, E0, E1. rewrite Hst. reflexivity. }
    assert ((len (r_body s1) =? r_size s1) = (len (r_body s) + len (take want av) =? r_size s)) as Hc.
    { unfold s1. cbn [mkr r_body r_size]. rewrite len_app. reflexivity. }
    destruct (len (r_body s) + len (take want av) =? r_size s) eqn:E2.
    + assert (r_st (r_set_st s1 R_CRC) = R_CRC) as Hst2 by reflexivity.
      destruct (rsim_crc _ (drop want av) Hst2) as (used & rest & s2 & o2 & E & Hne & R & G).
      exists (take want av ++ used), rest, s2, o2. repeat split.
      * rewrite <- app_assoc, <- E. symmetry. apply take_drop.
      * intros _ Hc'. apply app_eq_nil in Hc'. destruct Hc' as [Hc' _]. rewrite Hc', len_nil in E0. lia.
      * rewrite run1_app. rewrite rrun_body_full; [|exact Hst| |lia].
        -- change (mkr R_CRC (r_type s) (r_lo s) (r_hi s) (r_size s) (r_crc s) (r_body s ++ take want av))
             with (r_set_st s1 R_CRC). rewrite R. reflexivity.
        -- intros Hc'. rewrite Hc', len_nil in E0. lia.
      * rewrite Hb, Hc. exact G.
    + exists (take want av), (drop want av), s1, []. repeat split.
      * symmetry. apply take_drop.
      * intros _ Hc'. rewrite Hc', len_nil in E0. lia.
      * apply rrun_body; [exact Hst|lia].
      * rewrite Hb, Hc. reflexivity.
Qed.

Lemma rsim_hcrc s av : r_st s = R_HCRC -> r_body s = [] -> r_size s <= ROBE_MAX -> rsim r_hcrcst s av.
Proof.
  intros Hst Hbd Hsz. destruct av as [|h r].
  - apply rsim_nil. cbn. rewrite r_set_st_same by exact Hst. reflexivity.
  - set (sok := mkr (if r_size s =? 0 then R_CRC else R_BODY) (r_type s) (r_lo s) (r_hi s) (r_size s)
                    (u8 (r_hsum s + h)) (r_body s)).
    set (sbad := mkr R_PRE (r_type s) (r_lo s) (r_hi s) (r_size s) (r_hsum s) (r_body s)).
    assert (r_hcrcst s (h :: r) =
            if negb (r_hsum s =? h) then Some (sbad, r, []) else r_bodyst sok r) as Hh by reflexivity.
    assert (r_step s h = if negb (r_hsum s =? h) then (sbad, []) else (sok, [])) as Hs
      by (unfold r_step; rewrite Hst; reflexivity).
    destruct (negb (r_hsum s =? h)) eqn:E.
    + eapply rsim_one; [exact Hs|exact Hh].
    + destruct (r_size s =? 0) eqn:E0.
      * (* no data: Receive of 0 bytes, count == 0, return in state RECV_CRC *)
        eapply rsim_one; [exact Hs|]. rewrite Hh.
        unfold r_bodyst, sok. cbn [mkr r_size r_body]. rewrite Hbd.
        apply N.eqb_eq in E0. rewrite E0. reflexivity.
      * eapply rsim_cons with (g := r_bodyst) (s1 := sok); [exact Hs| |exact Hh].
        apply rsim_body; unfold sok; cbn [mkr r_st r_body r_size]; [reflexivity| |exact Hsz].
        rewrite Hbd. change (len (@nil N)) with 0. lia.
Qed.

Lemma rsim_hi s av : r_st s = R_HI -> rsim r_hist s av.
Proof.
  intros Hst. destruct av as [|b r].
  - apply rsim_nil. cbn. rewrite r_set_st_same by exact Hst. reflexivity.
  - set (sz := b * 256 + r_lo s).
    set (sbad := mkr R_PRE (r_type s) (r_lo s) b sz (r_crc s) (r_body s)).
    set (sok := mkr R_HCRC (r_type s) (r_lo s) b sz (r_crc s) []).
    assert (r_hist s (b :: r) = if ROBE_MAX <? sz then Some (sbad, r, []) else r_hcrcst sok r)
      as Hh by reflexivity.
    assert (r_step s b = if ROBE_MAX <? sz then (sbad, []) else (sok, [])) as Hs
      by (unfold r_step; rewrite Hst; reflexivity).
    destruct (ROBE_MAX <? sz) eqn:E.
    + eapply rsim_one; [exact Hs|exact Hh].
    + eapply rsim_cons with (g := r_hcrcst) (s1 := sok); [exact Hs| |exact Hh].
      apply rsim_hcrc; unfold sok; cbn [mkr r_st r_body r_size]; [reflexivity|reflexivity|lia].
Qed.

Lemma rsim_lo s av : r_st s = R_LO -> rsim r_lost s av.
Proof.
  intros Hst. destruct av as [|b r].
  - apply rsim_nil. cbn. rewrite r_set_st_same by exact Hst. reflexivity.
  - eapply rsim_cons with (g := r_hist)
      (s1 := mkr R_HI (r_type s) b (r_hi s) (r_size s) (r_crc s) (r_body s)).
    + unfold r_step. rewrite Hst. reflexivity.
    + apply rsim_hi. reflexivity.
    + reflexivity.
Qed.

Lemma rsim_type s av : r_st s = R_TYPE -> rsim r_typest s av.
Proof.
  intros Hst. destruct av as [|b r].
  - apply rsim_nil. cbn. rewrite r_set_st_same by exact Hst. reflexivity.
  - eapply rsim_cons with (g := r_lost)
      (s1 := mkr R_LO b (r_lo s) (r_hi s) (r_size s) (r_crc s) (r_body s)).
    + unfold r_step. rewrite Hst. reflexivity.
    + apply rsim_lo. reflexivity.
    + reflexivity.
Qed.

Lemma rsim_pre av : forall s, r_st s = R_PRE -> rsim r_pre s av.
Proof.
  induction av as [|b r IH]; intros s Hst.
  - apply rsim_nil. cbn. rewrite r_set_st_same by exact Hst. reflexivity.
  - destruct (b =? ROBE_SOM) eqn:E.
    + eapply rsim_cons with (g := r_typest) (s1 := r_set_st s R_TYPE).
      * unfold r_step. rewrite Hst, E. reflexivity.
      * apply rsim_type. reflexivity.
      * cbn [r_pre]. rewrite E. reflexivity.
    + eapply rsim_cons with (g := r_pre) (s1 := s).
      * unfold r_step. rewrite Hst, E. reflexivity.
      * apply IH. exact Hst.
      * cbn [r_pre]. rewrite E. reflexivity.
Qed.

Lemma r_recv_sim s av : r_inv s -> av <> [] ->
  exists used rest s1 o1, av = used ++ rest /\ used <> [] /\
    rrun s used = (s1, o1) /\ r_recv s av = Some (s1, rest, o1).
Proof.
  intros [HB HH] Hne.
  assert (exists used rest s1 o1, av = used ++ rest /\ (av <> [] -> used <> []) /\
            rrun s used = (s1, o1) /\ r_recv s av = Some (s1, rest, o1))
    as (used & rest & s1 & o1 & E & Hn & R & G).
  { unfold r_recv. destruct (r_st s) eqn:Hst.
    - exact (rsim_pre av s Hst).
    - exact (rsim_type s av Hst).
    - exact (rsim_lo s av Hst).
    - exact (rsim_hi s av Hst).
    - destruct (HH eq_refl) as [A B]. exact (rsim_hcrc s av Hst A B).
    - destruct (HB eq_refl) as [A B]. exact (rsim_body s av Hst A B).
    - exact (rsim_crc s av Hst). }
  exists used, rest, s1, o1. repeat split; auto.
Qed.

Lemma r_feed_run1 chunks :
  feed r_recv r_init chunks =
    Done (fst (rrun r_init (concat chunks))) (snd (rrun r_init (concat chunks))).
Proof.
  apply (feed_run1 rstate r_recv r_step r_inv r_inv_step r_recv_sim). apply r_inv_init.
Qed.

(* ------------------------------------------------------------------ automaton = reference framer *)
Lemma u8_add_l a b : u8 (u8 a + b) = (a + b) mod 256.
Proof. unfold u8. apply N.add_mod_idemp_l. lia. Qed.

Lemma rrun_ref : forall n bs s, (length bs <= n)%nat -> r_st s = R_PRE ->
  snd (rrun s bs) = ref_robe_f n bs.
Proof.
  induction n as [|n IH]; intros bs s Hl Hst.
  - destruct bs; [reflexivity|cbn [length] in Hl; lia].
  - destruct bs as [|b r]; [reflexivity|]. cbn [length] in Hl.
    cbn [ref_robe_f run1]. unfold r_step at 1. rewrite Hst. change ROBE_SOM with 165.
    destruct (b =? 165) eqn:Eb; cbn [negb].
    2:{ specialize (IH r s ltac:(lia) Hst). destruct (rrun s r). cbn [snd app] in *. exact IH. }
    destruct r as [|ty r]; [reflexivity|].
    cbn [run1]. unfold r_step at 1. cbn [r_set_st r_st].
    destruct r as [|lo r]; [reflexivity|].
    cbn [run1]. unfold r_step at 1. cbn [mkr r_st].
    destruct r as [|hi r2]; [reflexivity|].
    cbn [run1]. unfold r_step at 1.
    cbn [mkr r_st r_type r_lo r_hi r_size r_crc r_body r_set_st]. change ROBE_MAX with 522.
    cbn [length] in Hl.
    destruct (522 <? hi * 256 + lo) eqn:E1.
    + (* oversize: header dropped *)
      set (sp := mkr R_PRE ty lo hi (hi * 256 + lo) (r_crc s) (r_body s)).
      specialize (IH r2 sp ltac:(lia) eq_refl).
      destruct (rrun sp r2) as [s9 o9]. cbn [snd app] in *. exact IH.
    + set (pl := hi * 256 + lo) in *.
      destruct r2 as [|h r3]; [reflexivity|]. cbn [length] in Hl.
      cbn [run1]. unfold r_step at 1. cbn [mkr r_st r_type r_lo r_hi r_size r_crc r_body].
      unfold r_hsum. cbn [mkr r_type r_lo r_hi]. change ROBE_SOM with 165.
      change (u8 (165 + ty + lo + hi)) with ((165 + ty + lo + hi) mod 256).
      set (hsum := (165 + ty + lo + hi) mod 256).
      destruct (negb (hsum =? h)) eqn:Eh.
      * (* bad header checksum *)
        set (sp := mkr R_PRE ty lo hi pl hsum []).
        specialize (IH r3 sp ltac:(lia) eq_refl).
        destruct (rrun sp r3) as [s9 o9]. cbn [snd app] in *. exact IH.
      * destruct (pl =? 0) eqn:E0.
        -- (* no data *)
           apply N.eqb_eq in E0. rewrite E0.
           destruct r3 as [|c r4]; [reflexivity|].
           rewrite len_cons. destruct (1 + len r4 <? 0 + 1) eqn:E2; [lia|].
           cbn [run1]. unfold r_step at 1. cbn [mkr r_st r_type r_lo r_hi r_size r_crc r_body].
           rewrite !take_0. change (sum_bytes []) with 0. rewrite !N.add_0_r.
           change (rd (c :: r4) 0) with (Some c). change (drop (0 + 1) (c :: r4)) with r4.
           assert (u8 (u8 (hsum + h)) = (hsum + h) mod 256) as ->
             by (unfold u8; apply N.mod_mod; lia).
           set (sp := mkr R_PRE ty lo hi 0 ((hsum + h) mod 256) []).
           specialize (IH r4 sp ltac:(cbn [length] in Hl; lia) eq_refl).
           destruct (rrun sp r4) as [s9 o9]. cbn [snd app] in *.
           rewrite IH. rewrite (N.eqb_sym c). reflexivity.
        -- set (sb := mkr R_BODY ty lo hi pl (u8 (hsum + h)) []).
           destruct (len r3 <? pl + 1) eqn:E2.
           ++ destruct (len r3 =? pl) eqn:E3.
              ** rewrite (rrun_body_full r3 sb); [reflexivity|reflexivity| |].
                 --- intros Hc. rewrite Hc, len_nil in E3. lia.
                 --- cbn [sb mkr r_body r_size]. rewrite len_nil. lia.
              ** rewrite (rrun_body r3 sb); [reflexivity|reflexivity|].
                 cbn [sb mkr r_body r_size]. rewrite len_nil. lia.
           ++ destruct (split_at r3 pl) as (e & Re & Es & Lt); [lia|].
              rewrite Re. rewrite Es at 1. rewrite run1_app.
              rewrite (rrun_body_full (take pl r3) sb); [|reflexivity| |].
              2:{ intros Hc. rewrite Hc, len_nil in Lt. lia. }
              2:{ cbn [sb mkr r_body r_size]. rewrite len_nil, Lt. lia. }
              cbn [run1]. unfold r_step at 1.
              cbn [mkr r_st r_type r_lo r_hi r_size r_crc r_body sb app].
              rewrite (take_all pl (take pl r3)) by (rewrite Lt; lia).
              rewrite u8_add_l.
              set (c := (hsum + h + sum_bytes (take pl r3)) mod 256).
              set (sp := mkr R_PRE ty lo hi pl c (take pl r3)).
              specialize (IH (drop (pl + 1) r3) sp
                             ltac:(pose proof (length_drop_lt (pl + 1) r3); lia) eq_refl).
              destruct (rrun sp (drop (pl + 1) r3)) as [s9 o9].
              cbn [snd app] in *. rewrite IH. rewrite (N.eqb_sym e). reflexivity.
Qed.

Lemma robe_chunk_free chunks :
  exists s, feed r_recv r_init chunks = Done s (ref_robe (concat chunks)).
Proof.
  rewrite r_feed_run1. eexists. f_equal.
  unfold ref_robe. apply rrun_ref; [lia|reflexivity].
Qed.

Lemma robe_reachable_bounds chunks s out :
  feed r_recv r_init chunks = Done s out -> r_st s = R_BODY ->
  len (r_body s) < r_size s <= ROBE_MAX.
Proof.
  rewrite r_feed_run1. intros H. inversion H; subst.
  apply (inv_run1 rstate r_step r_inv r_inv_step). apply r_inv_init.
Qed.
