(* C10 — read schedules of a level-triggered poller.  Bytes arrive in the kernel buffer at arbitrary
   moments (`Arrive`), the poller calls the on-data callback at arbitrary moments at which unread
   data exists (`Invoke`; an invocation with an empty buffer does not happen and is a no-op here).
   For a machine that simulates a byte-wise automaton, ANY such interleaving delivers a prefix of
   what the automaton delivers on all the bytes that arrived, exactly the missing part being what
   the unread bytes would still produce; once the buffer is drained (which finitely many further
   invocations always achieve) the deliveries are those of the whole stream. *)
From OlaBase Require Import Bytes.
From C10 Require Import Gen Model Lemmas.
Local Open Scope N_scope.

Inductive ev := Arrive (bs : list N) | Invoke.

Fixpoint arrived (es : list ev) : list N :=
  match es with
  | [] => []
  | Arrive bs :: r => bs ++ arrived r
  | Invoke :: r => arrived r
  end.

Section Sched.
  Variable S : Type.
  Variable recv : S -> list N -> option (S * list N * list msg).
  Variable step : S -> N -> S * list msg.
  Variable inv : S -> Prop.
  Hypothesis inv_step : forall s b, inv s -> inv (fst (step s b)).
  Hypothesis recv_sim : forall s av, inv s -> av <> [] ->
    exists used rest s1 o1, av = used ++ rest /\ used <> [] /\
      run1 step s used = (s1, o1) /\ recv s av = Some (s1, rest, o1).

  (* machine state, unread bytes in the kernel, messages delivered so far *)
  Definition cfg := (S * list N * list msg)%type.

  Definition sched_step (c : option cfg) (e : ev) : option cfg :=
    match c with
    | None => None
    | Some (s, pend, out) =>
      match e with
      | Arrive bs => Some (s, pend ++ bs, out)
      | Invoke =>
        match pend with
        | [] => Some (s, pend, out)
        | _ :: _ =>
          match recv s pend with
          | None => None                                  (* out-of-range store *)
          | Some (s1, rest, o1) => Some (s1, rest, out ++ o1)
          end
        end
      end
    end.

  Definition run_sched (c : cfg) (es : list ev) : option cfg := fold_left sched_step es (Some c).

  (* what the automaton makes of state s, the unread bytes and the deliveries so far *)
  Definition total (c : cfg) (more : list N) : S * list msg :=
    let '(s, pend, out) := c in
    let (s1, o1) := run1 step s (pend ++ more) in (s1, out ++ o1).

  Lemma sched_total : forall es c, inv (fst (fst c)) ->
    exists c', run_sched c es = Some c' /\ inv (fst (fst c')) /\ total c (arrived es) = total c' [].
  Proof.
    induction es as [|e es IH]; intros [[s pend] out] Hi; cbn [fst] in Hi.
    - exists (s, pend, out). repeat split; auto.
    - destruct e as [bs|]; cbn [arrived].
      + destruct (IH (s, pend ++ bs, out) Hi) as (c' & R & Hi' & T).
        exists c'. repeat split; auto.
        rewrite <- T. unfold total. rewrite <- app_assoc. reflexivity.
      + destruct pend as [|p pend'].
        * destruct (IH (s, [], out) Hi) as (c' & R & Hi' & T). exists c'. repeat split; auto.
        * destruct (recv_sim s (p :: pend') Hi ltac:(discriminate))
            as (used & rest & s1 & o1 & E & Hne & R1 & Rv).
          assert (inv s1) as Hi1.
          { pose proof (inv_run1 S step inv inv_step used s Hi) as H. rewrite R1 in H. exact H. }
          destruct (IH (s1, rest, out ++ o1) Hi1) as (c' & R & Hi' & T).
          exists c'. split; [|split; [exact Hi'|]].
          -- unfold run_sched in *. cbn [fold_left sched_step]. rewrite Rv. exact R.
          -- rewrite <- T. unfold total. rewrite E, <- app_assoc, run1_app, R1.
             destruct (run1 step s1 (rest ++ arrived es)) as [s2 o2]. rewrite app_assoc. reflexivity.
  Qed.

  (* every schedule is hazard-free, and when it leaves the buffer drained it has delivered exactly
     what the automaton delivers on the concatenation of everything that arrived *)
  Theorem sched_drained : forall s0 es, inv s0 ->
    exists s pend out, run_sched (s0, [], []) es = Some (s, pend, out) /\
      (pend = [] -> (s, out) = run1 step s0 (arrived es)).
  Proof.
    intros s0 es Hi. destruct (sched_total es (s0, [], []) Hi) as ([[s pend] out] & R & _ & T).
    exists s, pend, out. split; [exact R|]. intros ->. unfold total in T. cbn [app] in T.
    destruct (run1 step s0 (arrived es)) as [sa oa]. cbn [run1] in T. rewrite app_nil_r in T.
    symmetry. exact T.
  Qed.

  (* the callback being re-invoked while data remains drains the buffer after at most one
     invocation per unread byte *)
  Lemma invoke_drains : forall n s pend out, inv s -> (length pend <= n)%nat ->
    exists s' out', run_sched (s, pend, out) (repeat Invoke n) = Some (s', [], out').
  Proof.
    induction n as [|n IH]; intros s pend out Hi Hl.
    - destruct pend; [|cbn [length] in Hl; lia]. exists s, out. reflexivity.
    - destruct pend as [|p pend'].
      + destruct (IH s [] out Hi ltac:(cbn; lia)) as (s' & out' & R). exists s', out'. exact R.
      + destruct (recv_sim s (p :: pend') Hi ltac:(discriminate))
          as (used & rest & s1 & o1 & E & Hne & R1 & Rv).
        assert (inv s1) as Hi1.
        { pose proof (inv_run1 S step inv inv_step used s Hi) as H. rewrite R1 in H. exact H. }
        assert (length rest <= n)%nat as Hl1.
        { assert (length (p :: pend') = length used + length rest)%nat as HL
            by (rewrite E; apply app_length).
          destruct used; [congruence|]. cbn [length] in *. lia. }
        destruct (IH s1 rest (out ++ o1) Hi1 Hl1) as (s' & out' & R). exists s', out'.
        unfold run_sched in *. cbn [repeat fold_left sched_step]. rewrite Rv. exact R.
  Qed.

  Theorem sched_eventually : forall s0 es, inv s0 ->
    exists k s out, run_sched (s0, [], []) (es ++ repeat Invoke k) = Some (s, [], out) /\
      (s, out) = run1 step s0 (arrived es).
  Proof.
    intros s0 es Hi. destruct (sched_total es (s0, [], []) Hi) as ([[s pend] out] & R & Hi' & T).
    cbn [fst] in Hi'.
    destruct (invoke_drains (length pend) s pend out Hi' (le_n _)) as (s' & out' & R').
    exists (length pend), s', out'.
    assert (run_sched (s0, [], []) (es ++ repeat Invoke (length pend)) = Some (s', [], out')) as Hrun.
    { unfold run_sched in *. rewrite fold_left_app, R. exact R'. }
    split; [exact Hrun|].
    destruct (sched_drained s0 (es ++ repeat Invoke (length pend)) Hi) as (s2 & p2 & o2 & R2 & D).
    rewrite Hrun in R2. inversion R2; subst.
    rewrite (D eq_refl). f_equal.
    clear. induction es as [|[bs|] es IH]; cbn [app arrived].
    - induction (length pend) as [|m IHm]; [reflexivity|exact IHm].
    - rewrite IH. reflexivity.
    - exact IH.
  Qed.
End Sched.
