(* C10 — ACN root layer behind the TCP transport. *)
From OlaBase Require Import Bytes.
From C10 Require Import Gen Model Lemmas ProofsAcn ProofsAcnRef.
Local Open Scope N_scope.

Lemma root_deliver_app reg a b : root_deliver reg (a ++ b) = root_deliver reg a ++ root_deliver reg b.
Proof. unfold root_deliver. apply flat_map_app. Qed.

(* every partition: the child inflators receive exactly what the root layer makes of the reference
   framer's PDUs *)
Lemma acn_root_chunk_free reg chunks :
  exists s out, feed a_recv a_init chunks = Done s out /\
                root_deliver reg out = root_deliver reg (ref_acn (concat chunks)).
Proof. destruct (acn_chunk_free chunks) as (s & E). exists s, (ref_acn (concat chunks)). auto. Qed.

(* a PDU whose vector has no registered child inflator is dropped *)
Lemma root_pdu_unregistered reg b0 rest :
  reg (be32 (drop (if lflag b0 then 3 else 2) (b0 :: rest))) = false -> root_pdu reg (b0 :: rest) = [].
Proof.
  intros H. unfold root_pdu. change ACN_THREE_BYTES with 3. change ACN_TWO_BYTES with 2.
  destruct (negb (vflag b0)); [reflexivity|]. destruct (_ <? ACN_ROOT_VECTOR_SIZE); [reflexivity|].
  destruct (negb (hflag b0)); [reflexivity|]. destruct (_ <? ACN_CID_LENGTH); [reflexivity|].
  rewrite H. reflexivity.
Qed.

(* a PDU without a vector or without a header has nothing to inherit from and is dropped *)
Lemma root_pdu_flags reg b0 rest : vflag b0 && hflag b0 = false -> root_pdu reg (b0 :: rest) = [].
Proof.
  intros H. unfold root_pdu. destruct (vflag b0); cbn [negb andb] in *; [|reflexivity].
  destruct (_ <? ACN_ROOT_VECTOR_SIZE); [reflexivity|]. rewrite H. reflexivity.
Qed.

(* a dropped PDU affects nothing else *)
Lemma root_deliver_skip reg a pdu b : root_pdu reg (snd pdu) = [] ->
  root_deliver reg (a ++ pdu :: b) = root_deliver reg (a ++ b).
Proof.
  intros H. rewrite !root_deliver_app. f_equal. unfold root_deliver at 1. cbn [flat_map]. rewrite H.
  reflexivity.
Qed.
