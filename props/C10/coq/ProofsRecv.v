(* C10 — ConnectedDescriptor::Receive over a script of read() results. *)
From OlaBase Require Import Bytes.
From C10 Require Import Gen Model Lemmas.
Local Open Scope N_scope.

(* What the kernel hands out during one Receive(size) call, independently of any buffer: the blocks
   returned by the successful read() calls until the request is satisfied, the script says EAGAIN,
   end of file or error (EINTR: the call is repeated). *)
Fixpoint kernel_blocks (script : list rd_res) (src : list N) (need : N) : list (list N) :=
  if need =? 0 then []
  else match script with
  | [] => []
  | RAgain :: _ => []
  | RErr :: _ => []
  | RIntr :: sc => kernel_blocks sc src need
  | RBytes n :: sc =>
    let k := N.min n (N.min need (len src)) in
    if k =? 0 then [] else take k src :: kernel_blocks sc (drop k src) (need - k)
  end.

Lemma take_app_len {A} (a b : list A) m : take (len a + m) (a ++ b) = a ++ take m b.
Proof.
  unfold take, len. replace (N.to_nat (N.of_nat (length a) + m)) with (length a + N.to_nat m)%nat by lia.
  apply firstn_app_2.
Qed.
Lemma drop_app_len {A} (a b : list A) m : drop (len a + m) (a ++ b) = drop m b.
Proof.
  unfold drop, len. replace (N.to_nat (N.of_nat (length a) + m)) with (length a + N.to_nat m)%nat by lia.
  rewrite skipn_app. rewrite skipn_all2 by lia.
  replace (length a + N.to_nat m - length a)%nat with (N.to_nat m) by lia. reflexivity.
Qed.
Lemma drop_drop {A} (l : list A) p m : drop m (drop p l) = drop (p + m) l.
Proof.
  unfold drop. replace (N.to_nat (p + m)) with (N.to_nat p + N.to_nat m)%nat by lia.
  generalize (N.to_nat p) as a, (N.to_nat m) as b. intros a. revert l.
  induction a as [|a IH]; intros l b; [reflexivity|].
  destruct l as [|x l]; cbn [skipn plus]; [apply skipn_nil|apply IH].
Qed.

Lemma receive_loop : forall script src size dr buf,
  dr <= size -> size < 4294967296 -> len buf = size ->
  exists ret n out rest,
    receive script src size dr dr buf = RDone ret n out rest /\
    (ret = 0%Z \/ ret = (-1)%Z) /\
    n = dr + len (concat (kernel_blocks script src (size - dr))) /\ n <= size /\
    out = take dr buf ++ concat (kernel_blocks script src (size - dr)) ++ drop n buf /\
    src = concat (kernel_blocks script src (size - dr)) ++ rest.
Proof.
  induction script as [|r sc IH]; intros src size dr buf Hd Hs Hb.
  - cbn [receive kernel_blocks].
    destruct (size <=? dr) eqn:E; destruct (size - dr =? 0) eqn:E2; try lia;
      exists 0%Z, dr, buf, src; cbn [concat app]; rewrite len_nil, N.add_0_r, take_drop; auto 10.
  - cbn [receive kernel_blocks].
    destruct (size <=? dr) eqn:E.
    { assert (size - dr =? 0 = true) as -> by lia.
      exists 0%Z, dr, buf, src. cbn [concat app]. rewrite len_nil, N.add_0_r, take_drop. auto 10. }
    assert (size - dr =? 0 = false) as -> by lia.
    destruct r as [n| | |].
    + rewrite usub32_small by lia.
      set (k := N.min n (N.min (size - dr) (len src))).
      destruct (k =? 0) eqn:Ek.
      { exists 0%Z, dr, buf, src. cbn [concat app]. rewrite len_nil, N.add_0_r, take_drop. auto 10. }
      assert (len (take k src) = k) as Lk by (rewrite len_take; lia).
      unfold write_at. rewrite Lk.
      destruct (len buf <? dr + k) eqn:Eo; [lia|].
      set (buf' := take dr buf ++ take k src ++ drop (dr + k) buf).
      assert (len (take dr buf) = dr) as Ld by (rewrite len_take; lia).
      assert (len buf' = size) as Hb'.
      { unfold buf'. rewrite !len_app, Ld, Lk, drop_len. lia. }
      unfold u32. rewrite (N.mod_small (dr + k)) by lia.
      destruct (IH (drop k src) size (dr + k) buf' ltac:(lia) Hs Hb')
        as (ret & n' & out & rest & R & Hret & Hn & Hle & Hout & Hsrc).
      replace (size - (dr + k)) with (size - dr - k) in * by lia.
      set (bl := kernel_blocks sc (drop k src) (size - dr - k)) in *.
      exists ret, n', out, rest. cbn [concat]. rewrite len_app, Lk.
      split; [exact R|]. split; [exact Hret|]. split; [lia|]. split; [exact Hle|]. split.
      * rewrite Hout.
        assert (take (dr + k) buf' = take dr buf ++ take k src) as ->.
        { unfold buf'. rewrite <- Ld at 1. rewrite take_app_len. f_equal.
          rewrite <- Lk at 1. replace (len (take k src)) with (len (take k src) + 0) by lia.
          rewrite take_app_len, take_0, app_nil_r. reflexivity. }
        assert (drop n' buf' = drop n' buf) as ->.
        { unfold buf'. replace n' with (len (take dr buf) + (len (take k src) + (n' - dr - k))) at 1 by lia.
          rewrite drop_app_len, drop_app_len, drop_drop. f_equal. lia. }
        rewrite <- !app_assoc. reflexivity.
      * rewrite <- app_assoc, <- Hsrc. symmetry. apply take_drop.
    + exists 0%Z, dr, buf, src. cbn [concat app]. rewrite len_nil, N.add_0_r, take_drop. auto 10.
    + destruct (IH src size dr buf Hd Hs Hb) as (ret & n' & out & rest & R & H).
      exists ret, n', out, rest. split; [exact R|exact H].
    + exists (-1)%Z, dr, buf, src. cbn [concat app]. rewrite len_nil, N.add_0_r, take_drop. auto 10.
Qed.

Lemma receive_spec script src buf :
  len buf < 4294967296 ->
  let blocks := kernel_blocks script src (len buf) in
  exists ret n out rest,
    receive_call script src buf = RDone ret n out rest /\
    (ret = 0%Z \/ ret = (-1)%Z) /\
    n = len (concat blocks) /\ n <= len buf /\
    out = concat blocks ++ drop n buf /\ len out = len buf /\
    src = concat blocks ++ rest.
Proof.
  intros Hs blocks. unfold receive_call.
  destruct (receive_loop script src (len buf) 0 buf ltac:(lia) Hs eq_refl)
    as (ret & n & out & rest & R & Hret & Hn & Hle & Hout & Hsrc).
  rewrite N.sub_0_r in *. fold blocks in Hn, Hout, Hsrc.
  exists ret, n, out, rest. rewrite take_0 in Hout. cbn [app] in Hout.
  repeat split; auto; try lia.
  rewrite Hout, len_app, drop_len. lia.
Qed.
