(* C10 — ACN over TCP (IncomingStreamTransport): byte-wise automaton, simulation by Receive(),
   buffer-growth bounds, reference framer. *)
From OlaBase Require Import Bytes.
From C10 Require Import Gen Model Lemmas ProofsRecv.
Local Open Scope N_scope.

Definition a_setcap (s : astate) (c : N) : astate :=
  {| a_st := a_st s; a_rdata := a_rdata s; a_len := a_len s; a_out := a_out s; a_block := a_block s;
     a_cons := a_cons s; a_lsize := a_lsize s; a_psize := a_psize s; a_cap := c; a_valid := a_valid s |}.

(* run the handlers that are due (at most two in a row: a PDU that consists of its length field only) *)
Definition a_fire1 (s : astate) : astate * list msg :=
  if a_valid s && (a_out s =? 0) then a_handle s else (s, []).
(* the next ReadRequiredData grows the buffer before it reads *)
Definition a_norm (s : astate) : astate :=
  if a_valid s && negb (a_out s =? 0) then a_setcap s (a_cap1 s) else s.
Definition a_fire (s : astate) : astate * list msg :=
  let (s1, o1) := a_fire1 s in let (s2, o2) := a_fire1 s1 in (a_norm s2, o1 ++ o2).
Definition a_step (s : astate) (b : N) : astate * list msg :=
  if negb (a_valid s) then (s, []) else a_fire (a_store s [b] 1).

Notation arun := (run1 a_step).

Definition a_target (s : astate) : Prop :=
  match a_st s with
  | A_PRE => a_len s + a_out s = 16
  | A_FLAGS => a_len s + a_out s = 1
  | A_LEN => a_len s + a_out s = a_lsize s /\ (a_lsize s = 2 \/ a_lsize s = 3)
  | A_PDU => a_len s + a_out s = a_psize s /\ a_psize s < 1048576
  end.
Definition a_wf (s : astate) : Prop :=
  a_len s = len (a_rdata s) /\ a_len s <= a_cap s /\ a_cap s <= 2097152 /\ a_target s.
Definition a_inv (s : astate) : Prop := a_valid s = false \/ (a_wf s /\ 0 < a_out s).

Lemma a_target_le s : a_target s -> a_len s + a_out s <= 1048576.
Proof. unfold a_target. destruct (a_st s); lia. Qed.

Lemma a_cap1_ge s : a_wf s ->
  a_len s + a_out s <= a_cap1 s /\ a_cap1 s <= 2097152 /\ a_cap s <= a_cap1 s.
Proof.
  intros (_ & H1 & H2 & H3). apply a_target_le in H3. unfold a_cap1.
  rewrite usub32_small by lia. change ACN_INITIAL_SIZE with 500.
  destruct (a_cap s - a_len s <? a_out s) eqn:E; [|lia].
  destruct (a_len s + a_out s <=? a_cap s) eqn:E2; lia.
Qed.

Lemma len_rev_append (a b : list N) : len (rev_append a b) = len a + len b.
Proof. rewrite rev_append_rev, len_app. unfold len. rewrite rev_length. reflexivity. Qed.
Lemma rev_rev_append (a b : list N) : rev (rev_append a b) = rev b ++ a.
Proof. rewrite rev_append_rev, rev_app_distr, rev_involutive. reflexivity. Qed.

Lemma a_wf_store s got k : a_wf s -> k = len got -> k <= a_out s -> a_wf (a_store s got k).
Proof.
  intros W Hk Hle. pose proof (a_cap1_ge s W) as (C1 & C2 & C3).
  destruct W as (H0 & H1 & H2 & H3). pose proof (a_target_le s H3) as Ht.
  unfold a_wf, a_store, a_target in *. cbn [a_len a_rdata a_cap a_st a_out a_lsize a_psize].
  rewrite len_rev_append, (usub32_small (a_out s) k) by lia.
  repeat split; try lia. destruct (a_st s); lia.
Qed.

Lemma a_cap1_store s got k : a_wf s -> k <= a_out s -> a_cap1 (a_store s got k) = a_cap1 s.
Proof.
  intros W Hle. pose proof (a_cap1_ge s W) as (C1 & C2 & C3).
  destruct W as (H0 & H1 & H2 & H3). pose proof (a_target_le s H3) as Ht.
  unfold a_cap1 at 1. cbn [a_store a_cap a_len a_out].
  rewrite (usub32_small (a_out s) k) by lia. rewrite usub32_small by lia.
  destruct (a_cap1 s - (a_len s + k) <? a_out s - k) eqn:E; [lia|reflexivity].
Qed.

Lemma a_setcap_same s : a_setcap s (a_cap s) = s.
Proof. destruct s; reflexivity. Qed.

Lemma a_norm_fields s :
  a_st (a_norm s) = a_st s /\ a_rdata (a_norm s) = a_rdata s /\ a_len (a_norm s) = a_len s /\
  a_out (a_norm s) = a_out s /\ a_block (a_norm s) = a_block s /\ a_cons (a_norm s) = a_cons s /\
  a_lsize (a_norm s) = a_lsize s /\ a_psize (a_norm s) = a_psize s /\ a_valid (a_norm s) = a_valid s.
Proof. unfold a_norm. destruct (a_valid s && negb (a_out s =? 0)); repeat split. Qed.

Lemma a_wf_norm s : a_wf s -> a_wf (a_norm s).
Proof.
  intros W. unfold a_norm. destruct (a_valid s && negb (a_out s =? 0)); [|exact W].
  pose proof (a_cap1_ge s W) as (C1 & C2 & C3). destruct W as (H0 & H1 & H2 & H3).
  unfold a_wf, a_target in *. cbn [a_setcap a_len a_rdata a_cap a_st a_out a_lsize a_psize].
  repeat split; try lia; auto.
Qed.

Lemma a_cap1_idem s : a_wf s -> a_cap1 (a_setcap s (a_cap1 s)) = a_cap1 s.
Proof.
  intros W. pose proof (a_cap1_ge s W) as (C1 & C2 & C3).
  unfold a_cap1 at 1. cbn [a_setcap a_cap a_len a_out]. rewrite usub32_small by lia.
  destruct (a_cap1 s - a_len s <? a_out s) eqn:E; [lia|reflexivity].
Qed.

Lemma a_norm_capped s : a_wf s -> a_valid s = true -> 0 < a_out s ->
  a_cap1 (a_norm s) = a_cap (a_norm s).
Proof.
  intros W Hv Ho. unfold a_norm. rewrite Hv.
  replace (a_out s =? 0) with false by (symmetry; apply N.eqb_neq; lia). cbn [andb negb].
  rewrite a_cap1_idem by exact W. reflexivity.
Qed.

Lemma a_norm_invalid s : a_valid s = false -> a_norm s = s.
Proof. intros H. unfold a_norm. rewrite H. reflexivity. Qed.

(* ------------------------------------------------------------------ the handlers *)
Lemma land15 x : N.land x 15 <= 15.
Proof.
  change 15 with (N.ones 4) at 1. rewrite N.land_ones.
  pose proof (N.mod_lt x (2 ^ 4)). change (2 ^ 4) with 16 in *. lia.
Qed.

Lemma pdu_len_lt ls d : pdu_len ls d < 1048576.
Proof.
  unfold pdu_len. change ACN_LENGTH_MASK with 15. change ACN_THREE_BYTES with 3.
  destruct d as [|b0 [|b1 r]]; try lia.
  pose proof (land15 b0). pose proof (u8_lt b1).
  destruct (ls =? 3).
  - destruct r as [|b2 r]; [lia|]. pose proof (u8_lt b2). lia.
  - lia.
Qed.

Lemma a_wf_enter t out blk cons s :
  a_wf s -> (t = A_PRE /\ out = 16) \/ (t = A_FLAGS /\ out = 1) -> a_wf (a_enter t out blk cons s).
Proof.
  intros (H0 & H1 & H2 & H3) Ht. unfold a_wf, a_target, a_enter.
  cbn [a_len a_rdata a_cap a_st a_out]. try rewrite len_nil. change (len (@nil N)) with 0.
  repeat split; try lia. destruct Ht as [[-> ->]|[-> ->]]; reflexivity.
Qed.

(* a due handler leaves an invalid stream, or a well-formed state that needs more bytes — except
   HandlePDULength for a PDU consisting of its length field only, where HandlePDU is due at once *)
Lemma a_handle_ok s : a_wf s -> a_valid s = true -> a_out s = 0 ->
  a_valid (fst (a_handle s)) = false \/
  (a_valid (fst (a_handle s)) = true /\ a_wf (fst (a_handle s)) /\
   (0 < a_out (fst (a_handle s)) \/ (a_st (fst (a_handle s)) = A_PDU /\ a_st s <> A_PDU))).
Proof.
  intros W Hv Ho. pose proof W as (H0 & H1 & H2 & H3).
  unfold a_handle. unfold a_target in H3.
  change ACN_PREAMBLE with 16. change ACN_TWO_BYTES with 2. change ACN_THREE_BYTES with 3.
  destruct (a_st s) eqn:Hst.
  - destruct (negb _); [left; reflexivity|]. right.
    destruct (be32 _ =? 0); cbn [fst a_enter a_valid a_out]; (split; [exact Hv|]);
      (split; [apply a_wf_enter; auto|left; lia]).
  - right. cbn [fst a_valid a_out]. split; [exact Hv|].
    set (ls := match adata s with b0 :: _ => if lflag b0 then 3 else 2 | [] => 2 end).
    assert (ls = 2 \/ ls = 3) as Hls
      by (unfold ls; destruct (adata s) as [|b0 ?]; [auto|destruct (lflag b0); auto]).
    rewrite Ho. unfold u32. rewrite N.mod_small by lia. split.
    + unfold a_wf, a_target. cbn [a_len a_rdata a_cap a_st a_out a_lsize]. repeat split; try lia; auto.
    + left. lia.
  - destruct H3 as [H3 Hls].
    pose proof (pdu_len_lt (a_lsize s) (adata s)) as Hp.
    destruct (pdu_len (a_lsize s) (adata s) <? a_lsize s) eqn:E; [left; reflexivity|].
    right. cbn [fst a_valid a_out a_st]. split; [exact Hv|].
    rewrite Ho, usub32_small by lia. unfold u32. rewrite N.mod_small by lia. split.
    + unfold a_wf, a_target. cbn [a_len a_rdata a_cap a_st a_out a_lsize a_psize].
      repeat split; try lia; auto.
    + destruct (pdu_len (a_lsize s) (adata s) - a_lsize s =? 0) eqn:E0; [right|left; lia].
      split; [reflexivity|discriminate].
  - destruct (negb _); [left; reflexivity|]. right.
    destruct (_ =? a_block s); cbn [fst a_enter a_valid a_out]; (split; [exact Hv|]);
      (split; [apply a_wf_enter; auto|left; lia]).
Qed.

Lemma a_handle_from_pdu s : a_st s = A_PDU ->
  a_valid (fst (a_handle s)) = false \/ 0 < a_out (fst (a_handle s)).
Proof.
  intros Hst. unfold a_handle. rewrite Hst. change ACN_PREAMBLE with 16.
  destruct (negb _); [left; reflexivity|]. right.
  destruct (_ =? a_block s); cbn [fst a_enter a_out]; lia.
Qed.

(* ------------------------------------------------------------------ invariant of the automaton *)
Lemma a_fire_noop s : a_valid s && (a_out s =? 0) = false -> a_fire s = (a_norm s, []).
Proof. intros H. unfold a_fire, a_fire1. rewrite H, H. reflexivity. Qed.

Lemma a_fire_inv s : a_wf s -> a_valid s = true -> a_inv (fst (a_fire s)).
Proof.
  intros W Hv. unfold a_fire, a_fire1 at 1. rewrite Hv. cbn [andb].
  assert (forall x, a_wf x -> a_valid x = true -> 0 < a_out x -> a_inv (a_norm x)) as K.
  { intros x Wx Hx Hox. right. split; [apply a_wf_norm; exact Wx|].
    destruct (a_norm_fields x) as (_ & _ & _ & E & _). rewrite E. exact Hox. }
  assert (forall x, a_valid x = false -> a_inv (a_norm x)) as K0.
  { intros x Hx. left. destruct (a_norm_fields x) as (_ & _ & _ & _ & _ & _ & _ & _ & E).
    rewrite E. exact Hx. }
  destruct (a_out s =? 0) eqn:Eo.
  - apply N.eqb_eq in Eo. pose proof (a_handle_ok s W Hv Eo) as Hh.
    destruct (a_handle s) as [s1 o1]. cbn [fst] in Hh.
    destruct Hh as [Hh|(Hv1 & W1 & Hh)].
    + unfold a_fire1. rewrite Hh. cbn [andb fst]. apply K0. exact Hh.
    + unfold a_fire1. rewrite Hv1. cbn [andb].
      destruct (a_out s1 =? 0) eqn:Eo1.
      * apply N.eqb_eq in Eo1. destruct Hh as [Hh|[Hst1 _]]; [lia|].
        pose proof (a_handle_ok s1 W1 Hv1 Eo1) as Hh2.
        pose proof (a_handle_from_pdu s1 Hst1) as Hh3.
        destruct (a_handle s1) as [s2 o2]. cbn [fst] in *.
        destruct Hh2 as [Hh2|(Hv2 & W2 & _)]; [apply K0; exact Hh2|].
        destruct Hh3 as [Hh3|Hh3]; [congruence|]. apply K; assumption.
      * cbn [fst]. apply K; try assumption. apply N.eqb_neq in Eo1. lia.
  - unfold a_fire1. rewrite Hv, Eo. cbn [andb fst]. apply K; try assumption.
    apply N.eqb_neq in Eo. lia.
Qed.

Lemma a_inv_init : a_inv a_init.
Proof.
  right. unfold a_wf, a_target, a_init; cbn. change ACN_PREAMBLE with 16. repeat split; lia.
Qed.

Lemma a_inv_step s b : a_inv s -> a_inv (fst (a_step s b)).
Proof.
  intros [Hv|[W Ho]]; unfold a_step.
  - rewrite Hv. cbn [negb fst]. left. exact Hv.
  - destruct (a_valid s) eqn:Hv; cbn [negb]; [|left; exact Hv].
    apply a_fire_inv; [|exact Hv].
    apply a_wf_store; [exact W|reflexivity|lia].
Qed.

Lemma arun_invalid bs : forall s, a_valid s = false -> arun s bs = (s, []).
Proof.
  induction bs as [|b r IH]; intros s Hv; cbn [run1]; [reflexivity|].
  unfold a_step. rewrite Hv. cbn [negb]. rewrite IH by exact Hv. reflexivity.
Qed.

Lemma a_store_store s b got k : a_wf s -> 1 <= k -> k <= a_out s ->
  a_store (a_store s [b] 1) got (k - 1) = a_store s (b :: got) k.
Proof.
  intros W H1 H2. pose proof (a_target_le s (proj2 (proj2 (proj2 W)))) as Ht.
  assert (a_cap1 (a_store s [b] 1) = a_cap1 s) as Hc by (apply a_cap1_store; auto; lia).
  unfold a_store at 1. rewrite Hc. unfold a_store.
  cbn [a_st a_rdata a_len a_out a_block a_cons a_lsize a_psize a_valid rev_append].
  rewrite (usub32_small (a_out s) 1), (usub32_small (a_out s - 1) (k - 1)),
    (usub32_small (a_out s) k) by lia.
  replace (a_len s + 1 + (k - 1)) with (a_len s + k) by lia.
  replace (a_out s - 1 - (k - 1)) with (a_out s - k) by lia. reflexivity.
Qed.

(* reading k <= outstanding bytes at once = pushing them one at a time *)
Lemma arun_store : forall got s k, a_valid s = true -> a_wf s -> got <> [] -> k = len got ->
  k <= a_out s -> arun s got = a_fire (a_store s got k).
Proof.
  induction got as [|b got IH]; intros s k Hv W Hne Hk Hle; [congruence|].
  cbn [run1]. unfold a_step at 1. rewrite Hv. cbn [negb].
  destruct got as [|b2 got].
  - rewrite Hk. change (len [b]) with 1. cbn [run1].
    destruct (a_fire (a_store s [b] 1)) as [s1 o1]. rewrite app_nil_r. reflexivity.
  - rewrite len_cons in Hk.
    assert (1 <= len (b2 :: got)) as Hl2 by (rewrite len_cons; lia).
    pose proof (a_target_le s (proj2 (proj2 (proj2 W)))) as Ht.
    set (s1 := a_store s [b] 1).
    assert (a_wf s1) as W1 by (apply a_wf_store; [exact W|reflexivity|lia]).
    assert (a_out s1 = a_out s - 1) as Ho1 by (unfold s1; cbn; apply usub32_small; lia).
    assert (a_fire s1 = (s1, [])) as ->.
    { rewrite a_fire_noop.
      - unfold a_norm. replace (a_valid s1) with true by (symmetry; exact Hv).
        replace (a_out s1 =? 0) with false by (symmetry; apply N.eqb_neq; lia). cbn [andb negb].
        assert (a_cap1 s1 = a_cap s1) as ->
          by (unfold s1; rewrite a_cap1_store by (try exact W; lia); reflexivity).
        rewrite a_setcap_same. reflexivity.
      - replace (a_out s1 =? 0) with false by (symmetry; apply N.eqb_neq; lia).
        apply andb_false_r. }
    rewrite (IH s1 (k - 1)); try assumption; try discriminate; try lia.
    unfold s1. rewrite (a_store_store s b (b2 :: got) k W) by lia.
    destruct (a_fire (a_store s (b :: b2 :: got) k)). reflexivity.
Qed.

Lemma a_store_nil s : a_wf s -> a_cap1 s = a_cap s -> a_store s [] 0 = s.
Proof.
  intros W Hc. pose proof (a_target_le s (proj2 (proj2 (proj2 W)))) as Ht.
  unfold a_store. cbn [rev_append]. rewrite Hc, N.add_0_r, usub32_small by lia.
  rewrite N.sub_0_r. destruct s; reflexivity.
Qed.

Lemma a_loop_norm f s av : a_wf s -> a_loop f (a_norm s) av = a_loop f s av.
Proof.
  intros W. unfold a_norm. destruct (a_valid s && negb (a_out s =? 0)) eqn:E; [|reflexivity].
  apply andb_prop in E. destruct E as [_ E]. apply negb_true_iff in E.
  destruct f as [|f]; [reflexivity|]. cbn [a_loop].
  assert (a_read (a_setcap s (a_cap1 s)) av = a_read s av) as ->; [|reflexivity].
  unfold a_read. cbn [a_setcap a_out a_len]. rewrite E. rewrite a_cap1_idem by exact W.
  unfold a_store. cbn [a_setcap a_st a_rdata a_len a_out a_block a_cons a_lsize a_psize a_valid].
  rewrite a_cap1_idem by exact W. reflexivity.
Qed.

(* one call of Receive() = the automaton run over a prefix of what is available *)
Lemma a_loop_sim : forall n av s fuel, (length av <= n)%nat -> (2 * length av + 2 <= fuel)%nat ->
  a_valid s = true -> a_wf s -> 0 < a_out s -> (av = [] -> a_cap1 s = a_cap s) ->
  exists used rest s1 o1, av = used ++ rest /\ (av <> [] -> used <> []) /\
    arun s used = (s1, o1) /\ a_loop fuel s av = Some (s1, rest, o1).
Proof.
  induction n as [|n IH]; intros av s fuel Hn Hf Hv W Ho Hcap;
    (destruct fuel as [|f]; [lia|]); cbn [a_loop]; unfold a_read;
    (replace (a_out s =? 0) with false by (symmetry; apply N.eqb_neq; lia));
    pose proof (a_cap1_ge s W) as (C1 & C2 & C3);
    pose proof (a_target_le s (proj2 (proj2 (proj2 W)))) as Ht.
  - destruct av; [|cbn [length] in Hn; lia].
    rewrite len_nil. replace (N.min (a_out s) 0) with 0 by lia.
    replace (a_cap1 s <? a_len s + 0) with false by (symmetry; apply N.ltb_ge; lia).
    rewrite take_0, drop_0, a_store_nil by auto.
    rewrite Hv. replace (a_out s =? 0) with false by (symmetry; apply N.eqb_neq; lia).
    cbn [negb orb]. exists [], [], s, []. repeat split; auto.
  - destruct av as [|b0 av0].
    { rewrite len_nil. replace (N.min (a_out s) 0) with 0 by lia.
      replace (a_cap1 s <? a_len s + 0) with false by (symmetry; apply N.ltb_ge; lia).
      rewrite take_0, drop_0, a_store_nil by auto.
      rewrite Hv. replace (a_out s =? 0) with false by (symmetry; apply N.eqb_neq; lia).
      cbn [negb orb]. exists [], [], s, []. repeat split; auto. }
    set (av := b0 :: av0) in *.
    set (k := N.min (a_out s) (len av)).
    assert (1 <= len av) as Hlav by (unfold av; rewrite len_cons; lia).
    assert (1 <= k /\ k <= a_out s /\ k <= len av) as (Hk1 & Hk2 & Hk3) by (unfold k; lia).
    replace (a_cap1 s <? a_len s + k) with false by (symmetry; apply N.ltb_ge; lia).
    set (got := take k av). set (av1 := drop k av).
    assert (len got = k) as Lg by (unfold got; rewrite len_take; lia).
    assert (got <> []) as Hgne by (intros Hc; rewrite Hc, len_nil in Lg; lia).
    assert (av = got ++ av1) as Eav by (symmetry; apply take_drop).
    set (s1 := a_store s got k).
    assert (a_wf s1) as W1 by (apply a_wf_store; auto).
    assert (a_valid s1 = true) as Hv1 by exact Hv.
    assert (a_out s1 = a_out s - k) as Ho1 by (unfold s1; cbn; apply usub32_small; lia).
    pose proof (arun_store got s k Hv W Hgne (eq_sym Lg) Hk2) as Hrun. fold s1 in Hrun.
    assert (length av1 <= n)%nat as Hn1.
    { assert (length av = length got + length av1)%nat as HL by (rewrite Eav at 1; apply app_length).
      assert (1 <= length got)%nat by (destruct got; [congruence|cbn [length]; lia]). lia. }
    rewrite Hv1. cbn [negb orb].
    destruct (a_out s1 =? 0) eqn:Eo1; cbn [negb].
    2:{ (* still waiting: everything available has been read *)
      apply N.eqb_neq in Eo1.
      exists got, av1, s1, []. repeat split; auto.
      rewrite Hrun, a_fire_noop.
      - unfold a_norm. rewrite Hv1. replace (a_out s1 =? 0) with false by (symmetry; apply N.eqb_neq; lia).
        cbn [andb negb].
        assert (a_cap1 s1 = a_cap s1) as ->
          by (unfold s1; rewrite a_cap1_store by auto; reflexivity).
        rewrite a_setcap_same. reflexivity.
      - replace (a_out s1 =? 0) with false by (symmetry; apply N.eqb_neq; lia). apply andb_false_r. }
    apply N.eqb_eq in Eo1.
    (* the automaton side of the handlers *)
    unfold a_fire, a_fire1 at 1 in Hrun. rewrite Hv1, Eo1 in Hrun. cbn [andb N.eqb] in Hrun.
    pose proof (a_handle_ok s1 W1 Hv1 Eo1) as Hh.
    destruct (a_handle s1) as [s2 o2]. cbn [fst] in Hh.
    (* continuing the loop from a well-formed state that needs bytes *)
    assert (forall x ox f', a_valid x = true -> a_wf x -> 0 < a_out x ->
              (2 * length av1 + 2 <= f')%nat -> arun s got = (a_norm x, ox) ->
              exists used rest sz oz, av = used ++ rest /\ (av <> [] -> used <> []) /\
                arun s used = (sz, oz) /\
                match a_loop f' x av1 with Some (s3, r, o3) => Some (s3, r, ox ++ o3) | None => None end
                = Some (sz, rest, oz)) as Kont.
    { intros x ox f' Hvx Wx Hox Hf' Hr.
      destruct (a_norm_fields x) as (_ & _ & _ & Eo & _ & _ & _ & _ & Ev).
      destruct (IH av1 (a_norm x) f' Hn1 Hf') as (used & rest & sz & oz & E & Hne & R & L).
      - rewrite Ev. exact Hvx.
      - apply a_wf_norm. exact Wx.
      - rewrite Eo. exact Hox.
      - intros _. apply a_norm_capped; assumption.
      - exists (got ++ used), rest, sz, (ox ++ oz). repeat split.
        + rewrite <- app_assoc, <- E. exact Eav.
        + intros _ Hc. apply app_eq_nil in Hc. destruct Hc; congruence.
        + rewrite run1_app, Hr, R. reflexivity.
        + rewrite <- (a_loop_norm f' x av1 Wx), L. reflexivity. }
    assert (length av1 + 1 <= length av)%nat as HL1.
    { assert (length av = length got + length av1)%nat as HL by (rewrite Eav at 1; apply app_length).
      assert (1 <= length got)%nat by (destruct got; [congruence|cbn [length]; lia]). lia. }
    destruct Hh as [Hinv|(Hv2 & W2 & Hh)].
    + (* the stream became invalid *)
      rewrite Hinv. cbn [negb].
      unfold a_fire1 in Hrun. rewrite Hinv in Hrun. cbn [andb] in Hrun.
      rewrite a_norm_invalid, app_nil_r in Hrun by exact Hinv.
      exists got, av1, s2, o2. repeat split; auto.
    + rewrite Hv2. cbn [negb].
      destruct (a_out s2 =? 0) eqn:Eo2.
      * (* HandlePDU is due at once *)
        apply N.eqb_eq in Eo2. destruct Hh as [Hh|[Hst2 _]]; [lia|].
        unfold a_fire1 in Hrun. rewrite Hv2, Eo2 in Hrun. cbn [andb N.eqb] in Hrun.
        destruct f as [|f']; [lia|]. cbn [a_loop]. unfold a_read. rewrite Eo2. cbn [N.eqb].
        rewrite Hv2, Eo2. cbn [negb orb N.eqb].
        pose proof (a_handle_ok s2 W2 Hv2 Eo2) as Hh4.
        pose proof (a_handle_from_pdu s2 Hst2) as Hh5.
        destruct (a_handle s2) as [s4 o4]. cbn [fst] in *.
        destruct Hh4 as [Hinv4|(Hv4 & W4 & _)].
        -- rewrite Hinv4. cbn [negb]. rewrite a_norm_invalid in Hrun by exact Hinv4.
          exists got, av1, s4, (o2 ++ o4). repeat split; auto.
        -- rewrite Hv4. cbn [negb]. destruct Hh5 as [Hh5|Hh5]; [congruence|].
          destruct (Kont s4 (o2 ++ o4) f' Hv4 W4 Hh5 ltac:(lia) Hrun)
            as (used & rest & sz & oz & E & Hne & R & L).
          exists used, rest, sz, oz. repeat split; auto.
          destruct (a_loop f' s4 av1) as [[[s3 r] o3]|]; [|discriminate].
          rewrite app_assoc. exact L.
      * apply N.eqb_neq in Eo2.
        unfold a_fire1 in Hrun. rewrite Hv2 in Hrun.
        replace (a_out s2 =? 0) with false in Hrun by (symmetry; apply N.eqb_neq; lia).
        cbn [andb] in Hrun. rewrite app_nil_r in Hrun.
        apply (Kont s2 o2 f Hv2 W2 ltac:(lia) ltac:(lia) Hrun).
Qed.

Lemma a_recv_sim s av : a_inv s -> av <> [] ->
  exists used rest s1 o1, av = used ++ rest /\ used <> [] /\
    arun s used = (s1, o1) /\ a_recv s av = Some (s1, rest, o1).
Proof.
  intros Hi Hne. unfold a_recv. destruct (a_valid s) eqn:Hv; cbn [negb].
  - destruct Hi as [Hi|[W Ho]]; [congruence|].
    destruct (a_loop_sim (length av) av s (2 * length av + 4) (le_n _) ltac:(lia) Hv W Ho)
      as (used & rest & s1 & o1 & E & Hn & R & L); [congruence|].
    exists used, rest, s1, o1. repeat split; auto.
  - exists av, [], s, []. repeat split; auto.
    + symmetry. apply app_nil_r.
    + apply arun_invalid. exact Hv.
Qed.

(* every segmentation is processed without an out-of-range store (and within the loop fuel) and
   yields what the byte-at-a-time automaton yields on the whole stream *)
Lemma a_feed_run1 chunks :
  feed a_recv a_init chunks =
    Done (fst (arun a_init (concat chunks))) (snd (arun a_init (concat chunks))).
Proof.
  apply (feed_run1 astate a_recv a_step a_inv a_inv_step a_recv_sim). apply a_inv_init.
Qed.

(* any two segmentations of the same stream: same deliveries, same final state *)
Lemma acn_partition_independent chunks1 chunks2 :
  concat chunks1 = concat chunks2 ->
  feed a_recv a_init chunks1 = feed a_recv a_init chunks2 /\
  exists s out, feed a_recv a_init chunks1 = Done s out.
Proof.
  intros H. rewrite !a_feed_run1, H. split; [reflexivity|]. eexists; eexists; reflexivity.
Qed.

(* buffer growth: in every reachable valid state the bytes held fit the allocation, which is at most
   2 MB, and exactly the bytes still needed for the current unit are outstanding *)
Lemma acn_reachable_bounds chunks s out :
  feed a_recv a_init chunks = Done s out -> a_valid s = true ->
  a_len s <= a_cap s /\ a_cap s <= 2097152 /\ a_len s + a_out s <= a_cap1 s /\ 0 < a_out s.
Proof.
  rewrite a_feed_run1. intros H Hv. inversion H; subst. clear H.
  pose proof (inv_run1 astate a_step a_inv a_inv_step (concat chunks) a_init a_inv_init) as Hi.
  destruct Hi as [Hi|[W Ho]]; [congruence|].
  pose proof (a_cap1_ge _ W) as (C1 & C2 & C3). destruct W as (_ & H1 & H2 & _).
  repeat split; auto.
Qed.
