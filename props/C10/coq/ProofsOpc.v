(* C10 — Open Pixel Control server: the receive buffer after any prefix of the stream holds exactly
   the unfinished tail of that prefix, and the frames of the prefix have been delivered. *)
From OlaBase Require Import Bytes.
From C10 Require Import Gen Model Lemmas.
Local Open Scope N_scope.

Section OpcReg.
  Variable reg : N -> bool.

(* `Frames d ms rest`: d splits into the complete frames ms followed by an incomplete tail rest *)
Inductive Frames : list N -> list msg -> list N -> Prop :=
| F_short d : len d < 4 -> Frames d [] d
| F_inc ch cmd hi lo r : len r < hi * 256 + lo ->
    Frames (ch :: cmd :: hi :: lo :: r) [] (ch :: cmd :: hi :: lo :: r)
| F_frame ch cmd hi lo r ms rest : hi * 256 + lo <= len r ->
    Frames (drop (hi * 256 + lo) r) ms rest ->
    Frames (ch :: cmd :: hi :: lo :: r)
      ((if reg ch then [(ch * 256 + cmd, take (hi * 256 + lo) r)] else []) ++ ms) rest.

Lemma len4 {A} (a b c d : A) r : len (a :: b :: c :: d :: r) = 4 + len r.
Proof. rewrite !len_cons. lia. Qed.

Lemma take_app_le {A} n (a b : list A) : n <= len a -> take n (a ++ b) = take n a.
Proof.
  unfold take, len. intros H. rewrite firstn_app.
  replace (N.to_nat n - length a)%nat with 0%nat by lia. cbn [firstn]. apply app_nil_r.
Qed.
Lemma drop_app_le {A} n (a b : list A) : n <= len a -> drop n (a ++ b) = drop n a ++ b.
Proof.
  unfold drop, len. intros H. rewrite skipn_app.
  replace (N.to_nat n - length a)%nat with 0%nat by lia. reflexivity.
Qed.

Lemma Frames_total : forall n d, (length d <= n)%nat -> exists m r, Frames d m r.
Proof.
  induction n as [|n IH]; intros d Hl.
  - destruct d; [|cbn [length] in Hl; lia]. exists [], []. apply F_short. rewrite len_nil. lia.
  - destruct d as [|a [|b [|c [|e r]]]];
      try (eexists; eexists; apply F_short; unfold len; cbn [length]; lia).
    destruct (len r <? c * 256 + e) eqn:E.
    + eexists; eexists. apply F_inc. lia.
    + destruct (IH (drop (c * 256 + e) r)) as (m & r' & F).
      { pose proof (length_drop_lt (c * 256 + e) r). cbn [length] in Hl. lia. }
      eexists; eexists. apply F_frame; [lia|exact F].
Qed.

Lemma Frames_det d m r : Frames d m r -> forall m' r', Frames d m' r' -> m = m' /\ r = r'.
Proof.
  induction 1 as [d H|ch cmd hi lo r H|ch cmd hi lo r ms rest H F IH]; intros m' r' F'.
  - inversion F'; subst; auto; rewrite len4 in *; lia.
  - inversion F'; subst; auto; try (rewrite len4 in *; lia); lia.
  - inversion F'; subst; try (rewrite len4 in *; lia); try lia.
    match goal with Hx : Frames (drop _ _) _ _ |- _ => destruct (IH _ _ Hx) as [-> ->] end. auto.
Qed.

Lemma Frames_rest d m r : Frames d m r -> Frames r [] r.
Proof. induction 1; [apply F_short; assumption|apply F_inc; assumption|assumption]. Qed.

Lemma Frames_bytes d m r : Frames d m r -> bytes_ok d = true -> bytes_ok r = true.
Proof.
  induction 1 as [d H|ch cmd hi lo r H|ch cmd hi lo r ms rest H F IH]; intros Hb; auto.
  apply IH. cbn [bytes_ok forallb] in Hb. fold (bytes_ok r) in Hb.
  repeat (apply andb_prop in Hb; destruct Hb as [_ Hb]).
  apply (bytes_ok_take_drop (hi * 256 + lo) r Hb).
Qed.

Lemma Frames_app a m1 r1 : Frames a m1 r1 ->
  forall b m2 r2, Frames (r1 ++ b) m2 r2 -> Frames (a ++ b) (m1 ++ m2) r2.
Proof.
  induction 1 as [d H|ch cmd hi lo r H|ch cmd hi lo r ms rest H F IH]; intros b m2 r2 F2; auto.
  cbn [app]. rewrite <- app_assoc. rewrite <- (take_app_le (hi * 256 + lo) r b H).
  apply F_frame.
  - rewrite len_app. lia.
  - rewrite drop_app_le by exact H. apply IH. exact F2.
Qed.

Lemma Frames_ref d m r : Frames d m r -> forall n, (length d <= n)%nat -> ref_opc_f reg n d = m.
Proof.
  induction 1 as [d H|ch cmd hi lo r H|ch cmd hi lo r ms rest H F IH]; intros n Hl.
  - destruct n; [reflexivity|].
    destruct d as [|a [|b [|c [|e r]]]]; try reflexivity. rewrite len4 in H. lia.
  - destruct n; [cbn [length] in Hl; lia|]. cbn [ref_opc_f].
    destruct (len r <? hi * 256 + lo) eqn:E; [reflexivity|lia].
  - destruct n; [cbn [length] in Hl; lia|]. cbn [ref_opc_f].
    destruct (len r <? hi * 256 + lo) eqn:E; [lia|].
    rewrite IH; [reflexivity|].
    pose proof (length_drop_lt (hi * 256 + lo) r). cbn [length] in Hl. lia.
Qed.

Lemma drop4 {A} n (a b c d : A) r : drop (n + 4) (a :: b :: c :: d :: r) = drop n r.
Proof.
  unfold drop. replace (N.to_nat (n + 4)) with (S (S (S (S (N.to_nat n))))) by lia. reflexivity.
Qed.

(* the frame loop of SocketReady computes exactly this split, never copies out of range, and leaves
   a buffer with room for at least one more byte *)
Lemma Frames_oframes d m r : Frames d m r ->
  forall fuel cap, (length d < fuel)%nat -> bytes_ok d = true -> len d <= cap -> 4 <= cap ->
  cap <= 65539 ->
  exists cap', o_frames reg fuel d cap = Some ({| o_data := r; o_cap := cap' |}, m) /\
               cap <= cap' /\ cap' <= 65539 /\ len r < cap' /\
               (4 <= len r -> o_expected r + 4 <= cap').
Proof.
  change OPC_HEADER_SIZE with 4.
  induction 1 as [d H|ch cmd hi lo r H|ch cmd hi lo r ms rest H F IH];
    intros fuel cap Hf Hb Hc H4 Hm; (destruct fuel as [|f]; [lia|]); cbn [o_frames];
    change OPC_HEADER_SIZE with 4.
  - assert (len d <? 4 = true) as -> by lia. exists cap. split; [reflexivity|]. repeat split; intros; lia.
  - rewrite len4 in *. assert (4 + len r <? 4 = false) as -> by lia.
    cbn [o_expected]. set (e := hi * 256 + lo) in *.
    assert (e <= 65535) as He.
    { cbn [bytes_ok forallb] in Hb. unfold byte_ok in Hb. unfold e. lia. }
    assert (e + 4 <? 4 + len r = false) as -> by lia. rewrite andb_false_r.
    assert (4 + len r <? e + 4 = true) as -> by lia.
    exists (if cap <? e + 4 then e + 4 else cap). split; [reflexivity|].
    cbn [o_expected]. fold e. destruct (cap <? e + 4) eqn:E; repeat split; intros; lia.
  - rewrite len4 in *. assert (4 + len r <? 4 = false) as -> by lia.
    cbn [o_expected]. set (e := hi * 256 + lo) in *.
    assert (cap <? e + 4 = false) as -> by lia. cbn [andb].
    assert (4 + len r <? e + 4 = false) as -> by lia.
    rewrite drop4.
    assert (bytes_ok r = true) as Hbr.
    { cbn [bytes_ok forallb] in Hb. fold (bytes_ok r) in Hb.
      repeat (apply andb_prop in Hb; destruct Hb as [_ Hb]). exact Hb. }
    destruct (IH f cap) as (cap' & E & H1 & H2 & H3 & H5); try assumption.
    + pose proof (length_drop_lt e r). cbn [length] in Hf. lia.
    + apply (bytes_ok_take_drop e r Hbr).
    + rewrite drop_len. lia.
    + rewrite E. exists cap'. split; [|repeat split; assumption].
      change (drop 4 (ch :: cmd :: hi :: lo :: r)) with r. reflexivity.
Qed.

(* reachable states: the buffer holds an unfinished tail, has room for one more byte, and its
   capacity never exceeds 65535 + 4 *)
Definition o_inv (s : ostate) : Prop :=
  Frames (o_data s) [] (o_data s) /\ bytes_ok (o_data s) = true /\
  len (o_data s) < o_cap s /\ 516 <= o_cap s /\ o_cap s <= 65539 /\
  (4 <= len (o_data s) -> o_expected (o_data s) + 4 <= o_cap s).

Lemma o_inv_init : o_inv o_init.
Proof.
  unfold o_inv, o_init; cbn [o_data o_cap]. change OPC_FRAME_SIZE with 516.
  repeat split; try (rewrite len_nil; lia); try lia. apply F_short. rewrite len_nil. lia.
Qed.

Lemma o_nil s M R : o_inv s -> Frames (o_data s) M R -> M = [] /\ R = o_data s.
Proof.
  intros (Hf & _) F. destruct (Frames_det _ _ _ Hf _ _ F) as [<- <-]. auto.
Qed.

Lemma o_recv_frames s av m r : o_inv s -> av <> [] -> bytes_ok av = true ->
  let room := o_cap s - len (o_data s) in
  Frames (o_data s ++ take room av) m r ->
  exists s1, o_recv reg s av = Some (s1, drop room av, m) /\ o_data s1 = r /\ o_inv s1 /\
             take room av <> [].
Proof.
  intros (Hf & Hb & Hr & H4 & Hm & Hx) Hne Hbav room F.
  assert (usub32 (o_cap s) (len (o_data s)) = room) as Hus by (apply usub32_small; lia).
  pose proof (len_take room av) as Lt.
  assert (0 < len av) as Hav by (destruct av; [congruence|rewrite len_cons; lia]).
  assert (take room av <> []) as Hgne.
  { intros Hc. rewrite Hc, len_nil in Lt. unfold room in Lt. lia. }
  set (d := o_data s ++ take room av) in *.
  assert (bytes_ok d = true) as Hbd.
  { unfold d. rewrite bytes_ok_app, Hb. apply (bytes_ok_take_drop room av Hbav). }
  assert (len d <= o_cap s) as Hld by (unfold d; rewrite len_app; unfold room in *; lia).
  destruct (Frames_oframes d m r F (S (length d)) (o_cap s) ltac:(lia) Hbd Hld ltac:(lia) Hm)
    as (cap' & E & H1 & H2 & H3 & H5).
  exists {| o_data := r; o_cap := cap' |}. repeat split; cbn [o_data o_cap]; try lia; auto.
  - unfold o_recv. rewrite Hus, take_min, drop_min. fold d.
    assert (o_cap s <? len (o_data s) + len (take room av) = false) as ->
      by (unfold room in *; lia).
    rewrite E. reflexivity.
  - apply (Frames_rest d m r F).
  - apply (Frames_bytes d m r F Hbd).
Qed.

Lemma o_drain : forall fuel s av M R, o_inv s -> (length av <= fuel)%nat -> bytes_ok av = true ->
  Frames (o_data s ++ av) M R ->
  exists s1, drain (o_recv reg) fuel s av = Done s1 M /\ o_data s1 = R /\ o_inv s1.
Proof.
  induction fuel as [|f IH]; intros s av M R Hi Hl Hb F.
  - destruct av; [|cbn [length] in Hl; lia]. rewrite app_nil_r in F.
    destruct (o_nil s M R Hi F) as [-> ->].
    exists s. split; [reflexivity|split; [reflexivity|exact Hi]].
  - destruct av as [|b av'].
    { rewrite app_nil_r in F. destruct (o_nil s M R Hi F) as [-> ->].
      exists s. split; [reflexivity|split; [reflexivity|exact Hi]]. }
    set (av := b :: av') in *.
    set (room := o_cap s - len (o_data s)).
    destruct (Frames_total _ (o_data s ++ take room av) (le_n _)) as (m1 & r1 & F1).
    destruct (o_recv_frames s av m1 r1 Hi ltac:(discriminate) Hb F1) as (s1 & E & Hd & Hi1 & Hgne).
    fold room in E, Hgne.
    destruct (Frames_total _ (r1 ++ drop room av) (le_n _)) as (m2 & r2 & F2).
    pose proof (Frames_app _ _ _ F1 _ _ _ F2) as F12.
    rewrite <- app_assoc, take_drop in F12.
    destruct (Frames_det _ _ _ F _ _ F12) as [-> ->].
    assert (length (drop room av) <= f)%nat as Hl2.
    { assert (length av = length (take room av) + length (drop room av))%nat as HL
        by (rewrite <- app_length, take_drop; reflexivity).
      assert (1 <= length (take room av))%nat as H1
        by (destruct (take room av) eqn:Et; [congruence|cbn [length]; lia]).
      lia. }
    rewrite <- Hd in F2.
    destruct (IH s1 (drop room av) m2 r2 Hi1 Hl2 (proj2 (bytes_ok_take_drop room av Hb)) F2)
      as (s2 & E2 & Hd2 & Hi2).
    exists s2. split; [|split; [exact Hd2|exact Hi2]].
    unfold av. cbn [drain]. fold av. rewrite E, E2. reflexivity.
Qed.

Lemma o_feed : forall chunks s M R, o_inv s -> bytes_ok (concat chunks) = true ->
  Frames (o_data s ++ concat chunks) M R ->
  exists s1, feed (o_recv reg) s chunks = Done s1 M /\ o_data s1 = R /\ o_inv s1.
Proof.
  induction chunks as [|c cs IH]; intros s M R Hi Hb F; cbn [concat] in *.
  - rewrite app_nil_r in F. destruct (o_nil s M R Hi F) as [-> ->].
    exists s. split; [reflexivity|split; [reflexivity|exact Hi]].
  - rewrite bytes_ok_app in Hb. apply andb_prop in Hb. destruct Hb as [Hbc Hbs].
    destruct (Frames_total _ (o_data s ++ c) (le_n _)) as (m1 & r1 & F1).
    destruct (o_drain (S (length c)) s c m1 r1 Hi ltac:(lia) Hbc F1) as (s1 & E1 & Hd1 & Hi1).
    destruct (Frames_total _ (r1 ++ concat cs) (le_n _)) as (m2 & r2 & F2).
    pose proof (Frames_app _ _ _ F1 _ _ _ F2) as F12. rewrite <- app_assoc in F12.
    destruct (Frames_det _ _ _ F _ _ F12) as [-> ->].
    rewrite <- Hd1 in F2.
    destruct (IH s1 m2 r2 Hi1 Hbs F2) as (s2 & E2 & Hd2 & Hi2).
    exists s2. split; [|split; [exact Hd2|exact Hi2]].
    cbn [feed]. unfold feed_chunk. rewrite E1, E2. reflexivity.
Qed.

Lemma opc_chunk_free chunks : bytes_ok (concat chunks) = true ->
  exists s, feed (o_recv reg) o_init chunks = Done s (ref_opc reg (concat chunks)).
Proof.
  intros Hb.
  destruct (Frames_total _ (concat chunks) (le_n _)) as (M & R & F).
  destruct (o_feed chunks o_init M R o_inv_init Hb F) as (s1 & E & _ & _).
  exists s1. rewrite E. f_equal. symmetry. unfold ref_opc. apply (Frames_ref _ _ _ F). lia.
Qed.

Lemma opc_reachable_bounds chunks s out : bytes_ok (concat chunks) = true ->
  feed (o_recv reg) o_init chunks = Done s out ->
  len (o_data s) < o_cap s /\ o_cap s <= 65539.
Proof.
  intros Hb H.
  destruct (Frames_total _ (concat chunks) (le_n _)) as (M & R & F).
  destruct (o_feed chunks o_init M R o_inv_init Hb F) as (s1 & E & _ & Hi).
  rewrite E in H. inversion H; subst. destruct Hi as (_ & _ & A & _ & B & _). auto.
Qed.
(* the capacity window: never below the initial 516 bytes nor above the largest frame, always ahead
   of the bytes held, and — once the header of the frame being received is in the buffer — large
   enough for that whole frame (CheckSize has grown the buffer to expected_size + 4) *)
Lemma opc_capacity chunks s out : bytes_ok (concat chunks) = true ->
  feed (o_recv reg) o_init chunks = Done s out ->
  516 <= o_cap s /\ o_cap s <= 65539 /\ len (o_data s) < o_cap s /\
  (4 <= len (o_data s) -> o_expected (o_data s) + 4 <= o_cap s).
Proof.
  intros Hb H.
  destruct (Frames_total _ (concat chunks) (le_n _)) as (M & R & F).
  destruct (o_feed chunks o_init M R o_inv_init Hb F) as (s1 & E & _ & Hi).
  rewrite E in H. inversion H; subst. destruct Hi as (_ & _ & A & B & C & D). auto.
Qed.
End OpcReg.
