(* C10 — generic lemmas: list surgery, and the reduction of the chunked, level-triggered machine to a
   byte-at-a-time automaton (from which independence of the segmentation is immediate). *)
From OlaBase Require Import Bytes.
From C10 Require Import Gen Model.
Local Open Scope N_scope.

Lemma usub32_small a b : b <= a -> a < 4294967296 -> usub32 a b = a - b.
Proof.
  intros H1 H2. unfold usub32, u32.
  rewrite (N.mod_small b) by lia.
  replace (a + 4294967296 - b) with ((a - b) + 1 * 4294967296) by lia.
  rewrite N.mod_add by lia. apply N.mod_small; lia.
Qed.

Lemma len_take {A} n (l : list A) : len (take n l) = N.min n (len l).
Proof. unfold take, len. rewrite firstn_length. lia. Qed.

Lemma len_zero_nil {A} (l : list A) : len l = 0 -> l = [].
Proof. destruct l; [reflexivity|]. rewrite len_cons. lia. Qed.

Lemma len_length {A} (l : list A) : N.to_nat (len l) = length l.
Proof. unfold len. lia. Qed.

Lemma take_all {A} n (l : list A) : len l <= n -> take n l = l.
Proof. unfold take, len. intros. apply firstn_all2. lia. Qed.

Lemma drop_all {A} n (l : list A) : len l <= n -> drop n l = [].
Proof. unfold drop, len. intros. apply skipn_all2. lia. Qed.

Lemma take_min {A} n (l : list A) : take (N.min n (len l)) l = take n l.
Proof.
  destruct (N.le_gt_cases n (len l)) as [H|H].
  - rewrite N.min_l by exact H. reflexivity.
  - rewrite N.min_r by lia. rewrite !take_all by lia. reflexivity.
Qed.
Lemma drop_min {A} n (l : list A) : drop (N.min n (len l)) l = drop n l.
Proof.
  destruct (N.le_gt_cases n (len l)) as [H|H].
  - rewrite N.min_l by exact H. reflexivity.
  - rewrite N.min_r by lia. rewrite !drop_all by lia. reflexivity.
Qed.

Lemma take_0 {A} (l : list A) : take 0 l = [].
Proof. reflexivity. Qed.
Lemma drop_0 {A} (l : list A) : drop 0 l = l.
Proof. reflexivity. Qed.

Lemma split_at_nat {A} : forall (l : list A) k, (k < length l)%nat ->
  exists e, nth_error l k = Some e /\ l = firstn k l ++ e :: skipn (S k) l.
Proof.
  induction l as [|x l IH]; intros k H; cbn [length] in H; [lia|].
  destruct k as [|k].
  - exists x. split; reflexivity.
  - destruct (IH k) as (e & E1 & E2); [lia|]. exists e. split; [exact E1|].
    cbn [firstn skipn app]. f_equal. exact E2.
Qed.

Lemma split_at (l : list N) n : n < len l ->
  exists e, rd l n = Some e /\ l = take n l ++ e :: drop (n + 1) l /\ len (take n l) = n.
Proof.
  intros H. destruct (split_at_nat l (N.to_nat n)) as (e & E1 & E2); [unfold len in H; lia|].
  exists e. split; [exact E1|]. split.
  - unfold take, drop. replace (N.to_nat (n + 1)) with (S (N.to_nat n)) by lia. exact E2.
  - rewrite len_take. lia.
Qed.

Lemma length_drop_lt {A} n (l : list A) : (length (drop n l) <= length l)%nat.
Proof. unfold drop. rewrite skipn_length. lia. Qed.

(* ------------------------------------------------------------------ byte-at-a-time reduction *)
Section Bytewise.
  Variable S : Type.
  Variable recv : S -> list N -> option (S * list N * list msg).
  Variable step : S -> N -> S * list msg.
  Variable inv : S -> Prop.

  Fixpoint run1 (s : S) (bs : list N) : S * list msg :=
    match bs with
    | [] => (s, [])
    | b :: r => let (s1, o1) := step s b in let (s2, o2) := run1 s1 r in (s2, o1 ++ o2)
    end.

  Lemma run1_app a : forall s b,
    run1 s (a ++ b) = let (s1, o1) := run1 s a in let (s2, o2) := run1 s1 b in (s2, o1 ++ o2).
  Proof.
    induction a as [|x a IH]; intros s b; cbn [run1 app].
    - destruct (run1 s b). reflexivity.
    - destruct (step s x) as [s1 o1]. rewrite IH.
      destruct (run1 s1 a) as [s2 o2]. destruct (run1 s2 b) as [s3 o3].
      rewrite app_assoc. reflexivity.
  Qed.

  Hypothesis inv_step : forall s b, inv s -> inv (fst (step s b)).

  Lemma inv_run1 bs : forall s, inv s -> inv (fst (run1 s bs)).
  Proof.
    induction bs as [|b r IH]; intros s H; cbn [run1]; [exact H|].
    pose proof (inv_step s b H) as H1. destruct (step s b) as [s1 o1]. cbn [fst] in H1.
    specialize (IH s1 H1). destruct (run1 s1 r) as [s2 o2]. exact IH.
  Qed.

  (* one callback invocation = the automaton run over a non-empty prefix of what is available *)
  Hypothesis recv_sim : forall s av, inv s -> av <> [] ->
    exists used rest s1 o1, av = used ++ rest /\ used <> [] /\
      run1 s used = (s1, o1) /\ recv s av = Some (s1, rest, o1).

  Lemma drain_run1 : forall fuel s av, inv s -> (length av <= fuel)%nat ->
    drain recv fuel s av = Done (fst (run1 s av)) (snd (run1 s av)).
  Proof.
    induction fuel as [|f IH]; intros s av Hi Hl.
    - destruct av; [reflexivity|cbn [length] in Hl; lia].
    - destruct av as [|b av']; [reflexivity|].
      cbn [drain].
      destruct (recv_sim s (b :: av') Hi) as (used & rest & s1 & o1 & E & Hne & R & Rv); [discriminate|].
      rewrite Rv.
      assert (inv s1) as Hi1.
      { pose proof (inv_run1 used s Hi) as H. rewrite R in H. exact H. }
      assert (length rest <= f)%nat as Hl1.
      { assert (length (b :: av') = length used + length rest)%nat as HL by (rewrite E; apply app_length).
        destruct used; [congruence|]. cbn [length] in *. lia. }
      rewrite (IH s1 rest Hi1 Hl1).
      rewrite E, run1_app, R. destruct (run1 s1 rest) as [s2 o2]. reflexivity.
  Qed.

  Lemma feed_run1 : forall chunks s, inv s ->
    feed recv s chunks = Done (fst (run1 s (concat chunks))) (snd (run1 s (concat chunks))).
  Proof.
    induction chunks as [|c cs IH]; intros s Hi; cbn [feed concat]; [reflexivity|].
    unfold feed_chunk. rewrite drain_run1 by (auto; lia).
    assert (inv (fst (run1 s c))) as Hi1 by (apply inv_run1; exact Hi).
    rewrite (IH _ Hi1). rewrite run1_app.
    destruct (run1 s c) as [s1 o1]. cbn [fst snd].
    destruct (run1 s1 (concat cs)) as [s2 o2]. reflexivity.
  Qed.
End Bytewise.
Arguments run1 {S}.
