(* C10 — stream framing is independent of how the byte stream is split into reads.
   Only theorem statements here; proofs are in Proofs*.v.  `feed recv init chunks` runs the model of
   the real parser (one call of recv = one invocation of ReceiveMessage / SocketReady, re-invoked
   while unread bytes remain) over ONE segmentation `chunks` of the stream `concat chunks`; the
   theorems quantify over all segmentations, with no bound on stream length or chunk count. *)
From OlaBase Require Import Bytes.
From C10 Require Import Gen Model Lemmas ProofsRecv ProofsUsb ProofsRobe ProofsOpc ProofsAcn ProofsAcnRef Schedule ProofsSched ProofsSchedOpc ProofsOpcFast ProofsOpcReg ProofsRpc
  ProofsRobeResync ProofsRobeDispatch ProofsAcnRoot ProofsInter ProofsEnttec.
Local Open Scope N_scope.

(* Side obligations: the constants regenerated from the headers are the numbers used by the
   reference framers (which are written with literals). *)
Theorem c10_consts :
  (USB_SOM, USB_EOM, USB_MAX, USB_BUF, USB_HEADER) = (126, 231, 600, 600, 4) /\
  (ROBE_SOM, ROBE_MAX, ROBE_BUF, ROBE_HEADER) = (165, 522, 522, 5) /\
  (OPC_HEADER_SIZE, OPC_FRAME_SIZE) = (4, 516) /\
  ACN_HEADER = [65; 83; 67; 45; 69; 49; 46; 49; 55; 0; 0; 0] /\
  (ACN_HEADER_SIZE, ACN_PDU_BLOCK_SIZE, ACN_TWO_BYTES, ACN_THREE_BYTES, ACN_LFLAG_MASK, ACN_LENGTH_MASK,
   ACN_INITIAL_SIZE) = (12, 4, 2, 3, 128, 15, 500) /\
  (RPC_VERSION_MASK, RPC_SIZE_MASK, RPC_PROTOCOL_VERSION, RPC_MAX_BUFFER_SIZE) =
    (15 * 2 ^ 28, 2 ^ 28 - 1, 1, 2 ^ 20) /\
  (ACN_VFLAG_MASK, ACN_HFLAG_MASK, ACN_CID_LENGTH, ACN_ROOT_VECTOR_SIZE, ACN_VECTOR_ROOT_NULL) =
    (64, 32, 16, 4, 6) /\
  ROBE_DISPATCH = [(17, 1); (19, 2); (5, 3)] /\
  ENTTEC_DISPATCH = [(3, (1, 1)); (12, (1, 2)); (5, (1, 3)); (9, (1, 4));
                     (137, (2, 1)); (201, (2, 2)); (156, (2, 3)); (164, (2, 4))] /\
  (ENTTEC_PORT2_THRESHOLD, ENTTEC_PORT_ASSIGNMENT_LABEL) = (128, 141).
Proof. repeat split; reflexivity. Qed.
Print Assumptions c10_consts.

(* ConnectedDescriptor::Receive(buffer, size): for every script of read() results (n bytes | EAGAIN |
   EINTR | EOF | error) and every buffer of `size` bytes, no byte is stored outside [0, size) (the
   model's ROob outcome), data_read is the sum of the successful reads, the buffer prefix is their
   concatenation in order, the rest of the buffer is untouched, and exactly those bytes were
   consumed from the stream. *)
Theorem c10_receive : forall script src buf,
  len buf < 2^32 ->
  exists ret n out rest,
    receive_call script src buf = RDone ret n out rest /\
    (ret = 0%Z \/ ret = (-1)%Z) /\
    n = len (concat (kernel_blocks script src (len buf))) /\ n <= len buf /\
    out = concat (kernel_blocks script src (len buf)) ++ drop n buf /\ len out = len buf /\
    src = concat (kernel_blocks script src (len buf)) ++ rest.
Proof. intros script src buf H. exact (receive_spec script src buf H). Qed.
Print Assumptions c10_receive.

(* The code before fix 01 (cursor advanced by the cumulative count): three reads of two bytes into a
   six byte buffer store outside it; an interrupted first read reports 2^32-1 bytes. *)
Theorem c10_receive_prefix_refuted :
  receive_old [RBytes 2; RBytes 2; RBytes 2] [1; 2; 3; 4; 5; 6] 6 0 0 [0; 0; 0; 0; 0; 0] = ROob /\
  receive_old [RIntr] [1] 1 0 0 [0] = RDone 0 4294967295 [0] [1].
Proof. split; vm_compute; reflexivity. Qed.
Print Assumptions c10_receive_prefix_refuted.

(* Enttec USB Pro: for every byte stream and EVERY partition of it into chunks, the widget delivers
   exactly the messages of the reference framer on the whole stream (so one-byte chunks and a single
   chunk deliver the same), without a store outside m_recv_buffer (Oob) and without the read loop
   spinning (OutOfFuel). *)
Theorem c10_usbpro_chunk_free : forall (stream : list N) (chunks : list (list N)),
  concat chunks = stream ->
  exists s, feed u_recv u_init chunks = Done s (ref_usb stream).
Proof. intros stream chunks H. rewrite <- H. exact (usb_chunk_free chunks). Qed.
Print Assumptions c10_usbpro_chunk_free.

(* Length fields larger than the buffer never cause an out-of-range store: in every reachable state
   that is receiving a body, the bytes stored so far are fewer than the announced length, which is at
   most 600 = sizeof(m_recv_buffer); so each Receive(buf + received, length - received) stays inside. *)
Theorem c10_usbpro_bounds : forall chunks s out,
  feed u_recv u_init chunks = Done s out ->
  u_st s = U_BODY -> len (u_body s) < u_plen s <= 600 /\ USB_BUF = 600.
Proof.
  intros chunks s out H Hb. split; [|reflexivity].
  exact (usb_reachable_bounds chunks s out H Hb).
Qed.
Print Assumptions c10_usbpro_bounds.

(* Robe: the same statement for BaseRobeWidget (header checksum and data checksum included): every
   partition of every stream delivers exactly the reference framer's messages, no store outside
   m_recv_buffer, no spinning. *)
Theorem c10_robe_chunk_free : forall (stream : list N) (chunks : list (list N)),
  concat chunks = stream ->
  exists s, feed r_recv r_init chunks = Done s (ref_robe stream).
Proof. intros stream chunks H. rewrite <- H. exact (robe_chunk_free chunks). Qed.
Print Assumptions c10_robe_chunk_free.

Theorem c10_robe_bounds : forall chunks s out,
  feed r_recv r_init chunks = Done s out ->
  r_st s = R_BODY -> len (r_body s) < r_size s <= 522 /\ ROBE_BUF = 522.
Proof.
  intros chunks s out H Hb. split; [|reflexivity].
  exact (robe_reachable_bounds chunks s out H Hb).
Qed.
Print Assumptions c10_robe_bounds.

(* Where the Robe framer resumes after a header it rejects (reference framer = what every partition
   delivers, by c10_robe_chunk_free): an announced length over 522 drops exactly the four header
   bytes — the next byte is rescanned, not swallowed as a header checksum; a legal length with a
   wrong header checksum drops five bytes; any byte other than the start byte is skipped singly. *)
Theorem c10_robe_resync : forall ty lo hi h b rest,
  (522 < hi * 256 + lo -> ref_robe (165 :: ty :: lo :: hi :: rest) = ref_robe rest) /\
  (hi * 256 + lo <= 522 -> (165 + ty + lo + hi) mod 256 <> h ->
     ref_robe (165 :: ty :: lo :: hi :: h :: rest) = ref_robe rest) /\
  (b <> 165 -> ref_robe (b :: rest) = ref_robe rest).
Proof.
  intros ty lo hi h b rest. split; [|split].
  - exact (robe_resync_oversize ty lo hi rest).
  - exact (robe_resync_bad_hcrc ty lo hi h rest).
  - exact (robe_resync_noise b rest).
Qed.
Print Assumptions c10_robe_resync.

(* The real RobeWidget on top of the framer: RobeWidgetImpl::HandleMessage switches on the label
   (table ROBE_DISPATCH, regenerated from the source); with no RDM request pending only
   HandleDmxFrame is observable.  Every partition yields the DMX deliveries of the reference framer's
   frames, and a frame whose label has another handler or none (unknown label) is dropped without
   affecting any other delivery. *)
Theorem c10_robe_dispatch : forall (stream : list N) (chunks : list (list N)),
  concat chunks = stream ->
  (exists s out, feed r_recv r_init chunks = Done s out /\
                 robe_dispatch [] out = robe_dispatch [] (ref_robe stream)) /\
  (forall l pl a buf b, robe_handler l <> 3 ->
     robe_dispatch buf (a ++ (l, pl) :: b) = robe_dispatch buf (a ++ b)).
Proof.
  intros stream chunks H. rewrite <- H. split; [exact (robe_dispatch_chunk_free chunks)|].
  intros l pl a buf b Hl. exact (robe_dispatch_skip l pl Hl a buf b).
Qed.
Print Assumptions c10_robe_dispatch.

(* c10_receive quantifies over every script of read() results, EINTR and EAGAIN anywhere included
   (kernel_blocks skips an EINTR and stops at an EAGAIN).  Spelled out: an EINTR at any position
   changes nothing — same return value, count, buffer, bytes consumed as without it (the read is
   retried, neither cursor nor count move); an EAGAIN ends the call with exactly what the successful
   reads before it stored, whatever would have come after. *)
Theorem c10_receive_interrupted : forall a b src buf,
  receive_call (a ++ RIntr :: b) src buf = receive_call (a ++ b) src buf /\
  receive_call (a ++ RAgain :: b) src buf = receive_call a src buf.
Proof.
  intros a b src buf. unfold receive_call. split.
  - exact (receive_eintr_anywhere a b src (len buf) 0 0 buf).
  - exact (receive_eagain_stops a b src (len buf) 0 0 buf).
Qed.
Print Assumptions c10_receive_interrupted.

(* The Enttec USB Pro widget on top of the framer: EnttecUsbProWidgetImpl::HandleMessage/HandleLabel
   route every delivered frame by its label to (port, handler) — table ENTTEC_DISPATCH, threshold and
   port-assignment label regenerated from the source — on a single- or dual-port widget.  Under every
   partition the routed frames are those of the reference framer's frames, in order, and a frame
   whose label is in neither label set is dropped without affecting any other.  (Theorem over the
   framer model and the regenerated table; the Enttec widget itself is not in the correspondence.) *)
Theorem c10_enttec_dispatch : forall (dual : bool) (stream : list N) (chunks : list (list N)),
  concat chunks = stream ->
  (exists s out, feed u_recv u_init chunks = Done s out /\
                 enttec_dispatch dual out = enttec_dispatch dual (ref_usb stream)) /\
  (forall a m b, snd (enttec_route dual (fst m)) = 0 ->
     enttec_dispatch dual (a ++ m :: b) = enttec_dispatch dual (a ++ b)).
Proof.
  intros dual stream chunks H. rewrite <- H. split; [exact (enttec_dispatch_chunk_free dual chunks)|].
  intros a m b Hm. exact (enttec_dispatch_skip dual a m b Hm).
Qed.
Print Assumptions c10_enttec_dispatch.

(* Open Pixel Control (SocketReady after fix 02): for every stream of bytes (< 256) and every
   partition, the channel callbacks receive exactly the frames of the whole stream, in order — so
   back-to-back frames in one read are all delivered and a read ending inside the next frame loses
   nothing; no store or copy outside the (growing) receive buffer. *)
Theorem c10_opc_chunk_free : forall (reg : N -> bool) (stream : list N) (chunks : list (list N)),
  concat chunks = stream -> bytes_ok stream = true ->
  exists f, feed (f_recv reg) f_init chunks = Done f (ref_opc reg stream).
Proof. intros reg stream chunks H Hb. rewrite <- H in *. exact (opcf_chunk_free reg chunks Hb). Qed.
Print Assumptions c10_opc_chunk_free.

(* `reg ch` says whether a callback is registered for channel ch (any set of channels, channel 0
   included).  The configuration of the receiving side changes exactly this: the frames of
   unregistered channels disappear from the delivered sequence; the frames read alongside them — later
   complete frames, the head of a straddling frame — are unaffected, under every partition (by the
   theorem above the machine delivers ref_opc reg, which is the all-channels sequence filtered). *)
Theorem c10_opc_unregistered_skipped : forall (reg : N -> bool) (stream : list N),
  bytes_ok stream = true ->
  ref_opc reg stream = filter (fun m => reg (fst m / 256)) (ref_opc (fun _ => true) stream).
Proof. intros reg stream H. exact (ref_opc_filter reg stream H). Qed.
Print Assumptions c10_opc_unregistered_skipped.

(* f_recv (reversed buffer + offset + cached expected size; the function the correspondence runs) and
   the plain model o_recv (flat buffer, every branch of SocketReady/CheckSize spelled out) compute the
   same thing on every call: same deliveries, same unread bytes, same hazard, related states. *)
Theorem c10_opc_fast_refines : forall (reg : N -> bool) f av, f_inv f ->
  match f_recv reg f av with
  | Some (f1, r, o) => o_recv reg (o_abs f) av = Some (o_abs f1, r, o) /\ f_inv f1
  | None => o_recv reg (o_abs f) av = None
  end.
Proof. exact f_recv_sim. Qed.
Print Assumptions c10_opc_fast_refines.

(* In every reachable state the buffer has room for at least one more byte (so SocketReady always
   makes progress) and its capacity never exceeds the largest frame, 65535 + 4. *)
Theorem c10_opc_bounds : forall (reg : N -> bool) chunks f out,
  bytes_ok (concat chunks) = true ->
  feed (f_recv reg) f_init chunks = Done f out ->
  f_off f = len (f_rdata f) /\ f_off f < f_cap f /\ f_cap f <= 65539.
Proof. intros reg chunks f out Hb H. exact (opcf_reachable_bounds reg chunks f out Hb H). Qed.
Print Assumptions c10_opc_bounds.

(* ACN over TCP (IncomingStreamTransport with a consume-all inflator): for every byte stream and
   EVERY partition the PDUs handed to the inflator are exactly those of the reference framer on the
   whole stream — in particular the stream is invalidated (nothing more delivered) exactly where the
   reference says: wrong packet identifier, or a PDU length smaller than its own length field — with
   no store outside the allocated buffer and no runaway loop. *)
Theorem c10_acn_chunk_free : forall (stream : list N) (chunks : list (list N)),
  concat chunks = stream ->
  exists s, feed a_recv a_init chunks = Done s (ref_acn stream).
Proof. intros stream chunks H. rewrite <- H. exact (acn_chunk_free chunks). Qed.
Print Assumptions c10_acn_chunk_free.

(* A real RootInflator behind the transport (root_pdu = BaseInflator::InflatePDUBlock/InflatePDU with a
   4-byte vector and the 16-byte CID header on the one PDU the transport passes): under every
   partition the child inflators receive exactly what the root layer makes of the reference framer's
   PDUs; a PDU whose vector has no registered child inflator, or that lacks the vector or header
   flag (nothing to inherit: the fields are reset for every block), is dropped and affects nothing
   else — it never invalidates the stream. *)
Theorem c10_acn_root_chunk_free : forall (reg : N -> bool) (stream : list N) (chunks : list (list N)),
  concat chunks = stream ->
  exists s out, feed a_recv a_init chunks = Done s out /\
                root_deliver reg out = root_deliver reg (ref_acn stream).
Proof. intros reg stream chunks H. rewrite <- H. exact (acn_root_chunk_free reg chunks). Qed.
Print Assumptions c10_acn_root_chunk_free.

Theorem c10_acn_root_skip : forall (reg : N -> bool) b0 rest a pdu b,
  (reg (be32 (drop (if lflag b0 then 3 else 2) (b0 :: rest))) = false -> root_pdu reg (b0 :: rest) = []) /\
  (vflag b0 && hflag b0 = false -> root_pdu reg (b0 :: rest) = []) /\
  (root_pdu reg (snd pdu) = [] -> root_deliver reg (a ++ pdu :: b) = root_deliver reg (a ++ b)).
Proof.
  intros reg b0 rest a pdu b. split; [|split].
  - exact (root_pdu_unregistered reg b0 rest).
  - exact (root_pdu_flags reg b0 rest).
  - exact (root_deliver_skip reg a pdu b).
Qed.
Print Assumptions c10_acn_root_skip.

(* Buffer growth: in every reachable state of a still valid stream the bytes held fit the
   allocation (<= 2 MB), the allocation ReadRequiredData makes before reading covers everything still
   outstanding (so no store is out of range: the model's None outcome is excluded by the theorem
   above), and at least one byte is outstanding (Receive() cannot spin). *)
Theorem c10_acn_bounds : forall chunks s out,
  feed a_recv a_init chunks = Done s out -> a_valid s = true ->
  a_len s <= a_cap s /\ a_cap s <= 2097152 /\ a_len s + a_out s <= a_cap1 s /\ 0 < a_out s.
Proof. intros chunks s out H Hv. exact (acn_reachable_bounds chunks s out H Hv). Qed.
Print Assumptions c10_acn_bounds.

(* RPC channel (RpcChannel::DescriptorReady with ReadHeader collecting the 4 header bytes across
   reads): for every verdict function `ok` of the message parser, every byte stream and EVERY
   partition, the frames handed to HandleNewMsg that parse (the delivered list) and whether the
   channel ends up closed are exactly what the reference framer says for the whole stream: empty
   frames are skipped, a wrong version, a size above 1 MB or an unparsable body closes the channel and
   nothing after it is delivered, every other frame is delivered whatever preceded it. *)
Theorem c10_rpc_chunk_free : forall (ok : list N -> bool) (stream : list N) (chunks : list (list N)),
  concat chunks = stream ->
  exists s out, feed (p_recv ok) p_init chunks = Done s out /\ (out, p_closed s) = ref_rpc ok stream.
Proof. intros ok stream chunks H. rewrite <- H. exact (rpc_chunk_free ok chunks). Qed.
Print Assumptions c10_rpc_chunk_free.

(* The OPC capacity window over a whole connection history (CheckSize made explicit): the buffer
   size never drops below the initial 516 nor exceeds 65535 + 4, is always ahead of the bytes held,
   and as soon as the 4-byte header of the frame being received is in the buffer it is at least
   expected_size + 4, so the whole frame will fit — whatever frames came before on the connection. *)
Theorem c10_opc_capacity : forall (reg : N -> bool) chunks f out,
  bytes_ok (concat chunks) = true ->
  feed (f_recv reg) f_init chunks = Done f out ->
  516 <= f_cap f /\ f_cap f <= 65539 /\ f_off f < f_cap f /\
  (4 <= f_off f -> o_expected (rev_append (f_rdata f) []) + 4 <= f_cap f).
Proof. intros reg chunks f out Hb H. exact (opcf_capacity reg chunks f out Hb H). Qed.
Print Assumptions c10_opc_capacity.

(* Read schedules.  `run_sched` executes an arbitrary interleaving of `Arrive bytes` (data reaches
   the kernel buffer) and `Invoke` (the poller runs the on-data callback; it does so only while
   unread data exists).  For every interleaving: no hazard; if it ends with the buffer drained the
   deliveries are exactly the reference framer's on everything that arrived; and finitely many
   further invocations always drain it (the callback is re-invoked while data remains).  Feeding
   chunk k and draining, as `feed` and the harness do, is therefore no restriction. *)
Theorem c10_schedule_usbpro : forall es,
  (exists s pend out, run_sched ustate u_recv (u_init, [], []) es = Some (s, pend, out) /\
     (pend = [] -> out = ref_usb (arrived es))) /\
  (exists k s out, run_sched ustate u_recv (u_init, [], []) (es ++ repeat Invoke k) = Some (s, [], out) /\
     out = ref_usb (arrived es)).
Proof. exact usb_sched. Qed.
Print Assumptions c10_schedule_usbpro.

Theorem c10_schedule_robe : forall es,
  (exists s pend out, run_sched rstate r_recv (r_init, [], []) es = Some (s, pend, out) /\
     (pend = [] -> out = ref_robe (arrived es))) /\
  (exists k s out, run_sched rstate r_recv (r_init, [], []) (es ++ repeat Invoke k) = Some (s, [], out) /\
     out = ref_robe (arrived es)).
Proof. exact robe_sched. Qed.
Print Assumptions c10_schedule_robe.

Theorem c10_schedule_opc : forall (reg : N -> bool) es, bytes_ok (arrived es) = true ->
  (exists f pend out, run_sched fstate (f_recv reg) (f_init, [], []) es = Some (f, pend, out) /\
     (pend = [] -> out = ref_opc reg (arrived es))) /\
  (exists k f out, run_sched fstate (f_recv reg) (f_init, [], []) (es ++ repeat Invoke k) = Some (f, [], out) /\
     out = ref_opc reg (arrived es)).
Proof. exact opcf_sched. Qed.
Print Assumptions c10_schedule_opc.

Theorem c10_schedule_acn : forall es,
  (exists s pend out, run_sched astate a_recv (a_init, [], []) es = Some (s, pend, out) /\
     (pend = [] -> out = ref_acn (arrived es))) /\
  (exists k s out, run_sched astate a_recv (a_init, [], []) (es ++ repeat Invoke k) = Some (s, [], out) /\
     out = ref_acn (arrived es)).
Proof.
  intros es.
  assert (forall s out, feed a_recv a_init [arrived es] = Done s out -> out = ref_acn (arrived es)) as K.
  { intros s out H. destruct (acn_chunk_free [arrived es]) as (s' & E). rewrite E in H.
    cbn [concat] in H. rewrite app_nil_r in H. inversion H. reflexivity. }
  destruct (acn_sched es) as [(s & pend & out & R & D) (k & s2 & out2 & R2 & D2)]. split.
  - exists s, pend, out. split; [exact R|]. intros Hp. exact (K s out (D Hp)).
  - exists k, s2, out2. split; [exact R2|]. exact (K s2 out2 D2).
Qed.
Print Assumptions c10_schedule_acn.

Theorem c10_schedule_rpc : forall (ok : list N -> bool) es,
  (exists s pend out, run_sched pstate (p_recv ok) (p_init, [], []) es = Some (s, pend, out) /\
     (pend = [] -> (out, p_closed s) = ref_rpc ok (arrived es))) /\
  (exists k s out, run_sched pstate (p_recv ok) (p_init, [], []) (es ++ repeat Invoke k) = Some (s, [], out) /\
     (out, p_closed s) = ref_rpc ok (arrived es)).
Proof. exact rpc_sched. Qed.
Print Assumptions c10_schedule_rpc.

(* Several live instances of one framer (two USB Pro widgets, a widget per port, ...) fed interleaved
   partial reads: `inter` is the product machine — the schedule names the instance that receives the
   next chunk of ITS stream.  Whatever the interleaving, every instance ends exactly as if it had
   been fed its own chunks alone (for any framer model), so each fresh USB Pro / Robe widget delivers
   the reference framer's messages of its own stream.  The harness runs the real classes in one
   process under generated interleavings and compares each with its own single-instance run. *)
Theorem c10_instances_independent :
  forall (S : Type) (recv : S -> list N -> option (S * list N * list msg)) sched st st',
  inter S recv st sched = Some st' ->
  forall i s o, nth_error st i = Some (s, o) ->
  exists s1 o1, nth_error st' i = Some (s1, o ++ o1) /\ feed recv s (chunks_for i sched) = Done s1 o1.
Proof. exact inter_independent. Qed.
Print Assumptions c10_instances_independent.

Theorem c10_usbpro_robe_instances : forall n sched,
  (forall st', inter ustate u_recv (repeat (u_init, []) n) sched = Some st' ->
     forall i, (i < n)%nat -> exists s, nth_error st' i = Some (s, ref_usb (concat (chunks_for i sched)))) /\
  (forall st', inter rstate r_recv (repeat (r_init, []) n) sched = Some st' ->
     forall i, (i < n)%nat -> exists s, nth_error st' i = Some (s, ref_robe (concat (chunks_for i sched)))).
Proof.
  intros n sched. split; intros st' H i Hi.
  - exact (usb_instances n sched st' H i Hi).
  - exact (robe_instances n sched st' H i Hi).
Qed.
Print Assumptions c10_usbpro_robe_instances.

(* the hypotheses are satisfiable / the statements are not vacuous *)
Example c10_usbpro_example :
  ref_usb [0; 126; 6; 2; 0; 10; 20; 231; 126; 7; 0; 0; 231; 126; 8; 1; 0; 5; 0] = [(6, [10; 20]); (7, [])] /\
  feed u_recv u_init [[0; 126; 6]; [2; 0; 10]; [20; 231; 126; 7; 0; 0; 231; 126; 8; 1; 0; 5; 0]] =
    Done {| u_st := U_PRE; u_label := 8; u_lo := 1; u_hi := 0; u_body := [5] |} [(6, [10; 20]); (7, [])].
Proof. split; vm_compute; reflexivity. Qed.
Example c10_receive_example :
  receive_call [RBytes 1; RIntr; RBytes 5; RAgain] [1; 2; 3; 4; 5] [9; 9; 9; 9] = RDone 0 4 [1; 2; 3; 4] [5].
Proof. vm_compute; reflexivity. Qed.
Example c10_robe_example :
  feed r_recv r_init [[165; 7; 2]; [0; 174; 1; 2]; [95; 165; 8; 0; 0; 173; 90]] =
    Done {| r_st := R_PRE; r_type := 8; r_lo := 0; r_hi := 0; r_size := 0; r_crc := 90; r_body := [] |}
         [(7, [1; 2]); (8, [])].
Proof. vm_compute; reflexivity. Qed.
Example c10_opc_example :
  let reg := fun ch => negb (ch =? 9) in
  feed (f_recv reg) f_init [[1; 0; 0; 2; 9; 8; 9; 0; 0; 1; 4; 2; 0; 0]; [1; 7; 3]] =
    Done {| f_rdata := [3]; f_off := 1; f_exp := None; f_cap := 516 |} [(256, [9; 8]); (512, [7])] /\
  ref_opc reg [1; 0; 0; 2; 9; 8; 9; 0; 0; 1; 4; 2; 0; 0; 1; 7; 3] = [(256, [9; 8]); (512, [7])].
Proof. split; vm_compute; reflexivity. Qed.
Example c10_acn_example :
  feed a_recv a_init [[65; 83; 67; 45; 69; 49; 46]; [49; 55; 0; 0; 0; 0; 0; 0; 5; 0; 3]; [9; 0; 2; 65]] =
    Done (fst (run1 a_step a_init [65; 83; 67; 45; 69; 49; 46; 49; 55; 0; 0; 0; 0; 0; 0; 5; 0; 3; 9; 0; 2; 65]))
         [(0, [0; 3; 9]); (0, [0; 2])] /\
  ref_acn [65; 83; 67; 45; 69; 49; 46; 49; 55; 0; 0; 0; 0; 0; 0; 5; 0; 3; 9; 0; 2; 65] = [(0, [0; 3; 9]); (0, [0; 2])].
Proof. split; vm_compute; reflexivity. Qed.
Example c10_schedule_example :
  run_sched ustate u_recv (u_init, [], []) [Arrive [126; 6]; Invoke; Arrive [1; 0; 9]; Arrive [231; 126]; Invoke; Invoke] =
    Some ({| u_st := U_LABEL; u_label := 6; u_lo := 1; u_hi := 0; u_body := [9] |}, [], [(6, [9])]).
Proof. vm_compute; reflexivity. Qed.
Example c10_rpc_example :
  let ok := fun b => negb (match b with [255] => true | _ => false end) in
  ref_rpc ok [0; 0; 0; 16; 2; 0; 0; 16; 8; 2; 1; 0; 0; 16; 255; 2; 0; 0; 16; 8; 1] = ([(2, [8; 2])], true) /\
  feed (p_recv ok) p_init [[0; 0; 0]; [16; 2; 0; 0; 16; 8]; [2; 1; 0; 0; 16; 255; 2; 0; 0; 16; 8; 1]] =
    Done {| p_hdr := []; p_exp := 0; p_rbody := [255]; p_cur := 1; p_closed := true |} [(2, [8; 2])].
Proof. split; vm_compute; reflexivity. Qed.
(* a 1024-byte frame early on the connection moves the window to 1028 and it stays there: the
   600-byte frame that follows is received into the grown buffer, and its header read with a frame
   still incomplete does not shrink it *)
Example c10_opc_capacity_example :
  let big := [0; 0; 4; 0] ++ repeat 7 1024 in
  let nxt := [1; 0; 2; 88] ++ repeat 9 100 in
  match feed (f_recv (fun _ => true)) f_init [big ++ nxt] with
  | Done f out => (f_cap f, f_off f, length out, f_exp f) = (1028, 104, 1%nat, Some 600)
  | _ => False
  end.
Proof. vm_compute. reflexivity. Qed.
Example c10_robe_dispatch_example :
  robe_dispatch [] [(5, [1; 2; 3]); (17, [9]); (200, [4]); (5, []); (5, [8])] =
    [(5, [1; 2; 3]); (5, [1; 2; 3]); (5, [8])].
Proof. vm_compute. reflexivity. Qed.
Example c10_acn_root_example :
  root_deliver (fun v => v =? 4)
    [(0, [96; 23; 0; 0; 0; 4] ++ repeat 1 16 ++ [42]); (0, [96; 22; 0; 0; 0; 5] ++ repeat 1 16);
     (0, [32; 22; 0; 0; 0; 4] ++ repeat 1 16)] = [(4, repeat 1 16 ++ [42])].
Proof. vm_compute. reflexivity. Qed.
Example c10_instances_example :
  inter ustate u_recv [(u_init, []); (u_init, [])]
    [(0%nat, [126; 6; 2; 0]); (1%nat, [126; 5; 4; 0; 9; 8; 7; 6; 231]); (0%nat, [1; 2; 231])] =
  Some [({| u_st := U_PRE; u_label := 6; u_lo := 2; u_hi := 0; u_body := [1; 2] |}, [(6, [1; 2])]);
        ({| u_st := U_PRE; u_label := 5; u_lo := 4; u_hi := 0; u_body := [9; 8; 7; 6] |}, [(5, [9; 8; 7; 6])])].
Proof. vm_compute. reflexivity. Qed.
Example c10_receive_interrupted_example :
  receive_call [RIntr; RBytes 2; RIntr; RIntr; RBytes 1; RAgain; RBytes 9] [1; 2; 3; 4; 5] [9; 9; 9; 9] =
    RDone 0 3 [1; 2; 3; 9] [4; 5] /\
  receive_call [RBytes 2; RBytes 1] [1; 2; 3; 4; 5] [9; 9; 9; 9] = RDone 0 3 [1; 2; 3; 9] [4; 5].
Proof. split; vm_compute; reflexivity. Qed.
Example c10_enttec_dispatch_example :
  enttec_dispatch true [(5, [1]); (156, [2]); (200, [3]); (141, [1; 1]); (77, [])] =
    [((1, 3), (5, [1])); ((2, 3), (156, [2])); ((0, 5), (141, [1; 1]))] /\
  enttec_dispatch false [(156, [2]); (9, [7])] = [((1, 4), (9, [7]))].
Proof. split; vm_compute; reflexivity. Qed.
