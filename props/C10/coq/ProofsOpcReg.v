(* C10 — OPC: what the registered-channel set changes: exactly the frames of unregistered channels
   disappear from the delivered sequence, nothing else. *)
From OlaBase Require Import Bytes.
From C10 Require Import Gen Model Lemmas.
Local Open Scope N_scope.

Lemma ref_opc_f_filter : forall n s reg, bytes_ok s = true ->
  ref_opc_f reg n s = filter (fun m => reg (fst m / 256)) (ref_opc_f (fun _ => true) n s).
Proof.
  induction n as [|n IH]; intros s reg Hb; [reflexivity|]. cbn [ref_opc_f].
  destruct s as [|ch [|cmd [|hi [|lo r]]]]; try reflexivity.
  destruct (len r <? hi * 256 + lo); [reflexivity|].
  cbn [app filter fst].
  assert (bytes_ok r = true /\ cmd < 256) as [Hbr Hc].
  { cbn [bytes_ok forallb] in Hb. fold (bytes_ok r) in Hb. unfold byte_ok in Hb.
    repeat (apply andb_prop in Hb; destruct Hb as [? Hb]). split; [exact Hb|lia]. }
  assert ((ch * 256 + cmd) / 256 = ch) as ->.
  { rewrite N.div_add_l by lia. rewrite N.div_small by lia. lia. }
  rewrite (IH (drop (hi * 256 + lo) r) reg) by apply (bytes_ok_take_drop _ r Hbr).
  destruct (reg ch); reflexivity.
Qed.

Lemma ref_opc_filter reg s : bytes_ok s = true ->
  ref_opc reg s = filter (fun m => reg (fst m / 256)) (ref_opc (fun _ => true) s).
Proof. intros H. unfold ref_opc. apply ref_opc_f_filter. exact H. Qed.
