(* C10 — Enttec USB Pro framer: byte-wise automaton, simulation by ReceiveMessage, reference framer. *)
From OlaBase Require Import Bytes.
From C10 Require Import Gen Model Lemmas.
Local Open Scope N_scope.

Definition mk (t : ust) (l lo hi : N) (b : list N) : ustate :=
  {| u_st := t; u_label := l; u_lo := lo; u_hi := hi; u_body := b |}.

Definition u_step (s : ustate) (b : N) : ustate * list msg :=
  match u_st s with
  | U_PRE => if b =? USB_SOM then (u_set_st s U_LABEL, []) else (s, [])
  | U_LABEL => (mk U_LO b (u_lo s) (u_hi s) (u_body s), [])
  | U_LO => (mk U_HI (u_label s) b (u_hi s) (u_body s), [])
  | U_HI =>
    let s1 := mk U_HI (u_label s) (u_lo s) b (u_body s) in
    if u_plen s1 =? 0 then (u_set_st s1 U_EOM, [])
    else if USB_MAX <? u_plen s1 then (u_set_st s1 U_PRE, [])
    else (mk U_BODY (u_label s) (u_lo s) b [], [])
  | U_BODY =>
    let s1 := mk U_BODY (u_label s) (u_lo s) (u_hi s) (u_body s ++ [b]) in
    if len (u_body s1) =? u_plen s1 then (u_set_st s1 U_EOM, []) else (s1, [])
  | U_EOM =>
    (u_set_st s U_PRE, if b =? USB_EOM then [(u_label s, take (u_plen s) (u_body s))] else [])
  end.

(* reachable states: while a body is being received it is shorter than the announced length,
   which is within the buffer *)
Definition u_inv (s : ustate) : Prop :=
  u_st s = U_BODY -> len (u_body s) < u_plen s /\ u_plen s <= USB_MAX.

Lemma u_inv_init : u_inv u_init.
Proof. unfold u_inv, u_init; cbn. discriminate. Qed.

Lemma u_inv_step s b : u_inv s -> u_inv (fst (u_step s b)).
Proof.
  unfold u_inv, u_step. destruct s as [t l lo hi bd]; cbn [u_st u_label u_lo u_hi u_body].
  intros H. destruct t; cbn [u_st].
  - destruct (b =? USB_SOM); cbn; discriminate.
  - cbn; discriminate.
  - cbn; discriminate.
  - unfold u_plen; cbn [mk u_hi u_lo].
    destruct (b * 256 + lo =? 0) eqn:E0; [cbn; discriminate|].
    destruct (USB_MAX <? b * 256 + lo) eqn:E1; [cbn; discriminate|].
    cbn [fst mk u_st u_body u_hi u_lo]. intros _. change (len (@nil N)) with 0. lia.
  - specialize (H eq_refl). unfold u_plen in *; cbn [mk u_hi u_lo u_body] in *.
    destruct (len (bd ++ [b]) =? hi * 256 + lo) eqn:E; [cbn; discriminate|].
    cbn [fst mk u_st u_body u_hi u_lo]. intros _.
    rewrite len_app, len_cons, len_nil in *. lia.
  - cbn; discriminate.
Qed.

Notation urun := (run1 u_step).

Definition sim (f : ustate -> list N -> ures) (s : ustate) (av : list N) : Prop :=
  exists used rest s1 o1, av = used ++ rest /\ (av <> [] -> used <> []) /\
    urun s used = (s1, o1) /\ f s av = Some (s1, rest, o1).

Lemma set_st_same s t : u_st s = t -> u_set_st s t = s.
Proof. destruct s; cbn. intros; subst; reflexivity. Qed.

(* prepend one header byte whose step delivers nothing *)
Lemma sim_cons f g s b r s1 :
  u_step s b = (s1, []) -> sim g s1 r -> f s (b :: r) = g s1 r -> sim f s (b :: r).
Proof.
  intros Hs (used & rest & s2 & o2 & E & _ & R & G) Hf.
  exists (b :: used), rest, s2, o2. repeat split.
  - cbn [app]. f_equal. exact E.
  - discriminate.
  - cbn [run1]. rewrite Hs, R. reflexivity.
  - rewrite Hf. exact G.
Qed.

Lemma sim_nil f s : f s [] = Some (s, [], []) -> sim f s [].
Proof.
  intros H. exists [], [], s, []. repeat split; auto.
Qed.

Lemma sim_eom s av : u_st s = U_EOM -> sim u_eom s av.
Proof.
  intros Hst. destruct av as [|e r].
  - apply sim_nil. cbn. rewrite set_st_same by exact Hst. reflexivity.
  - exists [e], r, (u_set_st s U_PRE),
      (if e =? USB_EOM then [(u_label s, take (u_plen s) (u_body s))] else []).
    repeat split; try discriminate.
    cbn [run1]. unfold u_step. rewrite Hst. rewrite app_nil_r. reflexivity.
Qed.

Lemma run1_body : forall got s, u_st s = U_BODY -> len (u_body s) + len got < u_plen s ->
  urun s got = (mk U_BODY (u_label s) (u_lo s) (u_hi s) (u_body s ++ got), []).
Proof.
  induction got as [|a got IH]; intros s Hst Hl.
  - cbn [run1]. rewrite app_nil_r. destruct s; cbn in *; subst; reflexivity.
  - cbn [run1]. unfold u_step at 1. rewrite Hst.
    rewrite len_cons in Hl.
    unfold u_plen at 1; cbn [mk u_body u_hi u_lo]. fold (u_plen s).
    rewrite len_app, len_cons, len_nil.
    destruct (len (u_body s) + (1 + 0) =? u_plen s) eqn:E; [lia|].
    rewrite IH.
    + cbn [mk u_label u_lo u_hi u_body]. rewrite <- app_assoc. reflexivity.
    + reflexivity.
    + unfold u_plen in *; cbn [mk u_body u_hi u_lo]. rewrite len_app, len_cons, len_nil. lia.
Qed.

Lemma run1_body_full : forall got s, u_st s = U_BODY -> got <> [] ->
  len (u_body s) + len got = u_plen s ->
  urun s got = (mk U_EOM (u_label s) (u_lo s) (u_hi s) (u_body s ++ got), []).
Proof.
  induction got as [|a got IH]; intros s Hst Hne Hl; [congruence|].
  cbn [run1]. unfold u_step at 1. rewrite Hst.
  rewrite len_cons in Hl.
  unfold u_plen at 1; cbn [mk u_body u_hi u_lo]. fold (u_plen s).
  rewrite len_app, len_cons, len_nil.
  destruct got as [|a2 got].
  - rewrite len_nil in Hl.
    destruct (len (u_body s) + (1 + 0) =? u_plen s) eqn:E; [|lia].
    cbn [run1]. reflexivity.
  - destruct (len (u_body s) + (1 + 0) =? u_plen s) eqn:E; [rewrite len_cons in Hl; lia|].
    rewrite IH.
    + cbn [mk u_label u_lo u_hi u_body]. rewrite <- app_assoc. reflexivity.
    + reflexivity.
    + discriminate.
    + unfold u_plen in *; cbn [mk u_body u_hi u_lo]. rewrite len_app, len_cons, len_nil. lia.
Qed.

Lemma sim_body s av : u_st s = U_BODY -> u_inv s -> sim u_bodyst s av.
Proof.
  intros Hst Hinv. destruct (Hinv Hst) as [H1 H2]. change USB_MAX with 600 in H2.
  set (want := u_plen s - len (u_body s)).
  assert (usub32 (u_plen s) (len (u_body s)) = want) as Hus by (apply usub32_small; lia).
  assert (0 < want) as Hw by (unfold want; lia).
  pose proof (len_take want av) as Lt.
  destruct (len (take want av) =? 0) eqn:E0.
  - (* nothing available *)
    assert (av = []) as -> by (apply len_zero_nil; lia).
    exists [], [], s, []. repeat split; auto.
    unfold u_bodyst. rewrite Hus, E0. unfold drop. rewrite skipn_nil, set_st_same by exact Hst. reflexivity.
  - assert (USB_MAX <? len (u_body s) + len (take want av) = false) as E1
      by (change USB_MAX with 600; lia).
    destruct (len (u_body s) + len (take want av) =? u_plen s) eqn:E2.
    + (* body complete: on to the end byte *)
      set (s1 := mk U_BODY (u_label s) (u_lo s) (u_hi s) (u_body s ++ take want av)).
      assert (u_st (u_set_st s1 U_EOM) = U_EOM) as Hst2 by reflexivity.
      destruct (sim_eom _ (drop want av) Hst2) as (used & rest & s2 & o2 & E & Hne & R & G).
      exists (take want av ++ used), rest, s2, o2. repeat split.
      * rewrite <- app_assoc, <- E. symmetry. apply take_drop.
      * intros _ Hc. apply app_eq_nil in Hc. destruct Hc as [Hc _]. rewrite Hc, len_nil in E0. lia.
      * rewrite run1_app. rewrite run1_body_full; [|exact Hst| |lia].
        -- change (mk U_EOM (u_label s) (u_lo s) (u_hi s) (u_body s ++ take want av))
             with (u_set_st s1 U_EOM). rewrite R. reflexivity.
        -- intros Hc. rewrite Hc, len_nil in E0. lia.
      * unfold u_bodyst. rewrite Hus, E0, E1.
        change (Build_ustate U_BODY (u_label s) (u_lo s) (u_hi s) (u_body s ++ take want av)) with s1.
        replace (len (u_body s1) =? u_plen s1) with true.
        -- exact G.
        -- symmetry. unfold s1, u_plen. cbn [mk u_body u_hi u_lo]. fold (u_plen s).
           rewrite len_app. exact E2.
    + set (s1 := mk U_BODY (u_label s) (u_lo s) (u_hi s) (u_body s ++ take want av)).
      exists (take want av), (drop want av), s1, [].
      repeat split.
      * symmetry. apply take_drop.
      * intros _ Hc. rewrite Hc, len_nil in E0. lia.
      * apply run1_body; [exact Hst|lia].
      * unfold u_bodyst. rewrite Hus, E0, E1.
        change (Build_ustate U_BODY (u_label s) (u_lo s) (u_hi s) (u_body s ++ take want av)) with s1.
        replace (len (u_body s1) =? u_plen s1) with false; [reflexivity|].
        symmetry. unfold s1, u_plen. cbn [mk u_body u_hi u_lo]. fold (u_plen s).
        rewrite len_app. exact E2.
Qed.

Lemma sim_hi s av : u_st s = U_HI -> sim u_hist s av.
Proof.
  intros Hst. destruct av as [|b r].
  - apply sim_nil. cbn. rewrite set_st_same by exact Hst. reflexivity.
  - set (s1 := mk U_HI (u_label s) (u_lo s) b (u_body s)).
    set (sb := mk U_BODY (u_label s) (u_lo s) b []).
    assert (u_hist s (b :: r) =
            if u_plen s1 =? 0 then Some (u_set_st s1 U_EOM, r, [])
            else if USB_MAX <? u_plen s1 then Some (u_set_st s1 U_PRE, r, [])
            else u_bodyst sb r) as Hh by reflexivity.
    assert (u_step s b =
            if u_plen s1 =? 0 then (u_set_st s1 U_EOM, [])
            else if USB_MAX <? u_plen s1 then (u_set_st s1 U_PRE, [])
            else (sb, [])) as Hs by (unfold u_step; rewrite Hst; reflexivity).
    destruct (u_plen s1 =? 0) eqn:E0.
    + exists [b], r, (u_set_st s1 U_EOM), []. repeat split; try discriminate; auto.
      cbn [run1]. rewrite Hs. reflexivity.
    + destruct (USB_MAX <? u_plen s1) eqn:E1.
      * exists [b], r, (u_set_st s1 U_PRE), []. repeat split; try discriminate; auto.
        cbn [run1]. rewrite Hs. reflexivity.
      * eapply sim_cons with (g := u_bodyst) (s1 := sb); [exact Hs| |exact Hh].
        apply sim_body; [reflexivity|].
        intros _. unfold u_plen in *. cbn [mk u_hi u_lo u_body s1 sb] in *.
        change (len (@nil N)) with 0. lia.
Qed.

Lemma sim_lo s av : u_st s = U_LO -> sim u_lost s av.
Proof.
  intros Hst. destruct av as [|b r].
  - apply sim_nil. cbn. rewrite set_st_same by exact Hst. reflexivity.
  - eapply sim_cons with (g := u_hist) (s1 := mk U_HI (u_label s) b (u_hi s) (u_body s)).
    + unfold u_step. rewrite Hst. reflexivity.
    + apply sim_hi. reflexivity.
    + reflexivity.
Qed.

Lemma sim_label s av : u_st s = U_LABEL -> sim u_labelst s av.
Proof.
  intros Hst. destruct av as [|b r].
  - apply sim_nil. cbn. rewrite set_st_same by exact Hst. reflexivity.
  - eapply sim_cons with (g := u_lost) (s1 := mk U_LO b (u_lo s) (u_hi s) (u_body s)).
    + unfold u_step. rewrite Hst. reflexivity.
    + apply sim_lo. reflexivity.
    + reflexivity.
Qed.

Lemma sim_pre av : forall s, u_st s = U_PRE -> sim u_pre s av.
Proof.
  induction av as [|b r IH]; intros s Hst.
  - apply sim_nil. cbn. rewrite set_st_same by exact Hst. reflexivity.
  - destruct (b =? USB_SOM) eqn:E.
    + eapply sim_cons with (g := u_labelst) (s1 := u_set_st s U_LABEL).
      * unfold u_step. rewrite Hst, E. reflexivity.
      * apply sim_label. reflexivity.
      * cbn [u_pre]. rewrite E. reflexivity.
    + eapply sim_cons with (g := u_pre) (s1 := s).
      * unfold u_step. rewrite Hst, E. reflexivity.
      * apply IH. exact Hst.
      * cbn [u_pre]. rewrite E. reflexivity.
Qed.

Lemma u_recv_sim s av : u_inv s -> av <> [] ->
  exists used rest s1 o1, av = used ++ rest /\ used <> [] /\
    urun s used = (s1, o1) /\ u_recv s av = Some (s1, rest, o1).
Proof.
  intros Hinv Hne.
  assert (exists used rest s1 o1, av = used ++ rest /\ (av <> [] -> used <> []) /\
            urun s used = (s1, o1) /\ u_recv s av = Some (s1, rest, o1))
    as (used & rest & s1 & o1 & E & Hn & R & G).
  { unfold u_recv. destruct (u_st s) eqn:Hst.
    - exact (sim_pre av s Hst).
    - exact (sim_label s av Hst).
    - exact (sim_lo s av Hst).
    - exact (sim_hi s av Hst).
    - exact (sim_body s av Hst Hinv).
    - exact (sim_eom s av Hst). }
  exists used, rest, s1, o1. repeat split; auto.
Qed.

(* every segmentation is processed without hazard and yields what the automaton yields on the whole *)
Lemma u_feed_run1 chunks :
  feed u_recv u_init chunks =
    Done (fst (urun u_init (concat chunks))) (snd (urun u_init (concat chunks))).
Proof.
  apply (feed_run1 ustate u_recv u_step u_inv u_inv_step u_recv_sim). apply u_inv_init.
Qed.

(* ------------------------------------------------------------------ automaton = reference framer *)
Lemma urun_ref : forall n bs s, (length bs <= n)%nat -> u_st s = U_PRE ->
  snd (urun s bs) = ref_usb_f n bs.
Proof.
  induction n as [|n IH]; intros bs s Hl Hst.
  - destruct bs; [reflexivity|cbn [length] in Hl; lia].
  - destruct bs as [|b r]; [reflexivity|]. cbn [length] in Hl.
    cbn [ref_usb_f run1]. unfold u_step at 1. rewrite Hst. change USB_SOM with 126.
    destruct (b =? 126) eqn:Eb; cbn [negb].
    2:{ specialize (IH r s ltac:(lia) Hst). destruct (urun s r). cbn [snd app] in *. exact IH. }
    destruct r as [|l r]; [reflexivity|].
    cbn [run1]. unfold u_step at 1. cbn [u_set_st u_st].
    destruct r as [|lo r]; [reflexivity|].
    cbn [run1]. unfold u_step at 1. cbn [mk u_st].
    destruct r as [|hi r2]; [reflexivity|].
    cbn [run1]. unfold u_step at 1. cbn [mk u_st u_label u_lo u_hi u_body u_set_st].
    unfold u_plen at 1 2. cbn [mk u_hi u_lo]. change USB_MAX with 600.
    cbn [length] in Hl.
    destruct (hi * 256 + lo =? 0) eqn:E0.
    + (* empty message: straight to the end byte *)
      apply N.eqb_eq in E0. rewrite E0. change (600 <? 0) with false. cbn iota.
      destruct r2 as [|e r3]; [reflexivity|].
      rewrite len_cons. destruct (1 + len r3 <? 0 + 1) eqn:E1; [lia|].
      cbn [run1]. unfold u_step at 1. cbn [u_set_st mk u_st u_label u_hi u_lo u_body].
      change (u_plen (u_set_st (mk U_HI l lo hi (u_body s)) U_EOM)) with (hi * 256 + lo).
      rewrite E0. rewrite !take_0.
      change (u_set_st (u_set_st (mk U_HI l lo hi (u_body s)) U_EOM) U_PRE)
        with (mk U_PRE l lo hi (u_body s)).
      change (rd (e :: r3) 0) with (Some e). change USB_EOM with 231.
      change (drop (0 + 1) (e :: r3)) with r3.
      specialize (IH r3 (mk U_PRE l lo hi (u_body s)) ltac:(cbn [length] in Hl; lia) eq_refl).
      destruct (urun (mk U_PRE l lo hi (u_body s)) r3) as [s9 o9]. cbn [snd app] in *.
      rewrite IH. reflexivity.
    + destruct (600 <? hi * 256 + lo) eqn:E1.
      * (* oversize: header dropped *)
        specialize (IH r2 (mk U_PRE l lo hi (u_body s)) ltac:(lia) eq_refl).
        change (u_set_st (mk U_HI l lo hi (u_body s)) U_PRE) with (mk U_PRE l lo hi (u_body s)).
        destruct (urun (mk U_PRE l lo hi (u_body s)) r2) as [s9 o9]. cbn [snd app] in *. exact IH.
      * set (pl := hi * 256 + lo) in *.
        set (sb := mk U_BODY l lo hi []).
        assert (u_plen sb = pl) as Hpl by reflexivity.
        destruct (len r2 <? pl + 1) eqn:E2.
        -- (* frame incomplete at the end of the stream *)
           destruct (len r2 =? pl) eqn:E3.
           ++ rewrite (run1_body_full r2 sb); [reflexivity|reflexivity| |].
              ** intros Hc. rewrite Hc, len_nil in E3. lia.
              ** rewrite Hpl. cbn [sb mk u_body]. rewrite len_nil. lia.
           ++ rewrite (run1_body r2 sb); [reflexivity|reflexivity|].
              rewrite Hpl. cbn [sb mk u_body]. rewrite len_nil. lia.
        -- destruct (split_at r2 pl) as (e & Re & Es & Lt); [lia|].
           rewrite Re. rewrite Es at 1. rewrite run1_app.
           rewrite (run1_body_full (take pl r2) sb); [|reflexivity| |].
           2:{ intros Hc. rewrite Hc, len_nil in Lt. lia. }
           2:{ rewrite Hpl, Lt. cbn [sb mk u_body]. rewrite len_nil. lia. }
           cbn [run1]. unfold u_step at 1. cbn [mk u_st u_label u_lo u_hi u_body sb u_set_st app].
           unfold u_plen. cbn [u_hi u_lo]. fold pl. change USB_EOM with 231.
           change (u_hi (mk U_EOM l lo hi (take pl r2)) * 256 + u_lo (mk U_EOM l lo hi (take pl r2)))
             with pl.
           change (u_set_st (mk U_EOM l lo hi (take pl r2)) U_PRE) with (mk U_PRE l lo hi (take pl r2)).
           rewrite (take_all pl (take pl r2)) by (rewrite Lt; lia).
           specialize (IH (drop (pl + 1) r2) (mk U_PRE l lo hi (take pl r2))
                          ltac:(pose proof (length_drop_lt (pl + 1) r2); lia) eq_refl).
           destruct (urun (mk U_PRE l lo hi (take pl r2)) (drop (pl + 1) r2)) as [s9 o9].
           cbn [snd app] in *. rewrite IH. reflexivity.
Qed.

Lemma usb_chunk_free chunks :
  exists s, feed u_recv u_init chunks = Done s (ref_usb (concat chunks)).
Proof.
  rewrite u_feed_run1. eexists. f_equal.
  unfold ref_usb. apply urun_ref; [lia|reflexivity].
Qed.

(* the invariant that keeps every store inside m_recv_buffer, for every reachable state *)
Lemma usb_reachable_bounds chunks s out :
  feed u_recv u_init chunks = Done s out -> u_st s = U_BODY -> len (u_body s) < u_plen s <= USB_MAX.
Proof.
  rewrite u_feed_run1. intros H. inversion H; subst.
  apply (inv_run1 ustate u_step u_inv u_inv_step). apply u_inv_init.
Qed.
