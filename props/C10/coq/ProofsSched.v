(* C10 — the schedule theorems instantiated for the byte-wise machines. *)
From OlaBase Require Import Bytes.
From C10 Require Import Gen Model Lemmas ProofsUsb ProofsRobe ProofsAcn Schedule.
Local Open Scope N_scope.

Lemma usb_sched es :
  (exists s pend out, run_sched ustate u_recv (u_init, [], []) es = Some (s, pend, out) /\
     (pend = [] -> out = ref_usb (arrived es))) /\
  (exists k s out, run_sched ustate u_recv (u_init, [], []) (es ++ repeat Invoke k) = Some (s, [], out) /\
     out = ref_usb (arrived es)).
Proof.
  assert (forall bs, snd (run1 u_step u_init bs) = ref_usb bs) as Href
    by (intros bs; unfold ref_usb; apply urun_ref; [lia|reflexivity]).
  split.
  - destruct (sched_drained ustate u_recv u_step u_inv u_inv_step u_recv_sim u_init es u_inv_init)
      as (s & pend & out & R & D).
    exists s, pend, out. split; [exact R|]. intros Hp. rewrite <- Href, <- (D Hp). reflexivity.
  - destruct (sched_eventually ustate u_recv u_step u_inv u_inv_step u_recv_sim u_init es u_inv_init)
      as (k & s & out & R & D).
    exists k, s, out. split; [exact R|]. rewrite <- Href, <- D. reflexivity.
Qed.

Lemma robe_sched es :
  (exists s pend out, run_sched rstate r_recv (r_init, [], []) es = Some (s, pend, out) /\
     (pend = [] -> out = ref_robe (arrived es))) /\
  (exists k s out, run_sched rstate r_recv (r_init, [], []) (es ++ repeat Invoke k) = Some (s, [], out) /\
     out = ref_robe (arrived es)).
Proof.
  assert (forall bs, snd (run1 r_step r_init bs) = ref_robe bs) as Href
    by (intros bs; unfold ref_robe; apply rrun_ref; [lia|reflexivity]).
  split.
  - destruct (sched_drained rstate r_recv r_step r_inv r_inv_step r_recv_sim r_init es r_inv_init)
      as (s & pend & out & R & D).
    exists s, pend, out. split; [exact R|]. intros Hp. rewrite <- Href, <- (D Hp). reflexivity.
  - destruct (sched_eventually rstate r_recv r_step r_inv r_inv_step r_recv_sim r_init es r_inv_init)
      as (k & s & out & R & D).
    exists k, s, out. split; [exact R|]. rewrite <- Href, <- D. reflexivity.
Qed.

(* ACN: the deliveries of any drained schedule are those of feeding everything in one chunk *)
Lemma acn_sched es :
  (exists s pend out, run_sched astate a_recv (a_init, [], []) es = Some (s, pend, out) /\
     (pend = [] -> feed a_recv a_init [arrived es] = Done s out)) /\
  (exists k s out, run_sched astate a_recv (a_init, [], []) (es ++ repeat Invoke k) = Some (s, [], out) /\
     feed a_recv a_init [arrived es] = Done s out).
Proof.
  assert (forall bs s out, (s, out) = run1 a_step a_init bs -> feed a_recv a_init [bs] = Done s out) as Hf.
  { intros bs s out H. rewrite a_feed_run1. cbn [concat]. rewrite app_nil_r, <- H. reflexivity. }
  split.
  - destruct (sched_drained astate a_recv a_step a_inv a_inv_step a_recv_sim a_init es a_inv_init)
      as (s & pend & out & R & D).
    exists s, pend, out. split; [exact R|]. intros Hp. apply Hf, D, Hp.
  - destruct (sched_eventually astate a_recv a_step a_inv a_inv_step a_recv_sim a_init es a_inv_init)
      as (k & s & out & R & D).
    exists k, s, out. split; [exact R|]. apply Hf, D.
Qed.

Lemma concat_singletons (l : list N) : concat (map (fun b => [b]) l) = l.
Proof. induction l as [|x l IH]; cbn; [reflexivity|rewrite IH; reflexivity]. Qed.
