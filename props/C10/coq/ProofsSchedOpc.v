(* C10 — read schedules for the Open Pixel Control server (not a byte-wise machine: the statement is
   proved from the frame-splitting invariant). *)
From OlaBase Require Import Bytes.
From C10 Require Import Gen Model Lemmas ProofsOpc Schedule.
Local Open Scope N_scope.

Section WithReg.
  Variable reg : N -> bool.

Lemma o_sched_total : forall es s pend out M R, (o_inv reg) s ->
  bytes_ok (pend ++ arrived es) = true ->
  (Frames reg) (o_data s ++ pend ++ arrived es) M R ->
  exists s' pend' out' M', run_sched ostate (o_recv reg) (s, pend, out) es = Some (s', pend', out') /\
    (o_inv reg) s' /\ bytes_ok pend' = true /\ (Frames reg) (o_data s' ++ pend') M' R /\ out ++ M = out' ++ M'.
Proof.
  induction es as [|e es IH]; intros s pend out M R Hi Hb F; cbn [arrived] in *.
  - rewrite app_nil_r in *. exists s, pend, out, M.
    split; [reflexivity|]. split; [exact Hi|]. split; [exact Hb|]. split; [exact F|reflexivity].
  - destruct e as [bs|].
    + rewrite app_assoc in Hb. rewrite (app_assoc pend bs) in F.
      destruct (IH s (pend ++ bs) out M R Hi Hb F) as (s' & p' & o' & M' & Rn & H).
      exists s', p', o', M'. split; [exact Rn|exact H].
    + destruct pend as [|p pend'].
      * destruct (IH s [] out M R Hi Hb F) as (s' & p' & o' & M' & Rn & H).
        exists s', p', o', M'. split; [exact Rn|exact H].
      * set (pend := p :: pend') in *.
        set (room := o_cap s - len (o_data s)).
        rewrite bytes_ok_app in Hb. apply andb_prop in Hb. destruct Hb as [Hbp Hba].
        destruct ((Frames_total reg) _ (o_data s ++ take room pend) (le_n _)) as (m1 & r1 & F1).
        destruct ((o_recv_frames reg) s pend m1 r1 Hi ltac:(discriminate) Hbp F1) as (s1 & E & Hd & Hi1 & _).
        fold room in E.
        destruct ((Frames_total reg) _ (r1 ++ drop room pend ++ arrived es) (le_n _)) as (M2 & R2 & F2).
        pose proof ((Frames_app reg) _ _ _ F1 _ _ _ F2) as F12.
        rewrite <- app_assoc in F12. rewrite (app_assoc (take room pend)), take_drop in F12.
        destruct ((Frames_det reg) _ _ _ F _ _ F12) as [-> ->].
        rewrite <- Hd in F2.
        assert (bytes_ok (drop room pend ++ arrived es) = true) as Hb2.
        { rewrite bytes_ok_app, Hba. rewrite (proj2 (bytes_ok_take_drop room pend Hbp)). reflexivity. }
        destruct (IH s1 (drop room pend) (out ++ m1) M2 R2 Hi1 Hb2 F2)
          as (s' & p' & o' & M' & Rn & Hi' & Hb' & F' & Eo).
        exists s', p', o', M'. split; [|split; [exact Hi'|split; [exact Hb'|split; [exact F'|]]]].
        -- unfold run_sched in *. unfold pend. cbn [fold_left sched_step]. fold pend. rewrite E. exact Rn.
        -- rewrite app_assoc. exact Eo.
Qed.

Lemma o_invoke_drains : forall n s pend out, (o_inv reg) s -> bytes_ok pend = true -> (length pend <= n)%nat ->
  exists s' out', run_sched ostate (o_recv reg) (s, pend, out) (repeat Invoke n) = Some (s', [], out').
Proof.
  induction n as [|n IH]; intros s pend out Hi Hb Hl.
  - destruct pend; [|cbn [length] in Hl; lia]. exists s, out. reflexivity.
  - destruct pend as [|p pend'].
    + destruct (IH s [] out Hi Hb ltac:(cbn; lia)) as (s' & out' & R). exists s', out'. exact R.
    + set (pend := p :: pend') in *.
      set (room := o_cap s - len (o_data s)).
      destruct ((Frames_total reg) _ (o_data s ++ take room pend) (le_n _)) as (m1 & r1 & F1).
      destruct ((o_recv_frames reg) s pend m1 r1 Hi ltac:(discriminate) Hb F1) as (s1 & E & Hd & Hi1 & Hgne).
      fold room in E, Hgne.
      assert (length (drop room pend) <= n)%nat as Hl1.
      { assert (length pend = length (take room pend) + length (drop room pend))%nat as HL
          by (rewrite <- app_length, take_drop; reflexivity).
        assert (1 <= length (take room pend))%nat
          by (destruct (take room pend) eqn:Et; [congruence|cbn [length]; lia]).
        lia. }
      destruct (IH s1 (drop room pend) (out ++ m1) Hi1 (proj2 (bytes_ok_take_drop room pend Hb)) Hl1)
        as (s' & out' & R).
      exists s', out'. unfold run_sched in *. unfold pend. cbn [repeat fold_left sched_step].
      fold pend. rewrite E. exact R.
Qed.

Lemma opc_sched es : bytes_ok (arrived es) = true ->
  (exists s pend out, run_sched ostate (o_recv reg) (o_init, [], []) es = Some (s, pend, out) /\
     (pend = [] -> out = (ref_opc reg) (arrived es))) /\
  (exists k s out, run_sched ostate (o_recv reg) (o_init, [], []) (es ++ repeat Invoke k) = Some (s, [], out) /\
     out = (ref_opc reg) (arrived es)).
Proof.
  intros Hb.
  destruct ((Frames_total reg) _ (arrived es) (le_n _)) as (M & R & F).
  assert ((ref_opc reg) (arrived es) = M) as Href by (unfold ref_opc; apply ((Frames_ref reg) _ _ _ F); lia).
  destruct (o_sched_total es o_init [] [] M R (o_inv_init reg) Hb F)
    as (s' & p' & o' & M' & Rn & Hi' & Hb' & F' & Eo).
  cbn [app] in Eo.
  assert (p' = [] -> o' = M) as Hd.
  { intros ->. rewrite app_nil_r in F'. destruct ((o_nil reg) s' M' R Hi' F') as [-> _].
    rewrite app_nil_r in Eo. auto. }
  split.
  - exists s', p', o'. split; [exact Rn|]. intros Hp. rewrite Href. apply Hd, Hp.
  - destruct (o_invoke_drains (length p') s' p' o' Hi' Hb' (le_n _)) as (s2 & o2 & R2).
    exists (length p'), s2, o2.
    assert (run_sched ostate (o_recv reg) (o_init, [], []) (es ++ repeat Invoke (length p')) = Some (s2, [], o2))
      as Hrun by (unfold run_sched in *; rewrite fold_left_app, Rn; exact R2).
    split; [exact Hrun|].
    assert (arrived (es ++ repeat Invoke (length p')) = arrived es) as Ha.
    { clear. induction es as [|[bs|] es IH]; cbn [app arrived].
      - induction (length p') as [|m IHm]; [reflexivity|exact IHm].
      - rewrite IH. reflexivity.
      - exact IH. }
    assert (bytes_ok (arrived (es ++ repeat Invoke (length p'))) = true) as Hb2 by (rewrite Ha; exact Hb).
    rewrite <- Ha in F.
    destruct (o_sched_total _ o_init [] [] M R (o_inv_init reg) Hb2 F)
      as (s3 & p3 & o3 & M3 & Rn3 & Hi3 & _ & F3 & Eo3).
    rewrite Hrun in Rn3. inversion Rn3; subst s3 p3 o3.
    rewrite app_nil_r in F3. destruct ((o_nil reg) s2 M3 R Hi3 F3) as [-> _].
    cbn [app] in Eo3. rewrite app_nil_r in Eo3. rewrite Href. auto.
Qed.
End WithReg.
