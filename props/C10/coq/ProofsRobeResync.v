(* C10 — Robe: where the reference framer resumes after a header it rejects. *)
From OlaBase Require Import Bytes.
From C10 Require Import Gen Model Lemmas ProofsRobe.
Local Open Scope N_scope.

Lemma ref_robe_run s : ref_robe s = snd (run1 r_step r_init s).
Proof. unfold ref_robe. symmetry. apply rrun_ref; [lia|reflexivity]. Qed.

Lemma ref_robe_from_pre st rest : r_st st = R_PRE -> snd (run1 r_step st rest) = ref_robe rest.
Proof. intros H. unfold ref_robe. apply rrun_ref; [lia|exact H]. Qed.

Lemma ref_robe_prefix pre st rest : run1 r_step r_init pre = (st, []) -> r_st st = R_PRE ->
  ref_robe (pre ++ rest) = ref_robe rest.
Proof.
  intros H Hst. rewrite ref_robe_run, run1_app, H.
  pose proof (ref_robe_from_pre st rest Hst) as E.
  destruct (run1 r_step st rest) as [s2 o2]. cbn [snd app] in *. exact E.
Qed.

(* an announced length over 522: the four header bytes are dropped and scanning resumes at the very
   next byte (which is NOT taken as a header checksum) *)
Lemma robe_resync_oversize ty lo hi rest : 522 < hi * 256 + lo ->
  ref_robe (165 :: ty :: lo :: hi :: rest) = ref_robe rest.
Proof.
  intros H. change (165 :: ty :: lo :: hi :: rest) with ([165; ty; lo; hi] ++ rest).
  apply (ref_robe_prefix _ (mkr R_PRE ty lo hi (hi * 256 + lo) 0 [])); [|reflexivity].
  cbn [run1]. unfold r_step. cbn [r_st r_init r_set_st mkr r_type r_lo r_hi r_size r_crc r_body].
  change ROBE_SOM with 165. change ROBE_MAX with 522. cbn [N.eqb Pos.eqb].
  cbn [r_st r_init r_set_st mkr r_type r_lo r_hi r_size r_crc r_body].
  replace (522 <? hi * 256 + lo) with true by (symmetry; apply N.ltb_lt; exact H). reflexivity.
Qed.

(* a legal length with a wrong header checksum: five bytes are dropped *)
Lemma robe_resync_bad_hcrc ty lo hi h rest : hi * 256 + lo <= 522 ->
  (165 + ty + lo + hi) mod 256 <> h ->
  ref_robe (165 :: ty :: lo :: hi :: h :: rest) = ref_robe rest.
Proof.
  intros H Hh. change (165 :: ty :: lo :: hi :: h :: rest) with ([165; ty; lo; hi; h] ++ rest).
  apply (ref_robe_prefix _ (mkr R_PRE ty lo hi (hi * 256 + lo) ((165 + ty + lo + hi) mod 256) []));
    [|reflexivity].
  cbn [run1]. unfold r_step. cbn [r_st r_init r_set_st mkr r_type r_lo r_hi r_size r_crc r_body].
  change ROBE_SOM with 165. change ROBE_MAX with 522. cbn [N.eqb Pos.eqb].
  cbn [r_st r_init r_set_st mkr r_type r_lo r_hi r_size r_crc r_body].
  replace (522 <? hi * 256 + lo) with false by (symmetry; apply N.ltb_ge; exact H).
  cbn [r_st r_init r_set_st mkr r_type r_lo r_hi r_size r_crc r_body].
  unfold r_hsum. cbn [mkr r_type r_lo r_hi]. change ROBE_SOM with 165. unfold u8.
  replace ((165 + ty + lo + hi) mod 256 =? h) with false by (symmetry; apply N.eqb_neq; exact Hh).
  reflexivity.
Qed.

(* bytes before a start byte are skipped one at a time *)
Lemma robe_resync_noise b rest : b <> 165 -> ref_robe (b :: rest) = ref_robe rest.
Proof.
  intros H. change (b :: rest) with ([b] ++ rest).
  apply (ref_robe_prefix _ r_init); [|reflexivity].
  cbn [run1]. unfold r_step. cbn [r_st r_init]. change ROBE_SOM with 165.
  replace (b =? 165) with false by (symmetry; apply N.eqb_neq; exact H). reflexivity.
Qed.
