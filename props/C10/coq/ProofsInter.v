(* C10 — several live instances of a framer fed interleaved partial reads: each behaves as if alone.
   (Instances of the model share nothing; this is the statement the real classes are compared
   against — a function-local static or a recycled receive state breaks exactly it.) *)
From OlaBase Require Import Bytes.
From C10 Require Import Gen Model Lemmas ProofsUsb ProofsRobe.
Local Open Scope N_scope.

Section Inter.
  Variable S : Type.
  Variable recv : S -> list N -> option (S * list N * list msg).

  Definition upd {A} (l : list A) (i : nat) (x : A) : list A := firstn i l ++ x :: skipn (Datatypes.S i) l.

  (* the product machine: the schedule names the instance that receives the next chunk of its own
     stream; None = some instance hit a hazard *)
  Fixpoint inter (st : list (S * list msg)) (sched : list (nat * list N)) : option (list (S * list msg)) :=
    match sched with
    | [] => Some st
    | (i, c) :: r =>
      match nth_error st i with
      | None => inter st r
      | Some (s, o) =>
        match feed_chunk recv s c with
        | Done s1 o1 => inter (upd st i (s1, o ++ o1)) r
        | _ => None
        end
      end
    end.

  Definition chunks_for (i : nat) (sched : list (nat * list N)) : list (list N) :=
    map snd (filter (fun p => Nat.eqb (fst p) i) sched).

  Lemma nth_error_upd {A} : forall (l : list A) i j x, (i < length l)%nat ->
    nth_error (upd l i x) j = if Nat.eqb i j then Some x else nth_error l j.
  Proof.
    unfold upd. induction l as [|a l IH]; intros i j x Hl; cbn [length] in Hl; [lia|].
    destruct i as [|i]; destruct j as [|j]; cbn [firstn skipn app nth_error Nat.eqb]; try reflexivity.
    apply IH. lia.
  Qed.

  Lemma nth_error_upd_same {A} (l : list A) i x y : nth_error l i = Some y -> nth_error (upd l i x) i = Some x.
  Proof.
    intros H. assert (i < length l)%nat as Hl by (apply nth_error_Some; congruence).
    rewrite nth_error_upd by exact Hl. rewrite Nat.eqb_refl. reflexivity.
  Qed.

  Lemma nth_error_upd_other {A} (l : list A) i j x y : i <> j -> nth_error l i = Some y ->
    nth_error (upd l i x) j = nth_error l j.
  Proof.
    intros Hij H. assert (i < length l)%nat as Hl by (apply nth_error_Some; congruence).
    rewrite nth_error_upd by exact Hl. apply Nat.eqb_neq in Hij. rewrite Hij. reflexivity.
  Qed.

  Theorem inter_independent : forall sched st st', inter st sched = Some st' ->
    forall i s o, nth_error st i = Some (s, o) ->
    exists s1 o1, nth_error st' i = Some (s1, o ++ o1) /\ feed recv s (chunks_for i sched) = Done s1 o1.
  Proof.
    induction sched as [|[j c] r IH]; intros st st' H i s o Hi; cbn [inter] in H.
    - inversion H; subst. exists s, []. rewrite app_nil_r. auto.
    - unfold chunks_for. cbn [filter fst map snd].
      destruct (nth_error st j) as [[sj oj]|] eqn:Hj.
      + destruct (feed_chunk recv sj c) as [s1 o1| |] eqn:Hf; try discriminate.
        destruct (Nat.eqb j i) eqn:E.
        * apply Nat.eqb_eq in E. subst j. rewrite Hi in Hj. inversion Hj; subst sj oj.
          destruct (IH _ _ H i s1 (o ++ o1) (nth_error_upd_same st i _ _ Hi)) as (s2 & o2 & A & B).
          exists s2, (o1 ++ o2). rewrite app_assoc. split; [exact A|].
          cbn [map snd feed]. rewrite Hf. fold (chunks_for i r). rewrite B. reflexivity.
        * apply Nat.eqb_neq in E.
          apply (IH _ _ H i s o). rewrite (nth_error_upd_other st j i _ _ E Hj). exact Hi.
      + destruct (Nat.eqb j i) eqn:E.
        * apply Nat.eqb_eq in E. subst j. congruence.
        * apply (IH _ _ H i s o Hi).
  Qed.
End Inter.

(* instantiated: any number of USB Pro (Robe) widgets started fresh, any interleaving — each one
   delivers the reference framer's messages of its own stream *)
Lemma usb_instances n sched st' :
  inter ustate u_recv (repeat (u_init, []) n) sched = Some st' ->
  forall i, (i < n)%nat ->
  exists s, nth_error st' i = Some (s, ref_usb (concat (chunks_for i sched))).
Proof.
  intros H i Hi.
  assert (nth_error (repeat (u_init, @nil msg) n) i = Some (u_init, [])) as Hn
    by (rewrite nth_error_repeat; [reflexivity|exact Hi]).
  destruct (inter_independent ustate u_recv sched _ _ H i u_init [] Hn) as (s1 & o1 & A & B).
  destruct (usb_chunk_free (chunks_for i sched)) as (s2 & C). rewrite C in B. inversion B; subst.
  exists s1. exact A.
Qed.

Lemma robe_instances n sched st' :
  inter rstate r_recv (repeat (r_init, []) n) sched = Some st' ->
  forall i, (i < n)%nat ->
  exists s, nth_error st' i = Some (s, ref_robe (concat (chunks_for i sched))).
Proof.
  intros H i Hi.
  assert (nth_error (repeat (r_init, @nil msg) n) i = Some (r_init, [])) as Hn
    by (rewrite nth_error_repeat; [reflexivity|exact Hi]).
  destruct (inter_independent rstate r_recv sched _ _ H i r_init [] Hn) as (s1 & o1 & A & B).
  destruct (robe_chunk_free (chunks_for i sched)) as (s2 & C). rewrite C in B. inversion B; subst.
  exists s1. exact A.
Qed.
