(* C04 model driver.  payload: "<nclients> <op> <op> ..." (ops are comma separated, see harness.cpp).
   Only parsing, printing and the drain loop (apply OSrv/OCli while the model says there is work,
   in the same order as the harness does). *)
let i = int_of_n
let err_tok (e : n) = match i e with
  | 1 -> "Universe_doesn_t_exist" | 2 -> "Device_doesn_t_exist" | 3 -> "Not_connected"
  | 4 -> "Universe_not_found" | 5 -> "Plugin_not_loaded" | k -> "E" ^ string_of_int k
let st_s e = match e with None -> ".ok" | Some x -> ".E:" ^ err_tok x
let bytes_of_string (s : string) : n list = List.init (String.length s) (fun k -> n_of_int (Char.code s.[k]))
let name_hex (u : n) (nm : n list option) = match nm with
  | Some l -> hex_of_bytes l
  | None -> hex_of_bytes (bytes_of_string ("Universe " ^ string_of_n u))
let ev_s (e : event) : string = match e with
  | EDone (c, rid, er) -> Printf.sprintf "%d.%d%s" (i c) (i rid) (st_s er)
  | EFetch (c, rid, er, u, p, d) ->
    Printf.sprintf "%d.%d%s:%s:%d:%s" (i c) (i rid) (st_s er) (string_of_n u) (i p) (hex_of_bytes d)
  | EInfo (c, rid, er, u, nm, h) ->
    let nh = (match er with None -> name_hex u nm | Some _ -> "-") in
    Printf.sprintf "%d.%d%s:%s:%s:%s" (i c) (i rid) (st_s er) (string_of_n u) nh (bool01 h)
  | EDmx (c, u, p, d) -> Printf.sprintf "%d.dmx:%s:%d:%s" (i c) (string_of_n u) (i p) (hex_of_bytes d)

let dhash (d : n list) =
  let h = List.fold_left (fun h b -> (h * 31 + i b) mod 1000000007) 7 d in
  Printf.sprintf "L%dh%d" (List.length d) h

let n_cmp a b = compare (string_of_n a |> fun s -> (String.length s, s)) (string_of_n b |> fun s -> (String.length s, s))

let dump ?(conn = fun (_ : int) -> true) (ncl : int) (st : state) : string =
  let sv = st.st_sv in
  let b = Buffer.create 256 in
  Buffer.add_string b "U";
  let us = List.sort (fun x y -> n_cmp x.u_id y.u_id) sv.sv_unis in
  List.iter (fun x ->
    let srcs = List.sort compare (List.map (fun (c, stale) -> string_of_int (i c) ^ (if stale then "!" else "")) x.u_srcs) in
    let snks = List.sort compare (List.map (fun c -> string_of_int (i c)) x.u_sinks) in
    let nm = (match x.u_name with Some l -> l | None -> bytes_of_string ("Universe " ^ string_of_n x.u_id)) in
    Buffer.add_string b (Printf.sprintf "[%s,%s,%s,%s,%d,s%s,k%s,%s]" (string_of_n x.u_id) (bool01 x.u_htp)
      (dhash nm) (dhash x.u_buf) (i x.u_aprio) (String.concat "+" srcs) (String.concat "+" snks)
      (if List.exists (fun g -> g = x.u_id) sv.sv_gc then "g" else ""))) us;
  Buffer.add_string b "C";
  for c = 0 to ncl - 1 do
    if conn c && sv.sv_alive (n_of_int c) then begin
      Buffer.add_string b (Printf.sprintf "[%d" c);
      let ents = List.filter (fun ((cc, _), _) -> i cc = c) sv.sv_cdata in
      let ents = List.sort (fun ((_, u1), _) ((_, u2), _) -> n_cmp u1 u2) ents in
      List.iter (fun ((_, u), s) ->
        Buffer.add_string b (Printf.sprintf ",%s:%s:%s:%d" (string_of_n u) (dhash s.s_data)
          (string_of_n (N.sub s.s_ts sTART_US)) (i s.s_prio))) ents;
      Buffer.add_string b "]"
    end
  done;
  Buffer.contents b

let tag_s t = match i t with 0 -> "x" | 1 -> "m" | 2 -> "c" | 3 -> "e" | _ -> ""

let parse_op (ncl : int) (s : string) : op option =
  let f = Array.of_list (String.split_on_char ',' s) in
  let c () = n_of_int (ios f.(1) mod ncl) in
  let u () = n_of_string f.(2) in
  match f.(0) with
  | "S" | "T" -> Some (OSend (f.(0) = "S", false, c (), u (), Some (n_of_string f.(3)), bytes_of_hex f.(4)))
  | "RS" | "RT" ->
    let p = if f.(3) = "n" then None else Some (n_of_string f.(3)) in
    Some (OSend (f.(0) = "RS", true, c (), u (), p, bytes_of_hex f.(4)))
  | "F" -> Some (OFetch (c (), u ()))
  | "G" -> Some (OReg (c (), u (), f.(3) = "1"))
  | "M" -> Some (OMode (c (), u (), f.(3) = "1"))
  | "N" -> Some (OName (c (), u (), bytes_of_hex f.(3)))
  | "I" -> Some (OInfo (c (), u ()))
  | "P" -> Some (OOpq (c (), n_of_int 0, u ()))
  | "X" -> Some (OOpq (c (), n_of_string f.(2), n_of_string f.(3)))
  | "D" -> Some (ODisc (c ()))
  | "K" -> Some (OTick (n_of_string f.(1)))
  | "H" -> Some OHK
  | ">" -> Some (OSrv (c ()))
  | "}" -> Some (OSrvSame (c ()))
  | "J" -> Some (OJump (n_of_string f.(1)))
  | "<" -> Some (OCli (c ()))
  | _ -> None

let handle (p : string) : string =
  match List.filter (fun s -> s <> "") (split p) with
  | [] -> "bad"
  | nc :: ops ->
    let hdr = String.split_on_char ':' nc in
    let ncl = ios (List.hd hdr) in
    (* late clients (type L) exist in the model from the start (idle); they show up in the daemon's
       client list only once their C op has run *)
    let connected = Array.make (max ncl 1) true in
    (match hdr with
     | [_; t] when String.length t = ncl && not (String.for_all (fun ch -> ch >= '0' && ch <= '9') t) ->
       String.iteri (fun k ch -> if ch = 'L' then connected.(k) <- false) t
     | _ -> ());
    let st = ref (init_state (n_of_int ncl)) in
    let obs = ref [] and srv = ref [] in
    let nsend = ref 0 and nsrv = ref 0 and ndisc = ref 0 and npush = ref 0 and nerr = ref 0 and nbig = ref 0 in
    let do_step (o : op) : string * string list =
      let ((st', t), evs) = step !st o in
      st := st';
      List.iter (fun e -> match e with
        | EDmx _ -> incr npush
        | EDone (_, _, Some _) | EFetch (_, _, Some _, _, _, _) | EInfo (_, _, Some _, _, _, _) -> incr nerr
        | _ -> ()) evs;
      (tag_s t, List.map ev_s evs) in
    List.iter (fun os ->
      let parts =
        if os = "*" then begin
          let acc = ref [] in
          let progress = ref true in
          let guard = ref 0 in
          while !progress && !guard < 10000 do
            incr guard;
            progress := false;
            for c = 0 to ncl - 1 do
              while srv_can !st (n_of_int c) do
                let (_, e) = do_step (OSrv (n_of_int c)) in acc := !acc @ e; progress := true done
            done;
            for c = 0 to ncl - 1 do
              while cli_can !st (n_of_int c) do
                let (_, e) = do_step (OCli (n_of_int c)) in acc := !acc @ e; progress := true done
            done
          done;
          !acc
        end else if String.length os > 2 && String.sub os 0 2 = "C," then begin
          let f = Array.of_list (String.split_on_char ',' os) in
          connected.(ios f.(1) mod ncl) <- true; []
        end else if String.length os > 2 && String.sub os 0 2 = "B," then begin
          (* back-pressure: x stops reading (for the daemon that is a client whose pipe is broken as
             soon as its buffers are full), src streams n identical frames, x then drains, sees the
             end of the stream and stops.  The model: x is closed, then n x (stream, dispatch). *)
          let f = Array.of_list (String.split_on_char ',' os) in
          let src = n_of_int (ios f.(1) mod ncl) and x = n_of_int (ios f.(2) mod ncl) in
          let u = n_of_string f.(3) and pr = n_of_string f.(4) and n = ios f.(5) in
          let d = bytes_of_hex f.(6) in
          ignore (do_step (ODisc x));
          let acc = ref [] in
          for _ = 1 to n do
            ignore (do_step (OSend (false, false, src, u, Some pr, d)));
            ignore (do_step (OSrv src));
            for c = 0 to ncl - 1 do
              while cli_can !st (n_of_int c) do
                let (_, e) = do_step (OCli (n_of_int c)) in acc := !acc @ e done
            done
          done;
          incr ndisc;
          let d512 = List.filteri (fun k _ -> k < 512) d in
          !acc @
          [Printf.sprintf "%d.flood:%s:%d:%s" (i x) (string_of_n u) (min (i pr) 200) (hex_of_bytes d512);
           Printf.sprintf "%d.closed" (i x)]
        end else begin
          match parse_op ncl os with
          | None -> ["bad-op"]
          | Some o ->
            (match o with
             | OSend (_, _, _, _, _, d) -> incr nsend; if List.length d > 512 then incr nbig
             | OSrv _ | OSrvSame _ -> incr nsrv | ODisc _ -> incr ndisc | _ -> ());
            let (t, e) = do_step o in
            (if t = "" then e else t :: e)
        end in
      let e = if parts = [] then "-" else String.concat "+" parts in
      obs := e :: !obs;
      srv := dump ~conn:(fun k -> connected.(k)) ncl !st :: !srv) ops;
    let s = !st in
    let cnt = List.init (i s.st_next) (fun r -> List.length (List.filter (fun x -> i x = r) s.st_done)) in
    let once = List.for_all (fun k -> k <= 1) cnt in
    let cls = Printf.sprintf "class=%s%s%s%s%s"
        (if !nsend > 0 then "send" else "nosend")
        (if !npush > 0 then "+push" else "")
        (if !ndisc > 0 then "+disc" else "")
        (if !nerr > 0 then "+err" else "")
        (if !nbig > 0 then "+big" else "") in
    if s.st_hz then
      "crash=ASAN:heap-use-after-free;known=C04-sink-push-reentrant-close;" ^ cls ^ "+hazard"
    else
      (* sigpipe: the daemon ignores SIGPIPE (OlaServer::Init) and no write to a half-closed client
         ever raises it: always 0 *)
      Printf.sprintf "obs=%s;cnt=%s;once=%s;sigpipe=0;fdleak=0;srv=%s;%s"
        (String.concat "/" (List.rev !obs))
        (if cnt = [] then "-" else String.concat "," (List.map string_of_int cnt))
        (bool01 once) (String.concat "/" (List.rev !srv)) cls
let () = vh_run handle
