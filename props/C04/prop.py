ID = 'C04'
GROUPS = ['common', 'plugin_api']
CXX_SOURCES = ['olad/ClientBroker.cpp', 'olad/DiscoveryAgent.cpp', 'olad/HttpServerActions.cpp',
               'olad/OlaServerServiceImpl.cpp', 'olad/OladHTTPServer.cpp', 'olad/PluginManager.cpp',
               'olad/RDMHTTPModule.cpp', 'olad/OlaServer.cpp',
               'common/http/HTTPServer.cpp', 'common/http/OlaHTTPServer.cpp',
               'ola/OlaClient.cpp', 'ola/OlaClientCore.cpp', 'ola/ClientTypesFactory.cpp',
               'ola/OlaCallbackClient.cpp', 'ola/ClientRDMAPIShim.cpp', 'ola/StreamingClient.cpp',
               'ola/AutoStart.cpp']
CXXFLAGS = ['-DHTTP_DATA_DIR="/nonexistent-c04"']
LIBS = ['-lmicrohttpd']
WRAP = ['clock_gettime', '_ZSt18_Rb_tree_incrementPKSt18_Rb_tree_node_base',
        '_ZSt18_Rb_tree_incrementPSt18_Rb_tree_node_base']

def _housekeeping_def(v):
    """The definition line of OlaServer::K_HOUSEKEEPING_TIMEOUT_MS (it lives in OlaServer.cpp, the header
    only declares it), re-qualified so that the constants program can compile it against the header."""
    import re
    txt = open(v.repo_path('olad/OlaServer.cpp')).read()
    m = re.search(r'const\s+unsigned\s+int\s+OlaServer::K_HOUSEKEEPING_TIMEOUT_MS\s*=\s*([^;]+);', txt)
    if not m:
        return None
    return 'const unsigned int ola::OlaServer::K_HOUSEKEEPING_TIMEOUT_MS = %s;' % m.group(1).strip()

def gen_consts(v):
    import os
    hk = _housekeeping_def(v)
    if hk is None:
        return 'OlaServer::K_HOUSEKEEPING_TIMEOUT_MS definition not found in olad/OlaServer.cpp'
    ents = [('TIMEOUT_US', 'ola::DmxSource::TIMEOUT_INTERVAL.InMilliSeconds() * 1000'),
            ('SOURCE_PRIORITY_MIN', 'ola::dmx::SOURCE_PRIORITY_MIN'),
            ('SOURCE_PRIORITY_DEFAULT', 'ola::dmx::SOURCE_PRIORITY_DEFAULT'),
            ('SOURCE_PRIORITY_MAX', 'ola::dmx::SOURCE_PRIORITY_MAX'),
            ('DMX_UNIVERSE_SIZE', 'ola::DMX_UNIVERSE_SIZE'),
            ('HOUSEKEEPING_MS', 'ola::OlaServer::K_HOUSEKEEPING_TIMEOUT_MS'),
            ('RPC_INITIAL_BUFFER', 'ola::rpc::RpcChannel::INITIAL_BUFFER_SIZE'),
            ('RPC_MAX_BUFFER', 'ola::rpc::RpcChannel::MAX_BUFFER_SIZE')]
    return v.gen_consts_cpp(ID, ['olad/DmxSource.h', 'ola/dmx/SourcePriorities.h', 'ola/Constants.h',
                                 'olad/OlaServer.h', 'common/rpc/RpcChannel.h'],
                            ents, os.path.join(v.VERIF, 'props', ID, 'coq', 'Gen.v'), prelude=hk,
                            extra_sources=['olad/plugin_api/DmxSource.cpp', 'common/utils/Clock.cpp'])

def _housekeeping_us():
    """generator cap: histories keep total virtual time below the (regenerated) housekeeping interval"""
    import os, re
    try:
        txt = open(os.path.join(os.path.dirname(os.path.abspath(__file__)), 'coq', 'Gen.v')).read()
        return int(re.search(r'HOUSEKEEPING_MS : N := (\d+)', txt).group(1)) * 1000
    except Exception:
        return 10000000

SPEC_KEYS = ['obs', 'cnt', 'once', 'crash', 'sigpipe', 'fdleak']


TIME_CAP = _housekeeping_us() - 500000
SIZES = [0, 1, 1, 2, 3, 3, 4, 512, 513, 600]
API_PRIOS = [0, 1, 99, 100, 100, 101, 199, 200, 201, 255]
RAW_PRIOS = ['n', 0, 100, 200, 201, 255, 256, 300, 456, 511, 2147483647]
TICKS = [0, 1, 1000, 2499999, 2500000, 2500001]
UNIS = [1, 1, 1, 2, 2, 0, 4294967295]
NAMES = ['-', '41', '6c697665', '556e6976657273652031']

def hx(bs):
    return ''.join('%02x' % b for b in bs) if bs else '-'

def frame(rng):
    n = rng.choice(SIZES)
    k = rng.random()
    if k < 0.2:
        v = rng.choice([0, 255, 128])
        return hx([v] * n)
    return hx([rng.randrange(256) for _ in range(n)])

def gen_one(rng, nops, sched):
    # half of the histories draw frames/priorities from a tiny palette so that a sender repeats an
    # identical frame (before/after other senders' updates) as real streaming clients do
    palette = [frame(rng) for _ in range(rng.choice([2, 2, 3]))] if rng.random() < 0.5 else None
    ppal = [rng.choice([100, 100, 150, 200, 0]) for _ in range(2)]
    def fr():
        return rng.choice(palette) if palette and rng.random() < 0.85 else frame(rng)
    def apr():
        return rng.choice(ppal) if palette and rng.random() < 0.85 else rng.choice(API_PRIOS)
    ncl = rng.choice([2, 3, 3, 4])
    # in a fifth of the histories the last client is a real ola::client::StreamingClient over loopback
    # TCP: it can only stream frames and stop
    streaming = ncl - 1 if rng.random() < 0.2 else None
    ops = []
    elapsed = 0
    closed = set()
    unis = rng.sample([1, 2, 0, 4294967295], 2) if rng.random() < 0.2 else [1, 2]
    def uni():
        return rng.choice(unis + [unis[0]]) if rng.random() < 0.95 else rng.choice(UNIS)
    # most histories start by registering somebody so that universes exist
    for _ in range(rng.choice([0, 1, 1, 2, 3])):
        ops.append('G,%d,%d,1' % (rng.randrange(ncl if streaming is None else ncl - 1), uni()))
        if not sched or rng.random() < 0.7:
            ops.append('*')
    for _ in range(nops):
        c = rng.randrange(ncl)
        r = rng.random()
        if c == streaming and r < 0.73:
            if r < 0.6:
                ops.append('T,%d,%d,%d,%s' % (c, uni(), apr(), fr()))
            elif r < 0.65:
                ops.append('D,%d' % c)
                closed.add(c)
            else:
                ops.append(rng.choice(['>,%d' % c, '*']))
        elif r < 0.30:
            kind = rng.choice(['S', 'S', 'T', 'RS', 'RT'])
            if kind in ('S', 'T'):
                ops.append('%s,%d,%d,%d,%s' % (kind, c, uni(), apr(), fr()))
            else:
                ops.append('%s,%d,%d,%s,%s' % (kind, c, uni(), rng.choice(RAW_PRIOS), fr()))
        elif r < 0.38:
            ops.append('F,%d,%d' % (c, uni()))
        elif r < 0.47:
            ops.append('G,%d,%d,%d' % (c, uni(), rng.choice([1, 1, 1, 0])))
        elif r < 0.52:
            ops.append('M,%d,%d,%d' % (c, uni(), rng.choice([0, 1, 1])))
        elif r < 0.55:
            if rng.random() < 0.15:
                nm = hx([rng.randrange(32, 127) for _ in range(rng.choice([2040, 2100, 4090, 4200, 6000, 9000]))])
            else:
                nm = rng.choice(NAMES)
            ops.append('N,%d,%d,%s' % (c, uni(), nm))
        elif r < 0.58:
            ops.append('I,%d,%d' % (c, uni()))
        elif r < 0.585:
            ops.append('P,%d,%d' % (c, uni()))
        elif r < 0.61:
            kd = rng.randrange(18)
            arg = rng.choice([0, 1, 100, 2000, 2100, 4000, 4100, 5000, 9000, 20000]) if kd == 5 else uni()
            ops.append('X,%d,%d,%d' % (c, kd, arg))
        elif r < 0.64:
            if len(closed) < ncl - 1 or rng.random() < 0.3:
                ops.append('D,%d' % c)
                closed.add(c)
        elif r < 0.70:
            dt = rng.choice(TICKS)
            if elapsed + dt < TIME_CAP:
                elapsed += dt
                ops.append('K,%d' % dt)
        elif r < 0.73:
            ops.append('H')
        elif sched:
            k = rng.random()
            if k < 0.12:
                dt = rng.choice([1, 5, 1000, 2499999, 2500000])
                if elapsed + dt < TIME_CAP:
                    elapsed += dt
                    ops.append('J,%d' % dt)      # clock moves on inside a loop iteration
            elif k < 0.35:
                ops.append('},%d' % c)           # dispatched in the same iteration as the previous one
            else:
                ops.append(rng.choice(['>,%d' % c, '>,%d' % c, '<,%d' % c, '*']))
        if not sched:
            ops.append('*')
        elif rng.random() < 0.15:
            ops.append('*')
    ops.append('*')
    hdr = '%d' % ncl if streaming is None else '%d:%d' % (ncl, streaming)
    return '%s %s' % (hdr, ' '.join(ops))

def gen_repeat(rng):
    """A repeats an identical frame (acked S or streamed T) around another sender's update, in LTP
    and HTP, optionally while a higher-priority sender goes quiet across the 2.5 s source timeout."""
    ncl = 3
    u = rng.choice([1, 1, 2])
    ops = ['G,2,%d,1' % u, '*']
    if rng.random() < 0.6:
        ops += ['M,%d,%d,%d' % (rng.randrange(3), u, rng.choice([0, 1])), '*']
    x = hx([rng.randrange(256) for _ in range(rng.choice([1, 2, 3, 4]))])
    y = hx([rng.randrange(256) for _ in range(rng.choice([1, 2, 3, 4]))])
    ka = rng.choice(['T', 'T', 'S', 'RT'])
    pa = rng.choice([100, 100, 0, 99, 200])
    sched = rng.random() < 0.4
    def dr():
        return ['>,0', '>,1', '<,2', '<,0', '<,1', '*'] if sched and rng.random() < 0.5 else ['*']
    def a_send():
        return ['%s,0,%d,%d,%s' % (ka, u, pa, x)]
    timeout_variant = rng.random() < 0.5
    pb = rng.choice([pa, pa, min(200, pa + 50), 150 if pa < 150 else pa]) if not timeout_variant \
        else rng.choice([min(200, pa + 50), 200 if pa < 200 else pa, pa])
    kb = rng.choice(['S', 'T'])
    ops += a_send() + dr()
    if rng.random() < 0.3:
        ops += ['K,%d' % rng.choice([0, 1, 1000])]
    ops += ['%s,1,%d,%d,%s' % (kb, u, pb, y)] + dr()
    elapsed = 0
    if timeout_variant:
        # A keeps repeating its unchanged frame while B stays quiet across the timeout boundary
        steps = rng.choice([[1000000, 1000000, 499999], [1000000, 1000000, 500000], [1000000, 1000000, 500001],
                            [1250000, 1250000], [2000000, 1200000], [900000, 900000, 900000]])
        for dt in steps:
            elapsed += dt
            ops += ['K,%d' % dt] + a_send() + dr()
    else:
        if rng.random() < 0.5:
            ops += ['K,%d' % rng.choice([1, 1000, 100000])]
        ops += a_send() + dr()
    ops += ['F,%d,%d' % (rng.randrange(3), u), '*']
    if rng.random() < 0.5:
        ops += a_send() + dr() + ['F,2,%d' % u, '*']
    return '%d %s' % (ncl, ' '.join(ops))

def gen_same_iteration(rng):
    """Two senders' frames for one universe handled in the SAME event-loop iteration while the clock
    moves on between the two dispatches (streamed/acked in both orders, LTP and HTP, equal and
    different priorities): both sources must carry the loop's wake-up time."""
    u = rng.choice([1, 1, 2])
    ops = ['G,2,%d,1' % u, '*', 'M,2,%d,%d' % (u, rng.choice([0, 0, 0, 1])), '*']
    if rng.random() < 0.3:
        ops += ['K,%d' % rng.choice([1, 1000, 100000])]
    x = hx([rng.randrange(256) for _ in range(rng.choice([1, 2, 3]))])
    y = hx([rng.randrange(256) for _ in range(rng.choice([1, 2, 3]))])
    pa = rng.choice([100, 100, 100, 0, 200])
    pb = rng.choice([pa, pa, pa, 100, 150])
    kinds = rng.choice([('T', 'S'), ('S', 'T'), ('T', 'T'), ('S', 'S'), ('RT', 'RS')])
    ops += ['%s,0,%d,%d,%s' % (kinds[0], u, pa, x), '%s,1,%d,%d,%s' % (kinds[1], u, pb, y)]
    first, second = rng.choice([(0, 1), (1, 0)])
    ops += ['>,%d' % first]
    if rng.random() < 0.85:
        ops += ['J,%d' % rng.choice([1, 1, 5, 1000, 2499999])]
    ops += ['},%d' % second]
    if rng.random() < 0.4:
        # a third frame in yet another dispatch of the same iteration
        ops += ['%s,0,%d,%d,%s' % (kinds[0], u, pa, x), 'J,%d' % rng.choice([1, 7]), '},0']
    ops += ['*', 'F,2,%d' % u, '*']
    return '3 %s' % ' '.join(ops)

def gen_scale(rng):
    """Scale of a single request / reply after small traffic on the same connection: long universe
    names (large argument, then large info / list replies), many universes in a list reply, a large
    ConfigureDevice payload; every request kind completes exactly once."""
    ncl = rng.choice([2, 3])
    c = rng.randrange(ncl)
    ops = ['G,%d,1,1' % c, '*', 'F,%d,1' % c, '*']              # small traffic first: 2 KiB buffers
    kindsel = rng.random()
    if kindsel < 0.4:
        n = rng.choice([2040, 2100, 4090, 4200, 6000, 9000, 15000])
        ops += ['N,%d,1,%s' % (c, hx([rng.randrange(32, 127) for _ in range(n)])), '*',
                'I,%d,1' % rng.randrange(ncl), '*', 'X,%d,8,0' % rng.randrange(ncl), '*']
    elif kindsel < 0.7:
        nu = rng.choice([60, 120, 250, 400])
        for u in range(2, 2 + nu):
            ops.append('G,%d,%d,1' % (c, u))
            if u % 50 == 0:
                ops.append('*')
        ops += ['*', 'X,%d,8,0' % rng.randrange(ncl), '*', 'X,%d,8,0' % c, '*']
    else:
        ops += ['X,%d,5,%d' % (c, rng.choice([2040, 2100, 4090, 4200, 6000, 9000, 30000])), '*']
    for _ in range(rng.choice([1, 2, 3])):
        kd = rng.randrange(18)
        ops += ['X,%d,%d,%d' % (rng.randrange(ncl), kd, rng.choice([1, 2, 7])), '*']
    ops += ['S,%d,1,100,0a0b' % c, '*', 'F,%d,1' % c, '*']
    return '%d %s' % (ncl, ' '.join(ops))

def late_clients(rng, ncl, u):
    """1-4 new clients connect after a teardown (their daemon-side descriptors reuse whatever numbers
    are free; they are served by the real event loop) and each issues requests that must complete."""
    k = rng.choice([1, 2, 2, 3, 4])
    ops = []
    for i in range(ncl, ncl + k):
        ops += ['C,%d' % i, 'F,%d,%d' % (i, u), '*', 'N,%d,%d,%s' % (i, u, rng.choice(NAMES)), '*',
                'I,%d,%d' % (i, u), '*']
        if rng.random() < 0.4:
            ops += ['G,%d,%d,1' % (i, u), '*', 'S,%d,%d,100,0c0d' % (i, u), '*']
    return k, ops

def gen_pipeline_disconnect(rng):
    """A client pipelines several requests and disconnects before the daemon has run: the daemon
    handles the head of the channel, the first reply write fails, the rest of the channel is dropped
    with the session; the other clients and the universes are not disturbed."""
    ncl = rng.choice([2, 3, 3])
    c = rng.randrange(ncl)
    o = (c + 1) % ncl
    u = rng.choice([1, 1, 2])
    ops = ['G,%d,%d,1' % (o, u), '*']
    if rng.random() < 0.5:
        ops += ['S,%d,%d,100,0102' % (o, u), '*']
    if rng.random() < 0.4:
        ops += ['G,%d,%d,1' % (c, u), '*']
    for _ in range(rng.choice([2, 3, 4, 6])):
        k = rng.random()
        if k < 0.35:
            ops.append('S,%d,%d,%d,%s' % (c, u, rng.choice([0, 100, 150, 200]), frame(rng)))
        elif k < 0.55:
            ops.append('T,%d,%d,%d,%s' % (c, u, rng.choice([100, 150]), frame(rng)))
        elif k < 0.65:
            ops.append('F,%d,%d' % (c, u))
        elif k < 0.75:
            ops.append('G,%d,%d,%d' % (c, rng.choice([u, 3]), rng.choice([0, 1])))
        elif k < 0.85:
            ops.append('N,%d,%d,%s' % (c, u, rng.choice(NAMES)))
        elif k < 0.92:
            ops.append('M,%d,%d,%d' % (c, u, rng.choice([0, 1])))
        else:
            ops.append('X,%d,%d,%d' % (c, rng.randrange(18), u))
    ops.append('D,%d' % c)
    # the daemon now runs: step by step, mixed with the other client's traffic
    for _ in range(rng.choice([1, 2, 3, 5])):
        ops.append(rng.choice(['>,%d' % c, '},%d' % c, '>,%d' % c]))
        if rng.random() < 0.4:
            ops += ['S,%d,%d,100,%s' % (o, u, frame(rng)), '>,%d' % o]
    ops += ['*', 'F,%d,%d' % (o, u), 'I,%d,%d' % (o, u), '*', 'H', 'F,%d,%d' % (o, u), '*']
    if rng.random() < 0.5:
        k, lops = late_clients(rng, ncl, u)
        return '%d:%s %s' % (ncl + k, 'p' * ncl + 'L' * k, ' '.join(ops + lops))
    return '%d %s' % (ncl, ' '.join(ops))

def gen_gc_resume(rng):
    """A universe is garbage-collected underneath a connected client: the client sends, then stays
    connected but silent for several housekeeping runs (stale -> evicted -> universe inactive ->
    collected), then resumes; compared after the resume (sends, fetches, re-registration)."""
    ncl = rng.choice([2, 3])
    a, b = 0, 1
    u = rng.choice([1, 2, 7])
    ops = ['G,%d,%d,1' % (a, u), '*']
    x = frame(rng)
    kind = rng.choice(['S', 'T', 'RS', 'RT'])
    pr = rng.choice([0, 100, 150, 200])
    ops += ['%s,%d,%d,%d,%s' % (kind, b, u, pr, x), '*']
    if rng.random() < 0.3:
        ops += ['N,%d,%d,4c6976' % (a, u), 'M,%d,%d,1' % (a, u), '*']   # settings are saved at collection
    ops += [rng.choice(['G,%d,%d,0' % (a, u), 'D,%d' % a]), '*']          # the sink leaves
    elapsed = 0
    for i in range(rng.choice([1, 2, 3, 3, 3, 4])):
        dt = rng.choice([0, 1000, 2500000, 3000000])
        if elapsed + dt < TIME_CAP:
            elapsed += dt
            ops += ['K,%d' % dt]
        ops += ['H']
        if rng.random() < 0.25:
            ops += ['F,%d,%d' % (b, u), '*']
    # the silent client resumes
    for _ in range(rng.choice([1, 2, 3])):
        k = rng.random()
        if k < 0.5:
            ops += ['%s,%d,%d,%d,%s' % (rng.choice(['S', 'T', kind]), b, u, pr, rng.choice([x, frame(rng)])), '*']
        elif k < 0.7:
            ops += ['F,%d,%d' % (b, u), '*']
        elif k < 0.85:
            ops += ['G,%d,%d,1' % (b, u), '*', 'I,%d,%d' % (b, u), '*']
        else:
            ops += ['X,%d,%d,%d' % (b, rng.choice([4, 7, 11, 12, 13]), u), '*']
    ops += ['F,%d,%d' % (b, u), 'I,%d,%d' % (b, u), '*', 'H', 'F,%d,%d' % (b, u), '*']
    return '%d %s' % (ncl, ' '.join(ops))

def gen_backpressure(rng):
    """Back-pressure: a registered sink (an OlaClient over loopback TCP) stops servicing its socket
    while another client streams full frames; the socket buffers fill, a daemon-side write fails and
    the daemon drops the sink; the sink then resumes: it must see the end of the stream (close
    handler), its later requests complete with an error, every descriptor is closed again."""
    ncl = rng.choice([2, 3, 3])
    x = ncl - 1
    src = 0
    types = 'p' * (ncl - 1) + rng.choice(['t', 'T', 'T'])   # T: the sink's daemon side stays with the real event loop
    u = rng.choice([1, 1, 2])
    ops = ['G,%d,%d,1' % (x, u), '*']
    if ncl == 3 and rng.random() < 0.5:
        ops += ['G,1,%d,1' % u, '*']                       # a second, well-behaved sink
    if rng.random() < 0.7:
        ops += ['S,%d,%d,100,0102' % (src, u), '*', 'F,%d,%d' % (x, u), '*']   # ordinary traffic first
    if rng.random() < 0.3:
        ops += ['M,%d,%d,%d' % (src, u, rng.choice([0, 1])), '*']
    n = rng.choice([40, 60, 90])
    fr = hx([rng.randrange(256) for _ in range(512)])
    ops += ['B,%d,%d,%d,%d,%d,%s' % (src, x, u, rng.choice([100, 100, 200, 255]), n, fr)]
    # the sink's later requests, and everybody else afterwards
    for _ in range(rng.choice([1, 2, 3])):
        ops.append(rng.choice(['F,%d,%d' % (x, u), 'X,%d,%d,%d' % (x, rng.randrange(18), u), 'G,%d,%d,1' % (x, u),
                               'S,%d,%d,100,07' % (x, u)]))
    ops += ['*', 'F,%d,%d' % (src, u), 'I,%d,%d' % (src, u), '*', 'H', 'F,%d,%d' % (src, u), '*']
    if rng.random() < 0.7:
        k, lops = late_clients(rng, ncl, u)
        return '%d:%s %s' % (ncl + k, types + 'L' * k, ' '.join(ops + lops))
    return '%d:%s %s' % (ncl, types, ' '.join(ops))

def gen_cases(rng, tier):
    n = 900 if tier == 'quick' else 30000
    for i in range(n):
        sched = (i % 3) != 0
        nops = rng.choice([6, 10, 16, 24, 36])
        yield gen_one(rng, nops, sched)
    for i in range(n // 4):
        yield gen_repeat(rng)
    for i in range(n // 6):
        yield gen_same_iteration(rng)
    for i in range(n // 30):
        yield gen_scale(rng)
    for i in range(n // 8):
        yield gen_pipeline_disconnect(rng)
    for i in range(n // 10):
        yield gen_gc_resume(rng)
    for i in range(max(12, n // 100)):
        yield gen_backpressure(rng)

def nontrivial(payload, md):
    obs = md.get('obs', '')
    return '.ok' in obs and 'dmx:' in obs

RULE = ('histories of 6-36 client-library calls by 2-4 real OlaClient instances (in a fifth of the histories one of them a real StreamingClient over loopback TCP) against one real OlaServer '
        '(acked/streamed/raw-protobuf sends with frame sizes {0,1,2,3,4,512,513,600} and priorities '
        '{0,1,99,100,101,199,200,201,255 | absent,256,300,456,511,2^31-1}, fetch, register/unregister, merge mode, '
        'name (up to 15000 characters), info, patch and seventeen further request kinds as opaque completions (plugin list/description/state, device info, candidate ports, ConfigureDevice with payloads up to 30000 bytes, port priority, cached/incremental/full discovery, RDM get/set, time code, plugin reload, plugin state, universe list with up to 400 universes, source UID), histories in which 1-4 new clients connect after a failed-send teardown or a disconnect and are served by the real event loop (descriptor-number reuse), back-pressure histories (a TCP sink stops reading while a source floods full frames until a daemon-side write fails, then resumes), histories in which a universe is garbage-collected underneath a connected but silent client that then resumes, disconnects anywhere, half of the histories drawing frames/priorities from a 2-3 entry palette so senders repeat identical frames, plus dedicated repeat-identical-frame histories (acked and streamed, LTP/HTP, with a higher-priority sender going quiet across the 2.5 s source timeout), histories in which a client pipelines several requests and disconnects before the daemon runs, histories in which frames of two senders are dispatched in the same event-loop iteration while the clock moves on (ops J/}: wake-up time vs fresh clock), clock ticks {0,1,1000,2499999,2500000,2500001 us}, housekeeping); '
        '1/3 drained after every call, 2/3 with an explicit random schedule of per-channel deliveries; compared after '
        'every step; non-trivial = at least one successful completion and one DMX push delivered to a registered '
        'client; distinct = distinct model output line')
ASSUMPTIONS = ['RPC transport abstracted to per-direction FIFO delivery of whole messages (pipes; messages < PIPE_BUF)',
               'protobuf (de)serialisation of DmxData is the identity on universe/data/priority (validated by the correspondence)',
               'iteration order of std::map/std::set keyed by Client* does not influence results (order-independent merge, per-client channels)',
               'virtual time: clock_gettime(CLOCK_MONOTONIC) wrapped; total advance per case < 10 s so that the '
               'housekeeping timer only runs when the history says so (op H calls OlaServer::RunHousekeeping)',
               'operator new does not fail',
               'back-pressure op B: the model treats the non-reading sink as disconnected from the start of the flood (the daemon-side '
               'write fails as soon as the socket buffers are full, after an unpredictable number of frames); the frames the sink '
               'had already received are checked against the flooded frame and reported once',
               'the harness resets SIGPIPE to SIG_DFL before OlaServer::Init() and only observes afterwards: key sigpipe=1 when the '
               'daemon left the default disposition (or a SIGPIPE was delivered during the case); the model fixes it to 0']
TRUSTED = ['modelled rather than verified: StreamingClient Setup/Send/Stop (as a client that only streams; real instances over loopback TCP in the harness), OlaClientCore SendDMX/FetchDMX/RegisterUniverse/SetUniverseMergeMode/'
           'SetUniverseName/FetchUniverseInfo/Patch + Handle* completions + UpdateDmxData, RpcChannel CallMethod/'
           'HandleRequest/HandleStreamRequest/HandleResponse/HandleFailedResponse/SendMsg failure path, RpcServer::'
           'ChannelClosed, OlaServer::NewClient/ClientRemoved/RunHousekeeping, OlaServerServiceImpl UpdateDmxData/'
           'StreamDmxData/GetDmx/RegisterForDmx/SetMergeMode/SetUniverseName/GetUniverseInfo/PatchPort(no devices), '
           'Client::SendDMX/DMXReceived/SourceData, Universe MergeAll/UpdateDependants/Add*/Remove*Client/'
           'CleanStaleSourceClients, UniverseStore GetUniverseOrCreate/GarbageCollectUniverses/Save+Restore settings',
           'the harness plays the poller for the client descriptors (PerformRead / close handler in schedule order) '
           'and routes std::_Rb_tree_increment through an instrumented probe so that ASan sees stale set iterators',
           'TCP, OS scheduling, the HTTP server, plugins/ports/RDM are not modelled']
LEVEL_TEXT = ('Coq theorems over an executable model of N client libraries + per-client FIFO channels + the olad '
              'service/universe store + the deferred ClientRemoved, with the schedule (deliveries, disconnects, clock '
              'ticks inside and between loop iterations, housekeeping) as a universally quantified input.  Proved for '
              'every schedule: each request id completes at most once, and exactly once for a connected client whose '
              'channels are drained; ClientRemoved never runs inside a service method; sink sets stay duplicate-free '
              'with live sessions; stored timestamps are wake-up times of the past; per sender, consumed requests = '
              'interleaving of applied and refused frames in send order (applied = sent once drained with nothing '
              'refused); a processed send is stored as (frame cut to 512, wake-up time, clamped priority), the universe '
              'holds the HTP merge of the live top-priority group, or the last writer\'s frame (LTP), or exactly the '
              'frame of a single sender, every open registered sink gets exactly one push with that '
              'universe/priority/frame and a fetch returns it; a processed disconnect removes the client everywhere, '
              'leaves everybody else unchanged, is permanent, and nothing the gone client does afterwards changes '
              'anything but request numbering; a connected but silent client is in no live group once its last applied frame is 2.5 s old, and two housekeeping runs without a send evict it as a source while its sink registration stays; end to end (API call, poller step, service method, deferred clean-up, fetch call, poller step, client completion) a single sender\'s streamed frame is exactly what another client\'s FetchDMX callback receives.  Not proved: the literal projection form of non-interference (needs '
              'request-id renaming); the end-to-end composition is proved for the single-sender streamed case only (multi-source fidelity '
              'is stated for the service-method step); that a universe with registered sinks survives garbage '
              'collection needs unique universe ids, which is not a proved invariant.')
LEVEL_NOTE = ('Trusted: Coq kernel, extraction (ExtrOcamlBasic), OCaml/C++ glue (the glue contains the drain loop), '
              'generator coverage of the correspondence; model = code is validated by differential testing of a real '
              'in-process OlaServer and real OlaClient objects under ASan/UBSan, not proved; protobuf, pipes, '
              'SelectServer timers and the HTTP path are outside the model.')
TECHNIQUE = 'Coq proof on hand-written executable model + extracted-model/implementation differential correspondence'
DESIGN_REF = 'DESIGN.md §4 C04'
INTERNAL_KEYS = []
