(* C04 — client API to daemon: DMX arrives unmodified and every request completes once.
   Statements only; proofs are in Proofs.v / Once.v / Fidelity.v.  The model (Model.v) is the
   composition of N client request tables, two FIFO channels per client, the olad service on the
   universe store, and OlaServer::ClientRemoved; `run (init_state n) ops` ranges over every
   interleaving of client calls, per-channel deliveries (OSrv c / OCli c), disconnects, clock
   ticks and housekeeping runs, because `ops` is universally quantified. *)
From OlaBase Require Import Bytes.
From C04 Require Import Gen Model Proofs Once Fidelity.
Local Open Scope N_scope.

(* constants regenerated from the headers equal the numbers the property text uses *)
Theorem c04_consts :
  (DMX_UNIVERSE_SIZE, SOURCE_PRIORITY_MIN, SOURCE_PRIORITY_DEFAULT, SOURCE_PRIORITY_MAX, TIMEOUT_US)
  = (512, 0, 100, 200, 2500000).
Proof. exact consts_ok. Qed.
Print Assumptions c04_consts.

(* What the server stores for a send: at most 512 slots, untouched when the client sent <= 512;
   priority min(max(uint8(p),0),200), i.e. p itself inside 0-200, 200 for 201..255, 100 if absent. *)
Theorem c04_stored_value : forall d v,
  len (dmx_set d) <= 512 /\ (len d <= 512 -> dmx_set d = d) /\
  clamp_prio (Some v) <= 200 /\ (v <= 200 -> clamp_prio (Some v) = v) /\
  (200 <= v < 256 -> clamp_prio (Some v) = 200) /\ clamp_prio None = 100.
Proof.
  intros d v. split; [apply dmx_set_len|]. split; [apply dmx_set_id|].
  split; [apply clamp_le|]. split; [apply clamp_id|]. split; [|reflexivity].
  intros H. unfold clamp_prio. change SOURCE_PRIORITY_MAX with 200. change SOURCE_PRIORITY_MIN with 0.
  rewrite u8_id by lia. lia.
Qed.
Print Assumptions c04_stored_value.

(* PARTIAL (single sender; the multi-source HTP/LTP result is `merge_all`, characterised in C01):
   in ANY state, when the server processes a send (acked or streamed) of (d,p) from client c to an
   existing universe x whose only source is c (or that has none yet), with a non-empty frame, and no
   sink of x is a half-closed connection (the guard that excludes finding
   C04-sink-push-reentrant-close), then: the source stored for (c,x) is exactly (d cut to 512, now,
   clamped p); the universe holds exactly that frame and priority; every registered sink's channel
   gets exactly one push carrying that universe number, priority and frame appended, nobody else's
   channel or request table changes; no hazard is raised; and a fetch of x processed at that point
   (from any client) returns that universe number, priority and frame.
   Missing for full strength: NoDup of the sink set and "sinks have sessions" are hypotheses here,
   not proved invariants of reachable states. *)
Theorem c04_fidelity_partial : forall st c x d p,
  st_now st <> 0 -> dmx_set d <> [] ->
  find_uni (sv_unis (st_sv st)) (u_id x) = Some x ->
  (u_srcs x = [] \/ exists b, u_srcs x = [(c, b)]) ->
  NoDup (u_sinks x) ->
  (forall s, In s (u_sinks x) -> sv_alive (st_sv st) s = true /\ k_closed (st_cl st s) = false) ->
  let st' := apply_dmx st c x d p in
  cd_find (sv_cdata (st_sv st')) (c, u_id x)
    = Some {| s_data := dmx_set d; s_ts := st_now st; s_prio := clamp_prio p |} /\
  (exists x2, find_uni (sv_unis (st_sv st')) (u_id x) = Some x2 /\
              u_buf x2 = dmx_set d /\ u_aprio x2 = clamp_prio p /\ u_sinks x2 = u_sinks x /\
              src_memb c (u_srcs x2) = true) /\
  (forall s, In s (u_sinks x) ->
     k_s2c (st_cl st' s) = k_s2c (st_cl st s) ++ [SPush (u_id x) (clamp_prio p) (dmx_set d)]) /\
  (forall y, ~ In y (u_sinks x) -> st_cl st' y = st_cl st y) /\
  st_hz st' = st_hz st /\
  (forall rid y, snd (handle_req st' y (RGet rid (u_id x))) = Some (SDmx rid (u_id x) (clamp_prio p) (dmx_set d))).
Proof. exact apply_single. Qed.
Print Assumptions c04_fidelity_partial.

(* the client hands the pushed / fetched frame to the callbacks unmodified *)
Theorem c04_client_delivery : forall st c u p d rest,
  k_closed (st_cl st c) = false -> k_s2c (st_cl st c) = SPush u p d :: rest ->
  snd (cli_step st c) = [EDmx c u (u8 p) (dmx_set d)].
Proof. intros st c u p d rest Hc Hs. unfold cli_step. rewrite Hc, Hs. reflexivity. Qed.
Print Assumptions c04_client_delivery.

(* PARTIAL (local form of FIFO): a send by a connected client goes to the tail of its channel and
   the server always handles the head.  The history-level statement (applied sequence is a prefix
   of the sent sequence under every schedule; ghost logs st_sent/st_applied) is NOT proved. *)
Theorem c04_fifo_partial : forall st c,
  (forall u p d, k_closed (st_cl st c) = false ->
     k_c2s (st_cl (fst (fst (step st (OSend false true c u p d)))) c) = k_c2s (st_cl st c) ++ [RStream u d p]) /\
  (forall r rest, sv_alive (st_sv st) c = true -> k_c2s (st_cl st c) = r :: rest ->
     let k := st_cl st c in
     let st1 := set_cl st c {| k_closed := k_closed k; k_out := k_out k; k_c2s := rest; k_s2c := k_s2c k |} in
     fst (srv_step st c) = match snd (handle_req st1 c r) with
                           | None => fst (handle_req st1 c r)
                           | Some m => send_to (fst (handle_req st1 c r)) c m end).
Proof.
  intros st c. split.
  - intros u p d Hc. cbn [step]. rewrite Hc. cbn. unfold updf. rewrite N.eqb_refl. reflexivity.
  - intros r rest Ha Hq. unfold srv_step. rewrite Ha, Hq. cbn [negb].
    destruct (handle_req _ c r) as [st2 [m|]]; reflexivity.
Qed.
Print Assumptions c04_fifo_partial.

(* Never twice, under any schedule at all: for every number of clients and every op list (client
   calls, deliveries in any order, disconnects anywhere, ticks, housekeeping), the completion
   callback of every request id has run at most once.
   PARTIAL with respect to the property's "exactly once while the connection stays up and the
   channels are drained": that liveness half is NOT proved (it is exercised by the correspondence
   check: key cnt after a final drain). *)
Theorem c04_once_partial : forall n ops r,
  (completions (run (init_state n) ops) r <= 1)%nat.
Proof. exact at_most_once. Qed.
Print Assumptions c04_once_partial.

(* a call on a client that is not connected completes at once, with an error *)
Theorem c04_not_connected : forall st c u,
  k_closed (st_cl st c) = true ->
  snd (step st (OFetch c u)) = [EFetch c (st_next st) (Some E_NOTCONN) 0 100 []] /\
  st_done (fst (fst (step st (OFetch c u)))) = st_done st ++ [st_next st].
Proof. intros st c u H. cbn [step]. unfold issue. rewrite H. split; reflexivity. Qed.
Print Assumptions c04_not_connected.

(* After the server has processed the disconnect of c (OlaServer::ClientRemoved): c has no session,
   contributes to no universe (neither source nor sink, no stored frame); every universe keeps its
   id, frame, active priority, merge mode and name; every other client keeps its session, its
   stored frames, its source/sink memberships (per universe), and its channels and request table. *)
Theorem c04_disconnect : forall st c,
  let st' := kill st c in
  let sv := st_sv st in let sv' := st_sv st' in
  sv_alive sv' c = false /\
  (forall u, cd_find (sv_cdata sv') (c, u) = None) /\
  (forall x', In x' (sv_unis sv') -> src_memb c (u_srcs x') = false /\ memb c (u_sinks x') = false) /\
  (forall y, y <> c -> sv_alive sv' y = sv_alive sv y) /\
  (forall y u, y <> c -> cd_find (sv_cdata sv') (y, u) = cd_find (sv_cdata sv) (y, u)) /\
  map u_id (sv_unis sv') = map u_id (sv_unis sv) /\
  map u_buf (sv_unis sv') = map u_buf (sv_unis sv) /\
  map u_aprio (sv_unis sv') = map u_aprio (sv_unis sv) /\
  map u_htp (sv_unis sv') = map u_htp (sv_unis sv) /\
  map u_name (sv_unis sv') = map u_name (sv_unis sv) /\
  (forall y, y <> c ->
     map (fun x => (src_memb y (u_srcs x), memb y (u_sinks x))) (sv_unis sv') =
     map (fun x => (src_memb y (u_srcs x), memb y (u_sinks x))) (sv_unis sv)) /\
  (forall y, y <> c -> st_cl st' y = st_cl st y) /\
  st_done st' = st_done st /\ st_hz st' = st_hz st.
Proof.
  intros st c. cbn zeta.
  pose proof (client_removed_spec (st_sv st) c) as H. cbn zeta in H.
  destruct H as (H1 & H2 & H3 & H4 & H5 & H6 & H7 & H8 & H9 & H10 & H11).
  unfold kill. cbn.
  repeat (split; [assumption|]).
  split; [|split; reflexivity].
  intros y Hy. unfold updf. destruct (y =? c) eqn:E; [apply N.eqb_eq in E; congruence|reflexivity].
Qed.
Print Assumptions c04_disconnect.

(* the close event of a stopped client whose requests have all been read is exactly that *)
Theorem c04_close_event : forall st c,
  sv_alive (st_sv st) c = true -> k_closed (st_cl st c) = true -> k_c2s (st_cl st c) = [] ->
  srv_step st c = (kill st c, 2).
Proof. intros st c Ha Hc Hq. unfold srv_step. rewrite Ha, Hc, Hq. reflexivity. Qed.
Print Assumptions c04_close_event.

(* REFUTED on today's code ("a client that disconnects at any point never disturbs the daemon"):
   there is a schedule in which OlaServer::ClientRemoved runs inside Universe::UpdateDependants
   (hazard flag of the model; heap-use-after-free in the implementation, finding
   C04-sink-push-reentrant-close): client 0 registers for universe 1, stops, and client 2's frame
   for universe 1 is handled before the server has seen the close. *)
Theorem c04_disconnect_safe_refuted : exists n ops, st_hz (run (init_state n) ops) = true.
Proof.
  exists 3, [OReg 0 1 true; OSrv 0; ODisc 0; OSend true false 2 1 (Some 100) [10; 11]; OSrv 2].
  vm_compute. reflexivity.
Qed.
Print Assumptions c04_disconnect_safe_refuted.

(* hypotheses of c04_fidelity_partial are satisfiable, with a registered sink *)
Example c04_fidelity_nonvacuous :
  let st := run (init_state 2) [OReg 0 1 true; OSrv 0] in
  exists x, find_uni (sv_unis (st_sv st)) 1 = Some x /\ u_sinks x = [0] /\ u_srcs x = [] /\
            sv_alive (st_sv st) 0 = true /\ k_closed (st_cl st 0) = false /\ st_now st <> 0.
Proof. cbn zeta. eexists. vm_compute. repeat split; discriminate. Qed.
