(* C04 — client API to daemon: DMX arrives unmodified and every request completes once.
   Statements only; proofs are in Proofs.v / Once.v / Fidelity.v.  The model (Model.v) is the
   composition of N client request tables, two FIFO channels per client, the olad service on the
   universe store, and OlaServer::ClientRemoved; `run (init_state n) ops` ranges over every
   interleaving of client calls, per-channel deliveries (OSrv c / OCli c), disconnects, clock
   ticks and housekeeping runs, because `ops` is universally quantified. *)
From OlaBase Require Import Bytes.
From C04 Require Import Gen Model Proofs Once Fidelity Safe Merge Wf Fidelity2 Fifo Exactly Fifo2 Gone Ts Coroll Time EndToEnd.
Local Open Scope N_scope.

(* constants regenerated from the headers equal the numbers the property text uses *)
Theorem c04_consts :
  (DMX_UNIVERSE_SIZE, SOURCE_PRIORITY_MIN, SOURCE_PRIORITY_DEFAULT, SOURCE_PRIORITY_MAX, TIMEOUT_US)
  = (512, 0, 100, 200, 2500000).
Proof. exact consts_ok. Qed.
Print Assumptions c04_consts.

(* further regenerated constants: housekeeping period (OlaServer::K_HOUSEKEEPING_TIMEOUT_MS, 10 s: a
   silent source is marked at the first run after its last frame and evicted at the next, i.e.
   10-20 s after it), and the RPC receive-buffer bounds the scale histories straddle *)
Theorem c04_consts2 : (HOUSEKEEPING_MS, RPC_INITIAL_BUFFER, RPC_MAX_BUFFER) = (10000, 2048, 1048576).
Proof. reflexivity. Qed.
Print Assumptions c04_consts.

(* What the server stores for a send: at most 512 slots, untouched when the client sent <= 512;
   priority min(max(uint8(p),0),200), i.e. p itself inside 0-200, 200 for 201..255, 100 if absent. *)
Theorem c04_stored_value : forall d v,
  len (dmx_set d) <= 512 /\ (len d <= 512 -> dmx_set d = d) /\
  clamp_prio (Some v) <= 200 /\ (v <= 200 -> clamp_prio (Some v) = v) /\
  (200 <= v < 256 -> clamp_prio (Some v) = 200) /\ clamp_prio None = 100.
Proof.
  intros d v. split; [apply dmx_set_len|]. split; [apply dmx_set_id|].
  split; [apply clamp_le|]. split; [apply clamp_id|]. split; [|reflexivity].
  intros H. unfold clamp_prio. change SOURCE_PRIORITY_MAX with 200. change SOURCE_PRIORITY_MIN with 0.
  rewrite u8_id by lia. lia.
Qed.
Print Assumptions c04_stored_value.

(* PARTIAL (single sender; the multi-source HTP/LTP result is `merge_all`, characterised in C01):
   in ANY state, when the server processes a send (acked or streamed) of (d,p) from client c to an
   existing universe x whose only source is c (or that has none yet), with a non-empty frame, and no
   sink of x is a half-closed connection (the guard that excludes finding
   C04-sink-push-reentrant-close), then: the source stored for (c,x) is exactly (d cut to 512, the loop's wake-up time,
   clamped p); the universe holds exactly that frame and priority; every registered sink's channel
   gets exactly one push carrying that universe number, priority and frame appended, nobody else's
   channel or request table changes; no hazard is raised; and a fetch of x processed at that point
   (from any client) returns that universe number, priority and frame.
   Missing for full strength: NoDup of the sink set and "sinks have sessions" are hypotheses here,
   not proved invariants of reachable states. *)
Theorem c04_fidelity_partial : forall st c x d p,
  st_wake st <> 0 -> st_now st < st_wake st + 2500000 -> dmx_set d <> [] ->
  find_uni (sv_unis (st_sv st)) (u_id x) = Some x ->
  (u_srcs x = [] \/ exists b, u_srcs x = [(c, b)]) ->
  NoDup (u_sinks x) -> st_pend st = [] ->
  (forall s, In s (u_sinks x) -> sv_alive (st_sv st) s = true /\ k_closed (st_cl st s) = false) ->
  let st' := apply_dmx st c x d p in
  cd_find (sv_cdata (st_sv st')) (c, u_id x)
    = Some {| s_data := dmx_set d; s_ts := st_wake st; s_prio := clamp_prio p |} /\
  (exists x2, find_uni (sv_unis (st_sv st')) (u_id x) = Some x2 /\
              u_buf x2 = dmx_set d /\ u_aprio x2 = clamp_prio p /\ u_sinks x2 = u_sinks x /\
              src_memb c (u_srcs x2) = true) /\
  (forall s, In s (u_sinks x) ->
     k_s2c (st_cl st' s) = k_s2c (st_cl st s) ++ [SPush (u_id x) (clamp_prio p) (dmx_set d)]) /\
  (forall y, ~ In y (u_sinks x) -> st_cl st' y = st_cl st y) /\
  st_hz st' = st_hz st /\
  (forall rid y, snd (handle_req st' y (RGet rid (u_id x))) = Some (SDmx rid (u_id x) (clamp_prio p) (dmx_set d))).
Proof. exact apply_single. Qed.
Print Assumptions c04_fidelity_partial.

(* the client hands the pushed / fetched frame to the callbacks unmodified *)
Theorem c04_client_delivery : forall st c u p d rest,
  k_closed (st_cl st c) = false -> k_s2c (st_cl st c) = SPush u p d :: rest ->
  snd (cli_step st c) = [EDmx c u (u8 p) (dmx_set d)].
Proof. intros st c u p d rest Hc Hs. unfold cli_step. rewrite Hc, Hs. reflexivity. Qed.
Print Assumptions c04_client_delivery.

(* PARTIAL (local form of FIFO): a send by a connected client goes to the tail of its channel and
   the server always handles the head.  The history-level statement (applied sequence is a prefix
   of the sent sequence under every schedule; ghost logs st_sent/st_applied) is NOT proved here. *)
Theorem c04_fifo_partial : forall st c,
  (forall u p d, k_closed (st_cl st c) = false ->
     k_c2s (st_cl (fst (fst (step st (OSend false true c u p d)))) c) = k_c2s (st_cl st c) ++ [RStream u d p]) /\
  (forall r rest, sv_alive (st_sv st) c = true -> k_c2s (st_cl st c) = r :: rest ->
     let k := st_cl st c in
     let st1 := set_busy (set_cl st c {| k_closed := k_closed k; k_out := k_out k; k_c2s := rest; k_s2c := k_s2c k |}) true in
     fst (srv_step st c) = flush (set_busy (match snd (handle_req st1 c r) with
                                            | None => fst (handle_req st1 c r)
                                            | Some m => send_to (fst (handle_req st1 c r)) c m end) false)).
Proof.
  intros st c. split.
  - intros u p d Hc. cbn [step]. rewrite Hc. cbn. unfold updf. rewrite N.eqb_refl. reflexivity.
  - intros r rest Ha Hq. unfold srv_step. rewrite Ha, Hq. cbn [negb].
    destruct (handle_req _ c r) as [st2 [m|]]; reflexivity.
Qed.
Print Assumptions c04_fifo_partial.

(* Never twice, under any schedule at all: for every number of clients and every op list (client
   calls, deliveries in any order, disconnects anywhere, ticks, housekeeping), the completion
   callback of every request id has run at most once.
   (The "exactly once while the connection stays up and the channels are drained" half is
   c04_once below; this theorem is its first clause, kept under its original name.) *)
Theorem c04_once_partial : forall n ops r,
  (completions (run (init_state n) ops) r <= 1)%nat.
Proof. exact at_most_once. Qed.
Print Assumptions c04_once_partial.

(* a call on a client that is not connected completes at once, with an error *)
Theorem c04_not_connected : forall st c u,
  k_closed (st_cl st c) = true ->
  snd (step st (OFetch c u)) = [EFetch c (st_next st) (Some E_NOTCONN) 0 100 []] /\
  st_done (fst (fst (step st (OFetch c u)))) = st_done st ++ [st_next st].
Proof. intros st c u H. cbn [step]. unfold issue. rewrite H. split; reflexivity. Qed.
Print Assumptions c04_not_connected.

(* After the server has processed the disconnect of c (OlaServer::ClientRemoved): c has no session,
   contributes to no universe (neither source nor sink, no stored frame); every universe keeps its
   id, frame, active priority, merge mode and name; every other client keeps its session, its
   stored frames, its source/sink memberships (per universe), and its channels and request table. *)
Theorem c04_disconnect : forall st c,
  st_busy st = false ->
  let st' := kill st c in
  let sv := st_sv st in let sv' := st_sv st' in
  sv_alive sv' c = false /\
  (forall u, cd_find (sv_cdata sv') (c, u) = None) /\
  (forall x', In x' (sv_unis sv') -> src_memb c (u_srcs x') = false /\ memb c (u_sinks x') = false) /\
  (forall y, y <> c -> sv_alive sv' y = sv_alive sv y) /\
  (forall y u, y <> c -> cd_find (sv_cdata sv') (y, u) = cd_find (sv_cdata sv) (y, u)) /\
  map u_id (sv_unis sv') = map u_id (sv_unis sv) /\
  map u_buf (sv_unis sv') = map u_buf (sv_unis sv) /\
  map u_aprio (sv_unis sv') = map u_aprio (sv_unis sv) /\
  map u_htp (sv_unis sv') = map u_htp (sv_unis sv) /\
  map u_name (sv_unis sv') = map u_name (sv_unis sv) /\
  (forall y, y <> c ->
     map (fun x => (src_memb y (u_srcs x), memb y (u_sinks x))) (sv_unis sv') =
     map (fun x => (src_memb y (u_srcs x), memb y (u_sinks x))) (sv_unis sv)) /\
  (forall y, y <> c -> st_cl st' y = st_cl st y) /\
  st_done st' = st_done st /\ st_hz st' = st_hz st.
Proof.
  intros st c Hb. cbn zeta.
  pose proof (client_removed_spec (st_sv st) c) as H. cbn zeta in H.
  destruct H as (H1 & H2 & H3 & H4 & H5 & H6 & H7 & H8 & H9 & H10 & H11).
  unfold kill. rewrite Hb. cbn.
  repeat (split; [assumption|]).
  split; [|split; reflexivity].
  intros y Hy. unfold updf. destruct (y =? c) eqn:E; [apply N.eqb_eq in E; congruence|reflexivity].
Qed.
Print Assumptions c04_disconnect.

(* the close event of a stopped client whose requests have all been read: the channel is
   unregistered and OlaServer::ClientRemoved runs from the event loop right afterwards *)
Theorem c04_close_event : forall st c,
  sv_alive (st_sv st) c = true -> k_closed (st_cl st c) = true -> k_c2s (st_cl st c) = [] ->
  st_pend st = [] -> st_busy st = false ->
  srv_step st c = (kill (set_pend st []) c, 2).
Proof.
  intros st c Ha Hc Hq Hp Hb. unfold srv_step. rewrite Ha, Hc, Hq. cbn [negb].
  unfold close_chan, flush. rewrite Hp. reflexivity.
Qed.
Print Assumptions c04_close_event.

(* "A client that disconnects at any point never disturbs the daemon": for every number of clients
   and every schedule (calls, deliveries in any order, disconnects anywhere, ticks, housekeeping),
   OlaServer::ClientRemoved never runs while a service method / Universe::UpdateDependants is on the
   stack (the model's hazard flag stays false).  Holds for the code with fixes/02 (RpcServer defers
   the notification to the event loop); it was refuted by a witness schedule before that fix
   (finding C04-sink-push-reentrant-close). *)
Theorem c04_disconnect_safe : forall n ops, st_hz (run (init_state n) ops) = false.
Proof. exact never_hazard. Qed.
Print Assumptions c04_disconnect_safe.

(* Invariants of every reachable state (any number of clients, any schedule): sink sets are
   duplicate free and contain only clients that still have a session; between steps no close
   notification is pending and no service method is running. *)
Theorem c04_reachable_wf : forall n ops,
  let st := run (init_state n) ops in
  (forall x, In x (sv_unis (st_sv st)) ->
     NoDup (u_sinks x) /\ forall s, In s (u_sinks x) -> sv_alive (st_sv st) s = true) /\
  st_pend st = [] /\ st_busy st = false.
Proof.
  intros n ops. cbn zeta. split; [exact (ok_reachable n ops)|].
  assert (quiet (init_state n)) as Q0 by (repeat split).
  pose proof (quiet_run (init_state n) ops Q0) as Q. unfold quiet in Q. destruct Q as (A & B & C). split; assumption.
Qed.
Print Assumptions c04_reachable_wf.

(* FIDELITY, any number of sources, any mix of open and half-closed sinks, no side hypotheses on
   the sink sets.  Let st0 be ANY reachable state and st the state in which srv_step runs the
   service method for client c (st0 with c's request popped and the busy mark set; see
   c04_fifo_partial for that shape).  When UpdateDmxData / StreamDmxData applies (d,p) from c to the
   existing universe x:
   - the source stored for (c,x) is exactly (d cut to 512 slots, now, clamped p);
   - the universe's active priority is the highest priority among the live stored sources (L), and
     with G the live sources at that priority: if the merge reports a change, c's new source is in
     G and the frame is the HTP merge of exactly the frames in G (HTP mode; for |G| = 1 that is the
     frame itself) or exactly c's frame, no member of G being newer (LTP mode); otherwise the frame
     is kept;
   - on a change every registered sink whose connection is open gets exactly one push with this
     universe number, that priority and that frame appended to its channel; clients that are not
     sinks (or have closed) are untouched; without a change no client is touched;
   - a fetch of x processed at that point, from any client, returns exactly that universe number,
     priority and frame. *)
Theorem c04_fidelity : forall n ops c k' x d p,
  let st0 := run (init_state n) ops in
  let st := set_busy (set_cl st0 c k') true in
  find_uni (sv_unis (st_sv st0)) (u_id x) = Some x ->
  let st' := apply_dmx st c x d p in
  let src := {| s_data := dmx_set d; s_ts := st_wake st0; s_prio := clamp_prio p |} in
  cd_find (sv_cdata (st_sv st')) (c, u_id x) = Some src /\
  exists x2 ch,
    find_uni (sv_unis (st_sv st')) (u_id x) = Some x2 /\
    merge_all (st_now st0) (sv_cdata (st_sv st'))
      {| u_id := u_id x; u_htp := u_htp x; u_name := u_name x; u_buf := u_buf x; u_aprio := u_aprio x;
         u_srcs := u_srcs x2; u_sinks := u_sinks x |} c = (x2, ch) /\
    u_srcs x2 = (if src_memb c (u_srcs x)
                 then map (fun e => if fst e =? c then (c, false) else e) (u_srcs x)
                 else u_srcs x ++ [(c, false)]) /\
    src_memb c (u_srcs x2) = true /\ u_sinks x2 = u_sinks x /\
    (let L := lives (st_now st0) (sv_cdata (st_sv st')) (u_id x) (u_srcs x2) in
     let G := group L in
     u_aprio x2 = top L /\
     (ch = false -> u_buf x2 = u_buf x) /\
     (ch = true -> In (c, src) G /\
        (u_htp x = true -> u_buf x2 = fold_left htp (map (fun e => s_data (snd e)) G) []) /\
        (u_htp x = false -> u_buf x2 = dmx_set d /\
                            (forall e, In e G -> s_ts (snd e) <= st_wake st0 \/ G = [(c, src)])))) /\
    (ch = true -> forall s, In s (u_sinks x) -> k_closed (st_cl st s) = false ->
       k_s2c (st_cl st' s) = k_s2c (st_cl st s) ++ [SPush (u_id x) (u_aprio x2) (u_buf x2)]) /\
    (ch = false -> st_cl st' = st_cl st) /\
    (forall y, ~ In y (u_sinks x) \/ k_closed (st_cl st y) = true -> st_cl st' y = st_cl st y) /\
    (forall rid y, snd (handle_req st' y (RGet rid (u_id x))) = Some (SDmx rid (u_id x) (u_aprio x2) (u_buf x2))).
Proof.
  intros n ops c k' x d p st0 st Hf.
  apply (apply_general st c x d p).
  - exact Hf.
  - exact (ok_reachable n ops).
  - apply pend_closed_reachable. cbn.
    assert (quiet (init_state n)) as Q0 by (repeat split).
    pose proof (quiet_run (init_state n) ops Q0) as Q. unfold quiet in Q. destruct Q as (A & B & C). exact A.
Qed.
Print Assumptions c04_fidelity.

(* what "live", "top" and "group" mean, and HTP pointwise *)
Theorem c04_merge_meaning :
  (forall now s, live now s = true <-> s_ts s <> 0 /\ now < s_ts s + 2500000 /\ s_data s <> []) /\
  (forall L e, In e (group L) <-> In e L /\ s_prio (snd e) = top L) /\
  (forall a b i, nth i (htp a b) 0 = N.max (nth i a 0) (nth i b 0)) /\
  (forall a b, length (htp a b) = Nat.max (length a) (length b)).
Proof.
  split.
  { intros now s. unfold live. change TIMEOUT_US with 2500000.
    rewrite !andb_true_iff, !negb_true_iff, N.eqb_neq, N.ltb_lt.
    destruct (s_data s); intuition (try discriminate; try congruence). }
  split.
  { intros L e. unfold group, at_prio. rewrite filter_In, N.eqb_eq. tauto. }
  split; [intros; apply htp_nth|intros; apply htp_length].
Qed.
Print Assumptions c04_merge_meaning.

(* FIFO, history level, every schedule: for every sender c the frames the server has applied for c
   form, in order, a subsequence of a prefix (consumed) of the frames c sent; the rest of what c
   sent (tail) is, while c's session exists, exactly what is still queued in c's channel, in order.
   (Subsequence rather than prefix because a send to a universe that does not exist is answered
   with an error / dropped and never applied.) *)
Theorem c04_fifo : forall n ops c,
  let st := run (init_state n) ops in
  exists consumed tail,
    sentc st c = consumed ++ tail /\ subseq (appc st c) consumed /\
    (sv_alive (st_sv st) c = true -> tail = pend_sends (k_c2s (st_cl st c))).
Proof. exact applied_in_send_order. Qed.
Print Assumptions c04_fifo.

(* EXACTLY ONCE, every schedule.  For every number of clients and every op list (calls, deliveries
   in any order, disconnects anywhere, clock ticks/jumps, housekeeping):
   (1) no request id's completion callback has run more than once;
   (2) for every client whose connection is up (it has not stopped) and whose two channels are
       drained, the outstanding table is empty and every request id that client ever issued has
       completed exactly once (with its result or an error: completions are only produced by the
       reply carrying that id, or at once by the "Not connected" path);
   (3) more generally, while a client is connected its outstanding table is a permutation of the
       request ids in flight in its two channels, and every id any client issued is completed or
       still in that client's outstanding table. *)
Theorem c04_once : forall n ops,
  let st := run (init_state n) ops in
  (forall r, (completions st r <= 1)%nat) /\
  (forall c, k_closed (st_cl st c) = false -> k_c2s (st_cl st c) = [] -> k_s2c (st_cl st c) = [] ->
     k_out (st_cl st c) = [] /\ forall r, In (c, r) (st_issued st) -> completions st r = 1%nat) /\
  (forall c, k_closed (st_cl st c) = false ->
     Permutation.Permutation (map fst (k_out (st_cl st c))) (inflight (st_cl st c))) /\
  (forall c r, In (c, r) (st_issued st) -> In r (st_done st) \/ In r (map fst (k_out (st_cl st c)))).
Proof.
  intros n ops. cbn zeta. split; [intros r; apply at_most_once|].
  split; [intros c; apply (drained_exactly_once n ops c)|].
  destruct (E_run _ ops (E_init n)) as (HB & HC & _). split; [exact HB|exact HC].
Qed.
Print Assumptions c04_once.

(* Every request kind of the client API completes through the same mechanism, whatever the size of
   its arguments or of its reply (the model has no size bound; the harness sends universe names of
   up to 15000 characters, ConfigureDevice payloads of up to 30000 bytes and list replies for 400
   universes after small traffic on the same connection): the service's reply to a request carries
   exactly that request's id (streamed frames and acks of pushes get none), so c04_once applies to
   DMX sends, fetches, registrations, merge mode, names, info and the ten opaque kinds alike. *)
Theorem c04_reply_id : forall st c r,
  match snd (handle_req st c r) with Some m => rs m | None => [] end = rq r.
Proof. exact reply_carries_id. Qed.
Print Assumptions c04_reply_id.

Example c04_once_nonvacuous :
  let st := run (init_state 2) [OReg 0 1 true; OFetch 0 1; OSrv 0; OSrv 0; OCli 0; OCli 0] in
  k_closed (st_cl st 0) = false /\ k_c2s (st_cl st 0) = [] /\ k_s2c (st_cl st 0) = [] /\
  st_issued st = [(0, 0); (0, 1)] /\ st_done st = [0; 1].
Proof. vm_compute. repeat split. Qed.

(* FIFO, exact form, every schedule.  For every sender c: what c sent = consumed ++ tail where the
   consumed requests are, in order, exactly an interleaving of the frames the server applied for c
   and the frames it refused because the universe did not exist (ghost log st_rejected), and tail is
   exactly what is still queued in c's channel while its session exists.  Hence, once c's channel is
   drained with its session kept, sent = interleaving of applied and refused, and if nothing was
   refused the applied log EQUALS the sent log. *)
Theorem c04_fifo_exact : forall n ops c,
  let st := run (init_state n) ops in
  (exists consumed tail,
     sentc st c = consumed ++ tail /\ interleave (appc st c) (rejc st c) consumed /\
     (sv_alive (st_sv st) c = true -> tail = pend_sends (k_c2s (st_cl st c)))) /\
  (sv_alive (st_sv st) c = true -> pend_sends (k_c2s (st_cl st c)) = [] ->
     interleave (appc st c) (rejc st c) (sentc st c) /\
     (rejc st c = [] -> appc st c = sentc st c)).
Proof.
  intros n ops c. cbn zeta. split; [apply (consumed_is_interleaving n ops c)|apply (drained_applied_eq_sent n ops c)].
Qed.
Print Assumptions c04_fifo_exact.

(* Every stored source carries a non-zero wake-up time of the past, in every reachable state. *)
Theorem c04_timestamps : forall n ops,
  let st := run (init_state n) ops in
  st_wake st <> 0 /\ st_wake st <= st_now st /\
  forall e, In e (sv_cdata (st_sv st)) -> s_ts (snd e) <> 0 /\ s_ts (snd e) <= st_wake st.
Proof. intros n ops. exact (ts_run _ ops (ts_init n)). Qed.
Print Assumptions c04_timestamps.

(* LTP, last writer wins, over reachable states (st0 reachable, service method running for c):
   if the sender's new source is live at the universe's top priority, then after the send the
   universe holds exactly the sender's frame (cut to 512), whatever the other sources hold.  (No
   timestamp side condition: by c04_timestamps nobody can be newer.) *)
Theorem c04_ltp_last_writer : forall n ops c k' x d p x2,
  let st0 := run (init_state n) ops in
  let st' := apply_dmx (inner st0 c k') c x d p in
  let src := {| s_data := dmx_set d; s_ts := st_wake st0; s_prio := clamp_prio p |} in
  find_uni (sv_unis (st_sv st0)) (u_id x) = Some x -> u_htp x = false ->
  find_uni (sv_unis (st_sv st')) (u_id x) = Some x2 ->
  In (c, src) (group (lives (st_now st0) (sv_cdata (st_sv st')) (u_id x) (u_srcs x2))) ->
  u_buf x2 = dmx_set d.
Proof. exact ltp_last_writer. Qed.
Print Assumptions c04_ltp_last_writer.

(* One sender, over reachable states, no side hypotheses on sink sets (supersedes
   c04_fidelity_partial): when c is the universe's only source (or the universe has none yet), the
   frame is non-empty and the loop iteration is shorter than the 2.5 s source timeout, the universe
   holds exactly that frame (cut to 512) with the clamped priority, every open registered sink gets
   exactly one push with that universe number, priority and frame, and a fetch returns it. *)
Theorem c04_fidelity_single : forall n ops c k' x d p,
  let st0 := run (init_state n) ops in
  let st' := apply_dmx (inner st0 c k') c x d p in
  find_uni (sv_unis (st_sv st0)) (u_id x) = Some x ->
  (u_srcs x = [] \/ exists b, u_srcs x = [(c, b)]) ->
  dmx_set d <> [] -> st_now st0 < st_wake st0 + 2500000 ->
  exists x2, find_uni (sv_unis (st_sv st')) (u_id x) = Some x2 /\
             u_buf x2 = dmx_set d /\ u_aprio x2 = clamp_prio p /\
             (forall s, In s (u_sinks x) -> k_closed (st_cl (inner st0 c k') s) = false ->
                k_s2c (st_cl st' s) = k_s2c (st_cl (inner st0 c k') s) ++ [SPush (u_id x) (clamp_prio p) (dmx_set d)]) /\
             (forall rid y, snd (handle_req st' y (RGet rid (u_id x))) = Some (SDmx rid (u_id x) (clamp_prio p) (dmx_set d))).
Proof. exact single_sender. Qed.
Print Assumptions c04_fidelity_single.

Example c04_fidelity_single_nonvacuous :
  let st0 := run (init_state 2) [OReg 0 1 true; OSrv 0; OSend false false 1 1 (Some 100) [7; 8]] in
  exists x, find_uni (sv_unis (st_sv st0)) 1 = Some x /\ u_id x = 1 /\ u_srcs x = [] /\ u_sinks x = [0] /\
            st_now st0 < st_wake st0 + 2500000.
Proof. cbn zeta. eexists. vm_compute. repeat split. Qed.

(* "A client that disconnects at any point stops contributing and never disturbs the others", over
   all histories.  c is gone in a state when it has stopped and the daemon has processed the
   disconnect (c04_disconnect: it is then in no source/sink set and has no stored frame).  For every
   history ops1 after which c is gone and EVERY continuation ops2:
   (1) c is still gone (it never contributes again: it has no session, so c04_disconnect's
       membership facts persist by c04_reachable_wf);
   (2) whatever c's process does next (any API call, reading its socket, stopping again) leaves
       the daemon, the clock, the wake-up time, every client's channels and tables, the pending
       closes and the DMX logs exactly as they were; it only consumes request numbers, and the only
       events produced are "Not connected" completions addressed to c;
   (3) a schedule step naming c's descriptor does nothing (tag 0, no events).
   NOT proved: the literal projection form (deleting c's later ops from the history yields the same
   observations for the others) — it needs a renaming of the globally numbered request ids. *)
Theorem c04_gone_inert : forall n ops1 ops2 c,
  gone (run (init_state n) ops1) c ->
  let st := run (run (init_state n) ops1) ops2 in
  gone st c /\
  (forall o, op_client o = Some c ->
     same_world (fst (fst (step st o))) st /\
     (forall e, In e (snd (step st o)) -> ev_client e = c /\ ev_is_notconn e = true)) /\
  srv_step st c = (st, 0).
Proof.
  intros n ops1 ops2 c G. cbn zeta.
  pose proof (gone_run _ ops2 c G) as G2.
  split; [exact G2|]. split; [intros o Ho; apply (gone_client_op _ c o G2 Ho)|].
  apply gone_srv_step. apply G2.
Qed.
Print Assumptions c04_gone_inert.

Example c04_gone_nonvacuous :
  gone (run (init_state 2) [OReg 0 1 true; OSrv 0; ODisc 0; OSrv 0]) 0.
Proof. split; vm_compute; reflexivity. Qed.

(* THE 2.5 s SOURCE TIMEOUT at the client API, over histories with clock ticks.  A stored frame only
   changes when the server applies a send of that client (or goes with the client); so if client c's
   frame for universe u was stored with timestamp ts in some state, then after ANY continuation in
   which nothing of c has been applied (c connected but silent), once the clock has reached
   ts + 2 500 000 us, c is in no universe's group of live sources: by c04_fidelity it contributes to
   no merge, whatever its priority. *)
Theorem c04_silent_times_out : forall st ops c u s,
  cd_find (sv_cdata (st_sv st)) (c, u) = Some s ->
  let st' := run st ops in
  length (appc st' c) = length (appc st c) ->
  s_ts s + 2500000 <= st_now st' ->
  forall srcs s', ~ In (c, s') (lives (st_now st') (sv_cdata (st_sv st')) u srcs).
Proof. exact silent_times_out. Qed.
Print Assumptions c04_silent_times_out.

Theorem c04_stored_only_by_send : forall st ops c u,
  let st' := run st ops in
  (length (appc st c) <= length (appc st' c))%nat /\
  (cd_find (sv_cdata (st_sv st')) (c, u) = cd_find (sv_cdata (st_sv st)) (c, u) \/
   cd_find (sv_cdata (st_sv st')) (c, u) = None \/
   (length (appc st c) < length (appc st' c))%nat).
Proof. intros st ops c u. exact (Q_run ops st c u). Qed.
Print Assumptions c04_stored_only_by_send.

Example c04_silent_times_out_nonvacuous :
  let st := run (init_state 2) [OReg 1 1 true; OSrv 1; OSend false false 0 1 (Some 150) [9]; OSrv 0] in
  let st' := run st [OTick 2500000] in
  exists s, cd_find (sv_cdata (st_sv st)) (0, 1) = Some s /\ s_ts s + 2500000 <= st_now st' /\
            length (appc st' 0) = length (appc st 0).
Proof.
  cbn zeta. exists {| s_data := [9]; s_ts := 1000000000; s_prio := 150 |}.
  vm_compute. repeat split; try reflexivity; discriminate.
Qed.

(* HOUSEKEEPING EVICTION (OlaServer::RunHousekeeping -> Universe::CleanStaleSourceClients), every
   server state: one run keeps exactly the sources that sent since the previous run and marks them;
   sink registrations, frames and priorities are untouched.  Two runs with no send in between leave
   every surviving universe without source clients, with its sink set intact: the silent client is
   evicted as a source but stays registered. *)
Theorem c04_housekeeping_eviction :
  (forall x, let x' := fst (clean_stale x) in
     u_id x' = u_id x /\ u_sinks x' = u_sinks x /\ u_buf x' = u_buf x /\ u_aprio x' = u_aprio x /\
     (forall c b, In (c, b) (u_srcs x') <-> b = true /\ In (c, false) (u_srcs x))) /\
  (forall sv x', In x' (sv_unis (housekeeping sv)) -> exists x, In x (sv_unis sv) /\ x' = fst (clean_stale x)) /\
  (forall sv x2, In x2 (sv_unis (housekeeping (housekeeping sv))) ->
     u_srcs x2 = [] /\ exists x, In x (sv_unis sv) /\ u_id x2 = u_id x /\ u_sinks x2 = u_sinks x).
Proof.
  split; [exact clean_stale_spec|]. split; [exact housekeeping_unis|exact housekeeping_twice].
Qed.
Print Assumptions c04_housekeeping_eviction.

(* END TO END ("what the client library sent is what a fetch observes"), single sender, composed
   through the API call, the poller step, the service method, the deferred clean-up, the fetch call,
   its poller step and the client-side completion.  From ANY reachable state: client c (connected,
   request channel drained) calls the streaming SendDMX(u, d, p); the poller dispatches c's
   descriptor; another connected, drained client y that is not registered for u calls FetchDMX(u),
   the poller dispatches y's descriptor and y's library reads the reply.  If c is the only source
   of the existing universe u and the frame is non-empty, y's callback runs once with success,
   universe u, priority min(p mod 256, 200) and exactly d cut to 512 slots. *)
Theorem c04_end_to_end : forall n ops c y u x d p,
  let st0 := run (init_state n) ops in
  c <> y ->
  k_closed (st_cl st0 c) = false -> sv_alive (st_sv st0) c = true -> k_c2s (st_cl st0 c) = [] ->
  k_closed (st_cl st0 y) = false -> sv_alive (st_sv st0) y = true ->
  k_c2s (st_cl st0 y) = [] -> k_s2c (st_cl st0 y) = [] ->
  find_uni (sv_unis (st_sv st0)) u = Some x ->
  (u_srcs x = [] \/ exists b, u_srcs x = [(c, b)]) -> ~ In y (u_sinks x) -> dmx_set d <> [] ->
  let st2 := run st0 [OSend false false c u (Some p) d; OSrv c] in
  snd (step (run st2 [OFetch y u; OSrv y]) (OCli y)) =
  [EFetch y (st_next st2) None u (clamp_prio (Some (u8 p))) (dmx_set d)].
Proof. exact end_to_end. Qed.
Print Assumptions c04_end_to_end.

Example c04_end_to_end_nonvacuous :
  let st0 := run (init_state 3) [OReg 2 1 true; OSrv 2; OCli 2] in
  exists x, find_uni (sv_unis (st_sv st0)) 1 = Some x /\ u_srcs x = [] /\ u_sinks x = [2] /\
    k_closed (st_cl st0 0) = false /\ sv_alive (st_sv st0) 0 = true /\ k_c2s (st_cl st0 0) = [] /\
    k_closed (st_cl st0 1) = false /\ sv_alive (st_sv st0) 1 = true /\
    k_c2s (st_cl st0 1) = [] /\ k_s2c (st_cl st0 1) = [].
Proof. cbn zeta. eexists. vm_compute. repeat split. Qed.

(* PIPELINED REQUESTS, THEN DISCONNECT BEFORE THE DAEMON RUNS (model run).  Client 0 queues an acked
   frame, a fetch and a rename and stops; the daemon then handles the head of the channel: the frame
   is applied and pushed to the registered client 1, the reply write fails, the session goes away
   from the event loop (no hazard), the fetch and the rename are dropped with the channel (the name
   stays default), nothing of client 0 ever completes, client 0 is in no source set and has no
   stored frame, and client 1 is untouched apart from the push. *)
Example c04_pipeline_disconnect :
  let st := run (init_state 2)
    [OReg 1 1 true; OSrv 1; OCli 1;
     OSend true false 0 1 (Some 100) [1; 2]; OFetch 0 1; OName 0 1 [65]; ODisc 0; OSrv 0] in
  st_hz st = false /\ sv_alive (st_sv st) 0 = false /\ k_c2s (st_cl st 0) = [] /\
  st_done st = [0] /\ st_applied st = [(0, (1, [1; 2], Some 100))] /\
  cd_find (sv_cdata (st_sv st)) (0, 1) = None /\
  map (fun x => (u_id x, u_name x, u_buf x, u_aprio x, u_srcs x, u_sinks x)) (sv_unis (st_sv st))
    = [(1, None, [1; 2], 100, [], [1])] /\
  k_s2c (st_cl st 1) = [SPush 1 100 [1; 2]] /\ sv_alive (st_sv st) 1 = true.
Proof. vm_compute. repeat split. Qed.

(* A DMX frame for a universe that does not exist (never created, or garbage-collected underneath a
   connected client) is refused, in any state: nothing in the daemon changes (only the ghost log of
   refused frames grows), an acknowledged send is answered with "Universe doesn't exist", a streamed
   one with nothing.  The daemon always consults the universe store: there is no per-client
   shortcut to a universe that could outlive it. *)
Theorem c04_missing_universe_refused : forall st c rid u d p,
  find_uni (sv_unis (st_sv st)) u = None ->
  handle_req st c (RUpdate rid u d p) = (log_rej st c (u, d, p), Some (SFail rid E_UNIVERSE)) /\
  handle_req st c (RStream u d p) = (log_rej st c (u, d, p), None) /\
  st_sv (log_rej st c (u, d, p)) = st_sv st /\ st_cl (log_rej st c (u, d, p)) = st_cl st.
Proof.
  intros st c rid u d p H. cbn [handle_req]. rewrite H. repeat split.
Qed.
Print Assumptions c04_missing_universe_refused.

(* the whole story on the model: client 1 sends to universe 7 (created by client 0's registration),
   client 0 unregisters, client 1 stays connected but silent for three housekeeping runs (marked,
   evicted, universe collected), then resumes: the frame is refused with the error, not applied,
   a fetch reports the universe missing, and a new registration starts from an empty universe *)
Example c04_collected_then_resumed :
  let st := run (init_state 2)
    [OReg 0 7 true; OSrv 0; OCli 0; OSend true false 1 7 (Some 100) [5; 6]; OSrv 1; OCli 1;
     OReg 0 7 false; OSrv 0; OCli 0; OHK; OHK; OHK;
     OSend true false 1 7 (Some 100) [5; 6]; OSrv 1] in
  sv_unis (st_sv st) = [] /\ st_rejected st = [(1, (7, [5; 6], Some 100))] /\
  st_applied st = [(1, (7, [5; 6], Some 100))] /\
  snd (step st (OCli 1)) = [EDone 1 3 (Some E_UNIVERSE)] /\ sv_alive (st_sv st) 1 = true.
Proof. vm_compute. repeat split. Qed.

(* back-pressure on the model (what the driver does for the harness op B): the sink that stopped
   servicing its connection is dropped by the daemon from the event loop at the first frame whose
   push cannot be written (no hazard), it is in no sink set afterwards, the well-behaved sink got
   every frame, the source's frames were all applied *)
Example c04_backpressure :
  let st := run (init_state 3)
    [OReg 2 1 true; OSrv 2; OCli 2; OReg 1 1 true; OSrv 1; OCli 1;
     ODisc 2; OSend false false 0 1 (Some 100) [9]; OSrv 0; OCli 1;
     OSend false false 0 1 (Some 100) [9]; OSrv 0; OCli 1] in
  st_hz st = false /\ sv_alive (st_sv st) 2 = false /\
  map u_sinks (sv_unis (st_sv st)) = [[1]] /\ map u_buf (sv_unis (st_sv st)) = [[9]] /\
  length (st_applied st) = 2%nat /\ k_s2c (st_cl st 1) = [].
Proof. vm_compute. repeat split. Qed.

(* hypotheses of c04_fidelity_partial are satisfiable, with a registered sink *)
Example c04_fidelity_nonvacuous :
  let st := run (init_state 2) [OReg 0 1 true; OSrv 0] in
  exists x, find_uni (sv_unis (st_sv st)) 1 = Some x /\ u_sinks x = [0] /\ u_srcs x = [] /\
            sv_alive (st_sv st) 0 = true /\ k_closed (st_cl st 0) = false /\ st_wake st <> 0 /\ st_now st < st_wake st + 2500000.
Proof. cbn zeta. eexists. vm_compute. repeat split; discriminate. Qed.
