From Coq Require Extraction.
From Coq Require Import ExtrOcamlBasic.
From OlaBase Require Import Bytes.
From C04 Require Import Gen Model.
Extraction Language OCaml.
Extraction "model.ml" io_witness N.div_eucl step init_state srv_can cli_can cd_find START_US N.sub.
