From OlaBase Require Import Bytes.
From C04 Require Import Gen Model.
Local Open Scope N_scope.

Lemma consts_ok : (DMX_UNIVERSE_SIZE, SOURCE_PRIORITY_MIN, SOURCE_PRIORITY_DEFAULT, SOURCE_PRIORITY_MAX, TIMEOUT_US)
  = (512, 0, 100, 200, 2500000).
Proof. reflexivity. Qed.

(* ------------------------------------------------------------------ basic list facts *)
Lemma memb_remv x l : memb x (remv x l) = false.
Proof.
  unfold memb, remv. induction l as [|y l IH]; cbn; [reflexivity|].
  destruct (y =? x) eqn:E; cbn; [exact IH|].
  rewrite IH. rewrite N.eqb_sym, E. reflexivity.
Qed.
Lemma memb_remv_other x y l : x <> y -> memb y (remv x l) = memb y l.
Proof.
  intros Hxy. unfold memb, remv. induction l as [|z l IH]; cbn; [reflexivity|].
  destruct (z =? x) eqn:E; cbn.
  - apply N.eqb_eq in E; subst z. rewrite IH.
    destruct (y =? x) eqn:E2; [apply N.eqb_eq in E2; congruence|reflexivity].
  - rewrite IH. reflexivity.
Qed.
Lemma src_memb_remv x l : src_memb x (src_remv x l) = false.
Proof.
  unfold src_memb, src_remv. induction l as [|y l IH]; cbn; [reflexivity|].
  destruct (fst y =? x) eqn:E; cbn; [exact IH|]. rewrite IH, E. reflexivity.
Qed.
Lemma src_memb_remv_other x y l : x <> y -> src_memb y (src_remv x l) = src_memb y l.
Proof.
  intros Hxy. unfold src_memb, src_remv. induction l as [|z l IH]; cbn; [reflexivity|].
  destruct (fst z =? x) eqn:E; cbn.
  - apply N.eqb_eq in E. rewrite IH.
    destruct (fst z =? y) eqn:E2; [apply N.eqb_eq in E2; congruence|reflexivity].
  - rewrite IH. reflexivity.
Qed.

Lemma cd_find_del_same m c u : cd_find (cd_del_client m c) (c, u) = None.
Proof.
  unfold cd_find, cd_del_client. induction m as [|e m IH]; cbn; [reflexivity|].
  destruct (fst (fst e) =? c) eqn:E; cbn; [exact IH|].
  unfold key_eqb at 1. cbn. rewrite E. cbn. exact IH.
Qed.
Lemma cd_find_del_other m c y u : y <> c -> cd_find (cd_del_client m c) (y, u) = cd_find m (y, u).
Proof.
  intros Hy. unfold cd_find, cd_del_client. induction m as [|e m IH]; cbn; [reflexivity|].
  destruct (fst (fst e) =? c) eqn:E; cbn.
  - apply N.eqb_eq in E. unfold key_eqb at 2. cbn.
    destruct (fst (fst e) =? y) eqn:E2; [apply N.eqb_eq in E2; congruence|]. cbn. exact IH.
  - destruct (key_eqb (fst e) (y, u)); [reflexivity|exact IH].
Qed.

(* ------------------------------------------------------------------ disconnect *)
Lemma drop_client_spec c x :
  let x' := fst (uni_drop_client c x) in
  src_memb c (u_srcs x') = false /\ memb c (u_sinks x') = false /\
  u_id x' = u_id x /\ u_buf x' = u_buf x /\ u_aprio x' = u_aprio x /\ u_htp x' = u_htp x /\
  u_name x' = u_name x /\
  (forall y, y <> c -> src_memb y (u_srcs x') = src_memb y (u_srcs x) /\
                       memb y (u_sinks x') = memb y (u_sinks x)).
Proof.
  unfold uni_drop_client; cbn.
  repeat split; try reflexivity.
  - apply src_memb_remv.
  - apply memb_remv.
  - apply src_memb_remv_other; congruence.
  - apply memb_remv_other; congruence.
Qed.

Lemma client_removed_spec sv c :
  let sv' := client_removed sv c in
  sv_alive sv' c = false /\
  (forall u, cd_find (sv_cdata sv') (c, u) = None) /\
  (forall x', In x' (sv_unis sv') -> src_memb c (u_srcs x') = false /\ memb c (u_sinks x') = false) /\
  (forall y, y <> c -> sv_alive sv' y = sv_alive sv y) /\
  (forall y u, y <> c -> cd_find (sv_cdata sv') (y, u) = cd_find (sv_cdata sv) (y, u)) /\
  map u_id (sv_unis sv') = map u_id (sv_unis sv) /\
  map u_buf (sv_unis sv') = map u_buf (sv_unis sv) /\
  map u_aprio (sv_unis sv') = map u_aprio (sv_unis sv) /\
  map u_htp (sv_unis sv') = map u_htp (sv_unis sv) /\
  map u_name (sv_unis sv') = map u_name (sv_unis sv) /\
  (forall y, y <> c ->
     map (fun x => (src_memb y (u_srcs x), memb y (u_sinks x))) (sv_unis sv') =
     map (fun x => (src_memb y (u_srcs x), memb y (u_sinks x))) (sv_unis sv)).
Proof.
  unfold client_removed; cbn.
  split; [unfold updf; rewrite N.eqb_refl; reflexivity|].
  split; [intros u; apply cd_find_del_same|].
  split.
  { intros x' Hin. rewrite map_map in Hin. apply in_map_iff in Hin as (x & <- & _).
    pose proof (drop_client_spec c x) as H. cbn in H. tauto. }
  split; [intros y Hy; unfold updf; destruct (y =? c) eqn:E; [apply N.eqb_eq in E; congruence|reflexivity]|].
  split; [intros y u Hy; apply cd_find_del_other; exact Hy|].
  rewrite !map_map.
  repeat split; try (apply map_ext; intros x; reflexivity).
  intros y Hy. rewrite map_map. apply map_ext. intros x.
  pose proof (drop_client_spec c x) as H. cbn in H.
  destruct H as (_ & _ & _ & _ & _ & _ & _ & H). destruct (H y Hy) as [H1 H2].
  cbn. rewrite H1, H2. reflexivity.
Qed.

(* ------------------------------------------------------------------ request-table ghost frame *)
(* what the at-most-once argument looks at: ids handed out, completions, outstanding tables *)
Definition tbl (st : state) := (st_next st, st_done st, fun c => k_out (st_cl st c)).
Definition tbl_eq (a b : state) : Prop :=
  st_next a = st_next b /\ st_done a = st_done b /\ forall c, k_out (st_cl a c) = k_out (st_cl b c).

Lemma tbl_refl a : tbl_eq a a. Proof. repeat split. Qed.
Lemma tbl_trans a b c : tbl_eq a b -> tbl_eq b c -> tbl_eq a c.
Proof.
  intros (A1 & A2 & A3) (B1 & B2 & B3). split; [congruence|]. split; [congruence|].
  intros x. rewrite A3. apply B3.
Qed.

Lemma tbl_set_cl st c k : k_out k = k_out (st_cl st c) -> tbl_eq (set_cl st c k) st.
Proof.
  intros H. repeat split. intros x. cbn. unfold updf. destruct (x =? c) eqn:E; [|reflexivity].
  apply N.eqb_eq in E; subst. exact H.
Qed.
Lemma tbl_set_sv st sv : tbl_eq (set_sv st sv) st. Proof. repeat split. Qed.
Lemma tbl_set_hz st : tbl_eq (set_hz st) st. Proof. repeat split. Qed.

Lemma tbl_set_pend st l : tbl_eq (set_pend st l) st. Proof. repeat split. Qed.
Lemma tbl_set_busy st b : tbl_eq (set_busy st b) st. Proof. repeat split. Qed.

Lemma tbl_kill st c : tbl_eq (kill st c) st.
Proof.
  unfold kill. eapply tbl_trans; [apply tbl_set_cl; destruct (st_busy st); reflexivity|].
  eapply tbl_trans; [apply tbl_set_sv|]. destruct (st_busy st); [apply tbl_set_hz|apply tbl_refl].
Qed.
Lemma tbl_close_chan st x : tbl_eq (close_chan st x) st.
Proof. unfold close_chan. destruct (memb x (st_pend st)); [apply tbl_refl|apply tbl_set_pend]. Qed.
Lemma tbl_fold_kill l : forall st, tbl_eq (fold_left kill l st) st.
Proof.
  induction l as [|x l IH]; intros st; cbn; [apply tbl_refl|].
  eapply tbl_trans; [apply IH|apply tbl_kill].
Qed.
Lemma tbl_flush st : tbl_eq (flush st) st.
Proof. unfold flush. eapply tbl_trans; [apply tbl_fold_kill|apply tbl_set_pend]. Qed.
Lemma tbl_send_to st x m : tbl_eq (send_to st x m) st.
Proof.
  unfold send_to. destruct (negb (sv_alive (st_sv st) x)); [apply tbl_refl|].
  destruct (memb x (st_pend st)); [apply tbl_refl|].
  destruct (k_closed (st_cl st x)); [apply tbl_close_chan|]. apply tbl_set_cl. reflexivity.
Qed.
Lemma tbl_push_sink u p d st x : tbl_eq (push_sink u p d st x) st.
Proof. apply tbl_send_to. Qed.
Lemma tbl_update_dependants st x : tbl_eq (update_dependants st x) st.
Proof.
  unfold update_dependants. generalize (u_sinks x) st. intros l. induction l as [|s l IH]; intros st0; cbn.
  - apply tbl_refl.
  - eapply tbl_trans; [apply IH|apply tbl_push_sink].
Qed.
Lemma tbl_apply_dmx st c x d p : tbl_eq (apply_dmx st c x d p) st.
Proof.
  unfold apply_dmx. destruct (merge_all _ _ _ _) as [x2 ch].
  destruct ch.
  - eapply tbl_trans; [apply tbl_update_dependants|]. repeat split.
  - repeat split.
Qed.
Lemma tbl_handle_req st c r : tbl_eq (fst (handle_req st c r)) st.
Proof.
  destruct r; cbn [handle_req].
  - destruct (find_uni _ _); cbn; [apply tbl_apply_dmx|repeat split].
  - destruct (find_uni _ _); cbn; [apply tbl_apply_dmx|repeat split].
  - destruct (find_uni _ _); cbn; apply tbl_refl.
  - destruct on; destruct (find_uni _ _); cbn; repeat split.
  - destruct (find_uni _ _); cbn; repeat split.
  - destruct (find_uni _ _); cbn; repeat split.
  - destruct (find_uni _ _); cbn; apply tbl_refl.
  - apply tbl_refl.
  - apply tbl_refl.
Qed.
Lemma tbl_srv_step st c : tbl_eq (fst (srv_step st c)) st.
Proof.
  unfold srv_step. destruct (negb (sv_alive (st_sv st) c)); [apply tbl_refl|].
  destruct (k_c2s (st_cl st c)) as [|r rest] eqn:E.
  - destruct (k_closed (st_cl st c)); cbn; [|apply tbl_refl].
    eapply tbl_trans; [apply tbl_flush|apply tbl_close_chan].
  - match goal with |- context [handle_req ?s c r] => pose proof (tbl_handle_req s c r) as H;
      destruct (handle_req s c r) as [st2 rep] end.
    cbn in H. cbn [fst].
    assert (tbl_eq st2 st) as H2.
    { eapply tbl_trans; [exact H|]. eapply tbl_trans; [apply tbl_set_busy|]. apply tbl_set_cl. reflexivity. }
    eapply tbl_trans; [apply tbl_flush|]. eapply tbl_trans; [apply tbl_set_busy|].
    destruct rep; [eapply tbl_trans; [apply tbl_send_to|exact H2]|exact H2].
Qed.
