(* exactly-once half: while a client's connection is up, its outstanding table is exactly the
   multiset of request ids in flight in its two channels, and every id it issued is either
   completed or outstanding; hence once both channels are drained every request it issued has
   completed (and, by Once.v, exactly once). *)
From Coq Require Import Permutation.
From OlaBase Require Import Bytes.
From C04 Require Import Gen Model Proofs Once Wf Fidelity2.
Local Open Scope N_scope.

Definition rq (r : req) : list N :=
  match r with
  | RUpdate rid _ _ _ | RGet rid _ | RReg rid _ _ | RMode rid _ _ | RName rid _ _ | RInfo rid _
  | ROpq rid _ _ => [rid]
  | RStream _ _ _ | RAck => []
  end.
Definition rs (m : smsg) : list N := match msg_rid m with Some r => [r] | None => [] end.
Definition rqs (q : list req) : list N := flat_map rq q.
Definition rss (q : list smsg) : list N := flat_map rs q.
(* request ids in flight for a client: in its request channel or in its reply channel *)
Definition inflight (k : client) : list N := rqs (k_c2s k) ++ rss (k_s2c k).

Definition B (st : state) : Prop :=
  forall y, k_closed (st_cl st y) = false -> Permutation (outs st y) (inflight (st_cl st y)).
Definition C (st : state) : Prop :=
  forall y r, In (y, r) (st_issued st) -> In r (st_done st) \/ In r (outs st y).
Definition EInv (st : state) : Prop := B st /\ C st /\ st_pend st = [].

(* server-side bookkeeping: nothing an open client's request ids depend on changes *)
Definition R (a b : state) : Prop :=
  st_issued a = st_issued b /\ st_done a = st_done b /\
  (forall y, k_out (st_cl a y) = k_out (st_cl b y) /\ k_closed (st_cl a y) = k_closed (st_cl b y)) /\
  (forall y, k_closed (st_cl b y) = false ->
     k_c2s (st_cl a y) = k_c2s (st_cl b y) /\ rss (k_s2c (st_cl a y)) = rss (k_s2c (st_cl b y))).
Lemma R_refl a : R a a. Proof. repeat split; reflexivity. Qed.
Lemma R_trans a b c : R a b -> R b c -> R a c.
Proof.
  intros (A1 & A2 & A3 & A4) (B1 & B2 & B3 & B4).
  split; [congruence|]. split; [congruence|]. split.
  - intros y. destruct (A3 y), (B3 y). split; congruence.
  - intros y Hy. destruct (B4 y Hy) as [E1 E2].
    assert (k_closed (st_cl b y) = false) as Hb by (destruct (B3 y); congruence).
    destruct (A4 y Hb) as [E3 E4]. split; congruence.
Qed.
Lemma R_inv a b : R a b -> B b -> C b -> B a /\ C a.
Proof.
  intros (E1 & E2 & E3 & E4) HB HC. split.
  - intros y Hy. assert (k_closed (st_cl b y) = false) as Hb by (destruct (E3 y); congruence).
    unfold outs, inflight. destruct (E3 y) as [-> _]. destruct (E4 y Hb) as [-> ->]. apply HB. exact Hb.
  - intros y r Hin. rewrite E1 in Hin. rewrite E2. unfold outs. destruct (E3 y) as [-> _]. apply HC. exact Hin.
Qed.
Lemma R_pc a b : R a b -> st_pend a = st_pend b -> pend_closed b -> pend_closed a.
Proof. intros (_ & _ & H & _) E P y Hy. rewrite E in Hy. destruct (H y) as [_ ->]. apply P. exact Hy. Qed.

Lemma R_close_chan st x : pend_closed st -> k_closed (st_cl st x) = true ->
  R (close_chan st x) st /\ pend_closed (close_chan st x).
Proof.
  intros P Hc. unfold close_chan. destruct (memb x (st_pend st)); [split; [apply R_refl|exact P]|].
  split; [repeat split; reflexivity|]. intros y Hy. cbn in Hy |- *.
  apply in_app_or in Hy as [Hy|[<-|[]]]; [apply P; exact Hy|exact Hc].
Qed.

(* a send towards x of any message: everybody else untouched; x gets it iff open, alive, not pending *)
Lemma send_to_full st x m : pend_closed st ->
  let st' := send_to st x m in
  st_issued st' = st_issued st /\ st_done st' = st_done st /\ st_sv st' = st_sv st /\
  pend_closed st' /\
  (forall y, y <> x -> st_cl st' y = st_cl st y) /\
  k_out (st_cl st' x) = k_out (st_cl st x) /\ k_closed (st_cl st' x) = k_closed (st_cl st x) /\
  k_c2s (st_cl st' x) = k_c2s (st_cl st x) /\
  (k_s2c (st_cl st' x) = k_s2c (st_cl st x) \/
   (k_closed (st_cl st x) = false /\ k_s2c (st_cl st' x) = k_s2c (st_cl st x) ++ [m])) /\
  (k_closed (st_cl st x) = false -> sv_alive (st_sv st) x = true ->
     k_s2c (st_cl st' x) = k_s2c (st_cl st x) ++ [m]).
Proof.
  intros P. cbn zeta. unfold send_to.
  destruct (sv_alive (st_sv st) x) eqn:Ha; cbn [negb].
  2:{ repeat split; try assumption; try reflexivity. left; reflexivity. discriminate. }
  destruct (memb x (st_pend st)) eqn:Em.
  { apply memb_in in Em. pose proof (P x Em) as Hc.
    repeat split; try assumption; try reflexivity. left; reflexivity. rewrite Hc; discriminate. }
  destruct (k_closed (st_cl st x)) eqn:Ec.
  - destruct (R_close_chan st x P Ec) as [_ P1].
    unfold close_chan in *. rewrite Em in *. cbn.
    repeat split; try assumption; try reflexivity. left; reflexivity. discriminate.
  - cbn. unfold updf. rewrite N.eqb_refl. cbn.
    repeat split; try reflexivity.
    + intros y Hy. cbn in Hy. cbn [st_cl set_cl]. unfold updf. destruct (y =? x) eqn:E.
      * apply N.eqb_eq in E; subst. apply P in Hy. congruence.
      * apply P. exact Hy.
    + intros y Hy. destruct (y =? x) eqn:E; [apply N.eqb_eq in E; congruence|reflexivity].
    + right. split; reflexivity.
Qed.

Lemma R_send_push st x m : rs m = [] -> pend_closed st ->
  R (send_to st x m) st /\ pend_closed (send_to st x m).
Proof.
  intros Hm P. destruct (send_to_full st x m P) as (E1 & E2 & _ & P' & Eo & Ek & Ec & Eq & Es & _).
  cbn zeta in *. split; [|exact P'].
  split; [exact E1|]. split; [exact E2|]. split.
  - intros y. destruct (N.eq_dec y x) as [->|Hne]; [split; assumption|rewrite (Eo y Hne); split; reflexivity].
  - intros y Hy. destruct (N.eq_dec y x) as [->|Hne]; [|rewrite (Eo y Hne); split; reflexivity].
    split; [exact Eq|]. destruct Es as [->|[_ ->]]; [reflexivity|].
    unfold rss. rewrite flat_map_app. cbn. rewrite Hm, !app_nil_r. reflexivity.
Qed.

Lemma R_update_dependants st x : pend_closed st ->
  R (update_dependants st x) st /\ pend_closed (update_dependants st x).
Proof.
  unfold update_dependants. generalize (u_sinks x) st. intros l. induction l as [|s l IH]; intros st0 P; cbn.
  - split; [apply R_refl|exact P].
  - destruct (R_send_push st0 s (SPush (u_id x) (u_aprio x) (u_buf x)) eq_refl P) as [R1 P1].
    destruct (IH _ P1) as [R2 P2]. split; [eapply R_trans; [exact R2|exact R1]|exact P2].
Qed.

Lemma R_apply_dmx st c x d p : pend_closed st ->
  R (apply_dmx st c x d p) st /\ pend_closed (apply_dmx st c x d p) /\
  sv_alive (st_sv (apply_dmx st c x d p)) = sv_alive (st_sv st).
Proof.
  intros P. split; [|split].
  - unfold apply_dmx. destruct (merge_all _ _ _ _) as [x2 ch].
    match goal with |- context [if ch then update_dependants ?s x2 else ?s] => set (st3 := s) end.
    assert (R st3 st) as R3 by (repeat split; reflexivity).
    destruct ch; [|exact R3].
    destruct (R_update_dependants st3 x2 P) as [R4 _]. eapply R_trans; eassumption.
  - unfold apply_dmx. destruct (merge_all _ _ _ _) as [x2 ch].
    match goal with |- context [if ch then update_dependants ?s x2 else ?s] => set (st3 := s) end.
    destruct ch; [|exact P]. apply (R_update_dependants st3 x2 P).
  - destruct (sv_apply_dmx st c x d p) as (x2 & ch & cd & srcs & _ & ->). reflexivity.
Qed.

(* a service method: bookkeeping only, sessions kept, and the reply carries the request's id *)
Lemma handle_req_R st c r : pend_closed st ->
  R (fst (handle_req st c r)) st /\ pend_closed (fst (handle_req st c r)) /\
  sv_alive (st_sv (fst (handle_req st c r))) = sv_alive (st_sv st) /\
  match snd (handle_req st c r) with Some m => rs m | None => [] end = rq r.
Proof.
  intros P. destruct r; cbn [handle_req].
  - destruct (find_uni _ _) as [x|]; cbn [fst snd].
    + destruct (R_apply_dmx st c x d p P) as (A & B0 & C0).
      split; [exact A|]. split; [exact B0|]. split; [exact C0|reflexivity].
    + split; [repeat split; reflexivity|]. split; [exact P|]. split; reflexivity.
  - destruct (find_uni _ _) as [x|]; cbn [fst snd].
    + destruct (R_apply_dmx st c x d p P) as (A & B0 & C0).
      split; [exact A|]. split; [exact B0|]. split; [exact C0|reflexivity].
    + split; [repeat split; reflexivity|]. split; [exact P|]. split; reflexivity.
  - destruct (find_uni _ _); cbn; (split; [apply R_refl|]; split; [exact P|]; split; reflexivity).
  - destruct on; destruct (find_uni _ _); cbn;
      (split; [repeat split; reflexivity|]; split; [exact P|]; split; reflexivity).
  - destruct (find_uni _ _); cbn; (split; [repeat split; reflexivity|]; split; [exact P|]; split; reflexivity).
  - destruct (find_uni _ _); cbn; (split; [repeat split; reflexivity|]; split; [exact P|]; split; reflexivity).
  - destruct (find_uni _ _); cbn; (split; [apply R_refl|]; split; [exact P|]; split; reflexivity).
  - cbn. split; [apply R_refl|]. split; [exact P|]. split; [reflexivity|]. destruct (opq_err _ _ _); reflexivity.
  - cbn. split; [apply R_refl|]. split; [exact P|]. split; reflexivity.
Qed.

Lemma R_kill st x : k_closed (st_cl st x) = true -> R (kill st x) st.
Proof.
  intros Hc. unfold kill. destruct (st_busy st);
  (split; [reflexivity|]; split; [reflexivity|]; split;
   [intros y; cbn; unfold updf; destruct (y =? x) eqn:E; [apply N.eqb_eq in E; subst; cbn; split; reflexivity|split; reflexivity]
   |intros y Hy; cbn; unfold updf; destruct (y =? x) eqn:E; [apply N.eqb_eq in E; subst; congruence|split; reflexivity]]).
Qed.
Lemma R_fold_kill l : forall st, (forall x, In x l -> k_closed (st_cl st x) = true) -> R (fold_left kill l st) st.
Proof.
  induction l as [|x l IH]; intros st H; cbn; [apply R_refl|].
  pose proof (R_kill st x (H x (or_introl eq_refl))) as R1.
  eapply R_trans; [apply IH|exact R1].
  intros y Hy. destruct R1 as (_ & _ & E & _). destruct (E y) as [_ ->]. apply H. right; exact Hy.
Qed.
Lemma R_flush st : pend_closed st -> R (flush st) st /\ st_pend (flush st) = [].
Proof.
  intros P. unfold flush. split.
  - eapply R_trans; [apply R_fold_kill; intros x Hx; apply P; exact Hx|repeat split; reflexivity].
  - assert (forall l s, st_pend (fold_left kill l s) = st_pend s) as Hk.
    { induction l as [|x l IH]; intros s; cbn; [reflexivity|]. rewrite IH. unfold kill. destruct (st_busy s); reflexivity. }
    rewrite Hk. reflexivity.
Qed.

Lemma E_srv_step st c : EInv st -> EInv (fst (srv_step st c)).
Proof.
  intros (HB & HC & Hp). unfold srv_step.
  destruct (sv_alive (st_sv st) c) eqn:Ha; cbn [negb]; [|repeat split; assumption].
  assert (pend_closed st) as P by (apply pend_closed_reachable; exact Hp).
  destruct (k_c2s (st_cl st c)) as [|r rest] eqn:Eq.
  - destruct (k_closed (st_cl st c)) eqn:Ec; cbn [fst]; [|repeat split; assumption].
    destruct (R_close_chan st c P Ec) as [R1 P1]. destruct (R_flush _ P1) as [R2 E2].
    destruct (R_inv _ _ (R_trans _ _ _ R2 R1) HB HC). repeat split; assumption.
  - set (k := st_cl st c) in *.
    set (st1 := set_busy (set_cl st c {| k_closed := k_closed k; k_out := k_out k; k_c2s := rest; k_s2c := k_s2c k |}) true).
    assert (pend_closed st1) as P1.
    { intros y Hy. cbn in Hy |- *. unfold updf. destruct (y =? c) eqn:E; [apply N.eqb_eq in E; subst; cbn; apply P; exact Hy|apply P; exact Hy]. }
    (* B and C for st1, except that c's request r has left its channel *)
    assert (C st1) as C1.
    { intros y r0 Hin. cbn in Hin. destruct (HC y r0 Hin) as [H|H]; [left; exact H|right].
      unfold outs in *. cbn. unfold updf. destruct (y =? c) eqn:E; [apply N.eqb_eq in E; subst; exact H|exact H]. }
    assert (forall y, y <> c -> k_closed (st_cl st1 y) = false -> Permutation (outs st1 y) (inflight (st_cl st1 y))) as B1o.
    { intros y Hne Hy. unfold outs in *. cbn in Hy |- *. unfold updf in *.
      destruct (y =? c) eqn:E; [apply N.eqb_eq in E; congruence|]. apply HB. exact Hy. }
    destruct (handle_req_R st1 c r P1) as (R2 & P2 & A2 & Hrid).
    destruct (handle_req st1 c r) as [st2 rep]. cbn [fst snd] in *.
    set (st3 := match rep with None => st2 | Some m => send_to st2 c m end).
    assert (B st3 /\ C st3 /\ pend_closed st3) as (B3 & C3 & P3).
    { pose proof R2 as (E1 & E2 & E3 & E4).
      assert (C st2) as C2.
      { intros y r0 Hin. rewrite E1 in Hin. rewrite E2. unfold outs. destruct (E3 y) as [-> _]. apply C1. exact Hin. }
      assert (forall y, y <> c -> k_closed (st_cl st2 y) = false -> Permutation (outs st2 y) (inflight (st_cl st2 y))) as B2o.
      { intros y Hne Hy. assert (k_closed (st_cl st1 y) = false) as Hy1 by (destruct (E3 y); congruence).
        unfold outs, inflight. destruct (E3 y) as [-> _]. destruct (E4 y Hy1) as [-> ->]. apply B1o; assumption. }
      (* what send_to does with the reply *)
      assert (st_issued st3 = st_issued st2 /\ st_done st3 = st_done st2 /\ pend_closed st3 /\
              (forall y, y <> c -> st_cl st3 y = st_cl st2 y) /\
              k_out (st_cl st3 c) = k_out (st_cl st2 c) /\ k_closed (st_cl st3 c) = k_closed (st_cl st2 c) /\
              k_c2s (st_cl st3 c) = k_c2s (st_cl st2 c) /\
              (k_closed (st_cl st2 c) = false ->
               rss (k_s2c (st_cl st3 c)) = rss (k_s2c (st_cl st2 c)) ++ rq r))
        as (S1 & S2 & P3 & So & Sk & Sc & Sq & Ss).
      { subst st3. destruct rep as [m|].
        - destruct (send_to_full st2 c m P2) as (F1 & F2 & _ & F4 & F5 & F6 & F7 & F8 & _ & F10). cbn zeta in *.
          repeat split; try assumption. intros Hc2. rewrite F10; [|exact Hc2|rewrite A2; exact Ha].
          unfold rss. rewrite flat_map_app. cbn. rewrite app_nil_r, Hrid. reflexivity.
        - repeat split; try assumption; try reflexivity. intros _. rewrite <- Hrid, app_nil_r. reflexivity. }
      split; [|split; [|exact P3]].
      - intros y Hy. destruct (N.eq_dec y c) as [->|Hne].
        + (* the requester, still connected *)
          assert (k_closed (st_cl st2 c) = false) as Hc2 by congruence.
          assert (k_closed (st_cl st1 c) = false) as Hc1 by (destruct (E3 c); congruence).
          assert (k_closed k = false) as Hck.
          { cbn in Hc1. unfold updf in Hc1. rewrite N.eqb_refl in Hc1. exact Hc1. }
          unfold outs, inflight. rewrite Sk, Sq, (Ss Hc2).
          destruct (E3 c) as [-> _]. destruct (E4 c Hc1) as [-> ->].
          cbn [st_cl st1 set_busy set_cl]. unfold updf. rewrite N.eqb_refl. cbn [k_out k_c2s k_s2c].
          pose proof (HB c Hck) as Hb. unfold outs, inflight in Hb. fold k in Hb. rewrite Eq in Hb.
          unfold rqs in Hb. cbn [flat_map] in Hb. fold (rqs rest) in Hb.
          eapply Permutation_trans; [exact Hb|].
          rewrite <- app_assoc. rewrite (app_assoc (rqs rest)).
          apply Permutation_app_comm.
        + unfold outs, inflight. rewrite (So y Hne). apply B2o; [exact Hne|]. rewrite <- (So y Hne). exact Hy.
      - intros y r0 Hin. rewrite S1 in Hin. rewrite S2. unfold outs.
        destruct (N.eq_dec y c) as [->|Hne]; [rewrite Sk|rewrite (So y Hne)]; apply C2; exact Hin. }
    assert (pend_closed (set_busy st3 false)) as P4 by exact P3.
    destruct (R_flush _ P4) as [R5 E5].
    assert (B (set_busy st3 false) /\ C (set_busy st3 false)) as [B4 C4] by (split; assumption).
    destruct (R_inv _ _ R5 B4 C4). repeat split; assumption.
Qed.

(* steps that touch neither request tables, channels, nor the issued / completed logs *)
Lemma E_same st st' :
  EInv st -> st_cl st' = st_cl st -> st_issued st' = st_issued st -> st_done st' = st_done st ->
  st_pend st' = st_pend st -> EInv st'.
Proof.
  intros (HB & HC & Hp) E1 E2 E3 E4. unfold EInv, B, C, outs. rewrite E1, E2, E3, E4. repeat split; assumption.
Qed.

Lemma out_take_perm rid l kd l' :
  out_take rid l = Some (kd, l') -> Permutation (map fst l) (rid :: map fst l').
Proof.
  revert kd l'. induction l as [|[r k] t IH]; intros kd l' H; cbn in H; [discriminate|].
  destruct (r =? rid) eqn:E.
  - apply N.eqb_eq in E; subst. inversion H; subst. cbn. apply Permutation_refl.
  - destruct (out_take rid t) as [[k' t']|] eqn:Et; [|discriminate]. inversion H; subst. cbn.
    eapply Permutation_trans; [apply perm_skip, (IH _ _ eq_refl)|]. apply perm_swap.
Qed.
Lemma out_take_none rid l : out_take rid l = None -> ~ In rid (map fst l).
Proof.
  induction l as [|[r k] t IH]; cbn; intros H; [tauto|].
  destruct (r =? rid) eqn:E; [discriminate|].
  destruct (out_take rid t) as [[k' t']|]; [discriminate|].
  apply N.eqb_neq in E. intros [Hx|Hx]; [congruence|exact (IH eq_refl Hx)].
Qed.

Lemma E_cli_step st c : EInv st -> EInv (fst (fst (cli_step st c))).
Proof.
  intros I. pose proof I as (HB & HC & Hp). unfold cli_step.
  destruct (k_closed (st_cl st c)) eqn:Ec; [exact I|].
  destruct (k_s2c (st_cl st c)) as [|m rest] eqn:Es; [exact I|].
  pose proof (HB c Ec) as Hb. unfold outs, inflight in Hb. rewrite Es in Hb.
  (* a message without request id (a push): only the channels move *)
  assert (forall k', k_out k' = k_out (st_cl st c) -> k_closed k' = false ->
            rqs (k_c2s k') = rqs (k_c2s (st_cl st c)) -> k_s2c k' = rest -> rs m = [] ->
            EInv (set_cl st c k')) as Hpush.
  { intros k' Ko Kc Kq Ks Hm. split; [|split; [|exact Hp]].
    - intros y Hy. unfold outs, inflight in *. cbn in Hy |- *. unfold updf in *.
      destruct (y =? c) eqn:E; [|apply HB; exact Hy]. rewrite Ko, Kq, Ks.
      unfold rss in Hb. cbn [flat_map] in Hb. rewrite Hm in Hb. exact Hb.
    - intros y r Hin. destruct (HC y r Hin) as [H|H]; [left; exact H|right].
      unfold outs in *. cbn. unfold updf. destruct (y =? c) eqn:E; [apply N.eqb_eq in E; subst; rewrite Ko; exact H|exact H]. }
  destruct m as [rid|rid e|rid u p d|rid u nm h|u p d]; cbn [msg_rid].
  5: { cbn [fst]. apply Hpush; try reflexivity. cbn. unfold rqs. rewrite flat_map_app. cbn. rewrite app_nil_r. reflexivity. }
  all: match type of Hb with context [rss (?m0 :: ?rr)] =>
         change (rss (m0 :: rr)) with (rid :: rss rr) in Hb end;
       assert (In rid (map fst (k_out (st_cl st c)))) as Hin
         by (eapply Permutation_in; [apply Permutation_sym; exact Hb|apply in_or_app; right; left; reflexivity]);
       destruct (out_take rid (k_out (st_cl st c))) as [[kd o]|] eqn:Eo;
         [|exfalso; exact (out_take_none _ _ Eo Hin)];
       cbn [fst]; pose proof (out_take_perm _ _ _ _ Eo) as Hpm;
       (split; [|split; [|exact Hp]]);
       [ intros y Hy; unfold outs, inflight in *; cbn in Hy |- *; unfold updf in *;
         destruct (y =? c) eqn:E; [|apply HB; exact Hy]; cbn [k_out k_c2s k_s2c];
         apply (Permutation_cons_inv (a := rid));
         eapply Permutation_trans; [apply Permutation_sym; exact Hpm|];
         eapply Permutation_trans; [exact Hb|]; apply Permutation_sym, Permutation_middle
       | intros y r Hi; cbn in Hi; cbn [st_done add_done]; unfold outs; cbn [st_cl add_done set_cl]; unfold updf;
         destruct (HC y r Hi) as [H|H]; [left; apply in_or_app; left; exact H|];
         destruct (y =? c) eqn:E; [|right; exact H];
         apply N.eqb_eq in E; subst; unfold outs in H;
         destruct (N.eq_dec r rid) as [->|Hne]; [left; apply in_or_app; right; left; reflexivity|];
         right; cbn [k_out];
         pose proof (Permutation_in _ Hpm H) as [Hx|Hx]; [congruence|exact Hx] ].
Qed.

Lemma E_issue st c kd mk nc :
  EInv st -> (forall rid, rq (mk rid) = [rid]) -> EInv (fst (issue st c kd mk nc)).
Proof.
  intros (HB & HC & Hp) Hm. unfold issue. destruct (k_closed (st_cl st c)) eqn:Ec; cbn [fst].
  - (* not connected: completes at once *)
    split; [|split; [|exact Hp]].
    + intros y Hy. apply HB. exact Hy.
    + intros y r Hin. cbn in Hin |- *. apply in_app_or in Hin as [Hin|[Hin|[]]].
      * destruct (HC y r Hin) as [H|H]; [left; apply in_or_app; left; exact H|right; exact H].
      * inversion Hin; subst. left. apply in_or_app. right. left. reflexivity.
  - split; [|split; [|exact Hp]].
    + intros y Hy. unfold outs, inflight in *. cbn in Hy |- *. unfold updf in *.
      destruct (y =? c) eqn:E; [|apply HB; exact Hy]. cbn.
      rewrite map_app. unfold rqs. rewrite flat_map_app. cbn. rewrite (Hm (st_next st)). cbn.
      pose proof (HB c Ec) as Hb. unfold outs, inflight, rqs in Hb.
      rewrite <- app_assoc.
      eapply Permutation_trans; [apply Permutation_app_tail; exact Hb|].
      rewrite <- app_assoc. apply Permutation_app_head. apply Permutation_app_comm.
    + intros y r Hin. cbn in Hin |- *. unfold outs. cbn. unfold updf.
      apply in_app_or in Hin as [Hin|[Hin|[]]].
      * destruct (HC y r Hin) as [H|H]; [left; exact H|right].
        unfold outs in H. destruct (y =? c) eqn:E; [apply N.eqb_eq in E; subst; cbn; rewrite map_app; apply in_or_app; left; exact H|exact H].
      * inversion Hin; subst. right. rewrite N.eqb_refl. cbn. rewrite map_app. apply in_or_app. right. left. reflexivity.
Qed.

Lemma E_step st o : EInv st -> EInv (fst (fst (step st o))).
Proof.
  intros I. destruct o; cbn [step].
  - destruct acked.
    + pose proof (E_issue st c KSet
        (fun rid => RUpdate rid u (if raw then d else dmx_set d)
           (if raw then p else match p with Some v => Some (u8 v) | None => Some SOURCE_PRIORITY_DEFAULT end))
        (EDone c (st_next st) (Some E_NOTCONN)) I (fun _ => eq_refl)) as H.
      destruct (issue _ _ _ _ _) as [st1 ev]. cbn [fst] in *.
      destruct (k_closed (st_cl st c)); [exact H|]. apply (E_same st1); try reflexivity. exact H.
    + destruct (k_closed (st_cl st c)) eqn:Ec; cbn [fst]; [exact I|].
      destruct I as (HB & HC & Hp). split; [|split; [|exact Hp]].
      * intros y Hy. unfold outs, inflight in *. cbn in Hy |- *. unfold updf in *.
        destruct (y =? c) eqn:E; [|apply HB; exact Hy]. cbn.
        unfold rqs. rewrite flat_map_app. cbn. rewrite app_nil_r.
        apply N.eqb_eq in E; subst. apply (HB c Ec).
      * intros y r Hin. cbn in Hin. destruct (HC y r Hin) as [H|H]; [left; exact H|right].
        unfold outs in *. cbn. unfold updf. destruct (y =? c) eqn:E; [apply N.eqb_eq in E; subst; exact H|exact H].
  - pose proof (E_issue st c KFetch (fun rid => RGet rid u)
       (EFetch c (st_next st) (Some E_NOTCONN) 0 SOURCE_PRIORITY_DEFAULT []) I (fun _ => eq_refl)) as H.
    destruct (issue _ _ _ _ _); exact H.
  - pose proof (E_issue st c KSet (fun rid => RReg rid u on) (EDone c (st_next st) (Some E_NOTCONN)) I (fun _ => eq_refl)) as H.
    destruct (issue _ _ _ _ _); exact H.
  - pose proof (E_issue st c KSet (fun rid => RMode rid u h) (EDone c (st_next st) (Some E_NOTCONN)) I (fun _ => eq_refl)) as H.
    destruct (issue _ _ _ _ _); exact H.
  - pose proof (E_issue st c KSet (fun rid => RName rid u nm) (EDone c (st_next st) (Some E_NOTCONN)) I (fun _ => eq_refl)) as H.
    destruct (issue _ _ _ _ _); exact H.
  - pose proof (E_issue st c KInfo (fun rid => RInfo rid u)
       (EInfo c (st_next st) (Some E_NOTCONN) 0 None false) I (fun _ => eq_refl)) as H.
    destruct (issue _ _ _ _ _); exact H.
  - pose proof (E_issue st c KSet (fun rid => ROpq rid kd u) (EDone c (st_next st) (Some E_NOTCONN)) I (fun _ => eq_refl)) as H.
    destruct (issue _ _ _ _ _); exact H.
  - (* the client stops: no more obligation for it *)
    cbn [fst]. destruct I as (HB & HC & Hp). split; [|split; [|exact Hp]].
    + intros y Hy. unfold outs, inflight in *. cbn in Hy |- *. unfold updf in *.
      destruct (y =? c) eqn:E; [cbn in Hy; discriminate|apply HB; exact Hy].
    + intros y r Hin. cbn in Hin. destruct (HC y r Hin) as [H|H]; [left; exact H|right].
      unfold outs in *. cbn. unfold updf. destruct (y =? c) eqn:E; [apply N.eqb_eq in E; subst; exact H|exact H].
  - cbn [fst]. apply (E_same st); try reflexivity. exact I.
  - cbn [fst]. apply (E_same st); try reflexivity. exact I.
  - assert (EInv (wake_up st)) as I0 by (apply (E_same st); try reflexivity; exact I).
    pose proof (E_srv_step (wake_up st) c I0) as H. destruct (srv_step (wake_up st) c). exact H.
  - apply E_cli_step. exact I.
  - cbn [fst]. apply (E_same st); try reflexivity. exact I.
  - pose proof (E_srv_step st c I) as H. destruct (srv_step st c) as [st1 t]. cbn [fst] in *.
    apply (E_same st1); try reflexivity. exact H.
Qed.

Lemma E_init n : EInv (init_state n).
Proof.
  split; [|split; [|reflexivity]].
  - intros y _. apply Permutation_refl.
  - intros y r [].
Qed.
Lemma E_run st ops : EInv st -> EInv (run st ops).
Proof. revert st. induction ops as [|o ops IH]; intros st I; cbn; [exact I|]. apply IH, E_step, I. Qed.

(* drained and connected: nothing outstanding, every issued id completed exactly once *)
Lemma drained_exactly_once n ops c :
  let st := run (init_state n) ops in
  k_closed (st_cl st c) = false -> k_c2s (st_cl st c) = [] -> k_s2c (st_cl st c) = [] ->
  k_out (st_cl st c) = [] /\
  forall r, In (c, r) (st_issued st) -> completions st r = 1%nat.
Proof.
  cbn zeta. intros Hc Hq Hs.
  destruct (E_run _ ops (E_init n)) as (HB & HC & _).
  pose proof (HB c Hc) as Hb. unfold outs, inflight in Hb. rewrite Hq, Hs in Hb. cbn in Hb.
  apply Permutation_sym, Permutation_nil in Hb.
  split; [destruct (k_out (st_cl (run (init_state n) ops) c)); [reflexivity|discriminate]|].
  intros r Hin. destruct (HC c r Hin) as [H|H].
  - unfold completions. apply NoDup_count_occ'; [apply done_nodup|exact H].
  - unfold outs in H. rewrite Hb in H. contradiction.
Qed.

(* every request kind of the client API (DMX, fetch, register, merge mode, name, info and the
   opaque kinds): the service's reply carries exactly the id of the request, streamed frames and
   acks of pushes get no reply, in any state and for arguments of any size *)
Lemma reply_carries_id st c r :
  match snd (handle_req st c r) with Some m => rs m | None => [] end = rq r.
Proof.
  destruct r; cbn [handle_req];
    try (destruct (find_uni _ _); reflexivity);
    try (destruct on; destruct (find_uni _ _); reflexivity);
    try reflexivity.
  cbn. destruct (opq_err _ _ _); reflexivity.
Qed.
