(* fidelity for any number of sources and any mix of open / half-closed sinks *)
From OlaBase Require Import Bytes.
From C04 Require Import Gen Model Proofs Merge Wf Fidelity.
Local Open Scope N_scope.

Definition pend_closed (st : state) : Prop := forall y, In y (st_pend st) -> k_closed (st_cl st y) = true.

Lemma send_to_cases st x m :
  sv_alive (st_sv st) x = true -> pend_closed st ->
  let st' := send_to st x m in
  st_sv st' = st_sv st /\ pend_closed st' /\
  (forall y, k_closed (st_cl st' y) = k_closed (st_cl st y)) /\
  (forall y, y <> x -> st_cl st' y = st_cl st y) /\
  (k_closed (st_cl st x) = false -> k_s2c (st_cl st' x) = k_s2c (st_cl st x) ++ [m]) /\
  (k_closed (st_cl st x) = true -> st_cl st' x = st_cl st x).
Proof.
  intros Ha Hp. cbn zeta. unfold send_to. rewrite Ha. cbn [negb].
  destruct (memb x (st_pend st)) eqn:Em.
  - apply memb_in in Em. pose proof (Hp x Em) as Hc.
    repeat split; try assumption; try reflexivity. rewrite Hc. discriminate.
  - destruct (k_closed (st_cl st x)) eqn:Ec.
    + unfold close_chan. rewrite Em. cbn. repeat split; try reflexivity; try discriminate.
      intros y Hy. cbn in Hy. apply in_app_or in Hy as [Hy|[<-|[]]]; [apply Hp; exact Hy|exact Ec].
    + cbn. unfold updf. rewrite N.eqb_refl. cbn. repeat split; try discriminate.
      * intros y Hy. cbn in Hy. cbn [st_cl set_cl]. unfold updf. destruct (y =? x) eqn:E.
        -- apply N.eqb_eq in E; subst. apply Hp in Hy. congruence.
        -- apply Hp. exact Hy.
      * intros y. destruct (y =? x) eqn:E; [apply N.eqb_eq in E; subst; cbn; congruence|reflexivity].
      * intros y Hy. destruct (y =? x) eqn:E; [apply N.eqb_eq in E; congruence|reflexivity].
Qed.

Lemma fanout2 sinks : forall st u p d,
  NoDup sinks -> (forall s, In s sinks -> sv_alive (st_sv st) s = true) -> pend_closed st ->
  let st' := fold_left (push_sink u p d) sinks st in
  st_sv st' = st_sv st /\ pend_closed st' /\
  (forall y, k_closed (st_cl st' y) = k_closed (st_cl st y)) /\
  (forall s, In s sinks -> k_closed (st_cl st s) = false ->
     k_s2c (st_cl st' s) = k_s2c (st_cl st s) ++ [SPush u p d]) /\
  (forall y, ~ In y sinks \/ k_closed (st_cl st y) = true -> st_cl st' y = st_cl st y).
Proof.
  induction sinks as [|s sinks IH]; intros st u p d Hnd Hal Hp; cbn zeta; cbn [fold_left].
  - repeat split; try assumption; try reflexivity. intros s [].
  - inversion Hnd; subst. change (push_sink u p d st s) with (send_to st s (SPush u p d)).
    destruct (send_to_cases st s (SPush u p d) (Hal s (or_introl eq_refl)) Hp) as (S1 & S2 & S3 & S4 & S5 & S6).
    cbn zeta in *. set (st1 := send_to st s (SPush u p d)) in *.
    assert (forall s0, In s0 sinks -> sv_alive (st_sv st1) s0 = true) as Hal1
      by (intros s0 Hs0; rewrite S1; apply Hal; right; exact Hs0).
    destruct (IH st1 u p d H2 Hal1 S2) as (J1 & J2 & J3 & J4 & J5). cbn zeta in *.
    split; [congruence|]. split; [exact J2|]. split; [intros y; rewrite J3; apply S3|]. split.
    + intros s0 [<-|Hin] Hc.
      * rewrite (J5 s (or_introl H1)). apply S5. exact Hc.
      * rewrite (J4 s0 Hin) by (rewrite S3; exact Hc).
        rewrite S4; [reflexivity|]. intros ->. contradiction.
    + intros y [Hy|Hy].
      * rewrite J5 by (left; intros Hin; apply Hy; right; exact Hin).
        apply S4. intros ->. apply Hy. left; reflexivity.
      * rewrite J5 by (right; rewrite S3; exact Hy).
        destruct (N.eq_dec y s) as [->|Hne]; [apply S6; exact Hy|apply S4; exact Hne].
Qed.

(* The processed send (acked or streamed) of (d,p) by client c to the existing universe x, in any
   state whose sink sets are well formed. *)
Lemma apply_general st c x d p :
  find_uni (sv_unis (st_sv st)) (u_id x) = Some x ->
  sinks_ok (st_sv st) -> pend_closed st ->
  let st' := apply_dmx st c x d p in
  let src := {| s_data := dmx_set d; s_ts := st_wake st; s_prio := clamp_prio p |} in
  cd_find (sv_cdata (st_sv st')) (c, u_id x) = Some src /\
  exists x2 ch,
    find_uni (sv_unis (st_sv st')) (u_id x) = Some x2 /\
    merge_all (st_now st) (sv_cdata (st_sv st'))
      {| u_id := u_id x; u_htp := u_htp x; u_name := u_name x; u_buf := u_buf x; u_aprio := u_aprio x;
         u_srcs := u_srcs x2; u_sinks := u_sinks x |} c = (x2, ch) /\
    u_srcs x2 = (if src_memb c (u_srcs x)
                 then map (fun e => if fst e =? c then (c, false) else e) (u_srcs x)
                 else u_srcs x ++ [(c, false)]) /\
    src_memb c (u_srcs x2) = true /\ u_sinks x2 = u_sinks x /\
    (let L := lives (st_now st) (sv_cdata (st_sv st')) (u_id x) (u_srcs x2) in
     let G := group L in
     u_aprio x2 = top L /\
     (ch = false -> u_buf x2 = u_buf x) /\
     (ch = true -> In (c, src) G /\
        (u_htp x = true -> u_buf x2 = fold_left htp (map (fun e => s_data (snd e)) G) []) /\
        (u_htp x = false -> u_buf x2 = dmx_set d /\
                            (forall e, In e G -> s_ts (snd e) <= st_wake st \/ G = [(c, src)])))) /\
    (ch = true -> forall s, In s (u_sinks x) -> k_closed (st_cl st s) = false ->
       k_s2c (st_cl st' s) = k_s2c (st_cl st s) ++ [SPush (u_id x) (u_aprio x2) (u_buf x2)]) /\
    (ch = false -> st_cl st' = st_cl st) /\
    (forall y, ~ In y (u_sinks x) \/ k_closed (st_cl st y) = true -> st_cl st' y = st_cl st y) /\
    (forall rid y, snd (handle_req st' y (RGet rid (u_id x))) = Some (SDmx rid (u_id x) (u_aprio x2) (u_buf x2))).
Proof.
  intros Hfind Hok Hp. cbn zeta. unfold apply_dmx.
  set (src := {| s_data := dmx_set d; s_ts := st_wake st; s_prio := clamp_prio p |}).
  set (cd := cd_set (sv_cdata (st_sv st)) (c, u_id x) src).
  set (srcs := if src_memb c (u_srcs x) then _ else _).
  assert (src_memb c srcs = true) as Hsm.
  { subst srcs. destruct (src_memb c (u_srcs x)) eqn:E.
    - unfold src_memb in *. induction (u_srcs x) as [|e l IH]; cbn in *; [discriminate|].
      destruct (fst e =? c) eqn:E1; cbn; [rewrite N.eqb_refl; reflexivity|].
      rewrite E1. cbn. apply IH. exact E.
    - unfold src_memb. rewrite existsb_app. cbn. rewrite N.eqb_refl. apply orb_true_r. }
  set (x1 := {| u_id := u_id x; u_htp := u_htp x; u_name := u_name x; u_buf := u_buf x; u_aprio := u_aprio x;
                u_srcs := srcs; u_sinks := u_sinks x |}).
  destruct (merge_all (st_now st) cd x1 c) as [x2 ch] eqn:Em.
  destruct (merge_all_spec _ _ _ _ _ _ Em) as (M1 & M2 & M3 & M4 & M5 & M6 & M7 & M8).
  cbn [u_id u_sinks u_srcs u_htp u_buf x1] in M1, M2, M3, M4, M5, M7, M8.
  destruct (Hok x (proj1 (find_uni_in _ _ _ Hfind))) as [Hnd Hal].
  assert (find_uni (set_uni (sv_unis (st_sv st)) x2) (u_id x) = Some x2) as Hfx.
  { rewrite <- M2. eapply find_set_uni. rewrite M2. exact Hfind. }
  (* the state before the fan-out *)
  match goal with |- context [if ch then update_dependants ?s x2 else ?s] => set (st3 := s) end.
  assert (st_sv st3 = {| sv_unis := set_uni (sv_unis (st_sv st)) x2; sv_gc := sv_gc (st_sv st);
                         sv_prefs := sv_prefs (st_sv st); sv_cdata := cd; sv_alive := sv_alive (st_sv st) |}) as Hsv3
    by reflexivity.
  assert (st_cl st3 = st_cl st) as Hcl3 by reflexivity.
  assert (exists stf, stf = (if ch then update_dependants st3 x2 else st3) /\ st_sv stf = st_sv st3 /\
            (ch = true -> forall s, In s (u_sinks x) -> k_closed (st_cl st s) = false ->
               k_s2c (st_cl stf s) = k_s2c (st_cl st s) ++ [SPush (u_id x) (u_aprio x2) (u_buf x2)]) /\
            (ch = false -> st_cl stf = st_cl st) /\
            (forall y, ~ In y (u_sinks x) \/ k_closed (st_cl st y) = true -> st_cl stf y = st_cl st y))
    as (stf & Estf & F1 & F2 & F3 & F4).
  { destruct ch.
    - unfold update_dependants. rewrite M3, M2.
      assert (forall s, In s (u_sinks x) -> sv_alive (st_sv st3) s = true) as Hal3 by (intros s Hs; apply Hal; exact Hs).
      assert (pend_closed st3) as Hp3 by exact Hp.
      destruct (fanout2 (u_sinks x) st3 (u_id x) (u_aprio x2) (u_buf x2) Hnd Hal3 Hp3) as (J1 & J2 & J3 & J4 & J5).
      cbn zeta in *. eexists. split; [reflexivity|]. split; [exact J1|]. split; [|split; [discriminate|]].
      + intros _ s Hs Hc. apply (J4 s Hs Hc).
      + intros y Hy. apply (J5 y Hy).
    - exists st3. split; [reflexivity|]. split; [reflexivity|]. split; [discriminate|]. split; [reflexivity|].
      intros y _. reflexivity. }
  rewrite <- Estf.
  split; [rewrite F1, Hsv3; cbn; apply cd_find_set_same|].
  exists x2, ch. rewrite F1, Hsv3. cbn [sv_unis sv_cdata].
  split; [exact Hfx|]. split; [rewrite M4; exact Em|]. split; [exact M4|]. split; [rewrite M4; exact Hsm|]. split; [exact M3|].
  split.
  { rewrite M4. split; [exact M1|]. split; [exact M7|].
    intros Hch. destruct (M8 Hch) as (cs & Hin & Hf & Hh & Hl).
    assert (cs = src) as -> by (unfold cd in Hf; rewrite cd_find_set_same in Hf; congruence).
    split; [exact Hin|]. split; [exact Hh|]. intros Hlt. destruct (Hl Hlt) as [Hb Hn]. split; [exact Hb|].
    intros e He. exact (Hn e He). }
  split; [exact F2|]. split; [exact F3|]. split; [exact F4|].
  intros rid y. cbn [handle_req]. rewrite F1, Hsv3. cbn [sv_unis]. rewrite Hfx. reflexivity.
Qed.

(* reachable states satisfy the hypotheses *)
Lemma pend_closed_reachable st : st_pend st = [] -> pend_closed st.
Proof. intros H y Hy. rewrite H in Hy. contradiction. Qed.
