(* timestamps: every stored source carries a wake-up time of the past; consequences for LTP
   (the last writer wins outright) and for the single-sender case *)
From OlaBase Require Import Bytes.
From C04 Require Import Gen Model Proofs Merge Wf Fidelity Fidelity2.
Local Open Scope N_scope.

Definition ts_ok (st : state) : Prop :=
  st_wake st <> 0 /\ st_wake st <= st_now st /\
  forall e, In e (sv_cdata (st_sv st)) -> s_ts (snd e) <> 0 /\ s_ts (snd e) <= st_wake st.

Lemma cd_set_in m k s e : In e (cd_set m k s) -> e = (k, s) \/ In e m.
Proof. unfold cd_set. intros [H|H]; [left; congruence|right]. apply filter_In in H. tauto. Qed.
Lemma cd_find_in m k s : cd_find m k = Some s -> exists k', In (k', s) m.
Proof.
  unfold cd_find. destruct (find _ m) as [[k' s']|] eqn:E; [|discriminate].
  intros H. inversion H; subst. apply find_some in E as [E _]. eauto.
Qed.

Lemma cdata_apply_dmx st c x d p e :
  In e (sv_cdata (st_sv (apply_dmx st c x d p))) ->
  e = ((c, u_id x), {| s_data := dmx_set d; s_ts := st_wake st; s_prio := clamp_prio p |}) \/
  In e (sv_cdata (st_sv st)).
Proof.
  unfold apply_dmx. destruct (merge_all _ _ _ _) as [x2 ch].
  destruct ch; [rewrite sv_update_dependants|]; cbn; apply cd_set_in.
Qed.

Lemma cdata_handle_req st c r e :
  In e (sv_cdata (st_sv (fst (handle_req st c r)))) ->
  In e (sv_cdata (st_sv st)) \/ (s_ts (snd e) = st_wake st).
Proof.
  destruct r; cbn [handle_req].
  - destruct (find_uni _ _); cbn [fst]; [|tauto]. intros H. apply cdata_apply_dmx in H as [->|H]; [right; reflexivity|tauto].
  - destruct (find_uni _ _); cbn [fst]; [|tauto]. intros H. apply cdata_apply_dmx in H as [->|H]; [right; reflexivity|tauto].
  - destruct (find_uni _ _); tauto.
  - destruct on; destruct (find_uni _ _); cbn; tauto.
  - destruct (find_uni _ _); cbn; tauto.
  - destruct (find_uni _ _); cbn; tauto.
  - destruct (find_uni _ _); tauto.
  - tauto.
  - tauto.
Qed.

Lemma cdata_kill st x e : In e (sv_cdata (st_sv (kill st x))) -> In e (sv_cdata (st_sv st)).
Proof.
  unfold kill. destruct (st_busy st); cbn; unfold cd_del_client; intros H; apply filter_In in H; tauto.
Qed.
Lemma time_kill st x : st_now (kill st x) = st_now st /\ st_wake (kill st x) = st_wake st.
Proof. unfold kill. destruct (st_busy st); split; reflexivity. Qed.
Lemma ts_flush st : ts_ok st -> ts_ok (flush st).
Proof.
  unfold flush. assert (forall l s, ts_ok s -> ts_ok (fold_left kill l s)) as H.
  { induction l as [|x l IH]; intros s T; cbn; [exact T|]. apply IH.
    destruct T as (T1 & T2 & T3). destruct (time_kill s x) as [E1 E2].
    split; [rewrite E2; exact T1|]. split; [rewrite E1, E2; exact T2|].
    intros e He. rewrite E2. apply T3. apply (cdata_kill _ _ _ He). }
  intros T. apply H. exact T.
Qed.

Lemma time_send_to st x m : st_now (send_to st x m) = st_now st /\ st_wake (send_to st x m) = st_wake st.
Proof.
  unfold send_to. destruct (negb (sv_alive (st_sv st) x)); [split; reflexivity|].
  destruct (memb x (st_pend st)); [split; reflexivity|].
  destruct (k_closed (st_cl st x)); [unfold close_chan; destruct (memb x (st_pend st))|]; split; reflexivity.
Qed.
Lemma time_update_dependants st x : st_now (update_dependants st x) = st_now st /\ st_wake (update_dependants st x) = st_wake st.
Proof.
  unfold update_dependants. generalize (u_sinks x) st. intros l. induction l as [|s l IH]; intros st0; cbn.
  - split; reflexivity.
  - destruct (IH (push_sink (u_id x) (u_aprio x) (u_buf x) st0 s)) as [A B].
    destruct (time_send_to st0 s (SPush (u_id x) (u_aprio x) (u_buf x))) as [C D].
    unfold push_sink in *. split; congruence.
Qed.
Lemma time_handle_req st c r :
  st_now (fst (handle_req st c r)) = st_now st /\ st_wake (fst (handle_req st c r)) = st_wake st.
Proof.
  assert (forall x d p, st_now (apply_dmx st c x d p) = st_now st /\ st_wake (apply_dmx st c x d p) = st_wake st) as Ha.
  { intros x d p. unfold apply_dmx. destruct (merge_all _ _ _ _) as [x2 ch].
    destruct ch; [|split; reflexivity].
    match goal with |- context [update_dependants ?s x2] => destruct (time_update_dependants s x2) as [A B] end.
    split; [rewrite A|rewrite B]; reflexivity. }
  destruct r; cbn [handle_req];
    try (destruct (find_uni _ _); cbn [fst]; [apply Ha|split; reflexivity]);
    try (destruct (find_uni _ _); split; reflexivity);
    try (destruct on; destruct (find_uni _ _); split; reflexivity);
    split; reflexivity.
Qed.

Lemma ts_srv_step st c : ts_ok st -> ts_ok (fst (srv_step st c)).
Proof.
  intros T. pose proof T as (T1 & T2 & T3). unfold srv_step.
  destruct (negb (sv_alive (st_sv st) c)); [exact T|].
  destruct (k_c2s (st_cl st c)) as [|r rest].
  - destruct (k_closed (st_cl st c)); cbn [fst]; [|exact T]. apply ts_flush.
    unfold close_chan. destruct (memb c (st_pend st)); exact T.
  - match goal with |- context [handle_req ?s c r] =>
      pose proof (time_handle_req s c r) as [E1 E2];
      pose proof (fun e => cdata_handle_req s c r e) as Hc;
      destruct (handle_req s c r) as [st2 rep] end.
    cbn [fst] in *. apply ts_flush.
    assert (ts_ok st2) as T2'.
    { split; [rewrite E2; exact T1|]. split; [rewrite E1, E2; exact T2|].
      intros e He. rewrite E2. cbn [st_wake set_busy set_cl]. destruct (Hc e He) as [H|H].
      - apply T3. exact H.
      - cbn in H. rewrite H. split; [exact T1|apply N.le_refl]. }
    destruct rep as [m|]; [|exact T2'].
    destruct T2' as (A & B & C0). destruct (time_send_to st2 c m) as [F1 F2].
    split; [cbn; rewrite F2; exact A|]. split; [cbn; rewrite F1, F2; exact B|].
    intros e He. cbn in He |- *. rewrite sv_send_to in He. rewrite F2. apply C0. exact He.
Qed.

Lemma ts_wake_up st : ts_ok st -> ts_ok (wake_up st).
Proof.
  intros (T1 & T2 & T3). unfold ts_ok. cbn. split; [lia|]. split; [lia|].
  intros e He. destruct (T3 e He). split; [assumption|lia].
Qed.

Lemma ts_step st o : ts_ok st -> ts_ok (fst (fst (step st o))).
Proof.
  intros T. pose proof T as (T1 & T2 & T3). destruct o; cbn [step].
  - destruct acked.
    + unfold issue. destruct (k_closed (st_cl st c)); cbn; exact T.
    + destruct (k_closed (st_cl st c)); cbn; exact T.
  - unfold issue. destruct (k_closed (st_cl st c)); cbn; exact T.
  - unfold issue. destruct (k_closed (st_cl st c)); cbn; exact T.
  - unfold issue. destruct (k_closed (st_cl st c)); cbn; exact T.
  - unfold issue. destruct (k_closed (st_cl st c)); cbn; exact T.
  - unfold issue. destruct (k_closed (st_cl st c)); cbn; exact T.
  - unfold issue. destruct (k_closed (st_cl st c)); cbn; exact T.
  - exact T.
  - unfold ts_ok. cbn. split; [lia|]. split; [lia|]. intros e He. destruct (T3 e He). split; [assumption|lia].
  - pose proof (ts_wake_up st T) as (W1 & W2 & W3). split; [exact W1|]. split; [exact W2|].
    intros e He. apply W3. cbn in He |- *. unfold housekeeping in He. cbn in He.
    assert (forall l sv0, sv_cdata (fold_left gc_one l sv0) = sv_cdata sv0) as Hf.
    { induction l as [|u l IH]; intros sv0; cbn; [reflexivity|]. rewrite IH. unfold gc_one.
      destruct (find_uni _ _); [destruct (uni_active _)|]; reflexivity. }
    rewrite Hf in He. exact He.
  - pose proof (ts_srv_step (wake_up st) c (ts_wake_up st T)) as H. destruct (srv_step (wake_up st) c). exact H.
  - unfold cli_step. destruct (k_closed (st_cl st c)); [exact T|].
    destruct (k_s2c (st_cl st c)) as [|m rest]; [exact T|].
    destruct m; cbn [msg_rid]; try exact T; destruct (out_take _ _) as [[kd o]|]; exact T.
  - unfold ts_ok. cbn. split; [exact T1|]. split; [lia|]. exact T3.
  - pose proof (ts_srv_step st c T) as H. destruct (srv_step st c) as [st1 t]. cbn [fst] in *.
    apply ts_wake_up. exact H.
Qed.

Lemma ts_init n : ts_ok (init_state n).
Proof. split; [discriminate|]. split; [cbn; lia|]. intros e []. Qed.
Lemma ts_run st ops : ts_ok st -> ts_ok (run st ops).
Proof. revert st. induction ops as [|o ops IH]; intros st T; cbn; [exact T|]. apply IH, ts_step, T. Qed.

(* LTP: a changed source that is live at the top priority and at least as new as every other
   member of the group becomes the universe's frame *)
Lemma merge_ltp now cd x c cs :
  u_htp x = false ->
  In (c, cs) (group (lives now cd (u_id x) (u_srcs x))) ->
  (forall e, In e (group (lives now cd (u_id x) (u_srcs x))) -> s_ts (snd e) <= s_ts cs) ->
  exists x2, merge_all now cd x c = (x2, true) /\ u_buf x2 = s_data cs.
Proof.
  intros Hh Hin Hnew. unfold merge_all. rewrite scan_spec. cbn zeta.
  set (L := lives now cd (u_id x) (u_srcs x)) in *. set (G := group L) in *.
  assert (cd_find cd (c, u_id x) = Some cs) as Hf.
  { unfold G, group, at_prio in Hin. apply filter_In in Hin as [Hin _]. apply (lives_cd _ _ _ _ _ _ Hin). }
  assert (existsb (fun e : N * source => fst e =? c) G = true) as Hch.
  { apply existsb_exists. exists (c, cs). split; [exact Hin|apply N.eqb_refl]. }
  destruct (map snd G) as [|s1 [|s2 rest]] eqn:EG.
  - destruct G; [contradiction|discriminate].
  - destruct G as [|[c1 s1'] [|? ?]] eqn:EG'; try discriminate. cbn in EG. inversion EG; subst s1'.
    destruct Hin as [Hin|[]]. inversion Hin; subst. cbn [existsb fst orb]. rewrite N.eqb_refl. cbn.
    eexists. split; reflexivity.
  - rewrite Hch. cbn [negb]. rewrite Hh, Hf.
    assert (existsb (fun s => s_ts cs <? s_ts s) (s1 :: s2 :: rest) = false) as Hn.
    { rewrite <- EG. destruct (existsb _ (map snd G)) eqn:E; [|reflexivity].
      apply existsb_exists in E as (s & Hs & Hlt). apply in_map_iff in Hs as (e & <- & He).
      apply N.ltb_lt in Hlt. specialize (Hnew e He). lia. }
    rewrite Hn. eexists. split; reflexivity.
Qed.
