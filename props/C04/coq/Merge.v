(* Universe::MergeAll characterised: the active priority is the highest priority among the live
   stored sources, the group is the live sources at that priority, and the frame is the HTP merge
   of the group / the changed source's frame (LTP). *)
From OlaBase Require Import Bytes.
From C04 Require Import Gen Model Proofs.
Local Open Scope N_scope.

(* the live stored sources of universe u, in source-set order *)
Definition lives (now : N) (cd : list ((N * N) * source)) (u : N) (srcs : list (N * bool)) : list (N * source) :=
  flat_map (fun e => match cd_find cd (fst e, u) with
                     | Some s => if live now s then [(fst e, s)] else []
                     | None => [] end) srcs.
Definition top_from (a : N) (L : list (N * source)) : N := fold_left (fun a e => N.max a (s_prio (snd e))) L a.
Definition top (L : list (N * source)) : N := top_from SOURCE_PRIORITY_MIN L.
Definition at_prio (t : N) (L : list (N * source)) := filter (fun e => s_prio (snd e) =? t) L.
Definition group (L : list (N * source)) := at_prio (top L) L.

Lemma top_from_ge L : forall a, a <= top_from a L.
Proof.
  unfold top_from. induction L as [|e L IH]; intros a; cbn [fold_left]; [lia|]. specialize (IH (N.max a (s_prio (snd e)))). lia.
Qed.
Lemma top_from_max L : forall a b, a <= b -> b <= top_from a L -> top_from b L = top_from a L.
Proof.
  unfold top_from. induction L as [|e L IH]; intros a b H1 H2; cbn [fold_left] in *; [lia|].
  destruct (N.le_gt_cases b (N.max a (s_prio (snd e)))) as [H|H].
  - replace (N.max b (s_prio (snd e))) with (N.max a (s_prio (snd e))) by lia. reflexivity.
  - replace (N.max b (s_prio (snd e))) with b by lia.
    apply IH; [lia|exact H2].
Qed.

Lemma top_from_cons a e L : top_from a (e :: L) = top_from (N.max a (s_prio (snd e))) L.
Proof. reflexivity. Qed.
Lemma at_prio_cons t e L :
  at_prio t (e :: L) = if s_prio (snd e) =? t then e :: at_prio t L else at_prio t L.
Proof. reflexivity. Qed.
Lemma lives_cons now cd u e srcs :
  lives now cd u (e :: srcs) =
  (match cd_find cd (fst e, u) with
   | Some s => if live now s then [(fst e, s)] else []
   | None => [] end) ++ lives now cd u srcs.
Proof. reflexivity. Qed.

Lemma scan_gen now cd u c srcs : forall ap act chg,
  fold_left (scan_one now cd u c) srcs (ap, act, chg) =
  (top_from ap (lives now cd u srcs),
   (if ap <? top_from ap (lives now cd u srcs) then [] else act)
     ++ map snd (at_prio (top_from ap (lives now cd u srcs)) (lives now cd u srcs)),
   (if ap <? top_from ap (lives now cd u srcs) then false else chg)
     || existsb (fun e => fst e =? c) (at_prio (top_from ap (lives now cd u srcs)) (lives now cd u srcs))).
Proof.
  induction srcs as [|e srcs IH]; intros ap act chg.
  - cbn. rewrite N.ltb_irrefl, app_nil_r, orb_false_r. reflexivity.
  - cbn [fold_left]. rewrite lives_cons. unfold scan_one at 2.
    destruct (cd_find cd (fst e, u)) as [s|] eqn:Ef; [|cbn [app]; apply IH].
    destruct (live now s) eqn:El; cbn [negb]; [|cbn [app]; apply IH].
    cbn [app]. rewrite top_from_cons, !at_prio_cons. cbn [snd fst].
    generalize (lives now cd u srcs) IH. intros L' IH'.
    destruct (ap <? s_prio s) eqn:Elt.
    + apply N.ltb_lt in Elt. rewrite N.eqb_refl. cbn [app].
      replace (N.max ap (s_prio s)) with (s_prio s) by lia.
      pose proof (top_from_ge L' (s_prio s)) as Hge.
      assert (ap <? top_from (s_prio s) L' = true) as E0 by (apply N.ltb_lt; lia).
      etransitivity; [|rewrite E0; reflexivity].
      clear E0.
      destruct (s_prio s <? top_from (s_prio s) L') eqn:E1.
      * apply N.ltb_lt in E1.
        assert (s_prio s =? top_from (s_prio s) L' = false) as E2 by (apply N.eqb_neq; lia).
        rewrite E2. rewrite IH'. rewrite (proj2 (N.ltb_lt _ _) E1). reflexivity.
      * apply N.ltb_ge in E1.
        assert (s_prio s =? top_from (s_prio s) L' = true) as E2 by (apply N.eqb_eq; lia).
        rewrite E2. rewrite IH'. rewrite (proj2 (N.ltb_ge _ _) E1).
        cbn [app map snd existsb fst]. destruct (fst e =? c); reflexivity.
    + apply N.ltb_ge in Elt. replace (N.max ap (s_prio s)) with ap by lia.
      pose proof (top_from_ge L' ap) as Hge.
      destruct (s_prio s =? ap) eqn:E2.
      * apply N.eqb_eq in E2. rewrite IH'.
        destruct (ap <? top_from ap L') eqn:E3.
        -- apply N.ltb_lt in E3.
           assert (s_prio s =? top_from ap L' = false) as E4 by (apply N.eqb_neq; lia).
           rewrite E4. reflexivity.
        -- apply N.ltb_ge in E3.
           assert (s_prio s =? top_from ap L' = true) as E4 by (apply N.eqb_eq; lia).
           rewrite E4. cbn [map snd existsb fst]. rewrite <- app_assoc. cbn [app].
           destruct (fst e =? c); cbn [orb]; [rewrite orb_true_r; reflexivity|reflexivity].
      * apply N.eqb_neq in E2. rewrite IH'.
        assert (s_prio s =? top_from ap L' = false) as E4 by (apply N.eqb_neq; lia).
        rewrite E4. reflexivity.
Qed.

Lemma scan_spec now cd u c srcs :
  let L := lives now cd u srcs in
  scan now cd u c srcs = (top L, map snd (group L), existsb (fun e => fst e =? c) (group L)).
Proof.
  cbn zeta. unfold scan. rewrite scan_gen. unfold top, group.
  destruct (SOURCE_PRIORITY_MIN <? _); reflexivity.
Qed.

Lemma lives_cd now cd u srcs c s : In (c, s) (lives now cd u srcs) -> cd_find cd (c, u) = Some s /\ live now s = true.
Proof.
  unfold lives. intros H. apply in_flat_map in H as (e & _ & H).
  destruct (cd_find cd (fst e, u)) as [s'|] eqn:E; [|contradiction].
  destruct (live now s') eqn:El; [|contradiction].
  destruct H as [H|[]]. inversion H; subst. split; assumption.
Qed.

Lemma existsb_group_in c G : existsb (fun e : N * source => fst e =? c) G = true -> exists s, In (c, s) G.
Proof.
  intros H. apply existsb_exists in H as ([c' s] & Hin & E). cbn in E. apply N.eqb_eq in E; subst. eauto.
Qed.

(* the merge result in terms of the group *)
Lemma merge_all_spec now cd x c x2 ch :
  merge_all now cd x c = (x2, ch) ->
  let L := lives now cd (u_id x) (u_srcs x) in
  let G := group L in
  u_aprio x2 = top L /\ u_id x2 = u_id x /\ u_sinks x2 = u_sinks x /\ u_srcs x2 = u_srcs x /\
  u_htp x2 = u_htp x /\ u_name x2 = u_name x /\
  (ch = false -> u_buf x2 = u_buf x) /\
  (ch = true -> exists cs, In (c, cs) G /\ cd_find cd (c, u_id x) = Some cs /\
     (u_htp x = true -> u_buf x2 = fold_left htp (map (fun e => s_data (snd e)) G) []) /\
     (u_htp x = false -> u_buf x2 = s_data cs /\
                         (forall e, In e G -> s_ts (snd e) <= s_ts cs \/ G = [(c, cs)]))).
Proof.
  cbn zeta. unfold merge_all. rewrite scan_spec. cbn zeta.
  set (L := lives now cd (u_id x) (u_srcs x)). set (G := group L).
  intros H.
  assert (forall cs, In (c, cs) G -> cd_find cd (c, u_id x) = Some cs) as Hcd.
  { intros cs Hin. unfold G, group, at_prio in Hin. apply filter_In in Hin as [Hin _].
    apply (lives_cd _ _ _ _ _ _ Hin). }
  destruct (map snd G) as [|s1 [|s2 rest]] eqn:EG.
  - inversion H; subst; cbn [u_aprio u_id u_sinks u_srcs u_htp u_name u_buf]. repeat split; try reflexivity. discriminate.
  - destruct G as [|[c1 s1'] [|? ?]] eqn:EG'; try discriminate. cbn in EG. inversion EG; subst s1'.
    cbn [existsb fst orb] in H. rewrite orb_false_r in H.
    destruct (c1 =? c) eqn:Ec.
    + apply N.eqb_eq in Ec; subst c1. inversion H; subst; cbn [u_aprio u_id u_sinks u_srcs u_htp u_name u_buf]. repeat split; try reflexivity; try discriminate.
      intros _. exists s1. split; [left; reflexivity|]. split; [apply Hcd; left; reflexivity|].
      split; [intros _; reflexivity|]. intros _. split; [reflexivity|]. intros e He. right. reflexivity.
    + inversion H; subst; cbn [u_aprio u_id u_sinks u_srcs u_htp u_name u_buf]. repeat split; try reflexivity. discriminate.
  - destruct (existsb (fun e => fst e =? c) G) eqn:Ech; cbn [negb] in H.
    2:{ inversion H; subst; cbn [u_aprio u_id u_sinks u_srcs u_htp u_name u_buf]. repeat split; try reflexivity. discriminate. }
    destruct (existsb_group_in _ _ Ech) as [cs Hin].
    pose proof (Hcd cs Hin) as Hf.
    destruct (u_htp x) eqn:Eh.
    + assert (fold_left htp (map s_data (s1 :: s2 :: rest)) [] =
              fold_left htp (map (fun e => s_data (snd e)) G) []) as Hh
        by (rewrite <- EG, map_map; reflexivity).
      inversion H; subst; cbn [u_aprio u_id u_sinks u_srcs u_htp u_name u_buf]. repeat split; try reflexivity; try discriminate.
      intros _. exists cs. split; [exact Hin|]. split; [exact Hf|]. split; [|discriminate].
      intros _. exact Hh.
    + rewrite Hf in H.
      destruct (existsb (fun s => s_ts cs <? s_ts s) (s1 :: s2 :: rest)) eqn:Enew.
      * inversion H; subst; cbn [u_aprio u_id u_sinks u_srcs u_htp u_name u_buf]. repeat split; try reflexivity. discriminate.
      * inversion H; subst; cbn [u_aprio u_id u_sinks u_srcs u_htp u_name u_buf]. repeat split; try reflexivity; try discriminate.
        intros _. exists cs. split; [exact Hin|]. split; [exact Hf|]. split; [discriminate|].
        intros _. split; [reflexivity|]. intros e He. left.
        rewrite <- EG in Enew.
        destruct (N.le_gt_cases (s_ts (snd e)) (s_ts cs)) as [Hle|Hgt]; [exact Hle|].
        assert (existsb (fun s => s_ts cs <? s_ts s) (map snd G) = true) as Hx.
        { apply existsb_exists. exists (snd e). split; [apply in_map; exact He|apply N.ltb_lt; exact Hgt]. }
        congruence.
Qed.

(* HTP of frames, pointwise: the longer length, slot-wise maximum *)
Lemma htp_length a : forall b, length (htp a b) = Nat.max (length a) (length b).
Proof.
  induction a as [|x a IH]; intros b; cbn; [reflexivity|].
  destruct b as [|y b]; cbn; [reflexivity|]. rewrite IH. reflexivity.
Qed.
Lemma htp_nth a : forall b i, nth i (htp a b) 0 = N.max (nth i a 0) (nth i b 0).
Proof.
  induction a as [|x a IH]; intros b i; cbn.
  - destruct i; cbn; lia.
  - destruct b as [|y b]; cbn.
    + destruct i; cbn; lia.
    + destruct i; cbn; [reflexivity|apply IH].
Qed.
