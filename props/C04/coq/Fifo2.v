(* history-level FIFO, exact form: the requests of a sender that the server has consumed are, in
   order, exactly an interleaving of the frames it applied and the frames it refused (universe
   missing); what is still queued comes after.  Hence: drained + session kept + nothing refused
   => the applied log EQUALS the sent log. *)
From OlaBase Require Import Bytes.
From C04 Require Import Gen Model Proofs Wf Fifo.
Local Open Scope N_scope.

Definition rejc (st : state) (c : N) := proj c (st_rejected st).

Inductive interleave {A} : list A -> list A -> list A -> Prop :=
| il_nil : interleave [] [] []
| il_l x a b l : interleave a b l -> interleave (x :: a) b (x :: l)
| il_r x a b l : interleave a b l -> interleave a (x :: b) (x :: l).

Lemma il_snoc_l {A} (a b l : list A) x : interleave a b l -> interleave (a ++ [x]) b (l ++ [x]).
Proof. induction 1; cbn; [apply il_l, il_nil|apply il_l; assumption|apply il_r; assumption]. Qed.
Lemma il_snoc_r {A} (a b l : list A) x : interleave a b l -> interleave a (b ++ [x]) (l ++ [x]).
Proof. induction 1; cbn; [apply il_r, il_nil|apply il_l; assumption|apply il_r; assumption]. Qed.
Lemma il_nil_r {A} (a l : list A) : interleave a [] l -> a = l.
Proof.
  intros H. remember (@nil A) as b eqn:Eb. induction H; [reflexivity| |discriminate].
  f_equal. apply IHinterleave. exact Eb.
Qed.
Lemma il_subseq {A} (a b l : list A) : interleave a b l -> subseq a l.
Proof. induction 1; [constructor|apply sub_take; assumption|apply sub_skip; assumption]. Qed.

Definition fifo2_inv (st : state) : Prop :=
  forall c, exists consumed tail,
    sentc st c = consumed ++ tail /\ interleave (appc st c) (rejc st c) consumed /\
    (sv_alive (st_sv st) c = true -> tail = pend_sends (k_c2s (st_cl st c))).

(* frame relation: a is b after server-side bookkeeping that neither logs nor queues anything *)
Definition F2 (a b : state) : Prop :=
  st_sent a = st_sent b /\ st_applied a = st_applied b /\ st_rejected a = st_rejected b /\
  forall y, sv_alive (st_sv a) y = true ->
            sv_alive (st_sv b) y = true /\ k_c2s (st_cl a y) = k_c2s (st_cl b y).
Lemma F2_of_F a b : F a b -> st_rejected a = st_rejected b -> F2 a b.
Proof. intros (A1 & A2 & A3) E. repeat split; try assumption; apply A3; assumption. Qed.
Lemma F2_refl a : F2 a a. Proof. repeat split; assumption. Qed.
Lemma F2_trans a b c : F2 a b -> F2 b c -> F2 a c.
Proof.
  intros (A1 & A2 & A0 & A3) (B1 & B2 & B0 & B3). split; [congruence|]. split; [congruence|]. split; [congruence|].
  intros y Hy. destruct (A3 y Hy) as [A4 A5]. destruct (B3 y A4) as [B4 B5]. split; [exact B4|congruence].
Qed.
Lemma F2_inv a b : F2 a b -> fifo2_inv b -> fifo2_inv a.
Proof.
  intros (E1 & E2 & E0 & E3) I c. destruct (I c) as (co & t & H1 & H2 & H3).
  exists co, t. unfold sentc, appc, rejc in *. rewrite E1, E2, E0. split; [exact H1|]. split; [exact H2|].
  intros Ha. destruct (E3 c Ha) as [Hb Hq]. rewrite Hq. apply H3. exact Hb.
Qed.

Lemma rej_close_chan st x : st_rejected (close_chan st x) = st_rejected st.
Proof. unfold close_chan. destruct (memb x (st_pend st)); reflexivity. Qed.
Lemma rej_send_to st x m : st_rejected (send_to st x m) = st_rejected st.
Proof.
  unfold send_to. destruct (negb (sv_alive (st_sv st) x)); [reflexivity|].
  destruct (memb x (st_pend st)); [reflexivity|].
  destruct (k_closed (st_cl st x)); [apply rej_close_chan|reflexivity].
Qed.
Lemma rej_update_dependants st x : st_rejected (update_dependants st x) = st_rejected st.
Proof.
  unfold update_dependants. generalize (u_sinks x) st. intros l. induction l as [|s l IH]; intros st0; cbn.
  - reflexivity.
  - rewrite IH. apply rej_send_to.
Qed.
Lemma rej_kill st c : st_rejected (kill st c) = st_rejected st.
Proof. unfold kill. destruct (st_busy st); reflexivity. Qed.
Lemma rej_flush st : st_rejected (flush st) = st_rejected st.
Proof.
  unfold flush. assert (forall l s, st_rejected (fold_left kill l s) = st_rejected s) as H.
  { induction l as [|x l IH]; intros s; cbn; [reflexivity|]. rewrite IH. apply rej_kill. }
  rewrite H. reflexivity.
Qed.
Lemma rej_apply_dmx st c x d p : st_rejected (apply_dmx st c x d p) = st_rejected st.
Proof.
  unfold apply_dmx. destruct (merge_all _ _ _ _) as [x2 ch].
  destruct ch; [rewrite rej_update_dependants|]; reflexivity.
Qed.

(* a service method: pure bookkeeping, or one frame applied, or one frame refused *)
Lemma H2_handle_req st c r :
  let st' := fst (handle_req st c r) in
  st_sent st' = st_sent st /\
  ((st_applied st' = st_applied st /\ st_rejected st' = st_rejected st /\ req_send r = []) \/
   (exists rec, req_send r = [rec] /\ st_applied st' = st_applied st ++ [(c, rec)] /\
                st_rejected st' = st_rejected st) \/
   (exists rec, req_send r = [rec] /\ st_applied st' = st_applied st /\
                st_rejected st' = st_rejected st ++ [(c, rec)])) /\
  forall y, sv_alive (st_sv st') y = true ->
            sv_alive (st_sv st) y = true /\ k_c2s (st_cl st' y) = k_c2s (st_cl st y).
Proof.
  cbn zeta. destruct r; cbn [handle_req].
  - destruct (find_uni _ _) as [x|] eqn:Ef; cbn [fst].
    + destruct (A_apply_dmx st c x d p) as (A1 & A2 & A3). cbn zeta in *.
      split; [exact A1|]. split; [|exact A3]. right; left. exists (u, d, p). split; [reflexivity|].
      rewrite A2, rej_apply_dmx. destruct (find_uni_in _ _ _ Ef) as [_ ->]. split; reflexivity.
    + split; [reflexivity|]. split; [|intros y Hy; split; [exact Hy|reflexivity]].
      right; right. exists (u, d, p). repeat split.
  - destruct (find_uni _ _) as [x|] eqn:Ef; cbn [fst].
    + destruct (A_apply_dmx st c x d p) as (A1 & A2 & A3). cbn zeta in *.
      split; [exact A1|]. split; [|exact A3]. right; left. exists (u, d, p). split; [reflexivity|].
      rewrite A2, rej_apply_dmx. destruct (find_uni_in _ _ _ Ef) as [_ ->]. split; reflexivity.
    + split; [reflexivity|]. split; [|intros y Hy; split; [exact Hy|reflexivity]].
      right; right. exists (u, d, p). repeat split.
  - destruct (find_uni _ _); cbn; (split; [reflexivity|]; split; [left; repeat split|intros y Hy; split; [exact Hy|reflexivity]]).
  - destruct on; destruct (find_uni _ _); cbn; (split; [reflexivity|]; split; [left; repeat split|intros y Hy; split; [exact Hy|reflexivity]]).
  - destruct (find_uni _ _); cbn; (split; [reflexivity|]; split; [left; repeat split|intros y Hy; split; [exact Hy|reflexivity]]).
  - destruct (find_uni _ _); cbn; (split; [reflexivity|]; split; [left; repeat split|intros y Hy; split; [exact Hy|reflexivity]]).
  - destruct (find_uni _ _); cbn; (split; [reflexivity|]; split; [left; repeat split|intros y Hy; split; [exact Hy|reflexivity]]).
  - cbn; (split; [reflexivity|]; split; [left; repeat split|intros y Hy; split; [exact Hy|reflexivity]]).
  - cbn; (split; [reflexivity|]; split; [left; repeat split|intros y Hy; split; [exact Hy|reflexivity]]).
Qed.

Lemma fifo2_srv_step st c : fifo2_inv st -> fifo2_inv (fst (srv_step st c)).
Proof.
  intros I. unfold srv_step. destruct (sv_alive (st_sv st) c) eqn:Ha; cbn [negb]; [|exact I].
  destruct (k_c2s (st_cl st c)) as [|r rest] eqn:Eq.
  - destruct (k_closed (st_cl st c)); cbn [fst]; [|exact I].
    eapply F2_inv; [|exact I]. apply F2_of_F; [eapply F_trans; [apply F_flush|apply F_close_chan]|].
    rewrite rej_flush, rej_close_chan. reflexivity.
  - set (st1 := set_cl st c {| k_closed := k_closed (st_cl st c); k_out := k_out (st_cl st c); k_c2s := rest;
                               k_s2c := k_s2c (st_cl st c) |}).
    pose proof (H2_handle_req (set_busy st1 true) c r) as H. cbn zeta in H.
    destruct (handle_req (set_busy st1 true) c r) as [st2 rep]. cbn [fst] in *.
    destruct H as (H1 & H2 & H3).
    set (st3 := match rep with None => st2 | Some m => send_to st2 c m end).
    assert (F2 st3 st2) as F32.
    { subst st3; destruct rep; [apply F2_of_F; [apply F_send_to|apply rej_send_to]|apply F2_refl]. }
    eapply F2_inv.
    { eapply F2_trans; [apply F2_of_F; [apply F_flush|apply rej_flush]|].
      eapply F2_trans; [|exact F32]. repeat split; assumption. }
    intros y. destruct (I y) as (co & t & S1 & S2 & S3).
    destruct (N.eq_dec y c) as [->|Hne].
    + specialize (S3 Ha). rewrite Eq in S3. cbn in S3. fold (pend_sends rest) in S3.
      exists (co ++ req_send r), (pend_sends rest).
      unfold sentc, appc, rejc in *. rewrite H1. cbn [st_sent set_busy st1 set_cl].
      split; [rewrite S1, S3, app_assoc; reflexivity|]. split.
      * destruct H2 as [(E1 & E2 & E3)|[(rec & Hr & E1 & E2)|(rec & Hr & E1 & E2)]]; rewrite E1, E2;
          cbn [st_applied st_rejected set_busy st1 set_cl].
        -- rewrite E3, app_nil_r. exact S2.
        -- rewrite proj_app, proj_one_same, Hr. apply il_snoc_l. exact S2.
        -- rewrite proj_app, proj_one_same, Hr. apply il_snoc_r. exact S2.
      * intros Ha2. destruct (H3 c Ha2) as [_ Hq]. rewrite Hq. cbn. unfold updf. rewrite N.eqb_refl. reflexivity.
    + exists co, t. unfold sentc, appc, rejc in *. rewrite H1. cbn [st_sent set_busy st1 set_cl].
      split; [exact S1|]. split.
      * destruct H2 as [(E1 & E2 & E3)|[(rec & Hr & E1 & E2)|(rec & Hr & E1 & E2)]]; rewrite E1, E2;
          cbn [st_applied st_rejected set_busy st1 set_cl]; try exact S2.
        -- rewrite proj_app, (proj_one_other y c rec) by congruence. rewrite app_nil_r. exact S2.
        -- rewrite proj_app, (proj_one_other y c rec) by congruence. rewrite app_nil_r. exact S2.
      * intros Ha2. destruct (H3 y Ha2) as [Hb Hq]. rewrite Hq. cbn. unfold updf.
        destruct (y =? c) eqn:E; [apply N.eqb_eq in E; congruence|]. apply S3. exact Hb.
Qed.

Lemma fifo2_queue st c k' m :
  fifo2_inv st -> req_send m = [] -> k_c2s k' = k_c2s (st_cl st c) ++ [m] ->
  forall st', st_sent st' = st_sent st -> st_applied st' = st_applied st -> st_rejected st' = st_rejected st ->
    st_sv st' = st_sv st -> st_cl st' = updf (st_cl st) c k' -> fifo2_inv st'.
Proof.
  intros I Hm Hk st' E1 E2 E0 E3 E4 y. destruct (I y) as (co & t & S1 & S2 & S3).
  exists co, t. unfold sentc, appc, rejc. rewrite E1, E2, E0, E3, E4. split; [exact S1|]. split; [exact S2|].
  intros Ha. unfold updf. destruct (y =? c) eqn:E; [|apply S3; exact Ha].
  apply N.eqb_eq in E; subst. rewrite Hk, pend_sends_app. cbn. rewrite Hm, app_nil_r. apply S3. exact Ha.
Qed.

Lemma fifo2_same st st' :
  fifo2_inv st -> st_sent st' = st_sent st -> st_applied st' = st_applied st -> st_rejected st' = st_rejected st ->
  sv_alive (st_sv st') = sv_alive (st_sv st) -> (forall y, k_c2s (st_cl st' y) = k_c2s (st_cl st y)) -> fifo2_inv st'.
Proof.
  intros I E1 E2 E0 E3 E4 y. destruct (I y) as (co & t & S1 & S2 & S3).
  exists co, t. unfold sentc, appc, rejc. rewrite E1, E2, E0, E3, E4. tauto.
Qed.

Lemma fifo2_issue st c kd mk nc :
  fifo2_inv st -> (forall rid, req_send (mk rid) = []) -> fifo2_inv (fst (issue st c kd mk nc)).
Proof.
  intros I Hm. unfold issue. destruct (k_closed (st_cl st c)); cbn [fst].
  - apply (fifo2_same st); try reflexivity; try exact I; intros y; reflexivity.
  - eapply (fifo2_queue st c _ (mk (st_next st)) I (Hm _)); try reflexivity. all: reflexivity.
Qed.

Lemma fifo2_send st c k' rec m :
  fifo2_inv st -> req_send m = [rec] -> k_c2s k' = k_c2s (st_cl st c) ++ [m] ->
  forall st', st_sent st' = st_sent st ++ [(c, rec)] -> st_applied st' = st_applied st ->
    st_rejected st' = st_rejected st -> st_sv st' = st_sv st ->
    st_cl st' = updf (st_cl st) c k' -> fifo2_inv st'.
Proof.
  intros I Hm Hk st' E1 E2 E0 E3 E4 y. destruct (I y) as (co & t & S1 & S2 & S3).
  unfold sentc, appc, rejc in *. rewrite E1, E2, E0, E3, E4, proj_app.
  destruct (N.eq_dec y c) as [->|Hne].
  - exists co, (t ++ [rec]). rewrite proj_one_same, S1, app_assoc. split; [reflexivity|]. split; [exact S2|].
    intros Ha. unfold updf. rewrite N.eqb_refl, Hk, pend_sends_app. cbn. rewrite Hm, app_nil_r.
    rewrite (S3 Ha). reflexivity.
  - exists co, t. rewrite (proj_one_other y c rec) by congruence. rewrite app_nil_r.
    split; [exact S1|]. split; [exact S2|]. intros Ha. unfold updf.
    destruct (y =? c) eqn:E; [apply N.eqb_eq in E; congruence|apply S3; exact Ha].
Qed.

Lemma fifo2_step st o : fifo2_inv st -> fifo2_inv (fst (fst (step st o))).
Proof.
  intros I. destruct o; cbn [step].
  - destruct acked.
    + unfold issue. destruct (k_closed (st_cl st c)) eqn:Ec; cbn [fst].
      * apply (fifo2_same st); try reflexivity; try exact I; intros y; reflexivity.
      * eapply (fifo2_send st c _ _ _ I); try reflexivity. all: try reflexivity. all: try reflexivity.
    + destruct (k_closed (st_cl st c)) eqn:Ec; cbn [fst]; [exact I|].
      eapply (fifo2_send st c _ _ _ I); try reflexivity. all: try reflexivity. all: try reflexivity.
  - pose proof (fifo2_issue st c KFetch (fun rid => RGet rid u)
       (EFetch c (st_next st) (Some E_NOTCONN) 0 SOURCE_PRIORITY_DEFAULT []) I (fun _ => eq_refl)) as H.
    destruct (issue _ _ _ _ _); exact H.
  - pose proof (fifo2_issue st c KSet (fun rid => RReg rid u on) (EDone c (st_next st) (Some E_NOTCONN)) I (fun _ => eq_refl)) as H.
    destruct (issue _ _ _ _ _); exact H.
  - pose proof (fifo2_issue st c KSet (fun rid => RMode rid u h) (EDone c (st_next st) (Some E_NOTCONN)) I (fun _ => eq_refl)) as H.
    destruct (issue _ _ _ _ _); exact H.
  - pose proof (fifo2_issue st c KSet (fun rid => RName rid u nm) (EDone c (st_next st) (Some E_NOTCONN)) I (fun _ => eq_refl)) as H.
    destruct (issue _ _ _ _ _); exact H.
  - pose proof (fifo2_issue st c KInfo (fun rid => RInfo rid u)
       (EInfo c (st_next st) (Some E_NOTCONN) 0 None false) I (fun _ => eq_refl)) as H.
    destruct (issue _ _ _ _ _); exact H.
  - pose proof (fifo2_issue st c KSet (fun rid => ROpq rid kd u) (EDone c (st_next st) (Some E_NOTCONN)) I (fun _ => eq_refl)) as H.
    destruct (issue _ _ _ _ _); exact H.
  - apply (fifo2_same st); try reflexivity; try exact I.
    intros y. cbn. unfold updf. destruct (y =? c) eqn:E; [apply N.eqb_eq in E; subst|]; reflexivity.
  - apply (fifo2_same st); try reflexivity; try exact I; intros y; reflexivity.
  - apply (fifo2_same st); try reflexivity; try exact I; try (intros y; reflexivity).
    cbn. unfold housekeeping. cbn.
    assert (forall l sv0, sv_alive (fold_left gc_one l sv0) = sv_alive sv0) as Hf.
    { induction l as [|u l IH]; intros sv0; cbn; [reflexivity|]. rewrite IH. unfold gc_one.
      destruct (find_uni _ _); [destruct (uni_active _)|]; reflexivity. }
    apply Hf.
  - assert (fifo2_inv (wake_up st)) as I0 by (apply (fifo2_same st); try reflexivity; try exact I; intros y; reflexivity).
    pose proof (fifo2_srv_step (wake_up st) c I0) as H. destruct (srv_step (wake_up st) c). exact H.
  - unfold cli_step. destruct (k_closed (st_cl st c)); [exact I|].
    destruct (k_s2c (st_cl st c)) as [|m rest] eqn:Es; [exact I|].
    destruct m as [rid|rid e|rid u p d|rid u nm h|u p d]; cbn [msg_rid].
    5: { cbn [fst]. eapply (fifo2_queue st c _ RAck I eq_refl); try reflexivity. all: reflexivity. }
    all: destruct (out_take rid (k_out (st_cl st c))) as [[kd o]|]; cbn [fst];
      (apply (fifo2_same st); try reflexivity; try exact I;
       intros y; cbn; unfold updf; destruct (y =? c) eqn:E; [apply N.eqb_eq in E; subst|]; reflexivity).
  - apply (fifo2_same st); try reflexivity; try exact I; intros y; reflexivity.
  - pose proof (fifo2_srv_step st c I) as H. destruct (srv_step st c) as [st1 t]. cbn [fst] in *.
    apply (fifo2_same st1); try reflexivity; try exact H; intros y; reflexivity.
Qed.

Lemma fifo2_init n : fifo2_inv (init_state n).
Proof. intros c. exists [], []. repeat split. constructor. Qed.
Lemma fifo2_run st ops : fifo2_inv st -> fifo2_inv (run st ops).
Proof. revert st. induction ops as [|o ops IH]; intros st I; cbn; [exact I|]. apply IH, fifo2_step, I. Qed.

Lemma consumed_is_interleaving n ops c :
  let st := run (init_state n) ops in
  exists consumed tail, sentc st c = consumed ++ tail /\
    interleave (appc st c) (rejc st c) consumed /\
    (sv_alive (st_sv st) c = true -> tail = pend_sends (k_c2s (st_cl st c))).
Proof. apply (fifo2_run _ ops (fifo2_init n)). Qed.

(* drained, session kept: consumed = everything sent; nothing refused => applied = sent *)
Lemma drained_applied_eq_sent n ops c :
  let st := run (init_state n) ops in
  sv_alive (st_sv st) c = true -> pend_sends (k_c2s (st_cl st c)) = [] ->
  interleave (appc st c) (rejc st c) (sentc st c) /\
  (rejc st c = [] -> appc st c = sentc st c).
Proof.
  cbn zeta. intros Ha Hq. destruct (consumed_is_interleaving n ops c) as (co & t & S1 & S2 & S3).
  cbn zeta in *. rewrite (S3 Ha), Hq, app_nil_r in S1. rewrite S1.
  split; [exact S2|]. intros Hr. rewrite Hr in S2. apply il_nil_r. exact S2.
Qed.
