(* a send that the server processes is stored and fanned out unmodified *)
From OlaBase Require Import Bytes.
From C04 Require Import Gen Model Proofs.
Local Open Scope N_scope.

Lemma clamp_le p : clamp_prio p <= 200.
Proof.
  unfold clamp_prio. destruct p; [|vm_compute; discriminate].
  change SOURCE_PRIORITY_MAX with 200. lia.
Qed.
Lemma clamp_id v : v <= 200 -> clamp_prio (Some v) = v.
Proof.
  intros H. unfold clamp_prio. change SOURCE_PRIORITY_MAX with 200. change SOURCE_PRIORITY_MIN with 0.
  rewrite u8_id by lia. lia.
Qed.
Lemma clamp_none : clamp_prio None = 100. Proof. reflexivity. Qed.
Lemma dmx_set_len d : len (dmx_set d) <= 512.
Proof.
  unfold dmx_set, take, len. rewrite firstn_length. change DMX_UNIVERSE_SIZE with 512. lia.
Qed.
Lemma dmx_set_id d : len d <= 512 -> dmx_set d = d.
Proof.
  unfold dmx_set, take, len. change DMX_UNIVERSE_SIZE with 512. intros H.
  apply firstn_all2. lia.
Qed.

Lemma cd_find_set_same m k s : cd_find (cd_set m k s) k = Some s.
Proof.
  unfold cd_find, cd_set. cbn. unfold key_eqb. rewrite !N.eqb_refl. reflexivity.
Qed.

(* one live source at the top priority: the universe holds exactly that source's frame *)
Lemma merge_single now cd x c b s :
  u_srcs x = [(c, b)] -> cd_find cd (c, u_id x) = Some s -> live now s = true ->
  exists x2, merge_all now cd x c = (x2, true) /\ u_buf x2 = s_data s /\ u_aprio x2 = s_prio s /\
             u_sinks x2 = u_sinks x /\ u_id x2 = u_id x /\ u_srcs x2 = u_srcs x /\ u_htp x2 = u_htp x.
Proof.
  intros Hs Hf Hl. unfold merge_all, scan. rewrite Hs. cbn [fold_left scan_one fst].
  rewrite Hf, Hl. cbn [negb].
  destruct (SOURCE_PRIORITY_MIN <? s_prio s) eqn:E.
  - rewrite N.eqb_refl. cbn. rewrite N.eqb_refl. eexists; repeat split.
  - assert (s_prio s = SOURCE_PRIORITY_MIN) as Hp.
    { apply N.ltb_ge in E. change SOURCE_PRIORITY_MIN with 0 in *. lia. }
    rewrite Hp, N.eqb_refl. cbn. rewrite N.eqb_refl. eexists; repeat split.
Qed.

(* fan-out: every sink with a session and an open connection gets exactly one push *)
Lemma send_to_open st x m :
  sv_alive (st_sv st) x = true -> k_closed (st_cl st x) = false -> st_pend st = [] ->
  st_sv (send_to st x m) = st_sv st /\ st_pend (send_to st x m) = [] /\
  k_s2c (st_cl (send_to st x m) x) = k_s2c (st_cl st x) ++ [m] /\
  k_closed (st_cl (send_to st x m) x) = false /\
  (forall y, y <> x -> st_cl (send_to st x m) y = st_cl st y).
Proof.
  intros Ha Hc Hp. unfold send_to. rewrite Ha, Hc, Hp. cbn. unfold updf. rewrite N.eqb_refl. cbn.
  repeat split; try assumption. intros y Hy. destruct (y =? x) eqn:E; [apply N.eqb_eq in E; congruence|reflexivity].
Qed.

Lemma fanout sinks : forall st u p d,
  NoDup sinks -> st_pend st = [] ->
  (forall s, In s sinks -> sv_alive (st_sv st) s = true /\ k_closed (st_cl st s) = false) ->
  let st' := fold_left (push_sink u p d) sinks st in
  st_sv st' = st_sv st /\ st_hz st' = st_hz st /\
  (forall s, In s sinks -> k_s2c (st_cl st' s) = k_s2c (st_cl st s) ++ [SPush u p d]) /\
  (forall y, ~ In y sinks -> st_cl st' y = st_cl st y).
Proof.
  induction sinks as [|s sinks IH]; intros st u p d Hnd Hpe Hall; cbn.
  - repeat split. intros s [].
  - inversion Hnd; subst.
    destruct (Hall s (or_introl eq_refl)) as [Ha Hc].
    destruct (send_to_open st s (SPush u p d) Ha Hc Hpe) as (S1 & S0 & S2 & S3 & S4).
    assert (push_sink u p d st s = send_to st s (SPush u p d)) as Ep.
    { reflexivity. }
    rewrite Ep.
    assert (st_hz (send_to st s (SPush u p d)) = st_hz st) as Hh.
    { unfold send_to. rewrite Ha, Hc, Hpe. reflexivity. }
    specialize (IH (send_to st s (SPush u p d)) u p d H2 S0).
    assert (forall s0, In s0 sinks -> sv_alive (st_sv (send_to st s (SPush u p d))) s0 = true /\
                                      k_closed (st_cl (send_to st s (SPush u p d)) s0) = false) as Hall'.
    { intros s0 Hin. rewrite S1. destruct (Hall s0 (or_intror Hin)) as [A B]. split; [exact A|].
      rewrite S4; [exact B|]. intros ->. contradiction. }
    destruct (IH Hall') as (J1 & J2 & J3 & J4).
    split; [congruence|]. split; [congruence|]. split.
    + intros s0 [<-|Hin].
      * rewrite (J4 s H1). exact S2.
      * rewrite (J3 s0 Hin). rewrite S4; [reflexivity|]. intros ->. contradiction.
    + intros y Hy. rewrite J4 by (intros Hin; apply Hy; right; exact Hin).
      apply S4. intros ->. apply Hy. left; reflexivity.
Qed.

Lemma find_set_uni us n x : find_uni us (u_id n) = Some x -> find_uni (set_uni us n) (u_id n) = Some n.
Proof.
  unfold find_uni, set_uni. induction us as [|y us IH]; cbn; [discriminate|].
  destruct (u_id y =? u_id n) eqn:E; cbn.
  - rewrite N.eqb_refl. reflexivity.
  - rewrite E. exact IH.
Qed.

(* The processed send of client c to universe x when c is the universe's only source. *)
Lemma apply_single st c x d p :
  st_wake st <> 0 -> st_now st < st_wake st + 2500000 -> dmx_set d <> [] ->
  find_uni (sv_unis (st_sv st)) (u_id x) = Some x ->
  (u_srcs x = [] \/ exists b, u_srcs x = [(c, b)]) ->
  NoDup (u_sinks x) -> st_pend st = [] ->
  (forall s, In s (u_sinks x) -> sv_alive (st_sv st) s = true /\ k_closed (st_cl st s) = false) ->
  let st' := apply_dmx st c x d p in
  cd_find (sv_cdata (st_sv st')) (c, u_id x)
    = Some {| s_data := dmx_set d; s_ts := st_wake st; s_prio := clamp_prio p |} /\
  (exists x2, find_uni (sv_unis (st_sv st')) (u_id x) = Some x2 /\
              u_buf x2 = dmx_set d /\ u_aprio x2 = clamp_prio p /\ u_sinks x2 = u_sinks x /\
              src_memb c (u_srcs x2) = true) /\
  (forall s, In s (u_sinks x) ->
     k_s2c (st_cl st' s) = k_s2c (st_cl st s) ++ [SPush (u_id x) (clamp_prio p) (dmx_set d)]) /\
  (forall y, ~ In y (u_sinks x) -> st_cl st' y = st_cl st y) /\
  st_hz st' = st_hz st /\
  (forall rid y, snd (handle_req st' y (RGet rid (u_id x))) = Some (SDmx rid (u_id x) (clamp_prio p) (dmx_set d))).
Proof.
  intros Hnow Hfresh Hd Hfind Hsrc Hnd Hpe Hall. unfold apply_dmx.
  set (src := {| s_data := dmx_set d; s_ts := st_wake st; s_prio := clamp_prio p |}).
  set (cd := cd_set (sv_cdata (st_sv st)) (c, u_id x) src).
  set (srcs := if src_memb c (u_srcs x) then _ else _).
  assert (srcs = [(c, false)]) as Es.
  { subst srcs. destruct Hsrc as [->|[b ->]]; [reflexivity|].
    unfold src_memb. cbn [existsb fst]. rewrite N.eqb_refl. cbn [orb map fst]. rewrite N.eqb_refl. reflexivity. }
  set (x1 := {| u_id := u_id x; u_htp := u_htp x; u_name := u_name x; u_buf := u_buf x; u_aprio := u_aprio x;
                u_srcs := srcs; u_sinks := u_sinks x |}).
  assert (live (st_now st) src = true) as Hl.
  { unfold live. cbn [s_ts s_data src]. apply N.eqb_neq in Hnow. rewrite Hnow. cbn [negb andb].
    assert (st_now st <? st_wake st + TIMEOUT_US = true) as -> by (apply N.ltb_lt; change TIMEOUT_US with 2500000; lia).
    cbn [andb]. destruct (dmx_set d) eqn:Edd; [congruence|reflexivity]. }
  destruct (merge_single (st_now st) cd x1 c false src Es (cd_find_set_same _ _ _) Hl)
    as (x2 & Em & Eb & Ep & Ek & Ei & Esr & Eh).
  rewrite Em. cbn in Ei, Ek, Esr.
  unfold update_dependants. rewrite Ek, Ei, Eb, Ep. cbn [s_data s_prio src].
  match goal with |- context [fold_left _ _ ?s3] => set (st3 := s3) end.
  assert (forall s, In s (u_sinks x) -> sv_alive (st_sv st3) s = true /\ k_closed (st_cl st3 s) = false) as Hall3
    by (intros s Hs; exact (Hall s Hs)).
  destruct (fanout (u_sinks x) st3 (u_id x) (clamp_prio p) (dmx_set d) Hnd Hpe Hall3) as (F1 & F2 & F3 & F4).
  cbn zeta in F1, F2, F3, F4. cbn zeta.
  assert (find_uni (set_uni (sv_unis (st_sv st)) x2) (u_id x) = Some x2) as Hfx.
  { rewrite <- Ei. eapply find_set_uni. rewrite Ei. exact Hfind. }
  split; [rewrite F1; cbn; apply cd_find_set_same|].
  split.
  { exists x2. rewrite F1. cbn. split; [exact Hfx|]. repeat split; try assumption.
    rewrite Esr, Es. cbn. rewrite N.eqb_refl. reflexivity. }
  split; [intros s Hs; rewrite (F3 s Hs); reflexivity|].
  split; [intros y Hy; rewrite (F4 y Hy); reflexivity|].
  split; [rewrite F2; reflexivity|].
  intros rid y. cbn [handle_req]. rewrite F1. cbn [st_sv set_sv sv_unis st3]. rewrite Hfx. cbn [snd]. rewrite Eb, Ep. reflexivity.
Qed.
