(* invariants of reachable states: sink sets are duplicate free and only contain clients that
   still have a session *)
From OlaBase Require Import Bytes.
From C04 Require Import Gen Model Proofs Merge.
Local Open Scope N_scope.

Definition sinks_ok (sv : server) : Prop :=
  forall x, In x (sv_unis sv) ->
    NoDup (u_sinks x) /\ forall s, In s (u_sinks x) -> sv_alive sv s = true.

Lemma find_uni_in us u x : find_uni us u = Some x -> In x us /\ u_id x = u.
Proof.
  unfold find_uni. intros H. apply find_some in H as [H1 H2]. apply N.eqb_eq in H2. tauto.
Qed.
Lemma in_set_uni us n y : In y (set_uni us n) -> y = n \/ In y us.
Proof.
  unfold set_uni. intros H. apply in_map_iff in H as (z & Hz & Hin).
  destruct (u_id z =? u_id n); [left; congruence|right; congruence].
Qed.
Lemma memb_in c l : memb c l = true <-> In c l.
Proof.
  unfold memb. rewrite existsb_exists. split.
  - intros (y & Hy & E). apply N.eqb_eq in E. congruence.
  - intros H. exists c. split; [exact H|apply N.eqb_refl].
Qed.
Lemma in_remv x c l : In x (remv c l) <-> In x l /\ x <> c.
Proof.
  unfold remv. rewrite filter_In. split; intros [A B]; split; try assumption.
  - intros ->. rewrite N.eqb_refl in B. discriminate.
  - apply negb_true_iff. apply N.eqb_neq. exact B.
Qed.
Lemma nodup_remv c l : NoDup l -> NoDup (remv c l).
Proof. intros H. unfold remv. apply NoDup_filter. exact H. Qed.
Lemma nodup_snoc (l : list N) x : NoDup l -> ~ In x l -> NoDup (l ++ [x]).
Proof.
  induction l as [|y l IH]; intros Hn Hx; cbn.
  - constructor; [intros []|constructor].
  - inversion Hn; subst. constructor.
    + intros Hin. apply in_app_or in Hin as [Hin|[<-|[]]]; [contradiction|]. apply Hx. left; reflexivity.
    + apply IH; [assumption|]. intros Hin. apply Hx. right; exact Hin.
Qed.

(* sends never touch the server state *)
Lemma sv_close_chan st x : st_sv (close_chan st x) = st_sv st.
Proof. unfold close_chan. destruct (memb x (st_pend st)); reflexivity. Qed.
Lemma sv_send_to st x m : st_sv (send_to st x m) = st_sv st.
Proof.
  unfold send_to. destruct (negb (sv_alive (st_sv st) x)); [reflexivity|].
  destruct (memb x (st_pend st)); [reflexivity|].
  destruct (k_closed (st_cl st x)); [apply sv_close_chan|reflexivity].
Qed.
Lemma sv_update_dependants st x : st_sv (update_dependants st x) = st_sv st.
Proof.
  unfold update_dependants. generalize (u_sinks x) st. intros l. induction l as [|s l IH]; intros st0; cbn.
  - reflexivity.
  - rewrite IH. apply sv_send_to.
Qed.

Lemma sv_apply_dmx st c x d p :
  exists x2 ch cd srcs,
    merge_all (st_now st) cd
      {| u_id := u_id x; u_htp := u_htp x; u_name := u_name x; u_buf := u_buf x; u_aprio := u_aprio x;
         u_srcs := srcs; u_sinks := u_sinks x |} c = (x2, ch) /\
    st_sv (apply_dmx st c x d p) =
    {| sv_unis := set_uni (sv_unis (st_sv st)) x2; sv_gc := sv_gc (st_sv st); sv_prefs := sv_prefs (st_sv st);
       sv_cdata := cd; sv_alive := sv_alive (st_sv st) |}.
Proof.
  unfold apply_dmx.
  match goal with |- context [merge_all ?n ?cd ?x1 c] => destruct (merge_all n cd x1 c) as [x2 ch] eqn:Em;
    exists x2, ch, cd end.
  eexists. split; [exact Em|].
  destruct ch; [rewrite sv_update_dependants|]; reflexivity.
Qed.

Lemma ok_apply_dmx st c x d p :
  sinks_ok (st_sv st) -> In x (sv_unis (st_sv st)) -> sinks_ok (st_sv (apply_dmx st c x d p)).
Proof.
  intros Hok Hin. destruct (sv_apply_dmx st c x d p) as (x2 & ch & cd & srcs & Em & ->).
  destruct (merge_all_spec _ _ _ _ _ _ Em) as (_ & _ & Hs & _). cbn in Hs.
  intros y Hy. cbn in Hy. apply in_set_uni in Hy as [->|Hy]; cbn [sv_alive].
  - rewrite Hs. apply Hok. exact Hin.
  - apply Hok. exact Hy.
Qed.

Lemma ok_same_sinks sv us :
  sinks_ok sv ->
  (forall y, In y us -> exists x, In x (sv_unis sv) /\ u_sinks y = u_sinks x) ->
  forall g p cd, sinks_ok {| sv_unis := us; sv_gc := g; sv_prefs := p; sv_cdata := cd; sv_alive := sv_alive sv |}.
Proof.
  intros Hok H g p cd y Hy. cbn in *. destruct (H y Hy) as (x & Hx & ->). apply Hok. exact Hx.
Qed.

Lemma new_uni_sinks sv u : u_sinks (new_uni sv u) = [].
Proof. unfold new_uni. destruct (find _ _) as [[? [[[|]|] ?]]|]; reflexivity. Qed.
Lemma ok_new sv u : sinks_ok sv -> sinks_ok (with_unis sv (sv_unis sv ++ [new_uni sv u])).
Proof.
  intros Hok y Hy. cbn in Hy. apply in_app_or in Hy as [Hy|[<-|[]]]; [apply Hok; exact Hy|].
  rewrite new_uni_sinks. split; [constructor|intros ? []].
Qed.
Lemma ok_reg_on sv1 x c :
  sinks_ok sv1 -> NoDup (u_sinks x) -> (forall s, In s (u_sinks x) -> sv_alive sv1 s = true) ->
  sv_alive sv1 c = true ->
  sinks_ok (with_unis sv1 (set_uni (sv_unis sv1)
    {| u_id := u_id x; u_htp := u_htp x; u_name := u_name x; u_buf := u_buf x; u_aprio := u_aprio x;
       u_srcs := u_srcs x; u_sinks := if memb c (u_sinks x) then u_sinks x else u_sinks x ++ [c] |})).
Proof.
  intros Hok Hnd Hsa Ha y Hy. cbn in Hy. apply in_set_uni in Hy as [->|Hy]; [|apply Hok; exact Hy].
  cbn. destruct (memb c (u_sinks x)) eqn:Em.
  - split; assumption.
  - split.
    + apply nodup_snoc; [exact Hnd|]. intros Hin. apply memb_in in Hin. congruence.
    + intros s Hs. apply in_app_or in Hs as [Hs|[<-|[]]]; [apply Hsa; exact Hs|exact Ha].
Qed.
Lemma ok_reg_off sv1 x c g :
  sinks_ok sv1 -> NoDup (u_sinks x) -> (forall s, In s (u_sinks x) -> sv_alive sv1 s = true) ->
  sinks_ok {| sv_unis := set_uni (sv_unis sv1)
      {| u_id := u_id x; u_htp := u_htp x; u_name := u_name x; u_buf := u_buf x; u_aprio := u_aprio x;
         u_srcs := u_srcs x; u_sinks := remv c (u_sinks x) |};
     sv_gc := g; sv_prefs := sv_prefs sv1; sv_cdata := sv_cdata sv1; sv_alive := sv_alive sv1 |}.
Proof.
  intros Hok Hnd Hsa y Hy. cbn in Hy. apply in_set_uni in Hy as [->|Hy]; [|apply Hok; exact Hy].
  cbn. split; [apply nodup_remv; exact Hnd|].
  intros s Hs. apply in_remv in Hs as [Hs _]. apply Hsa. exact Hs.
Qed.

Lemma ok_handle_req st c r :
  sinks_ok (st_sv st) -> sv_alive (st_sv st) c = true -> sinks_ok (st_sv (fst (handle_req st c r))).
Proof.
  intros Hok Ha. destruct r; cbn [handle_req].
  - destruct (find_uni _ _) as [x|] eqn:Ef; cbn [fst]; [|exact Hok].
    apply ok_apply_dmx; [exact Hok|apply (find_uni_in _ _ _ Ef)].
  - destruct (find_uni _ _) as [x|] eqn:Ef; cbn [fst]; [|exact Hok].
    apply ok_apply_dmx; [exact Hok|apply (find_uni_in _ _ _ Ef)].
  - destruct (find_uni _ _); exact Hok.
  - (* RegisterForDmx *)
    destruct on.
    + destruct (find_uni (sv_unis (st_sv st)) u) as [x|] eqn:Ef.
      * destruct (Hok x (proj1 (find_uni_in _ _ _ Ef))) as [Hnd Hsa].
        cbn [fst set_sv st_sv]. apply ok_reg_on; assumption.
      * cbn zeta. pose proof (ok_new (st_sv st) u Hok) as Hok1. cbn [fst set_sv st_sv].
        apply ok_reg_on; [exact Hok1|rewrite new_uni_sinks; constructor|rewrite new_uni_sinks; intros ? []|exact Ha].
    + destruct (find_uni (sv_unis (st_sv st)) u) as [x|] eqn:Ef; [|exact Hok].
      destruct (Hok x (proj1 (find_uni_in _ _ _ Ef))) as [Hnd Hsa].
      cbn [fst set_sv st_sv]. apply ok_reg_off; assumption.
  - destruct (find_uni _ _) as [x|] eqn:Ef; cbn [fst]; [|exact Hok].
    cbn. intros y Hy. cbn in Hy. apply in_set_uni in Hy as [->|Hy]; [|apply Hok; exact Hy].
    cbn. apply Hok. apply (find_uni_in _ _ _ Ef).
  - destruct (find_uni _ _) as [x|] eqn:Ef; cbn [fst]; [|exact Hok].
    cbn. intros y Hy. cbn in Hy. apply in_set_uni in Hy as [->|Hy]; [|apply Hok; exact Hy].
    cbn. apply Hok. apply (find_uni_in _ _ _ Ef).
  - destruct (find_uni _ _); exact Hok.
  - exact Hok.
  - exact Hok.
Qed.

Lemma ok_client_removed sv c : sinks_ok sv -> sinks_ok (client_removed sv c).
Proof.
  intros Hok y Hy. unfold client_removed in *. cbn in *.
  rewrite map_map in Hy. apply in_map_iff in Hy as (x & <- & Hx).
  unfold uni_drop_client. cbn. destruct (Hok x Hx) as [Hnd Hal].
  split; [apply nodup_remv; exact Hnd|].
  intros s Hs. apply in_remv in Hs as [Hs Hne]. unfold updf.
  destruct (s =? c) eqn:E; [apply N.eqb_eq in E; congruence|apply Hal; exact Hs].
Qed.
Lemma ok_kill st c : sinks_ok (st_sv st) -> sinks_ok (st_sv (kill st c)).
Proof.
  intros Hok. unfold kill. cbn. destruct (st_busy st); cbn; apply ok_client_removed; exact Hok.
Qed.
Lemma ok_fold_kill l : forall st, sinks_ok (st_sv st) -> sinks_ok (st_sv (fold_left kill l st)).
Proof. induction l as [|x l IH]; intros st H; cbn; [exact H|]. apply IH, ok_kill, H. Qed.
Lemma ok_flush st : sinks_ok (st_sv st) -> sinks_ok (st_sv (flush st)).
Proof. intros H. unfold flush. apply ok_fold_kill. exact H. Qed.

Lemma ok_gc_one sv u : sinks_ok sv -> sinks_ok (gc_one sv u) /\ sv_alive (gc_one sv u) = sv_alive sv.
Proof.
  intros Hok. unfold gc_one. destruct (find_uni _ _) as [x|]; [|split; [exact Hok|reflexivity]].
  destruct (uni_active x); [split; [exact Hok|reflexivity]|]. split; [|reflexivity].
  intros y Hy. cbn in *. unfold del_uni in Hy. apply filter_In in Hy as [Hy _]. apply Hok. exact Hy.
Qed.
Lemma ok_housekeeping sv : sinks_ok sv -> sinks_ok (housekeeping sv).
Proof.
  intros Hok. unfold housekeeping.
  assert (forall l sv0, sinks_ok sv0 -> sinks_ok (fold_left gc_one l sv0)) as Hf.
  { induction l as [|u l IH]; intros sv0 H; cbn; [exact H|]. apply IH. apply ok_gc_one. exact H. }
  specialize (Hf (sv_gc sv) sv Hok). set (sv1 := fold_left gc_one (sv_gc sv) sv) in *.
  intros y Hy. cbn in *. rewrite map_map in Hy. apply in_map_iff in Hy as (x & <- & Hx).
  cbn. apply Hf. exact Hx.
Qed.

Lemma ok_srv_step st c : sinks_ok (st_sv st) -> sinks_ok (st_sv (fst (srv_step st c))).
Proof.
  intros Hok. unfold srv_step. destruct (sv_alive (st_sv st) c) eqn:Ha; cbn [negb]; [|exact Hok].
  destruct (k_c2s (st_cl st c)) as [|r rest].
  - destruct (k_closed (st_cl st c)); cbn [fst]; [|exact Hok].
    apply ok_flush. rewrite sv_close_chan. exact Hok.
  - match goal with |- context [handle_req ?s c r] =>
      pose proof (ok_handle_req s c r Hok Ha) as H; destruct (handle_req s c r) as [st2 rep] end.
    cbn [fst] in *. apply ok_flush. cbn [st_sv set_busy].
    destruct rep; [rewrite sv_send_to|]; exact H.
Qed.

Lemma ok_step st o : sinks_ok (st_sv st) -> sinks_ok (st_sv (fst (fst (step st o)))).
Proof.
  intros Hok. destruct o; cbn [step].
  - destruct acked.
    + unfold issue. destruct (k_closed (st_cl st c)); cbn; exact Hok.
    + destruct (k_closed (st_cl st c)); cbn; exact Hok.
  - unfold issue. destruct (k_closed (st_cl st c)); cbn; exact Hok.
  - unfold issue. destruct (k_closed (st_cl st c)); cbn; exact Hok.
  - unfold issue. destruct (k_closed (st_cl st c)); cbn; exact Hok.
  - unfold issue. destruct (k_closed (st_cl st c)); cbn; exact Hok.
  - unfold issue. destruct (k_closed (st_cl st c)); cbn; exact Hok.
  - unfold issue. destruct (k_closed (st_cl st c)); cbn; exact Hok.
  - exact Hok.
  - exact Hok.
  - cbn. apply ok_housekeeping. exact Hok.
  - pose proof (ok_srv_step (wake_up st) c Hok) as H. destruct (srv_step (wake_up st) c). exact H.
  - unfold cli_step. destruct (k_closed (st_cl st c)); [exact Hok|].
    destruct (k_s2c (st_cl st c)) as [|m rest]; [exact Hok|].
    destruct m; cbn [msg_rid]; try exact Hok;
      destruct (out_take _ _) as [[kd o]|]; exact Hok.
  - exact Hok.
  - pose proof (ok_srv_step st c Hok) as H. destruct (srv_step st c). exact H.
Qed.

Lemma ok_run st ops : sinks_ok (st_sv st) -> sinks_ok (st_sv (run st ops)).
Proof. revert st. induction ops as [|o ops IH]; intros st H; cbn; [exact H|]. apply IH, ok_step, H. Qed.
Lemma ok_reachable n ops : sinks_ok (st_sv (run (init_state n) ops)).
Proof. apply ok_run. intros x []. Qed.
