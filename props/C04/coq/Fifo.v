(* history-level FIFO: under every schedule the frames the server applies for a sender are, in
   order, frames that sender sent (a subsequence of the sent log: sends to a universe that does
   not exist are answered with an error and not applied), and what is still queued comes after *)
From OlaBase Require Import Bytes.
From C04 Require Import Gen Model Proofs Wf.
Local Open Scope N_scope.

Definition proj (c : N) (l : list (N * sendrec)) : list sendrec :=
  map snd (filter (fun e => fst e =? c) l).
Definition sentc (st : state) (c : N) := proj c (st_sent st).
Definition appc (st : state) (c : N) := proj c (st_applied st).
Definition req_send (r : req) : list sendrec :=
  match r with RUpdate _ u d p => [(u, d, p)] | RStream u d p => [(u, d, p)] | _ => [] end.
Definition pend_sends (q : list req) : list sendrec := flat_map req_send q.

Inductive subseq {A} : list A -> list A -> Prop :=
| sub_nil : subseq [] []
| sub_skip x a l : subseq a l -> subseq a (x :: l)
| sub_take x a l : subseq a l -> subseq (x :: a) (x :: l).

Lemma subseq_nil_l {A} (l : list A) : subseq [] l.
Proof. induction l; constructor; assumption. Qed.
Lemma subseq_app_skip {A} (a l : list A) x : subseq a l -> subseq a (l ++ [x]).
Proof. induction 1; cbn; [apply subseq_nil_l|apply sub_skip; assumption|apply sub_take; assumption]. Qed.
Lemma subseq_app_take {A} (a l : list A) x : subseq a l -> subseq (a ++ [x]) (l ++ [x]).
Proof. induction 1; cbn; [apply sub_take, sub_nil|apply sub_skip; assumption|apply sub_take; assumption]. Qed.
Lemma subseq_app_r {A} (a l t : list A) : subseq a l -> subseq a (l ++ t).
Proof.
  induction 1; cbn; [apply subseq_nil_l|apply sub_skip; assumption|apply sub_take; assumption].
Qed.

Lemma proj_app c a b : proj c (a ++ b) = proj c a ++ proj c b.
Proof. unfold proj. rewrite filter_app, map_app. reflexivity. Qed.
Lemma proj_one_same c r : proj c [(c, r)] = [r].
Proof. unfold proj. cbn. rewrite N.eqb_refl. reflexivity. Qed.
Lemma proj_one_other c y r : y <> c -> proj c [(y, r)] = [].
Proof. intros H. unfold proj. cbn. destruct (y =? c) eqn:E; [apply N.eqb_eq in E; congruence|reflexivity]. Qed.
Lemma pend_sends_app a b : pend_sends (a ++ b) = pend_sends a ++ pend_sends b.
Proof. unfold pend_sends. apply flat_map_app. Qed.

Definition fifo_inv (st : state) : Prop :=
  forall c, exists consumed tail,
    sentc st c = consumed ++ tail /\ subseq (appc st c) consumed /\
    (sv_alive (st_sv st) c = true -> tail = pend_sends (k_c2s (st_cl st c))).

(* frame relation: a is b after server-side bookkeeping that neither logs nor queues anything *)
Definition F (a b : state) : Prop :=
  st_sent a = st_sent b /\ st_applied a = st_applied b /\
  forall y, sv_alive (st_sv a) y = true ->
            sv_alive (st_sv b) y = true /\ k_c2s (st_cl a y) = k_c2s (st_cl b y).
Lemma F_refl a : F a a. Proof. repeat split; assumption. Qed.
Lemma F_trans a b c : F a b -> F b c -> F a c.
Proof.
  intros (A1 & A2 & A3) (B1 & B2 & B3). split; [congruence|]. split; [congruence|].
  intros y Hy. destruct (A3 y Hy) as [A4 A5]. destruct (B3 y A4) as [B4 B5]. split; [exact B4|congruence].
Qed.

Lemma F_inv a b : F a b -> fifo_inv b -> fifo_inv a.
Proof.
  intros (E1 & E2 & E3) I c. destruct (I c) as (co & t & H1 & H2 & H3).
  exists co, t. unfold sentc, appc in *. rewrite E1, E2. split; [exact H1|]. split; [exact H2|].
  intros Ha. destruct (E3 c Ha) as [Hb Hq]. rewrite Hq. apply H3. exact Hb.
Qed.

Lemma F_close_chan st x : F (close_chan st x) st.
Proof. unfold close_chan. destruct (memb x (st_pend st)); repeat split; assumption. Qed.
Lemma F_send_to st x m : F (send_to st x m) st.
Proof.
  unfold send_to. destruct (negb (sv_alive (st_sv st) x)); [apply F_refl|].
  destruct (memb x (st_pend st)); [apply F_refl|].
  destruct (k_closed (st_cl st x)); [apply F_close_chan|].
  repeat split; try assumption. cbn. unfold updf. destruct (y =? x) eqn:E; [apply N.eqb_eq in E; subst|]; reflexivity.
Qed.
Lemma F_update_dependants st x : F (update_dependants st x) st.
Proof.
  unfold update_dependants. generalize (u_sinks x) st. intros l. induction l as [|s l IH]; intros st0; cbn.
  - apply F_refl.
  - eapply F_trans; [apply IH|apply F_send_to].
Qed.
Lemma F_kill st c : F (kill st c) st.
Proof.
  unfold kill. destruct (st_busy st);
  (split; [reflexivity|]; split; [reflexivity|]; intros y Hy; cbn in Hy |- *; unfold updf in *;
   destruct (y =? c); [discriminate|split; [exact Hy|reflexivity]]).
Qed.
Lemma F_fold_kill l : forall st, F (fold_left kill l st) st.
Proof. induction l as [|x l IH]; intros st; cbn; [apply F_refl|]. eapply F_trans; [apply IH|apply F_kill]. Qed.
Lemma F_flush st : F (flush st) st.
Proof. unfold flush. eapply F_trans; [apply F_fold_kill|]. repeat split; assumption. Qed.

(* applying a send logs exactly one entry *)
Lemma A_apply_dmx st c x d p :
  let st' := apply_dmx st c x d p in
  st_sent st' = st_sent st /\ st_applied st' = st_applied st ++ [(c, (u_id x, d, p))] /\
  forall y, sv_alive (st_sv st') y = true ->
            sv_alive (st_sv st) y = true /\ k_c2s (st_cl st' y) = k_c2s (st_cl st y).
Proof.
  cbn zeta. unfold apply_dmx. destruct (merge_all _ _ _ _) as [x2 ch].
  match goal with |- context [if ch then update_dependants ?s x2 else ?s] => set (st3 := s) end.
  assert (st_sent st3 = st_sent st /\ st_applied st3 = st_applied st ++ [(c, (u_id x, d, p))] /\
          forall y, sv_alive (st_sv st3) y = true -> sv_alive (st_sv st) y = true /\ k_c2s (st_cl st3 y) = k_c2s (st_cl st y)) as H3
    by (repeat split; assumption).
  destruct ch; [|exact H3].
  destruct (F_update_dependants st3 x2) as (E1 & E2 & E3). destruct H3 as (G1 & G2 & G3).
  split; [congruence|]. split; [congruence|].
  intros y Hy. destruct (E3 y Hy) as [E4 E5]. destruct (G3 y E4) as [G4 G5]. split; [exact G4|congruence].
Qed.

(* a service method: either pure bookkeeping, or (sends to an existing universe) one log entry *)
Lemma H_handle_req st c r :
  let st' := fst (handle_req st c r) in
  st_sent st' = st_sent st /\
  (st_applied st' = st_applied st \/
   exists rec, req_send r = [rec] /\ st_applied st' = st_applied st ++ [(c, rec)]) /\
  forall y, sv_alive (st_sv st') y = true ->
            sv_alive (st_sv st) y = true /\ k_c2s (st_cl st' y) = k_c2s (st_cl st y).
Proof.
  cbn zeta. destruct r; cbn [handle_req].
  - destruct (find_uni _ _) as [x|] eqn:Ef; cbn [fst].
    + destruct (A_apply_dmx st c x d p) as (A1 & A2 & A3). cbn zeta in *.
      split; [exact A1|]. split; [|exact A3]. right. exists (u, d, p). split; [reflexivity|].
      rewrite A2. destruct (find_uni_in _ _ _ Ef) as [_ ->]. reflexivity.
    + repeat split; try assumption. left; reflexivity.
  - destruct (find_uni _ _) as [x|] eqn:Ef; cbn [fst].
    + destruct (A_apply_dmx st c x d p) as (A1 & A2 & A3). cbn zeta in *.
      split; [exact A1|]. split; [|exact A3]. right. exists (u, d, p). split; [reflexivity|].
      rewrite A2. destruct (find_uni_in _ _ _ Ef) as [_ ->]. reflexivity.
    + repeat split; try assumption. left; reflexivity.
  - destruct (find_uni _ _); cbn; repeat split; try assumption; left; reflexivity.
  - destruct on; destruct (find_uni _ _); cbn; repeat split; try assumption; left; reflexivity.
  - destruct (find_uni _ _); cbn; repeat split; try assumption; left; reflexivity.
  - destruct (find_uni _ _); cbn; repeat split; try assumption; left; reflexivity.
  - destruct (find_uni _ _); cbn; repeat split; try assumption; left; reflexivity.
  - cbn; repeat split; try assumption; left; reflexivity.
  - cbn; repeat split; try assumption; left; reflexivity.
Qed.

Lemma fifo_srv_step st c : fifo_inv st -> fifo_inv (fst (srv_step st c)).
Proof.
  intros I. unfold srv_step. destruct (sv_alive (st_sv st) c) eqn:Ha; cbn [negb]; [|exact I].
  destruct (k_c2s (st_cl st c)) as [|r rest] eqn:Eq.
  - destruct (k_closed (st_cl st c)); cbn [fst]; [|exact I].
    eapply F_inv; [|exact I]. eapply F_trans; [apply F_flush|apply F_close_chan].
  - set (st1 := set_cl st c {| k_closed := k_closed (st_cl st c); k_out := k_out (st_cl st c); k_c2s := rest;
                               k_s2c := k_s2c (st_cl st c) |}).
    pose proof (H_handle_req (set_busy st1 true) c r) as H. cbn zeta in H.
    destruct (handle_req (set_busy st1 true) c r) as [st2 rep]. cbn [fst] in *.
    destruct H as (H1 & H2 & H3).
    set (st3 := match rep with None => st2 | Some m => send_to st2 c m end).
    assert (F st3 st2) as F32 by (subst st3; destruct rep; [apply F_send_to|apply F_refl]).
    eapply F_inv; [eapply F_trans; [apply F_flush|]; eapply F_trans; [|exact F32]; repeat split; assumption|].
    (* fifo_inv st2 *)
    intros y. destruct (I y) as (co & t & S1 & S2 & S3).
    destruct (N.eq_dec y c) as [->|Hne].
    + (* the sender whose head was consumed *)
      specialize (S3 Ha). rewrite Eq in S3. cbn in S3. fold (pend_sends rest) in S3.
      exists (co ++ req_send r), (pend_sends rest).
      unfold sentc, appc in *. rewrite H1. cbn [st_sent set_busy st1 set_cl].
      split; [rewrite S1, S3, app_assoc; reflexivity|]. split.
      * destruct H2 as [H2|(rec & Hr & H2)]; rewrite H2; cbn [st_applied set_busy st1 set_cl].
        -- apply subseq_app_r. exact S2.
        -- rewrite proj_app, proj_one_same, Hr. apply subseq_app_take. exact S2.
      * intros Ha2. destruct (H3 c Ha2) as [_ Hq]. rewrite Hq. cbn. unfold updf. rewrite N.eqb_refl. reflexivity.
    + exists co, t. unfold sentc, appc in *. rewrite H1. cbn [st_sent set_busy st1 set_cl].
      split; [exact S1|]. split.
      * destruct H2 as [H2|(rec & Hr & H2)]; rewrite H2; cbn [st_applied set_busy st1 set_cl]; [exact S2|].
        rewrite proj_app, (proj_one_other y c rec) by congruence. rewrite app_nil_r. exact S2.
      * intros Ha2. destruct (H3 y Ha2) as [Hb Hq]. rewrite Hq. cbn. unfold updf.
        destruct (y =? c) eqn:E; [apply N.eqb_eq in E; congruence|]. apply S3. exact Hb.
Qed.

(* a client call that queues a non-send request, or changes nothing that matters *)
Lemma fifo_queue st c k' m :
  fifo_inv st -> req_send m = [] -> k_c2s k' = k_c2s (st_cl st c) ++ [m] ->
  forall st', st_sent st' = st_sent st -> st_applied st' = st_applied st -> st_sv st' = st_sv st ->
    st_cl st' = updf (st_cl st) c k' -> fifo_inv st'.
Proof.
  intros I Hm Hk st' E1 E2 E3 E4 y. destruct (I y) as (co & t & S1 & S2 & S3).
  exists co, t. unfold sentc, appc. rewrite E1, E2, E3, E4. split; [exact S1|]. split; [exact S2|].
  intros Ha. unfold updf. destruct (y =? c) eqn:E; [|apply S3; exact Ha].
  apply N.eqb_eq in E; subst. rewrite Hk, pend_sends_app. cbn. rewrite Hm, app_nil_r. apply S3. exact Ha.
Qed.

Lemma fifo_same st st' :
  fifo_inv st -> st_sent st' = st_sent st -> st_applied st' = st_applied st ->
  sv_alive (st_sv st') = sv_alive (st_sv st) -> (forall y, k_c2s (st_cl st' y) = k_c2s (st_cl st y)) -> fifo_inv st'.
Proof.
  intros I E1 E2 E3 E4 y. destruct (I y) as (co & t & S1 & S2 & S3).
  exists co, t. unfold sentc, appc. rewrite E1, E2, E3, E4. tauto.
Qed.

Lemma fifo_issue st c kd mk nc :
  fifo_inv st -> (forall rid, req_send (mk rid) = []) -> fifo_inv (fst (issue st c kd mk nc)).
Proof.
  intros I Hm. unfold issue. destruct (k_closed (st_cl st c)); cbn [fst].
  - apply (fifo_same st); try reflexivity; try exact I; intros y; reflexivity.
  - eapply (fifo_queue st c _ (mk (st_next st)) I (Hm _)); try reflexivity. all: reflexivity.
Qed.

Lemma fifo_send st c k' rec m :
  fifo_inv st -> req_send m = [rec] -> k_c2s k' = k_c2s (st_cl st c) ++ [m] ->
  forall st', st_sent st' = st_sent st ++ [(c, rec)] -> st_applied st' = st_applied st -> st_sv st' = st_sv st ->
    st_cl st' = updf (st_cl st) c k' -> fifo_inv st'.
Proof.
  intros I Hm Hk st' E1 E2 E3 E4 y. destruct (I y) as (co & t & S1 & S2 & S3).
  unfold sentc, appc in *. rewrite E1, E2, E3, E4, proj_app.
  destruct (N.eq_dec y c) as [->|Hne].
  - exists co, (t ++ [rec]). rewrite proj_one_same, S1, app_assoc. split; [reflexivity|]. split; [exact S2|].
    intros Ha. unfold updf. rewrite N.eqb_refl, Hk, pend_sends_app. cbn. rewrite Hm, app_nil_r.
    rewrite (S3 Ha). reflexivity.
  - exists co, t. rewrite (proj_one_other y c rec) by congruence. rewrite app_nil_r.
    split; [exact S1|]. split; [exact S2|]. intros Ha. unfold updf.
    destruct (y =? c) eqn:E; [apply N.eqb_eq in E; congruence|apply S3; exact Ha].
Qed.

Lemma fifo_step st o : fifo_inv st -> fifo_inv (fst (fst (step st o))).
Proof.
  intros I. destruct o; cbn [step].
  - destruct acked.
    + unfold issue. destruct (k_closed (st_cl st c)) eqn:Ec; cbn [fst].
      * apply (fifo_same st); try reflexivity; try exact I; intros y; reflexivity.
      * eapply (fifo_send st c _ _ _ I); try reflexivity. all: try reflexivity. all: try reflexivity.
    + destruct (k_closed (st_cl st c)) eqn:Ec; cbn [fst]; [exact I|].
      eapply (fifo_send st c _ _ _ I); try reflexivity. all: try reflexivity. all: try reflexivity.
  - pose proof (fifo_issue st c KFetch (fun rid => RGet rid u)
       (EFetch c (st_next st) (Some E_NOTCONN) 0 SOURCE_PRIORITY_DEFAULT []) I (fun _ => eq_refl)) as H.
    destruct (issue _ _ _ _ _); exact H.
  - pose proof (fifo_issue st c KSet (fun rid => RReg rid u on) (EDone c (st_next st) (Some E_NOTCONN)) I (fun _ => eq_refl)) as H.
    destruct (issue _ _ _ _ _); exact H.
  - pose proof (fifo_issue st c KSet (fun rid => RMode rid u h) (EDone c (st_next st) (Some E_NOTCONN)) I (fun _ => eq_refl)) as H.
    destruct (issue _ _ _ _ _); exact H.
  - pose proof (fifo_issue st c KSet (fun rid => RName rid u nm) (EDone c (st_next st) (Some E_NOTCONN)) I (fun _ => eq_refl)) as H.
    destruct (issue _ _ _ _ _); exact H.
  - pose proof (fifo_issue st c KInfo (fun rid => RInfo rid u)
       (EInfo c (st_next st) (Some E_NOTCONN) 0 None false) I (fun _ => eq_refl)) as H.
    destruct (issue _ _ _ _ _); exact H.
  - pose proof (fifo_issue st c KSet (fun rid => ROpq rid kd u) (EDone c (st_next st) (Some E_NOTCONN)) I (fun _ => eq_refl)) as H.
    destruct (issue _ _ _ _ _); exact H.
  - apply (fifo_same st); try reflexivity; try exact I.
    intros y. cbn. unfold updf. destruct (y =? c) eqn:E; [apply N.eqb_eq in E; subst|]; reflexivity.
  - apply (fifo_same st); try reflexivity; try exact I; intros y; reflexivity.
  - apply (fifo_same st); try reflexivity; try exact I; try (intros y; reflexivity).
    cbn. unfold housekeeping. cbn.
    assert (forall l sv0, sv_alive (fold_left gc_one l sv0) = sv_alive sv0) as Hf.
    { induction l as [|u l IH]; intros sv0; cbn; [reflexivity|]. rewrite IH. unfold gc_one.
      destruct (find_uni _ _); [destruct (uni_active _)|]; reflexivity. }
    apply Hf.
  - assert (fifo_inv (wake_up st)) as I0 by (apply (fifo_same st); try reflexivity; try exact I; intros y; reflexivity).
    pose proof (fifo_srv_step (wake_up st) c I0) as H. destruct (srv_step (wake_up st) c). exact H.
  - unfold cli_step. destruct (k_closed (st_cl st c)); [exact I|].
    destruct (k_s2c (st_cl st c)) as [|m rest] eqn:Es; [exact I|].
    destruct m as [rid|rid e|rid u p d|rid u nm h|u p d]; cbn [msg_rid].
    5: { cbn [fst]. eapply (fifo_queue st c _ RAck I eq_refl); try reflexivity. all: reflexivity. }
    all: destruct (out_take rid (k_out (st_cl st c))) as [[kd o]|]; cbn [fst];
      (apply (fifo_same st); try reflexivity; try exact I;
       intros y; cbn; unfold updf; destruct (y =? c) eqn:E; [apply N.eqb_eq in E; subst|]; reflexivity).
  - apply (fifo_same st); try reflexivity; try exact I; intros y; reflexivity.
  - pose proof (fifo_srv_step st c I) as H. destruct (srv_step st c) as [st1 t]. cbn [fst] in *.
    apply (fifo_same st1); try reflexivity; try exact H; intros y; reflexivity.
Qed.

Lemma fifo_init n : fifo_inv (init_state n).
Proof. intros c. exists [], []. repeat split. constructor. Qed.
Lemma fifo_run st ops : fifo_inv st -> fifo_inv (run st ops).
Proof. revert st. induction ops as [|o ops IH]; intros st I; cbn; [exact I|]. apply IH, fifo_step, I. Qed.

Lemma applied_in_send_order n ops c :
  let st := run (init_state n) ops in
  exists consumed tail, sentc st c = consumed ++ tail /\ subseq (appc st c) consumed /\
    (sv_alive (st_sv st) c = true -> tail = pend_sends (k_c2s (st_cl st c))).
Proof. apply (fifo_run _ ops (fifo_init n)). Qed.
