(* C04 model: N client-library instances (OlaClientCore request tables), two FIFO message channels
   per client (the RPC transport abstracted to ordered reliable delivery of whole messages), the
   olad service (OlaServerServiceImpl on UniverseStore/Universe/Client) and OlaServer::ClientRemoved.
   The schedule (which channel delivers its head next, when a client disconnects, when time
   advances, when housekeeping runs) is the op list, so it is universally quantified in the theorems.
   Written from: ola/OlaClientCore.cpp, common/rpc/RpcChannel.cpp, olad/OlaServerServiceImpl.cpp,
   olad/OlaServer.cpp, olad/plugin_api/{Client,Universe,UniverseStore}.cpp, DmxSource.h. *)
From OlaBase Require Import Bytes.
From C04 Require Import Gen.
Local Open Scope N_scope.

Definition frame := list N.

(* virtual monotonic clock value at which the harness starts (so that no timestamp is 0) *)
Definition START_US : N := 1000000000.

(* DmxBuffer::Set(string) / Set(ptr,len): at most DMX_UNIVERSE_SIZE slots are kept *)
Definition dmx_set (d : frame) : frame := take DMX_UNIVERSE_SIZE d.

(* DmxBuffer::HTPMerge *)
Fixpoint htp (a b : frame) : frame :=
  match a, b with
  | [], _ => b
  | _, [] => a
  | x :: a', y :: b' => N.max x y :: htp a' b'
  end.

Record source := { s_data : frame; s_ts : N; s_prio : N }.

(* error texts (driver maps them to the strings of the C++) *)
Definition E_UNIVERSE : N := 1.   (* "Universe doesn't exist" *)
Definition E_DEVICE : N := 2.     (* "Device doesn't exist" *)
Definition E_NOTCONN : N := 3.    (* "Not connected" *)

Inductive kind := KSet | KFetch | KInfo.

(* client -> server messages *)
Inductive req :=
| RUpdate (rid u : N) (d : frame) (p : option N)     (* UpdateDmxData *)
| RStream (u : N) (d : frame) (p : option N)         (* StreamDmxData, no reply *)
| RGet (rid u : N)
| RReg (rid u : N) (on : bool)
| RMode (rid u : N) (h : bool)
| RName (rid u : N) (nm : list N)
| RInfo (rid u : N)
| ROpq (rid kd u : N)                                 (* every other request kind of the client API: opaque *)
| RAck.                                              (* reply to a server push; no effect *)

(* server -> client messages *)
Inductive smsg :=
| SOk (rid : N)
| SFail (rid e : N)
| SDmx (rid u p : N) (d : frame)
| SInfo (rid u : N) (nm : option (list N)) (h : bool)
| SPush (u p : N) (d : frame).                       (* Client::SendDMX -> client UpdateDmxData *)

Inductive event :=
| EDone (c rid : N) (e : option N)
| EFetch (c rid : N) (e : option N) (u p : N) (d : frame)
| EInfo (c rid : N) (e : option N) (u : N) (nm : option (list N)) (h : bool)
| EDmx (c u p : N) (d : frame).

Record univ := {
  u_id : N; u_htp : bool; u_name : option (list N) (* None = default "Universe <id>" *);
  u_buf : frame; u_aprio : N;
  u_srcs : list (N * bool);      (* m_source_clients: client, stale flag *)
  u_sinks : list N }.            (* m_sink_clients *)

Record server := {
  sv_unis : list univ;
  sv_gc : list N;                                   (* m_deletion_candidates (by universe id) *)
  sv_prefs : list (N * (option (list N) * bool));   (* saved universe settings *)
  sv_cdata : list ((N * N) * source);               (* Client::m_data_map of every client *)
  sv_alive : N -> bool }.                           (* session exists (ClientBroker set) *)

Record client := {
  k_closed : bool;                  (* the client called Stop(): both pipe ends closed *)
  k_out : list (N * kind);          (* RpcChannel::m_responses *)
  k_c2s : list req;
  k_s2c : list smsg }.

Definition sendrec := (N * frame * option N)%type.

Record state := {
  st_now : N;                       (* the monotonic clock (what a fresh Clock read returns) *)
  st_wake : N;                      (* SelectServer::WakeUpTime(): clock value when the current loop iteration started *)
  st_next : N;                      (* next request id handed out by the harness *)
  st_cl : N -> client;
  st_sv : server;
  st_pend : list N;                 (* channels that have closed; ClientRemoved + clean-up queued on the
                                       SelectServer (RpcServer::ChannelClosed -> Execute), in order *)
  st_busy : bool;                   (* a service method (and possibly Universe::UpdateDependants) is on the stack *)
  st_hz : bool;                     (* hazard: OlaServer::ClientRemoved ran while st_busy *)
  (* ghost history, used by the theorems only *)
  st_done : list N;                 (* completed request ids, one entry per callback run *)
  st_issued : list (N * N);         (* (client, rid) *)
  st_sent : list (N * sendrec);     (* DMX sends in the order the clients made them *)
  st_applied : list (N * sendrec);  (* DMX sends in the order the server applied them *)
  st_rejected : list (N * sendrec) } (* DMX sends the server refused: the universe did not exist *).

(* ---------------------------------------------------------------- small map helpers *)
Definition updf {A} (f : N -> A) (k : N) (v : A) : N -> A := fun x => if x =? k then v else f x.

Definition find_uni (us : list univ) (u : N) : option univ :=
  find (fun x => u_id x =? u) us.
Definition set_uni (us : list univ) (n : univ) : list univ :=
  map (fun x => if u_id x =? u_id n then n else x) us.
Definition del_uni (us : list univ) (u : N) : list univ :=
  filter (fun x => negb (u_id x =? u)) us.

Definition key_eqb (a b : N * N) : bool := (fst a =? fst b) && (snd a =? snd b).
Definition cd_find (m : list ((N * N) * source)) (k : N * N) : option source :=
  match find (fun e => key_eqb (fst e) k) m with Some e => Some (snd e) | None => None end.
Definition cd_set (m : list ((N * N) * source)) (k : N * N) (s : source) :=
  (k, s) :: filter (fun e => negb (key_eqb (fst e) k)) m.
Definition cd_del_client (m : list ((N * N) * source)) (c : N) :=
  filter (fun e => negb (fst (fst e) =? c)) m.

Definition memb (x : N) (l : list N) : bool := existsb (N.eqb x) l.
Definition remv (x : N) (l : list N) : list N := filter (fun y => negb (y =? x)) l.
Definition src_memb (x : N) (l : list (N * bool)) : bool := existsb (fun e => fst e =? x) l.
Definition src_remv (x : N) (l : list (N * bool)) := filter (fun e => negb (fst e =? x)) l.
Definition add_gc (g : list N) (u : N) : list N := if memb u g then g else u :: g.

(* Universe::IsActive — no ports exist in this configuration (no plugins, no devices) *)
Definition uni_active (x : univ) : bool :=
  negb (match u_srcs x, u_sinks x with [], [] => true | _, _ => false end).

(* ---------------------------------------------------------------- merge (Universe::MergeAll) *)
(* DmxSource::IsSet && IsActive(now) && Data().Size() *)
Definition live (now : N) (s : source) : bool :=
  negb (s_ts s =? 0) && (now <? s_ts s + TIMEOUT_US) && negb (match s_data s with [] => true | _ => false end).

(* the two-branch scan over m_source_clients; acc = (active_priority, active_sources, changed_is_active) *)
Definition scan_one (now : N) (cd : list ((N * N) * source)) (u c : N)
           (acc : N * list source * bool) (e : N * bool) : N * list source * bool :=
  let '(ap, act, chg) := acc in
  match cd_find cd (fst e, u) with
  | None => acc                                   (* SourceData() default: !IsSet *)
  | Some s =>
    if negb (live now s) then acc else
    let '(ap, act, chg) := if ap <? s_prio s then (s_prio s, [], false) else (ap, act, chg) in
    if s_prio s =? ap then (ap, act ++ [s], if fst e =? c then true else chg) else (ap, act, chg)
  end.

Definition scan (now : N) (cd : list ((N * N) * source)) (u c : N) (srcs : list (N * bool)) :=
  fold_left (scan_one now cd u c) srcs (SOURCE_PRIORITY_MIN, [], false).

(* returns the universe (m_active_priority is assigned even when the buffer is kept) and "changed" *)
Definition merge_all (now : N) (cd : list ((N * N) * source)) (x : univ) (c : N) : univ * bool :=
  let '(ap, act, chg) := scan now cd (u_id x) c (u_srcs x) in
  let x1 := {| u_id := u_id x; u_htp := u_htp x; u_name := u_name x; u_buf := u_buf x; u_aprio := ap;
               u_srcs := u_srcs x; u_sinks := u_sinks x |} in
  let setbuf b := {| u_id := u_id x; u_htp := u_htp x; u_name := u_name x; u_buf := b; u_aprio := ap;
                     u_srcs := u_srcs x; u_sinks := u_sinks x |} in
  match act with
  | [] => (x1, false)
  | [s] => if chg then (setbuf (s_data s), true) else (x1, false)
  | _ =>
    if negb chg then (x1, false) else
    if u_htp x then (setbuf (fold_left htp (map s_data act) []), true)
    else
      match cd_find cd (c, u_id x) with
      | None => (x1, false)   (* unreachable: chg implies the entry exists *)
      | Some cs =>
        if existsb (fun s => s_ts cs <? s_ts s) act then (x1, false)
        else (setbuf (s_data cs), true)
      end
  end.

(* ---------------------------------------------------------------- server internals *)
Definition with_unis (sv : server) us :=
  {| sv_unis := us; sv_gc := sv_gc sv; sv_prefs := sv_prefs sv; sv_cdata := sv_cdata sv; sv_alive := sv_alive sv |}.

(* Universe::RemoveSourceClient + RemoveSinkClient for one universe; reports whether it must be
   added to the deletion candidates *)
Definition uni_drop_client (c : N) (x : univ) : univ * bool :=
  let had_src := src_memb c (u_srcs x) in
  let x1 := {| u_id := u_id x; u_htp := u_htp x; u_name := u_name x; u_buf := u_buf x; u_aprio := u_aprio x;
               u_srcs := src_remv c (u_srcs x); u_sinks := u_sinks x |} in
  let g1 := had_src && negb (uni_active x1) in
  let had_snk := memb c (u_sinks x1) in
  let x2 := {| u_id := u_id x; u_htp := u_htp x; u_name := u_name x; u_buf := u_buf x; u_aprio := u_aprio x;
               u_srcs := u_srcs x1; u_sinks := remv c (u_sinks x1) |} in
  let g2 := had_snk && negb (uni_active x2) in
  (x2, g1 || g2).

(* OlaServer::ClientRemoved *)
Definition client_removed (sv : server) (c : N) : server :=
  let r := map (uni_drop_client c) (sv_unis sv) in
  {| sv_unis := map fst r;
     sv_gc := fold_left (fun (g : list N) (p : univ * bool) => if snd p then add_gc g (u_id (fst p)) else g) r (sv_gc sv);
     sv_prefs := sv_prefs sv;
     sv_cdata := cd_del_client (sv_cdata sv) c;
     sv_alive := updf (sv_alive sv) c false |}.

Definition set_cl (st : state) (c : N) (k : client) : state :=
  {| st_now := st_now st; st_wake := st_wake st; st_next := st_next st; st_cl := updf (st_cl st) c k; st_sv := st_sv st; st_pend := st_pend st; st_busy := st_busy st;
     st_hz := st_hz st; st_done := st_done st; st_issued := st_issued st; st_sent := st_sent st;
     st_applied := st_applied st; st_rejected := st_rejected st |}.
Definition set_sv (st : state) (sv : server) : state :=
  {| st_now := st_now st; st_wake := st_wake st; st_next := st_next st; st_cl := st_cl st; st_sv := sv; st_pend := st_pend st; st_busy := st_busy st;
     st_hz := st_hz st; st_done := st_done st; st_issued := st_issued st; st_sent := st_sent st;
     st_applied := st_applied st; st_rejected := st_rejected st |}.
Definition set_hz (st : state) : state :=
  {| st_now := st_now st; st_wake := st_wake st; st_next := st_next st; st_cl := st_cl st; st_sv := st_sv st; st_pend := st_pend st; st_busy := st_busy st;
     st_hz := true; st_done := st_done st; st_issued := st_issued st; st_sent := st_sent st;
     st_applied := st_applied st; st_rejected := st_rejected st |}.

(* the event loop starts a new iteration: the wake-up time is refreshed from the clock *)
Definition wake_up (st : state) : state :=
  {| st_now := st_now st; st_wake := st_now st; st_next := st_next st; st_cl := st_cl st; st_sv := st_sv st;
     st_pend := st_pend st; st_busy := st_busy st; st_hz := st_hz st; st_done := st_done st;
     st_issued := st_issued st; st_sent := st_sent st; st_applied := st_applied st; st_rejected := st_rejected st |}.

Definition set_pend (st : state) (l : list N) : state :=
  {| st_now := st_now st; st_wake := st_wake st; st_next := st_next st; st_cl := st_cl st; st_sv := st_sv st; st_pend := l;
     st_busy := st_busy st; st_hz := st_hz st; st_done := st_done st; st_issued := st_issued st;
     st_sent := st_sent st; st_applied := st_applied st; st_rejected := st_rejected st |}.
Definition set_busy (st : state) (b : bool) : state :=
  {| st_now := st_now st; st_wake := st_wake st; st_next := st_next st; st_cl := st_cl st; st_sv := st_sv st; st_pend := st_pend st;
     st_busy := b; st_hz := st_hz st; st_done := st_done st; st_issued := st_issued st;
     st_sent := st_sent st; st_applied := st_applied st; st_rejected := st_rejected st |}.

(* CleanupChannel (run by the SelectServer): OlaServer::ClientRemoved, then the channel and its
   descriptor are deleted.  Running it while a service method is on the stack is the hazard. *)
Definition kill (st : state) (c : N) : state :=
  let k := st_cl st c in
  let st1 := if st_busy st then set_hz st else st in
  set_cl (set_sv st1 (client_removed (st_sv st1) c)) c
         {| k_closed := k_closed k; k_out := k_out k; k_c2s := []; k_s2c := k_s2c k |}.

(* RpcServer::ChannelClosed: the descriptor is unregistered, notification and clean-up are queued *)
Definition close_chan (st : state) (x : N) : state :=
  if memb x (st_pend st) then st else set_pend st (st_pend st ++ [x]).

(* SelectServer runs the queued callbacks *)
Definition flush (st : state) : state :=
  fold_left kill (st_pend st) (set_pend st []).

(* RpcChannel::SendMsg towards client x.  A closed client's pipe is broken: the write fails and the
   channel close handler (RpcServer::ChannelClosed) runs; afterwards m_descriptor is NULL and
   further sends return false. *)
Definition send_to (st : state) (x : N) (m : smsg) : state :=
  let k := st_cl st x in
  if negb (sv_alive (st_sv st) x) then st
  else if memb x (st_pend st) then st
  else if k_closed k then close_chan st x
  else set_cl st x {| k_closed := false; k_out := k_out k; k_c2s := k_c2s k; k_s2c := k_s2c k ++ [m] |}.

(* Universe::UpdateDependants: one Client::SendDMX per sink client *)
Definition push_sink (u p : N) (d : frame) (st : state) (x : N) : state := send_to st x (SPush u p d).
Definition update_dependants (st : state) (x : univ) : state :=
  fold_left (push_sink (u_id x) (u_aprio x) (u_buf x)) (u_sinks x) st.

(* priority handling of UpdateDmxData / StreamDmxData *)
Definition clamp_prio (p : option N) : N :=
  match p with
  | None => SOURCE_PRIORITY_DEFAULT
  | Some v => N.min SOURCE_PRIORITY_MAX (N.max SOURCE_PRIORITY_MIN (u8 v))
  end.

(* DMXReceived + SourceClientDataChanged; the universe is known to exist *)
Definition apply_dmx (st : state) (c : N) (x : univ) (d : frame) (p : option N) : state :=
  let sv := st_sv st in
  let src := {| s_data := dmx_set d; s_ts := st_wake st; s_prio := clamp_prio p |} in
  let cd := cd_set (sv_cdata sv) (c, u_id x) src in
  (* AddSourceClient: STLReplace(&m_source_clients, client, false) *)
  let srcs := if src_memb c (u_srcs x)
              then map (fun e => if fst e =? c then (c, false) else e) (u_srcs x)
              else u_srcs x ++ [(c, false)] in
  let x1 := {| u_id := u_id x; u_htp := u_htp x; u_name := u_name x; u_buf := u_buf x; u_aprio := u_aprio x;
               u_srcs := srcs; u_sinks := u_sinks x |} in
  let '(x2, changed) := merge_all (st_now st) cd x1 c in
  let sv2 := {| sv_unis := set_uni (sv_unis sv) x2; sv_gc := sv_gc sv; sv_prefs := sv_prefs sv;
                sv_cdata := cd; sv_alive := sv_alive sv |} in
  let st2 := set_sv st sv2 in
  let st3 := {| st_now := st_now st2; st_wake := st_wake st2; st_next := st_next st2; st_cl := st_cl st2; st_sv := st_sv st2; st_pend := st_pend st2; st_busy := st_busy st2;
                st_hz := st_hz st2; st_done := st_done st2; st_issued := st_issued st2;
                st_sent := st_sent st2; st_applied := st_applied st2 ++ [(c, (u_id x, d, p))]; st_rejected := st_rejected st2 |} in
  if changed then update_dependants st3 x2 else st3.

Definition log_rej (st : state) (c : N) (r : sendrec) : state :=
  {| st_now := st_now st; st_wake := st_wake st; st_next := st_next st; st_cl := st_cl st; st_sv := st_sv st;
     st_pend := st_pend st; st_busy := st_busy st; st_hz := st_hz st; st_done := st_done st;
     st_issued := st_issued st; st_sent := st_sent st; st_applied := st_applied st;
     st_rejected := st_rejected st ++ [(c, r)] |}.

(* UniverseStore::GetUniverseOrCreate + RestoreUniverseSettings *)
Definition new_uni (sv : server) (u : N) : univ :=
  let '(nm, h) := match find (fun e => fst e =? u) (sv_prefs sv) with
                  | Some (_, (Some [], h)) => (None, h)
                  | Some (_, (nm, h)) => (nm, h)
                  | None => (None, false)
                  end in
  {| u_id := u; u_htp := h; u_name := nm; u_buf := []; u_aprio := SOURCE_PRIORITY_MIN; u_srcs := []; u_sinks := [] |}.

(* The other request kinds of the client API, as opaque completions (no devices, ports or plugins
   exist; the reply payload is not modelled, only success / the error):
   0 Patch, 5 ConfigureDevice, 6 SetPortPriorityInherit -> "Device doesn't exist";
   2 FetchPluginDescription, 9 FetchPluginState -> "Plugin not loaded";
   4 FetchCandidatePorts(u), 7/11/12 RunDiscovery(u, cached/incremental/full), 13 RDMGet(u), 14 RDMSet(u)
     -> "Universe doesn't exist" unless u exists (a universe that exists only through clients has no
     output ports: discovery completes at once with no UIDs, an RDM request with "unknown UID");
   1 FetchPluginList, 3 FetchDeviceInfo, 8 FetchUniverseList, 10 SetSourceUID, 15 SendTimeCode,
   16 ReloadPlugins, 17 SetPluginState, others -> success. *)
Definition E_PLUGIN : N := 5.      (* "Plugin not loaded" *)
Definition opq_err (sv : server) (kd u : N) : option N :=
  if (kd =? 0) || (kd =? 5) || (kd =? 6) then Some E_DEVICE
  else if (kd =? 2) || (kd =? 9) then Some E_PLUGIN
  else if (kd =? 4) || (kd =? 7) || (kd =? 11) || (kd =? 12) || (kd =? 13) || (kd =? 14) then
    match find_uni (sv_unis sv) u with Some _ => None | None => Some E_UNIVERSE end
  else None.

(* the service method for one request of client c; returns the reply to send (if any) *)
Definition handle_req (st : state) (c : N) (r : req) : state * option smsg :=
  let sv := st_sv st in
  match r with
  | RUpdate rid u d p =>
    match find_uni (sv_unis sv) u with
    | None => (log_rej st c (u, d, p), Some (SFail rid E_UNIVERSE))
    | Some x => (apply_dmx st c x d p, Some (SOk rid))
    end
  | RStream u d p =>
    match find_uni (sv_unis sv) u with
    | None => (log_rej st c (u, d, p), None)
    | Some x => (apply_dmx st c x d p, None)
    end
  | RGet rid u =>
    match find_uni (sv_unis sv) u with
    | None => (st, Some (SFail rid E_UNIVERSE))
    | Some x => (st, Some (SDmx rid u (u_aprio x) (u_buf x)))
    end
  | RReg rid u on =>
    if on then
      (* REGISTER: GetUniverseOrCreate + AddSinkClient *)
      let '(sv1, x) := match find_uni (sv_unis sv) u with
                       | Some x => (sv, x)
                       | None => let x := new_uni sv u in (with_unis sv (sv_unis sv ++ [x]), x)
                       end in
      let x1 := {| u_id := u_id x; u_htp := u_htp x; u_name := u_name x; u_buf := u_buf x; u_aprio := u_aprio x;
                   u_srcs := u_srcs x; u_sinks := if memb c (u_sinks x) then u_sinks x else u_sinks x ++ [c] |} in
      (set_sv st (with_unis sv1 (set_uni (sv_unis sv1) x1)), Some (SOk rid))
    else
      (* UNREGISTER: GetUniverse; nothing (but the Ack) when the universe does not exist *)
      match find_uni (sv_unis sv) u with
      | None => (st, Some (SOk rid))
      | Some x =>
        let had := memb c (u_sinks x) in
        let x1 := {| u_id := u_id x; u_htp := u_htp x; u_name := u_name x; u_buf := u_buf x; u_aprio := u_aprio x;
                     u_srcs := u_srcs x; u_sinks := remv c (u_sinks x) |} in
        let g := if had && negb (uni_active x1) then add_gc (sv_gc sv) u else sv_gc sv in
        (set_sv st {| sv_unis := set_uni (sv_unis sv) x1; sv_gc := g; sv_prefs := sv_prefs sv;
                      sv_cdata := sv_cdata sv; sv_alive := sv_alive sv |}, Some (SOk rid))
      end
  | RMode rid u h =>
    match find_uni (sv_unis sv) u with
    | None => (st, Some (SFail rid E_UNIVERSE))
    | Some x =>
      let x1 := {| u_id := u_id x; u_htp := h; u_name := u_name x; u_buf := u_buf x; u_aprio := u_aprio x;
                   u_srcs := u_srcs x; u_sinks := u_sinks x |} in
      (set_sv st (with_unis sv (set_uni (sv_unis sv) x1)), Some (SOk rid))
    end
  | RName rid u nm =>
    match find_uni (sv_unis sv) u with
    | None => (st, Some (SFail rid E_UNIVERSE))
    | Some x =>
      let x1 := {| u_id := u_id x; u_htp := u_htp x; u_name := Some nm; u_buf := u_buf x; u_aprio := u_aprio x;
                   u_srcs := u_srcs x; u_sinks := u_sinks x |} in
      (set_sv st (with_unis sv (set_uni (sv_unis sv) x1)), Some (SOk rid))
    end
  | RInfo rid u =>
    match find_uni (sv_unis sv) u with
    | None => (st, Some (SFail rid E_UNIVERSE))
    | Some x => (st, Some (SInfo rid u (u_name x) (u_htp x)))
    end
  | ROpq rid kd u =>
    (st, Some (match opq_err sv kd u with None => SOk rid | Some e => SFail rid e end))
  | RAck => (st, None)
  end.

(* the server-side poller dispatches client c's descriptor.  tag: 0 = no session, 1 = message,
   2 = close event, 3 = nothing to read *)
Definition srv_step (st : state) (c : N) : state * N :=
  if negb (sv_alive (st_sv st) c) then (st, 0) else
  let k := st_cl st c in
  match k_c2s k with
  | r :: rest =>
    let st1 := set_cl st c {| k_closed := k_closed k; k_out := k_out k; k_c2s := rest; k_s2c := k_s2c k |} in
    let '(st2, rep) := handle_req (set_busy st1 true) c r in
    let st3 := match rep with None => st2 | Some m => send_to st2 c m end in
    (flush (set_busy st3 false), 1)
  | [] => if k_closed k then (flush (close_chan st c), 2) else (st, 3)
  end.

(* ---------------------------------------------------------------- client side *)
Fixpoint out_take (rid : N) (l : list (N * kind)) : option (kind * list (N * kind)) :=
  match l with
  | [] => None
  | (r, k) :: t => if r =? rid then Some (k, t)
                   else match out_take rid t with Some (k', t') => Some (k', (r, k) :: t') | None => None end
  end.

Definition add_done (st : state) (rid : N) : state :=
  {| st_now := st_now st; st_wake := st_wake st; st_next := st_next st; st_cl := st_cl st; st_sv := st_sv st; st_pend := st_pend st; st_busy := st_busy st;
     st_hz := st_hz st; st_done := st_done st ++ [rid]; st_issued := st_issued st; st_sent := st_sent st;
     st_applied := st_applied st; st_rejected := st_rejected st |}.

(* the Handle* completion for a reply; err = None on RESPONSE, Some on RESPONSE_FAILED *)
Definition completion (c rid : N) (kd : kind) (m : smsg) : event :=
  match m with
  | SOk _ => match kd with
             | KSet => EDone c rid None
             | KFetch => EFetch c rid None 0 0 []            (* empty DmxData reply parsed *)
             | KInfo => EInfo c rid (Some 4) 0 None false     (* "Universe not found" *)
             end
  | SFail _ e => match kd with
                 | KSet => EDone c rid (Some e)
                 | KFetch => EFetch c rid (Some e) 0 SOURCE_PRIORITY_DEFAULT []
                 | KInfo => EInfo c rid (Some e) 0 None false
                 end
  | SDmx _ u p d => match kd with
                    | KFetch => EFetch c rid None u (u8 p) (dmx_set d)
                    | KSet => EDone c rid None
                    | KInfo => EInfo c rid (Some 4) 0 None false
                    end
  | SInfo _ u nm h => match kd with
                      | KInfo => EInfo c rid None u nm h
                      | KSet => EDone c rid None
                      | KFetch => EFetch c rid None 0 0 []
                      end
  | SPush _ _ _ => EDone c rid None
  end.

Definition msg_rid (m : smsg) : option N :=
  match m with
  | SOk r | SFail r _ | SDmx r _ _ _ | SInfo r _ _ _ => Some r
  | SPush _ _ _ => None
  end.

(* tag: 0 = client stopped, 1 = message handled, 3 = nothing to read *)
Definition cli_step (st : state) (c : N) : state * N * list event :=
  let k := st_cl st c in
  if k_closed k then (st, 0, []) else
  match k_s2c k with
  | [] => (st, 3, [])
  | m :: rest =>
    match m with
    | SPush u p d =>
      (* OlaClientCore::UpdateDmxData: callback, then done->Run() sends the Ack *)
      (set_cl st c {| k_closed := false; k_out := k_out k; k_c2s := k_c2s k ++ [RAck]; k_s2c := rest |},
       1, [EDmx c u (u8 p) (dmx_set d)])
    | _ =>
      match msg_rid m with
      | None => (st, 1, [])
      | Some rid =>
        match out_take rid (k_out k) with
        | None => (set_cl st c {| k_closed := false; k_out := k_out k; k_c2s := k_c2s k; k_s2c := rest |}, 1, [])
        | Some (kd, out') =>
          (add_done (set_cl st c {| k_closed := false; k_out := out'; k_c2s := k_c2s k; k_s2c := rest |}) rid,
           1, [completion c rid kd m])
        end
      end
    end
  end.

(* a client API call that takes a completion callback *)
Definition issue (st : state) (c : N) (kd : kind) (mk : N -> req) (nc : event) : state * list event :=
  let k := st_cl st c in
  let rid := st_next st in
  let st1 := {| st_now := st_now st; st_wake := st_wake st; st_next := rid + 1; st_cl := st_cl st; st_sv := st_sv st; st_pend := st_pend st; st_busy := st_busy st;
                st_hz := st_hz st; st_done := st_done st; st_issued := st_issued st ++ [(c, rid)];
                st_sent := st_sent st; st_applied := st_applied st; st_rejected := st_rejected st |} in
  if k_closed k then (add_done st1 rid, [nc])     (* m_connected == false: completes at once *)
  else (set_cl st1 c {| k_closed := false; k_out := k_out k ++ [(rid, kd)]; k_c2s := k_c2s k ++ [mk rid];
                        k_s2c := k_s2c k |}, []).

Definition log_sent (st : state) (c : N) (r : sendrec) : state :=
  {| st_now := st_now st; st_wake := st_wake st; st_next := st_next st; st_cl := st_cl st; st_sv := st_sv st; st_pend := st_pend st; st_busy := st_busy st;
     st_hz := st_hz st; st_done := st_done st; st_issued := st_issued st;
     st_sent := st_sent st ++ [(c, r)]; st_applied := st_applied st; st_rejected := st_rejected st |}.

(* ---------------------------------------------------------------- housekeeping *)
Definition gc_one (sv : server) (u : N) : server :=
  match find_uni (sv_unis sv) u with
  | None => sv
  | Some x =>
    if uni_active x then sv else
    {| sv_unis := del_uni (sv_unis sv) u; sv_gc := sv_gc sv;
       sv_prefs := (u, (u_name x, u_htp x)) :: filter (fun e => negb (fst e =? u)) (sv_prefs sv);
       sv_cdata := sv_cdata sv; sv_alive := sv_alive sv |}
  end.

(* Universe::CleanStaleSourceClients *)
Definition clean_stale (x : univ) : univ * bool :=
  let kept := map (fun e => (fst e, true)) (filter (fun e => negb (snd e)) (u_srcs x)) in
  let removed := existsb snd (u_srcs x) in
  let x1 := {| u_id := u_id x; u_htp := u_htp x; u_name := u_name x; u_buf := u_buf x; u_aprio := u_aprio x;
               u_srcs := kept; u_sinks := u_sinks x |} in
  (x1, removed && negb (uni_active x1)).

Definition housekeeping (sv : server) : server :=
  let sv1 := fold_left gc_one (sv_gc sv) sv in
  let r := map clean_stale (sv_unis sv1) in
  {| sv_unis := map fst r;
     sv_gc := fold_left (fun (g : list N) (p : univ * bool) => if snd p then add_gc g (u_id (fst p)) else g) r [];
     sv_prefs := sv_prefs sv1; sv_cdata := sv_cdata sv1; sv_alive := sv_alive sv1 |}.

(* ---------------------------------------------------------------- operations *)
Inductive op :=
| OSend (acked raw : bool) (c u : N) (p : option N) (d : frame)
| OFetch (c u : N) | OReg (c u : N) (on : bool) | OMode (c u : N) (h : bool)
| OName (c u : N) (nm : list N) | OInfo (c u : N) | OOpq (c kd u : N)
| ODisc (c : N) | OTick (dt : N) | OHK | OSrv (c : N) | OCli (c : N)
| OJump (dt : N)        (* the clock advances while the loop is busy: no new iteration, wake-up time kept *)
| OSrvSame (c : N).     (* another descriptor dispatched in the SAME loop iteration as the previous one *)

Definition step (st : state) (o : op) : state * N * list event :=
  match o with
  | OSend acked raw c u p d =>
    (* OlaClientCore::SendDMX takes a DmxBuffer (<= 512 slots) and a uint8_t priority; a raw
       client builds the DmxData message itself *)
    let d' := if raw then d else dmx_set d in
    let p' := if raw then p else match p with Some v => Some (u8 v) | None => Some SOURCE_PRIORITY_DEFAULT end in
    if acked then
      let '(st1, ev) := issue st c KSet (fun rid => RUpdate rid u d' p') (EDone c (st_next st) (Some E_NOTCONN)) in
      (if k_closed (st_cl st c) then st1 else log_sent st1 c (u, d', p'), 4, ev)
    else
      let k := st_cl st c in
      if k_closed k then (st, 4, [])
      else (log_sent (set_cl st c {| k_closed := false; k_out := k_out k; k_c2s := k_c2s k ++ [RStream u d' p'];
                                     k_s2c := k_s2c k |}) c (u, d', p'), 4, [])
  | OFetch c u =>
    let '(st1, ev) := issue st c KFetch (fun rid => RGet rid u)
                            (EFetch c (st_next st) (Some E_NOTCONN) 0 SOURCE_PRIORITY_DEFAULT []) in (st1, 4, ev)
  | OReg c u on =>
    let '(st1, ev) := issue st c KSet (fun rid => RReg rid u on) (EDone c (st_next st) (Some E_NOTCONN)) in (st1, 4, ev)
  | OMode c u h =>
    let '(st1, ev) := issue st c KSet (fun rid => RMode rid u h) (EDone c (st_next st) (Some E_NOTCONN)) in (st1, 4, ev)
  | OName c u nm =>
    let '(st1, ev) := issue st c KSet (fun rid => RName rid u nm) (EDone c (st_next st) (Some E_NOTCONN)) in (st1, 4, ev)
  | OInfo c u =>
    let '(st1, ev) := issue st c KInfo (fun rid => RInfo rid u)
                            (EInfo c (st_next st) (Some E_NOTCONN) 0 None false) in (st1, 4, ev)
  | OOpq c kd u =>
    let '(st1, ev) := issue st c KSet (fun rid => ROpq rid kd u) (EDone c (st_next st) (Some E_NOTCONN)) in (st1, 4, ev)
  | ODisc c =>
    let k := st_cl st c in
    (set_cl st c {| k_closed := true; k_out := k_out k; k_c2s := k_c2s k; k_s2c := k_s2c k |}, 4, [])
  | OTick dt =>
    ({| st_now := st_now st + dt; st_wake := st_now st + dt; st_next := st_next st; st_cl := st_cl st; st_sv := st_sv st; st_pend := st_pend st; st_busy := st_busy st;
        st_hz := st_hz st; st_done := st_done st; st_issued := st_issued st; st_sent := st_sent st;
        st_applied := st_applied st; st_rejected := st_rejected st |}, 4, [])
  | OHK => let st0 := wake_up st in (set_sv st0 (housekeeping (st_sv st0)), 4, [])
  | OSrv c => let '(st1, t) := srv_step (wake_up st) c in (st1, t, [])
  | OSrvSame c => let '(st1, t) := srv_step st c in (wake_up st1, t, [])
  | OJump dt =>
    ({| st_now := st_now st + dt; st_wake := st_wake st; st_next := st_next st; st_cl := st_cl st; st_sv := st_sv st;
        st_pend := st_pend st; st_busy := st_busy st;
        st_hz := st_hz st; st_done := st_done st; st_issued := st_issued st; st_sent := st_sent st;
        st_applied := st_applied st; st_rejected := st_rejected st |}, 4, [])
  | OCli c => cli_step st c
  end.

Definition run (st : state) (ops : list op) : state :=
  fold_left (fun s o => fst (fst (step s o))) ops st.

Definition init_client : client := {| k_closed := false; k_out := []; k_c2s := []; k_s2c := [] |}.
Definition init_state (ncl : N) : state :=
  {| st_now := START_US; st_wake := START_US; st_next := 0; st_cl := fun _ => init_client;
     st_sv := {| sv_unis := []; sv_gc := []; sv_prefs := []; sv_cdata := []; sv_alive := fun c => c <? ncl |};
     st_pend := []; st_busy := false; st_hz := false; st_done := []; st_issued := []; st_sent := []; st_applied := []; st_rejected := [] |}.

(* used by the driver's drain loop (mirrors the harness) *)
Definition srv_can (st : state) (c : N) : bool :=
  sv_alive (st_sv st) c && (negb (match k_c2s (st_cl st c) with [] => true | _ => false end) || k_closed (st_cl st c)).
Definition cli_can (st : state) (c : N) : bool :=
  negb (k_closed (st_cl st c)) && negb (match k_s2c (st_cl st c) with [] => true | _ => false end).
