(* end to end: what the client library sent is what a fetch observes — the API call, the poller
   step that runs the service method, the fetch call of another client, its poller step and the
   client-side completion, composed into one statement over reachable states *)
From OlaBase Require Import Bytes.
From C04 Require Import Gen Model Proofs Once Merge Wf Fidelity Fidelity2 Safe Ts Exactly.
Local Open Scope N_scope.

Lemma dmx_set_idem d : dmx_set (dmx_set d) = dmx_set d.
Proof. apply dmx_set_id. apply dmx_set_len. Qed.

(* single sender, hypotheses form (any base state with well formed sinks and nothing pending) *)
Lemma single_sender_gen st c x d p :
  sinks_ok (st_sv st) -> pend_closed st -> st_wake st <> 0 -> st_now st < st_wake st + 2500000 ->
  find_uni (sv_unis (st_sv st)) (u_id x) = Some x ->
  (u_srcs x = [] \/ exists b, u_srcs x = [(c, b)]) -> dmx_set d <> [] ->
  let st' := apply_dmx st c x d p in
  pend_closed st' /\
  (exists x2, find_uni (sv_unis (st_sv st')) (u_id x) = Some x2 /\
              u_buf x2 = dmx_set d /\ u_aprio x2 = clamp_prio p) /\
  (forall y, ~ In y (u_sinks x) -> st_cl st' y = st_cl st y) /\
  sv_alive (st_sv st') = sv_alive (st_sv st) /\ st_next st' = st_next st /\ st_now st' = st_now st.
Proof.
  intros Hok Hp T1 Hfresh Hf Hs Hd. cbn zeta.
  destruct (R_apply_dmx st c x d p Hp) as (_ & Hp' & Hal).
  destruct (apply_general st c x d p Hf Hok Hp)
    as (Hcd & x2 & ch & A1 & A2 & A3 & _ & _ & _ & _ & _ & A9 & _).
  cbn zeta in *.
  set (src := {| s_data := dmx_set d; s_ts := st_wake st; s_prio := clamp_prio p |}) in *.
  assert (u_srcs x2 = [(c, false)]) as Es.
  { rewrite A3. destruct Hs as [->|[b ->]]; [reflexivity|].
    unfold src_memb. cbn [existsb fst]. rewrite N.eqb_refl. cbn [orb map fst]. rewrite N.eqb_refl. reflexivity. }
  assert (live (st_now st) src = true) as Hl.
  { unfold live. cbn [s_ts s_data src]. apply N.eqb_neq in T1. rewrite T1. cbn [negb andb].
    assert (st_now st <? st_wake st + TIMEOUT_US = true) as -> by (apply N.ltb_lt; change TIMEOUT_US with 2500000; lia).
    cbn [andb]. destruct (dmx_set d) eqn:Edd; [congruence|reflexivity]. }
  set (x1 := {| u_id := u_id x; u_htp := u_htp x; u_name := u_name x; u_buf := u_buf x; u_aprio := u_aprio x;
                u_srcs := u_srcs x2; u_sinks := u_sinks x |}) in *.
  destruct (merge_single (st_now st) _ x1 c false src Es Hcd Hl) as (x3 & Em & Eb & Ep & _).
  rewrite A2 in Em. inversion Em; subst x3 ch.
  split; [exact Hp'|]. split; [exists x2; repeat split; assumption|].
  split; [intros y Hy; apply A9; left; exact Hy|]. split; [exact Hal|].
  destruct (time_handle_req st c (RStream (u_id x) d p)) as [E1 _]. cbn [handle_req] in E1. rewrite Hf in E1. cbn [fst] in E1.
  split; [|exact E1].
  destruct (tbl_apply_dmx st c x d p) as (E & _). exact E.
Qed.

(* the deferred clean-up never touches a connected client, a universe's frame or its priority *)
Lemma find_uni_map f us u : (forall x, u_id (f x) = u_id x) -> find_uni (map f us) u = option_map f (find_uni us u).
Proof.
  intros Hid. unfold find_uni. induction us as [|x us IH]; cbn; [reflexivity|].
  rewrite Hid. destruct (u_id x =? u); [reflexivity|exact IH].
Qed.
Definition frame_of (sv : server) (u : N) : option (frame * N) :=
  option_map (fun x => (u_buf x, u_aprio x)) (find_uni (sv_unis sv) u).
Lemma frame_client_removed sv c u : frame_of (client_removed sv c) u = frame_of sv u.
Proof.
  unfold client_removed, frame_of. cbn [sv_unis]. rewrite map_map.
  rewrite (find_uni_map (fun x => fst (uni_drop_client c x))) by reflexivity.
  destruct (find_uni (sv_unis sv) u); reflexivity.
Qed.
Lemma frame_kill st y u : frame_of (st_sv (kill st y)) u = frame_of (st_sv st) u.
Proof.
  unfold kill. destruct (st_busy st); cbn [st_sv set_cl set_sv set_hz]; apply frame_client_removed.
Qed.
Lemma kill_other st y z : z <> y -> st_cl (kill st y) z = st_cl st z /\ sv_alive (st_sv (kill st y)) z = sv_alive (st_sv st) z.
Proof.
  intros H. unfold kill. destruct (st_busy st); cbn; unfold updf;
    (destruct (z =? y) eqn:E; [apply N.eqb_eq in E; congruence|split; reflexivity]).
Qed.
Lemma flush_keeps st z u :
  pend_closed st -> k_closed (st_cl st z) = false ->
  st_cl (flush st) z = st_cl st z /\ sv_alive (st_sv (flush st)) z = sv_alive (st_sv st) z /\
  frame_of (st_sv (flush st)) u = frame_of (st_sv st) u /\ st_next (flush st) = st_next st /\
  st_now (flush st) = st_now st.
Proof.
  intros P Hz. unfold flush.
  assert (forall l s, (forall y, In y l -> y <> z) ->
            st_cl (fold_left kill l s) z = st_cl s z /\ sv_alive (st_sv (fold_left kill l s)) z = sv_alive (st_sv s) z /\
            frame_of (st_sv (fold_left kill l s)) u = frame_of (st_sv s) u /\
            st_next (fold_left kill l s) = st_next s /\ st_now (fold_left kill l s) = st_now s) as H.
  { induction l as [|y l IH]; intros s Hl; cbn; [repeat split; reflexivity|].
    destruct (IH (kill s y) (fun y0 H0 => Hl y0 (or_intror H0))) as (A & B & C0 & D & E).
    assert (z <> y) as Hne by (intros ->; apply (Hl y (or_introl eq_refl)); reflexivity).
    destruct (kill_other s y z Hne) as [K1 K2].
    assert (st_next (kill s y) = st_next s /\ st_now (kill s y) = st_now s) as [K3 K4]
      by (unfold kill; destruct (st_busy s); split; reflexivity).
    rewrite A, B, C0, D, E, K1, K2, K3, K4, frame_kill. repeat split; reflexivity. }
  apply (H (st_pend st) (set_pend st [])).
  intros y Hy ->. apply P in Hy. congruence.
Qed.

Lemma out_take_fresh rid kd l :
  (forall r k, In (r, k) l -> r <> rid) -> out_take rid (l ++ [(rid, kd)]) = Some (kd, l).
Proof.
  induction l as [|[r k] t IH]; intros H; cbn.
  - rewrite N.eqb_refl. reflexivity.
  - destruct (r =? rid) eqn:E; [apply N.eqb_eq in E; exfalso; apply (H r k); [left; reflexivity|exact E]|].
    rewrite IH; [reflexivity|]. intros r0 k0 Hin. apply (H r0 k0). right; exact Hin.
Qed.

(* the poller step for a client whose channel holds exactly one fetch request *)
Lemma srv_get s y rid u x3 :
  sv_alive (st_sv s) y = true -> k_c2s (st_cl s y) = [RGet rid u] -> k_closed (st_cl s y) = false ->
  st_pend s = [] -> find_uni (sv_unis (st_sv s)) u = Some x3 ->
  st_cl (fst (srv_step s y)) y =
  {| k_closed := false; k_out := k_out (st_cl s y); k_c2s := [];
     k_s2c := k_s2c (st_cl s y) ++ [SDmx rid u (u_aprio x3) (u_buf x3)] |}.
Proof.
  intros Ha Hq Hc Hp Hf. unfold srv_step. rewrite Ha, Hq. cbn [negb].
  cbn [handle_req st_sv set_busy set_cl]. rewrite Hf. cbn [fst snd].
  unfold send_to. cbn [st_sv set_busy set_cl st_pend]. rewrite Ha, Hp. cbn [negb memb existsb].
  cbn [st_cl set_busy set_cl]. unfold updf at 1. rewrite N.eqb_refl. cbn [k_closed]. rewrite Hc.
  unfold flush. cbn [st_pend set_busy set_cl]. rewrite Hp. cbn [fold_left set_pend set_busy set_cl st_cl].
  unfold updf. rewrite !N.eqb_refl. reflexivity.
Qed.

(* a fetch issued by a connected, drained client y and served by the daemon: the completion hands
   the universe's frame and active priority to the callback *)
Lemma fetch_roundtrip st y u x3 :
  st_pend st = [] -> k_closed (st_cl st y) = false -> sv_alive (st_sv st) y = true ->
  k_c2s (st_cl st y) = [] -> k_s2c (st_cl st y) = [] ->
  find_uni (sv_unis (st_sv st)) u = Some x3 ->
  (forall r k, In (r, k) (k_out (st_cl st y)) -> r <> st_next st) ->
  snd (step (run st [OFetch y u; OSrv y]) (OCli y)) =
  [EFetch y (st_next st) None u (u8 (u_aprio x3)) (dmx_set (u_buf x3))].
Proof.
  intros Hp Hc Ha Hq Hs Hf Hfresh.
  cbn [run fold_left step]. unfold issue. rewrite Hc. cbn [fst].
  match goal with |- context [srv_step ?s y] => set (s1 := s) end.
  assert (st_cl (fst (srv_step s1 y)) y =
          {| k_closed := false; k_out := k_out (st_cl st y) ++ [(st_next st, KFetch)]; k_c2s := [];
             k_s2c := [SDmx (st_next st) u (u_aprio x3) (u_buf x3)] |}) as E.
  { rewrite (srv_get s1 y (st_next st) u x3).
    - subst s1. cbn [st_cl wake_up set_cl]. unfold updf. rewrite N.eqb_refl. cbn [k_out k_s2c]. rewrite Hs. reflexivity.
    - exact Ha.
    - subst s1. cbn [st_cl wake_up set_cl]. unfold updf. rewrite N.eqb_refl. cbn [k_c2s]. rewrite Hq. reflexivity.
    - subst s1. cbn [st_cl wake_up set_cl]. unfold updf. rewrite N.eqb_refl. reflexivity.
    - exact Hp.
    - exact Hf. }
  destruct (srv_step s1 y) as [s2 t]. cbn [fst] in *.
  unfold cli_step. rewrite E. cbn [k_closed k_s2c msg_rid k_out].
  rewrite (out_take_fresh (st_next st) KFetch (k_out (st_cl st y)) Hfresh).
  reflexivity.
Qed.

(* the poller step for a client whose channel starts with a streamed frame for an existing universe *)
Lemma srv_stream s c u d p rest x :
  sv_alive (st_sv s) c = true -> k_c2s (st_cl s c) = RStream u d p :: rest ->
  find_uni (sv_unis (st_sv s)) u = Some x ->
  fst (srv_step s c) =
  flush (set_busy (apply_dmx (set_busy (set_cl s c {| k_closed := k_closed (st_cl s c); k_out := k_out (st_cl s c);
                                                      k_c2s := rest; k_s2c := k_s2c (st_cl s c) |}) true)
                             c x d p) false).
Proof.
  intros Ha Hq Hf. unfold srv_step. rewrite Ha, Hq. cbn [negb].
  cbn [handle_req st_sv set_busy set_cl]. rewrite Hf. reflexivity.
Qed.

Lemma run_app st a b : run st (a ++ b) = run (run st a) b.
Proof. unfold run. apply fold_left_app. Qed.

(* END TO END, single sender.  From any reachable state: client c (connected, channel drained)
   calls the client library's streaming SendDMX(u, d, priority p); the daemon's poller dispatches
   c's descriptor; another connected, drained client y (not registered for u) calls FetchDMX(u),
   the poller dispatches y's descriptor, y's library reads the reply.  If c is the only source of
   the (existing) universe u and the frame is non-empty, y's FetchDMX callback runs with success,
   universe u, priority min(p mod 256, 200) and exactly the frame d cut to 512 slots. *)
Lemma end_to_end n ops c y u x d p :
  let st0 := run (init_state n) ops in
  c <> y ->
  k_closed (st_cl st0 c) = false -> sv_alive (st_sv st0) c = true -> k_c2s (st_cl st0 c) = [] ->
  k_closed (st_cl st0 y) = false -> sv_alive (st_sv st0) y = true ->
  k_c2s (st_cl st0 y) = [] -> k_s2c (st_cl st0 y) = [] ->
  find_uni (sv_unis (st_sv st0)) u = Some x ->
  (u_srcs x = [] \/ exists b, u_srcs x = [(c, b)]) -> ~ In y (u_sinks x) -> dmx_set d <> [] ->
  let st2 := run st0 [OSend false false c u (Some p) d; OSrv c] in
  snd (step (run st2 [OFetch y u; OSrv y]) (OCli y)) =
  [EFetch y (st_next st2) None u (clamp_prio (Some (u8 p))) (dmx_set d)].
Proof.
  cbn zeta. intros Hcy Hc Hac Hqc Hy Hay Hqy Hsy Hf Hsrc Hsink Hd.
  set (st0 := run (init_state n) ops) in *.
  assert (u_id x = u) as Hid by (apply (find_uni_in _ _ _ Hf)).
  (* invariants of the reachable state st0 *)
  pose proof (ok_reachable n ops) as Hok. fold st0 in Hok.
  assert (quiet st0) as (Hp0 & _ & _) by (apply quiet_run; repeat split).
  assert (ts_ok st0) as (T1 & T2 & _) by (apply ts_run, ts_init).
  (* the two sender steps *)
  set (st2 := run st0 [OSend false false c u (Some p) d; OSrv c]).
  assert ((exists x3, find_uni (sv_unis (st_sv st2)) u = Some x3 /\ u_buf x3 = dmx_set d /\
                      u_aprio x3 = clamp_prio (Some (u8 p))) /\
          st_cl st2 y = st_cl st0 y /\ sv_alive (st_sv st2) y = true) as (Hx3 & Ecl & Eal).
  { subst st2. cbn [run fold_left step]. rewrite Hc. cbn [fst].
    match goal with |- context [srv_step ?s c] => set (s1 := s) end.
    assert (sv_alive (st_sv s1) c = true) as A1 by exact Hac.
    assert (k_c2s (st_cl s1 c) = RStream u (dmx_set d) (Some (u8 p)) :: []) as A2.
    { subst s1. cbn [st_cl wake_up log_sent set_cl]. unfold updf. rewrite N.eqb_refl. cbn [k_c2s]. rewrite Hqc. reflexivity. }
    assert (find_uni (sv_unis (st_sv s1)) u = Some x) as A3 by exact Hf.
    pose proof (srv_stream s1 c u (dmx_set d) (Some (u8 p)) [] x A1 A2 A3) as Es.
    destruct (srv_step s1 c) as [s2 t]. cbn [fst] in *. subst s2.
    match goal with |- context [apply_dmx ?s c x _ _] => set (si := s) end.
    assert (sinks_ok (st_sv si)) as B1 by exact Hok.
    assert (pend_closed si) as B2 by (apply pend_closed_reachable; exact Hp0).
    assert (st_wake si <> 0) as B3 by (subst si s1; cbn; lia).
    assert (st_now si < st_wake si + 2500000) as B4 by (subst si s1; cbn; lia).
    assert (find_uni (sv_unis (st_sv si)) (u_id x) = Some x) as B5 by (rewrite Hid; exact Hf).
    assert (dmx_set (dmx_set d) <> []) as B6 by (rewrite dmx_set_idem; exact Hd).
    destruct (single_sender_gen si c x (dmx_set d) (Some (u8 p)) B1 B2 B3 B4 B5 Hsrc B6)
      as (P' & (x2 & F1 & F2 & F3) & Ecl' & Eal' & _ & _).
    cbn zeta in *. set (sa := apply_dmx si c x (dmx_set d) (Some (u8 p))) in *.
    assert (k_closed (st_cl (set_busy sa false) y) = false) as Hyo.
    { cbn [st_cl set_busy]. rewrite (Ecl' y Hsink). subst si s1. cbn [st_cl set_busy set_cl wake_up log_sent].
      unfold updf. destruct (y =? c) eqn:E; [apply N.eqb_eq in E; congruence|exact Hy]. }
    destruct (flush_keeps (set_busy sa false) y u P' Hyo) as (K1 & K2 & K3 & _ & _).
    split; [|split].
    - rewrite Hid in F1. unfold frame_of in K3. cbn [st_sv set_busy] in K3. rewrite F1 in K3.
      destruct (find_uni (sv_unis (st_sv (flush (set_busy sa false)))) u) as [x3|]; [|discriminate].
      cbn [option_map] in K3. inversion K3. exists x3. split; [reflexivity|]. rewrite dmx_set_idem in F2. split; congruence.
    - rewrite K1. cbn [st_cl set_busy]. rewrite (Ecl' y Hsink). subst si s1.
      cbn [st_cl set_busy set_cl wake_up log_sent]. unfold updf.
      destruct (y =? c) eqn:E; [apply N.eqb_eq in E; congruence|reflexivity].
    - rewrite K2. cbn [st_sv set_busy]. rewrite Eal'. exact Hay. }
  destruct Hx3 as (x3 & G1 & G2 & G3).
  (* st2 is itself reachable: nothing pending, request ids fresh *)
  assert (st2 = run (init_state n) (ops ++ [OSend false false c u (Some p) d; OSrv c])) as Er
    by (rewrite run_app; reflexivity).
  assert (st_pend st2 = []) as Hp2.
  { rewrite Er. assert (quiet (run (init_state n) (ops ++ [OSend false false c u (Some p) d; OSrv c]))) as (Q1 & _)
      by (apply quiet_run; repeat split). exact Q1. }
  assert (forall r k, In (r, k) (k_out (st_cl st2 y)) -> r <> st_next st2) as Hfresh.
  { intros r k Hin. assert (once_inv st2) as (_ & _ & I3 & _) by (rewrite Er; apply once_run, once_init).
    assert (In r (outs st2 y)) as Ho by (unfold outs; apply in_map_iff; exists (r, k); split; [reflexivity|exact Hin]).
    destruct (I3 y r Ho) as [Hlt _]. lia. }
  rewrite (fetch_roundtrip st2 y u x3 Hp2); try assumption.
  - rewrite G2, G3, dmx_set_idem. rewrite u8_id; [reflexivity|]. pose proof (clamp_le (Some (u8 p))). lia.
  - rewrite Ecl. exact Hy.
  - rewrite Ecl. exact Hqy.
  - rewrite Ecl. exact Hsy.
Qed.
