(* every request id completes at most once, under every schedule *)
From OlaBase Require Import Bytes.
From C04 Require Import Gen Model Proofs.
Local Open Scope N_scope.

Lemma NoDup_snoc {A} (l : list A) x : NoDup l -> ~ In x l -> NoDup (l ++ [x]).
Proof.
  induction l as [|y l IH]; intros Hn Hx; cbn.
  - constructor; [intros []|constructor].
  - inversion Hn; subst. constructor.
    + intros Hin. apply in_app_or in Hin as [Hin|[<-|[]]]; [contradiction|]. apply Hx. left; reflexivity.
    + apply IH; [assumption|]. intros Hin. apply Hx. right; exact Hin.
Qed.

Definition outs (st : state) (c : N) : list N := map fst (k_out (st_cl st c)).

Definition once_inv (st : state) : Prop :=
  NoDup (st_done st) /\
  (forall r, In r (st_done st) -> r < st_next st) /\
  (forall c r, In r (outs st c) -> r < st_next st /\ ~ In r (st_done st)) /\
  (forall c, NoDup (outs st c)) /\
  (forall c c' r, c <> c' -> In r (outs st c) -> ~ In r (outs st c')).

Lemma once_inv_tbl a b : tbl_eq a b -> once_inv b -> once_inv a.
Proof.
  intros (E1 & E2 & E3) (I1 & I2 & I3 & I4 & I5).
  assert (forall c, outs a c = outs b c) as Eo by (intros c; unfold outs; rewrite E3; reflexivity).
  unfold once_inv. rewrite E1, E2.
  split; [exact I1|]. split; [exact I2|].
  split; [intros c r H; rewrite Eo in H; apply (I3 _ _ H)|].
  split; [intros c; rewrite Eo; apply I4|].
  intros c c' r Hc H. rewrite Eo in *. apply (I5 _ _ _ Hc H).
Qed.

Lemma out_take_spec rid l kd l' :
  out_take rid l = Some (kd, l') ->
  In rid (map fst l) /\ (forall r, In r (map fst l') -> In r (map fst l)) /\
  (NoDup (map fst l) -> NoDup (map fst l') /\ ~ In rid (map fst l')).
Proof.
  revert kd l'. induction l as [|[r k] t IH]; intros kd l' H; cbn in H; [discriminate|].
  destruct (r =? rid) eqn:E.
  - apply N.eqb_eq in E; subst r. inversion H; subst. cbn. repeat split.
    + left; reflexivity.
    + intros r Hr; right; exact Hr.
    + inversion H0; assumption.
    + inversion H0; assumption.
  - destruct (out_take rid t) as [[k' t']|] eqn:Et; [|discriminate].
    inversion H; subst. destruct (IH _ _ eq_refl) as (A & B & C). cbn. repeat split.
    + right; exact A.
    + intros x [Hx|Hx]; [left; exact Hx|right; apply B; exact Hx].
    + inversion H0; subst. destruct (C H4) as [C1 C2]. constructor; [|exact C1].
      intros Hin. apply H3. apply B. exact Hin.
    + inversion H0; subst. destruct (C H4) as [C1 C2]. intros [Hx|Hx].
      * apply N.eqb_neq in E. congruence.
      * exact (C2 Hx).
Qed.

Lemma once_complete st st' c rid :
  once_inv st -> In rid (outs st c) ->
  st_next st' = st_next st -> st_done st' = st_done st ++ [rid] ->
  (forall c' r, In r (outs st' c') -> In r (outs st c')) ->
  (forall c', NoDup (outs st' c')) ->
  ~ In rid (outs st' c) ->
  once_inv st'.
Proof.
  intros (I1 & I2 & I3 & I4 & I5) Hin En Ed Hsub Hnd Hnot.
  unfold once_inv. rewrite En, Ed.
  split; [apply NoDup_snoc; [exact I1|apply (I3 c); exact Hin]|].
  split.
  { intros r Hr. apply in_app_or in Hr as [Hr|[<-|[]]]; [apply I2; exact Hr|apply (I3 c); exact Hin]. }
  split.
  { intros c' r Hr. split; [apply (I3 c'); apply Hsub; exact Hr|].
    intros Hx. apply in_app_or in Hx as [Hx|[<-|[]]].
    - apply Hsub in Hr. apply (I3 c') in Hr. tauto.
    - destruct (N.eq_dec c' c) as [->|Hne]; [exact (Hnot Hr)|].
      apply Hsub in Hr. exact (I5 c' c _ Hne Hr Hin). }
  split; [exact Hnd|].
  intros c1 c2 r Hne H1 H2. apply Hsub in H1, H2. exact (I5 c1 c2 r Hne H1 H2).
Qed.

Lemma once_fresh_done st st' :
  once_inv st ->
  st_next st' = st_next st + 1 -> st_done st' = st_done st ++ [st_next st] ->
  (forall c', outs st' c' = outs st c') ->
  once_inv st'.
Proof.
  intros (I1 & I2 & I3 & I4 & I5) En Ed Eo.
  unfold once_inv. rewrite En, Ed.
  split; [apply NoDup_snoc; [exact I1|intros Hin; apply I2 in Hin; lia]|].
  split.
  { intros r Hr. apply in_app_or in Hr as [Hr|[<-|[]]]; [apply I2 in Hr; lia|lia]. }
  split.
  { intros c' r Hr. rewrite Eo in Hr. destruct (I3 c' r Hr) as [A B]. split; [lia|].
    intros Hx. apply in_app_or in Hx as [Hx|[<-|[]]]; [exact (B Hx)|lia]. }
  split; [intros c'; rewrite Eo; apply I4|].
  intros c1 c2 r Hne H1. rewrite Eo in *. exact (I5 c1 c2 r Hne H1).
Qed.

Lemma once_fresh_out st st' c :
  once_inv st ->
  st_next st' = st_next st + 1 -> st_done st' = st_done st ->
  outs st' c = outs st c ++ [st_next st] ->
  (forall c', c' <> c -> outs st' c' = outs st c') ->
  once_inv st'.
Proof.
  intros (I1 & I2 & I3 & I4 & I5) En Ed Ec Eo.
  assert (forall c' r, In r (outs st' c') -> In r (outs st c') \/ (c' = c /\ r = st_next st)) as Hcase.
  { intros c' r Hr. destruct (N.eq_dec c' c) as [->|Hne].
    - rewrite Ec in Hr. apply in_app_or in Hr as [Hr|[<-|[]]]; [left; exact Hr|right; split; reflexivity].
    - rewrite (Eo c' Hne) in Hr. left; exact Hr. }
  unfold once_inv. rewrite En, Ed.
  split; [exact I1|].
  split; [intros r Hr; apply I2 in Hr; lia|].
  split.
  { intros c' r Hr. destruct (Hcase c' r Hr) as [H|[-> ->]].
    - destruct (I3 c' r H); split; [lia|assumption].
    - split; [lia|]. intros Hx. apply I2 in Hx. lia. }
  split.
  { intros c'. destruct (N.eq_dec c' c) as [->|Hne]; [|rewrite (Eo c' Hne); apply I4].
    rewrite Ec. apply NoDup_snoc; [apply I4|]. intros Hx. apply (I3 c) in Hx. lia. }
  intros c1 c2 r Hne H1 H2.
  destruct (Hcase c1 r H1) as [A|[E1 E2]]; destruct (Hcase c2 r H2) as [B|[E3 E4]].
  - exact (I5 c1 c2 r Hne A B).
  - subst r. apply (I3 c1) in A. lia.
  - subst r. apply (I3 c2) in B. lia.
  - congruence.
Qed.

Lemma once_issue st c kd mk nc :
  once_inv st -> once_inv (fst (issue st c kd mk nc)).
Proof.
  intros I. unfold issue.
  destruct (k_closed (st_cl st c)) eqn:Ec; cbn [fst].
  - apply (once_fresh_done st); [exact I|reflexivity|reflexivity|intros c'; reflexivity].
  - apply (once_fresh_out st _ c); [exact I|reflexivity|reflexivity| |].
    + unfold outs; cbn. unfold updf. rewrite N.eqb_refl. cbn. rewrite map_app. reflexivity.
    + intros c' Hne. unfold outs; cbn. unfold updf.
      destruct (c' =? c) eqn:E; [apply N.eqb_eq in E; congruence|reflexivity].
Qed.

Lemma once_cli_step st c : once_inv st -> once_inv (fst (fst (cli_step st c))).
Proof.
  intros I. unfold cli_step.
  destruct (k_closed (st_cl st c)) eqn:Ec; [exact I|].
  destruct (k_s2c (st_cl st c)) as [|m rest] eqn:Es; [exact I|].
  assert (forall k', k_out k' = k_out (st_cl st c) -> once_inv (set_cl st c k')) as Hsame.
  { intros k' Hk. eapply once_inv_tbl; [apply tbl_set_cl; exact Hk|exact I]. }
  assert (forall rid kd out',
            out_take rid (k_out (st_cl st c)) = Some (kd, out') ->
            once_inv (add_done (set_cl st c {| k_closed := false; k_out := out'; k_c2s := k_c2s (st_cl st c);
                                               k_s2c := rest |}) rid)) as Hdone.
  { intros rid kd out' Eo.
    destruct (out_take_spec _ _ _ _ Eo) as (A & B & C).
    destruct (C (proj1 (proj2 (proj2 (proj2 I))) c)) as [C1 C2].
    apply (once_complete st _ c rid); [exact I|exact A|reflexivity|reflexivity| | |].
    - intros c' r. unfold outs; cbn. unfold updf.
      destruct (c' =? c) eqn:E; [apply N.eqb_eq in E; subst; cbn; apply B|tauto].
    - intros c'. unfold outs; cbn. unfold updf.
      destruct (c' =? c) eqn:E; [cbn; exact C1|apply (proj1 (proj2 (proj2 (proj2 I))))].
    - unfold outs; cbn. unfold updf. rewrite N.eqb_refl. cbn. exact C2. }
  destruct m as [rid|rid e|rid u p d|rid u nm h|u p d]; cbn [msg_rid].
  5: { cbn [fst]. apply Hsame; reflexivity. }
  all: destruct (out_take rid (k_out (st_cl st c))) as [[kd out']|] eqn:Eo; cbn [fst];
       [eapply Hdone; exact Eo|apply Hsame; reflexivity].
Qed.

Lemma once_step st o : once_inv st -> once_inv (fst (fst (step st o))).
Proof.
  intros I. destruct o; cbn [step].
  - destruct acked.
    + pose proof (once_issue st c KSet
        (fun rid => RUpdate rid u (if raw then d else dmx_set d)
           (if raw then p else match p with Some v => Some (u8 v) | None => Some SOURCE_PRIORITY_DEFAULT end))
        (EDone c (st_next st) (Some E_NOTCONN)) I) as H.
      destruct (issue _ _ _ _ _) as [st1 ev]. cbn in *.
      destruct (k_closed (st_cl st c)); [exact H|].
      eapply once_inv_tbl; [|exact H]. repeat split.
    + destruct (k_closed (st_cl st c)); cbn; [exact I|].
      eapply once_inv_tbl; [|exact I].
      match goal with |- tbl_eq (log_sent (set_cl st c ?k) _ _) st =>
        apply (tbl_trans _ (set_cl st c k)); [repeat split|apply tbl_set_cl; reflexivity] end.
  - pose proof (once_issue st c KFetch (fun rid => RGet rid u)
       (EFetch c (st_next st) (Some E_NOTCONN) 0 SOURCE_PRIORITY_DEFAULT []) I) as H.
    destruct (issue _ _ _ _ _); exact H.
  - pose proof (once_issue st c KSet (fun rid => RReg rid u on) (EDone c (st_next st) (Some E_NOTCONN)) I) as H.
    destruct (issue _ _ _ _ _); exact H.
  - pose proof (once_issue st c KSet (fun rid => RMode rid u h) (EDone c (st_next st) (Some E_NOTCONN)) I) as H.
    destruct (issue _ _ _ _ _); exact H.
  - pose proof (once_issue st c KSet (fun rid => RName rid u nm) (EDone c (st_next st) (Some E_NOTCONN)) I) as H.
    destruct (issue _ _ _ _ _); exact H.
  - pose proof (once_issue st c KInfo (fun rid => RInfo rid u)
       (EInfo c (st_next st) (Some E_NOTCONN) 0 None false) I) as H.
    destruct (issue _ _ _ _ _); exact H.
  - pose proof (once_issue st c KSet (fun rid => ROpq rid kd u) (EDone c (st_next st) (Some E_NOTCONN)) I) as H.
    destruct (issue _ _ _ _ _); exact H.
  - cbn. eapply once_inv_tbl; [apply tbl_set_cl; reflexivity|exact I].
  - cbn. eapply once_inv_tbl; [|exact I]. repeat split.
  - cbn. eapply once_inv_tbl; [|exact I]. repeat split.
  - pose proof (tbl_srv_step (wake_up st) c) as H. destruct (srv_step (wake_up st) c) as [st1 t]. cbn in *.
    eapply once_inv_tbl; [exact H|]. eapply once_inv_tbl; [|exact I]. repeat split.
  - apply once_cli_step; exact I.
  - cbn. eapply once_inv_tbl; [|exact I]. repeat split.
  - pose proof (tbl_srv_step st c) as H. destruct (srv_step st c) as [st1 t]. cbn in *.
    eapply once_inv_tbl; [|exact I]. eapply tbl_trans; [|exact H]. repeat split.
Qed.

Lemma once_init n : once_inv (init_state n).
Proof.
  unfold once_inv, outs; cbn. repeat split; try constructor; try (intros; contradiction).
  all: intros; try contradiction.
Qed.

Lemma once_run st ops : once_inv st -> once_inv (run st ops).
Proof.
  revert st. induction ops as [|o ops IH]; intros st I; cbn; [exact I|].
  apply IH. apply once_step. exact I.
Qed.

Lemma done_nodup n ops : NoDup (st_done (run (init_state n) ops)).
Proof. exact (proj1 (once_run _ ops (once_init n))). Qed.

(* the number of times the completion callback of request id r has run *)
Definition completions (st : state) (r : N) : nat := count_occ N.eq_dec (st_done st) r.

Lemma at_most_once n ops r : (completions (run (init_state n) ops) r <= 1)%nat.
Proof.
  unfold completions. pose proof (done_nodup n ops) as H.
  rewrite (NoDup_count_occ N.eq_dec) in H. apply H.
Qed.
