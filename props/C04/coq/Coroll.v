(* corollaries of the general fidelity lemma over reachable states *)
From OlaBase Require Import Bytes.
From C04 Require Import Gen Model Proofs Merge Wf Fidelity Fidelity2 Safe Ts.
Local Open Scope N_scope.

(* the state in which srv_step runs the service method for client c, from a reachable state *)
Definition inner (st0 : state) (c : N) (k' : client) : state := set_busy (set_cl st0 c k') true.

Lemma reach_hyps n ops c k' :
  let st0 := run (init_state n) ops in
  sinks_ok (st_sv (inner st0 c k')) /\ pend_closed (inner st0 c k') /\ ts_ok st0.
Proof.
  cbn zeta. split; [exact (ok_reachable n ops)|]. split.
  - apply pend_closed_reachable. cbn.
    assert (quiet (init_state n)) as Q0 by (repeat split).
    pose proof (quiet_run (init_state n) ops Q0) as Q. unfold quiet in Q. tauto.
  - apply ts_run, ts_init.
Qed.

(* LTP, last writer wins: if the sender's new source is live at the top priority, the universe
   holds exactly its frame, whatever the other sources are *)
Lemma ltp_last_writer n ops c k' x d p x2 :
  let st0 := run (init_state n) ops in
  let st' := apply_dmx (inner st0 c k') c x d p in
  let src := {| s_data := dmx_set d; s_ts := st_wake st0; s_prio := clamp_prio p |} in
  find_uni (sv_unis (st_sv st0)) (u_id x) = Some x -> u_htp x = false ->
  find_uni (sv_unis (st_sv st')) (u_id x) = Some x2 ->
  In (c, src) (group (lives (st_now st0) (sv_cdata (st_sv st')) (u_id x) (u_srcs x2))) ->
  u_buf x2 = dmx_set d.
Proof.
  cbn zeta. intros Hf Hh Hf2 Hin.
  destruct (reach_hyps n ops c k') as (Hok & Hp & (T1 & T2 & T3)). cbn zeta in *.
  destruct (apply_general (inner (run (init_state n) ops) c k') c x d p Hf Hok Hp) as (Hcd & x2' & ch & A1 & A2 & A3 & _).
  cbn zeta in *. change (st_now (inner (run (init_state n) ops) c k')) with (st_now (run (init_state n) ops)) in *.
  change (st_wake (inner (run (init_state n) ops) c k')) with (st_wake (run (init_state n) ops)) in *.
  rewrite A1 in Hf2. inversion Hf2; subst x2'. clear Hf2.
  set (st' := apply_dmx (inner (run (init_state n) ops) c k') c x d p) in *.
  set (src := {| s_data := dmx_set d; s_ts := st_wake (run (init_state n) ops); s_prio := clamp_prio p |}) in *.
  set (x1 := {| u_id := u_id x; u_htp := u_htp x; u_name := u_name x; u_buf := u_buf x; u_aprio := u_aprio x;
                u_srcs := u_srcs x2; u_sinks := u_sinks x |}) in *.
  destruct (merge_ltp (st_now (run (init_state n) ops)) (sv_cdata (st_sv st')) x1 c src Hh Hin) as (x3 & Em & Eb).
  - (* every member of the group was stamped with a wake-up time of the past *)
    intros e He. unfold group, at_prio in He. apply filter_In in He as [He _].
    destruct e as [y s]. apply lives_cd in He as [He _]. apply cd_find_in in He as [k Hk].
    apply cdata_apply_dmx in Hk as [Hk|Hk].
    + inversion Hk; subst. cbn. apply N.le_refl.
    + cbn. destruct (T3 _ Hk) as [_ Hle]. exact Hle.
  - rewrite A2 in Em. inversion Em; subst. exact Eb.
Qed.

(* one sender: the frame arrives unmodified (any merge mode), provided the loop iteration is
   shorter than the 2.5 s source timeout *)
Lemma single_sender n ops c k' x d p :
  let st0 := run (init_state n) ops in
  let st' := apply_dmx (inner st0 c k') c x d p in
  find_uni (sv_unis (st_sv st0)) (u_id x) = Some x ->
  (u_srcs x = [] \/ exists b, u_srcs x = [(c, b)]) ->
  dmx_set d <> [] -> st_now st0 < st_wake st0 + 2500000 ->
  exists x2, find_uni (sv_unis (st_sv st')) (u_id x) = Some x2 /\
             u_buf x2 = dmx_set d /\ u_aprio x2 = clamp_prio p /\
             (forall s, In s (u_sinks x) -> k_closed (st_cl (inner st0 c k') s) = false ->
                k_s2c (st_cl st' s) = k_s2c (st_cl (inner st0 c k') s) ++ [SPush (u_id x) (clamp_prio p) (dmx_set d)]) /\
             (forall rid y, snd (handle_req st' y (RGet rid (u_id x))) = Some (SDmx rid (u_id x) (clamp_prio p) (dmx_set d))).
Proof.
  cbn zeta. intros Hf Hs Hd Hfresh.
  destruct (reach_hyps n ops c k') as (Hok & Hp & (T1 & T2 & T3)). cbn zeta in *.
  destruct (apply_general (inner (run (init_state n) ops) c k') c x d p Hf Hok Hp)
    as (Hcd & x2 & ch & A1 & A2 & A3 & _ & _ & _ & A7 & _ & _ & A10).
  cbn zeta in *. change (st_now (inner (run (init_state n) ops) c k')) with (st_now (run (init_state n) ops)) in *.
  change (st_wake (inner (run (init_state n) ops) c k')) with (st_wake (run (init_state n) ops)) in *.
  set (st' := apply_dmx (inner (run (init_state n) ops) c k') c x d p) in *.
  set (src := {| s_data := dmx_set d; s_ts := st_wake (run (init_state n) ops); s_prio := clamp_prio p |}) in *.
  assert (u_srcs x2 = [(c, false)]) as Es.
  { rewrite A3. destruct Hs as [->|[b ->]]; [reflexivity|].
    unfold src_memb. cbn [existsb fst]. rewrite N.eqb_refl. cbn [orb map fst]. rewrite N.eqb_refl. reflexivity. }
  assert (live (st_now (run (init_state n) ops)) src = true) as Hl.
  { unfold live. cbn [s_ts s_data src]. apply N.eqb_neq in T1. rewrite T1. cbn [negb andb].
    assert (st_now (run (init_state n) ops) <? st_wake (run (init_state n) ops) + TIMEOUT_US = true) as ->
      by (apply N.ltb_lt; change TIMEOUT_US with 2500000; lia).
    cbn [andb]. destruct (dmx_set d) eqn:Edd; [congruence|reflexivity]. }
  set (x1 := {| u_id := u_id x; u_htp := u_htp x; u_name := u_name x; u_buf := u_buf x; u_aprio := u_aprio x;
                u_srcs := u_srcs x2; u_sinks := u_sinks x |}) in *.
  destruct (merge_single (st_now (run (init_state n) ops)) (sv_cdata (st_sv st')) x1 c false src Es Hcd Hl)
    as (x3 & Em & Eb & Ep & _).
  rewrite A2 in Em. inversion Em; subst x3 ch.
  exists x2. split; [exact A1|]. split; [exact Eb|]. split; [exact Ep|]. split.
  - intros s Hin Hc. rewrite (A7 eq_refl s Hin Hc). rewrite Eb, Ep. reflexivity.
  - intros rid y. rewrite A10, Eb, Ep. reflexivity.
Qed.
