(* REGENERATED from the repository headers on every run. Do not edit.  *)
From Coq Require Import NArith.
Local Open Scope N_scope.
Definition TIMEOUT_US : N := 2500000.
Definition SOURCE_PRIORITY_MIN : N := 0.
Definition SOURCE_PRIORITY_DEFAULT : N := 100.
Definition SOURCE_PRIORITY_MAX : N := 200.
Definition DMX_UNIVERSE_SIZE : N := 512.
Definition HOUSEKEEPING_MS : N := 10000.
Definition RPC_INITIAL_BUFFER : N := 2048.
Definition RPC_MAX_BUFFER : N := 1048576.
