(* time as seen through the client API: the 2.5 s source timeout (a connected but silent client
   stops contributing) and the housekeeping eviction (it is dropped as a source, stays a sink) *)
From OlaBase Require Import Bytes.
From C04 Require Import Gen Model Proofs Merge Wf Fifo Ts.
Local Open Scope N_scope.

(* ---------------------------------------------------------------- the 2.5 s source timeout *)
Lemma timed_out_not_live now s : s_ts s + TIMEOUT_US <= now -> live now s = false.
Proof.
  intros H. unfold live. assert (now <? s_ts s + TIMEOUT_US = false) as -> by (apply N.ltb_ge; exact H).
  rewrite andb_false_r. reflexivity.
Qed.

Lemma timed_out_excluded now cd u srcs c s :
  cd_find cd (c, u) = Some s -> s_ts s + TIMEOUT_US <= now ->
  forall s', ~ In (c, s') (lives now cd u srcs).
Proof.
  intros Hf Ht s' Hin. apply lives_cd in Hin as [Hf' Hl]. rewrite Hf in Hf'. inversion Hf'; subst.
  rewrite (timed_out_not_live now s' Ht) in Hl. discriminate.
Qed.
Lemma unstored_excluded now cd u srcs c :
  cd_find cd (c, u) = None -> forall s', ~ In (c, s') (lives now cd u srcs).
Proof. intros Hf s' Hin. apply lives_cd in Hin as [Hf' _]. congruence. Qed.

(* a client's stored frame (and its timestamp) only changes when the server applies a send of that
   client, or disappears with the client *)
Definition stored (st : state) (c u : N) := cd_find (sv_cdata (st_sv st)) (c, u).
Definition napp (st : state) (c : N) : nat := length (appc st c).

Definition Q (a b : state) (c u : N) : Prop :=
  (napp b c <= napp a c)%nat /\
  (stored a c u = stored b c u \/ stored a c u = None \/ (napp b c < napp a c)%nat).
Lemma Q_refl a c u : Q a a c u. Proof. split; [apply Nat.le_refl|left; reflexivity]. Qed.
Lemma Q_trans a b d c u : Q a b c u -> Q b d c u -> Q a d c u.
Proof.
  intros [M1 H1] [M2 H2]. split; [eapply Nat.le_trans; eassumption|].
  destruct H1 as [H1|[H1|H1]]; destruct H2 as [H2|[H2|H2]].
  - left; congruence.
  - right; left; congruence.
  - right; right. eapply Nat.lt_le_trans; eassumption.
  - right; left; exact H1.
  - right; left; exact H1.
  - right; left; exact H1.
  - right; right. eapply Nat.le_lt_trans; eassumption.
  - right; right. eapply Nat.le_lt_trans; eassumption.
  - right; right. eapply Nat.lt_trans; eassumption.
Qed.
Lemma Q_same a b c u :
  st_applied a = st_applied b -> sv_cdata (st_sv a) = sv_cdata (st_sv b) -> Q a b c u.
Proof. intros E1 E2. unfold Q, napp, appc, stored. rewrite E1, E2. split; [apply Nat.le_refl|left; reflexivity]. Qed.

Lemma cd_find_set_other m k k' s : k' <> k -> cd_find (cd_set m k s) k' = cd_find m k'.
Proof.
  intros Hne. unfold cd_find, cd_set. cbn [find fst].
  assert (key_eqb k k' = false) as E.
  { unfold key_eqb. destruct k as [a b], k' as [a' b']. cbn.
    destruct (a =? a') eqn:E1; destruct (b =? b') eqn:E2; cbn; try reflexivity.
    apply N.eqb_eq in E1, E2. congruence. }
  rewrite E. induction m as [|e m IH]; cbn; [reflexivity|].
  destruct (key_eqb (fst e) k) eqn:E3; cbn.
  - destruct (key_eqb (fst e) k') eqn:E4; [|exact IH].
    exfalso. unfold key_eqb in *. destruct (fst e) as [a b], k as [a1 b1], k' as [a2 b2]. cbn in *.
    apply andb_prop in E3 as [A B], E4 as [A' B']. apply N.eqb_eq in A, B, A', B'. congruence.
  - destruct (key_eqb (fst e) k'); [reflexivity|exact IH].
Qed.

Lemma Q_send_to st x m c u : Q (send_to st x m) st c u.
Proof.
  apply Q_same; [|rewrite sv_send_to; reflexivity].
  unfold send_to. destruct (negb (sv_alive (st_sv st) x)); [reflexivity|].
  destruct (memb x (st_pend st)); [reflexivity|].
  destruct (k_closed (st_cl st x)); [unfold close_chan; destruct (memb x (st_pend st))|]; reflexivity.
Qed.
Lemma Q_update_dependants st x c u : Q (update_dependants st x) st c u.
Proof.
  unfold update_dependants. generalize (u_sinks x) st. intros l. induction l as [|s l IH]; intros st0; cbn.
  - apply Q_refl.
  - eapply Q_trans; [apply IH|apply Q_send_to].
Qed.

Lemma Q_apply_dmx st c' x d p c u : Q (apply_dmx st c' x d p) st c u.
Proof.
  unfold apply_dmx. destruct (merge_all _ _ _ _) as [x2 ch].
  match goal with |- context [if ch then update_dependants ?s x2 else ?s] => set (st3 := s) end.
  assert (Q st3 st c u) as H3.
  { unfold Q, napp, appc, stored. cbn [st_applied st_sv sv_cdata st3 set_sv].
    rewrite proj_app, app_length.
    destruct (N.eq_dec c' c) as [->|Hne].
    - rewrite proj_one_same. cbn [length]. split; [lia|]. right; right. lia.
    - rewrite (proj_one_other c c' _ Hne). cbn [length]. split; [lia|]. left.
      apply cd_find_set_other. intros E. inversion E. congruence. }
  destruct ch; [eapply Q_trans; [apply Q_update_dependants|exact H3]|exact H3].
Qed.

Lemma Q_handle_req st c' r c u : Q (fst (handle_req st c' r)) st c u.
Proof.
  destruct r; cbn [handle_req].
  - destruct (find_uni _ _); cbn [fst]; [apply Q_apply_dmx|apply Q_same; reflexivity].
  - destruct (find_uni _ _); cbn [fst]; [apply Q_apply_dmx|apply Q_same; reflexivity].
  - destruct (find_uni _ _); apply Q_refl.
  - destruct on; destruct (find_uni _ _); cbn [fst]; apply Q_same; reflexivity.
  - destruct (find_uni _ _); cbn [fst]; apply Q_same; reflexivity.
  - destruct (find_uni _ _); cbn [fst]; apply Q_same; reflexivity.
  - destruct (find_uni _ _); apply Q_refl.
  - apply Q_refl.
  - apply Q_refl.
Qed.

Lemma Q_kill st x c u : Q (kill st x) st c u.
Proof.
  unfold Q, napp, appc, stored, kill.
  destruct (st_busy st); cbn; (split; [apply Nat.le_refl|]);
    (destruct (N.eq_dec c x) as [->|Hne];
     [right; left; apply cd_find_del_same|left; apply cd_find_del_other; exact Hne]).
Qed.
Lemma Q_flush st c u : Q (flush st) st c u.
Proof.
  unfold flush. assert (forall l s, Q (fold_left kill l s) s c u) as H.
  { induction l as [|x l IH]; intros s; cbn; [apply Q_refl|]. eapply Q_trans; [apply IH|apply Q_kill]. }
  eapply Q_trans; [apply H|apply Q_same; reflexivity].
Qed.

Lemma Q_srv_step st c' c u : Q (fst (srv_step st c')) st c u.
Proof.
  unfold srv_step. destruct (negb (sv_alive (st_sv st) c')); [apply Q_refl|].
  destruct (k_c2s (st_cl st c')) as [|r rest].
  - destruct (k_closed (st_cl st c')); cbn [fst]; [|apply Q_refl].
    eapply Q_trans; [apply Q_flush|]. apply Q_same; unfold close_chan; destruct (memb c' (st_pend st)); reflexivity.
  - match goal with |- context [handle_req ?s c' r] => pose proof (Q_handle_req s c' r c u) as H;
      destruct (handle_req s c' r) as [st2 rep] end.
    cbn [fst] in *. eapply Q_trans; [apply Q_flush|].
    eapply Q_trans; [apply Q_same; reflexivity|].
    assert (Q st2 st c u) as H2 by (eapply Q_trans; [exact H|apply Q_same; reflexivity]).
    destruct rep; [eapply Q_trans; [apply Q_send_to|exact H2]|exact H2].
Qed.

Lemma cdata_housekeeping sv : sv_cdata (housekeeping sv) = sv_cdata sv.
Proof.
  unfold housekeeping. cbn.
  assert (forall l sv0, sv_cdata (fold_left gc_one l sv0) = sv_cdata sv0) as Hf.
  { induction l as [|u l IH]; intros sv0; cbn; [reflexivity|]. rewrite IH. unfold gc_one.
    destruct (find_uni _ _); [destruct (uni_active _)|]; reflexivity. }
  apply Hf.
Qed.

Lemma Q_step st o c u : Q (fst (fst (step st o))) st c u.
Proof.
  destruct o; cbn [step].
  - destruct acked.
    + unfold issue. destruct (k_closed (st_cl st c0)); cbn; apply Q_same; reflexivity.
    + destruct (k_closed (st_cl st c0)); cbn; apply Q_same; reflexivity.
  - unfold issue. destruct (k_closed (st_cl st c0)); cbn; apply Q_same; reflexivity.
  - unfold issue. destruct (k_closed (st_cl st c0)); cbn; apply Q_same; reflexivity.
  - unfold issue. destruct (k_closed (st_cl st c0)); cbn; apply Q_same; reflexivity.
  - unfold issue. destruct (k_closed (st_cl st c0)); cbn; apply Q_same; reflexivity.
  - unfold issue. destruct (k_closed (st_cl st c0)); cbn; apply Q_same; reflexivity.
  - unfold issue. destruct (k_closed (st_cl st c0)); cbn; apply Q_same; reflexivity.
  - apply Q_same; reflexivity.
  - apply Q_same; reflexivity.
  - apply Q_same; [reflexivity|]. cbn. apply cdata_housekeeping.
  - pose proof (Q_srv_step (wake_up st) c0 c u) as H. destruct (srv_step (wake_up st) c0) as [st1 t]. cbn [fst] in *.
    eapply Q_trans; [exact H|apply Q_same; reflexivity].
  - unfold cli_step. destruct (k_closed (st_cl st c0)); [apply Q_refl|].
    destruct (k_s2c (st_cl st c0)) as [|m rest]; [apply Q_refl|].
    destruct m; cbn [msg_rid]; try (apply Q_same; reflexivity);
      destruct (out_take _ _) as [[kd o]|]; cbn [fst]; apply Q_same; reflexivity.
  - apply Q_same; reflexivity.
  - pose proof (Q_srv_step st c0 c u) as H. destruct (srv_step st c0) as [st1 t]. cbn [fst] in *.
    eapply Q_trans; [apply Q_same; reflexivity|exact H].
Qed.

Lemma Q_run ops : forall st c u, Q (run st ops) st c u.
Proof.
  induction ops as [|o ops IH]; intros st c u; cbn; [apply Q_refl|].
  eapply Q_trans; [apply IH|apply Q_step].
Qed.

(* a connected but silent client stops contributing once its last frame is 2.5 s old *)
Lemma silent_times_out st ops c u s :
  stored st c u = Some s ->
  let st' := run st ops in
  napp st' c = napp st c ->                       (* nothing of c has been applied in between *)
  s_ts s + TIMEOUT_US <= st_now st' ->
  forall srcs s', ~ In (c, s') (lives (st_now st') (sv_cdata (st_sv st')) u srcs).
Proof.
  cbn zeta. intros Hs Hn Ht srcs s'. destruct (Q_run ops st c u) as [_ [H|[H|H]]].
  - apply (timed_out_excluded _ _ _ _ _ s); [unfold stored in *; congruence|exact Ht].
  - apply unstored_excluded. exact H.
  - lia.
Qed.

(* ---------------------------------------------------------------- housekeeping eviction *)
Lemma clean_stale_spec x :
  let x' := fst (clean_stale x) in
  u_id x' = u_id x /\ u_sinks x' = u_sinks x /\ u_buf x' = u_buf x /\ u_aprio x' = u_aprio x /\
  (forall c b, In (c, b) (u_srcs x') <-> b = true /\ In (c, false) (u_srcs x)).
Proof.
  unfold clean_stale. cbn. repeat split; try reflexivity.
  - apply in_map_iff in H as ([c' b'] & E & Hin). inversion E; subst. reflexivity.
  - apply in_map_iff in H as ([c' b'] & E & Hin). inversion E; subst.
    apply filter_In in Hin as [Hin Hb]. cbn in Hb. destruct b'; [discriminate|exact Hin].
  - intros [-> Hin]. apply in_map_iff. exists (c, false). split; [reflexivity|].
    apply filter_In. split; [exact Hin|reflexivity].
Qed.

(* after one housekeeping run every remaining source is marked stale; a second run without a send
   in between evicts it; sink registrations are never touched *)
Lemma housekeeping_unis sv x' :
  In x' (sv_unis (housekeeping sv)) ->
  exists x, In x (sv_unis sv) /\ x' = fst (clean_stale x).
Proof.
  unfold housekeeping. cbn. rewrite map_map. intros H. apply in_map_iff in H as (x & <- & Hin).
  exists x. split; [|reflexivity].
  assert (forall l sv0 y, In y (sv_unis (fold_left gc_one l sv0)) -> In y (sv_unis sv0)) as Hf.
  { induction l as [|u l IH]; intros sv0 y Hy; cbn in Hy; [exact Hy|]. apply IH in Hy.
    unfold gc_one in Hy. destruct (find_uni _ _); [|exact Hy]. destruct (uni_active _); [exact Hy|].
    cbn in Hy. unfold del_uni in Hy. apply filter_In in Hy. tauto. }
  apply (Hf _ _ _ Hin).
Qed.

Lemma housekeeping_twice sv x2 :
  In x2 (sv_unis (housekeeping (housekeeping sv))) ->
  u_srcs x2 = [] /\ exists x, In x (sv_unis sv) /\ u_id x2 = u_id x /\ u_sinks x2 = u_sinks x.
Proof.
  intros H. apply housekeeping_unis in H as (x1 & H1 & ->).
  apply housekeeping_unis in H1 as (x & Hx & ->).
  destruct (clean_stale_spec x) as (A1 & A2 & _ & _ & A5).
  destruct (clean_stale_spec (fst (clean_stale x))) as (B1 & B2 & _ & _ & B5). cbn zeta in *.
  split.
  - assert (forall c b, ~ In (c, b) (u_srcs (fst (clean_stale (fst (clean_stale x)))))) as Hno.
    { intros c b Hin. apply B5 in Hin as [_ Hin]. apply A5 in Hin as [Hf _]. discriminate. }
    destruct (u_srcs (fst (clean_stale (fst (clean_stale x))))) as [|[c b] l]; [reflexivity|].
    exfalso. apply (Hno c b). left; reflexivity.
  - exists x. split; [exact Hx|]. split; congruence.
Qed.

