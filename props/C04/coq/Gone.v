(* "A client that disconnects at any point stops contributing and never disturbs the others":
   once the daemon has processed the disconnect of c (c is gone), c stays gone under every
   history, and nothing c's process does afterwards changes the daemon, the clock, any channel,
   any other client's tables or the DMX logs: only request numbers are consumed, and the only
   events produced are "Not connected" completions addressed to c itself. *)
From OlaBase Require Import Bytes.
From C04 Require Import Gen Model Proofs Wf.
Local Open Scope N_scope.

Definition gone (st : state) (c : N) : Prop :=
  k_closed (st_cl st c) = true /\ sv_alive (st_sv st) c = false.

(* the client whose process performs the op (schedule, clock and housekeeping ops have none) *)
Definition op_client (o : op) : option N :=
  match o with
  | OSend _ _ c _ _ _ | OFetch c _ | OReg c _ _ | OMode c _ _ | OName c _ _ | OInfo c _ | OOpq c _ _
  | ODisc c | OCli c => Some c
  | OTick _ | OHK | OSrv _ | OJump _ | OSrvSame _ => None
  end.
Definition ev_client (e : event) : N :=
  match e with EDone c _ _ | EFetch c _ _ _ _ _ | EInfo c _ _ _ _ _ | EDmx c _ _ _ => c end.
Definition ev_is_notconn (e : event) : bool :=
  match e with
  | EDone _ _ (Some 3) | EFetch _ _ (Some 3) _ _ _ | EInfo _ _ (Some 3) _ _ _ => true
  | _ => false
  end.

(* everything except the request numbering *)
Definition same_world (a b : state) : Prop :=
  st_sv a = st_sv b /\ st_now a = st_now b /\ st_wake a = st_wake b /\
  (forall y, st_cl a y = st_cl b y) /\
  st_pend a = st_pend b /\ st_busy a = st_busy b /\ st_hz a = st_hz b /\
  st_sent a = st_sent b /\ st_applied a = st_applied b /\ st_rejected a = st_rejected b.

Lemma same_world_refl a : same_world a a. Proof. repeat split; reflexivity. Qed.

Lemma issue_closed st c kd mk nc : k_closed (st_cl st c) = true ->
  same_world (fst (issue st c kd mk nc)) st /\ snd (issue st c kd mk nc) = [nc].
Proof. intros H. unfold issue. rewrite H. cbn. split; [repeat split; reflexivity|reflexivity]. Qed.

(* what a gone client's process does is invisible to everybody else *)
Lemma gone_client_op st c o :
  gone st c -> op_client o = Some c ->
  same_world (fst (fst (step st o))) st /\
  (forall e, In e (snd (step st o)) -> ev_client e = c /\ ev_is_notconn e = true).
Proof.
  intros [Hc Ha] Ho. destruct o; cbn in Ho; inversion Ho; subst; cbn [step].
  - destruct acked.
    + destruct (issue_closed st c KSet
        (fun rid => RUpdate rid u (if raw then d else dmx_set d)
           (if raw then p else match p with Some v => Some (u8 v) | None => Some SOURCE_PRIORITY_DEFAULT end))
        (EDone c (st_next st) (Some E_NOTCONN)) Hc) as [W E].
      destruct (issue _ _ _ _ _) as [st1 ev]. cbn [fst snd] in *. rewrite Hc. subst ev.
      split; [exact W|]. intros e [<-|[]]. split; reflexivity.
    + rewrite Hc. cbn. split; [apply same_world_refl|intros e []].
  - destruct (issue_closed st c KFetch (fun rid => RGet rid u)
       (EFetch c (st_next st) (Some E_NOTCONN) 0 SOURCE_PRIORITY_DEFAULT []) Hc) as [W E].
    destruct (issue _ _ _ _ _) as [st1 ev]. cbn [fst snd] in *. subst ev.
    split; [exact W|]. intros e [<-|[]]. split; reflexivity.
  - destruct (issue_closed st c KSet (fun rid => RReg rid u on) (EDone c (st_next st) (Some E_NOTCONN)) Hc) as [W E].
    destruct (issue _ _ _ _ _) as [st1 ev]. cbn [fst snd] in *. subst ev.
    split; [exact W|]. intros e [<-|[]]. split; reflexivity.
  - destruct (issue_closed st c KSet (fun rid => RMode rid u h) (EDone c (st_next st) (Some E_NOTCONN)) Hc) as [W E].
    destruct (issue _ _ _ _ _) as [st1 ev]. cbn [fst snd] in *. subst ev.
    split; [exact W|]. intros e [<-|[]]. split; reflexivity.
  - destruct (issue_closed st c KSet (fun rid => RName rid u nm) (EDone c (st_next st) (Some E_NOTCONN)) Hc) as [W E].
    destruct (issue _ _ _ _ _) as [st1 ev]. cbn [fst snd] in *. subst ev.
    split; [exact W|]. intros e [<-|[]]. split; reflexivity.
  - destruct (issue_closed st c KInfo (fun rid => RInfo rid u)
       (EInfo c (st_next st) (Some E_NOTCONN) 0 None false) Hc) as [W E].
    destruct (issue _ _ _ _ _) as [st1 ev]. cbn [fst snd] in *. subst ev.
    split; [exact W|]. intros e [<-|[]]. split; reflexivity.
  - destruct (issue_closed st c KSet (fun rid => ROpq rid kd u) (EDone c (st_next st) (Some E_NOTCONN)) Hc) as [W E].
    destruct (issue _ _ _ _ _) as [st1 ev]. cbn [fst snd] in *. subst ev.
    split; [exact W|]. intros e [<-|[]]. split; reflexivity.
  - (* Stop() again *)
    cbn. split; [|intros e []]. repeat split; try reflexivity.
    intros y. cbn. unfold updf. destruct (y =? c) eqn:E; [|reflexivity].
    apply N.eqb_eq in E; subst. destruct (st_cl st c) as [kc ko kq ks]. cbn in Hc. subst kc. reflexivity.
  - unfold cli_step. rewrite Hc. cbn. split; [apply same_world_refl|intros e []].
Qed.

(* the poller never dispatches a gone client's descriptor; if a schedule names it, only the
   wake-up time of that loop iteration is refreshed *)
Lemma gone_srv_step st c : sv_alive (st_sv st) c = false -> srv_step st c = (st, 0).
Proof. intros H. unfold srv_step. rewrite H. reflexivity. Qed.

(* gone is forever *)
Lemma alive_mono_kill st x y : sv_alive (st_sv (kill st x)) y = true -> sv_alive (st_sv st) y = true.
Proof.
  unfold kill. destruct (st_busy st); cbn; unfold updf; destruct (y =? x); try discriminate; tauto.
Qed.
Lemma closed_kill st x y : k_closed (st_cl (kill st x) y) = k_closed (st_cl st y).
Proof.
  unfold kill. destruct (st_busy st); cbn; unfold updf; destruct (y =? x) eqn:E; try reflexivity;
    apply N.eqb_eq in E; subst; reflexivity.
Qed.
Lemma gone_fold_kill l : forall st c, gone st c -> gone (fold_left kill l st) c.
Proof.
  induction l as [|x l IH]; intros st c G; cbn; [exact G|]. apply IH. destruct G as [G1 G2]. split.
  - rewrite closed_kill. exact G1.
  - destruct (sv_alive (st_sv (kill st x)) c) eqn:E; [|reflexivity]. apply alive_mono_kill in E. congruence.
Qed.

Definition keeps (a b : state) : Prop :=
  (forall y, k_closed (st_cl b y) = true -> k_closed (st_cl a y) = true) /\
  (forall y, sv_alive (st_sv b) y = false -> sv_alive (st_sv a) y = false).
Lemma keeps_refl a : keeps a a. Proof. split; tauto. Qed.
Lemma keeps_trans a b c : keeps a b -> keeps b c -> keeps a c.
Proof. intros [A1 A2] [B1 B2]. split; intros y H; [apply A1, B1, H|apply A2, B2, H]. Qed.
Lemma keeps_gone a b c : keeps a b -> gone b c -> gone a c.
Proof. intros [A1 A2] [G1 G2]. split; [apply A1, G1|apply A2, G2]. Qed.

Lemma keeps_close_chan st x : keeps (close_chan st x) st.
Proof. unfold close_chan. destruct (memb x (st_pend st)); split; intros y H; exact H. Qed.
Lemma keeps_send_to st x m : keeps (send_to st x m) st.
Proof.
  unfold send_to. destruct (negb (sv_alive (st_sv st) x)); [apply keeps_refl|].
  destruct (memb x (st_pend st)); [apply keeps_refl|].
  destruct (k_closed (st_cl st x)) eqn:Ec; [apply keeps_close_chan|].
  split; intros y H; cbn in *; [|exact H]. unfold updf. destruct (y =? x) eqn:E; [|exact H].
  apply N.eqb_eq in E; subst. congruence.
Qed.
Lemma keeps_update_dependants st x : keeps (update_dependants st x) st.
Proof.
  unfold update_dependants. generalize (u_sinks x) st. intros l. induction l as [|s l IH]; intros st0; cbn.
  - apply keeps_refl.
  - eapply keeps_trans; [apply IH|apply keeps_send_to].
Qed.
Lemma keeps_apply_dmx st c x d p : keeps (apply_dmx st c x d p) st.
Proof.
  unfold apply_dmx. destruct (merge_all _ _ _ _) as [x2 ch].
  destruct ch; [eapply keeps_trans; [apply keeps_update_dependants|]|]; split; intros y H; exact H.
Qed.
Lemma keeps_handle_req st c r : keeps (fst (handle_req st c r)) st.
Proof.
  destruct r; cbn [handle_req].
  - destruct (find_uni _ _); cbn [fst]; [apply keeps_apply_dmx|split; intros y H; exact H].
  - destruct (find_uni _ _); cbn [fst]; [apply keeps_apply_dmx|split; intros y H; exact H].
  - destruct (find_uni _ _); apply keeps_refl.
  - destruct on; destruct (find_uni _ _); cbn; split; intros y H; exact H.
  - destruct (find_uni _ _); cbn; split; intros y H; exact H.
  - destruct (find_uni _ _); cbn; split; intros y H; exact H.
  - destruct (find_uni _ _); apply keeps_refl.
  - apply keeps_refl.
  - apply keeps_refl.
Qed.
Lemma keeps_kill st x : keeps (kill st x) st.
Proof.
  split; intros y H.
  - rewrite closed_kill. exact H.
  - destruct (sv_alive (st_sv (kill st x)) y) eqn:E; [|reflexivity]. apply alive_mono_kill in E. congruence.
Qed.
Lemma keeps_flush st : keeps (flush st) st.
Proof.
  unfold flush. assert (forall l s, keeps (fold_left kill l s) s) as H.
  { induction l as [|x l IH]; intros s; cbn; [apply keeps_refl|]. eapply keeps_trans; [apply IH|apply keeps_kill]. }
  eapply keeps_trans; [apply H|]. split; intros y Hy; exact Hy.
Qed.
Lemma keeps_srv_step st c : keeps (fst (srv_step st c)) st.
Proof.
  unfold srv_step. destruct (negb (sv_alive (st_sv st) c)); [apply keeps_refl|].
  destruct (k_c2s (st_cl st c)) as [|r rest].
  - destruct (k_closed (st_cl st c)); cbn [fst]; [|apply keeps_refl].
    eapply keeps_trans; [apply keeps_flush|apply keeps_close_chan].
  - match goal with |- context [handle_req ?s c r] => pose proof (keeps_handle_req s c r) as H;
      destruct (handle_req s c r) as [st2 rep] end.
    cbn [fst] in *. eapply keeps_trans; [apply keeps_flush|].
    assert (keeps st2 st) as H2.
    { eapply keeps_trans; [exact H|]. split; intros y Hy; cbn in *; [|exact Hy].
      unfold updf. destruct (y =? c) eqn:E; [apply N.eqb_eq in E; subst; exact Hy|exact Hy]. }
    destruct rep; [eapply keeps_trans; [|exact H2]; eapply keeps_trans; [|apply keeps_send_to]|];
      try (split; intros y Hy; exact Hy). exact H2.
Qed.

Lemma keeps_housekeeping sv y : sv_alive (housekeeping sv) y = sv_alive sv y.
Proof.
  unfold housekeeping. cbn.
  assert (forall l sv0, sv_alive (fold_left gc_one l sv0) = sv_alive sv0) as Hf.
  { induction l as [|u l IH]; intros sv0; cbn; [reflexivity|]. rewrite IH. unfold gc_one.
    destruct (find_uni _ _); [destruct (uni_active _)|]; reflexivity. }
  rewrite Hf. reflexivity.
Qed.

Lemma keeps_step st o : keeps (fst (fst (step st o))) st.
Proof.
  destruct o; cbn [step].
  - destruct acked.
    + unfold issue. destruct (k_closed (st_cl st c)) eqn:Ec; cbn; [split; intros y H; exact H|].
      split; intros y H; cbn in *; [|exact H]. unfold updf. destruct (y =? c) eqn:E; [apply N.eqb_eq in E; subst; congruence|exact H].
    + destruct (k_closed (st_cl st c)) eqn:Ec; cbn; [split; intros y H; exact H|].
      split; intros y H; cbn in *; [|exact H]. unfold updf. destruct (y =? c) eqn:E; [apply N.eqb_eq in E; subst; congruence|exact H].
  - unfold issue. destruct (k_closed (st_cl st c)) eqn:Ec; cbn; [split; intros y H; exact H|].
    split; intros y H; cbn in *; [|exact H]. unfold updf. destruct (y =? c) eqn:E; [apply N.eqb_eq in E; subst; congruence|exact H].
  - unfold issue. destruct (k_closed (st_cl st c)) eqn:Ec; cbn; [split; intros y H; exact H|].
    split; intros y H; cbn in *; [|exact H]. unfold updf. destruct (y =? c) eqn:E; [apply N.eqb_eq in E; subst; congruence|exact H].
  - unfold issue. destruct (k_closed (st_cl st c)) eqn:Ec; cbn; [split; intros y H; exact H|].
    split; intros y H; cbn in *; [|exact H]. unfold updf. destruct (y =? c) eqn:E; [apply N.eqb_eq in E; subst; congruence|exact H].
  - unfold issue. destruct (k_closed (st_cl st c)) eqn:Ec; cbn; [split; intros y H; exact H|].
    split; intros y H; cbn in *; [|exact H]. unfold updf. destruct (y =? c) eqn:E; [apply N.eqb_eq in E; subst; congruence|exact H].
  - unfold issue. destruct (k_closed (st_cl st c)) eqn:Ec; cbn; [split; intros y H; exact H|].
    split; intros y H; cbn in *; [|exact H]. unfold updf. destruct (y =? c) eqn:E; [apply N.eqb_eq in E; subst; congruence|exact H].
  - unfold issue. destruct (k_closed (st_cl st c)) eqn:Ec; cbn; [split; intros y H; exact H|].
    split; intros y H; cbn in *; [|exact H]. unfold updf. destruct (y =? c) eqn:E; [apply N.eqb_eq in E; subst; congruence|exact H].
  - cbn. split; intros y H; cbn in *; [|exact H]. unfold updf. destruct (y =? c); [reflexivity|exact H].
  - cbn. split; intros y H; exact H.
  - split; intros y H; [exact H|]. change (sv_alive (housekeeping (st_sv st)) y = false).
    rewrite keeps_housekeeping. exact H.
  - pose proof (keeps_srv_step (wake_up st) c) as H. destruct (srv_step (wake_up st) c). exact H.
  - unfold cli_step. destruct (k_closed (st_cl st c)) eqn:Ec; [apply keeps_refl|].
    destruct (k_s2c (st_cl st c)) as [|m rest]; [apply keeps_refl|].
    assert (forall k', k_closed k' = false -> keeps (set_cl st c k') st) as Hs.
    { intros k' Hk. split; intros y H; cbn in *; [|exact H]. unfold updf.
      destruct (y =? c) eqn:E; [apply N.eqb_eq in E; subst; congruence|exact H]. }
    destruct m; cbn [msg_rid]; try (apply Hs; reflexivity);
      destruct (out_take _ _) as [[kd o]|]; cbn [fst]; try (apply Hs; reflexivity);
      (eapply keeps_trans; [|apply Hs; reflexivity]; split; intros y H; exact H).
  - cbn. split; intros y H; exact H.
  - pose proof (keeps_srv_step st c) as H. destruct (srv_step st c) as [st1 t]. cbn [fst] in *.
    eapply keeps_trans; [|exact H]. split; intros y Hy; exact Hy.
Qed.

Lemma gone_run st ops c : gone st c -> gone (run st ops) c.
Proof.
  revert st. induction ops as [|o ops IH]; intros st G; cbn; [exact G|].
  apply IH. eapply keeps_gone; [apply keeps_step|exact G].
Qed.
