(* With RpcServer::ChannelClosed deferring the notification, OlaServer::ClientRemoved never runs
   while a service method is on the stack: the hazard flag is unreachable under every schedule. *)
From OlaBase Require Import Bytes.
From C04 Require Import Gen Model Proofs.
Local Open Scope N_scope.

Definition bh_eq (a b : state) : Prop := st_busy a = st_busy b /\ st_hz a = st_hz b.
Lemma bh_refl a : bh_eq a a. Proof. split; reflexivity. Qed.
Lemma bh_trans a b c : bh_eq a b -> bh_eq b c -> bh_eq a c.
Proof. intros [A B] [C D]. split; congruence. Qed.

Lemma bh_close_chan st x : bh_eq (close_chan st x) st.
Proof. unfold close_chan. destruct (memb x (st_pend st)); split; reflexivity. Qed.
Lemma bh_send_to st x m : bh_eq (send_to st x m) st.
Proof.
  unfold send_to. destruct (negb (sv_alive (st_sv st) x)); [apply bh_refl|].
  destruct (memb x (st_pend st)); [apply bh_refl|].
  destruct (k_closed (st_cl st x)); [apply bh_close_chan|split; reflexivity].
Qed.
Lemma bh_update_dependants st x : bh_eq (update_dependants st x) st.
Proof.
  unfold update_dependants. generalize (u_sinks x) st. intros l. induction l as [|s l IH]; intros st0; cbn.
  - apply bh_refl.
  - eapply bh_trans; [apply IH|apply bh_send_to].
Qed.
Lemma bh_apply_dmx st c x d p : bh_eq (apply_dmx st c x d p) st.
Proof.
  unfold apply_dmx. destruct (merge_all _ _ _ _) as [x2 ch]. destruct ch.
  - eapply bh_trans; [apply bh_update_dependants|split; reflexivity].
  - split; reflexivity.
Qed.
Lemma bh_handle_req st c r : bh_eq (fst (handle_req st c r)) st.
Proof.
  destruct r; cbn [handle_req].
  - destruct (find_uni _ _); cbn; [apply bh_apply_dmx|split; reflexivity].
  - destruct (find_uni _ _); cbn; [apply bh_apply_dmx|split; reflexivity].
  - destruct (find_uni _ _); cbn; apply bh_refl.
  - destruct on; destruct (find_uni _ _); cbn; split; reflexivity.
  - destruct (find_uni _ _); cbn; split; reflexivity.
  - destruct (find_uni _ _); cbn; split; reflexivity.
  - destruct (find_uni _ _); cbn; apply bh_refl.
  - apply bh_refl.
  - apply bh_refl.
Qed.

Lemma kill_idle st c : st_busy st = false ->
  st_busy (kill st c) = false /\ st_hz (kill st c) = st_hz st /\ st_pend (kill st c) = st_pend st.
Proof. intros H. unfold kill. rewrite H. repeat split; assumption. Qed.

Lemma fold_kill_idle l : forall st, st_busy st = false ->
  st_busy (fold_left kill l st) = false /\ st_hz (fold_left kill l st) = st_hz st /\
  st_pend (fold_left kill l st) = st_pend st.
Proof.
  induction l as [|x l IH]; intros st H; cbn; [repeat split; assumption|].
  destruct (kill_idle st x H) as (A & B & C).
  destruct (IH (kill st x) A) as (D & E & F). repeat split; congruence.
Qed.

Lemma flush_idle st : st_busy st = false ->
  st_busy (flush st) = false /\ st_hz (flush st) = st_hz st /\ st_pend (flush st) = [].
Proof.
  intros H. unfold flush.
  destruct (fold_kill_idle (st_pend st) (set_pend st []) H) as (A & B & C). repeat split; assumption.
Qed.

Definition quiet (st : state) : Prop := st_pend st = [] /\ st_busy st = false /\ st_hz st = false.

Lemma quiet_srv_step st c : quiet st -> quiet (fst (srv_step st c)).
Proof.
  intros (Hp & Hb & Hh). unfold srv_step.
  destruct (negb (sv_alive (st_sv st) c)); [repeat split; assumption|].
  destruct (k_c2s (st_cl st c)) as [|r rest].
  - destruct (k_closed (st_cl st c)); cbn [fst]; [|repeat split; assumption].
    destruct (bh_close_chan st c) as [B1 B2].
    destruct (flush_idle (close_chan st c)) as (A & B & C); [congruence|].
    repeat split; congruence.
  - match goal with |- context [handle_req ?s c r] => pose proof (bh_handle_req s c r) as H;
      destruct (handle_req s c r) as [st2 rep] end.
    cbn [fst] in *. destruct H as [H1 H2]. cbn in H1, H2.
    set (st3 := match rep with None => st2 | Some m => send_to st2 c m end).
    assert (st_hz st3 = false) as H3.
    { subst st3. destruct rep; [destruct (bh_send_to st2 c s); congruence|congruence]. }
    destruct (flush_idle (set_busy st3 false) eq_refl) as (A & B & C).
    repeat split; [exact C|exact A|]. rewrite B. exact H3.
Qed.

Lemma quiet_step st o : quiet st -> quiet (fst (fst (step st o))).
Proof.
  intros Q. destruct o; cbn [step].
  - destruct acked.
    + unfold issue. destruct (k_closed (st_cl st c)); cbn; exact Q.
    + destruct (k_closed (st_cl st c)); cbn; exact Q.
  - unfold issue. destruct (k_closed (st_cl st c)); cbn; exact Q.
  - unfold issue. destruct (k_closed (st_cl st c)); cbn; exact Q.
  - unfold issue. destruct (k_closed (st_cl st c)); cbn; exact Q.
  - unfold issue. destruct (k_closed (st_cl st c)); cbn; exact Q.
  - unfold issue. destruct (k_closed (st_cl st c)); cbn; exact Q.
  - unfold issue. destruct (k_closed (st_cl st c)); cbn; exact Q.
  - exact Q.
  - exact Q.
  - exact Q.
  - pose proof (quiet_srv_step (wake_up st) c Q) as H. destruct (srv_step (wake_up st) c). exact H.
  - unfold cli_step. destruct (k_closed (st_cl st c)); [exact Q|].
    destruct (k_s2c (st_cl st c)) as [|m rest]; [exact Q|].
    destruct m; cbn [msg_rid]; try exact Q;
      destruct (out_take _ _) as [[kd o]|]; exact Q.
  - exact Q.
  - pose proof (quiet_srv_step st c Q) as H. destruct (srv_step st c). exact H.
Qed.

Lemma quiet_run st ops : quiet st -> quiet (run st ops).
Proof.
  revert st. induction ops as [|o ops IH]; intros st Q; cbn; [exact Q|]. apply IH, quiet_step, Q.
Qed.

Lemma never_hazard n ops : st_hz (run (init_state n) ops) = false.
Proof. apply (quiet_run (init_state n) ops). repeat split. Qed.
